(* C05, rows: the teletext display standards.  The reader prepends the start-box code 11 to a row without one and
   parses it with the teletext row parser and the STL styler; on the text field written for an item it returns the
   lines and runs of the item, with the number of ASCII spaces around each run's untrimmed text. *)
From Coq Require Import List ZArith NArith Bool Lia ZifyBool ZifyN ZifyNat.
From Astisub Require Import Kit.Base Kit.Str Kit.Utf8 Model.Dur Model.Stl Gen.StlTables Proofs.StlCodec Proofs.StlRows.
Import ListNotations.
Open Scope N_scope.

(* ================= leading and trailing spaces of a trimmed text ================= *)
Definition nsp (s : str) : Prop := match s with c :: _ => (c =? 32) = false | [] => False end.

Lemma nsp_lead s x : nsp s -> lead_spaces (s ++ x) = 0.
Proof. destruct s as [|c s]; [contradiction|]. cbn [nsp app lead_spaces]. intros ->. reflexivity. Qed.
Lemma nsp_lead0 s : nsp s -> lead_spaces s = 0.
Proof. intros H. rewrite <- (app_nil_r s). apply nsp_lead, H. Qed.
Lemma lead_32 s : lead_spaces (32 :: s) = 1 + lead_spaces s.
Proof. reflexivity. Qed.

Lemma strip_none_nsp s : s <> [] -> strip_space1 s = None -> nsp s.
Proof.
  destruct s as [|c t]; [contradiction|]. intros _. unfold strip_space1, nsp, is_ascii_space.
  destruct (c =? 32); [cbn [orb]; discriminate | reflexivity].
Qed.
Lemma strip_rev_none_nsp s : s <> [] -> strip_space1_rev s = None -> nsp s.
Proof.
  destruct s as [|c t]; [contradiction|]. intros _. unfold strip_space1_rev, nsp, is_ascii_space.
  destruct (c =? 32); [cbn [orb]; discriminate | reflexivity].
Qed.

Lemma trim_right_fixed_strip s : s <> [] -> trim_right_fuel (length s) s = s -> strip_space1_rev s = None.
Proof.
  intros Hne H. destruct s as [|c t]; [contradiction|].
  cbn [length trim_right_fuel] in H. destruct (strip_space1_rev (c :: t)) as [r|] eqn:E; [|reflexivity].
  exfalso. destruct (strip_space1_rev_suffix _ _ E) as (p & Hp & Hs).
  destruct (trim_right_fuel_suffix (length t) r) as (p2 & Hr). rewrite H in Hr.
  assert (Hl : (length (c :: t) = length p + (length p2 + length (c :: t)))%nat).
  { rewrite Hs at 1. rewrite app_length. rewrite Hr at 1. rewrite app_length. reflexivity. }
  destruct p; [contradiction | cbn [length] in Hl; lia].
Qed.

Lemma trimmed_nsp t : t <> [] -> trim_space t = t -> nsp t /\ nsp (rev t).
Proof.
  intros Hne H. destruct (trim_space_fixed t H) as [Hl Hr]. split.
  - apply strip_none_nsp; [exact Hne|]. apply trim_left_fixed_strip; assumption.
  - assert (Hrne : rev t <> []) by (intros E; apply Hne; rewrite <- (rev_involutive t), E; reflexivity).
    apply strip_rev_none_nsp; [exact Hrne|]. apply trim_right_fixed_strip; [exact Hrne|].
    unfold trim_right in Hr. rewrite rev_length. apply (f_equal (@rev N)) in Hr. rewrite rev_involutive in Hr. exact Hr.
Qed.

(* ================= the teletext row parser on the writer's bytes ================= *)
Definition sp_before (first : bool) (r : wrun) : N := if run_styled r then 0 else if first then 0 else 1.
Definition sp_after (r : wrun) (l' : list wrun) : N := if run_styled r then 0 else match l' with [] => 0 | _ => 1 end.
(* what the reader returns for a line: as for open subtitling, and the ASCII spaces around the untrimmed text: the
   separating space lands in the text of an unstyled run, never in that of a styled one *)
Fixpoint expected_ttx_from (first : bool) (a : sattr_stl) (l : list wrun) : list erun :=
  match l with
  | [] => []
  | r :: l' => mkErun (wr_text r) (open_attr r a) (Some (sp_before first r)) (Some (sp_after r l'))
               :: expected_ttx_from false (close_attr r a) l'
  end.
Definition expected_ttx_line (l : list wrun) : list erun := expected_ttx_from true sattr0_stl l.

Lemma table_11 : alookup 11 stl_table = None.
Proof. vm_compute. reflexivity. Qed.

(* the start-box code *)
Lemma ttx_start row acc : stl_ttx_row (11 :: row) [] [] sattr0_stl false acc = stl_ttx_row row [] [] sattr0_stl true acc.
Proof.
  cbn [stl_ttx_row]. change (11 <=? 7) with false. change (11 =? 10) with false. change (11 =? 11) with true.
  change (11 =? 12) with false. change (11 =? 13) with false. change (11 =? 14) with false. change (11 =? 15) with false.
  change (10 <=? 11) with true. change (11 <=? 15) with true. cbn [orb andb o_some].
  unfold decode1. rewrite table_11. reflexivity.
Qed.

(* a style code closes the current run *)
Lemma ttx_sty v c r items text a acc :
  In (v, c) [(128, (0, true)); (129, (0, false)); (130, (1, true)); (131, (1, false)); (132, (2, true)); (133, (2, false))] ->
  stl_ttx_row (v :: r) items text a true acc = stl_ttx_row r (stl_append_ttx items text a) [] (sty_update a c) true acc.
Proof.
  intros H. cbn [In] in H. destruct a as [ai au ab [ac|] [ad|] [ae|] [af|]];
  repeat (destruct H as [H | H]; [inversion H; subst; reflexivity|]); contradiction.
Qed.

Lemma ttx_plain1 b r items text a acc : (b <=? 31) = false -> sty_code b = None ->
  stl_ttx_row (b :: r) items text a true acc =
  let '(o, acc') := decode1 acc b in stl_ttx_row r items (text ++ o) a true acc'.
Proof.
  intros Hb Hs. cbn [stl_ttx_row]. rewrite Hs.
  replace (b <=? 7) with false by lia. replace (b =? 10) with false by lia. replace (b =? 11) with false by lia.
  replace (b =? 12) with false by lia. replace (b =? 13) with false by lia. replace (b =? 14) with false by lia.
  replace (b =? 15) with false by lia. cbn [orb o_some]. destruct ((10 <=? b) && (b <=? 15)); reflexivity.
Qed.

Lemma ttx_plain bs : forall rest items text a acc, forallb plainb bs = true ->
  stl_ttx_row (bs ++ rest) items text a true acc =
  let '(o, acc') := decode_bytes acc bs in stl_ttx_row rest items (text ++ o) a true acc'.
Proof.
  induction bs as [|b bs IH]; intros rest items text a acc H; cbn [app decode_bytes].
  - rewrite app_nil_r. reflexivity.
  - cbn [forallb] in H. apply andb_true_iff in H. destruct H as [Hb Hbs].
    destruct (plainb_spec b Hb) as (H1 & H2 & _). rewrite (ttx_plain1 b _ items text a acc H1 H2).
    destruct (decode1 acc b) as [o acc1]. rewrite (IH rest items (text ++ o) a acc1 Hbs).
    destruct (decode_bytes acc1 bs) as [o2 acc2]. rewrite app_assoc. reflexivity.
Qed.

Lemma ttx_text r rest items text a : run_repr r ->
  stl_ttx_row (encode_text_stl (wr_text r) ++ rest) items text a true None = stl_ttx_row rest items (text ++ wr_text r) a true None.
Proof. intros H. destruct (text_bytes r H) as [P D]. rewrite ttx_plain by exact P. rewrite D. reflexivity. Qed.

Lemma ttx_pad k : forall items text a acc,
  stl_ttx_row (repeat 143 k) items text a true acc = (rev (stl_append_ttx items text a), acc).
Proof.
  induction k as [|k IH]; intros items text a acc; cbn [repeat]; [reflexivity|].
  rewrite (ttx_plain1 143) by reflexivity. rewrite decode1_143, app_nil_r. apply IH.
Qed.
Lemma ttx_32 rest items text a : stl_ttx_row (32 :: rest) items text a true None = stl_ttx_row rest items (text ++ [32]) a true None.
Proof. rewrite (ttx_plain1 32) by reflexivity. rewrite decode1_32. reflexivity. Qed.

Lemma append_ttx_nil items a : stl_append_ttx items [] a = items.
Proof. reflexivity. Qed.
Lemma append_ttx_sp items a : stl_append_ttx items [32] a = items.
Proof. reflexivity. Qed.
Lemma append_ttx_keep items t' t a : trim_space t' = t -> t <> [] ->
  stl_append_ttx items t' a = mkErun t a (Some (lead_spaces t')) (Some (lead_spaces (rev t'))) :: items.
Proof. intros H Hne. unfold stl_append_ttx. rewrite H. destruct t; [contradiction | reflexivity]. Qed.

Lemma ttx_styled_run r rest items pre a : run_repr r -> run_styled r = true ->
  stl_ttx_row (run_bytes r ++ rest) items pre a true None =
  stl_ttx_row rest (mkErun (wr_text r) (open_attr r a) (Some 0) (Some 0) :: stl_append_ttx items pre a) [] (close_attr r a) true None.
Proof.
  intros H Hs. pose proof (ttx_text r) as T. destruct H as (Hne & Htr & Hcs).
  assert (H : run_repr r) by (repeat split; assumption).
  destruct (trimmed_nsp _ Hne Htr) as [N1 N2]. apply nsp_lead0 in N1. apply nsp_lead0 in N2.
  unfold run_bytes, run_styled, open_attr, close_attr in *. destruct r as [t it un bx]. cbn [wr_text wr_it wr_un wr_bx] in *.
  destruct it, un, bx; try discriminate; unfold wrapb; cbn [app]; rewrite <- ?app_assoc; cbn [app];
    repeat (first [ rewrite (ttx_sty 128 (0, true)) by (cbn [In]; tauto)
                  | rewrite (ttx_sty 130 (1, true)) by (cbn [In]; tauto)
                  | rewrite (ttx_sty 132 (2, true)) by (cbn [In]; tauto) ]);
    rewrite (T _ _ _ _ H), ?append_ttx_nil; cbn [app];
    repeat (first [ rewrite (ttx_sty 129 (0, false)) by (cbn [In]; tauto)
                  | rewrite (ttx_sty 131 (1, false)) by (cbn [In]; tauto)
                  | rewrite (ttx_sty 133 (2, false)) by (cbn [In]; tauto) ]);
    rewrite (append_ttx_keep _ t t _ Htr Hne), ?append_ttx_nil, N1, N2; destruct a; reflexivity.
Qed.

Lemma ttx_plain_run r rest items pre a : run_repr r -> run_styled r = false ->
  stl_ttx_row (run_bytes r ++ rest) items pre a true None = stl_ttx_row rest items (pre ++ wr_text r) a true None.
Proof.
  intros H Hs. pose proof (ttx_text r rest items pre a H) as T.
  unfold run_bytes, run_styled in *. destruct r as [t [|] [|] [|]]; cbn [wr_text wr_it wr_un wr_bx orb] in *; try discriminate.
  exact T.
Qed.

(* ---- one line ---- *)
Lemma ttx_line_go k : forall l first items pre a, l <> [] -> Forall run_repr l -> no_adjacent_plain l ->
  (match l with r :: _ => run_styled r = false | [] => False end -> (first = true /\ pre = []) \/ (first = false /\ pre = [32])) ->
  stl_ttx_row (line_bytes l ++ repeat 143 k) items pre a true None
  = (rev (stl_append_ttx items pre a) ++ expected_ttx_from first a l, None).
Proof.
  unfold line_bytes. induction l as [|r l IH]; intros first items pre a Hne HF Hadj Hpre; [contradiction|].
  inversion HF as [|? ? Hr HF']; subst. cbn [expected_ttx_from]. unfold sp_before, sp_after.
  destruct (run_styled r) eqn:Hs.
  - (* styled *)
    destruct l as [|r2 l2].
    + cbn [map join]. rewrite (ttx_styled_run r _ items pre a Hr Hs), ttx_pad, append_ttx_nil. reflexivity.
    + cbn [map]. rewrite join_cons2, <- !app_assoc. rewrite (ttx_styled_run r _ items pre a Hr Hs).
      cbn [app]. rewrite ttx_32. cbn [app].
      change (join [32] (run_bytes r2 :: map run_bytes l2)) with (join [32] (map run_bytes (r2 :: l2))).
      rewrite (IH false); [| discriminate | exact HF' | exact (proj2 Hadj) | intros _; right; split; reflexivity].
      rewrite append_ttx_sp. cbn [rev]. rewrite <- app_assoc. reflexivity.
  - (* unstyled: pre is blank *)
    destruct (open_attr_plain r a Hs) as [Eo Ec]. rewrite Eo, Ec.
    destruct Hr as (Hne_t & Htr & Hcs). assert (Hr : run_repr r) by (repeat split; assumption).
    destruct (trimmed_nsp _ Hne_t Htr) as [N1 N2].
    assert (Hblank : stl_append_ttx items pre a = items) by (destruct (Hpre eq_refl) as [[_ ->] | [_ ->]]; reflexivity).
    destruct l as [|r2 l2].
    + cbn [map join]. rewrite (ttx_plain_run r _ items pre a Hr Hs), ttx_pad, Hblank.
      destruct (Hpre eq_refl) as [[-> ->] | [-> ->]]; cbn [app].
      * rewrite (append_ttx_keep items _ (wr_text r) a Htr Hne_t), (nsp_lead0 _ N1), (nsp_lead0 _ N2). reflexivity.
      * rewrite (append_ttx_keep items (32 :: wr_text r) (wr_text r) a Htr Hne_t). cbn [rev].
        rewrite lead_32, (nsp_lead0 _ N1), (nsp_lead _ [32] N2). reflexivity.
    + cbn [map]. rewrite join_cons2, <- !app_assoc. rewrite (ttx_plain_run r _ items pre a Hr Hs).
      cbn [app]. rewrite ttx_32.
      change (join [32] (run_bytes r2 :: map run_bytes l2)) with (join [32] (map run_bytes (r2 :: l2))).
      destruct Hadj as [[Hadj | Hadj] Hadj2]; [rewrite Hs in Hadj; discriminate|].
      rewrite (IH false); [| discriminate | exact HF' | exact Hadj2 | intros Hc; rewrite Hadj in Hc; discriminate].
      pose proof (trim_space_snoc32 _ Hne_t Htr) as Hk.
      destruct (Hpre eq_refl) as [[-> ->] | [-> ->]]; cbn [app] in *.
      * rewrite (append_ttx_keep items _ (wr_text r) a Hk Hne_t). rewrite rev_app_distr. cbn [rev app].
        rewrite lead_32, (nsp_lead _ [32] N1), (nsp_lead0 _ N2). cbn [rev]. rewrite <- app_assoc. reflexivity.
      * rewrite (append_ttx_keep items (32 :: wr_text r ++ [32]) (wr_text r) a Hk Hne_t).
        cbn [rev]. rewrite rev_app_distr. cbn [rev app].
        rewrite !lead_32, (nsp_lead _ [32] N1), (nsp_lead _ [32] N2). cbn [rev]. rewrite <- app_assoc. reflexivity.
Qed.

Lemma ttx_line_row k l : line_repr l ->
  stl_ttx_row (line_bytes l ++ repeat 143 k) [] [] sattr0_stl true None = (expected_ttx_line l, None).
Proof.
  intros (Hne & HF & Hadj). rewrite (ttx_line_go k l true); [reflexivity | exact Hne | exact HF | exact Hadj | intros _; left; split; reflexivity].
Qed.
Lemma expected_ttx_line_nonnil l : l <> [] -> expected_ttx_line l <> [].
Proof. destruct l; [contradiction | discriminate]. Qed.

(* ================= rows ================= *)
Lemma okb_no11 bs : forallb okb bs = true -> nmem 11 bs = false.
Proof.
  unfold nmem. induction bs as [|b bs IH]; cbn [forallb existsb]; [reflexivity|]. intros H. apply andb_true_iff in H.
  destruct H as [Hb Hbs]. rewrite (IH Hbs). unfold okb in Hb. replace (11 =? b) with false by lia. reflexivity.
Qed.
Lemma pad_okb k : forallb okb (repeat 143 k) = true.
Proof. induction k as [|k IH]; [reflexivity|]. cbn [repeat forallb]. rewrite IH. reflexivity. Qed.

Lemma rows_ttx_step row rows l lines : nmem 11 row = false ->
  stl_ttx_row row [] [] sattr0_stl true None = (l, None) -> l <> [] ->
  rows_ttx (row :: rows) None lines = rows_ttx rows None (l :: lines).
Proof. intros Hn H Hne. cbn [rows_ttx]. rewrite Hn, ttx_start, H. destruct l; [contradiction | reflexivity]. Qed.

Lemma line_row_no11 k l : Forall run_repr l -> nmem 11 (line_bytes l ++ repeat 143 k) = false.
Proof. intros H. apply okb_no11. rewrite forallb_app, (line_bytes_okb l H), pad_okb. reflexivity. Qed.

Lemma rows_ttx_go k : forall ls lines, ls <> [] -> Forall line_repr ls ->
  rows_ttx (split_byte 138 (join [138] (map line_bytes ls) ++ repeat 143 k)) None lines
  = (rev lines ++ map expected_ttx_line ls, None).
Proof.
  induction ls as [|l ls IH]; intros lines Hne HF; [contradiction|].
  inversion HF as [|? ? Hl HF']; subst. pose proof Hl as (Hlne & Hruns & _).
  destruct ls as [|l2 ls].
  - cbn [map join]. rewrite split_byte_none.
    + rewrite (rows_ttx_step _ [] (expected_ttx_line l) lines (line_row_no11 k l Hruns) (ttx_line_row k l Hl) (expected_ttx_line_nonnil l Hlne)).
      reflexivity.
    + intros Hin. apply in_app_or in Hin. destruct Hin as [Hin | Hin]; [exact (line_bytes_ok l Hruns Hin) | exact (pad_not_in k Hin)].
  - cbn [map]. rewrite join_cons2, <- !app_assoc. cbn [app]. rewrite (split_byte_app 138 _ _ (line_bytes_ok l Hruns)).
    pose proof (ttx_line_row 0 l Hl) as R. pose proof (line_row_no11 0 l Hruns) as R11. cbn [repeat] in R, R11. rewrite app_nil_r in R, R11.
    rewrite (rows_ttx_step _ _ (expected_ttx_line l) lines R11 R (expected_ttx_line_nonnil l Hlne)).
    change (join [138] (line_bytes l2 :: map line_bytes ls)) with (join [138] (map line_bytes (l2 :: ls))).
    rewrite IH by (try discriminate; exact HF'). cbn [rev]. rewrite <- app_assoc. reflexivity.
Qed.

(* ================= the round trip ================= *)
Theorem ttx_rows_roundtrip : forall (i : witem),
  wi_lines i <> [] -> Forall line_repr (wi_lines i) ->
  (length (encode_text_stl (stl_item_text i)) <= 112)%nat ->
  rows_ttx (split_byte 138 (pad_right_cut 143 112 (encode_text_stl (stl_item_text i)))) None []
  = (map expected_ttx_line (wi_lines i), None).
Proof.
  intros i Hne HF Hlen. rewrite (pad_right_cut_short _ _ _ Hlen). rewrite (item_enc i HF). unfold item_bytes.
  rewrite (rows_ttx_go _ (wi_lines i) [] Hne HF). reflexivity.
Qed.

(* ---- effective flags, and the spaces ---- *)
Lemma eff_ttx_from : forall l first a, quiet a -> map eff (expected_ttx_from first a l) = map wflags l.
Proof.
  induction l as [|r l IH]; intros first a (Q1 & Q2 & Q3); [reflexivity|]. cbn [expected_ttx_from map]. f_equal.
  - unfold eff, wflags, open_attr. cbn [ru_text ru_at a_it a_un a_bx].
    destruct (wr_it r), (wr_un r), (wr_bx r); rewrite ?Q1, ?Q2, ?Q3; reflexivity.
  - apply IH. unfold quiet, close_attr. cbn [a_it a_un a_bx].
    destruct (wr_it r), (wr_un r), (wr_bx r); repeat split; first [reflexivity | assumption].
Qed.
Lemma eff_ttx_line l : map eff (expected_ttx_line l) = map wflags l.
Proof. apply eff_ttx_from. repeat split. Qed.

(* the spaces reported for the runs of a line: 1 before an unstyled run that is not first, 1 after an unstyled run that
   is not last, 0 elsewhere *)
Fixpoint line_spaces (first : bool) (l : list wrun) : list (option N * option N) :=
  match l with
  | [] => []
  | r :: l' => (Some (sp_before first r), Some (sp_after r l')) :: line_spaces false l'
  end.
Lemma spaces_ttx_from : forall l first a,
  map (fun x => (ru_sb x, ru_sa x)) (expected_ttx_from first a l) = line_spaces first l.
Proof. induction l as [|r l IH]; intros first a; [reflexivity|]. cbn [expected_ttx_from map line_spaces ru_sb ru_sa]. rewrite IH. reflexivity. Qed.

Corollary ttx_rows_flags : forall (i : witem),
  wi_lines i <> [] -> Forall line_repr (wi_lines i) ->
  (length (encode_text_stl (stl_item_text i)) <= 112)%nat ->
  exists lines,
    rows_ttx (split_byte 138 (pad_right_cut 143 112 (encode_text_stl (stl_item_text i)))) None [] = (lines, None)
    /\ map (map eff) lines = map (map wflags) (wi_lines i)
    /\ map (map (fun x => (ru_sb x, ru_sa x))) lines = map (line_spaces true) (wi_lines i).
Proof.
  intros i Hne HF Hlen. exists (map expected_ttx_line (wi_lines i)). split; [exact (ttx_rows_roundtrip i Hne HF Hlen)|]. split.
  - rewrite map_map. apply map_ext. exact eff_ttx_line.
  - rewrite map_map. apply map_ext. intros l. apply spaces_ttx_from.
Qed.

(* ================= the item of StlRows.v, read as teletext ================= *)
Example ex_item_ttx :
  rows_ttx (split_byte 138 (pad_right_cut 143 112 (encode_text_stl (stl_item_text ex_item)))) None []
  = ([ [ mkErun [67;97;102;195;169] sattr0_stl (Some 0) (Some 1);
         mkErun [120;32;121] (mkSattrStl (Some true) (Some true) None None None None None) (Some 0) (Some 0);
         mkErun [49;48;32;194;164] (mkSattrStl (Some false) (Some false) None None None None None) (Some 1) (Some 0) ];
       [ mkErun [72;105] (mkSattrStl None None (Some true) None None None None) (Some 0) (Some 0);
         mkErun [116;104;101;114;101] (mkSattrStl (Some true) None (Some false) None None None None) (Some 0) (Some 0) ] ], None).
Proof. vm_compute. reflexivity. Qed.
Example ex_item_ttx_thm :
  rows_ttx (split_byte 138 (pad_right_cut 143 112 (encode_text_stl (stl_item_text ex_item)))) None []
  = (map expected_ttx_line (wi_lines ex_item), None).
Proof. destruct ex_item_hyps as (H1 & H2 & H3). exact (ttx_rows_roundtrip ex_item H1 H2 H3). Qed.
