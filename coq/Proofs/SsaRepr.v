(* SSA/ASS: the representability predicate of the document-level theorems is decidable: a boolean checker, its
   soundness, and a non-trivial document that satisfies it. *)
From Coq Require Import Strings.String Strings.Ascii.
From Coq Require Import List ZArith NArith Bool Lia Permutation.
From Astisub Require Import Kit.Base Kit.Str Kit.Scan Model.Dur Model.Ssa.
From Astisub Require Import Proofs.VttBase Proofs.EolProofs Proofs.SsaFields Proofs.SsaText Proofs.SsaRows Proofs.SsaInfo Proofs.SsaStyles
  Proofs.SsaEvents Proofs.SsaDoc Proofs.SsaOrder.
Import ListNotations.
Open Scope N_scope.

Definition nobrkb (v : str) : bool := forallb (fun c => negb (is_brk c)) v.
Definition str_okb (v : str) : bool := str_eqb (trim_space v) v && nobrkb v.
Lemma str_okb_ok v : str_okb v = true -> str_ok v.
Proof. unfold str_okb, str_ok. intros H. apply andb_true_iff in H. destruct H as [H1 H2]. apply str_eqb_eq in H1. split; assumption. Qed.
Definition nocommab (s : str) : bool := negb (existsb (N.eqb 44) s).
Lemma nocommab_ok s : nocommab s = true -> ~ In 44 s.
Proof.
  unfold nocommab. intros H Hin. apply negb_true_iff in H. assert (E : existsb (N.eqb 44) s = true).
  { apply existsb_exists. exists 44. split; [exact Hin | reflexivity]. } congruence.
Qed.
Definition color_okb (c : acolor) : bool := (ac_a c <? 256) && (ac_b c <? 256) && (ac_g c <? 256) && (ac_r c <? 256).
Lemma color_okb_ok c : color_okb c = true -> color_ok c.
Proof. unfold color_okb, color_ok. intros H. repeat (apply andb_true_iff in H; destruct H as [H ?]). repeat split; apply N.ltb_lt; assumption. Qed.
Definition int_okb (v : Z) : bool := ((- max_int64 - 1 <=? v) && (v <=? max_int64))%Z.
Lemma int_okb_ok v : int_okb v = true -> int_ok v.
Proof. unfold int_okb, int_ok. intros H. apply andb_true_iff in H. destruct H as [H1 H2]. apply Z.leb_le in H1. apply Z.leb_le in H2. lia. Qed.
Definition float_okb (z : Z) : bool := ((- float_bound <? z) && (z <? float_bound))%Z.
Lemma float_okb_ok z : float_okb z = true -> float_ok z.
Proof. unfold float_okb, float_ok. intros H. apply andb_true_iff in H. destruct H as [H1 H2]. apply Z.ltb_lt in H1. apply Z.ltb_lt in H2. lia. Qed.

Definition optb {A} (f : A -> bool) (o : option A) : bool := match o with Some x => f x | None => true end.
Definition style_okb (s : astyle) : bool :=
  forallb (fun x => optb color_okb (cget x s)) [CBack; COutline; CPrimary; CSecondary] &&
  forallb (fun x => optb float_okb (fget x s)) [FAlphaLevel; FAngle; FFontSize; FOutline; FScaleX; FScaleY; FShadow; FSpacing] &&
  forallb (fun x => optb int_okb (iget x s)) [IAlignment; IBorderStyle; IEncoding; IMarginL; IMarginR; IMarginV] &&
  nocommab (ay_name s) && nocommab (ay_fontname s).
Lemma style_okb_ok s : style_okb s = true -> style_ok s.
Proof.
  unfold style_okb, style_ok. intros H. rewrite !andb_true_iff in H. destruct H as ((((Hc & Hf) & Hi) & Hn) & Hfn).
  rewrite forallb_forall in Hc, Hf, Hi. split; [|split; [|split; [|split]]].
  - intros x c E. apply color_okb_ok. specialize (Hc x). rewrite E in Hc. apply Hc. destruct x; cbn; tauto.
  - intros x f E. apply float_okb_ok. specialize (Hf x). rewrite E in Hf. apply Hf. destruct x; cbn; tauto.
  - intros x i E. apply int_okb_ok. specialize (Hi x). rewrite E in Hi. apply Hi. destruct x; cbn; tauto.
  - apply nocommab_ok. assumption.
  - apply nocommab_ok. assumption.
Qed.
Definition nonnilb (s : str) : bool := match s with [] => false | _ => true end.
Definition style_reprb (st : astyle) : bool := style_okb st && nonnilb (ay_name st) && str_okb (ay_name st) && str_okb (ay_fontname st).
Lemma style_reprb_ok st : style_reprb st = true -> style_repr st.
Proof.
  unfold style_reprb, style_repr. intros H. rewrite !andb_true_iff in H. destruct H as (((H1 & H2) & H3) & H4).
  split; [apply style_okb_ok; assumption|]. split; [destruct (ay_name st); [discriminate | discriminate]|].
  split; apply str_okb_ok; assumption.
Qed.
Fixpoint nodupb (l : list str) : bool := match l with [] => true | x :: r => negb (existsb (str_eqb x) r) && nodupb r end.
Lemma nodupb_ok l : nodupb l = true -> NoDup l.
Proof.
  induction l as [|x r IH]; intros H; [constructor|]. cbn [nodupb] in H. apply andb_true_iff in H. destruct H as [H1 H2].
  constructor; [|apply IH; exact H2]. intros Hin. apply negb_true_iff in H1.
  assert (E : existsb (str_eqb x) r = true) by (apply existsb_exists; exists x; split; [exact Hin | apply str_eqb_refl]). congruence.
Qed.
Definition styles_reprb (m : list (str * option astyle)) : bool :=
  let sts := opt_cells (map snd m) in
  forallb (fun p : str * option astyle => match snd p with Some st => str_eqb (fst p) (ay_name st) | None => false end) m &&
  nodupb (map ay_name sts) && sortedb (map ay_name sts) && forallb style_reprb sts.
Lemma styles_reprb_ok m : styles_reprb m = true -> styles_repr m (opt_cells (map snd m)).
Proof.
  unfold styles_reprb, styles_repr. intros H. rewrite !andb_true_iff in H. destruct H as (((H1 & H2) & H3) & H4).
  split; [|split; [apply nodupb_ok; assumption|]; split; [assumption|]].
  - clear -H1. induction m as [|[k [st|]] r IH]; [reflexivity| |]; cbn [forallb snd fst] in H1; apply andb_true_iff in H1; destruct H1 as [Ha Hb]; [|discriminate].
    apply str_eqb_eq in Ha. subst k. cbn [map snd opt_cells]. f_equal. apply IH. exact Hb.
  - apply Forall_forall. intros st Hst. apply style_reprb_ok. rewrite forallb_forall in H4. apply H4. exact Hst.
Qed.
Definition info_okb (b : ainfo) : bool :=
  forallb str_okb (an_comments b) && forallb (fun k => str_okb (kget k b)) ikeys_all &&
  forallb (fun k => optb int_okb (nget k b)) nkeys_all && optb float_okb (an_timer b).
Lemma info_okb_ok b : info_okb b = true -> info_ok b.
Proof.
  unfold info_okb, info_ok. intros H. rewrite !andb_true_iff in H. destruct H as (((H1 & H2) & H3) & H4).
  rewrite forallb_forall in H1, H2, H3. split; [|split; [|split]].
  - apply Forall_forall. intros c Hc. apply str_okb_ok. apply H1. exact Hc.
  - intros k. apply str_okb_ok. apply H2. destruct k; cbn; tauto.
  - intros k v E. apply int_okb_ok. specialize (H3 k). rewrite E in H3. apply H3. destruct k; cbn; tauto.
  - intros t E. rewrite E in H4. apply float_okb_ok. exact H4.
Qed.
Definition time_okb (t : Z) : bool := ((0 <=? t) && (t <=? max_int64))%Z.
Definition event_reprb (e : aevent) : bool :=
  time_okb (av_start e) && time_okb (av_end e) && int_okb (oz (av_layer e)) && int_okb (oz (av_ml e)) && int_okb (oz (av_mr e)) &&
  int_okb (oz (av_mv e)) && nocommab (av_effect e) && nocommab (av_name e) && nocommab (av_style e) &&
  nobrkb (av_effect e) && nobrkb (av_name e) && nobrkb (av_style e) && str_okb (av_text e).
Lemma event_reprb_ok e : event_reprb e = true -> event_repr e.
Proof.
  unfold event_reprb, event_repr, event_ok, time_okb. intros H. rewrite !andb_true_iff in H.
  destruct H as (((((((((((((Hs1 & Hs2) & (He1 & He2)) & Hl) & Hml) & Hmr) & Hmv) & Hce) & Hcn) & Hcs) & Hbe) & Hbn) & Hbs) & Ht).
  apply Z.leb_le in Hs1, Hs2, He1, He2. destruct (str_okb_ok _ Ht) as [Htt Hbt].
  split; [|repeat split; assumption].
  repeat split; try lia; try (apply int_okb_ok; assumption); apply nocommab_ok; assumption.
Qed.

Definition item_reprb (names : list str) (i : aitem) : bool :=
  event_reprb (event_of_item i) &&
  match ai_style i with
  | Some n => nonnilb n && negb (str_eqb n n_star_default) && existsb (str_eqb n) names
  | None => true
  end &&
  match ai_lines i with [] => false | _ => true end && forallb line_okb (ai_lines i).
Lemma item_reprb_ok names i : item_reprb names i = true -> item_repr names i.
Proof.
  unfold item_reprb, item_repr. intros H. rewrite !andb_true_iff in H. destruct H as (((H1 & H2) & H3) & H4).
  split; [apply event_reprb_ok; exact H1|]. split; [|split].
  - destruct (ai_style i) as [n|]; [|exact I]. rewrite !andb_true_iff in H2. destruct H2 as ((Ha & Hb) & Hc).
    split; [destruct n; discriminate|]. split.
    + intros E. rewrite E, str_eqb_refl in Hb. discriminate.
    + apply existsb_exists in Hc. destruct Hc as (x & Hx & E). apply str_eqb_eq in E. subst x. exact Hx.
  - destruct (ai_lines i); discriminate.
  - apply lines_okb_ok. exact H4.
Qed.
Definition doc_reprb (d : adoc) : bool :=
  styles_reprb (ad_styles d) && info_okb (canon_info d) &&
  match ad_items d with [] => false | _ => true end &&
  forallb (item_reprb (map ay_name (doc_styles d))) (ad_items d).
(* the representability predicate is decidable: a document accepted by the checker is representable *)
Theorem doc_reprb_ok d : doc_reprb d = true -> doc_repr d.
Proof.
  unfold doc_reprb, doc_repr. intros H. rewrite !andb_true_iff in H. destruct H as (((H1 & H2) & H3) & H4).
  split; [apply styles_reprb_ok; exact H1|]. split; [apply info_okb_ok; exact H2|]. split; [destruct (ad_items d); discriminate|].
  apply Forall_forall. intros i Hi. apply item_reprb_ok. rewrite forallb_forall in H4. apply H4. exact Hi.
Qed.

(* ---- a non-trivial representable document ---- *)
Open Scope string_scope.
Definition ex_info : ainfo :=
  mkAinfo [s2l "first comment"; s2l "second: one"] (s2l "Normal") [] (s2l "a: b") [] [] (s2l "v4.00+") [] [] (s2l "Title, with comma") [] []
          (Some 0%Z) (Some 384%Z) None (Some 100500%Z).
Definition ex_style1 : astyle :=
  mkAstyle (s2l "Alt one") (s2l "DejaVu Sans") (Some true) (Some false) None (Some true)
           (Some (mkAcolor 0 0 0 0)) None (Some (mkAcolor 0 255 128 7)) None
           (Some 0%Z) None (Some 20500%Z) (Some 1000%Z) (Some 100000%Z) None None (Some (-1500)%Z)
           (Some 2%Z) None (Some 1%Z) (Some 10%Z) (Some 10%Z) (Some (-3)%Z).
Definition ex_style2 : astyle :=
  mkAstyle (s2l "Default") [] None (Some true) None None None (Some (mkAcolor 127 1 2 3)) None None
           None (Some 45000%Z) None None None None None None None (Some 3%Z) None None None None.
Definition ex_item1 : aitem :=
  mkAitem 1234567890%Z 3723456789012%Z (Some (s2l "Default"))
          (Some (mkAevattr (s2l "Scroll up;10;100") (Some 2%Z) (Some 5%Z) None (Some 7%Z) None))
          [mkAline (s2l "Bob") [mkArun [] None];
           mkAline (s2l "Mary Ann") [mkArun (s2l "Hello, ") None; mkArun [] (Some (s2l "{\an8}")); mkArun (s2l "world") (Some (s2l "{\i1}"));
                                     mkArun [] (Some (s2l "{\i0}"))];
           mkAline [] [mkArun (s2l "back\") None]].
Definition ex_item2 : aitem :=
  mkAitem 0%Z 10000000%Z None None [mkAline [] [mkArun (s2l "c'est 1,2,3: ok") (Some (s2l "{\pos(10,20)}"))]].
Definition ex_doc : adoc :=
  mkAdoc (Some ex_info) [(s2l "Alt one", Some ex_style1); (s2l "Default", Some ex_style2)] [ex_item1; ex_item2].
Close Scope string_scope.

Example ex_doc_repr : doc_repr ex_doc.
Proof. apply doc_reprb_ok. vm_compute. reflexivity. Qed.
(* the round trip theorems apply to it *)
Example ex_doc_roundtrip : exists data, write_ssa ex_doc (style_keys ex_doc) = Ok data /\ read_ssa data = Ok (canon_doc ex_doc).
Proof. exact (write_read ex_doc ex_doc_repr). Qed.

(* the document theorems for every order in which the runtime may range over the styles map *)
Theorem write_read_any_order d order : doc_repr d -> Permutation order (style_keys d) ->
  exists data, write_ssa d order = Ok data /\ read_ssa data = Ok (canon_doc d).
Proof. intros Hr P. rewrite (write_order_independent d _ _ P). exact (write_read d Hr). Qed.
Theorem rewrite_same_any_order d order order' : doc_repr d -> Permutation order (style_keys d) ->
  exists data d', write_ssa d order = Ok data /\ read_ssa data = Ok d' /\
                  (Permutation order' (style_keys d') -> write_ssa d' order' = Ok data).
Proof.
  intros Hr P. destruct (rewrite_same d Hr) as (data & d' & Hw & Hrd & Hw2). exists data, d'.
  split; [rewrite (write_order_independent d _ _ P); exact Hw|]. split; [exact Hrd|].
  intros P'. rewrite (write_order_independent d' _ _ P'). exact Hw2.
Qed.
