(* C05: the character codec of stl.go.  decode (encode s) = s for every string made of characters of the
   repertoire: a finite sweep over the generated tables ([char_ok], by computation) lifted to all strings by
   induction, using that every character's decomposition starts with a starter, is canonically ordered, and that
   its first code point pushes a byte (so neither the normaliser's reordering nor the encoder's "diacritic in front
   of the last byte" reaches across a character boundary). *)
From Coq Require Import List ZArith NArith Bool Lia.
From Astisub Require Import Kit.Base Kit.Str Kit.Utf8 Model.Dur Model.Stl Gen.StlTables.
Import ListNotations.
Open Scope N_scope.

(* ---- utf8_decode of a concatenation ---- *)
Lemma ocons_Some a o l : ocons a o = Some l -> exists l', o = Some l' /\ l = a :: l'.
Proof. destruct o as [x|]; cbn [ocons]; intros H; [inversion H; eauto | discriminate]. Qed.

Lemma utf8_decode_app_n n : forall a b ra, (length a <= n)%nat -> utf8_decode a = Some ra ->
  utf8_decode (a ++ b) = match utf8_decode b with Some rb => Some (ra ++ rb) | None => None end.
Proof.
  induction n as [|n IH]; intros a b ra Hn Ha.
  - destruct a; [|cbn [length] in Hn; lia]. cbn [utf8_decode] in Ha. inversion Ha. cbn [app]. destruct (utf8_decode b); reflexivity.
  - destruct a as [|x r].
    + cbn [utf8_decode] in Ha. inversion Ha. cbn [app]. destruct (utf8_decode b); reflexivity.
    + cbn [length] in Hn. cbn [app]. cbn [utf8_decode] in Ha |- *.
      destruct (x <? 128).
      { apply ocons_Some in Ha. destruct Ha as (l' & Hr & ->). rewrite (IH r b l') by (try lia; exact Hr).
        destruct (utf8_decode b); reflexivity. }
      destruct ((194 <=? x) && (x <? 224)).
      { destruct r as [|y r1]; [discriminate|]. cbn [app]. destruct (utf8_cont y); [|discriminate].
        apply ocons_Some in Ha. destruct Ha as (l' & Hr & ->). cbn [length] in Hn. rewrite (IH r1 b l') by (try lia; exact Hr).
        destruct (utf8_decode b); reflexivity. }
      destruct ((224 <=? x) && (x <? 240)).
      { destruct r as [|y [|z r2]]; try discriminate. cbn [app].
        destruct (utf8_cont y && utf8_cont z && (negb (x =? 224) || (160 <=? y)) && (negb (x =? 237) || (y <? 160))); [|discriminate].
        apply ocons_Some in Ha. destruct Ha as (l' & Hr & ->). cbn [length] in Hn. rewrite (IH r2 b l') by (try lia; exact Hr).
        destruct (utf8_decode b); reflexivity. }
      destruct ((240 <=? x) && (x <? 245)); [|discriminate].
      destruct r as [|y [|z [|w r3]]]; try discriminate. cbn [app].
      destruct (utf8_cont y && utf8_cont z && utf8_cont w && (negb (x =? 240) || (144 <=? y)) && (negb (x =? 244) || (y <? 144))); [|discriminate].
      apply ocons_Some in Ha. destruct Ha as (l' & Hr & ->). cbn [length] in Hn. rewrite (IH r3 b l') by (try lia; exact Hr).
      destruct (utf8_decode b); reflexivity.
Qed.
Lemma utf8_decode_app a b ra rb : utf8_decode a = Some ra -> utf8_decode b = Some rb -> utf8_decode (a ++ b) = Some (ra ++ rb).
Proof. intros Ha Hb. rewrite (utf8_decode_app_n (length a) a b ra (le_n _) Ha), Hb. reflexivity. Qed.

(* ---- canonical ordering does not cross a starter ---- *)
Definition insf (o : list N) (r : N) : list N := ins_mark r o.
Lemma canonical_order_fold l : canonical_order l = rev (fold_left insf l []).
Proof. reflexivity. Qed.

Lemma ins_mark_starter r l r0 o : stl_cccv r0 = 0 -> ins_mark r (l ++ r0 :: o) = ins_mark r l ++ r0 :: o.
Proof.
  intros H0. induction l as [|p l IH]; cbn [app ins_mark].
  - rewrite H0. destruct (stl_cccv r =? 0); [reflexivity|]. destruct (stl_cccv r <? 0) eqn:E; [apply N.ltb_lt in E; lia | reflexivity].
  - destruct (stl_cccv r =? 0); [reflexivity|]. destruct (stl_cccv r <? stl_cccv p); [|reflexivity]. rewrite IH. reflexivity.
Qed.
Lemma fold_ins_starter d : forall l r0 o, stl_cccv r0 = 0 -> fold_left insf d (l ++ r0 :: o) = fold_left insf d l ++ r0 :: o.
Proof.
  induction d as [|r d IH]; intros l r0 o H0; cbn [fold_left]; [reflexivity|].
  unfold insf at 2 4. rewrite (ins_mark_starter r l r0 o H0). apply IH. exact H0.
Qed.
Lemma ins_mark_zero r o : stl_cccv r = 0 -> ins_mark r o = r :: o.
Proof. intros H. destruct o; cbn [ins_mark]; [reflexivity|]. rewrite H. reflexivity. Qed.
Lemma fold_ins_from_starter r0 d o : stl_cccv r0 = 0 -> fold_left insf (r0 :: d) o = fold_left insf (r0 :: d) [] ++ o.
Proof.
  intros H0. cbn [fold_left]. unfold insf at 2 4. rewrite !(ins_mark_zero r0) by exact H0.
  pose proof (fold_ins_starter d [] r0 o H0) as A. pose proof (fold_ins_starter d [] r0 [] H0) as B. cbn [app] in A, B.
  rewrite A, B, <- app_assoc. reflexivity.
Qed.

(* ---- the encoder's "diacritic before the last byte" does not cross a pushed byte ---- *)
Lemma enc_step_app l o c : l <> [] -> enc_step (l ++ o) c = enc_step l c ++ o /\ enc_step l c <> [].
Proof.
  intros Hl. unfold enc_step. destruct (alookup c stl_unicode_mapping_inv); [split; [reflexivity | discriminate]|].
  destruct (alookup c stl_unicode_diacritic_inv); [|split; [reflexivity | discriminate]].
  destruct l as [|x l']; [contradiction|]. cbn [app]. split; [reflexivity | discriminate].
Qed.
Lemma fold_enc_app d : forall l o, l <> [] -> fold_left enc_step d (l ++ o) = fold_left enc_step d l ++ o.
Proof.
  induction d as [|c d IH]; intros l o Hl; cbn [fold_left]; [reflexivity|].
  destruct (enc_step_app l o c Hl) as [E Hne]. rewrite E. apply IH. exact Hne.
Qed.
Definition pushes (r : N) : bool :=
  o_some (alookup r stl_unicode_mapping_inv) || negb (o_some (alookup r stl_unicode_diacritic_inv)).
Lemma enc_step_pushes r o : pushes r = true -> enc_step o r = enc_step [] r ++ o /\ enc_step [] r <> [].
Proof.
  unfold pushes, enc_step. destruct (alookup r stl_unicode_mapping_inv); cbn [o_some orb]; [split; [reflexivity | discriminate]|].
  destruct (alookup r stl_unicode_diacritic_inv); cbn [o_some negb]; [discriminate|]. split; [reflexivity | discriminate].
Qed.
Lemma fold_enc_from_pusher r0 d o : pushes r0 = true -> fold_left enc_step (r0 :: d) o = fold_left enc_step (r0 :: d) [] ++ o.
Proof.
  intros Hp. cbn [fold_left]. destruct (enc_step_pushes r0 o Hp) as [E Hne]. rewrite E. apply fold_enc_app. exact Hne.
Qed.

(* ---- decode_bytes over a concatenation ---- *)
Lemma decode_bytes_app a : forall acc b,
  decode_bytes acc (a ++ b) =
  let '(o1, acc1) := decode_bytes acc a in let '(o2, acc2) := decode_bytes acc1 b in (o1 ++ o2, acc2).
Proof.
  induction a as [|v a IH]; intros acc b; cbn [app decode_bytes].
  - destruct (decode_bytes acc b). reflexivity.
  - destruct (decode1 acc v) as [o acc1]. rewrite IH. destruct (decode_bytes acc1 a) as [o1 acc2].
    destruct (decode_bytes acc2 b) as [o2 acc3]. rewrite app_assoc. reflexivity.
Qed.

(* ---- the per-character checks, decided by computation over the generated tables ---- *)
(* [enc_ok c]: c is valid UTF-8, its decomposition starts with a starter that pushes a byte and is canonically
   ordered: the encoder then treats c independently of its neighbours *)
Definition enc_ok (c : str) : bool :=
  match utf8_decode c with
  | None => false
  | Some rs =>
    match flat_map nfd_rune rs with
    | [] => false
    | r0 :: d => (stl_cccv r0 =? 0) && pushes r0 && str_eqb (fold_left insf (r0 :: d) []) (rev (r0 :: d))
    end
  end.
(* [char_ok c]: moreover the reader decodes the bytes written for c back to c, leaving no accent pending *)
Definition char_ok (c : str) : bool :=
  enc_ok c &&
  (let '(o, acc) := decode_bytes None (encode_text_stl c) in
   str_eqb o c && match acc with None => true | Some _ => false end).

(* the repertoire: every spacing character of the Latin table and every spacing character carrying one floating
   diacritic (as the reader composes it), except those built on '$' *)
Definition dollar : str := [36].
Definition spacing_chars : list str :=
  map snd (filter (fun e => negb (is_accent_byte (fst e)) && negb (str_eqb (snd e) dollar)) stl_table).
Definition dollar_byte (b : N) : bool := match alookup b stl_table with Some s => str_eqb s dollar | None => false end.
Definition composed_chars : list str :=
  flat_map (fun ar => map snd (filter (fun e => negb (is_accent_byte (fst e)) && negb (dollar_byte (fst e))) (snd ar))) stl_nfc.
Definition stl_repertoire : list str := spacing_chars ++ composed_chars.

Lemma repertoire_ok : forallb char_ok stl_repertoire = true.
Proof. vm_compute. reflexivity. Qed.

(* ---- lifting to strings ---- *)
Record enc_facts (c : str) (rs d e : list N) : Prop := {
  cf_dec : utf8_decode c = Some rs;
  cf_nfd : flat_map nfd_rune rs = d;
  cf_ord : forall o, fold_left insf d o = rev d ++ o;
  cf_enc : forall o, fold_left enc_step d o = rev e ++ o }.

Lemma encode_of_facts c rs d e : utf8_decode c = Some rs -> flat_map nfd_rune rs = d ->
  (forall o, fold_left insf d o = rev d ++ o) -> (forall o, fold_left enc_step d o = rev e ++ o) -> encode_text_stl c = e.
Proof.
  intros D Nf O E. unfold encode_text_stl. rewrite D. unfold nfd_runes, enc_runes.
  rewrite canonical_order_fold, Nf, O, app_nil_r, rev_involutive, E, app_nil_r, rev_involutive. reflexivity.
Qed.

Lemma enc_ok_facts c : enc_ok c = true -> exists rs d, enc_facts c rs d (encode_text_stl c).
Proof.
  unfold enc_ok. destruct (utf8_decode c) as [rs|] eqn:Hd; [|discriminate].
  destruct (flat_map nfd_rune rs) as [|r0 d] eqn:Hn; [discriminate|].
  intros H. apply andb_true_iff in H. destruct H as [H Ho].
  apply andb_true_iff in H. destruct H as [Hs Hp]. apply N.eqb_eq in Hs. apply str_eqb_eq in Ho.
  assert (O : forall o, fold_left insf (r0 :: d) o = rev (r0 :: d) ++ o).
  { intros o. rewrite (fold_ins_from_starter r0 d o Hs), Ho. reflexivity. }
  assert (E : forall o, fold_left enc_step (r0 :: d) o = rev (rev (fold_left enc_step (r0 :: d) [])) ++ o).
  { intros o. rewrite (fold_enc_from_pusher r0 d o Hp), rev_involutive. reflexivity. }
  exists rs, (r0 :: d). rewrite (encode_of_facts c rs (r0 :: d) _ Hd Hn O E).
  constructor; assumption.
Qed.

Lemma flat_map_app' {A B} (f : A -> list B) l1 l2 : flat_map f (l1 ++ l2) = flat_map f l1 ++ flat_map f l2.
Proof. induction l1 as [|a l1 IH]; cbn [app flat_map]; [reflexivity|]. rewrite IH, app_assoc. reflexivity. Qed.

(* the state of the pipelines after a prefix of independent characters *)
Lemma chars_facts cs : Forall (fun c => enc_ok c = true) cs ->
  exists rs d, enc_facts (concat cs) rs d (concat (map encode_text_stl cs)).
Proof.
  induction cs as [|c cs IH]; intros H.
  - exists [], []. constructor; cbn; reflexivity.
  - inversion H as [|? ? Hc Hcs]; subst. destruct (IH Hcs) as (rs2 & d2 & [D2 N2 O2 E2]).
    destruct (enc_ok_facts c Hc) as (rs1 & d1 & [D1 N1 O1 E1]).
    exists (rs1 ++ rs2), (d1 ++ d2). cbn [concat map]. constructor.
    + apply utf8_decode_app; assumption.
    + rewrite flat_map_app', N1, N2. reflexivity.
    + intros o. rewrite fold_left_app, O1, O2, rev_app_distr, <- app_assoc. reflexivity.
    + intros o. rewrite fold_left_app, E1, E2, rev_app_distr, <- app_assoc. reflexivity.
Qed.

(* the encoder works character by character on strings of independent characters (repertoire characters, and
   also the control characters the writer inserts: U+0080..U+0085, U+008A, space) *)
Theorem encode_concat_gen cs : Forall (fun c => enc_ok c = true) cs ->
  encode_text_stl (concat cs) = concat (map encode_text_stl cs).
Proof.
  intros H. destruct (chars_facts cs H) as (rs & d & [D Nf O E]). exact (encode_of_facts _ rs d _ D Nf O E).
Qed.

Lemma char_ok_enc_ok c : char_ok c = true -> enc_ok c = true.
Proof. unfold char_ok. intros H. apply andb_true_iff in H. tauto. Qed.
Lemma char_ok_back c : char_ok c = true -> decode_bytes None (encode_text_stl c) = (c, None).
Proof.
  unfold char_ok. intros H. apply andb_true_iff in H. destruct H as [_ H].
  destruct (decode_bytes None (encode_text_stl c)) as [o acc]. apply andb_true_iff in H. destruct H as [H1 H2].
  apply str_eqb_eq in H1. destruct acc; [discriminate|]. subst o. reflexivity.
Qed.
Lemma rep_char_ok c : In c stl_repertoire -> char_ok c = true.
Proof. exact (proj1 (forallb_forall _ _) repertoire_ok c). Qed.

Lemma decode_concat cs : Forall (fun c => char_ok c = true) cs ->
  decode_bytes None (concat (map encode_text_stl cs)) = (concat cs, None).
Proof.
  induction cs as [|c cs IH]; intros H; [reflexivity|]. inversion H as [|? ? Hc Hcs]; subst.
  cbn [map concat]. rewrite decode_bytes_app, (char_ok_back c Hc), (IH Hcs). reflexivity.
Qed.

(* decode (encode s) = s, with no accent left pending, for every string over the repertoire *)
Theorem codec_roundtrip cs : Forall (fun c => In c stl_repertoire) cs ->
  decode_bytes None (encode_text_stl (concat cs)) = (concat cs, None).
Proof.
  intros H.
  assert (Hok : Forall (fun c => char_ok c = true) cs) by (eapply Forall_impl; [|exact H]; exact rep_char_ok).
  rewrite encode_concat_gen by (eapply Forall_impl; [|exact Hok]; exact char_ok_enc_ok).
  apply decode_concat. exact Hok.
Qed.

Theorem encode_concat cs : Forall (fun c => In c stl_repertoire) cs ->
  encode_text_stl (concat cs) = concat (map encode_text_stl cs).
Proof.
  intros H. apply encode_concat_gen. eapply Forall_impl; [|exact H]. intros c Hc. apply char_ok_enc_ok, rep_char_ok, Hc.
Qed.

(* '$' does not survive: it is written as 0x24, which the table reads as the currency sign *)
Theorem codec_dollar_refuted :
  exists c, In (164, c) stl_table /\ decode_bytes None (encode_text_stl c) <> (c, None).
Proof. exists [36]. split; [vm_compute; tauto | vm_compute; discriminate]. Qed.
Example dollar_reads_as_currency : decode_bytes None (encode_text_stl [36]) = ([194; 164], None).
Proof. vm_compute. reflexivity. Qed.

(* sizes, so that the sweep is visibly the whole table *)
Example repertoire_size : length spacing_chars = 168%nat /\ length composed_chars = 2184%nat.
Proof. vm_compute. split; reflexivity. Qed.
Definition in_rep (c : str) : bool := existsb (str_eqb c) stl_repertoire.
Lemma in_rep_In c : in_rep c = true -> In c stl_repertoire.
Proof. unfold in_rep. intros H. apply existsb_exists in H. destruct H as (x & Hx & E). apply str_eqb_eq in E. subst x. exact Hx. Qed.
Example repertoire_examples :
  in_rep [101] = true /\ in_rep [195;169] = true (* e-acute *) /\ in_rep [194;164] = true (* currency sign *)
  /\ in_rep [206;169] = true (* ohm, as the table has it: U+03A9 *) /\ in_rep [197;145] = true (* o double acute *) /\ in_rep [36] = false.
Proof. vm_compute. repeat split; reflexivity. Qed.

(* ---- what the reader's character handler denotes: a text field made of spacing characters and of
   (floating diacritic, spacing character) pairs decodes to the table strings, resp. to the composition (NFC, as
   tabulated from the vendored normaliser) of the character with the diacritic; no accent is left pending ---- *)
Inductive cunit := U1 (b : N) | U2 (a b : N).
Definition tab (b : N) : str := match alookup b stl_table with Some s => s | None => [] end.
Definition cunit_ok (u : cunit) : bool :=
  match u with
  | U1 b => o_some (alookup b stl_table) && negb (is_accent_byte b)
  | U2 a b => o_some (alookup a stl_table) && is_accent_byte a && o_some (alookup b stl_table)
  end.
Definition cunit_bytes (u : cunit) : str := match u with U1 b => [b] | U2 a b => [a; b] end.
Definition cunit_text (u : cunit) : str := match u with U1 b => tab b | U2 a b => nfc_lookup a b end.

Lemma decode_unit u : cunit_ok u = true -> decode_bytes None (cunit_bytes u) = (cunit_text u, None).
Proof.
  destruct u as [b|a b]; cbn [cunit_ok cunit_bytes cunit_text]; intros Hu.
  - apply andb_true_iff in Hu. destruct Hu as [Hb Hna]. apply negb_true_iff in Hna.
    cbn [decode_bytes]. unfold decode1, tab. destruct (alookup b stl_table); [|discriminate]. rewrite Hna. rewrite app_nil_r. reflexivity.
  - apply andb_true_iff in Hu. destruct Hu as [Hu Hb]. apply andb_true_iff in Hu. destruct Hu as [Ha Hacc].
    cbn [decode_bytes]. unfold decode1. destruct (alookup a stl_table); [|discriminate]. rewrite Hacc.
    destruct (alookup b stl_table); [|discriminate]. cbn [app]. rewrite app_nil_r. reflexivity.
Qed.
Theorem decode_units us : forallb cunit_ok us = true ->
  decode_bytes None (flat_map cunit_bytes us) = (concat (map cunit_text us), None).
Proof.
  induction us as [|u us IH]; intros H; [reflexivity|]. cbn [forallb] in H. apply andb_true_iff in H. destruct H as [Hu Hus].
  cbn [flat_map map concat]. rewrite decode_bytes_app, (decode_unit u Hu), (IH Hus). reflexivity.
Qed.
(* unknown bytes (0x86..0x9F, 0xA6, 0xC0, 0xC9, 0xCC, 0xD8..0xDB, 0xE5, 0x7F and the padding 0x8F) decode to nothing *)
Lemma decode_unknown acc b : alookup b stl_table = None -> decode1 acc b = ([], acc).
Proof. intros H. unfold decode1. rewrite H. reflexivity. Qed.
