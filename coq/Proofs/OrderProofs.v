(* Order = stable sort by start; Merge = ordered union, receiver wins (C12). *)
From Coq Require Import List ZArith NArith Bool Lia Permutation Sorted.
From Astisub Require Import Kit.Base Model.Ops.
Import ListNotations.
Open Scope Z_scope.

Definition sorted (l : list item) := StronglySorted (fun a b => st a <= st b) l.
Definition at_start (k : Z) (x : item) : bool := st x =? k.

Lemma sorted_inv x l : sorted (x :: l) -> sorted l /\ Forall (fun y => st x <= st y) l.
Proof. intros H. apply StronglySorted_inv in H. exact H. Qed.

Lemma insert_perm x l : Permutation (x :: l) (insert x l).
Proof.
  induction l as [|y r IH]; cbn [insert]; [reflexivity|].
  destruct (st x <=? st y); [reflexivity|].
  rewrite perm_swap. constructor. exact IH.
Qed.

Lemma insert_in x l z : In z (insert x l) <-> z = x \/ In z l.
Proof.
  split; intros H.
  - apply (Permutation_in _ (Permutation_sym (insert_perm x l))) in H. destruct H; auto.
  - apply (Permutation_in _ (insert_perm x l)). destruct H; [left; auto | right; auto].
Qed.

Lemma insert_sorted x l : sorted l -> sorted (insert x l).
Proof.
  induction l as [|y r IH]; intros Hs; cbn [insert].
  - constructor; constructor.
  - destruct (st x <=? st y) eqn:C.
    + apply Z.leb_le in C. apply sorted_inv in Hs as Hs'. destruct Hs' as [Hr Hy].
      constructor; [exact Hs|]. constructor; [exact C|].
      rewrite Forall_forall in *. intros z Hz. specialize (Hy z Hz). lia.
    + apply Z.leb_gt in C. apply sorted_inv in Hs. destruct Hs as [Hr Hy].
      constructor; [apply IH; exact Hr|].
      rewrite Forall_forall in *. intros z Hz. apply insert_in in Hz. destruct Hz as [->|Hz]; [lia | auto].
Qed.

Lemma order_perm l : Permutation l (order l).
Proof.
  induction l as [|x r IH]; cbn [order fold_right]; [constructor|].
  etransitivity; [|apply insert_perm]. constructor. exact IH.
Qed.

Lemma order_sorted l : sorted (order l).
Proof.
  induction l as [|x r IH]; cbn [order fold_right]; [constructor|].
  apply insert_sorted. exact IH.
Qed.

Lemma insert_filter k x l :
  filter (at_start k) (insert x l) = filter (at_start k) (x :: l).
Proof.
  induction l as [|y r IH]; cbn [insert]; [reflexivity|].
  destruct (st x <=? st y) eqn:C; [reflexivity|]. apply Z.leb_gt in C.
  cbn [filter] in *. rewrite IH. unfold at_start.
  destruct (st x =? k) eqn:Ex; destruct (st y =? k) eqn:Ey; try reflexivity.
  apply Z.eqb_eq in Ex. apply Z.eqb_eq in Ey. lia.
Qed.

(* stability: for every start value, the sub-sequence of cues with that start is unchanged *)
Lemma order_stable k l : filter (at_start k) (order l) = filter (at_start k) l.
Proof.
  induction l as [|x r IH]; cbn [order fold_right]; [reflexivity|].
  rewrite insert_filter. cbn [filter]. fold (order r). rewrite IH. reflexivity.
Qed.

Lemma filter_nil_sorted_gt k l : Forall (fun y => k < st y) l -> filter (at_start k) l = [].
Proof.
  induction l as [|y r IH]; intros H; [reflexivity|].
  inversion H; subst. cbn [filter]. unfold at_start at 1.
  destruct (st y =? k) eqn:E; [apply Z.eqb_eq in E; lia | auto].
Qed.

Lemma filter_head_eq x l : filter (at_start (st x)) (x :: l) = x :: filter (at_start (st x)) l.
Proof. cbn [filter]. unfold at_start at 1. rewrite Z.eqb_refl. reflexivity. Qed.

Lemma filter_head_neq k x l : st x <> k -> filter (at_start k) (x :: l) = filter (at_start k) l.
Proof. intros H. cbn [filter]. unfold at_start at 1. destruct (st x =? k) eqn:E; [apply Z.eqb_eq in E; contradiction | reflexivity]. Qed.

(* two start-sorted lists with the same per-start sub-sequences are equal *)
Lemma sorted_stable_unique l1 : forall l2, sorted l1 -> sorted l2 ->
  (forall k, filter (at_start k) l1 = filter (at_start k) l2) -> l1 = l2.
Proof.
  induction l1 as [|a r1 IH]; intros l2 S1 S2 H.
  - destruct l2 as [|b r2]; [reflexivity|]. specialize (H (st b)). rewrite filter_head_eq in H. discriminate.
  - destruct l2 as [|b r2].
    + specialize (H (st a)). rewrite filter_head_eq in H. discriminate.
    + apply sorted_inv in S1 as S1'. destruct S1' as [Sr1 Ha]. apply sorted_inv in S2 as S2'. destruct S2' as [Sr2 Hb].
      assert (Hab : st a = st b).
      { destruct (Z.lt_trichotomy (st a) (st b)) as [L|[E|G]]; [|exact E|].
        - specialize (H (st a)). rewrite filter_head_eq in H. rewrite filter_head_neq in H by lia.
          rewrite (filter_nil_sorted_gt (st a) r2) in H; [discriminate|].
          rewrite Forall_forall in *. intros z Hz. specialize (Hb z Hz). lia.
        - specialize (H (st b)). rewrite filter_head_eq in H. rewrite filter_head_neq in H by lia.
          rewrite (filter_nil_sorted_gt (st b) r1) in H; [discriminate|].
          rewrite Forall_forall in *. intros z Hz. specialize (Ha z Hz). lia. }
      assert (Heq : a = b).
      { specialize (H (st a)). rewrite filter_head_eq in H. rewrite Hab in H. rewrite filter_head_eq in H. congruence. }
      subst b. f_equal. apply IH; [exact Sr1 | exact Sr2 |].
      intros k. specialize (H k). cbn [filter] in H. destruct (at_start k a); [congruence | exact H].
Qed.

(* what the library contract "sort.SliceStable is a stable sort" buys: any stable sorted
   rearrangement is the model's [order] *)
Theorem stable_sort_unique l l' :
  sorted l' -> (forall k, filter (at_start k) l' = filter (at_start k) l) -> l' = order l.
Proof.
  intros S H. apply sorted_stable_unique; [exact S | apply order_sorted |].
  intros k. rewrite H, order_stable. reflexivity.
Qed.

Lemma order_sorted_id l : sorted l -> order l = l.
Proof. intros S. symmetry. apply stable_sort_unique; [exact S | reflexivity]. Qed.

Lemma order_idem l : order (order l) = order l.
Proof. apply order_sorted_id, order_sorted. Qed.

Lemma order_length l : length (order l) = length l.
Proof. symmetry. apply Permutation_length, order_perm. Qed.

(* ---- Merge ---- *)
Lemma merge_items a b pr ps : items (merge a b pr ps) = order (items a ++ items b).
Proof. reflexivity. Qed.

Lemma merge_empty_b a b pr ps : items b = [] -> items (merge a b pr ps) = order (items a).
Proof. intros H. rewrite merge_items, H, app_nil_r. reflexivity. Qed.

Lemma merge_sorted_concat a b pr ps :
  sorted (items a ++ items b) -> items (merge a b pr ps) = items a ++ items b.
Proof. intros H. rewrite merge_items. apply order_sorted_id. exact H. Qed.

Lemma merge_items_perm a b pr ps : Permutation (items a ++ items b) (items (merge a b pr ps)).
Proof. apply order_perm. Qed.

Lemma merge_items_sorted a b pr ps : sorted (items (merge a b pr ps)).
Proof. apply order_sorted. Qed.

(* on equal starts the receiver's cues come first, each side in its own order *)
Lemma merge_items_stable a b pr ps k :
  filter (at_start k) (items (merge a b pr ps)) = filter (at_start k) (items a) ++ filter (at_start k) (items b).
Proof. cbn [merge items]. rewrite order_stable, filter_app. reflexivity. Qed.

Section AddAbsent.
  Context {V : Type} (key : V -> N).

  Lemma alookup_app k (m1 m2 : list (N * V)) :
    alookup k (m1 ++ m2) = match alookup k m1 with Some v => Some v | None => alookup k m2 end.
  Proof.
    induction m1 as [|[k' v] r IH]; cbn [alookup app]; [reflexivity|].
    destruct (N.eqb k k'); [reflexivity | exact IH].
  Qed.

  Definition first_with (id : N) (vs : list V) : option V := find (fun v => N.eqb (key v) id) vs.

  Lemma add_absent_lookup id vs : forall m,
    alookup id (add_absent key m vs) =
    match alookup id m with Some v => Some v | None => first_with id vs end.
  Proof.
    unfold add_absent. induction vs as [|v r IH]; intros m; cbn [fold_left first_with find].
    - destruct (alookup id m); reflexivity.
    - rewrite IH. unfold amem. destruct (alookup (key v) m) eqn:E.
      + destruct (alookup id m) eqn:E2; [reflexivity|].
        destruct (N.eqb (key v) id) eqn:C; [apply N.eqb_eq in C; congruence | reflexivity].
      + rewrite alookup_app. destruct (alookup id m) eqn:E2; [reflexivity|].
        cbn [alookup]. rewrite N.eqb_sym. destruct (N.eqb (key v) id); reflexivity.
  Qed.

  (* with distinct IDs among the definitions, the iteration order is irrelevant *)
  Lemma first_with_perm id (l l' : list V) :
    NoDup (map key l) -> Permutation l l' -> first_with id l = first_with id l'.
  Proof.
    intros Hnd Hp. unfold first_with.
    assert (Hchar : forall l, NoDup (map key l) -> forall v, find (fun v => N.eqb (key v) id) l = Some v <-> (In v l /\ key v = id)).
    { clear. intros l. induction l as [|x r IH]; intros Hnd v; cbn [find].
      - split; [discriminate | intros [[] _]].
      - cbn [map] in Hnd. inversion Hnd as [|? ? Hnx Hr]; subst. destruct (N.eqb (key x) id) eqn:C.
        + apply N.eqb_eq in C. split.
          * intros H; inversion H; subst. split; [left; reflexivity | reflexivity].
          * intros [[->|Hin] Hk]; [reflexivity|]. exfalso. apply Hnx. rewrite C, <- Hk. apply in_map. exact Hin.
        + apply N.eqb_neq in C. rewrite (IH Hr v). split.
          * intros [Hin Hk]. split; [right; exact Hin | exact Hk].
          * intros [[->|Hin] Hk]; [contradiction | split; assumption]. }
    assert (Hnd' : NoDup (map key l')).
    { eapply Permutation_NoDup; [apply Permutation_map; exact Hp | exact Hnd]. }
    destruct (find (fun v => N.eqb (key v) id) l) as [v|] eqn:E.
    - apply (Hchar l Hnd) in E. destruct E as [Hin Hk]. symmetry. apply (Hchar l' Hnd').
      split; [eapply Permutation_in; eassumption | exact Hk].
    - destruct (find (fun v => N.eqb (key v) id) l') as [v|] eqn:E'; [|reflexivity].
      apply (Hchar l' Hnd') in E'. destruct E' as [Hin Hk].
      assert (E2 : find (fun v => N.eqb (key v) id) l = Some v).
      { apply (Hchar l Hnd). split; [eapply Permutation_in; [apply Permutation_sym|]; eassumption | exact Hk]. }
      congruence.
  Qed.
End AddAbsent.

Definition lookup_region (s : subs) (id : N) : option region := alookup id (map_or_empty (regions s)).
Definition lookup_style (s : subs) (id : N) : option style := alookup id (map_or_empty (styles s)).

Theorem merge_regions a b pr ps id :
  lookup_region (merge a b pr ps) id =
  match lookup_region a id with Some r => Some r | None => first_with g_id id pr end.
Proof. unfold lookup_region. cbn [merge regions map_or_empty]. apply add_absent_lookup. Qed.

Theorem merge_styles a b pr ps id :
  lookup_style (merge a b pr ps) id =
  match lookup_style a id with Some r => Some r | None => first_with s_id id ps end.
Proof. unfold lookup_style. cbn [merge styles map_or_empty]. apply add_absent_lookup. Qed.

(* independence of the map iteration order *)
Theorem merge_order_independent a b pr pr' ps ps' id :
  NoDup (map g_id pr) -> NoDup (map s_id ps) -> Permutation pr pr' -> Permutation ps ps' ->
  lookup_region (merge a b pr ps) id = lookup_region (merge a b pr' ps') id /\
  lookup_style (merge a b pr ps) id = lookup_style (merge a b pr' ps') id /\
  items (merge a b pr ps) = items (merge a b pr' ps').
Proof.
  intros Nr Ns Pr Ps. rewrite !merge_regions, !merge_styles.
  rewrite (first_with_perm g_id id pr pr' Nr Pr), (first_with_perm s_id id ps ps' Ns Ps). auto.
Qed.

(* ---- Merge stated on B itself: [pr]/[ps] are B's maps in the runtime's iteration order ---- *)
Definition keyed {V} (key : V -> N) (m : list (N * V)) : Prop :=
  NoDup (map fst m) /\ Forall (fun kv => key (snd kv) = fst kv) m.

Lemma first_with_values {V} (key : V -> N) id (m : list (N * V)) :
  keyed key m -> first_with key id (map snd m) = alookup id m.
Proof.
  intros [Hnd Hk]. induction m as [|[k v] r IH]; [reflexivity|].
  cbn [map snd] in *. inversion Hnd as [|? ? Hnk Hr]; subst. inversion Hk as [|? ? Hkv Hkr]; subst. cbn [snd fst] in Hkv.
  unfold first_with in *. cbn [find alookup]. rewrite Hkv. rewrite (N.eqb_sym k id).
  destruct (N.eqb id k); [reflexivity | apply IH; assumption].
Qed.

Lemma keyed_values_nodup {V} (key : V -> N) (m : list (N * V)) : keyed key m -> NoDup (map key (map snd m)).
Proof.
  intros [Hnd Hk]. rewrite map_map. replace (map (fun kv => key (snd kv)) m) with (map fst m); [exact Hnd|].
  apply map_ext_in. intros kv Hin. rewrite Forall_forall in Hk. symmetry. apply Hk. exact Hin.
Qed.

Theorem merge_union a b pr ps :
  keyed g_id (map_or_empty (regions b)) -> keyed s_id (map_or_empty (styles b)) ->
  Permutation (map snd (map_or_empty (regions b))) pr -> Permutation (map snd (map_or_empty (styles b))) ps ->
  forall id,
    lookup_region (merge a b pr ps) id = match lookup_region a id with Some r => Some r | None => lookup_region b id end /\
    lookup_style (merge a b pr ps) id = match lookup_style a id with Some s => Some s | None => lookup_style b id end.
Proof.
  intros Kr Ks Pr Ps id. rewrite merge_regions, merge_styles.
  rewrite <- (first_with_perm g_id id _ pr (keyed_values_nodup g_id _ Kr) Pr).
  rewrite <- (first_with_perm s_id id _ ps (keyed_values_nodup s_id _ Ks) Ps).
  rewrite (first_with_values g_id id _ Kr), (first_with_values s_id id _ Ks). split; reflexivity.
Qed.

(* a nil receiver map becomes a (possibly empty) map: Merge allocates it *)
Lemma merge_maps_allocated a b pr ps : regions (merge a b pr ps) <> None /\ styles (merge a b pr ps) <> None.
Proof. split; discriminate. Qed.

(* non-vacuity: nil receiver maps, an identifier defined on both sides, equal starts across A and B *)
Definition ex_merge_a : subs :=
  mkSubs [mkItem 1 5 6 [] None (Some 7%N) false; mkItem 2 9 10 [] None None false] None
         (Some [(7%N, mkStyle 7 None true)]).
Definition ex_merge_b : subs :=
  mkSubs [mkItem 3 5 7 [] (Some 4%N) (Some 7%N) false; mkItem 4 1 2 [] None None false]
         (Some [(4%N, mkRegion 4 None false)])
         (Some [(8%N, mkStyle 8 (Some 7%N) false); (7%N, mkStyle 7 None false)]).
Example ex_merge :
  let m := merge ex_merge_a ex_merge_b [mkRegion 4 None false] [mkStyle 7 None false; mkStyle 8 (Some 7%N) false] in
  map uid (items m) = [4; 1; 3; 2]%N /\ lookup_style m 7 = Some (mkStyle 7 None true) /\
  lookup_style m 8 = Some (mkStyle 8 (Some 7%N) false) /\ lookup_region m 4 = Some (mkRegion 4 None false).
Proof. repeat split; reflexivity. Qed.
