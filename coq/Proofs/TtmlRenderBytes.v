(* C03: rendered documents as bytes.  Under the standard name-space assignment of TtmlRenderBytesSpec.v the tree
   rendered from a ground-truth model is in the printable class [wf2_root] of the byte-level XML parser model
   ([render_std_wf2]); hence its printed bytes - with any of the printer's freedoms and any prolog - are parsed
   back to a tree that ReadFromTTML reads as what the rendering denotes ([read_rendered_bytes]). *)
From Coq Require Import List ZArith NArith Bool Lia Permutation.
From Astisub Require Import Kit.Base Kit.Str Kit.Xml Kit.XmlParse Kit.XmlParse2 Model.Dur Model.Ttml
  Proofs.XmlParseProofs Proofs.XmlParse2Proofs
  Proofs.TtmlSpec Proofs.TtmlRefs Proofs.TtmlRender Proofs.TtmlRenderBytesSpec
  Proofs.TtmlRenderDoc Proofs.TtmlReadRendered.
Import ListNotations.

(* ================= list helpers ================= *)
Lemma forallb_map' {A B} (P : B -> bool) (g : A -> B) l : forallb P (map g l) = forallb (fun x => P (g x)) l.
Proof. induction l as [|a l IH]; [reflexivity|]. cbn [map forallb]. rewrite IH. reflexivity. Qed.

Lemma combine_snd_in {A B} : forall (gs : list A) (ps : list B) p, length ps = length gs -> In p ps ->
  exists g, In (g, p) (combine gs ps).
Proof.
  induction gs as [|g gs IH]; intros [|p0 ps] p Hl Hin; cbn [length] in Hl; try discriminate; [contradiction|].
  destruct Hin as [<-|Hin].
  - exists g. left. reflexivity.
  - destruct (IH ps p ltac:(lia) Hin) as (g' & Hg'). exists g'. right. exact Hg'.
Qed.

(* ================= respace and the shape of the children ================= *)
Lemma is_elem_respace f k : is_elem (respace f k) = is_elem k.
Proof. destruct k; reflexivity. Qed.
Lemma hd_text_respace f ks : hd_text (map (respace f) ks) = hd_text ks.
Proof. destruct ks as [|[s|nm al kk] r]; reflexivity. Qed.
Lemma kids_shape2_respace f ks : kids_shape2 (map (respace f) ks) = kids_shape2 ks.
Proof.
  induction ks as [|k r IH]; [reflexivity|]. cbn [map kids_shape2]. rewrite is_elem_respace, hd_text_respace, IH. reflexivity.
Qed.

(* a subtree is printable once respaced *)
Definition wfs (ttm : bool) (k : xnode) : bool := wf2 ttm (respace std_space k).

Lemma wfs_text ttm s : wfs ttm (XText s) = negb (xp_null s) && no13 s.
Proof. reflexivity. Qed.
Lemma wfs_elem ttm nm al ks :
  wfs ttm (XElem nm al ks) = ename_ok2 ttm (rename std_space nm) && attrs_bytes_ok al && kids_shape2 ks && forallb (wfs ttm) ks.
Proof.
  unfold wfs at 1. cbn [respace wf2]. rewrite kids_shape2_respace, forallb_map'.
  change (map (fun a : xattr => (rename std_space (fst a), snd a)) al) with (map std_attr al).
  rewrite forallb_map'. reflexivity.
Qed.

Lemma shape_tk w rest : hd_text rest = false -> kids_shape2 (text_kids w ++ rest) = kids_shape2 rest.
Proof.
  intros H. destruct w as [|c w]; [reflexivity|]. cbn [text_kids app kids_shape2 is_elem negb andb]. rewrite H. reflexivity.
Qed.
Lemma shape_tk_nil w : kids_shape2 (text_kids w) = true.
Proof. destruct w; reflexivity. Qed.
Lemma shape_elem k rest : is_elem k = true -> kids_shape2 (k :: rest) = kids_shape2 rest.
Proof. intros H. cbn [kids_shape2]. rewrite H. reflexivity. Qed.
Lemma hd_text_elem k rest : is_elem k = true -> hd_text (k :: rest) = false.
Proof. destruct k; [discriminate | reflexivity]. Qed.

Lemma wfs_tk ttm w : no13 w = true -> forallb (wfs ttm) (text_kids w) = true.
Proof.
  destruct w as [|c w]; [reflexivity|]. intros H. cbn [text_kids forallb]. rewrite wfs_text, H. reflexivity.
Qed.

(* ================= character data woven between elements ================= *)
Lemma no13_hd ws : forallb no13 ws = true -> no13 (hd [] ws) = true.
Proof.
  destruct ws as [|w ws]; [reflexivity|]. cbn [forallb hd]. intros H. apply andb_true_iff in H. destruct H as [H _]. exact H.
Qed.
Lemma no13_tl ws : forallb no13 ws = true -> forallb no13 (tl ws) = true.
Proof.
  destruct ws as [|w ws]; [reflexivity|]. cbn [forallb tl]. intros H. apply andb_true_iff in H. destruct H as [_ H]. exact H.
Qed.

Lemma weave_shape ks : forall ws, forallb is_elem ks = true -> kids_shape2 (weave ws ks) = true.
Proof.
  induction ks as [|k r IH]; intros ws H; cbn [weave].
  - apply shape_tk_nil.
  - cbn [forallb] in H. apply andb_true_iff in H. destruct H as [Hk Hr].
    rewrite shape_tk by (apply hd_text_elem; exact Hk). rewrite shape_elem by exact Hk. apply IH. exact Hr.
Qed.
Lemma weave_wfs ttm ks : forall ws, forallb no13 ws = true -> forallb (wfs ttm) ks = true ->
  forallb (wfs ttm) (weave ws ks) = true.
Proof.
  induction ks as [|k r IH]; intros ws Hw H; cbn [weave].
  - apply wfs_tk. apply no13_hd. exact Hw.
  - cbn [forallb] in H. apply andb_true_iff in H. destruct H as [Hk Hr].
    rewrite forallb_app. cbn [forallb]. rewrite (wfs_tk ttm _ (no13_hd ws Hw)), Hk.
    rewrite (IH (tl ws) (no13_tl ws Hw) Hr). reflexivity.
Qed.
Lemma is_elem_map {A} (g : A -> xnode) L : (forall a, is_elem (g a) = true) -> forallb is_elem (map g L) = true.
Proof. intros H. rewrite forallb_map'. apply forallb_forall. intros a _. apply H. Qed.

(* ================= structural elements ================= *)
Lemma ename_el ttm l : local_ok2 l = true -> str_eqb l s_xmlns = false ->
  ename_ok2 ttm (rename std_space (mkName el_mark l)) = true.
Proof.
  intros H1 H2. unfold ename_ok2, rename, std_space. cbn [x_space x_local].
  change (str_eqb el_mark el_mark) with true. cbv iota. rewrite str_eqb_refl, H1, H2. reflexivity.
Qed.
Lemma wfs_el ttm l al ks : local_ok2 l = true -> str_eqb l s_xmlns = false -> attrs_bytes_ok al = true ->
  kids_shape2 ks = true -> forallb (wfs ttm) ks = true -> wfs ttm (el l al ks) = true.
Proof.
  intros H1 H2 Ha Hs Hk. unfold el. rewrite wfs_elem, (ename_el ttm l H1 H2), Ha, Hs, Hk. reflexivity.
Qed.
Lemma wfs_weave ttm l ws ks : local_ok2 l = true -> str_eqb l s_xmlns = false -> forallb no13 ws = true ->
  forallb is_elem ks = true -> forallb (wfs ttm) ks = true -> wfs ttm (el l [] (weave ws ks)) = true.
Proof.
  intros H1 H2 Hw He Hk. apply wfs_el; [exact H1 | exact H2 | reflexivity | apply weave_shape; exact He | apply weave_wfs; assumption].
Qed.
Lemma wfs_leaves ttm l L : local_ok2 l = true -> str_eqb l s_xmlns = false -> forallb attrs_bytes_ok L = true ->
  forallb (wfs ttm) (map (fun al => el l al []) L) = true.
Proof.
  intros H1 H2 H. rewrite forallb_map'. apply forallb_forall. intros al Hin.
  rewrite forallb_forall in H. apply wfs_el; [exact H1 | exact H2 | exact (H al Hin) | reflexivity | reflexivity].
Qed.
Lemma wfs_textel ttm l t : local_ok2 l = true -> str_eqb l s_xmlns = false -> no13 t = true ->
  wfs ttm (el l [] (text_kids t)) = true.
Proof.
  intros H1 H2 H. apply wfs_el; [exact H1 | exact H2 | reflexivity | apply shape_tk_nil | apply wfs_tk; exact H].
Qed.

(* ================= paragraph content ================= *)
Lemma content_shape gs wl : adjacency_ok gs wl = true -> kids_shape2 (render_content gs wl) = true.
Proof.
  unfold render_content. induction gs as [|g r IH]; intros H.
  - cbn [flat_map app]. apply shape_tk_nil.
  - cbn [adjacency_ok] in H. apply andb_true_iff in H. destruct H as [Hg Hr].
    cbn [flat_map]. rewrite <- app_assoc.
    destruct g as [w sp | p | w nm al p0 ps]; cbn [group_nodes is_gtext] in *.
    + rewrite <- app_assoc. cbn [app]. rewrite shape_tk by reflexivity. rewrite shape_elem by reflexivity. exact (IH Hr).
    + cbn [app kids_shape2 is_elem negb andb]. rewrite (IH Hr), andb_true_r. apply negb_true_iff.
      destruct r as [|g' r'].
      * cbn [flat_map app]. destruct wl as [|c wl]; [reflexivity | discriminate Hg].
      * apply andb_true_iff in Hg. destruct Hg as [Hg1 Hg2].
        destruct g' as [w' sp' | p' | w' nm' al' p0' ps']; cbn [is_gtext negb group_pre] in Hg1, Hg2; try discriminate Hg1;
          (destruct w' as [|c' w']; [reflexivity | discriminate Hg2]).
    + rewrite <- app_assoc. cbn [app]. rewrite shape_tk by reflexivity. rewrite shape_elem by reflexivity. exact (IH Hr).
Qed.

Lemma piece_ne p : negb (blank_xml (p_text p)) = true -> xp_null (piece_str p) = false.
Proof.
  unfold piece_str. destruct (p_text p) as [|c t]; [discriminate|]. intros _. destruct (p_pre p); reflexivity.
Qed.

Lemma wfs_br ttm : wfs ttm (mk_br el_mark) = true.
Proof. destruct ttm; vm_compute; reflexivity. Qed.

Definition br_tail (ps : list (str * piece)) : list xnode :=
  flat_map (fun bp => mk_br (fst bp) :: text_kids (piece_str (snd bp))) ps.
Lemma br_tail_hd ps : hd_text (br_tail ps) = false.
Proof. destruct ps; reflexivity. Qed.
Lemma br_tail_shape ps : kids_shape2 (br_tail ps) = true.
Proof.
  induction ps as [|bp ps IH]; [reflexivity|]. unfold br_tail. cbn [flat_map]. fold (br_tail ps).
  cbn [app]. rewrite shape_elem by reflexivity. rewrite shape_tk by apply br_tail_hd. exact IH.
Qed.
Lemma span_shape p0 ps : kids_shape2 (span_kids p0 ps) = true.
Proof. unfold span_kids. fold (br_tail ps). rewrite shape_tk by apply br_tail_hd. apply br_tail_shape. Qed.

Lemma br_tail_wfs ttm ps : forallb (fun bp => str_eqb (fst bp) el_mark && no13 (piece_str (snd bp))) ps = true ->
  forallb (wfs ttm) (br_tail ps) = true.
Proof.
  induction ps as [|bp ps IH]; intros H; [reflexivity|]. cbn [forallb] in H. apply andb_true_iff in H. destruct H as [Hb H].
  apply andb_true_iff in Hb. destruct Hb as [Hs Hn]. apply str_eqb_eq in Hs.
  unfold br_tail. cbn [flat_map]. fold (br_tail ps). cbn [app forallb]. rewrite forallb_app.
  rewrite Hs, wfs_br, (wfs_tk ttm _ Hn), (IH H). reflexivity.
Qed.
Lemma span_wfs ttm p0 ps : no13 (piece_str p0) = true ->
  forallb (fun bp => str_eqb (fst bp) el_mark && no13 (piece_str (snd bp))) ps = true ->
  forallb (wfs ttm) (span_kids p0 ps) = true.
Proof.
  intros H0 H. unfold span_kids. fold (br_tail ps). rewrite forallb_app, (wfs_tk ttm _ H0), (br_tail_wfs ttm ps H). reflexivity.
Qed.

Lemma ename_src ttm nm : ename_src_ok nm = true -> ename_ok2 ttm (rename std_space nm) = true.
Proof.
  destruct nm as [sp l]. unfold ename_src_ok. cbn [x_space x_local]. intros H.
  apply andb_true_iff in H. destruct H as [H Hx]. apply andb_true_iff in H. destruct H as [Hs Hl].
  apply str_eqb_eq in Hs. subst sp. apply negb_true_iff in Hx. apply ename_el; assumption.
Qed.

Lemma group_wfs ttm g : group_ok g = true -> group_bytes_ok g = true -> forallb (wfs ttm) (group_nodes g) = true.
Proof.
  destruct g as [w sp | p | w nm al p0 ps]; cbn [group_ok group_bytes_ok group_nodes]; intros Hok Hb.
  - apply andb_true_iff in Hb. destruct Hb as [Hs Hw]. apply str_eqb_eq in Hs. subst sp.
    rewrite forallb_app. cbn [forallb]. rewrite (wfs_tk ttm w Hw), wfs_br. reflexivity.
  - apply andb_true_iff in Hok. destruct Hok as [_ Hne].
    cbn [forallb]. rewrite wfs_text, (piece_ne p Hne), Hb. reflexivity.
  - apply andb_true_iff in Hb. destruct Hb as [Hb Hps]. apply andb_true_iff in Hb. destruct Hb as [Hb Hp0].
    apply andb_true_iff in Hb. destruct Hb as [Hb Hal]. apply andb_true_iff in Hb. destruct Hb as [Hw Hnm].
    rewrite forallb_app. cbn [forallb]. rewrite (wfs_tk ttm w Hw), wfs_elem, (ename_src ttm nm Hnm), Hal, (span_shape p0 ps),
      (span_wfs ttm p0 ps Hp0 Hps). reflexivity.
Qed.

Lemma content_wfs ttm gs wl : forallb group_ok gs = true -> forallb group_bytes_ok gs = true -> no13 wl = true ->
  forallb (wfs ttm) (render_content gs wl) = true.
Proof.
  intros Hok Hb Hw. unfold render_content. rewrite forallb_app, (wfs_tk ttm wl Hw), andb_true_r.
  induction gs as [|g r IH]; [reflexivity|]. cbn [forallb] in Hok, Hb.
  apply andb_true_iff in Hok. destruct Hok as [Hg Hok]. apply andb_true_iff in Hb. destruct Hb as [Hgb Hb].
  cbn [flat_map]. rewrite forallb_app, (group_wfs ttm g Hg Hgb), (IH Hok Hb). reflexivity.
Qed.

Lemma wfs_para ttm p : adjacency_ok (rp_groups p) (rp_wl p) = true -> forallb group_ok (rp_groups p) = true ->
  para_bytes_ok p = true -> wfs ttm (render_para p) = true.
Proof.
  intros Ha Hg Hb. unfold para_bytes_ok in Hb. apply andb_true_iff in Hb. destruct Hb as [Hb Hwl].
  apply andb_true_iff in Hb. destruct Hb as [Hal Hgb]. unfold render_para.
  apply wfs_el; [reflexivity | reflexivity | exact Hal | apply content_shape; exact Ha | apply content_wfs; assumption].
Qed.

(* ================= what the checks give ================= *)
Lemma para_check_content fr tr st rg g p : para_check fr tr st rg g p = true ->
  adjacency_ok (rp_groups p) (rp_wl p) = true /\ forallb group_ok (rp_groups p) = true.
Proof.
  unfold para_check. intros H.
  apply andb_true_iff in H. destruct H as [H _]. apply andb_true_iff in H. destruct H as [H _].
  apply andb_true_iff in H. destruct H as [H _]. apply andb_true_iff in H. destruct H as [_ H].
  unfold content_ok in H. apply andb_true_iff in H. destruct H as [H _]. apply andb_true_iff in H. destruct H as [Hg Ha].
  split; assumption.
Qed.

Lemma paras_content r m : render_ok r m = true -> forall p, In p (r_paras r) ->
  adjacency_ok (rp_groups p) (rp_wl p) = true /\ forallb group_ok (rp_groups p) = true.
Proof.
  intros H p Hin. apply render_ok_parts in H.
  destruct H as (_ & _ & _ & _ & _ & _ & _ & _ & _ & _ & Lps & _ & _ & Hps).
  destruct (combine_snd_in (gd_items m) (r_paras r) p Lps Hin) as (g & Hg).
  rewrite forallb_forall in Hps. specialize (Hps (g, p) Hg). cbn [fst snd] in Hps.
  exact (para_check_content _ _ _ _ _ _ Hps).
Qed.

Lemma bytes_ok_parts r m : bytes_ok r m = true ->
  r_root_extra r = std_extra /\ forallb (fun a => rattr_ok (std_attr a)) (r_root_attrs r) = true
  /\ no13 (gd_title m) = true /\ no13 (gd_copyright m) = true
  /\ forallb attrs_bytes_ok (r_style_attrs r) = true /\ forallb attrs_bytes_ok (r_region_attrs r) = true
  /\ forallb para_bytes_ok (r_paras r) = true
  /\ forallb no13 (r_ws_root r) = true /\ forallb no13 (r_ws_head r) = true /\ forallb no13 (r_ws_meta r) = true
  /\ forallb no13 (r_ws_styling r) = true /\ forallb no13 (r_ws_layout r) = true /\ forallb no13 (r_ws_body r) = true
  /\ forallb no13 (r_ws_div r) = true.
Proof.
  unfold bytes_ok. intros H.
  apply andb_true_iff in H. destruct H as [H H14]. apply andb_true_iff in H. destruct H as [H H13].
  apply andb_true_iff in H. destruct H as [H H12]. apply andb_true_iff in H. destruct H as [H H11].
  apply andb_true_iff in H. destruct H as [H H10]. apply andb_true_iff in H. destruct H as [H H9].
  apply andb_true_iff in H. destruct H as [H H8]. apply andb_true_iff in H. destruct H as [H H7].
  apply andb_true_iff in H. destruct H as [H H6]. apply andb_true_iff in H. destruct H as [H H5].
  apply andb_true_iff in H. destruct H as [H H4]. apply andb_true_iff in H. destruct H as [H H3].
  apply andb_true_iff in H. destruct H as [H1 H2].
  apply (list_eqb_eq xattr_eqb xattr_eqb_eq) in H1.
  repeat split; assumption.
Qed.

(* ================= the children of the root ================= *)
Lemma wfs_meta ttm r m : no13 (gd_title m) = true -> no13 (gd_copyright m) = true -> forallb no13 (r_ws_meta r) = true ->
  wfs ttm (render_meta r m) = true.
Proof.
  intros Ht Hc Hw. unfold render_meta. cbv zeta.
  pose proof (wfs_textel ttm s_title (gd_title m) eq_refl eq_refl Ht) as Wt.
  pose proof (wfs_textel ttm s_copyright (gd_copyright m) eq_refl eq_refl Hc) as Wc.
  apply wfs_weave; [reflexivity | reflexivity | exact Hw | destruct (r_title_first r); reflexivity |].
  destruct (r_title_first r); cbn [forallb]; rewrite Wt, Wc; reflexivity.
Qed.

Lemma wfs_section ttm r m i : bytes_ok r m = true -> wfs ttm (render_section r m i) = true.
Proof.
  intros Hb. apply bytes_ok_parts in Hb.
  destruct Hb as (_ & _ & Ht & Hc & Hst & Hrg & _ & _ & _ & Wm & Ws & Wl & _ & _).
  destruct i as [|[|i]]; cbn [render_section].
  - apply wfs_meta; assumption.
  - apply wfs_weave; [reflexivity | reflexivity | exact Ws | apply is_elem_map; reflexivity |].
    apply wfs_leaves; [reflexivity | reflexivity | exact Hst].
  - apply wfs_weave; [reflexivity | reflexivity | exact Wl | apply is_elem_map; reflexivity |].
    apply wfs_leaves; [reflexivity | reflexivity | exact Hrg].
Qed.
Lemma is_elem_section r m i : is_elem (render_section r m i) = true.
Proof. destruct i as [|[|i]]; reflexivity. Qed.

Lemma wfs_paras ttm r m : render_ok r m = true -> bytes_ok r m = true ->
  forallb (wfs ttm) (map render_para (r_paras r)) = true.
Proof.
  intros Hr Hb. apply bytes_ok_parts in Hb. destruct Hb as (_ & _ & _ & _ & _ & _ & Hps & _).
  rewrite forallb_map'. apply forallb_forall. intros p Hin.
  destruct (paras_content r m Hr p Hin) as [Ha Hg]. rewrite forallb_forall in Hps.
  exact (wfs_para ttm p Ha Hg (Hps p Hin)).
Qed.

Lemma root_kids_ok ttm r m : render_ok r m = true -> bytes_ok r m = true ->
  kids_shape2 (root_kids r m) = true /\ forallb (wfs ttm) (root_kids r m) = true.
Proof.
  intros Hr Hb. pose proof (wfs_paras ttm r m Hr Hb) as Wp.
  pose proof (fun i => wfs_section ttm r m i Hb) as Wsec.
  apply bytes_ok_parts in Hb.
  destruct Hb as (_ & _ & _ & _ & _ & _ & _ & Wroot & Whead & _ & _ & _ & Wbody & Wdiv).
  unfold root_kids. split; [apply weave_shape; reflexivity|].
  apply weave_wfs; [exact Wroot|]. cbn [forallb]. rewrite andb_true_r. apply andb_true_iff. split.
  - apply wfs_weave; [reflexivity | reflexivity | exact Whead | apply is_elem_map; apply is_elem_section |].
    rewrite forallb_map'. apply forallb_forall. intros i _. apply Wsec.
  - apply wfs_weave; [reflexivity | reflexivity | exact Wbody | reflexivity |].
    cbn [forallb]. rewrite andb_true_r.
    apply wfs_weave; [reflexivity | reflexivity | exact Wdiv | apply is_elem_map; reflexivity | exact Wp].
Qed.

(* ================= the attributes of the root ================= *)
Lemma root_decls r m : render_ok r m = true -> bytes_ok r m = true ->
  existsb decl0 (map std_attr (r_root_attrs r)) = true /\ existsb decl_tts (map std_attr (r_root_attrs r)) = true.
Proof.
  intros Hr Hb. apply bytes_ok_parts in Hb. destruct Hb as (Hex & _).
  apply render_ok_parts in Hr. destruct Hr as (_ & _ & _ & _ & _ & Hperm & _).
  destruct (attrs_perm_sound _ _ Hperm) as [Hp _].
  assert (Hin : forall a, In a std_extra -> In a (r_root_attrs r)).
  { intros a Ha. apply (Permutation_in a Hp). unfold rroot_attrs. rewrite Hex.
    apply in_or_app. right. apply in_or_app. right. apply in_or_app. right. exact Ha. }
  split; apply existsb_exists.
  - exists (std_attr (mkName [] s_xmlns, ns_ttml)). split; [|vm_compute; reflexivity].
    apply in_map. apply Hin. left. reflexivity.
  - exists (std_attr (mkName s_xmlns s_tts, ns_tts)). split; [|vm_compute; reflexivity].
    apply in_map. apply Hin. right. left. reflexivity.
Qed.

(* ================= the theorems ================= *)
Theorem render_std_wf2 : forall r m, render_ok r m = true -> bytes_ok r m = true -> wf2_root (render_std r m) = true.
Proof.
  intros r m Hr Hb. unfold render_std. rewrite render_tree_eq. cbn [respace wf2_root].
  change (ename_ok2 false (rename std_space (mkName el_mark s_tt)) && forallb rattr_ok (map std_attr (r_root_attrs r))
          && existsb decl0 (map std_attr (r_root_attrs r)) && existsb decl_tts (map std_attr (r_root_attrs r))
          && kids_shape2 (map (respace std_space) (root_kids r m))
          && forallb (wf2 (existsb decl_ttm (map std_attr (r_root_attrs r)))) (map (respace std_space) (root_kids r m)) = true).
  destruct (root_decls r m Hr Hb) as [D0 Dt]. rewrite D0, Dt.
  destruct (root_kids_ok (existsb decl_ttm (map std_attr (r_root_attrs r))) r m Hr Hb) as [Ks Kw].
  rewrite kids_shape2_respace, Ks, !forallb_map'.
  fold (wfs (existsb decl_ttm (map std_attr (r_root_attrs r)))). rewrite Kw.
  pose proof (bytes_ok_parts r m Hb) as (_ & Hra & _). rewrite Hra.
  rewrite (ename_el false s_tt eq_refl eq_refl). reflexivity.
Qed.

Theorem read_rendered_bytes : forall r m pc prolog,
  render_ok r m = true -> bytes_ok r m = true -> pchoice_ok pc (render_std r m) = true -> prolog_ok prolog = true ->
  exists t, xml_parse2 (prolog ++ print2 print_name pc (render_std r m)) = Some t /\ read_ttml t = Ok (denote_ttml r m).
Proof.
  intros r m pc prolog Hr Hb Hpc Hp. exists (render_std r m). split.
  - exact (parse2_print2 pc (render_std r m) prolog (render_std_wf2 r m Hr Hb) Hpc Hp).
  - unfold render_std. rewrite read_ttml_respace, <- (read_ttml_respace (r_space r)).
    exact (proj1 (read_rendered r m Hr)).
Qed.

Print Assumptions read_rendered_bytes.

(* the statement that is also true of the library: no line break inside an attribute value of a span *)
Theorem read_rendered_bytes_go : forall r m pc prolog,
  render_ok r m = true -> bytes_ok_go r m = true -> pchoice_ok pc (render_std r m) = true -> prolog_ok prolog = true ->
  exists t, xml_parse2 (prolog ++ print2 print_name pc (render_std r m)) = Some t /\ read_ttml t = Ok (denote_ttml r m).
Proof.
  intros r m pc prolog Hr Hb Hp Hq. unfold bytes_ok_go in Hb. apply andb_true_iff in Hb. destruct Hb as [Hb _].
  exact (read_rendered_bytes r m pc prolog Hr Hb Hp Hq).
Qed.
Print Assumptions read_rendered_bytes_go.
