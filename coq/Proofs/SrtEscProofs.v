(* SubRip text escaping: unescape_html (escape_html s) = s, and the facts about escaped text the
   line-level proofs need. *)
From Coq Require Import List NArith Lia Bool Arith Wf_nat.
From Astisub Require Import Kit.Base Kit.Str Model.Srt.
Import ListNotations.
Open Scope N_scope.

Lemma prefix_len p s r : prefix p s = Some r -> (length s = length p + length r)%nat.
Proof.
  revert s r; induction p as [|a p IH]; intros s r H; cbn [prefix] in H.
  - inversion H; reflexivity.
  - destruct s as [|b s]; [discriminate|]. destruct (a =? b); [|discriminate]. cbn [length]. rewrite (IH _ _ H). reflexivity.
Qed.

Definition olds_nonempty (pairs : list (str * str)) : Prop := Forall (fun p => fst p <> []) pairs.

Lemma first_match_len pairs s n r : olds_nonempty pairs -> first_match pairs s = Some (n, r) -> (length r < length s)%nat.
Proof.
  intros Hne. induction pairs as [|[o n'] ps IH]; [discriminate|].
  inversion Hne as [|? ? Ho Hps]; subst. cbn [fst] in Ho.
  cbn [first_match]. destruct (prefix o s) eqn:E.
  - intros H; inversion H; subst. apply prefix_len in E. destruct o; [contradiction|]. cbn [length] in E. lia.
  - exact (IH Hps).
Qed.

Lemma replace_fuel_enough pairs n m s : olds_nonempty pairs -> (length s < n)%nat -> (length s < m)%nat ->
  replace_fuel n pairs s = replace_fuel m pairs s.
Proof.
  intros Hne. revert m s; induction n as [|n IH]; intros m s Hn Hm; [lia|]. destruct m as [|m]; [lia|].
  cbn [replace_fuel]. destruct s as [|c t]; [reflexivity|].
  destruct (first_match pairs (c :: t)) as [[nw rest]|] eqn:E.
  - apply (first_match_len _ _ _ _ Hne) in E. f_equal. apply IH; cbn [length] in *; lia.
  - f_equal. apply IH; cbn [length] in *; lia.
Qed.

Lemma replace_all_nil pairs : replace_all pairs [] = []. Proof. reflexivity. Qed.
Lemma replace_cons_match pairs c t n rest : olds_nonempty pairs -> first_match pairs (c :: t) = Some (n, rest) ->
  replace_all pairs (c :: t) = n ++ replace_all pairs rest.
Proof.
  intros Hne E. unfold replace_all at 1. cbn [replace_fuel]. rewrite E. f_equal.
  apply (first_match_len _ _ _ _ Hne) in E. unfold replace_all. apply replace_fuel_enough; cbn [length] in *; try lia. exact Hne.
Qed.
Lemma replace_cons_nomatch pairs c t : first_match pairs (c :: t) = None ->
  replace_all pairs (c :: t) = c :: replace_all pairs t.
Proof. intros E. unfold replace_all at 1. cbn [replace_fuel]. rewrite E. reflexivity. Qed.

Lemma esc_pairs_ne : olds_nonempty esc_pairs.
Proof. repeat constructor; cbn; discriminate. Qed.
Lemma unesc_pairs_ne : olds_nonempty unesc_pairs.
Proof. repeat constructor; cbn; discriminate. Qed.

(* unescape distributes over an entity / a plain byte at the front *)
Lemma unesc_amp r : unescape_html (e_amp ++ r) = 38 :: unescape_html r.
Proof. unfold unescape_html, e_amp. cbn [app]. rewrite (replace_cons_match _ _ _ [38] r); [reflexivity | exact unesc_pairs_ne | reflexivity]. Qed.
Lemma unesc_lt r : unescape_html (e_lt ++ r) = 60 :: unescape_html r.
Proof. unfold unescape_html, e_lt. cbn [app]. rewrite (replace_cons_match _ _ _ [60] r); [reflexivity | exact unesc_pairs_ne | reflexivity]. Qed.
Lemma unesc_nbsp r : unescape_html (e_nbsp ++ r) = nbsp ++ unescape_html r.
Proof. unfold unescape_html, e_nbsp. cbn [app]. rewrite (replace_cons_match _ _ _ nbsp r); [reflexivity | exact unesc_pairs_ne | reflexivity]. Qed.
Lemma unesc_other c r : c <> 38 -> unescape_html (c :: r) = c :: unescape_html r.
Proof.
  intros H. unfold unescape_html. apply replace_cons_nomatch. unfold unesc_pairs, first_match, e_amp, e_lt, e_nbsp, prefix.
  assert (E : (38 =? c) = false) by (apply N.eqb_neq; intro; apply H; subst; reflexivity). rewrite E. reflexivity.
Qed.
Lemma unesc_nil : unescape_html [] = []. Proof. reflexivity. Qed.

(* one step of escape_html *)
Lemma escape_step c t :
  (c = 38 /\ escape_html (c :: t) = e_amp ++ escape_html t) \/
  (c = 60 /\ escape_html (c :: t) = e_lt ++ escape_html t) \/
  (exists t', c = 194 /\ t = 160 :: t' /\ escape_html (c :: t) = e_nbsp ++ escape_html t') \/
  (c <> 38 /\ c <> 60 /\ escape_html (c :: t) = c :: escape_html t).
Proof.
  unfold escape_html.
  destruct (first_match esc_pairs (c :: t)) as [[nw rest]|] eqn:E.
  - rewrite (replace_cons_match _ _ _ _ _ esc_pairs_ne E).
    cbv beta iota delta [esc_pairs first_match prefix nbsp] in E.
    destruct (38 =? c) eqn:E1.
    + inversion E; subst. apply N.eqb_eq in E1. left. auto.
    + destruct (60 =? c) eqn:E2.
      * inversion E; subst. apply N.eqb_eq in E2. right; left. auto.
      * destruct (194 =? c) eqn:E3; [|discriminate].
        destruct t as [|d t']; [discriminate|]. destruct (160 =? d) eqn:E4; [|discriminate].
        inversion E; subst. apply N.eqb_eq in E3, E4. subst. right; right; left. exists rest. auto.
  - rewrite (replace_cons_nomatch _ _ _ E). right; right; right.
    cbv beta iota delta [esc_pairs first_match prefix nbsp] in E.
    destruct (38 =? c) eqn:E1; [discriminate|]. destruct (60 =? c) eqn:E2; [discriminate|].
    apply N.eqb_neq in E1, E2. repeat split; congruence.
Qed.

Lemma escape_nil : escape_html [] = []. Proof. reflexivity. Qed.

(* induction principle following the replacer *)
Lemma escape_ind (P : str -> str -> Prop) :
  P [] [] ->
  (forall t, P t (escape_html t) -> P (38 :: t) (e_amp ++ escape_html t)) ->
  (forall t, P t (escape_html t) -> P (60 :: t) (e_lt ++ escape_html t)) ->
  (forall t, P t (escape_html t) -> P (194 :: 160 :: t) (e_nbsp ++ escape_html t)) ->
  (forall c t, c <> 38 -> c <> 60 -> P t (escape_html t) -> P (c :: t) (c :: escape_html t)) ->
  forall s, P s (escape_html s).
Proof.
  intros H0 Ha Hl Hn Ho s. remember (length s) as n eqn:Hn'. revert s Hn'.
  induction n as [n IH] using lt_wf_ind. intros s Hlen.
  destruct s as [|c t]; [exact H0|].
  destruct (escape_step c t) as [(-> & E) | [(-> & E) | [(t' & -> & -> & E) | (N1 & N2 & E)]]]; rewrite E.
  - apply Ha. eapply IH; [|reflexivity]. cbn [length] in *; lia.
  - apply Hl. eapply IH; [|reflexivity]. cbn [length] in *; lia.
  - apply Hn. eapply IH; [|reflexivity]. cbn [length] in *; lia.
  - apply Ho; [exact N1 | exact N2 |]. eapply IH; [|reflexivity]. cbn [length] in *; lia.
Qed.

Theorem unescape_escape : forall s : list N, unescape_html (escape_html s) = s.
Proof.
  apply (escape_ind (fun s e => unescape_html e = s)).
  - reflexivity.
  - intros t IH. rewrite unesc_amp, IH. reflexivity.
  - intros t IH. rewrite unesc_lt, IH. reflexivity.
  - intros t IH. rewrite unesc_nbsp, IH. reflexivity.
  - intros c t N1 _ IH. rewrite (unesc_other _ _ N1), IH. reflexivity.
Qed.

(* escaped text has no '<' *)
Lemma escape_no_lt s : ~ In 60 (escape_html s).
Proof.
  apply (escape_ind (fun _ e => ~ In 60 e)).
  - intros [].
  - intros t IH H. unfold e_amp in H. cbn [app In] in H. repeat (destruct H as [H|H]; [discriminate|]). exact (IH H).
  - intros t IH H. unfold e_lt in H. cbn [app In] in H. repeat (destruct H as [H|H]; [discriminate|]). exact (IH H).
  - intros t IH H. unfold e_nbsp in H. cbn [app In] in H. repeat (destruct H as [H|H]; [discriminate|]). exact (IH H).
  - intros c t _ N2 IH H. destruct H as [H|H]; [congruence | exact (IH H)].
Qed.

Lemma escape_nil_inv s : escape_html s = [] -> s = [].
Proof.
  destruct s as [|c t]; [reflexivity|]. intros H.
  destruct (escape_step c t) as [(_ & E) | [(_ & E) | [(t' & _ & _ & E) | (_ & _ & E)]]]; rewrite E in H; discriminate.
Qed.

(* bytes of the escaped text: those of the text, plus the entity letters *)
Lemma escape_bytes s c : In c (escape_html s) -> In c s \/ In c [38;97;109;112;59;108;116;110;98;115].
Proof.
  revert c. apply (escape_ind (fun s e => forall c, In c e -> In c s \/ In c [38;97;109;112;59;108;116;110;98;115])).
  - intros c [].
  - intros t IH c H. unfold e_amp in H. cbn [app] in H.
    do 5 (destruct H as [H|H]; [right; subst c; cbn; tauto|]). destruct (IH c H); [left; right; assumption | right; assumption].
  - intros t IH c H. unfold e_lt in H. cbn [app] in H.
    do 4 (destruct H as [H|H]; [right; subst c; cbn; tauto|]). destruct (IH c H); [left; right; assumption | right; assumption].
  - intros t IH c H. unfold e_nbsp in H. cbn [app] in H.
    do 6 (destruct H as [H|H]; [right; subst c; cbn; tauto|]). destruct (IH c H); [left; right; right; assumption | right; assumption].
  - intros c t _ _ IH d H. destruct H as [H|H]; [left; left; exact H|]. destruct (IH d H); [left; right; assumption | right; assumption].
Qed.

(* text without '&' is not changed by unescape_html *)
Lemma unescape_no_amp s : ~ In 38 s -> unescape_html s = s.
Proof.
  induction s as [|c t IH]; intros H; [reflexivity|].
  rewrite unesc_other by (intros E; apply H; left; congruence).
  rewrite IH by (intros Hin; apply H; right; exact Hin). reflexivity.
Qed.

Print Assumptions unescape_escape.
