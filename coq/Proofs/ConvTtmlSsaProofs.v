(* C07, TTML -> SSA/ASS for STYLED sources (Model/ConvTtmlSsa.v): for every TTML document value whose conversion is
   representable in SSA, and every order in which the runtime may range over the styles map, the conversion succeeds
   and the destination read back holds the same cues in the same order, times truncated to the centisecond, per line
   the texts of the runs put together.  From the SSA write->read theorem (Proofs/SsaDoc.v write_read, through
   Proofs/SsaRewrite.v write_sorted / sorted_doc_repr: the TTML styles map is not listed in sorted order) and the
   TTML byte-level round trip (Proofs/TtmlDoc.v write_read, Proofs/Parse2Written.v).
   Representability, spelled out (ttml_ssa_okb is its decidable form): at least one cue; every style of the map stored
   under its own ID, the IDs non-empty, pairwise distinct, free of commas and line terminators, unchanged by TrimSpace;
   the title free of line terminators and unchanged by TrimSpace; times between 0 and the largest Duration; a cue's
   style reference names a style of the map and is not the reserved spelling *Default; every cue has a line; the text
   of a line (run texts put together) has no brace, no two-byte sequence \n or \N, is unchanged by TrimSpace; the cue
   text as a whole (lines joined by \n) is free of line terminators and unchanged by TrimSpace.  Each condition is
   needed: see the computed counter-examples at the end (what the real library does on them: notes/C07-ttml-ssa.md). *)
From Coq Require Import Strings.String Strings.Ascii.
From Coq Require Import List ZArith NArith Bool Lia Permutation.
From Astisub Require Import Kit.Base Kit.Str Kit.Xml Kit.XmlParse Kit.XmlParse2 Model.Dur Model.Ttml Model.Ssa Model.Plain Model.PlainTtml
  Model.PlainSsa Model.ConvTtmlSsa.
From Astisub Require Import Proofs.SsaText Proofs.SsaRows Proofs.SsaInfo Proofs.SsaStyles Proofs.SsaEvents Proofs.SsaDoc Proofs.SsaOrder Proofs.SsaRepr
  Proofs.SsaRewrite.
From Astisub Require Import Proofs.TtmlSpec Proofs.TtmlDocSpec Proofs.TtmlDoc Proofs.Parse2Written.
Import ListNotations.

(* ================= the writer sees the run texts of a line put together ================= *)
Lemma tsa_run_string r : run_string (tsa_run r) = tr_txt r.
Proof. reflexivity. Qed.
Lemma tsa_line_string l : line_string (tsa_line l) = ttml_line_text l.
Proof.
  unfold line_string, tsa_line, ttml_line_text. cbn [al_runs]. rewrite map_map. f_equal.
Qed.
Lemma tsa_line_nf_string l : line_string (tsa_line_nf l) = ttml_line_text l.
Proof. unfold line_string, tsa_line_nf. cbn [al_runs map concat]. unfold run_string. cbn [ar_eff ar_text app]. apply app_nil_r. Qed.

Lemma item_name_novoice (ls : list aline) : Forall (fun l => al_voice l = []) ls -> item_name ls = [].
Proof.
  unfold item_name. intros HF.
  assert (G : forall acc : str, fold_left (fun n l => match al_voice l with [] => n | v => v end) ls acc = acc).
  { induction ls as [|l r IH]; intros acc; [reflexivity|].
    pose proof (Forall_inv HF) as Hl. pose proof (Forall_inv_tail HF) as Hr. cbn beta in Hl.
    cbn [fold_left]. rewrite Hl. apply IH. exact Hr. }
  apply G.
Qed.
Lemma tsa_item_name ls : item_name (map tsa_line ls) = [].
Proof. apply item_name_novoice. apply Forall_forall. intros l Hl. apply in_map_iff in Hl. destruct Hl as (x & <- & _). reflexivity. Qed.
Lemma tsa_item_name_nf ls : item_name (map tsa_line_nf ls) = [].
Proof. apply item_name_novoice. apply Forall_forall. intros l Hl. apply in_map_iff in Hl. destruct Hl as (x & <- & _). reflexivity. Qed.

Lemma tsa_event_nf it : event_of_item (tsa_item it) = event_of_item (tsa_item_nf it).
Proof.
  unfold event_of_item, tsa_item, tsa_item_nf. cbn [ai_inl ai_start ai_end ai_style ai_lines].
  rewrite tsa_item_name, tsa_item_name_nf. f_equal.
  unfold item_text_ssa. f_equal. rewrite !map_map. apply map_ext. intros l. rewrite tsa_line_string, tsa_line_nf_string. reflexivity.
Qed.

(* the two forms are written to the same bytes, whatever the order *)
Lemma tsa_write_nf d order : write_ssa (conv_ttml_ssa d) order = write_ssa (conv_ttml_ssa_nf d) order.
Proof.
  assert (Eev : events_bytes (conv_ttml_ssa d) = events_bytes (conv_ttml_ssa_nf d)).
  { unfold events_bytes. change (is_v4plus (conv_ttml_ssa_nf d)) with (is_v4plus (conv_ttml_ssa d)).
    change (ad_items (conv_ttml_ssa d)) with (map tsa_item (td_items d)).
    change (ad_items (conv_ttml_ssa_nf d)) with (map tsa_item_nf (td_items d)). rewrite !map_map.
    rewrite (map_ext _ (fun x => n_dialogue_pfx ++ event_string (event_of_item (tsa_item_nf x)) (event_format (is_v4plus (conv_ttml_ssa d))) ++ nl));
      [reflexivity|]. intros it. rewrite tsa_event_nf. reflexivity. }
  unfold write_ssa, write_ssa_chunks. rewrite Eev.
  change (styles_bytes (conv_ttml_ssa d) order) with (styles_bytes (conv_ttml_ssa_nf d) order).
  change (ad_meta (conv_ttml_ssa d)) with (ad_meta (conv_ttml_ssa_nf d)).
  change (ad_styles (conv_ttml_ssa d)) with (ad_styles (conv_ttml_ssa_nf d)).
  change (ad_items (conv_ttml_ssa d)) with (map tsa_item (td_items d)).
  change (ad_items (conv_ttml_ssa_nf d)) with (map tsa_item_nf (td_items d)).
  destruct (td_items d); reflexivity.
Qed.

Lemma tsa_style_keys d : style_keys (conv_ttml_ssa_nf d) = tsa_keys d.
Proof. unfold style_keys, conv_ttml_ssa_nf, tsa_keys, tsa_styles. cbn [ad_styles]. rewrite map_map. reflexivity. Qed.

(* ================= the plain view of what is read back ================= *)
Lemma tsa_plain_canon v4p m s its :
  ssa_to_plain (mkAdoc m s (map (canon_item v4p) (map tsa_item_nf its))) =
  ptrunc ssa_unit (map (fun it => (ti_st it, ti_en it, map ttml_line_text (ti_lines it))) its).
Proof.
  unfold ssa_to_plain, ptrunc. cbn [ad_items]. rewrite !map_map. apply map_ext. intros it.
  unfold canon_item, tsa_item_nf. cbn [ai_start ai_end ai_lines]. unfold trunc_cs, trunc_to, ssa_unit. f_equal.
  rewrite !map_map. apply map_ext. intros l. unfold ssa_line_text, tsa_line_nf. cbn [al_runs map ar_text concat]. apply app_nil_r.
Qed.

(* ================= document level ================= *)
Theorem ttml_to_ssa_doc d order :
  image_repr (conv_ttml_ssa_nf d) -> Permutation order (tsa_keys d) ->
  exists dst d', write_ssa (conv_ttml_ssa d) order = Ok dst /\ read_ssa dst = Ok d' /\
                 ssa_to_plain d' = ptrunc ssa_unit (ttml_to_plain d).
Proof.
  intros (sts & Em & Hnd & Hsr & Hinfo & Hne & Hitems) P.
  pose proof (sorted_doc_repr (conv_ttml_ssa_nf d) sts Em Hnd Hsr Hinfo Hne Hitems) as Hr.
  destruct (SsaDoc.write_read (sorted_doc (conv_ttml_ssa_nf d) sts) Hr) as (data & Hw & Hrd).
  exists data, (canon_doc (sorted_doc (conv_ttml_ssa_nf d) sts)). split.
  - rewrite tsa_write_nf. rewrite (write_sorted (conv_ttml_ssa_nf d) sts order Em Hnd); [exact Hw|].
    rewrite tsa_style_keys. exact P.
  - split; [exact Hrd|]. unfold canon_doc, sorted_doc. cbn [ad_items]. unfold conv_ttml_ssa_nf at 3. cbn [ad_items].
    apply tsa_plain_canon.
Qed.

(* the result does not depend on the order in which the styles map is ranged over *)
Theorem convert_ttml_ssa_order_independent reorder src :
  (forall l, Permutation (reorder l) l) -> convert_ttml_ssa_by reorder src = convert_ttml_ssa src.
Proof.
  intros Hp. unfold convert_ttml_ssa, convert_ttml_ssa_by. destruct (read_ttml_bytes2 src) as [d|k|p]; try reflexivity.
  apply write_order_independent. apply Hp.
Qed.

(* ================= file level: any TTML source the reader model accepts ================= *)
Theorem ttml_to_ssa_styled src root d reorder :
  xml_parse2 src = Some root -> read_ttml root = Ok d ->
  image_repr (conv_ttml_ssa_nf d) -> Permutation (reorder (tsa_keys d)) (tsa_keys d) ->
  exists dst d', convert_ttml_ssa_by reorder src = Ok dst /\ read_ssa dst = Ok d' /\
                 ssa_to_plain d' = ptrunc ssa_unit (ttml_to_plain d).
Proof.
  intros Hx Hrd Hrep P. destruct (ttml_to_ssa_doc d _ Hrep P) as (dst & d' & Hw & Hr & Hp).
  exists dst, d'. split; [|split; [exact Hr | exact Hp]].
  unfold convert_ttml_ssa_by, read_ttml_bytes2. rewrite Hx, Hrd. exact Hw.
Qed.
(* the same through the two plain-view decoders of C07 (Model/PlainTtml.v ttml_dec2, Model/PlainSsa.v ssa_dec) *)
Corollary ttml_to_ssa_styled_plain src p d reorder :
  read_ttml_bytes2 src = Ok d -> ttml_to_plain d = p ->
  image_repr (conv_ttml_ssa_nf d) -> Permutation (reorder (tsa_keys d)) (tsa_keys d) ->
  exists dst, ttml_dec2 src = Ok p /\ convert_ttml_ssa_by reorder src = Ok dst /\ ssa_dec dst = Ok (ptrunc ssa_unit p).
Proof.
  intros Hrd Ep Hrep P. destruct (ttml_to_ssa_doc d _ Hrep P) as (dst & d' & Hw & Hr & Hp).
  exists dst. split; [unfold ttml_dec2, dec_with; rewrite Hrd, Ep; reflexivity|]. split.
  - unfold convert_ttml_ssa_by. rewrite Hrd. exact Hw.
  - unfold ssa_dec, dec_with. rewrite Hr, Hp, Ep. reflexivity.
Qed.

(* ================= from a representable TTML document and its written bytes ================= *)
Lemma ttml_to_plain_written_any d : ttml_to_plain (written_value d) = ptrunc 1000000 (ttml_to_plain d).
Proof.
  unfold ttml_to_plain, written_value, ptrunc. cbn [td_items]. rewrite !map_map. apply map_ext. intros it.
  unfold written_item. cbn [ti_st ti_en ti_lines]. reflexivity.
Qed.
Lemma read_written_bytes2 d ind : repr_doc d = true -> indent_ok ind = true ->
  exists src, write_ttml_bytes ind d = Ok src /\ read_ttml_bytes2 src = Ok (written_value d).
Proof.
  intros Hd Hi. destruct (TtmlDoc.write_read d ind Hd Hi) as (t0 & Hw & Hread).
  assert (Hb : write_ttml_bytes ind d = Ok (print_node print_name ind 0 t0)) by (unfold write_ttml_bytes; rewrite Hw; reflexivity).
  destruct (parse2_written d ind _ Hi Hb) as (t1 & Hw1 & Hp2). rewrite Hw in Hw1. inversion Hw1; subst t1.
  exists (print_node print_name ind 0 t0). split; [exact Hb|]. unfold read_ttml_bytes2. rewrite Hp2. exact Hread.
Qed.
Theorem ttml_to_ssa_written d ind reorder :
  repr_doc d = true -> indent_ok ind = true ->
  image_repr (conv_ttml_ssa_nf (written_value d)) -> Permutation (reorder (tsa_keys d)) (tsa_keys d) ->
  exists src dst d', write_ttml_bytes ind d = Ok src /\ convert_ttml_ssa_by reorder src = Ok dst /\ read_ssa dst = Ok d' /\
                     ssa_to_plain d' = ptrunc ssa_unit (ptrunc 1000000 (ttml_to_plain d)).
Proof.
  intros Hd Hi Hrep P. destruct (read_written_bytes2 d ind Hd Hi) as (src & Hw & Hrd).
  change (tsa_keys d) with (tsa_keys (written_value d)) in P.
  destruct (ttml_to_ssa_doc (written_value d) _ Hrep P) as (dst & d' & Hws & Hr & Hp).
  exists src, dst, d'. split; [exact Hw|]. split; [unfold convert_ttml_ssa_by; rewrite Hrd; exact Hws|].
  split; [exact Hr|]. rewrite Hp, ttml_to_plain_written_any. reflexivity.
Qed.

(* ================= the representability hypothesis is decidable ================= *)
Definition tsa_sts (d : tdoc) : list astyle := map (fun kv => tsa_style (snd kv)) (td_styles d).
Definition ttml_ssa_okb (d : tdoc) : bool :=
  forallb (fun kv : str * tstyle => str_eqb (fst kv) (ts_id (snd kv))) (td_styles d) &&
  nodupb (map ay_name (tsa_sts d)) && forallb style_reprb (tsa_sts d) &&
  info_okb (canon_info (conv_ttml_ssa_nf d)) &&
  negb (null (td_items d)) &&
  forallb (item_reprb (map ay_name (tsa_sts d))) (map tsa_item_nf (td_items d)).
Theorem ttml_ssa_okb_ok d : ttml_ssa_okb d = true -> image_repr (conv_ttml_ssa_nf d).
Proof.
  unfold ttml_ssa_okb. intros H. rewrite !andb_true_iff in H. destruct H as (((((H1 & H2) & H3) & H4) & H5) & H6).
  exists (tsa_sts d). split; [|split; [apply nodupb_ok; exact H2|]; split; [|split; [apply info_okb_ok; exact H4|]; split]].
  - unfold conv_ttml_ssa_nf, tsa_styles, named_styles, tsa_sts. cbn [ad_styles]. rewrite map_map. apply map_ext_in. intros kv Hin.
    rewrite forallb_forall in H1. specialize (H1 kv Hin). apply str_eqb_eq in H1. rewrite H1. reflexivity.
  - apply Forall_forall. intros st Hst. apply style_reprb_ok. rewrite forallb_forall in H3. apply H3. exact Hst.
  - unfold conv_ttml_ssa_nf. cbn [ad_items]. destruct (td_items d); [discriminate H5 | discriminate].
  - unfold conv_ttml_ssa_nf. cbn [ad_items]. apply Forall_forall. intros i Hi. apply item_reprb_ok.
    rewrite forallb_forall in H6. apply H6. exact Hi.
Qed.
(* when the styles map is listed in sorted order (as the TTML write->read theorem has it) the hypothesis is the
   representability predicate of C04 itself *)
Lemma doc_repr_image d : doc_repr d -> image_repr d.
Proof.
  intros ((Em & Hnd & _ & Hsr) & Hinfo & Hne & Hitems). exists (doc_styles d).
  split; [exact Em|]. split; [exact Hnd|]. split; [exact Hsr|]. split; [exact Hinfo|]. split; [exact Hne | exact Hitems].
Qed.

(* ================= a non-trivial instance ================= *)
(* a title, a copyright, a language; three styles (s0 with a colour, s1 with parent s0, s2) of which s1 is referenced
   by a cue and s2 by a span only; a region; two cues: the first with a style, a region and two lines, the first line
   made of two spans; the second without references, times off the millisecond and off the centisecond grid *)
Definition tsa_ex_attrs : tattrs := mkTA (None :: Some (s2l "white") :: map (fun _ => None) (tl (tl attr_names))) None.
Definition tsa_ex : tdoc :=
  mkDoc (Some (mkMeta 25 (s2l "My title: one, two") (s2l "c") (s2l "english")))
        [(s2l "s0", mkStyle (s2l "s0") None tsa_ex_attrs); (s2l "s1", mkStyle (s2l "s1") (Some (s2l "s0")) no_attrs);
         (s2l "s2", mkStyle (s2l "s2") None no_attrs)]
        [(s2l "r0", mkStyle (s2l "r0") (Some (s2l "s2")) no_attrs)]
        [mkItem 1000000000 2000000000 (Some (s2l "r0")) (Some (s2l "s1")) no_attrs
                [[mkRun (s2l "Hello, ") None tsa_ex_attrs; mkRun (s2l "world") (Some (s2l "s2")) no_attrs]; [mkRun (s2l "second line") None no_attrs]];
         mkItem 3005999999 4999000001 None None no_attrs [[mkRun (s2l "plain") None no_attrs]]].
Example tsa_ex_ttml_repr : repr_doc tsa_ex = true.
Proof. vm_compute. reflexivity. Qed.
Example tsa_ex_ok : ttml_ssa_okb tsa_ex = true /\ ttml_ssa_okb (written_value tsa_ex) = true /\
                    doc_reprb (conv_ttml_ssa_nf (written_value tsa_ex)) = true.
Proof. vm_compute. repeat split. Qed.
Example tsa_ex_nf_differs : conv_ttml_ssa tsa_ex <> conv_ttml_ssa_nf tsa_ex.
Proof. vm_compute. discriminate. Qed.
(* the conversion, computed; the styles map ranged over in reverse order *)
Example tsa_ex_bytes :
  write_ssa (conv_ttml_ssa tsa_ex) (rev (tsa_keys tsa_ex)) = Ok (s2l "[Script Info]
Title: My title: one, two

[V4 Styles]
Format: Name
Style: s0
Style: s1
Style: s2

[Events]
Format: Marked, Start, End, Style, Name, MarginL, MarginR, MarginV, Effect, Text
Dialogue: Marked=0,00:00:01.00,00:00:02.00,s1,,0,0,0,,Hello, world\nsecond line
Dialogue: Marked=0,00:00:03.00,00:00:04.99,,,0,0,0,,plain
").
Proof. vm_compute. reflexivity. Qed.
Example tsa_ex_trip :
  tsa_trip tsa_ex = Ok [(1000000000, 2000000000, [s2l "Hello, world"; s2l "second line"]); (3000000000, 4990000000, [s2l "plain"])]%Z.
Proof. vm_compute. reflexivity. Qed.
Example tsa_ex_roundtrip :
  exists src dst d', write_ttml_bytes ttml_default_indent tsa_ex = Ok src /\ convert_ttml_ssa_by (@rev str) src = Ok dst /\
                     read_ssa dst = Ok d' /\ ssa_to_plain d' = ptrunc ssa_unit (ptrunc 1000000 (ttml_to_plain tsa_ex)).
Proof.
  apply ttml_to_ssa_written; [exact tsa_ex_ttml_repr | reflexivity | apply ttml_ssa_okb_ok; exact (proj1 (proj2 tsa_ex_ok))|].
  apply Permutation_sym, Permutation_rev.
Qed.

(* ================= every condition is needed: computed counter-examples ================= *)
(* one cue [1 s, 2 s] with the given lines (one run per line unless stated), under the given styles and title *)
Definition tsa_cx (title : str) (ids : list str) (sty : option str) (ls : list (list str)) : tdoc :=
  mkDoc (Some (mkMeta 0 title [] []))
        (map (fun i => (i, mkStyle i None no_attrs)) ids) []
        [mkItem 1000000000 2000000000 None sty no_attrs (map (map (fun t => mkRun t None no_attrs)) ls)].
Definition tsa_cx_lines (r : res plain) : option (list str) :=
  match r with Ok [(_, _, ls)] => Some ls | _ => None end.
(* braces: a brace pair is read back as an override block, the text between them is gone *)
Example tsa_needs_no_brace :
  tsa_cx_lines (tsa_trip (tsa_cx [] [] None [[s2l "a{b}c"]])) = Some [s2l "ac"] /\
  ttml_ssa_okb (tsa_cx [] [] None [[s2l "a{b}c"]]) = false.
Proof. vm_compute. split; reflexivity. Qed.
(* ... also when the two braces come from two runs of the line *)
Example tsa_needs_no_brace_across_runs :
  tsa_cx_lines (tsa_trip (tsa_cx [] [] None [[s2l "a{b"; s2l "}c"]])) = Some [s2l "ac"] /\
  ttml_ssa_okb (tsa_cx [] [] None [[s2l "a{b"; s2l "}c"]]) = false.
Proof. vm_compute. split; reflexivity. Qed.
(* the two-byte sequences \N and \n inside a line are line breaks for the SSA reader *)
Example tsa_needs_no_break_N :
  tsa_cx_lines (tsa_trip (tsa_cx [] [] None [[s2l "a\Nb"]])) = Some [s2l "a"; s2l "b"] /\
  ttml_ssa_okb (tsa_cx [] [] None [[s2l "a\Nb"]]) = false.
Proof. vm_compute. split; reflexivity. Qed.
Example tsa_needs_no_break_n_across_runs :
  tsa_cx_lines (tsa_trip (tsa_cx [] [] None [[s2l "a\"; s2l "nb"]])) = Some [s2l "a"; s2l "b"] /\
  ttml_ssa_okb (tsa_cx [] [] None [[s2l "a\"; s2l "nb"]]) = false.
Proof. vm_compute. split; reflexivity. Qed.
(* white space at the ends of a line is trimmed by the SSA reader *)
Example tsa_needs_trimmed_lines :
  tsa_cx_lines (tsa_trip (tsa_cx [] [] None [[s2l " a "]; [s2l "b "]])) = Some [s2l "a"; s2l "b"] /\
  ttml_ssa_okb (tsa_cx [] [] None [[s2l " a "]; [s2l "b "]]) = false.
Proof. vm_compute. split; reflexivity. Qed.
(* a carriage return in the text ends the Dialogue row: the rest of the text is lost *)
Example tsa_needs_no_line_terminator :
  tsa_cx_lines (tsa_trip (tsa_cx [] [] None [[[97; 13; 98]%N]])) = Some [s2l "a"] /\
  ttml_ssa_okb (tsa_cx [] [] None [[[97; 13; 98]%N]]) = false.
Proof. vm_compute. split; reflexivity. Qed.
(* a comma in a style ID: the style row has more cells than the Format line, the destination cannot be read *)
Example tsa_needs_no_comma_in_id :
  tsa_trip (tsa_cx [] [s2l "a,b"] (Some (s2l "a,b")) [[s2l "x"]]) = Err EParse /\
  ttml_ssa_okb (tsa_cx [] [s2l "a,b"] (Some (s2l "a,b")) [[s2l "x"]]) = false.
Proof. vm_compute. split; reflexivity. Qed.
(* line terminators in the title: the rest of the title is read as further lines of the document; here they inject
   a cue that the source does not have *)
Definition tsa_cx_title : str := (s2l "a" ++ [10] ++ s2l "[Events]" ++ [10] ++ s2l "Format: Text" ++ [10] ++ s2l "Dialogue: b")%list.
Example tsa_needs_title_one_line :
  tsa_trip (tsa_cx tsa_cx_title [] None [[s2l "x"]]) = Ok [(0, 0, [s2l "b"]); (1000000000, 2000000000, [s2l "x"])]%Z /\
  ttml_ssa_okb (tsa_cx tsa_cx_title [] None [[s2l "x"]]) = false.
Proof. vm_compute. split; reflexivity. Qed.
(* conditions on the style IDs that do not affect the text (the cue only loses its style reference): blanks at the ends
   of an ID (the style row is trimmed, the Style cell of the event is not), the reserved spelling *Default (read as
   Default), an empty ID (an empty Style cell means no style) *)
Example tsa_id_conditions_keep_text :
  tsa_cx_lines (tsa_trip (tsa_cx [] [s2l " a "] (Some (s2l " a ")) [[s2l "x"]])) = Some [s2l "x"] /\
  tsa_cx_lines (tsa_trip (tsa_cx [] [s2l "*Default"] (Some (s2l "*Default")) [[s2l "x"]])) = Some [s2l "x"] /\
  ttml_ssa_okb (tsa_cx [] [s2l " a "] (Some (s2l " a ")) [[s2l "x"]]) = false /\
  ttml_ssa_okb (tsa_cx [] [s2l "*Default"] (Some (s2l "*Default")) [[s2l "x"]]) = false /\
  ttml_ssa_okb (tsa_cx [] [[]] None [[s2l "x"]]) = false.
Proof. vm_compute. repeat split. Qed.
(* inside the domain: commas and colons in the text, an empty line (a paragraph without content or a br at either
   end), a line made of an empty span *)
Example tsa_inside :
  ttml_ssa_okb (tsa_cx (s2l "T") [s2l "b"; s2l "a"] (Some (s2l "a")) [[s2l "a, b: c"]; []; [[]; s2l "d"]; []]) = true /\
  tsa_cx_lines (tsa_trip (tsa_cx (s2l "T") [s2l "b"; s2l "a"] (Some (s2l "a")) [[s2l "a, b: c"]; []; [[]; s2l "d"]; []]))
  = Some [s2l "a, b: c"; []; s2l "d"; []].
Proof. vm_compute. split; reflexivity. Qed.
