(* C07, SSA/ASS file -> WebVTT file for STYLED sources (Model/ConvSsaVtt.v): for every representable SSA document whose
   conversion - the runs of every line put together - is a representable WebVTT document, the written SSA file is
   converted without error and the WebVTT file reads back with the same cues in the same order, times truncated to the
   centisecond (the source's unit; the millisecond grid contains it) and the same text per line.
   From the two document-level write->read theorems (Proofs/SsaDoc.v write_read, Proofs/VttDoc.v write_read_vtt). *)
From Coq Require Import Strings.String.
From Coq Require Import List ZArith NArith Bool Lia.
From Astisub Require Import Kit.Base Kit.Str Model.Srt Model.Vtt Model.Conv Model.Plain Model.Ssa Model.PlainSsa Model.ConvSsaVtt.
From Astisub Require Import Proofs.SrtEscProofs Proofs.VttBase Proofs.VttLine Proofs.VttDoc Proofs.SsaRows Proofs.SsaDoc Proofs.SsaRepr.
Import ListNotations.
Open Scope N_scope.

(* ================= escapeHTML run by run = escapeHTML of the runs put together ================= *)
Lemma esc_cons_amp x : escape_html (38 :: x) = e_amp ++ escape_html x.
Proof. unfold escape_html. apply (replace_cons_match _ _ _ e_amp x esc_pairs_ne). reflexivity. Qed.
Lemma esc_cons_lt x : escape_html (60 :: x) = e_lt ++ escape_html x.
Proof. unfold escape_html. apply (replace_cons_match _ _ _ e_lt x esc_pairs_ne). reflexivity. Qed.
Lemma esc_cons_nbsp x : escape_html (194 :: 160 :: x) = e_nbsp ++ escape_html x.
Proof. unfold escape_html. apply (replace_cons_match _ _ _ e_nbsp x esc_pairs_ne). reflexivity. Qed.
Lemma esc_cons_other c x : c <> 38 -> c <> 60 -> (c = 194 -> hd 0 x <> 160) ->
  escape_html (c :: x) = c :: escape_html x.
Proof.
  intros H1 H2 H3. unfold escape_html. apply replace_cons_nomatch.
  unfold esc_pairs, first_match, prefix, nbsp.
  destruct (N.eqb_spec 38 c) as [E|_]; [congruence|]. destruct (N.eqb_spec 60 c) as [E|_]; [congruence|].
  destruct (N.eqb_spec 194 c) as [E|_]; [|reflexivity].
  destruct x as [|d x']; [reflexivity|]. destruct (N.eqb_spec 160 d) as [E2|_]; [|reflexivity].
  subst d. exfalso. apply (H3 (eq_sym E)). reflexivity.
Qed.

Lemma ends_c2_cons c d t : ends_c2 (c :: d :: t) = ends_c2 (d :: t).
Proof. reflexivity. Qed.

Lemma escape_html_app b : forall n a, (length a <= n)%nat -> ends_c2 a = false ->
  escape_html (a ++ b) = escape_html a ++ escape_html b.
Proof.
  induction n as [|n IH]; intros a Hn He.
  - destruct a; [reflexivity | cbn [length] in Hn; lia].
  - destruct a as [|c t]; [reflexivity|]. cbn [length] in Hn.
    assert (Het : ends_c2 t = false) by (destruct t as [|d t']; [reflexivity | rewrite ends_c2_cons in He; exact He]).
    destruct (N.eq_dec c 38) as [->|N1].
    { cbn [app]. rewrite !esc_cons_amp, (IH t) by (try lia; exact Het). rewrite app_assoc. reflexivity. }
    destruct (N.eq_dec c 60) as [->|N2].
    { cbn [app]. rewrite !esc_cons_lt, (IH t) by (try lia; exact Het). rewrite app_assoc. reflexivity. }
    destruct (N.eq_dec c 194) as [->|N3].
    + destruct t as [|d t']; [discriminate He|].
      destruct (N.eq_dec d 160) as [->|Nd].
      * cbn [app]. rewrite !esc_cons_nbsp.
        assert (Het' : ends_c2 t' = false) by (destruct t' as [|e t'']; [reflexivity | rewrite ends_c2_cons in Het; exact Het]).
        cbn [length] in Hn. rewrite (IH t') by (try lia; exact Het'). rewrite app_assoc. reflexivity.
      * cbn [app]. rewrite (esc_cons_other 194 (d :: t' ++ b)); [|discriminate | discriminate | intros _; exact Nd].
        rewrite (esc_cons_other 194 (d :: t')); [|discriminate | discriminate | intros _; exact Nd].
        change (d :: t' ++ b) with ((d :: t') ++ b). rewrite (IH (d :: t')) by (try lia; exact Het). reflexivity.
    + cbn [app]. rewrite (esc_cons_other c (t ++ b) N1 N2) by (intros E; contradiction).
      rewrite (esc_cons_other c t N1 N2) by (intros E; contradiction).
      rewrite (IH t) by (try lia; exact Het). reflexivity.
Qed.

Lemma escape_html_concat ts : forallb (fun t => negb (ends_c2 t)) ts = true ->
  escape_html (concat ts) = concat (map escape_html ts).
Proof.
  induction ts as [|t r IH]; intros H; [reflexivity|]. cbn [forallb] in H. apply andb_true_iff in H. destruct H as [Ht Hr].
  apply negb_true_iff in Ht. cbn [concat map]. rewrite (escape_html_app _ (length t) t (le_n _) Ht), (IH Hr). reflexivity.
Qed.

(* ================= the bytes of a line: run by run = runs put together ================= *)
Lemma skipn_nil_any {A} n : skipn n (@nil A) = [].
Proof. destruct n; reflexivity. Qed.

Lemma ssavtt_run_bytes p n r : vrun_bytes p n (ssavtt_run r) = escape_html (ar_text r).
Proof.
  unfold vrun_bytes, ssavtt_run, run_tags. cbn [vr_color vr_tags vr_time vr_text].
  assert (Et : match (match ar_eff r with Some _ => Some (@nil vtag) | None => None end) with Some t => t | None => [] end = []).
  { destruct (ar_eff r); reflexivity. }
  rewrite Et. rewrite !skipn_nil_any. cbn [map concat rev app]. change (0 <? 0)%Z with false. cbn iota. rewrite app_nil_r. reflexivity.
Qed.

Lemma ssavtt_runs_bytes rs : forall p, vruns_bytes p (map ssavtt_run rs) = concat (map (fun r => escape_html (ar_text r)) rs).
Proof.
  induction rs as [|r rest IH]; intros p; [reflexivity|]. cbn [map vruns_bytes concat]. rewrite ssavtt_run_bytes, IH. reflexivity.
Qed.

Definition line_join_ok (l : aline) : bool := forallb (fun r => negb (ends_c2 (ar_text r))) (al_runs l).

Lemma ssavtt_line_bytes l : line_join_ok l = true -> vline_bytes (ssavtt_line l) = vline_bytes (ssavtt_line_m l).
Proof.
  intros H. unfold vline_bytes, ssavtt_line, ssavtt_line_m. cbn [vl_voice vl_runs]. f_equal. f_equal.
  rewrite ssavtt_runs_bytes. cbn [vruns_bytes]. unfold vrun_bytes, run_tags. cbn [vr_color vr_tags vr_time vr_text skipn map concat rev app].
  change (0 <? 0)%Z with false. cbn iota. rewrite !app_nil_r. unfold ssavtt_line_text.
  rewrite escape_html_concat; [rewrite map_map; reflexivity|].
  unfold line_join_ok in H. rewrite forallb_forall in *. intros t Ht. apply in_map_iff in Ht. destruct Ht as (r & <- & Hr). exact (H r Hr).
Qed.

Lemma ssavtt_items_bytes items : forall k,
  forallb (fun i => forallb line_join_ok (ai_lines i)) items = true ->
  vitems_bytes k (map ssavtt_item items) = vitems_bytes k (map ssavtt_item_m items).
Proof.
  induction items as [|i r IH]; intros k H; [reflexivity|]. cbn [forallb] in H. apply andb_true_iff in H. destruct H as [Hi Hr].
  cbn [map vitems_bytes]. rewrite (IH _ Hr).
  assert (El : concat (map vline_bytes (vi_lines (ssavtt_item i))) = concat (map vline_bytes (vi_lines (ssavtt_item_m i)))).
  { unfold ssavtt_item, ssavtt_item_m. cbn [vi_lines]. rewrite !map_map. f_equal. apply map_ext_in. intros l Hl.
    apply ssavtt_line_bytes. rewrite forallb_forall in Hi. exact (Hi l Hl). }
  rewrite El. reflexivity.
Qed.

Lemma join_ok_items d : ssavtt_join_ok d = true -> forallb (fun i => forallb line_join_ok (ai_lines i)) (ad_items d) = true.
Proof. intros H. exact H. Qed.

(* the library's conversion writes the bytes of the document with the runs put together *)
Theorem write_conv_ssa_vtt_m d so ro : ssavtt_join_ok d = true ->
  write_vtt (conv_ssa_vtt d) so ro = write_vtt (conv_ssa_vtt_m d) so ro.
Proof.
  intros H. unfold write_vtt, conv_ssa_vtt, conv_ssa_vtt_m. cbn [vd_items vd_styles vd_regions vd_tsmap].
  rewrite (ssavtt_items_bytes (ad_items d) 0 (join_ok_items d H)).
  destruct (ad_items d) as [|i r]; reflexivity.
Qed.

(* ================= the plain views ================= *)
Lemma vview_conv_m items : forall k,
  map vview (nitems k (map ssavtt_item_m items)) =
  ptrunc 1000000 (map (fun i => (ai_start i, ai_end i, map ssa_line_text (ai_lines i))) items).
Proof.
  induction items as [|i r IH]; intros k; [reflexivity|]. cbn [map nitems ptrunc]. fold (ptrunc 1000000). rewrite IH. f_equal.
  unfold vview, nitem, ssavtt_item_m. cbn [vi_st vi_en vi_lines]. unfold VttBase.trunc_ms, trunc_to. f_equal.
  rewrite !map_map. apply map_ext. intros l. unfold vline_text, nline, ssavtt_line_m. cbn [vl_runs map]. unfold nrun. cbn [vr_text map concat].
  apply app_nil_r.
Qed.

Lemma ssa_plain_canon d : ssa_to_plain (canon_doc d) = ptrunc ssa_unit (ssa_to_plain d).
Proof.
  unfold ssa_to_plain, canon_doc, ptrunc. cbn [ad_items]. rewrite !map_map. apply map_ext. intros i.
  unfold canon_item. cbn [ai_start ai_end ai_lines]. unfold trunc_cs, trunc_to, ssa_unit. f_equal.
  rewrite map_map. apply map_ext. intros l. reflexivity.
Qed.

Lemma forallb_map_ext {A B} (f : B -> bool) (g : A -> B) (h : A -> bool) l :
  (forall x, f (g x) = h x) -> forallb f (map g l) = forallb h l.
Proof. intros E. induction l as [|x r IH]; [reflexivity|]. cbn [map forallb]. rewrite E, IH. reflexivity. Qed.

Lemma join_ok_canon d : ssavtt_join_ok (canon_doc d) = ssavtt_join_ok d.
Proof.
  unfold ssavtt_join_ok, canon_doc. cbn [ad_items]. apply forallb_map_ext. intros i.
  unfold canon_item. cbn [ai_lines]. apply forallb_map_ext. intros l. reflexivity.
Qed.

(* SSA file -> WebVTT file -> read back *)
Theorem ssa_to_vtt_styled d :
  doc_repr d -> ssavtt_join_ok d = true -> repr_vdoc (conv_ssa_vtt_m (canon_doc d)) (style_keys d) [] ->
  exists ssa vtt d', write_ssa d (style_keys d) = Ok ssa /\ convert_ssa_vtt ssa = Ok vtt /\ read_vtt vtt = Ok d' /\
                     vtt_to_plain d' = ptrunc 1000000 (ptrunc ssa_unit (ssa_to_plain d)).
Proof.
  intros Hd Hj Hv. destruct (write_read d Hd) as (ssa & Hw & Hr).
  destruct (write_read_vtt _ _ _ Hv) as (vtt & Hwv & Hrv).
  exists ssa, vtt, (ndoc (conv_ssa_vtt_m (canon_doc d)) (style_keys d) []). split; [exact Hw|]. split.
  - unfold convert_ssa_vtt. rewrite Hr. change (style_keys (canon_doc d)) with (style_keys d).
    rewrite write_conv_ssa_vtt_m; [exact Hwv | rewrite join_ok_canon; exact Hj].
  - split; [exact Hrv|]. unfold vtt_to_plain, ndoc. cbn [vd_items]. unfold conv_ssa_vtt_m at 1. cbn [vd_items].
    rewrite vview_conv_m. f_equal. apply ssa_plain_canon.
Qed.

(* ================= non-vacuity ================= *)
(* A v4.00+ script with a comment, a title, a styled Default style and two events.  Bob speaks two lines: the first has two
   override blocks in the middle (three runs, with '&' and '<' in the text), times off the centisecond grid; Mary Ann's line
   starts with an override block and ends with one (an empty last run), and has no style. *)
Definition ex_sv_doc : adoc :=
  mkAdoc (Some (mkAinfo [s2l "made for the example"%string] [] [] [] [] [] (s2l "v4.00+"%string) [] [] (s2l "Two speakers"%string) [] []
                        None (Some 384%Z) (Some 288%Z) None))
         [(s2l "Default"%string,
           Some (mkAstyle (s2l "Default"%string) (s2l "Arial"%string) (Some true) None None None
                          None None (Some (mkAcolor 0 255 255 255)) None
                          None None (Some 20000%Z) None None None None None
                          (Some 2%Z) None None None None None))]
         [ mkAitem 1234567890%Z 2500000000%Z (Some (s2l "Default"%string)) (Some (mkAevattr [] (Some 0%Z) (Some 0%Z) (Some 0%Z) (Some 0%Z) None))
             [ mkAline (s2l "Bob"%string) [ mkArun (s2l "Hello "%string) None;
                                            mkArun (s2l "brave"%string) (Some (s2l "{\i1}"%string));
                                            mkArun (s2l " new world & <co>"%string) (Some (s2l "{\i0}"%string)) ];
               mkAline (s2l "Bob"%string) [ mkArun (s2l "second line"%string) None ] ];
           mkAitem 3000000000%Z 4000000123%Z None None
             [ mkAline (s2l "Mary Ann"%string) [ mkArun (s2l "x > y"%string) (Some (s2l "{\b1}"%string)); mkArun [] (Some (s2l "{\b0}"%string)) ] ] ].

Example ex_sv_repr : doc_repr ex_sv_doc.
Proof. apply doc_reprb_ok. vm_compute. reflexivity. Qed.
Example ex_sv_join : ssavtt_join_ok ex_sv_doc = true.
Proof. vm_compute. reflexivity. Qed.
Example ex_sv_conv_repr : repr_vdoc (conv_ssa_vtt_m (canon_doc ex_sv_doc)) (style_keys ex_sv_doc) [].
Proof.
  constructor.
  - discriminate.
  - vm_compute. discriminate.
  - constructor.
  - intros k [].
  - repeat constructor; try (vm_compute; reflexivity); try (vm_compute; discriminate); try exact I.
  - split; vm_compute; reflexivity.
  - exact I.
Qed.
(* the plain view that comes back: centisecond times, the run texts of every line put together *)
Definition ex_sv_expected : plain :=
  [ (1230000000%Z, 2500000000%Z, [s2l "Hello brave new world & <co>"%string; s2l "second line"%string]);
    (3000000000%Z, 4000000000%Z, [s2l "x > y"%string]) ].
Example ex_sv_plain : ptrunc 1000000 (ptrunc ssa_unit (ssa_to_plain ex_sv_doc)) = ex_sv_expected.
Proof. vm_compute. reflexivity. Qed.
Example ex_sv_roundtrip :
  exists ssa vtt d', write_ssa ex_sv_doc (style_keys ex_sv_doc) = Ok ssa /\ convert_ssa_vtt ssa = Ok vtt /\ read_vtt vtt = Ok d' /\
                     vtt_to_plain d' = ptrunc 1000000 (ptrunc ssa_unit (ssa_to_plain ex_sv_doc)).
Proof. apply ssa_to_vtt_styled; [exact ex_sv_repr | exact ex_sv_join | exact ex_sv_conv_repr]. Qed.
(* the bytes, computed by the model: the SSA file and the WebVTT file the conversion gives *)
Example ex_sv_bytes :
  match write_ssa ex_sv_doc (style_keys ex_sv_doc) with
  | Ok ssa => convert_ssa_vtt ssa
  | _ => Err EOther
  end = Ok (s2l "WEBVTT

1
00:00:01.230 --> 00:00:02.500
<v Bob>Hello brave new world &amp; &lt;co>
<v Bob>second line

2
00:00:03.000 --> 00:00:04.000
<v Mary Ann>x > y
"%string).
Proof. vm_compute. reflexivity. Qed.

(* ================= the hypothesis on the conversion is needed ================= *)
(* One-cue SSA documents, all representable (doc_reprb), whose conversion is NOT a representable WebVTT document; the
   conversion is computed on the models (written SSA file -> convert_ssa_vtt -> read_vtt -> plain view) and was replayed on
   the library (notes/C07-ssa-vtt.md):
   an empty line between two lines of a cue without speaker ends the WebVTT cue (the third line is taken for a cue
   identifier); a speaker name with '>' closes the voice tag early (the rest of the name lands in the text); a line that
   starts like a WebVTT comment is read as a comment; a text with the arrow is read as a timing line (the file is
   rejected); white space at the end of a line (SSA keeps it in front of an override block) is trimmed. *)
Definition sv_doc1 (name : str) (ls : list (list arun)) : adoc :=
  mkAdoc None [] [mkAitem 1000000000%Z 2000000000%Z None None (map (mkAline name) ls)].
Definition sv_trip (d : adoc) : res plain :=
  match write_ssa d [] with
  | Ok ssa => match convert_ssa_vtt ssa with
              | Ok vtt => match read_vtt vtt with Ok d' => Ok (vtt_to_plain d') | Err k => Err k | Panic p => Panic p end
              | Err k => Err k | Panic p => Panic p end
  | Err k => Err k | Panic p => Panic p end.
Example ssa_to_vtt_needs_no_empty_line :
  let d := sv_doc1 [] [[mkArun (s2l "one"%string) None]; [mkArun [] None]; [mkArun (s2l "three"%string) None]] in
  doc_reprb d = true /\ sv_trip d = Ok [(1000000000%Z, 2000000000%Z, [s2l "one"%string])].
Proof. split; vm_compute; reflexivity. Qed.
(* a '>' in the speaker name: since the library fix of finding F2 the writer emits its character reference and the text
   survives (before: voice a, text b>t) *)
Example ssa_to_vtt_voice_with_gt_keeps_text :
  let d := sv_doc1 (s2l "a>b"%string) [[mkArun (s2l "t"%string) None]] in
  doc_reprb d = true /\ sv_trip d = Ok [(1000000000%Z, 2000000000%Z, [s2l "t"%string])].
Proof. split; vm_compute; reflexivity. Qed.
Example ssa_to_vtt_needs_no_note_prefix :
  let d := sv_doc1 [] [[mkArun (s2l "NOTE this"%string) None]] in
  doc_reprb d = true /\ sv_trip d = Ok [(1000000000%Z, 2000000000%Z, [])].
Proof. split; vm_compute; reflexivity. Qed.
Example ssa_to_vtt_needs_no_arrow :
  let d := sv_doc1 [] [[mkArun (s2l "a --> b"%string) None]] in
  doc_reprb d = true /\ sv_trip d = Err EParse.
Proof. split; vm_compute; reflexivity. Qed.
Example ssa_to_vtt_needs_trimmed_line :
  let d := sv_doc1 [] [[mkArun (s2l "trail "%string) None; mkArun [] (Some (s2l "{\i0}"%string))]] in
  doc_reprb d = true /\ sv_trip d = Ok [(1000000000%Z, 2000000000%Z, [s2l "trail"%string])].
Proof. split; vm_compute; reflexivity. Qed.
