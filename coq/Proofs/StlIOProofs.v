(* C17/C18 for EBU STL: the reader under any delivery schedule equals the one-shot reader; a failing stream gives an
   error whatever was delivered; end-of-file inside a block is an error, at a block boundary it is a shorter file; the
   writer as its sequence of Write calls. *)
From Coq Require Import List ZArith NArith Bool Arith Lia.
From Astisub Require Import Kit.Base Kit.Str Kit.Scan Kit.IOW Model.Dur Model.Stl Model.StlIO Gen.StlTables
  Proofs.ScanProofs Proofs.StlBlocks Proofs.StlReadSpec.
Import ListNotations.

(* ---- readNBytes when fewer than n bytes are left: end-of-file if none, "short" otherwise, for every schedule ---- *)
Lemma read_n_fuel_short : forall fuel n acc data counts,
  (length counts < fuel)%nat -> (length acc + length data < n)%nat ->
  read_n_fuel fuel n acc data counts = match acc ++ data with [] => RnEOF | _ => RnShort end.
Proof.
  induction fuel as [|f IH]; intros n acc data counts Hf Hn; [lia|].
  cbn [read_n_fuel]. destruct (Nat.leb n (length acc)) eqn:E; [apply Nat.leb_le in E; lia|].
  destruct counts as [|k cs].
  - rewrite firstn_all2 by lia. cbv zeta.
    destruct (Nat.leb n (length (acc ++ data))) eqn:E2; [apply Nat.leb_le in E2; rewrite app_length in E2; lia|]. reflexivity.
  - set (k' := Nat.min k (n - length acc)). rewrite IH.
    + rewrite <- app_assoc, firstn_skipn. reflexivity.
    + cbn [length] in Hf. lia.
    + rewrite app_length. assert (L : (length (firstn k' data) + length (skipn k' data) = length data)%nat).
      { rewrite <- app_length, firstn_skipn. reflexivity. } lia.
Qed.
Theorem read_n_short_any n data counts : (length data < n)%nat ->
  read_n n data counts = match data with [] => RnEOF | _ => RnShort end.
Proof. intros H. unfold read_n. rewrite read_n_fuel_short by (cbn [length]; lia). reflexivity. Qed.

(* ---- the loop through tti_step ---- *)
Lemma tti_loop_unfold f data g tcp acc items :
  tti_loop (S f) data g tcp acc items =
  match read_n 128 data [] with
  | RnEOF => Ok (rev items)
  | RnShort => Err EIO
  | RnOk p rest _ => do x <- tti_step g tcp acc items p; let '(acc', items') := x in tti_loop f rest g tcp acc' items'
  end.
Proof.
  cbn [tti_loop]. destruct (read_n 128 data []) as [p rest cs| |]; try reflexivity. unfold tti_step.
  destruct (t_ebn _ =? 254)%Z; [reflexivity|]. destruct (str_eqb (g_dsc g) stl_s_dscOpen).
  - destruct (rows_open _ acc []) as [[lines acc']|k|s]; reflexivity.
  - destruct (rows_ttx _ acc []) as [lines acc']. reflexivity.
Qed.

Lemma tti_step_no_panic g tcp acc items p s : tti_step g tcp acc items p <> Panic s.
Proof.
  unfold tti_step. destruct (t_ebn _ =? 254)%Z; [discriminate|]. destruct (str_eqb _ _).
  - destruct (rows_open _ acc []) as [[lines acc']|k|s'] eqn:E; cbn [bind]; try discriminate. exfalso. exact (rows_open_no_panic _ _ _ _ E).
  - destruct (rows_ttx _ acc []). discriminate.
Qed.

(* ---- C17: any schedule ---- *)
Lemma tti_loop_schedule : forall fuel data counts g tcp acc items,
  tti_loop_sched fuel data counts g tcp acc items = tti_loop fuel data g tcp acc items.
Proof.
  induction fuel as [|f IH]; intros data counts g tcp acc items; [reflexivity|].
  rewrite tti_loop_unfold. cbn [tti_loop_sched].
  destruct (Nat.le_gt_cases 128 (length data)) as [H|H].
  - destruct (read_n_full 128 data counts H) as (cs & R). destruct (read_n_full 128 data [] H) as (cs0 & R0). rewrite R, R0.
    destruct (tti_step g tcp acc items (firstn 128 data)) as [[acc' items']|k|s]; cbn [bind]; try reflexivity. apply IH.
  - rewrite (read_n_short_any 128 data counts H), (read_n_short_any 128 data [] H). destruct data; reflexivity.
Qed.

Theorem read_stl_schedule ign data counts : read_stl_sched ign data counts = read_stl ign data.
Proof.
  unfold read_stl_sched, read_stl. destruct (Nat.le_gt_cases 1024 (length data)) as [H|H].
  - destruct (read_n_full 1024 data counts H) as (cs & R). destruct (read_n_full 1024 data [] H) as (cs0 & R0). rewrite R, R0.
    destruct (parse_gsi (firstn 1024 data)) as [g|k|s]; cbn [bind]; try reflexivity.
    destruct (negb _); [reflexivity|]. rewrite tti_loop_schedule. reflexivity.
  - rewrite (read_n_short_any 1024 data counts H), (read_n_short_any 1024 data [] H). destruct data; reflexivity.
Qed.
Corollary read_stl_schedule_independent ign data counts counts' : read_stl_sched ign data counts = read_stl_sched ign data counts'.
Proof. rewrite !read_stl_schedule. reflexivity. Qed.

(* ---- C18, reader: a failing stream ---- *)
Lemma tti_loop_fail_err : forall fuel data counts g tcp acc items, exists k, tti_loop_fail fuel data counts g tcp acc items = Err k.
Proof.
  induction fuel as [|f IH]; intros data counts g tcp acc items; [eexists; reflexivity|].
  cbn [tti_loop_fail]. destruct (read_n 128 data counts) as [p rest cs| |]; try (eexists; reflexivity).
  destruct (tti_step g tcp acc items p) as [[acc' items']|k|s] eqn:E; cbn [bind].
  - apply IH.
  - eexists; reflexivity.
  - exfalso. exact (tti_step_no_panic _ _ _ _ _ _ E).
Qed.
Theorem read_stl_fail_err ign data counts : exists k, read_stl_fail ign data counts = Err k.
Proof.
  unfold read_stl_fail. destruct (read_n 1024 data counts) as [b rest cs| |]; try (eexists; reflexivity).
  destruct (parse_gsi b) as [g|k|s] eqn:E; cbn [bind].
  - destruct (negb _); [eexists; reflexivity|].
    destruct (tti_loop_fail_err (S (length rest)) rest cs g (if ign then 0%Z else g_tcp g) None []) as (k & R). rewrite R. eexists; reflexivity.
  - eexists; reflexivity.
  - exfalso. exact (parse_gsi_no_panic _ _ E).
Qed.
Theorem read_stl_fault_at_offset ign data k counts : exists e, read_stl_fail_at ign data k counts = Err e.
Proof. apply read_stl_fail_err. Qed.

(* ---- C18, reader: end-of-file inside a block is an error (at a block boundary the file is simply shorter:
   StlReadSpec.read_spec on the blocks that are complete) ---- *)
Lemma tti_loop_partial : forall fuel data g tcp acc items j r,
  length data = (128 * j + r)%nat -> (0 < r < 128)%nat -> exists k, tti_loop fuel data g tcp acc items = Err k.
Proof.
  induction fuel as [|f IH]; intros data g tcp acc items j r L Hr; [eexists; reflexivity|].
  rewrite tti_loop_unfold. destruct j as [|j].
  - rewrite (read_n_short_any 128 data []) by lia. destruct data; [cbn [length] in L; lia | eexists; reflexivity].
  - destruct (read_n_full 128 data []) as (cs & R); [lia|]. rewrite R.
    destruct (tti_step g tcp acc items (firstn 128 data)) as [[acc' items']|k|s] eqn:E; cbn [bind].
    + apply (IH _ g tcp acc' items' j r); [rewrite skipn_length; lia | exact Hr].
    + eexists; reflexivity.
    + exfalso. exact (tti_step_no_panic _ _ _ _ _ _ E).
Qed.
Theorem read_stl_partial_block ign data j r :
  length data = (1024 + 128 * j + r)%nat -> (0 < r < 128)%nat -> exists k, read_stl ign data = Err k.
Proof.
  intros L Hr. unfold read_stl. destruct (read_n_full 1024 data []) as (cs & R); [lia|]. rewrite R.
  destruct (parse_gsi (firstn 1024 data)) as [g|k|s] eqn:E; cbn [bind].
  - destruct (negb _); [eexists; reflexivity|].
    destruct (tti_loop_partial (S (length (skipn 1024 data))) (skipn 1024 data) g (if ign then 0%Z else g_tcp g) None [] j r) as (k & Rk);
      [rewrite skipn_length; lia | exact Hr |]. rewrite Rk. eexists; reflexivity.
  - eexists; reflexivity.
  - exfalso. exact (parse_gsi_no_panic _ _ E).
Qed.

(* ---- C18, writer ---- *)
Lemma tti_block_list_concat fps dsc tcp items : forall idx, concat (tti_block_list fps dsc tcp items idx) = tti_blocks fps dsc tcp items idx.
Proof. induction items as [|i r IH]; intros idx; [reflexivity|]. cbn [tti_block_list concat tti_blocks]. rewrite IH. reflexivity. Qed.

Lemma tti_block_list_length fps dsc tcp items : forall idx, length (tti_block_list fps dsc tcp items idx) = length items.
Proof. induction items as [|i r IH]; intros idx; [reflexivity|]. cbn [tti_block_list length]. rewrite IH. reflexivity. Qed.

Lemma stl_writes_spec now md items doc : write_stl now md items = Ok doc ->
  exists ws, stl_writes now md items = Ok ws /\ concat ws = doc /\ length ws = S (length items).
Proof.
  intros H. assert (Hne : items <> []) by (intros ->; discriminate H).
  rewrite (write_stl_eq now md items Hne) in H. assert (E : doc = written now md items) by congruence. subst doc.
  unfold stl_writes. destruct items as [|i r]; [contradiction|]. eexists. split; [reflexivity|]. split.
  - cbv zeta. cbn [concat]. rewrite tti_block_list_concat. reflexivity.
  - cbv zeta. cbn [length]. rewrite tti_block_list_length. reflexivity.
Qed.

Theorem write_stl_fault now md items doc k : write_stl now md items = Ok doc -> (k < length doc)%nat ->
  write_stl_to now md items (fail_at k) = Err EIO.
Proof.
  intros H Hk. destruct (stl_writes_spec _ _ _ _ H) as (ws & W & C & _). unfold write_stl_to. rewrite W.
  apply writes_fault. unfold total. rewrite C. exact Hk.
Qed.
Theorem write_stl_complete now md items doc : write_stl now md items = Ok doc -> write_stl_to now md items ok_dest = Ok (length doc).
Proof.
  intros H. destruct (stl_writes_spec _ _ _ _ H) as (ws & W & C & _). unfold write_stl_to. rewrite W, writes_complete.
  unfold total. rewrite C. reflexivity.
Qed.
Theorem write_stl_to_nothing now md d : write_stl_to now md [] d = Err ENothingToWrite.
Proof. reflexivity. Qed.
