(* Optimize / RemoveStyling (C13): deleted <-> unreachable. *)
From Coq Require Import List ZArith NArith Bool Lia Arith.
From Astisub Require Import Kit.Base Model.Ops.
Import ListNotations.

Lemma nmem_In k l : nmem k l = true <-> In k l.
Proof.
  unfold nmem. rewrite existsb_exists. split.
  - intros (x & Hx & E). apply N.eqb_eq in E. subst. exact Hx.
  - intros H. exists k. split; [exact H | apply N.eqb_refl].
Qed.
Lemma nmem_false k l : nmem k l = false <-> ~ In k l.
Proof.
  rewrite <- nmem_In. destruct (nmem k l); split; intros H.
  - discriminate.
  - exfalso. apply H. reflexivity.
  - intros H'. discriminate.
  - reflexivity.
Qed.

Section Marking.
  Variable ss : list (N * style).

  Definition style_by_id (id : N) : option (N * style) := find (fun kv => N.eqb (s_id (snd kv)) id) ss.
  Definition parent_of (c p : N) : Prop := exists kv, style_by_id c = Some kv /\ s_parent (snd kv) = Some p.

  (* reachability from a list of root identifiers through style inheritance *)
  Inductive reach (roots : list N) : N -> Prop :=
  | reach_root id : In id roots -> reach roots id
  | reach_parent c p : reach roots c -> parent_of c p -> reach roots p.

  Definition have : list N := map (fun kv => s_id (snd kv)) ss.
  Definition unmarked (used : list N) : nat := length (filter (fun h => negb (nmem h used)) have).

  Lemma style_by_id_have id kv : style_by_id id = Some kv -> In id have.
  Proof.
    unfold style_by_id, have. intros H. apply find_some in H. destruct H as [Hin E]. apply N.eqb_eq in E.
    subst. apply (in_map (fun kv => s_id (snd kv))). exact Hin.
  Qed.

  Lemma nmem_cons h id used : nmem h (id :: used) = N.eqb h id || nmem h used.
  Proof. reflexivity. Qed.

  Lemma unmarked_cons_le id used (l : list N) :
    (length (filter (fun h => negb (nmem h (id :: used))) l) <= length (filter (fun h => negb (nmem h used)) l))%nat.
  Proof.
    induction l as [|a l IHl]; [reflexivity|]. cbn [filter]. rewrite nmem_cons.
    destruct (N.eqb a id); cbn [orb negb].
    - destruct (negb (nmem a used)); cbn [length]; lia.
    - destruct (negb (nmem a used)); cbn [length]; lia.
  Qed.

  Lemma unmarked_decr id used : In id have -> nmem id used = false -> (unmarked (id :: used) < unmarked used)%nat.
  Proof.
    unfold unmarked. induction have as [|h r IH]; intros Hin Hn; [destruct Hin|].
    cbn [filter]. rewrite nmem_cons. pose proof (unmarked_cons_le id used r) as Hle.
    destruct Hin as [->|Hin].
    - rewrite Hn, N.eqb_refl. cbn [orb negb length]. lia.
    - specialize (IH Hin Hn). destruct (N.eqb h id) eqn:E.
      + apply N.eqb_eq in E. subst h. rewrite Hn. cbn [orb negb length]. lia.
      + cbn [orb]. destruct (negb (nmem h used)); cbn [length]; lia.
  Qed.

  Lemma unmarked_le used : (unmarked used <= length ss)%nat.
  Proof. unfold unmarked, have. etransitivity; [apply filter_length_le|]. rewrite map_length. reflexivity. Qed.

  (* the walk up one parent chain *)
  Lemma mark_chain_spec : forall fuel id used,
    (unmarked used < fuel)%nat ->
    (forall c p, In c used -> parent_of c p -> In p used \/ p = id) ->
    let res := mark_chain fuel ss id used in
    (forall c p, In c res -> parent_of c p -> In p res) /\
    In id res /\ incl used res /\
    (forall z, In z res -> In z used \/ reach [id] z).
  Proof.
    induction fuel as [|k IH]; intros id used Hfuel Hpre; [lia|].
    cbn [mark_chain]. destruct (nmem id used) eqn:Hm.
    - apply nmem_In in Hm. cbn zeta. repeat split.
      + intros c p Hc Hp. destruct (Hpre c p Hc Hp) as [H| ->]; assumption.
      + exact Hm.
      + apply incl_refl.
      + intros z Hz. left. exact Hz.
    - fold (style_by_id id). destruct (style_by_id id) as [kv|] eqn:Hf.
      + destruct (s_parent (snd kv)) as [q|] eqn:Hq.
        * assert (Hfuel' : (unmarked (id :: used) < k)%nat).
          { pose proof (unmarked_decr id used (style_by_id_have id kv Hf) Hm). lia. }
          assert (Hpre' : forall c p, In c (id :: used) -> parent_of c p -> In p (id :: used) \/ p = q).
          { intros c p [<-|Hc] Hp.
            - destruct Hp as (kv' & E1 & E2). rewrite Hf in E1. inversion E1; subst kv'. rewrite Hq in E2. inversion E2. right. reflexivity.
            - destruct (Hpre c p Hc Hp) as [H| ->]; left; [right; exact H | left; reflexivity]. }
          specialize (IH q (id :: used) Hfuel' Hpre'). cbn zeta in IH. destruct IH as (C & Iq & Inc & R).
          cbn zeta. repeat split.
          -- exact C.
          -- apply Inc. left. reflexivity.
          -- intros z Hz. apply Inc. right. exact Hz.
          -- intros z Hz. destruct (R z Hz) as [[<-|Hu]|Hr].
             ++ right. apply reach_root. left. reflexivity.
             ++ left. exact Hu.
             ++ right. clear - Hr Hf Hq. induction Hr as [z Hz|c p Hc IHc Hp].
                ** destruct Hz as [<-|[]]. apply (reach_parent [id] id q); [apply reach_root; left; reflexivity|].
                   exists kv. split; assumption.
                ** apply (reach_parent [id] c p); assumption.
        * cbn zeta. repeat split.
          -- intros c p [<-|Hc] Hp.
             ++ destruct Hp as (kv' & E1 & E2). rewrite Hf in E1. inversion E1; subst kv'. rewrite Hq in E2. discriminate.
             ++ destruct (Hpre c p Hc Hp) as [H| ->]; [right; exact H | left; reflexivity].
          -- left. reflexivity.
          -- intros z Hz. right. exact Hz.
          -- intros z [<-|Hz]; [right; apply reach_root; left; reflexivity | left; exact Hz].
      + cbn zeta. repeat split.
        * intros c p [<-|Hc] Hp.
          -- destruct Hp as (kv' & E1 & _). rewrite Hf in E1. discriminate.
          -- destruct (Hpre c p Hc Hp) as [H| ->]; [right; exact H | left; reflexivity].
        * left. reflexivity.
        * intros z Hz. right. exact Hz.
        * intros z [<-|Hz]; [right; apply reach_root; left; reflexivity | left; exact Hz].
  Qed.

  Lemma reach_mono roots roots' id : incl roots roots' -> reach roots id -> reach roots' id.
  Proof. intros Hi H. induction H as [z Hz|c p Hc IH Hp]; [apply reach_root; auto | eapply reach_parent; eassumption]. Qed.

  Lemma mark_fold_spec : forall roots used done,
    (forall c p, In c used -> parent_of c p -> In p used) ->
    (forall z, In z used -> reach done z) ->
    incl done used ->
    let res := fold_left (fun used id => mark_chain (S (length ss)) ss id used) roots used in
    (forall c p, In c res -> parent_of c p -> In p res) /\
    (forall z, In z res -> reach (done ++ roots) z) /\
    incl (done ++ roots) res.
  Proof.
    induction roots as [|r rs IH]; intros used done Hc Hr Hd; cbn [fold_left].
    - cbn zeta. rewrite app_nil_r. repeat split; assumption.
    - pose proof (mark_chain_spec (S (length ss)) r used ltac:(pose proof (unmarked_le used); lia)
                    (fun c p Hc' Hp => or_introl (Hc c p Hc' Hp))) as M.
      cbn zeta in M. destruct M as (C & Ir & Inc & R).
      specialize (IH (mark_chain (S (length ss)) ss r used) (done ++ [r]) C).
      assert (Hr' : forall z, In z (mark_chain (S (length ss)) ss r used) -> reach (done ++ [r]) z).
      { intros z Hz. destruct (R z Hz) as [Hu|Hz'].
        - eapply reach_mono; [|apply Hr; exact Hu]. intros a Ha. apply in_or_app. left. exact Ha.
        - eapply reach_mono; [|exact Hz']. intros a Ha. apply in_or_app. right. exact Ha. }
      assert (Hd' : incl (done ++ [r]) (mark_chain (S (length ss)) ss r used)).
      { intros a Ha. apply in_app_or in Ha. destruct Ha as [Ha|[<-|[]]]; [apply Inc, Hd, Ha | exact Ir]. }
      specialize (IH Hr' Hd'). cbn zeta in IH. rewrite <- app_assoc in IH. exact IH.
  Qed.

  (* the marking computes exactly the reachable identifiers *)
  Theorem mark_all_reach roots id : In id (mark_all ss roots) <-> reach roots id.
  Proof.
    unfold mark_all.
    pose proof (mark_fold_spec roots [] [] ltac:(intros c p []) ltac:(intros z []) ltac:(intros a [])) as M.
    cbn zeta in M. cbn [app] in M. destruct M as (C & R & I). split.
    - apply R.
    - intros H. induction H as [z Hz|c p Hc IH Hp]; [apply I; exact Hz | eapply C; eassumption].
  Qed.
End Marking.

(* ---- Optimize ---- *)
Definition style_roots (s : subs) : list N :=
  flat_map item_style_refs (items s) ++ region_style_refs (used_regions (items s)) (map_or_empty (regions s)).
(* a style identifier is reachable: referred to by a cue, a run, a used region, or inherited from a reachable style *)
Definition reach_style (s : subs) (id : N) : Prop := reach (map_or_empty (styles s)) (style_roots s) id.
(* a region identifier is reachable: some cue refers to it *)
Definition reach_region (s : subs) (id : N) : Prop := In id (used_regions (items s)).

Lemma optimize_items s : items (optimize s) = items s.
Proof. unfold optimize. destruct (items s) eqn:E; [exact E | reflexivity]. Qed.

Lemma optimize_empty s : items s = [] -> optimize s = s.
Proof. intros E. unfold optimize. rewrite E. reflexivity. Qed.

Theorem optimize_styles_exact s kv : items s <> [] ->
  In kv (map_or_empty (styles (optimize s))) <-> In kv (map_or_empty (styles s)) /\ reach_style s (s_id (snd kv)).
Proof.
  intros Hne. unfold optimize, reach_style, style_roots. destruct (items s) as [|x r] eqn:E; [contradiction|]. rewrite <- E.
  cbn [styles]. destruct (styles s) as [ss|]; cbn [map_or_empty].
  - rewrite filter_In, nmem_In, mark_all_reach. reflexivity.
  - split; [intros [] | intros [[] _]].
Qed.

Theorem optimize_regions_exact s kv : items s <> [] ->
  In kv (map_or_empty (regions (optimize s))) <-> In kv (map_or_empty (regions s)) /\ reach_region s (g_id (snd kv)).
Proof.
  intros Hne. unfold optimize, reach_region. destruct (items s) as [|x r] eqn:E; [contradiction|]. rewrite <- E.
  cbn [regions]. destruct (regions s) as [rs|]; cbn [map_or_empty].
  - rewrite filter_In, nmem_In. reflexivity.
  - split; [intros [] | intros [[] _]].
Qed.

(* references resolve: well-formedness of a cue list = every identifier referred to has a definition *)
Definition defined_style (s : subs) (id : N) : Prop := exists kv, In kv (map_or_empty (styles s)) /\ s_id (snd kv) = id.
Definition defined_region (s : subs) (id : N) : Prop := exists kv, In kv (map_or_empty (regions s)) /\ g_id (snd kv) = id.
Definition wf_refs (s : subs) : Prop :=
  (forall x id, In x (items s) -> In id (item_style_refs x) -> defined_style s id) /\
  (forall x id, In x (items s) -> i_reg x = Some id -> defined_region s id) /\
  (forall kv id, In kv (map_or_empty (regions s)) -> g_sty (snd kv) = Some id -> defined_style s id) /\
  (forall kv id, In kv (map_or_empty (styles s)) -> s_parent (snd kv) = Some id -> defined_style s id) /\
  NoDup (map (fun kv => s_id (snd kv)) (map_or_empty (styles s))).

Lemma in_used_regions l id : In id (used_regions l) <-> exists x, In x l /\ i_reg x = Some id.
Proof.
  unfold used_regions. rewrite in_flat_map. split; intros (x & Hx & H); exists x; (split; [exact Hx|]).
  - destruct (i_reg x); cbn in H; [destruct H as [->|[]]; reflexivity | destruct H].
  - rewrite H. left. reflexivity.
Qed.

Lemma find_unique_id (ss : list (N * style)) kv :
  NoDup (map (fun kv => s_id (snd kv)) ss) -> In kv ss -> style_by_id ss (s_id (snd kv)) = Some kv.
Proof.
  unfold style_by_id. induction ss as [|a r IH]; intros Hnd Hin; [destruct Hin|].
  cbn [map] in Hnd. inversion Hnd as [|? ? Hna Hr]; subst. cbn [find].
  destruct Hin as [->|Hin]; [rewrite N.eqb_refl; reflexivity|].
  destruct (N.eqb (s_id (snd a)) (s_id (snd kv))) eqn:E; [|apply IH; assumption].
  apply N.eqb_eq in E. exfalso. apply Hna. rewrite E. apply (in_map (fun kv => s_id (snd kv))). exact Hin.
Qed.

(* after optimizing, every reference left in the list still resolves *)
Theorem optimize_closed s : wf_refs s -> wf_refs (optimize s).
Proof.
  intros W. destruct (items s) as [|x0 r0] eqn:E0; [rewrite (optimize_empty s E0); exact W|].
  assert (Hne : items s <> []) by (rewrite E0; discriminate).
  destruct W as (W1 & W2 & W3 & W4 & W5).
  assert (Hkeep : forall id, defined_style s id -> reach_style s id -> defined_style (optimize s) id).
  { intros id (kv & Hin & Hid) Hr. exists kv. split; [|exact Hid]. apply (optimize_styles_exact s kv Hne). rewrite Hid. auto. }
  unfold wf_refs. rewrite !optimize_items. repeat split.
  - intros x id Hx Hid. apply Hkeep; [eapply W1; eassumption|].
    apply reach_root. unfold style_roots. apply in_or_app. left. apply in_flat_map. exists x. auto.
  - intros x id Hx Hid. destruct (W2 x id Hx Hid) as (kv & Hin & Hk). exists kv. split; [|exact Hk].
    apply (optimize_regions_exact s kv Hne). split; [exact Hin|]. unfold reach_region. rewrite Hk. apply in_used_regions. eauto.
  - intros kv id Hkv Hid. apply (optimize_regions_exact s kv Hne) in Hkv. destruct Hkv as [Hin Hr].
    apply Hkeep; [eapply W3; eassumption|]. apply reach_root. unfold style_roots. apply in_or_app. right.
    unfold region_style_refs. apply in_flat_map. exists kv. split; [exact Hin|].
    unfold reach_region in Hr. apply nmem_In in Hr. rewrite Hr, Hid. left. reflexivity.
  - intros kv id Hkv Hid. apply (optimize_styles_exact s kv Hne) in Hkv. destruct Hkv as [Hin Hr].
    apply Hkeep; [eapply W4; eassumption|]. eapply reach_parent; [exact Hr|].
    exists kv. split; [apply find_unique_id; assumption | exact Hid].
  - unfold optimize. rewrite E0. cbn [styles]. destruct (styles s) as [ss|]; cbn [map_or_empty] in *; [|constructor].
    apply NoDup_map_filter. exact W5.
Qed.

(* ---- idempotence ---- *)
Lemma find_filter {A} (p q : A -> bool) l x : find p l = Some x -> q x = true -> find p (filter q l) = Some x.
Proof.
  induction l as [|a r IH]; intros H Hq; [discriminate|]. cbn [find] in H. cbn [filter].
  destruct (p a) eqn:Ep.
  - inversion H; subst. rewrite Hq. cbn [find]. rewrite Ep. reflexivity.
  - destruct (q a); [cbn [find]; rewrite Ep|]; apply IH; assumption.
Qed.

Lemma region_style_refs_filter ur rs :
  region_style_refs ur (filter (fun kv => nmem (g_id (snd kv)) ur) rs) = region_style_refs ur rs.
Proof.
  unfold region_style_refs. induction rs as [|a r IH]; [reflexivity|]. cbn [filter flat_map].
  destruct (nmem (g_id (snd a)) ur) eqn:E; cbn [flat_map]; rewrite ?E, IH; reflexivity.
Qed.

Theorem optimize_idempotent s : optimize (optimize s) = optimize s.
Proof.
  destruct (items s) as [|x0 r0] eqn:E0; [rewrite (optimize_empty s E0), (optimize_empty s E0); reflexivity|].
  unfold optimize at 1. rewrite optimize_items, E0, <- E0.
  unfold optimize. rewrite E0, <- E0. cbn [regions styles items].
  set (ur := used_regions (items s)).
  f_equal.
  - destruct (regions s) as [rs|]; [|reflexivity]. cbn [map_or_empty]. f_equal.
    apply filter_idem.
  - destruct (styles s) as [ss|]; [|reflexivity]. cbn [map_or_empty]. f_equal.
    set (roots := flat_map item_style_refs (items s) ++ region_style_refs ur (map_or_empty (regions s))).
    set (us := mark_all ss roots).
    assert (Hroots : flat_map item_style_refs (items s) ++
                     region_style_refs ur (map_or_empty (match regions s with None => None | Some _ => Some (filter (fun kv => nmem (g_id (snd kv)) ur) (map_or_empty (regions s))) end)) = roots).
    { unfold roots. f_equal. destruct (regions s) as [rs|]; cbn [map_or_empty]; [apply region_style_refs_filter | reflexivity]. }
    rewrite Hroots.
    set (ss' := filter (fun kv => nmem (s_id (snd kv)) us) ss).
    apply filter_all. apply forallb_forall. intros kv Hkv.
    apply nmem_In. apply mark_all_reach.
    assert (Hin : In kv ss /\ reach ss roots (s_id (snd kv))).
    { unfold ss' in Hkv. apply filter_In in Hkv. destruct Hkv as [H1 H2]. apply nmem_In in H2. apply mark_all_reach in H2. auto. }
    destruct Hin as [_ Hr].
    (* reachability in ss transfers to ss' *)
    induction Hr as [z Hz|c p Hc IH Hp]; [apply reach_root; exact Hz|].
    eapply reach_parent; [apply IH|].
    destruct Hp as (kv' & F & P). exists kv'. split; [|exact P].
    unfold style_by_id, ss'. apply find_filter; [exact F|].
    apply nmem_In. apply mark_all_reach. apply find_some in F. destruct F as [_ F]. apply N.eqb_eq in F. rewrite F. exact Hc.
Qed.

(* ---- RemoveStyling ---- *)
Definition run_plain (r : run) : Prop := r_sty r = None /\ r_inl r = false.
Definition item_plain (x : item) : Prop :=
  i_reg x = None /\ i_sty x = None /\ i_inl x = false /\ Forall (fun l => Forall run_plain (l_runs l)) (i_lines x).

Theorem remove_styling_spec s :
  regions (remove_styling s) = Some [] /\ styles (remove_styling s) = Some [] /\
  Forall item_plain (items (remove_styling s)) /\
  map (fun x => (uid x, st x, en x)) (items (remove_styling s)) = map (fun x => (uid x, st x, en x)) (items s) /\
  map (fun x => map (fun l => (map r_text (l_runs l), l_voice l)) (i_lines x)) (items (remove_styling s)) =
  map (fun x => map (fun l => (map r_text (l_runs l), l_voice l)) (i_lines x)) (items s).
Proof.
  unfold remove_styling. cbn [regions styles items]. repeat split.
  - rewrite Forall_forall. intros y Hy. apply in_map_iff in Hy. destruct Hy as (x & <- & _).
    unfold item_plain, strip_item. cbn. repeat split. rewrite Forall_forall. intros l Hl.
    apply in_map_iff in Hl. destruct Hl as (l0 & <- & _). cbn. rewrite Forall_forall. intros r Hr.
    apply in_map_iff in Hr. destruct Hr as (r0 & <- & _). split; reflexivity.
  - rewrite map_map. reflexivity.
  - rewrite map_map. apply map_ext. intros x. cbn. rewrite map_map. apply map_ext. intros l. cbn.
    rewrite map_map. reflexivity.
Qed.
