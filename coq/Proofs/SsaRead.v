(* SSA/ASS reader on rendered documents: whatever columns the two Format lines name, in whatever order, with
   whatever admissible encoding in each cell and whatever spelling of the section names, the document is read as
   the script info, styles and events it denotes. *)
From Coq Require Import Strings.String Strings.Ascii.
From Coq Require Import List ZArith NArith Bool Lia.
From Astisub Require Import Kit.Base Kit.Str Kit.Scan Model.Dur Model.Ssa.
From Astisub Require Import Proofs.VttBase Proofs.ScanProofs Proofs.EolProofs Proofs.SsaFields Proofs.SsaText Proofs.SsaTrim Proofs.SsaRows Proofs.SsaLines
  Proofs.SsaInfo Proofs.SsaInfoOrder Proofs.SsaStyles Proofs.SsaEvents Proofs.SsaIgnore.
Import ListNotations.
Open Scope N_scope.

(* a line that is the header of section [sec], in any spelling the reader accepts ("[events]", "[V4 STYLES+]", ...) *)
Definition section_hdr (first : bool) (h : str) (sec : asect) : Prop :=
  exists inner, bracketed (if first then trim_prefix bom3 (trim_space h) else trim_space h) = Some inner /\ section_of inner = sec.
Lemma section_hdr_step s first h sec : section_hdr first h sec ->
  ssa_step s first h = Ok (match sec with
                           | SEvents => mkRstate SEvents [] (rs_info s) (rs_styles s) (rs_events s)
                           | SInfo => mkRstate SInfo (rs_fmt s) (rs_info s) (rs_styles s) (rs_events s)
                           | SStyles => mkRstate SStyles [] (rs_info s) (rs_styles s) (rs_events s)
                           | _ => mkRstate SUnknown (rs_fmt s) (rs_info s) (rs_styles s) (rs_events s)
                           end).
Proof.
  intros (inner & Hb & Hs). unfold ssa_step. destruct (if first then _ else _) as [|c r] eqn:E; [discriminate|].
  rewrite ssa_line_cases, Hb. unfold hdr_result. rewrite Hs. reflexivity.
Qed.

(* a Format line whose value denotes the column list [cols] (any spacing around the commas) *)
Definition format_value (v : str) (cols : list str) : Prop :=
  v <> [] /\ trim_space v = v /\ map trim_space (split_byte 44 v) = cols.
Lemma format_step_gen s v cols : (rs_sect s = SStyles \/ rs_sect s = SEvents) -> rs_fmt s = [] -> format_value v cols ->
  ssa_step s false (n_format_pfx ++ v) = Ok (mkRstate (rs_sect s) cols (rs_info s) (rs_styles s) (rs_events s)).
Proof.
  intros Hs Hf (Hn & Ht & Hc). rewrite format_pfx_eq, <- app_assoc.
  rewrite (kv_step s n_format _ format_hdr_ok Hn Ht) by (destruct Hs as [-> | ->]; discriminate).
  unfold kv_dispatch. destruct s as [sect fmt info sts evs]. cbn [rs_sect rs_fmt rs_info rs_styles rs_events] in *. subst fmt.
  destruct Hs as [-> | ->]; change (str_eqb n_format n_format) with true; cbv iota; unfold comma; rewrite Hc; unfold overlay;
    rewrite skipn_nil, app_nil_r; reflexivity.
Qed.

(* a style row: comma-free cells that encode, column by column, the attributes of [st]; the columns name every
   attribute [st] sets *)
Definition style_row (cols : list str) (cells : list str) (st : astyle) : Prop :=
  cells <> [] /\ Forall (fun c => ~ In 44 c) cells /\ Forall2 (col_ok st) cols cells /\
  (forall a, sget a st <> sget a astyle0 -> in_cols a cols) /\
  join [44] cells <> [] /\ trim_space (join [44] cells) = join [44] cells.
Lemma style_row_step_gen s cols cells st : style_row cols cells st -> rs_sect s = SStyles -> rs_fmt s = cols -> cols <> [] ->
  ssa_step s false (n_style_pfx ++ join [44] cells) =
  Ok (mkRstate SStyles cols (rs_info s) (rs_styles s ++ [st]) (rs_events s)).
Proof.
  intros (Hne & Hnc & HF & Hcov & Hvn & Hvt) Hs Hf Hcn. rewrite style_pfx_eq, <- app_assoc.
  rewrite (kv_step s n_style _ style_hdr_ok Hvn Hvt) by (rewrite Hs; discriminate).
  unfold kv_dispatch. destruct s as [sect fmt info sts evs]. cbn [rs_sect rs_fmt rs_info rs_styles rs_events] in *. subst sect fmt.
  change (str_eqb n_style n_format) with false. cbv iota. destruct cols as [|c0 cr]; [contradiction|].
  rewrite (style_row_read_full (c0 :: cr) cells st Hne Hnc HF Hcov). reflexivity.
Qed.

(* an event row of kind Dialogue: all cells but the last comma-free, each encoding the corresponding field of [ev];
   fields whose column is absent have their default *)
Definition event_row (cols : list str) (init : list str) (last : str) (ev : aevent) : Prop :=
  Forall (fun c => ~ In 44 c) init /\ Forall2 (ecol_ok ev) cols (init ++ [last]) /\
  av_category ev = n_dialogue /\ (forall a, ~ in_ecols a cols -> eget a ev = eget a (aevent0 n_dialogue)) /\
  join [44] (init ++ [last]) <> [] /\ trim_space (join [44] (init ++ [last])) = join [44] (init ++ [last]).
Lemma event_row_step_gen s cols init last ev : event_row cols init last ev -> rs_sect s = SEvents -> rs_fmt s = cols -> cols <> [] ->
  ssa_step s false (n_dialogue_pfx ++ join [44] (init ++ [last])) =
  Ok (mkRstate SEvents cols (rs_info s) (rs_styles s) (rs_events s ++ [ev])).
Proof.
  intros (Hnc & HF & Hcat & Hdef & Hvn & Hvt) Hs Hf Hcn. rewrite dialogue_pfx_eq, <- app_assoc.
  rewrite (kv_step s n_dialogue _ dialogue_hdr_ok Hvn Hvt) by (rewrite Hs; discriminate).
  unfold kv_dispatch. destruct s as [sect fmt info sts evs]. cbn [rs_sect rs_fmt rs_info rs_styles rs_events] in *. subst sect fmt.
  change (str_eqb n_dialogue n_format) with false. cbv iota. destruct cols as [|c0 cr]; [contradiction|].
  destruct (event_row_read n_dialogue (c0 :: cr) init last ev Hnc HF) as (r & Er & Hc & Hin & Hout). rewrite Er.
  assert (E : r = ev).
  { apply aevent_ext; [congruence|]. intros a. destruct (in_ecols_dec a (c0 :: cr)) as [Hi|Hn]; [apply Hin; exact Hi|].
    rewrite (Hout a Hn), (Hdef a Hn). reflexivity. }
  rewrite E. reflexivity.
Qed.

Lemma style_rows_run_gen cols rows : forall s, Forall (fun p : list str * astyle => style_row cols (fst p) (snd p)) rows ->
  rs_sect s = SStyles -> rs_fmt s = cols -> cols <> [] ->
  ssa_run s false (map (fun p : list str * astyle => n_style_pfx ++ join [44] (fst p)) rows) =
  Ok (mkRstate SStyles cols (rs_info s) (rs_styles s ++ map snd rows) (rs_events s)).
Proof.
  induction rows as [|[cells st] r IH]; intros s HF Hs Hf Hcn.
  - cbn [map ssa_run]. rewrite app_nil_r. destruct s; cbn in *; subst; reflexivity.
  - inversion HF as [|? ? Hrow HF']; subst. cbn [map ssa_run fst snd] in *.
    rewrite (style_row_step_gen s _ cells st Hrow Hs eq_refl Hcn).
    rewrite IH; [|exact HF' | reflexivity | reflexivity | exact Hcn].
    cbn [rs_info rs_styles rs_events]. rewrite <- app_assoc. reflexivity.
Qed.
Lemma event_rows_run_gen cols rows : forall s,
  Forall (fun p : (list str * str) * aevent => event_row cols (fst (fst p)) (snd (fst p)) (snd p)) rows ->
  rs_sect s = SEvents -> rs_fmt s = cols -> cols <> [] ->
  ssa_run s false (map (fun p : (list str * str) * aevent => n_dialogue_pfx ++ join [44] (fst (fst p) ++ [snd (fst p)])) rows) =
  Ok (mkRstate SEvents cols (rs_info s) (rs_styles s) (rs_events s ++ map snd rows)).
Proof.
  induction rows as [|[[init last] ev] r IH]; intros s HF Hs Hf Hcn.
  - cbn [map ssa_run]. rewrite app_nil_r. destruct s; cbn in *; subst; reflexivity.
  - inversion HF as [|? ? Hrow HF']; subst. cbn [map ssa_run fst snd] in *.
    rewrite (event_row_step_gen s _ init last ev Hrow Hs eq_refl Hcn).
    rewrite IH; [|exact HF' | reflexivity | reflexivity | exact Hcn].
    cbn [rs_info rs_styles rs_events]. rewrite <- app_assoc. reflexivity.
Qed.

(* the rendered document: script info (comments, then the key lines in the order [keys]), then the styles section
   (optional), then the events section *)
Definition rendered_lines (hi : str) (b : ainfo) (keys : list fkey)
    (styles : option (str * str * list (list str * astyle)))
    (he fe : str) (erows : list ((list str * str) * aevent)) : list str :=
  hi :: (comment_lines b ++ flat_map (fun f => fline f b) keys) ++
  (match styles with
   | Some (hs, fs, srows) => hs :: (n_format_pfx ++ fs) :: map (fun p : list str * astyle => n_style_pfx ++ join [44] (fst p)) srows
   | None => []
   end) ++
  he :: (n_format_pfx ++ fe) :: map (fun p : (list str * str) * aevent => n_dialogue_pfx ++ join [44] (fst (fst p) ++ [snd (fst p)])) erows.

(* READING A RENDERED DOCUMENT: for every order of the script info keys, every spelling of the three section names, every pair of Format lines (columns in
   any order, any subset, unknown names, any spacing), every encoding of every cell, the reader returns the script
   info, the styles (by name, the last of equal names winning) and, for every Dialogue row, the item its event denotes *)
Theorem read_rendered hi b keys styles he fe erows scols ecols e :
  section_hdr true hi SInfo -> info_ok b -> (forall f, In f keys) ->
  match styles with
  | Some (hs, fs, srows) => section_hdr false hs SStyles /\ format_value fs scols /\ scols <> [] /\
                            Forall (fun p : list str * astyle => style_row scols (fst p) (snd p)) srows
  | None => True
  end ->
  section_hdr false he SEvents -> format_value fe ecols -> ecols <> [] ->
  Forall (fun p : (list str * str) * aevent => event_row ecols (fst (fst p)) (snd (fst p)) (snd p)) erows ->
  let sts := match styles with Some (_, _, srows) => map snd srows | None => [] end in
  read_ssa_lines (rendered_lines hi b keys styles he fe erows) e =
  if e then Err EIO
  else Ok (mkAdoc (Some b) (styles_map sts) (map (fun ev => event_item ev (styles_map sts)) (map snd erows))).
Proof.
  intros Hhi Hb Hkeys Hst Hhe Hfe Hecn Herows sts. unfold read_ssa_lines, rendered_lines. cbn [ssa_run].
  rewrite (section_hdr_step rstate0 true hi SInfo Hhi). unfold rstate0. cbn [rs_fmt rs_info rs_styles rs_events].
  rewrite ssa_run_app, (info_read_any_order b keys [] [] [] Hb Hkeys), ssa_run_app.
  assert (Hmid : ssa_run (mkRstate SInfo [] b [] []) false
                   (match styles with
                    | Some (hs, fs, srows) => hs :: (n_format_pfx ++ fs) :: map (fun p : list str * astyle => n_style_pfx ++ join [44] (fst p)) srows
                    | None => []
                    end) = Ok (mkRstate (match styles with Some _ => SStyles | None => SInfo end)
                                        (match styles with Some _ => scols | None => [] end) b sts [])).
  { destruct styles as [[[hs fs] srows]|]; [|reflexivity]. destruct Hst as (Hhs & Hfs & Hscn & Hrows). cbn [ssa_run].
    rewrite (section_hdr_step _ false hs SStyles Hhs). cbn [rs_fmt rs_info rs_styles rs_events].
    rewrite format_step_gen with (cols := scols); [|left; reflexivity | reflexivity | exact Hfs].
    cbn [rs_sect rs_fmt rs_info rs_styles rs_events].
    rewrite (style_rows_run_gen scols srows); [reflexivity | exact Hrows | reflexivity | reflexivity | exact Hscn]. }
  rewrite Hmid. cbn [ssa_run]. rewrite (section_hdr_step _ false he SEvents Hhe). cbn [rs_fmt rs_info rs_styles rs_events].
  rewrite format_step_gen with (cols := ecols); [|right; reflexivity | reflexivity | exact Hfe].
  cbn [rs_sect rs_fmt rs_info rs_styles rs_events].
  rewrite (event_rows_run_gen ecols erows); [|exact Herows | reflexivity | reflexivity | exact Hecn].
  cbn [rs_info rs_styles rs_events app]. destruct e; [reflexivity|]. unfold finish. cbn [rs_info rs_styles rs_events].
  f_equal. f_equal. f_equal. apply filter_all. apply forallb_forall. intros ev Hev. apply in_map_iff in Hev.
  destruct Hev as (p & <- & Hp). rewrite Forall_forall in Herows. destruct (Herows p Hp) as (_ & _ & Hcat & _).
  unfold is_dialogue. rewrite Hcat. apply str_eqb_refl.
Qed.

(* the item an event denotes: times and attributes as read, the style resolved by name (then without a leading '*'),
   the text -- lines rendered with any mixture of \N and \n -- split back into its lines and runs under the speaker name *)
Theorem event_item_denotes ev m ls seps : ls <> [] -> Forall line_ok ls ->
  av_text ev = join_seps seps (map line_string ls) ->
  event_item ev m =
  mkAitem (av_start ev) (av_end ev)
          (match av_style ev with
           | [] => None
           | n => if sm_mem n m then Some n else if sm_mem (trim_prefix star n) m then Some (trim_prefix star n) else None
           end)
          (Some (mkAevattr (av_effect ev) (av_layer ev) (av_ml ev) (av_mr ev) (av_mv ev) (av_marked ev)))
          (map (fun l => mkAline (av_name ev) (al_runs l)) ls).
Proof.
  intros Hne Hl Ht. unfold event_item. rewrite Ht, (text_lines_rendered (av_name ev) ls seps Hne Hl). reflexivity.
Qed.

(* ---- non-vacuity: a document with permuted columns, an unknown column, the TertiaryColour alias, a boolean written -1,
   a decimal font size, upper- and lower-case section names, odd spacing in the Format lines, one-digit hours, a
   '*'-prefixed style reference, a comma and \N in the text ---- *)
Open Scope string_scope.
Definition ex_info0 : ainfo := kset KTitle (s2l "t: x") (add_comment (s2l "c") ainfo0).
Definition x_scols := [s2l "Bold"; s2l "Name"; s2l "Whatever"; s2l "TertiaryColour"; s2l "Fontsize"].
Definition x_cells := [s2l "-1"; s2l "Main"; s2l "junk"; s2l "&H0000FFFF"; s2l "20.5"].
Definition x_st : astyle := cset COutline (Some (mkAcolor 0 0 255 255)) (fset FFontSize (Some 20500%Z) (bset BBold (Some true) (set_name (s2l "Main") astyle0))).
Definition x_ecols := [s2l "End"; s2l "Style"; s2l "Start"; s2l "Nonsense"; s2l "Text"].
Definition x_init := [s2l "0:00:03.00"; s2l "*Main"; s2l "0:00:01.50"; s2l "?"].
Definition x_last := s2l "Hello, world\N{\i1}x".
Definition x_ev : aevent := mkAevent n_dialogue [] 3000000000%Z None None None None None [] 1500000000%Z (s2l "*Main") (s2l "Hello, world\N{\i1}x").
Close Scope string_scope.
Example x_style_row : style_row x_scols x_cells x_st.
Proof.
  unfold style_row. split; [discriminate|]. split.
  { repeat constructor; vm_compute; intros H; repeat (destruct H as [H|H]; [discriminate|]); exact H. }
  split. { unfold x_scols, x_cells. repeat (apply Forall2_cons || apply Forall2_nil); vm_compute; first [reflexivity | exact I | split; [discriminate | reflexivity] ]. }
  split. { intros a Ha. destruct a as [y|y|y|y| |]; try destruct y; try (exfalso; apply Ha; reflexivity).
           all: unfold in_cols.
           - exists (s2l "Bold"%string). split; [vm_compute; tauto | reflexivity].
           - exists (s2l "TertiaryColour"%string). split; [vm_compute; tauto | reflexivity].
           - exists (s2l "Fontsize"%string). split; [vm_compute; tauto | reflexivity].
           - exists (s2l "Name"%string). split; [vm_compute; tauto | reflexivity]. }
  split; [discriminate | reflexivity].
Qed.
Example x_event_row : event_row x_ecols x_init x_last x_ev.
Proof.
  unfold event_row. split.
  { repeat constructor; vm_compute; intros H; repeat (destruct H as [H|H]; [discriminate|]); exact H. }
  split. { unfold x_ecols, x_init. cbn [app]. repeat (apply Forall2_cons || apply Forall2_nil); vm_compute; first [reflexivity | exact I]. }
  split; [reflexivity|]. split.
  { intros a Ha. destruct a; try reflexivity; exfalso; apply Ha; unfold in_ecols.
    - exists (s2l "End"%string). split; [vm_compute; tauto | reflexivity].
    - exists (s2l "Start"%string). split; [vm_compute; tauto | reflexivity].
    - exists (s2l "Style"%string). split; [vm_compute; tauto | reflexivity].
    - exists (s2l "Text"%string). split; [vm_compute; tauto | reflexivity]. }
  split; [discriminate | reflexivity].
Qed.

Open Scope string_scope.
Example x_read :
  read_ssa_lines (rendered_lines (s2l "[script info]") ex_info0 (rev all_fkeys)
                    (Some (s2l "[V4 STYLES+]", s2l "Bold ,Name,Whatever,  TertiaryColour, Fontsize", [(x_cells, x_st)]))
                    (s2l "[EVENTS]") (s2l "End,Style , Start,Nonsense,Text") [((x_init, x_last), x_ev)]) false =
  Ok (mkAdoc (Some ex_info0) [(s2l "Main", Some x_st)]
             [mkAitem 1500000000%Z 3000000000%Z (Some (s2l "Main")) (Some (mkAevattr [] None None None None None))
                      [mkAline [] [mkArun (s2l "Hello, world") None]; mkAline [] [mkArun (s2l "x") (Some (s2l "{\i1}"))]]]).
Proof.
  rewrite (read_rendered _ _ _ _ _ _ _ x_scols x_ecols false).
  - reflexivity.
  - exists (s2l "script info"). split; reflexivity.
  - unfold ex_info0, info_ok. split; [repeat constructor; reflexivity|]. split; [intros k; destruct k; split; reflexivity|].
    split; [intros k v; destruct k; discriminate | discriminate].
  - intros f. destruct f as [k|k|]; try destruct k; cbn; tauto.
  - split; [exists (s2l "V4 STYLES+"); split; reflexivity|]. split; [split; [discriminate | split; reflexivity]|].
    split; [discriminate|]. constructor; [exact x_style_row | constructor].
  - exists (s2l "EVENTS"). split; reflexivity.
  - split; [discriminate | split; reflexivity].
  - discriminate.
  - constructor; [exact x_event_row | constructor].
Qed.
Close Scope string_scope.
