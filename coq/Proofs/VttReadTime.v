(* WebVTT timestamps as a document may spell them: mm:ss.ttt (hours absent) or h..h:mm:ss.ttt with an hour field of
   any width, followed by any ASCII white space: the reader's parse_vtt returns the instant, to the millisecond. *)
From Coq Require Import List ZArith NArith Lia Bool Arith.
From Astisub Require Import Kit.Base Kit.Str Kit.Scan Model.Dur Model.Srt Model.Vtt.
From Astisub Require Import Proofs.DurProofs Proofs.SrtProofs Proofs.SrtReadProofs Proofs.VttBase Proofs.SsaFields.
Import ListNotations.
Open Scope N_scope.

(* the hour field: absent (then the hours must be 0), or [z] extra zeros in front of the decimal hours *)
Inductive hform := HNone | HPad (z : nat).
Definition hform_ok (hf : hform) (t : Z) : Prop := match hf with HNone => f_h t = 0%Z | HPad _ => True end.
Definition hdigits (z : nat) (t : Z) : str := repeat 48 z ++ itoa_z (f_h t).
Definition ms_field (t : Z) : str := pad_left 48 3 (itoa_z (f_fr 3 t)).
Definition hms_render (hf : hform) (t : Z) : str :=
  (match hf with HNone => [] | HPad z => hdigits z t ++ [colon] end) ++ two (f_m t) ++ [colon] ++ two (f_s t).
Definition ts_render (hf : hform) (t : Z) : str := hms_render hf t ++ [dot] ++ ms_field t.

Lemma hdigits_facts z t : (0 <= t <= max_int64)%Z ->
  digits (hdigits z t) /\ hdigits z t <> [] /\ atoi (hdigits z t) = Some (f_h t).
Proof.
  intros [Ht Hmax]. destruct (fields_bounds 3 t ltac:(lia) Ht) as (Bh & _).
  assert (Hh : (f_h t <= max_int64)%Z).
  { unfold f_h, hour_ns. assert (t / 3600000000000 <= t)%Z by (apply Z.div_le_upper_bound; lia). lia. }
  pose proof (itoa_z_digits (f_h t) Bh) as Dh.
  assert (Nh : itoa_z (f_h t) <> []) by (rewrite (itoa_z_nonneg _ Bh); apply itoa_nonnil).
  unfold hdigits. split; [apply digits_app; [apply digits_repeat | exact Dh]|]. split.
  - intros E. apply app_eq_nil in E. destruct E as [_ E]. exact (Nh E).
  - assert (Dall : digits (repeat 48 z ++ itoa_z (f_h t))) by (apply digits_app; [apply digits_repeat | exact Dh]).
    assert (Nall : repeat 48 z ++ itoa_z (f_h t) <> []) by (intros E; apply app_eq_nil in E; destruct E as [_ E]; exact (Nh E)).
    rewrite (atoi_no_sign _ Dall Nall).
    assert (Epad : repeat 48 z ++ itoa_z (f_h t) = pad_left 48 (z + length (itoa_z (f_h t))) (itoa_z (f_h t))).
    { unfold pad_left. replace (z + length (itoa_z (f_h t)) - length (itoa_z (f_h t)))%nat with z by lia. reflexivity. }
    rewrite Epad, (atoi_digits_pad_left _ _ Nh).
    pose proof (atoi_itoa_z (f_h t) (conj Bh Hh)) as Ea. rewrite (atoi_no_sign _ Dh Nh) in Ea. exact Ea.
Qed.

Lemma parse_hms_2 m s : (0 <= m <= max_int64)%Z -> (0 <= s <= max_int64)%Z ->
  parse_hms (two m ++ [colon] ++ two s) = Some (0%Z, m, s).
Proof.
  intros Hm Hs. unfold parse_hms.
  destruct (two_digits m (proj1 Hm)) as [Dm Nm]. destruct (two_digits s (proj1 Hs)) as [Ds Ns].
  assert (Dall : digits (two m) /\ ~ In colon (two m) /\ ~ In colon (two s)).
  { split; [exact Dm|]. split; apply digits_not_in; try assumption; reflexivity. }
  destruct Dall as (_ & Hcm & Hcs).
  assert (Et : trim_space (two m ++ [colon] ++ two s) = two m ++ [colon] ++ two s).
  { apply trim_space_ends. split; [destruct (two m); [contradiction | discriminate]|]. split.
    - destruct (two m) as [|c r] eqn:E; [contradiction|]. cbn [app hd]. apply is_digit_plain. apply (digits_in _ c Dm). left. reflexivity.
    - destruct (@exists_last _ (two s) Ns) as (q & x & Eq). rewrite Eq, !app_assoc, last_last. apply is_digit_plain.
      apply (digits_in _ x Ds). rewrite Eq. apply in_or_app. right. left. reflexivity. }
  rewrite Et. cbn [app]. rewrite (split_byte_app colon (two m) (two s) Hcm), (split_byte_none colon (two s) Hcs).
  rewrite (atoi_two s Hs), (atoi_two m Hm). reflexivity.
Qed.

Lemma hms_render_facts hf t : hform_ok hf t -> (0 <= t <= max_int64)%Z ->
  parse_hms (hms_render hf t) = Some (f_h t, f_m t, f_s t) /\ ~ In dot (hms_render hf t) /\
  all_plain (hms_render hf t) /\ hms_render hf t <> [] /\ ~ In 45 (hms_render hf t) /\ ~ In 62 (hms_render hf t).
Proof.
  intros Hok Ht. destruct (fields_bounds 3 t ltac:(lia) (proj1 Ht)) as (Bh & Bm & Bs & _).
  destruct (two_digits (f_m t) (proj1 Bm)) as [Dm Nm]. destruct (two_digits (f_s t) (proj1 Bs)) as [Ds Ns].
  assert (Hm : (0 <= f_m t <= max_int64)%Z) by (unfold max_int64; lia).
  assert (Hs : (0 <= f_s t <= max_int64)%Z) by (unfold max_int64; lia).
  assert (Pcolon : all_plain [colon]) by (repeat constructor).
  unfold hms_render. destruct hf as [|z]; cbn [hform_ok] in Hok.
  - change ([] ++ two (f_m t) ++ [colon] ++ two (f_s t)) with (two (f_m t) ++ [colon] ++ two (f_s t)). rewrite Hok. split; [apply parse_hms_2; assumption|].
    assert (Dn : forall c, is_digit c = false -> c <> colon -> ~ In c (two (f_m t) ++ [colon] ++ two (f_s t))).
    { intros c Hc Hcc Hin. apply in_app_or in Hin. destruct Hin as [Hin|Hin]; [exact (digits_not_in _ c Dm Hc Hin)|].
      apply in_app_or in Hin. destruct Hin as [[Hin|[]]|Hin]; [congruence | exact (digits_not_in _ c Ds Hc Hin)]. }
    split; [apply Dn; [reflexivity | discriminate]|].
    split; [apply all_plain_app; [apply digits_all_plain; exact Dm | apply all_plain_app; [exact Pcolon | apply digits_all_plain; exact Ds]]|].
    split; [destruct (two (f_m t)); [contradiction | discriminate]|].
    split; apply Dn; try reflexivity; discriminate.
  - destruct (hdigits_facts z t Ht) as (DH & NH & AH). rewrite <- app_assoc.
    split; [apply (parse_hms_gen (hdigits z t) (f_h t) (f_m t) (f_s t) DH NH AH Hm Hs)|].
    assert (Dn : forall c, is_digit c = false -> c <> colon -> ~ In c (hdigits z t ++ [colon] ++ two (f_m t) ++ [colon] ++ two (f_s t))).
    { intros c Hc Hcc Hin. apply in_app_or in Hin. destruct Hin as [Hin|Hin]; [exact (digits_not_in _ c DH Hc Hin)|].
      apply in_app_or in Hin. destruct Hin as [[Hin|[]]|Hin]; [congruence|].
      apply in_app_or in Hin. destruct Hin as [Hin|Hin]; [exact (digits_not_in _ c Dm Hc Hin)|].
      apply in_app_or in Hin. destruct Hin as [[Hin|[]]|Hin]; [congruence | exact (digits_not_in _ c Ds Hc Hin)]. }
    split; [apply Dn; [reflexivity | discriminate]|].
    split; [apply all_plain_app; [apply digits_all_plain; exact DH|]; apply all_plain_app; [exact Pcolon|];
            apply all_plain_app; [apply digits_all_plain; exact Dm | apply all_plain_app; [exact Pcolon | apply digits_all_plain; exact Ds]]|].
    split; [destruct (hdigits z t); [contradiction | discriminate]|].
    split; apply Dn; try reflexivity; discriminate.
Qed.

Lemma ms_field_facts t : (0 <= t)%Z -> digits (ms_field t) /\ length (ms_field t) = 3%nat /\ ms_field t <> [] /\
  atoi (ms_field t) = Some (f_fr 3 t).
Proof.
  intros Ht. destruct (fields_bounds 3 t ltac:(lia) Ht) as (_ & _ & _ & Bf & _). unfold ms_field.
  destruct (frac_digits 3 (f_fr 3 t) (proj1 Bf)) as [Df Af]. pose proof (frac_length 3 (f_fr 3 t) ltac:(lia) Bf) as Lf.
  assert (Nf : pad_left 48 3 (itoa_z (f_fr 3 t)) <> []) by (intros E; rewrite E in Lf; discriminate).
  split; [exact Df|]. split; [exact Lf|]. split; [exact Nf|].
  rewrite (atoi_no_sign _ Df Nf), Af. rewrite Z2N.id by lia.
  assert (f_fr 3 t < 1000)%Z by (change (10 ^ Z.of_nat 3)%Z with 1000%Z in Bf; lia).
  destruct ((f_fr 3 t <? - max_int64 - 1)%Z || (max_int64 <? f_fr 3 t)%Z) eqn:B; [|reflexivity].
  apply orb_true_iff in B. unfold max_int64 in *. destruct B as [B|B]; apply Z.ltb_lt in B; lia.
Qed.

(* THE TIMESTAMP, EVERY SPELLING: hours absent or of any width, white space after it *)
Theorem parse_vtt_ts hf t w : hform_ok hf t -> (0 <= t <= max_int64)%Z -> ws w ->
  parse_vtt (ts_render hf t ++ w) = Some (trunc_ms t).
Proof.
  intros Hok Ht Hw. destruct (hms_render_facts hf t Hok Ht) as (Ph & Nd & _).
  destruct (ms_field_facts t (proj1 Ht)) as (Df & Lf & Nf & Af).
  destruct (fields_bounds 3 t ltac:(lia) (proj1 Ht)) as (_ & _ & _ & _ & Hsum).
  unfold parse_vtt, parse_duration, ts_render.
  set (HMS := hms_render hf t) in *. set (F := ms_field t) in *.
  replace ((HMS ++ [dot] ++ F) ++ w) with (HMS ++ dot :: (F ++ w)) by (rewrite <- !app_assoc; reflexivity).
  rewrite (split_byte_app dot HMS _ Nd). rewrite split_byte_none.
  2:{ intros Hin. apply in_app_or in Hin. destruct Hin as [Hin|Hin];
      [exact (digits_not_in F dot Df eq_refl Hin) | exact (ws_not_in w dot Hw eq_refl Hin)]. }
  cbn [rev app]. rewrite (trim_space_ends_ws F w (digits_ends_plain F Df Nf) Hw), Lf.
  change (Nat.ltb 3 3) with false. cbv iota. rewrite Af. cbn [join]. rewrite Ph.
  f_equal. unfold trunc_ms. change 1000000%Z with (frac_div 3). rewrite <- Hsum.
  change (pow10_int (Z.of_nat 3 - Z.of_nat 3)) with 1%Z. unfold ms_ns. change (frac_div 3) with 1000000%Z. lia.
Qed.

(* shape of a rendered timestamp *)
Lemma ts_render_facts hf t : hform_ok hf t -> (0 <= t <= max_int64)%Z ->
  all_plain (ts_render hf t) /\ ends_plain (ts_render hf t) /\ ~ In 45 (ts_render hf t) /\ ~ In 62 (ts_render hf t) /\
  is_digit (hd 0 (ts_render hf t)) = true.
Proof.
  intros Hok Ht. destruct (hms_render_facts hf t Hok Ht) as (_ & _ & Ph & Nh & N45 & N62).
  destruct (ms_field_facts t (proj1 Ht)) as (Df & _ & Nf & _). unfold ts_render.
  assert (P : all_plain (hms_render hf t ++ [dot] ++ ms_field t)).
  { apply all_plain_app; [exact Ph|]. apply all_plain_app; [repeat constructor | apply digits_all_plain; exact Df]. }
  split; [exact P|]. split; [|split; [|split]].
  - split; [destruct (hms_render hf t); [contradiction | discriminate]|]. unfold all_plain in P. rewrite Forall_forall in P. split; apply P.
    + destruct (hms_render hf t); [contradiction | left; reflexivity].
    + destruct (@exists_last _ (ms_field t) Nf) as (q & x & E). rewrite E, !app_assoc, last_last. apply in_or_app. right. left. reflexivity.
  - intros Hin. apply in_app_or in Hin. destruct Hin as [Hin|Hin]; [exact (N45 Hin)|].
    apply in_app_or in Hin. destruct Hin as [[Hin|[]]|Hin]; [discriminate | exact (digits_not_in _ 45 Df eq_refl Hin)].
  - intros Hin. apply in_app_or in Hin. destruct Hin as [Hin|Hin]; [exact (N62 Hin)|].
    apply in_app_or in Hin. destruct Hin as [[Hin|[]]|Hin]; [discriminate | exact (digits_not_in _ 62 Df eq_refl Hin)].
  - destruct (fields_bounds 3 t ltac:(lia) (proj1 Ht)) as (_ & Bm & _).
    destruct (two_digits (f_m t) (proj1 Bm)) as [Dm Nm].
    unfold hms_render. destruct hf as [|z].
    + cbn [app]. destruct (two (f_m t)) as [|c r] eqn:E; [contradiction|]. cbn [app hd]. apply (digits_in _ c Dm). left. reflexivity.
    + destruct (hdigits_facts z t Ht) as (DH & NH & _). destruct (hdigits z t) as [|c r] eqn:E; [contradiction|].
      cbn [app hd]. apply (digits_in _ c DH). left. reflexivity.
Qed.
