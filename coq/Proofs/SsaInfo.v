(* SSA/ASS script info: the block the writer emits is read back as the same script info. *)
From Coq Require Import List ZArith NArith Bool Lia.
From Astisub Require Import Kit.Base Kit.Str Kit.Scan Model.Dur Model.Ssa.
From Astisub Require Import Proofs.VttBase Proofs.ScanProofs Proofs.EolProofs Proofs.SsaFields Proofs.SsaTrim Proofs.SsaRows Proofs.SsaLines.
Import ListNotations.
Open Scope N_scope.

Definition set_info (i : ainfo) (s : rstate) : rstate := mkRstate (rs_sect s) (rs_fmt s) i (rs_styles s) (rs_events s).
Lemma set_info_id s : set_info (rs_info s) s = s. Proof. destruct s; reflexivity. Qed.

Lemma ssa_run_app s l1 l2 :
  ssa_run s false (l1 ++ l2) =
  match ssa_run s false l1 with Ok s' => ssa_run s' false l2 | Err k => Err k | Panic p => Panic p end.
Proof.
  revert s. induction l1 as [|l r IH]; intros s; [reflexivity|]. cbn [app ssa_run].
  destruct (ssa_step s false l); [apply IH | reflexivity | reflexivity].
Qed.

(* a string the reader's trimming leaves alone, on one line *)
Definition str_ok (v : str) : Prop := trim_space v = v /\ brkfree v.
Definition info_ok (b : ainfo) : Prop :=
  Forall str_ok (an_comments b) /\ (forall k, str_ok (kget k b)) /\
  (forall k v, nget k b = Some v -> int_ok v) /\ (forall t, an_timer b = Some t -> float_ok t).

Lemma brkfree_app a b : brkfree a -> brkfree b -> brkfree (a ++ b).
Proof. unfold brkfree. intros Ha Hb. rewrite forallb_app, Ha, Hb. reflexivity. Qed.
Lemma cell_clean_brkfree s : cell_clean s -> brkfree s.
Proof. apply cell_clean_nobrk. Qed.

(* ---- the keys ---- *)
Lemma ikey_hdr_ok k : hdr_ok (ikey_name k).
Proof.
  destruct k; (split; [repeat split; try reflexivity; discriminate|]; split; [|reflexivity]);
    vm_compute; intros H; repeat (destruct H as [H|H]; [discriminate|]); exact H.
Qed.
Lemma nkey_hdr_ok k : hdr_ok (nkey_name k).
Proof.
  destruct k; (split; [repeat split; try reflexivity; discriminate|]; split; [|reflexivity]);
    vm_compute; intros H; repeat (destruct H as [H|H]; [discriminate|]); exact H.
Qed.
Lemma timer_hdr_ok : hdr_ok n_timer.
Proof.
  split; [repeat split; try reflexivity; discriminate|]. split; [|reflexivity].
  vm_compute; intros H; repeat (destruct H as [H|H]; [discriminate|]); exact H.
Qed.
Lemma find_ikey_name k : find_ikey ikeys_all (ikey_name k) = Some k. Proof. destruct k; reflexivity. Qed.
Lemma find_ikey_nkey k : find_ikey ikeys_all (nkey_name k) = None. Proof. destruct k; reflexivity. Qed.
Lemma find_nkey_name k : find_nkey nkeys_all (nkey_name k) = Some k. Proof. destruct k; reflexivity. Qed.
Lemma kset_kget_id k i : kset k (kget k i) i = i. Proof. destruct i, k; reflexivity. Qed.
Lemma nset_nget_id k i : nset k (nget k i) i = i. Proof. destruct i, k; reflexivity. Qed.
Lemma set_timer_id i : set_timer (an_timer i) i = i. Proof. destruct i; reflexivity. Qed.

Lemma brkfree_ikey k : brkfree (ikey_name k). Proof. destruct k; reflexivity. Qed.
Lemma brkfree_nkey k : brkfree (nkey_name k). Proof. destruct k; reflexivity. Qed.

(* ---- the lines of the block ---- *)
Definition info_str_lines (k : ikey) (b : ainfo) : list str :=
  match kget k b with [] => [] | v => [ikey_name k ++ colon_sp ++ v] end.
Definition info_num_lines (k : nkey) (b : ainfo) : list str :=
  match nget k b with None => [] | Some v => [nkey_name k ++ colon_sp ++ itoa_z v] end.
Definition info_timer_lines (b : ainfo) : list str :=
  match an_timer b with None => [] | Some t => [n_timer ++ colon_sp ++ dot_to_comma (format_float_short t)] end.
Definition info_body_lines (b : ainfo) : list str :=
  map (fun c => [59; 32] ++ c) (an_comments b) ++
  info_str_lines KCollisions b ++ info_str_lines KOriginalEditing b ++ info_str_lines KOriginalScript b ++
  info_str_lines KOriginalTiming b ++ info_str_lines KOriginalTranslation b ++
  info_num_lines KPlayDepth b ++ info_num_lines KPlayResX b ++ info_num_lines KPlayResY b ++
  info_str_lines KScriptType b ++ info_str_lines KScriptUpdatedBy b ++ info_str_lines KSynchPoint b ++
  info_timer_lines b ++
  info_str_lines KTitle b ++ info_str_lines KUpdateDetails b ++ info_str_lines KWrapStyle b.
Definition info_lines (b : ainfo) : list str := n_script_info_hdr :: info_body_lines b.

Lemma render_app e a b : render_eol e (a ++ b) = render_eol e a ++ render_eol e b.
Proof. unfold render_eol. rewrite map_app, concat_app. reflexivity. Qed.
Lemma render_one e l : render_eol e [l] = l ++ e.
Proof. unfold render_eol. cbn [map concat]. apply app_nil_r. Qed.
Lemma info_str_line_lines k b : info_str_line k b = render_eol [10] (info_str_lines k b).
Proof.
  unfold info_str_line, info_str_lines. destruct (kget k b) as [|c r]; [reflexivity|].
  rewrite render_one. unfold info_line, nl. rewrite <- !app_assoc. reflexivity.
Qed.
Lemma info_num_line_lines k b : info_num_line k b = render_eol [10] (info_num_lines k b).
Proof.
  unfold info_num_line, info_num_lines. destruct (nget k b) as [v|]; [|reflexivity].
  rewrite render_one. unfold info_line, nl. rewrite <- !app_assoc. reflexivity.
Qed.
Lemma info_comment_lines cs :
  concat (map (fun c => [59; 32] ++ c ++ nl) cs) = render_eol [10] (map (fun c => [59; 32] ++ c) cs).
Proof.
  induction cs as [|c cs IH]; [reflexivity|]. cbn [map concat]. rewrite render_cons, IH. unfold nl.
  rewrite <- !app_assoc. reflexivity.
Qed.
Lemma info_timer_line_lines b :
  match an_timer b with None => [] | Some t => info_line n_timer (dot_to_comma (format_float_short t)) end =
  render_eol [10] (info_timer_lines b).
Proof.
  unfold info_timer_lines. destruct (an_timer b); [|reflexivity].
  rewrite render_one. unfold info_line, nl. rewrite <- !app_assoc. reflexivity.
Qed.
Lemma info_bytes_lines b : info_bytes b = render_eol [10] (info_lines b).
Proof.
  unfold info_bytes, info_lines. rewrite render_cons. unfold nl. do 2 f_equal.
  unfold info_body_lines. rewrite !render_app, <- !info_str_line_lines, <- !info_num_line_lines,
    <- info_timer_line_lines, <- info_comment_lines. reflexivity.
Qed.

(* ---- reading the block ---- *)
Lemma comments_run cs : forall s, Forall str_ok cs -> rs_sect s = SInfo ->
  ssa_run s false (map (fun c => [59; 32] ++ c) cs) = Ok (set_info (fold_left (fun i c => add_comment c i) cs (rs_info s)) s).
Proof.
  induction cs as [|c cs IH]; intros s HF Hs; [cbn [map ssa_run fold_left]; rewrite set_info_id; reflexivity|].
  inversion HF as [|? ? [Hc _] HF']; subst. cbn [map ssa_run app].
  rewrite (comment_step s c Hc) by (rewrite Hs; discriminate).
  rewrite IH; [|exact HF' | exact Hs]. destruct s; reflexivity.
Qed.
Lemma fold_add_comment cs : forall i,
  fold_left (fun i c => add_comment c i) cs i =
  mkAinfo (an_comments i ++ cs) (an_collisions i) (an_oediting i) (an_oscript i) (an_otiming i) (an_otranslation i)
          (an_scripttype i) (an_updatedby i) (an_synchpoint i) (an_title i) (an_updatedetails i) (an_wrapstyle i)
          (an_playdepth i) (an_playresx i) (an_playresy i) (an_timer i).
Proof.
  induction cs as [|c cs IH]; intros i; cbn [fold_left]; [destruct i; cbn; rewrite app_nil_r; reflexivity|].
  rewrite IH. destruct i; cbn. rewrite <- app_assoc. reflexivity.
Qed.

Lemma str_group s k b : rs_sect s = SInfo -> str_ok (kget k b) -> kget k (rs_info s) = [] ->
  ssa_run s false (info_str_lines k b) = Ok (set_info (kset k (kget k b) (rs_info s)) s).
Proof.
  intros Hs [Ht _] Hk. unfold info_str_lines. destruct (kget k b) as [|c r] eqn:E.
  - cbn [ssa_run]. rewrite <- Hk, kset_kget_id, set_info_id. reflexivity.
  - cbn [ssa_run]. rewrite (kv_step s (ikey_name k) (c :: r) (ikey_hdr_ok k)); [|discriminate | exact Ht | rewrite Hs; discriminate].
    unfold kv_dispatch. destruct s as [sect fmt info sts evs]. cbn [rs_sect rs_info] in *. subst sect.
    unfold info_parse. rewrite find_ikey_name. reflexivity.
Qed.
Lemma num_group s k b : rs_sect s = SInfo -> (forall v, nget k b = Some v -> int_ok v) -> nget k (rs_info s) = None ->
  ssa_run s false (info_num_lines k b) = Ok (set_info (nset k (nget k b) (rs_info s)) s).
Proof.
  intros Hs Hi Hk. unfold info_num_lines. destruct (nget k b) as [v|] eqn:E.
  - cbn [ssa_run]. rewrite (kv_step s (nkey_name k) (itoa_z v) (nkey_hdr_ok k));
      [|apply itoa_z_nonnil | apply cell_clean_trim, itoa_z_clean | rewrite Hs; discriminate].
    unfold kv_dispatch. destruct s as [sect fmt info sts evs]. cbn [rs_sect rs_info] in *. subst sect.
    unfold info_parse. rewrite find_ikey_nkey, find_nkey_name, (atoi_itoa_z_all v (Hi v eq_refl)). reflexivity.
  - cbn [ssa_run]. rewrite <- Hk, nset_nget_id, set_info_id. reflexivity.
Qed.

Lemma plain_all_trim s : forallb plain_byte s = true -> trim_space s = s.
Proof.
  intros H. destruct s as [|c r]; [reflexivity|]. apply trim_space_plain; [discriminate | |].
  - cbn [hd forallb] in *. apply andb_true_iff in H. tauto.
  - rewrite forallb_forall in H. apply H.
    destruct (@exists_last _ (c :: r)) as (q & x & E); [discriminate|]. rewrite E, last_last. apply in_or_app. right. left. reflexivity.
Qed.
Lemma format_float_short_nonnil z : format_float_short z <> [].
Proof.
  unfold format_float_short. destruct (z <? 0)%Z; [discriminate|]. cbn [app]. intros H.
  apply app_eq_nil in H. destruct H as [H _]. exact (itoa_nonnil _ H).
Qed.
Lemma timer_value_ok t :
  dot_to_comma (format_float_short t) <> [] /\ trim_space (dot_to_comma (format_float_short t)) = dot_to_comma (format_float_short t) /\
  brkfree (dot_to_comma (format_float_short t)).
Proof.
  pose proof (format_float_short_clean t) as H. split; [|split].
  - unfold dot_to_comma. intros E. apply map_eq_nil in E. exact (format_float_short_nonnil t E).
  - apply plain_all_trim. apply forallb_forall. intros c Hc. rewrite forallb_forall in H. specialize (H c Hc).
    apply andb_true_iff in H. tauto.
  - unfold brkfree. apply forallb_forall. intros c Hc. rewrite forallb_forall in H. specialize (H c Hc).
    apply andb_true_iff in H. tauto.
Qed.
Lemma timer_group s b : rs_sect s = SInfo -> (forall t, an_timer b = Some t -> float_ok t) -> an_timer (rs_info s) = None ->
  ssa_run s false (info_timer_lines b) = Ok (set_info (set_timer (an_timer b) (rs_info s)) s).
Proof.
  intros Hs Hf Hk. unfold info_timer_lines. destruct (an_timer b) as [t|] eqn:E.
  - cbn [ssa_run]. destruct (timer_value_ok t) as (Hn & Ht & _).
    rewrite (kv_step s n_timer _ timer_hdr_ok Hn Ht) by (rewrite Hs; discriminate).
    unfold kv_dispatch. destruct s as [sect fmt info sts evs]. cbn [rs_sect rs_info] in *. subst sect.
    unfold info_parse.
    change (find_ikey ikeys_all n_timer) with (@None ikey). change (find_nkey nkeys_all n_timer) with (@None nkey).
    change (str_eqb n_timer n_timer) with true. cbv iota. rewrite (timer_roundtrip t (Hf t eq_refl)). reflexivity.
  - cbn [ssa_run]. rewrite <- Hk, set_timer_id, set_info_id. reflexivity.
Qed.

(* READING THE SCRIPT INFO BLOCK: the body lines the writer emits for [b], read in the script info section from an
   empty script info, give back [b] *)
Theorem info_body_read b fmt sts evs : info_ok b ->
  ssa_run (mkRstate SInfo fmt ainfo0 sts evs) false (info_body_lines b) = Ok (mkRstate SInfo fmt b sts evs).
Proof.
  intros (Hc & Hk & Hn & Ht). unfold info_body_lines.
  rewrite ssa_run_app, (comments_run (an_comments b) (mkRstate SInfo fmt ainfo0 sts evs) Hc eq_refl), fold_add_comment. cbn [rs_info an_comments app set_info rs_sect rs_fmt rs_styles rs_events
    an_collisions an_oediting an_oscript an_otiming an_otranslation an_scripttype an_updatedby an_synchpoint an_title
    an_updatedetails an_wrapstyle an_playdepth an_playresx an_playresy an_timer ainfo0].
  repeat (rewrite ssa_run_app;
          first [ rewrite str_group by (first [reflexivity | apply Hk])
                | rewrite num_group by (first [reflexivity | apply Hn])
                | rewrite timer_group by (first [reflexivity | exact Ht]) ];
          cbn [set_info rs_sect rs_fmt rs_info rs_styles rs_events kset nset set_timer]).
  rewrite str_group by (first [reflexivity | apply Hk]).
  cbn [set_info rs_sect rs_fmt rs_info rs_styles rs_events kset]. destruct b; reflexivity.
Qed.
