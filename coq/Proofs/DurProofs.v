(* Timestamp codec (C16). *)
From Coq Require Import List ZArith NArith Bool Lia.
From Astisub Require Import Kit.Base Kit.Str Model.Dur.
Import ListNotations.
Open Scope Z_scope.

Ltac Zify.zify_post_hook ::= Z.to_euclidean_division_equations.

(* ---- digit strings ---- *)
Definition digits (s : str) : Prop := forallb is_digit s = true.

Lemma is_digit_plain c : is_digit c = true -> plain_byte c = true.
Proof.
  unfold is_digit, plain_byte, is_ascii_space. intros H. apply andb_true_iff in H. destruct H as [H1 H2].
  apply N.leb_le in H1. apply N.leb_le in H2.
  apply andb_true_iff. split.
  - apply negb_true_iff. apply orb_false_iff. split.
    + apply N.eqb_neq. lia.
    + apply andb_false_iff. right. apply N.leb_gt. lia.
  - apply N.ltb_lt. lia.
Qed.

Lemma digits_app a b : digits a -> digits b -> digits (a ++ b).
Proof. unfold digits. intros Ha Hb. rewrite forallb_app, Ha, Hb. reflexivity. Qed.

Lemma digits_in s c : digits s -> In c s -> is_digit c = true.
Proof. unfold digits. intros H Hin. rewrite forallb_forall in H. auto. Qed.

Lemma digits_not_in s c : digits s -> is_digit c = false -> ~ In c s.
Proof. intros H Hc Hin. rewrite (digits_in s c H Hin) in Hc. discriminate. Qed.

Lemma digits_trim s : digits s -> s <> [] -> trim_space s = s.
Proof.
  intros Hd Hne. apply trim_space_plain; [exact Hne | |].
  - destruct s as [|c r]; [contradiction|]. apply is_digit_plain. apply (digits_in _ c Hd). left. reflexivity.
  - apply is_digit_plain. apply (digits_in s _ Hd).
    destruct (@exists_last _ s Hne) as (s' & z & ->). rewrite last_last. apply in_or_app. right. left. reflexivity.
Qed.

Lemma digits_repeat n : digits (repeat 48%N n).
Proof. unfold digits. induction n as [|n IH]; [reflexivity|]. cbn [repeat forallb]. rewrite IH. reflexivity. Qed.

Lemma atoi_no_sign s : digits s -> s <> [] ->
  atoi s = match atoi_digits s with
           | Some n => if ((Z.of_N n <? - max_int64 - 1) || (max_int64 <? Z.of_N n)) then None else Some (Z.of_N n)
           | None => None
           end.
Proof.
  intros Hd Hne. pose proof (digit_head_not_sign s Hd Hne) as Hs. unfold atoi.
  destruct s as [|c r]; [contradiction|].
  assert (Hm : match c :: r with 45%N :: r0 => (true, r0) | 43%N :: r0 => (false, r0) | _ => (false, c :: r) end = (false, c :: r)).
  { destruct c as [|p]; [reflexivity|]. do 8 (destruct p as [p|p|]; try reflexivity; try contradiction). }
  rewrite Hm. reflexivity.
Qed.

(* ---- the two-digit field ---- *)
Lemma itoa_z_nonneg v : 0 <= v -> itoa_z v = itoa (Z.to_N v).
Proof. intros H. destruct v; [reflexivity | reflexivity | lia]. Qed.

Lemma two_digits v : 0 <= v -> digits (two v) /\ two v <> [].
Proof.
  intros H. unfold two. rewrite (itoa_z_nonneg v H). split.
  - apply digits_app; [destruct (v <? 10); reflexivity | apply itoa_digits].
  - intros E. apply app_eq_nil in E. destruct E as [_ E]. exact (itoa_nonnil _ E).
Qed.

Lemma atoi_digits_two v : 0 <= v -> atoi_digits (two v) = Some (Z.to_N v).
Proof.
  intros H. unfold two. rewrite (itoa_z_nonneg v H). destruct (v <? 10); cbn [app].
  - rewrite atoi_digits_zero by apply itoa_nonnil. apply atoi_digits_itoa.
  - apply atoi_digits_itoa.
Qed.

Lemma atoi_two v : 0 <= v <= max_int64 -> atoi (trim_space (two v)) = Some v.
Proof.
  intros [H0 H1]. destruct (two_digits v H0) as [Hd Hne].
  rewrite (digits_trim _ Hd Hne), (atoi_no_sign _ Hd Hne), (atoi_digits_two v H0), Z2N.id by exact H0.
  destruct ((v <? - max_int64 - 1) || (max_int64 <? v)) eqn:B; [|reflexivity].
  apply orb_true_iff in B. unfold max_int64 in *. destruct B as [B|B]; apply Z.ltb_lt in B; lia.
Qed.

(* finite sweeps: field widths *)
Lemma sweep_lift (P : nat -> bool) (n : nat) : forallb P (seq 0 n) = true -> forall i, (i < n)%nat -> P i = true.
Proof. intros H i Hi. rewrite forallb_forall in H. apply H. apply in_seq. lia. Qed.

Lemma two_length_100 : forall v, 0 <= v < 100 -> length (two v) = 2%nat.
Proof.
  assert (S : forallb (fun i => Nat.eqb (length (two (Z.of_nat i))) 2) (seq 0 100) = true) by (vm_compute; reflexivity).
  intros v Hv. pose proof (sweep_lift _ _ S (Z.to_nat v) ltac:(lia)) as H. cbv beta in H.
  rewrite Z2Nat.id in H by lia. apply Nat.eqb_eq in H. exact H.
Qed.

Lemma frac_length : forall k fr, (1 <= k <= 3)%nat -> 0 <= fr < 10 ^ Z.of_nat k ->
  length (pad_left 48%N k (itoa_z fr)) = k.
Proof.
  assert (S : forallb (fun k => forallb (fun i => Nat.eqb (length (pad_left 48%N (S k) (itoa_z (Z.of_nat i)))) (S k))
                                        (seq 0 (Z.to_nat (10 ^ Z.of_nat (S k))))) (seq 0 3) = true) by (vm_compute; reflexivity).
  intros k fr Hk Hfr. pose proof (sweep_lift _ _ S (k - 1)%nat ltac:(lia)) as H. cbv beta in H.
  replace (Datatypes.S (k - 1)) with k in H by lia.
  pose proof (sweep_lift _ _ H (Z.to_nat fr) ltac:(lia)) as H2. cbv beta in H2.
  rewrite Z2Nat.id in H2 by lia. apply Nat.eqb_eq in H2. exact H2.
Qed.

Lemma frac_digits k fr : 0 <= fr -> digits (pad_left 48%N k (itoa_z fr)) /\ atoi_digits (pad_left 48%N k (itoa_z fr)) = Some (Z.to_N fr).
Proof.
  intros H. rewrite (itoa_z_nonneg fr H). split.
  - unfold pad_left. apply digits_app; [apply digits_repeat | apply itoa_digits].
  - rewrite atoi_digits_pad_left by apply itoa_nonnil. apply atoi_digits_itoa.
Qed.

(* ---- split ---- *)
Lemma colon_not_digit : is_digit colon = false. Proof. reflexivity. Qed.

Definition sep_ok (sep : N) : Prop := is_digit sep = false /\ sep <> colon.

Lemma split_hms a b c : digits a -> digits b -> digits c ->
  split_byte colon (a ++ [colon] ++ b ++ [colon] ++ c) = [a; b; c].
Proof.
  intros Ha Hb Hc. cbn [app].
  rewrite (split_byte_app colon a) by (apply digits_not_in; [exact Ha | reflexivity]).
  rewrite (split_byte_app colon b) by (apply digits_not_in; [exact Hb | reflexivity]).
  rewrite (split_byte_none colon c) by (apply digits_not_in; [exact Hc | reflexivity]). reflexivity.
Qed.

Lemma hms_no_sep sep a b c : sep_ok sep -> digits a -> digits b -> digits c ->
  ~ In sep (a ++ [colon] ++ b ++ [colon] ++ c).
Proof.
  intros [Hs Hc0] Ha Hb Hc Hin. repeat (apply in_app_or in Hin; destruct Hin as [Hin|Hin]).
  - exact (digits_not_in a sep Ha Hs Hin).
  - destruct Hin as [E|[]]. congruence.
  - exact (digits_not_in b sep Hb Hs Hin).
  - destruct Hin as [E|[]]. congruence.
  - exact (digits_not_in c sep Hc Hs Hin).
Qed.

Lemma parse_hms_spec h m s : 0 <= h <= max_int64 -> 0 <= m <= max_int64 -> 0 <= s <= max_int64 ->
  parse_hms (two h ++ [colon] ++ two m ++ [colon] ++ two s) = Some (h, m, s).
Proof.
  intros Hh Hm Hs. unfold parse_hms.
  destruct (two_digits h (proj1 Hh)) as [Dh Nh]. destruct (two_digits m (proj1 Hm)) as [Dm Nm]. destruct (two_digits s (proj1 Hs)) as [Ds Ns].
  assert (Htrim : trim_space (two h ++ [colon] ++ two m ++ [colon] ++ two s) = two h ++ [colon] ++ two m ++ [colon] ++ two s).
  { apply trim_space_plain.
    - intros E. apply app_eq_nil in E. tauto.
    - destruct (two h) as [|c r] eqn:E; [contradiction|]. cbn [app hd]. apply is_digit_plain. apply (digits_in _ c Dh). left. reflexivity.
    - rewrite !app_assoc. destruct (@exists_last _ (two s) Ns) as (s' & z & E). rewrite E, app_assoc, last_last.
      apply is_digit_plain. apply (digits_in _ z Ds). rewrite E. apply in_or_app. right. left. reflexivity. }
  rewrite Htrim, (split_hms _ _ _ Dh Dm Ds), (atoi_two s Hs), (atoi_two m Hm), (atoi_two h Hh).
  destruct (two h); [contradiction | reflexivity].
Qed.

(* ---- the fields of a non-negative instant ---- *)
Definition f_h (t : Z) := t / hour_ns.
Definition f_m (t : Z) := (t mod hour_ns) / minute_ns.
Definition f_s (t : Z) := (t mod minute_ns) / second_ns.
Definition f_fr (k : nat) (t : Z) := (t mod second_ns) / frac_div k.

Lemma format_duration_fields t sep k : 0 <= t ->
  format_duration t sep k =
  two (f_h t) ++ [colon] ++ two (f_m t) ++ [colon] ++ two (f_s t) ++ sep ++ pad_left 48%N k (itoa_z (f_fr k t)).
Proof.
  intros H. unfold format_duration, f_h, f_m, f_s, f_fr, hour_ns, minute_ns, second_ns.
  rewrite !Z.quot_div_nonneg, !Z.rem_mod_nonneg; try lia; try (apply Z.mod_pos_bound; lia). reflexivity.
Qed.

Lemma frac_div_val k : (1 <= k <= 3)%nat -> frac_div k = 100000000 \/ frac_div k = 10000000 \/ frac_div k = 1000000.
Proof. intros H. unfold frac_div. assert (k = 1 \/ k = 2 \/ k = 3)%nat as [-> | [-> | ->] ] by lia; cbn; auto. Qed.

Lemma fields_bounds k t : (1 <= k <= 3)%nat -> 0 <= t ->
  0 <= f_h t /\ 0 <= f_m t < 60 /\ 0 <= f_s t < 60 /\ 0 <= f_fr k t < 10 ^ Z.of_nat k /\
  f_fr k t * frac_div k + f_s t * second_ns + f_m t * minute_ns + f_h t * hour_ns = t - t mod frac_div k.
Proof.
  intros Hk Ht. unfold f_h, f_m, f_s, f_fr, hour_ns, minute_ns, second_ns, frac_div.
  assert (k = 1 \/ k = 2 \/ k = 3)%nat as [-> | [-> | ->] ] by lia; cbn; lia.
Qed.

(* the grammar of a rendering *)
Theorem format_grammar sep k t : (1 <= k <= 3)%nat -> 0 <= t ->
  format_duration t [sep] k = two (f_h t) ++ [colon] ++ two (f_m t) ++ [colon] ++ two (f_s t) ++ [sep] ++ pad_left 48%N k (itoa_z (f_fr k t)) /\
  digits (two (f_h t)) /\ (2 <= length (two (f_h t)))%nat /\
  digits (two (f_m t)) /\ length (two (f_m t)) = 2%nat /\ 0 <= f_m t < 60 /\
  digits (two (f_s t)) /\ length (two (f_s t)) = 2%nat /\ 0 <= f_s t < 60 /\
  digits (pad_left 48%N k (itoa_z (f_fr k t))) /\ length (pad_left 48%N k (itoa_z (f_fr k t))) = k.
Proof.
  intros Hk Ht. destruct (fields_bounds k t Hk Ht) as (Bh & Bm & Bs & Bf & _).
  split; [apply format_duration_fields; exact Ht|].
  split; [apply two_digits; exact Bh|].
  split.
  { unfold two. rewrite app_length. destruct (f_h t <? 10) eqn:E; cbn [length].
    - pose proof (itoa_nonnil (Z.to_N (f_h t))) as N. rewrite (itoa_z_nonneg _ Bh). destruct (itoa (Z.to_N (f_h t))); [contradiction | cbn [length]; lia].
    - apply Z.ltb_ge in E. rewrite (itoa_z_nonneg _ Bh).
      (* two digits at least: the value is >= 10 *)
      destruct (itoa (Z.to_N (f_h t))) as [|c [|c2 r]] eqn:E2; cbn [length]; try lia.
      + exfalso. exact (itoa_nonnil _ E2).
      + exfalso. pose proof (atoi_digits_itoa (Z.to_N (f_h t))) as A. rewrite E2 in A. unfold atoi_digits in A. cbn [str_to_uint] in A.
        unfold digit_cons in A.
        repeat (match type of A with context [if ?b then _ else _] => destruct b end; [cbn in A; inversion A; lia|]). discriminate. }
  split; [apply two_digits; lia|]. split; [apply two_length_100; lia|]. split; [exact Bm|].
  split; [apply two_digits; lia|]. split; [apply two_length_100; lia|]. split; [exact Bs|].
  split; [apply frac_digits; lia | apply frac_length; assumption].
Qed.

(* reader . writer = truncation to the format's unit *)
Theorem parse_format sep k t : sep_ok sep -> (1 <= k <= 3)%nat -> 0 <= t <= max_int64 ->
  parse_duration (format_duration t [sep] k) sep 3 = Some (t - t mod frac_div k).
Proof.
  intros Hsep Hk [Ht Hmax].
  destruct (format_grammar sep k t Hk Ht) as (E & Dh & _ & Dm & _ & Bm & Ds & _ & Bs & Df & Lf).
  destruct (fields_bounds k t Hk Ht) as (Bh & _ & _ & Bf & Hsum).
  rewrite E. unfold parse_duration.
  set (HMS := two (f_h t) ++ [colon] ++ two (f_m t) ++ [colon] ++ two (f_s t)).
  set (F := pad_left 48%N k (itoa_z (f_fr k t))).
  assert (Esplit : split_byte sep (two (f_h t) ++ [colon] ++ two (f_m t) ++ [colon] ++ two (f_s t) ++ [sep] ++ F) = [HMS; F]).
  { replace (two (f_h t) ++ [colon] ++ two (f_m t) ++ [colon] ++ two (f_s t) ++ [sep] ++ F) with (HMS ++ sep :: F)
      by (unfold HMS; rewrite <- !app_assoc; reflexivity).
    rewrite split_byte_app by (apply hms_no_sep; assumption).
    rewrite split_byte_none by (apply digits_not_in; [exact Df | apply Hsep]). reflexivity. }
  rewrite Esplit. cbn [rev app].
  assert (HneF : F <> []). { intros EF. unfold F in Lf. fold F in Lf. rewrite EF in Lf. cbn in Lf. lia. }
  rewrite (digits_trim F Df HneF). fold F in Lf. rewrite Lf.
  destruct (Nat.ltb 3 k) eqn:E3; [apply Nat.ltb_lt in E3; lia|].
  rewrite (atoi_no_sign F Df HneF). unfold F at 1. rewrite (proj2 (frac_digits k (f_fr k t) (proj1 Bf))).
  rewrite Z2N.id by lia.
  assert (Hfr_small : f_fr k t < 1000). { assert (10 ^ Z.of_nat k <= 1000) by (assert (k = 1 \/ k = 2 \/ k = 3)%nat as [-> | [-> | ->] ] by lia; cbn; lia). lia. }
  destruct ((f_fr k t <? - max_int64 - 1) || (max_int64 <? f_fr k t)) eqn:B.
  { apply orb_true_iff in B. unfold max_int64 in *. destruct B as [B|B]; apply Z.ltb_lt in B; lia. }
  cbn [join].
  assert (Hh : f_h t <= max_int64). { unfold f_h, hour_ns. assert (t / 3600000000000 <= t) by (apply Z.div_le_upper_bound; lia). lia. }
  unfold HMS. rewrite parse_hms_spec by (unfold max_int64 in *; lia).
  f_equal. rewrite <- Hsum. unfold pow10_int, ms_ns, frac_div.
  assert (k = 1 \/ k = 2 \/ k = 3)%nat as [-> | [-> | ->] ] by lia; cbn; lia.
Qed.

(* a second write is identical to the first *)
Lemma trunc_fields k t : (1 <= k <= 3)%nat -> 0 <= t ->
  let t' := t - t mod frac_div k in
  0 <= t' /\ f_h t' = f_h t /\ f_m t' = f_m t /\ f_s t' = f_s t /\ f_fr k t' = f_fr k t.
Proof.
  intros Hk Ht. cbn zeta. unfold f_h, f_m, f_s, f_fr, hour_ns, minute_ns, second_ns, frac_div.
  assert (k = 1 \/ k = 2 \/ k = 3)%nat as [-> | [-> | ->] ] by lia; cbn; lia.
Qed.

Theorem format_canonical sep k t : (1 <= k <= 3)%nat -> 0 <= t ->
  format_duration (t - t mod frac_div k) [sep] k = format_duration t [sep] k.
Proof.
  intros Hk Ht. destruct (trunc_fields k t Hk Ht) as (H0 & Eh & Em & Es & Ef).
  rewrite (format_duration_fields _ _ _ H0), (format_duration_fields _ _ _ Ht), Eh, Em, Es, Ef. reflexivity.
Qed.

(* later instants never render as earlier timestamps (value = what the reader returns) *)
Theorem format_monotone k t t' : (1 <= k <= 3)%nat -> 0 <= t <= t' ->
  t - t mod frac_div k <= t' - t' mod frac_div k.
Proof.
  intros Hk Ht. unfold frac_div. assert (k = 1 \/ k = 2 \/ k = 3)%nat as [-> | [-> | ->] ] by lia; cbn; lia.
Qed.

Theorem trunc_latest k t : (1 <= k <= 3)%nat -> 0 <= t ->
  let u := frac_div k in (t - t mod u) mod u = 0 /\ t - t mod u <= t < t - t mod u + u.
Proof.
  intros Hk Ht. cbn zeta. unfold frac_div. assert (k = 1 \/ k = 2 \/ k = 3)%nat as [-> | [-> | ->] ] by lia; cbn; lia.
Qed.

(* ---- STL ---- *)
Definition day_ns : Z := 24 * hour_ns.

Lemma stl_fields_spec t fps : 0 <= t -> 0 < fps ->
  stl_fields t fps = (f_h t, f_m t, f_s t, ((t mod second_ns) * fps) / second_ns).
Proof.
  intros Ht Hf. unfold stl_fields, f_h, f_m, f_s, hour_ns, minute_ns, second_ns.
  rewrite (Z.quot_div_nonneg t) by lia.
  assert (E1 : t - t / 3600000000000 * 3600000000000 = t mod 3600000000000) by lia. rewrite E1.
  rewrite (Z.quot_div_nonneg (t mod 3600000000000)) by lia.
  assert (E2 : t mod 3600000000000 - t mod 3600000000000 / 60000000000 * 60000000000 = t mod 60000000000) by lia. rewrite E2.
  rewrite (Z.quot_div_nonneg (t mod 60000000000)) by lia.
  assert (E3 : t mod 60000000000 - t mod 60000000000 / 1000000000 * 1000000000 = t mod 1000000000) by lia. rewrite E3.
  rewrite Z.quot_div_nonneg by nia. reflexivity.
Qed.

Lemma sub2_parts a b c d : length a = 2%nat -> length b = 2%nat -> length c = 2%nat -> length d = 2%nat ->
  sub2 (a ++ b ++ c ++ d) 0 = a /\ sub2 (a ++ b ++ c ++ d) 2 = b /\ sub2 (a ++ b ++ c ++ d) 4 = c /\ sub2 (a ++ b ++ c ++ d) 6 = d.
Proof.
  intros La Lb Lc Ld.
  destruct a as [|a1 [|a2 [|]]]; try discriminate. destruct b as [|b1 [|b2 [|]]]; try discriminate.
  destruct c as [|c1 [|c2 [|]]]; try discriminate. destruct d as [|d1 [|d2 [|]]]; try discriminate.
  repeat split.
Qed.

Lemma atoi_two' v : 0 <= v <= max_int64 -> atoi (two v) = Some v.
Proof.
  intros H. destruct (two_digits v (proj1 H)) as [Hd Hne]. rewrite <- (digits_trim _ Hd Hne). apply atoi_two. exact H.
Qed.

(* the frame rendered is the latest frame instant not after t; the reader returns that instant to
   within one nanosecond; writing it again gives the same timecode *)
Theorem stl_roundtrip t fps : 0 <= t < day_ns -> 0 < fps < 100 ->
  let F := ((t mod second_ns) * fps) / second_ns in
  let exact_times_fps := (f_h t * hour_ns + f_m t * minute_ns + f_s t * second_ns) * fps + F * second_ns in
  0 <= F < fps /\
  exists v, parse_stl (format_stl t fps) fps = Some v /\
    exact_times_fps <= v * fps < exact_times_fps + fps /\   (* |v - exact| < 1 ns *)
    v <= t + 1 /\ format_stl v fps = format_stl t fps.
Proof.
  intros Ht Hf. cbn zeta. unfold day_ns, hour_ns in Ht.
  set (F := ((t mod second_ns) * fps) / second_ns).
  assert (BF : 0 <= F < fps). { unfold F, second_ns. split; [apply Z.div_pos; nia | apply Z.div_lt_upper_bound; nia]. }
  split; [exact BF|].
  assert (Bh : 0 <= f_h t < 100) by (unfold f_h, hour_ns; lia).
  assert (Bm : 0 <= f_m t < 60) by (unfold f_m, hour_ns, minute_ns; lia).
  assert (Bs : 0 <= f_s t < 60) by (unfold f_s, minute_ns, second_ns; lia).
  unfold format_stl at 1. rewrite (stl_fields_spec t fps) by lia. fold F.
  destruct (sub2_parts (two (f_h t)) (two (f_m t)) (two (f_s t)) (two F)) as (S0 & S2 & S4 & S6);
    try (apply two_length_100; lia).
  unfold parse_stl. rewrite S0, S2, S4, S6.
  rewrite !atoi_two' by (unfold max_int64; lia).
  eexists. split; [reflexivity|].
  set (v := f_h t * hour_ns + f_m t * minute_ns + f_s t * second_ns + frames_ns F fps).
  assert (Hfr : F * second_ns <= frames_ns F fps * fps < F * second_ns + fps /\ 0 <= frames_ns F fps).
  { unfold frames_ns, second_ns. rewrite Z.quot_div_nonneg by nia. split; [|apply Z.div_pos; nia].
    pose proof (Z.div_mod (1000000000 * F + fps - 1) fps ltac:(lia)) as DM.
    pose proof (Z.mod_pos_bound (1000000000 * F + fps - 1) fps ltac:(lia)) as MB. nia. }
  destruct Hfr as [Hfr Hfr0].
  split; [unfold v; nia|].
  assert (Hsum : f_h t * hour_ns + f_m t * minute_ns + f_s t * second_ns = t - t mod second_ns).
  { unfold f_h, f_m, f_s, hour_ns, minute_ns, second_ns. lia. }
  assert (Hfl : F * second_ns <= (t mod second_ns) * fps).
  { unfold F, second_ns. pose proof (Z.mul_div_le ((t mod 1000000000) * fps) 1000000000 ltac:(lia)). lia. }
  assert (Hfrle : frames_ns F fps <= t mod second_ns + 1 /\ frames_ns F fps < second_ns).
  { unfold second_ns in *. split.
    - assert ((frames_ns F fps - 1) * fps < (t mod 1000000000) * fps) by nia. nia.
    - assert (F * 1000000000 + fps <= 1000000000 * fps) by nia. nia. }
  split; [unfold v; rewrite Hsum; lia|].
  (* same fields *)
  assert (Hv0 : 0 <= v). { unfold v. rewrite Hsum. unfold second_ns in *. lia. }
  unfold format_stl. rewrite (stl_fields_spec v fps) by lia. rewrite (stl_fields_spec t fps) by lia.
  assert (Hvs : v = (t - t mod second_ns) + frames_ns F fps) by (unfold v; rewrite Hsum; reflexivity).
  assert (Evm : v mod second_ns = frames_ns F fps /\ f_h v = f_h t /\ f_m v = f_m t /\ f_s v = f_s t).
  { unfold f_h, f_m, f_s, hour_ns, minute_ns, second_ns in *. rewrite Hvs. destruct Hfrle as [_ Hlt]. lia. }
  destruct Evm as (Em & Eh & Emi & Es). rewrite Em, Eh, Emi, Es.
  assert (EF : frames_ns F fps * fps / second_ns = F).
  { unfold second_ns in *. symmetry. apply Z.div_unique with (r := frames_ns F fps * fps - F * 1000000000); lia. }
  rewrite EF. reflexivity.
Qed.
