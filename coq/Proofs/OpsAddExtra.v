(* Sync (C09), additions: the round trip "d, then -d" cue by cue inside ANY list (removed, clamped,
   restored and zero-length cues side by side). *)
From Coq Require Import List ZArith NArith Bool Lia.
From Astisub Require Import Kit.Base Model.Ops Proofs.AddProofs.
Import ListNotations.
Open Scope Z_scope.

Lemma add_dur_app d l1 l2 : add_dur d (l1 ++ l2) = add_dur d l1 ++ add_dur d l2.
Proof.
  induction l1 as [|x r IH]; cbn [add_dur app]; [reflexivity|].
  destruct (shift1 d x); rewrite IH; reflexivity.
Qed.

(* what ONE cue becomes after the shift by d followed by the shift by -d:
   gone when the first shift removes it ([en x + d <= 0]) or the second does ([en x <= 0]: only a cue that
   ends at or before 0 to begin with); otherwise the end is back and the start is the clamped start moved back,
   clamped again *)
Definition round_start (d s : Z) : Z := Z.max 0 (Z.max 0 (s + d) - d).
Definition round_alive (d : Z) (x : item) : bool := (0 <? en x + d) && (0 <? en x).
Definition round1 (d : Z) (x : item) : option item :=
  if round_alive d x then Some (set_st x (round_start d (st x))) else None.

Lemma shift1_round d x : wf_item x ->
  match shift1 d x with Some x' => shift1 (- d) x' | None => None end = round1 d x.
Proof.
  intros Hx. rewrite (shift1_spec d x Hx). unfold round1, round_alive, alive.
  destruct (0 <? en x + d) eqn:E1; cbn [andb]; [|reflexivity].
  apply Z.ltb_lt in E1. unfold wf_item in Hx.
  set (x' := set_st (set_en x (en x + d)) (Z.max 0 (st x + d))).
  assert (Hx' : wf_item x') by (unfold wf_item, x'; cbn [st en set_st set_en]; lia).
  rewrite (shift1_spec (- d) x' Hx'). unfold alive, x'. cbn [st en set_st set_en].
  replace (en x + d + - d) with (en x) by lia.
  destruct (0 <? en x); [|reflexivity].
  unfold round_start. replace (Z.max 0 (st x + d) + - d) with (Z.max 0 (st x + d) - d) by lia.
  destruct x as [u s e ls rg sy il]. reflexivity.
Qed.

(* the closed form of the round trip, for every list of cues with start <= end *)
Theorem add_round_closed d l : Forall wf_item l ->
  add_dur (- d) (add_dur d l) = filter_map (round1 d) l.
Proof.
  induction l as [|x r IH]; intros H; [reflexivity|].
  inversion H as [|? ? Hx Hr]; subst. cbn [add_dur filter_map].
  rewrite <- (shift1_round d x Hx).
  destruct (shift1 d x) as [x'|]; [|exact (IH Hr)].
  cbn [add_dur]. destruct (shift1 (- d) x'); rewrite (IH Hr); reflexivity.
Qed.

Lemma filter_map_map_filter {A B} (p : A -> bool) (g : A -> B) l :
  filter_map (fun x => if p x then Some (g x) else None) l = map g (filter p l).
Proof.
  induction l as [|x r IH]; cbn [filter_map filter map]; [reflexivity|].
  destruct (p x); cbn [map]; rewrite IH; reflexivity.
Qed.

(* which cues survive the round trip, in which order, and what their times are *)
Theorem add_round_survivors d l : Forall wf_item l ->
  add_dur (- d) (add_dur d l) = map (fun x => set_st x (round_start d (st x))) (filter (round_alive d) l).
Proof.
  intros H. rewrite (add_round_closed d l H). unfold round1.
  apply (filter_map_map_filter (round_alive d) (fun x => set_st x (round_start d (st x)))).
Qed.

(* "neither clamped nor removed" (and a legal cue: 0 <= start <= end, 0 < end) *)
Definition restorable0 (d : Z) (x : item) : Prop :=
  0 <= st x /\ st x <= en x /\ 0 < en x /\ 0 <= st x + d /\ 0 < en x + d.

Lemma restorable_restorable0 d x : restorable d x -> restorable0 d x.
Proof. unfold restorable, restorable0. lia. Qed.

Lemma set_st_same x v : v = st x -> set_st x v = x.
Proof. intros ->. destruct x; reflexivity. Qed.

Lemma set_st_inj x v : set_st x v = x -> v = st x.
Proof. intros H. apply (f_equal st) in H. exact H. Qed.

(* exactly the cues that were neither clamped nor removed come back as they were *)
Theorem round1_restores_iff d x : wf_item x -> (round1 d x = Some x <-> restorable0 d x).
Proof.
  unfold wf_item, round1, round_alive, restorable0, round_start. intros Hx.
  destruct (0 <? en x + d) eqn:E1; destruct (0 <? en x) eqn:E2; cbn [andb];
    try (apply Z.ltb_lt in E1); try (apply Z.ltb_ge in E1); try (apply Z.ltb_lt in E2); try (apply Z.ltb_ge in E2).
  - split.
    + intros H. assert (H' : set_st x (Z.max 0 (Z.max 0 (st x + d) - d)) = x) by congruence. apply set_st_inj in H'. lia.
    + intros H. f_equal. apply set_st_same. lia.
  - split; [discriminate | lia].
  - split; [discriminate | lia].
  - split; [discriminate | lia].
Qed.

(* the others: removed by the first shift; removed by the second; or clamped, and then the start does NOT come back *)
Lemma round1_removed d x : en x + d <= 0 -> round1 d x = None.
Proof.
  intros H. unfold round1, round_alive. destruct (0 <? en x + d) eqn:E; [apply Z.ltb_lt in E; lia | reflexivity].
Qed.
Lemma round1_dead d x : en x <= 0 -> round1 d x = None.
Proof.
  intros H. unfold round1, round_alive. destruct (0 <? en x) eqn:E; [apply Z.ltb_lt in E; lia | rewrite andb_false_r; reflexivity].
Qed.
Lemma round1_clamped d x : 0 <= st x -> st x + d < 0 -> 0 < en x + d -> 0 < en x ->
  round1 d x = Some (set_st x (- d)) /\ st x < - d.
Proof.
  intros H0 H1 H2 H3. unfold round1, round_alive, round_start.
  destruct (0 <? en x + d) eqn:E1; [|apply Z.ltb_ge in E1; lia].
  destruct (0 <? en x) eqn:E2; [|apply Z.ltb_ge in E2; lia]. cbn [andb].
  split; [|lia]. f_equal. f_equal. lia.
Qed.

(* inside a mixed list: a cue that was neither clamped nor removed is restored IN PLACE, whatever happens to its
   neighbours (which are processed independently) *)
Theorem add_round_in_place d l1 x l2 : Forall wf_item (l1 ++ x :: l2) -> restorable0 d x ->
  add_dur (- d) (add_dur d (l1 ++ x :: l2)) =
  add_dur (- d) (add_dur d l1) ++ x :: add_dur (- d) (add_dur d l2).
Proof.
  intros H Hr. apply Forall_app in H. destruct H as [H1 H2]. inversion H2 as [|? ? Hx H2']; subst.
  rewrite !add_dur_app. change (x :: l2) with ([x] ++ l2). rewrite !add_dur_app.
  f_equal. f_equal.
  assert (E : add_dur (- d) (add_dur d [x]) = filter_map (round1 d) [x]).
  { apply add_round_closed. constructor; [exact Hx | constructor]. }
  rewrite E. cbn [filter_map]. rewrite (proj2 (round1_restores_iff d x Hx) Hr). reflexivity.
Qed.

(* per cue, in list order: identity, content and end untouched; the start is [round_start]; and it is the very same
   cue whenever it was neither clamped nor removed *)
Theorem add_round_pointwise d l : Forall wf_item l ->
  Forall2 (fun x y => en y = en x /\ st y = round_start d (st x) /\ same_payload x y /\ (restorable0 d x -> y = x))
          (filter (round_alive d) l) (add_dur (- d) (add_dur d l)).
Proof.
  intros H. rewrite (add_round_survivors d l H).
  assert (Hw : Forall wf_item (filter (round_alive d) l)).
  { rewrite Forall_forall in *. intros z Hz. apply filter_In in Hz. apply H. tauto. }
  induction (filter (round_alive d) l) as [|x r IH]; cbn [map]; constructor.
  - inversion Hw as [|? ? Hx Hr]; subst. cbn [st en set_st]. split; [reflexivity|]. split; [reflexivity|].
    split; [unfold same_payload; cbn; repeat split; reflexivity|].
    intros Hres. apply set_st_same. unfold restorable0, round_start in *. lia.
  - apply IH. inversion Hw; assumption.
Qed.

(* the whole list comes back when every cue is neither clamped nor removed (0 <= st + d suffices) *)
Theorem add_back0 d l : Forall (restorable0 d) l -> add_dur (- d) (add_dur d l) = l.
Proof.
  intros H.
  assert (Hw : Forall wf_item l).
  { rewrite Forall_forall in *. intros z Hz. specialize (H z Hz). unfold restorable0, wf_item in *. lia. }
  rewrite (add_round_closed d l Hw). induction l as [|x r IH]; [reflexivity|].
  inversion H as [|? ? Hx Hr]; subst. inversion Hw as [|? ? Hwx Hwr]; subst.
  cbn [filter_map]. rewrite (proj2 (round1_restores_iff d x Hwx) Hx). f_equal. apply IH; assumption.
Qed.

(* ---- zero-length cues (start = end) ---- *)
(* one shift: removed iff the common instant would be at or before 0, otherwise moved by exactly d, never clamped *)
Lemma shift1_zero_length d x : st x = en x ->
  shift1 d x = if 0 <? st x + d then Some (set_st (set_en x (en x + d)) (st x + d)) else None.
Proof.
  intros E. assert (Hx : wf_item x) by (unfold wf_item; lia).
  rewrite (shift1_spec d x Hx). unfold alive. rewrite <- E.
  destruct (0 <? st x + d) eqn:C; [|reflexivity]. apply Z.ltb_lt in C.
  f_equal. f_equal. lia.
Qed.

(* round trip: a zero-length cue is either restored exactly or dropped - never altered *)
Lemma round1_zero_length d x : st x = en x ->
  round1 d x = if (0 <? st x + d) && (0 <? st x) then Some x else None.
Proof.
  intros E. unfold round1, round_alive, round_start. rewrite <- E.
  destruct (0 <? st x + d) eqn:C1; destruct (0 <? st x) eqn:C2; cbn [andb]; try reflexivity.
  apply Z.ltb_lt in C1. apply Z.ltb_lt in C2. f_equal. apply set_st_same. lia.
Qed.

(* in particular the zero-length cue at instant 0 never survives a round trip, even for d > 0 *)
Lemma round1_zero_at_zero d x : st x = 0 -> en x = 0 -> round1 d x = None.
Proof. intros _ E. apply round1_dead. lia. Qed.

(* ---- non-vacuity: text content, removed / clamped / restored / zero-length cues in one unordered list ---- *)
Definition ex_cue (u : N) (s e : Z) (t : N) : item := mkItem u s e [mkLine [mkRun [t] None false] []] None None false.
Definition ex_mixed : list item :=
  [ex_cue 1 5 9 65; ex_cue 2 0 3 66; ex_cue 3 1 4 67; ex_cue 4 3 3 68; ex_cue 5 4 4 69; ex_cue 6 0 0 70; ex_cue 7 3 8 71].

Example ex_mixed_wf : Forall wf_item ex_mixed.
Proof. unfold ex_mixed, ex_cue, wf_item. repeat constructor; cbn [st en]; lia. Qed.

(* d = -3: cue 2 ends at 0 (removed), cue 3 is clamped (comes back as [3,4)), cue 4 is a zero-length cue landing on 0
   (removed), cue 5 a zero-length cue that survives, cue 6 is dead from the start, cue 7 lands exactly on 0 (not clamped) *)
Example ex_mixed_round :
  map (fun x => (uid x, st x, en x, item_text x)) (add_dur (- (-3)) (add_dur (-3) ex_mixed)) =
  [(1%N, 5, 9, [65%N]); (3%N, 3, 4, [67%N]); (5%N, 4, 4, [69%N]); (7%N, 3, 8, [71%N])].
Proof. reflexivity. Qed.

Example ex_mixed_restorable : restorable0 (-3) (ex_cue 1 5 9 65) /\ restorable0 (-3) (ex_cue 7 3 8 71) /\
  ~ restorable0 (-3) (ex_cue 3 1 4 67) /\ ~ restorable (-3) (ex_cue 7 3 8 71).
Proof. unfold restorable0, restorable, ex_cue; cbn [st en]. repeat split; lia. Qed.

(* cue 7 restored in place between removed and clamped neighbours *)
Example ex_mixed_in_place :
  add_dur 3 (add_dur (-3) ex_mixed) =
  add_dur 3 (add_dur (-3) [ex_cue 1 5 9 65; ex_cue 2 0 3 66; ex_cue 3 1 4 67; ex_cue 4 3 3 68; ex_cue 5 4 4 69; ex_cue 6 0 0 70])
  ++ ex_cue 7 3 8 71 :: add_dur 3 (add_dur (-3) []).
Proof.
  apply (add_round_in_place (-3) [ex_cue 1 5 9 65; ex_cue 2 0 3 66; ex_cue 3 1 4 67; ex_cue 4 3 3 68; ex_cue 5 4 4 69; ex_cue 6 0 0 70]
           (ex_cue 7 3 8 71) []).
  - exact ex_mixed_wf.
  - apply ex_mixed_restorable.
Qed.
