From Coq Require Import List NArith Bool.
From Astisub Require Import Kit.Base Kit.Str Model.Files.
Import ListNotations.
Open Scope N_scope.

Lemma to_lower_idem s : to_lower (to_lower s) = to_lower s.
Proof.
  unfold to_lower. rewrite map_map. apply map_ext. intros c. unfold to_lower_byte.
  destruct ((65 <=? c) && (c <=? 90)) eqn:E; [|rewrite E; reflexivity].
  apply andb_true_iff in E. destruct E as [E1 E2]. apply N.leb_le in E1. apply N.leb_le in E2.
  assert (H : ((65 <=? c + 32) && (c + 32 <=? 90)) = false).
  { apply andb_false_iff. right. apply N.leb_gt. apply N.lt_le_trans with (m := 65 + 32); [reflexivity|]. apply N.add_le_mono_r. exact E1. }
  rewrite H. reflexivity.
Qed.

(* the dispatch does not depend on the case of the file name *)
Theorem dispatch_case_insensitive name : reader_for (to_lower name) = reader_for name /\ writer_for (to_lower name) = writer_for name.
Proof. unfold reader_for, writer_for. rewrite to_lower_idem. split; reflexivity. Qed.

(* an extension outside the supported set yields the invalid-extension error; .ts is read-only *)
Theorem unsupported_extension name : fmt_of_ext (ext_of (to_lower name)) = None ->
  reader_for name = Err EInvalidExt /\ writer_for name = Err EInvalidExt.
Proof. intros H. unfold reader_for, writer_for. rewrite H. split; reflexivity. Qed.
Theorem ts_read_only name : fmt_of_ext (ext_of (to_lower name)) = Some FTs ->
  reader_for name = Ok FTs /\ writer_for name = Err EInvalidExt.
Proof. intros H. unfold reader_for, writer_for. rewrite H. split; reflexivity. Qed.
Theorem writer_total name : (exists f, writer_for name = Ok f /\ f <> FTs) \/ writer_for name = Err EInvalidExt.
Proof.
  unfold writer_for. destruct (fmt_of_ext _) as [[]|]; try (right; reflexivity); left; eexists; (split; [reflexivity | discriminate]).
Qed.
