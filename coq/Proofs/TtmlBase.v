(* C03: basic facts about the TTML model: totality of reader and writer, map helpers. *)
From Coq Require Import List ZArith NArith Bool Lia.
From Astisub Require Import Kit.Base Kit.Str Kit.Float64 Kit.Float64x Kit.Xml Kit.SortOrd Model.Dur Model.Ttml.
Import ListNotations.
Open Scope N_scope.

Definition no_panic {A} (r : res A) : Prop := forall s, r <> Panic s.

Lemma map_res_no_panic {A B} (f : A -> res B) l : (forall a, no_panic (f a)) -> no_panic (map_res f l).
Proof.
  intros Hf. induction l as [|a r IH]; cbn [map_res]; intros s; [discriminate|].
  destruct (f a) as [b|k|s'] eqn:E; cbn [bind]; [|discriminate|exfalso; exact (Hf a s' E)].
  destruct (map_res f r) as [bs|k|s'] eqn:E2; cbn [bind]; [discriminate|discriminate|exfalso; exact (IH s' eq_refl)].
Qed.

Lemma read_header_no_panic n : no_panic (read_header n).
Proof. intros s. unfold read_header. destruct (tt_read_attrs _); discriminate. Qed.

Lemma read_p_no_panic st rg fr tr p : no_panic (read_p st rg fr tr p).
Proof.
  intros s. unfold read_p.
  destruct (dur_attr s_begin _) as [[b|]|]; try discriminate.
  destruct (dur_attr s_end _) as [[e|]|]; try discriminate.
  destruct (tt_read_attrs _); try discriminate.
  destruct (negb _); try discriminate. destruct (negb _); try discriminate.
  destruct (items_of _); try discriminate. destruct (forallb _ _); discriminate.
Qed.

(* ReadFromTTML never panics (on the tree abstraction), whatever the document *)
Theorem read_ttml_total root : no_panic (read_ttml root).
Proof.
  intros s. destruct root as [t|nm a kids]; cbn [read_ttml]; [discriminate|].
  destruct (negb _); [discriminate|].
  destruct (int_attr s_frameRate a); [|discriminate]. destruct (int_attr s_tickRate a); [|discriminate].
  destruct (map_res read_header (path_elems [s_head; s_layout; s_region] kids)) as [rgs|k|s'] eqn:E1; cbn [bind];
    [|discriminate|exfalso; exact (map_res_no_panic _ _ read_header_no_panic s' E1)].
  destruct (map_res read_header (path_elems [s_head; s_styling; s_style] kids)) as [sts|k|s'] eqn:E2; cbn [bind];
    [|discriminate|exfalso; exact (map_res_no_panic _ _ read_header_no_panic s' E2)].
  destruct (negb _); [discriminate|]. destruct (negb _); [discriminate|].
  match goal with |- context [map_res ?f ?l] => destruct (map_res f l) as [its|k|s'] eqn:E3 end; cbn [bind];
    [discriminate|discriminate|].
  exfalso. eapply map_res_no_panic; [|exact E3]. intros p. apply read_p_no_panic.
Qed.

(* WriteToTTML never panics; it refuses exactly the empty list *)
Theorem write_ttml_total d : no_panic (write_ttml d).
Proof. intros s. unfold write_ttml. destruct (td_items d); discriminate. Qed.
Theorem write_ttml_empty d : td_items d = [] <-> write_ttml d = Err ENothingToWrite.
Proof. unfold write_ttml. destruct (td_items d); split; intros H; try reflexivity; discriminate. Qed.
