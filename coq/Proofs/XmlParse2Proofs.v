(* The byte-level XML parser of Kit/XmlParse2.v inverts a printer with syntactic freedoms ([print2]: quote
   style per attribute, self-closing tags, white space inside tags, any prolog of white space, comments and
   processing instructions) on every tree of the class [wf2_root] (mixed content included): [parse2_print2].
   Route: entity decoding inverts escaping ([unesc2_esc2]); a printed start tag is read back
   ([read_attrs2_printed], [start_tag2_printed]); one element, given its content ([p_elem]); tree induction
   under a name-space environment [env_ok2] ([parse_node2], [pk2_kids]); the prolog ([skip_misc_prolog]);
   the root element, whose own xmlns attributes set up the environment ([parse2_print2_good]). *)
From Coq Require Import List ZArith NArith Bool Lia ZifyBool ZifyN ZifyNat.
From Coq Require String Ascii.
From Astisub Require Import Kit.Base Kit.Str Kit.Xml Kit.XmlParse Kit.XmlParse2 Model.Ttml
  Proofs.TtmlDocSpec Proofs.XmlParseProofs.
Import ListNotations.
Open Scope N_scope.

(* ================= the printer ================= *)
(* per-node printing choices *)
Record pchoice := {
  pc_single : xattr -> bool;      (* this attribute's value in single quotes *)
  pc_selfclose : xname -> bool;   (* an element of this name without children printed as <a/> *)
  pc_gap : xname -> str;          (* white space (at least one byte) before an attribute of this name *)
  pc_eq1 : xname -> str;          (* white space between the attribute name and = *)
  pc_eq2 : xname -> str;          (* white space between = and the opening quote *)
  pc_pre : xname -> str;          (* white space before > or /> of the start tag of an element of this name *)
  pc_end : xname -> str           (* white space before > of its end tag *)
}.

(* escaping: & < > always; inside a quoted value also the quote in use *)
Definition esc2_byte (m : option byte) (c : byte) : str :=
  if c =? 38 then [38;97;109;112;59]          (* &amp; *)
  else if c =? 60 then [38;108;116;59]        (* &lt; *)
  else if c =? 62 then [38;103;116;59]        (* &gt; *)
  else match m with
       | Some q => if c =? q then (if q =? 34 then [38;113;117;111;116;59] else [38;97;112;111;115;59]) else [c]
       | None => [c]
       end.
Definition esc2 (m : option byte) (s : str) : str := flat_map (esc2_byte m) s.

Definition quote_of (pc : pchoice) (a : xattr) : byte := if pc_single pc a then 39 else 34.
Definition print_attr2 (pname : xname -> str) (pc : pchoice) (a : xattr) : str :=
  pc_gap pc (fst a) ++ pname (fst a) ++ pc_eq1 pc (fst a) ++ [61] ++ pc_eq2 pc (fst a)
  ++ [quote_of pc a] ++ esc2 (Some (quote_of pc a)) (snd a) ++ [quote_of pc a].
Definition close_of (sc : bool) : str := if sc then [47; 62] else [62].
Definition end_tag2 (pname : xname -> str) (pc : pchoice) (nm : xname) : str :=
  [60; 47] ++ pname nm ++ pc_end pc nm ++ [62].
Fixpoint print2 (pname : xname -> str) (pc : pchoice) (n : xnode) : str :=
  match n with
  | XText s => esc2 None s
  | XElem nm al ks =>
    [60] ++ pname nm ++ flat_map (print_attr2 pname pc) al ++ pc_pre pc nm
    ++ (if xp_null ks && pc_selfclose pc nm then close_of true
        else close_of false ++ flat_map (print2 pname pc) ks ++ end_tag2 pname pc nm)
  end.

(* ================= white space ================= *)
Definition ws_str (w : str) : bool := forallb is_ws2 w.
Lemma skip_ws_app w r : ws_str w = true -> starts_ws r = false -> skip_ws (w ++ r) = r.
Proof.
  intros Hw Hr. induction w as [|c w IH].
  - cbn [app]. destruct r as [|c r]; [reflexivity|]. cbn [starts_ws] in Hr. cbn [skip_ws]. rewrite Hr. reflexivity.
  - unfold ws_str in Hw. cbn [forallb] in Hw. apply andb_true_iff in Hw. destruct Hw as [Hc Hw].
    cbn [app skip_ws]. rewrite Hc. exact (IH Hw).
Qed.

(* ================= entity decoding ================= *)
Definition mode_ok (m : option byte) : Prop := m = None \/ m = Some 34 \/ m = Some 39.
Definition no13 (s : str) : bool := forallb (fun c => negb (c =? 13)) s.

Lemma unesc2_esc_byte m c tail b0 b1 : mode_ok m -> (c =? 13) = false ->
  exists b0' b1', unesc2_aux m 0 b0 b1 (esc2_byte m c ++ tail) = cons_res c (unesc2_aux m 0 b0' b1' tail).
Proof.
  intros Hm H13. unfold esc2_byte.
  destruct (c =? 38) eqn:E38.
  { apply N.eqb_eq in E38. subst c. exists false, false. destruct Hm as [->|[->| ->]]; reflexivity. }
  destruct (c =? 60) eqn:E60.
  { apply N.eqb_eq in E60. subst c. exists false, false. destruct Hm as [->|[->| ->]]; reflexivity. }
  destruct (c =? 62) eqn:E62.
  { apply N.eqb_eq in E62. subst c. exists false, false. destruct Hm as [->|[->| ->]]; reflexivity. }
  assert (Hplain : forall m', match m' with None => c =? 60 | Some q => c =? q end = false ->
            unesc2_aux m' 0 b0 b1 ([c] ++ tail) = cons_res c (unesc2_aux m' 0 b1 (c =? 93) tail)).
  { intros m' Hs. cbn [app unesc2_aux]. rewrite H13, Hs, E60, E38, E62, andb_false_r. reflexivity. }
  destruct Hm as [->|[->| ->]].
  - exists b1, (c =? 93). apply Hplain. exact E60.
  - destruct (c =? 34) eqn:E34.
    + apply N.eqb_eq in E34. subst c. exists false, false. reflexivity.
    + exists b1, (c =? 93). apply Hplain. exact E34.
  - destruct (c =? 39) eqn:E39.
    + apply N.eqb_eq in E39. subst c. exists false, false. reflexivity.
    + exists b1, (c =? 93). apply Hplain. exact E39.
Qed.

(* the stop byte that follows a run: '<' after character data, the quote in use after a value *)
Definition stop_hd (m : option byte) (rest : str) : Prop :=
  match rest with c :: _ => match m with None => c = 60 | Some q => c = q end | [] => True end.

Lemma unesc2_aux_esc2 m s rest : mode_ok m -> no13 s = true -> stop_hd m rest ->
  forall b0 b1, unesc2_aux m 0 b0 b1 (esc2 m s ++ rest) = Some (s, rest).
Proof.
  intros Hm Hs Hr. induction s as [|c s IH]; intros b0 b1.
  - cbn [esc2 flat_map app]. destruct rest as [|c r]; [reflexivity|]. cbn [stop_hd] in Hr. cbn [unesc2_aux].
    destruct Hm as [->|[->| ->]]; subst c; reflexivity.
  - unfold no13 in Hs. cbn [forallb] in Hs. apply andb_true_iff in Hs. destruct Hs as [Hc Hs]. apply negb_true_iff in Hc.
    unfold esc2. cbn [flat_map]. rewrite <- app_assoc.
    destruct (unesc2_esc_byte m c (flat_map (esc2_byte m) s ++ rest) b0 b1 Hm Hc) as (b0' & b1' & E). rewrite E.
    unfold esc2 in IH. rewrite (IH Hs b0' b1'). reflexivity.
Qed.

(* escaping is inverted by the entity decoder: character data up to the next '<' (or the end of the input),
   attribute values (either quote style) up to the closing quote *)
Theorem unesc2_esc2 : forall m s rest, mode_ok m -> no13 s = true -> stop_hd m rest ->
  unesc2 m (esc2 m s ++ rest) = Some (s, rest).
Proof. intros m s rest Hm Hs Hr. unfold unesc2. apply unesc2_aux_esc2; assumption. Qed.
Corollary unesc2_esc2_text s rest : no13 s = true -> (match rest with c :: _ => c = 60 | [] => True end) ->
  unesc2 None (esc2 None s ++ rest) = Some (s, rest).
Proof. intros Hs Hr. apply unesc2_esc2; [left; reflexivity | exact Hs | exact Hr]. Qed.
Corollary unesc2_esc2_value q s rest : q = 34 \/ q = 39 -> no13 s = true ->
  unesc2 (Some q) (esc2 (Some q) s ++ q :: rest) = Some (s, q :: rest).
Proof.
  intros Hq Hs. apply unesc2_esc2; [|exact Hs|reflexivity].
  destruct Hq as [->| ->]; [right; left; reflexivity | right; right; reflexivity].
Qed.

(* ================= names ================= *)
(* a local name: non-empty, no white space, none of  = > / < quotes & ! ? : *)
Definition lbyte2 (c : N) : bool := name_byte2 c && not_colon c.
Definition local_ok2 (l : str) : bool := negb (xp_null l) && forallb lbyte2 l.

Lemma lbyte2_parts c : lbyte2 c = true -> lbyte c = true /\ name_byte2 c = true.
Proof. unfold lbyte2, lbyte, name_byte2, name_byte, is_ws2, not_colon. lia. Qed.
Lemma local_ok2_parts l : local_ok2 l = true -> local_ok l = true /\ forallb name_byte2 l = true.
Proof.
  unfold local_ok2, local_ok. intros H. apply andb_true_iff in H. destruct H as [Hn Hf]. rewrite Hn. cbn [andb].
  clear Hn. induction l as [|c l IH]; [split; reflexivity|].
  cbn [forallb] in *. apply andb_true_iff in Hf. destruct Hf as [Hc Hf]. destruct (lbyte2_parts c Hc) as [H1 H2].
  destruct (IH Hf) as [I1 I2]. rewrite H1, H2, I1, I2. split; reflexivity.
Qed.
Lemma name_byte2_facts c : name_byte2 c = true ->
  is_ws2 c = false /\ (c =? 62) = false /\ (c =? 47) = false /\ (c =? 60) = false /\ (c =? 33) = false.
Proof. unfold name_byte2, is_ws2. lia. Qed.

Lemma print_name_nb2 n : local_ok2 (x_local n) = true ->
  forallb name_byte2 (print_name n) = true /\ print_name n <> [].
Proof.
  intros H. destruct (local_ok2_parts _ H) as [Ho Hn]. destruct (print_name_split n Ho) as (_ & _ & Hne).
  split; [|exact Hne]. unfold print_name. rewrite forallb_app, Hn, andb_true_r.
  destruct (str_eqb (x_space n) ns_ttm); [reflexivity|]. destruct (str_eqb (x_space n) ns_tts); [reflexivity|].
  destruct (str_eqb (x_space n) ns_xml); [reflexivity|]. destruct (str_eqb (x_space n) s_xmlns); reflexivity.
Qed.

(* ================= start tags ================= *)
Definition gap_ok (w : str) : bool := negb (xp_null w) && ws_str w.
Definition pc_good (pc : pchoice) : Prop :=
  (forall n, gap_ok (pc_gap pc n) = true) /\ (forall n, ws_str (pc_eq1 pc n) = true) /\
  (forall n, ws_str (pc_eq2 pc n) = true) /\ (forall n, ws_str (pc_pre pc n) = true) /\
  (forall n, ws_str (pc_end pc n) = true).

Definition cons_attr (a : str * str) (o : option (list (str * str) * bool * str)) : option (list (str * str) * bool * str) :=
  match o with Some (al, sc, r) => Some (a :: al, sc, r) | None => None end.

Lemma read_attrs2_step f gap name eq1 eq2 q v tail :
  gap_ok gap = true -> forallb name_byte2 name = true -> name <> [] -> ws_str eq1 = true -> ws_str eq2 = true ->
  q = 34 \/ q = 39 -> no13 v = true ->
  read_attrs2 (S f) (gap ++ name ++ eq1 ++ [61] ++ eq2 ++ [q] ++ esc2 (Some q) v ++ [q] ++ tail)
  = cons_attr (name, v) (read_attrs2 f tail).
Proof.
  intros Hg Hn Hne H1 H2 Hq Hv.
  unfold gap_ok in Hg. apply andb_true_iff in Hg. destruct Hg as [Hg0 Hg].
  destruct name as [|c0 r0]; [contradiction|].
  assert (Hc0 : name_byte2 c0 = true) by (cbn [forallb] in Hn; apply andb_true_iff in Hn; tauto).
  destruct (name_byte2_facts c0 Hc0) as (W & E62 & E47 & _ & _).
  assert (Hsw : starts_ws (gap ++ (c0 :: r0) ++ eq1 ++ [61] ++ eq2 ++ [q] ++ esc2 (Some q) v ++ [q] ++ tail) = true).
  { destruct gap as [|g gap]; [discriminate|]. unfold ws_str in Hg. cbn [forallb] in Hg. apply andb_true_iff in Hg.
    cbn [app starts_ws]. tauto. }
  cbn [read_attrs2]. cbv zeta. rewrite Hsw. rewrite (skip_ws_app gap) by (try exact Hg; cbn [app starts_ws]; exact W).
  cbn [app]. rewrite E62, E47.
  change (c0 :: r0 ++ eq1 ++ 61 :: eq2 ++ q :: esc2 (Some q) v ++ q :: tail)
    with ((c0 :: r0) ++ eq1 ++ 61 :: eq2 ++ q :: esc2 (Some q) v ++ q :: tail).
  rewrite (span_app name_byte2 (c0 :: r0)); [|exact Hn|].
  2:{ destruct eq1 as [|e eq1]; [reflexivity|]. unfold ws_str in H1. cbn [forallb] in H1. apply andb_true_iff in H1.
      destruct H1 as [H1 _]. cbn [app]. unfold name_byte2. rewrite H1. reflexivity. }
  cbv beta iota. cbn [xp_null].
  rewrite (skip_ws_app eq1) by (try exact H1; reflexivity). rewrite N.eqb_refl.
  assert (Hqw : starts_ws (q :: esc2 (Some q) v ++ q :: tail) = false) by (destruct Hq as [->| ->]; reflexivity).
  rewrite (skip_ws_app eq2 _ H2 Hqw).
  assert (Hqq : (q =? 34) || (q =? 39) = true) by (destruct Hq as [->| ->]; reflexivity).
  rewrite Hqq, (unesc2_esc2_value q v tail Hq Hv). reflexivity.
Qed.

Definition aloc_ok2 (a : xattr) : bool := local_ok2 (x_local (fst a)).
Definition aval_ok (a : xattr) : bool := no13 (snd a).
Lemma aloc_ok2_old al : forallb aloc_ok2 al = true -> forallb aloc_ok al = true.
Proof.
  induction al as [|a al IH]; intros H; [reflexivity|]. cbn [forallb] in *. apply andb_true_iff in H. destruct H as [Ha H].
  unfold aloc_ok2 in Ha. destruct (local_ok2_parts _ Ha) as [Ho _]. unfold aloc_ok at 1. rewrite Ho, (IH H). reflexivity.
Qed.

Lemma read_attrs2_printed pc al : pc_good pc -> forall f pre sc rest,
  forallb aloc_ok2 al = true -> forallb aval_ok al = true -> ws_str pre = true -> (length al < f)%nat ->
  read_attrs2 f (flat_map (print_attr2 print_name pc) al ++ pre ++ close_of sc ++ rest) = Some (raw_attrs al, sc, rest).
Proof.
  intros (G1 & G2 & G3 & _ & _). induction al as [|a al IH]; intros f pre sc rest Hok Hv Hp Hf.
  - destruct f as [|f]; [lia|]. cbn [flat_map app read_attrs2]. cbv zeta.
    rewrite (skip_ws_app pre) by (try exact Hp; destruct sc; reflexivity).
    destruct sc; reflexivity.
  - destruct f as [|f]; [cbn [length] in Hf; lia|].
    cbn [forallb] in Hok, Hv. apply andb_true_iff in Hok. destruct Hok as [Ha Hok]. apply andb_true_iff in Hv. destruct Hv as [Hva Hv].
    destruct (print_name_nb2 (fst a) Ha) as [Hnb Hne].
    cbn [flat_map]. unfold print_attr2 at 1. rewrite <- !app_assoc.
    rewrite read_attrs2_step; try assumption; [| apply G1 | apply G2 | apply G3 | unfold quote_of; destruct (pc_single pc a); [right | left]; reflexivity].
    rewrite (IH f pre sc rest Hok Hv Hp) by (cbn [length] in Hf; lia). reflexivity.
Qed.

Lemma print_attrs2_length pc al : (length al <= length (flat_map (print_attr2 print_name pc) al))%nat.
Proof.
  induction al as [|a al IH]; [apply le_n|]. cbn [flat_map]. rewrite app_length. unfold print_attr2 at 1.
  rewrite !app_length. cbn [length]. lia.
Qed.

Lemma start_tag2_printed pc f env name al sc rest : pc_good pc ->
  local_ok2 (x_local name) = true -> forallb aloc_ok2 al = true -> forallb aval_ok al = true -> (length al < f)%nat ->
  start_tag2 f env (print_name name ++ flat_map (print_attr2 print_name pc) al ++ pc_pre pc name ++ close_of sc ++ rest) =
  Some (mkStag (print_name name)
               (translate (ext_env env (split_attrs al)) true (fst (psplit name)) (snd (psplit name)))
               (res_attrs (ext_env env (split_attrs al)) al)
               (ext_env env (split_attrs al)) rest, sc).
Proof.
  intros Hpc Hn Hal Hv Hf. destruct (local_ok2_parts _ Hn) as [Hno _].
  destruct (print_name_split name Hno) as (Hq & _ & _). destruct (print_name_nb2 name Hn) as [Hnb Hne].
  pose proof Hpc as (G1 & _ & _ & G4 & _). unfold start_tag2.
  assert (Hs : match flat_map (print_attr2 print_name pc) al ++ pc_pre pc name ++ close_of sc ++ rest
               with c :: _ => name_byte2 c = false | [] => True end).
  { assert (Hw : forall w r, ws_str w = true -> (match r with c :: _ => name_byte2 c = false | [] => True end) ->
                 match w ++ r with c :: _ => name_byte2 c = false | [] => True end).
    { intros w r Hw Hr. destruct w as [|c w]; [exact Hr|]. unfold ws_str in Hw. cbn [forallb] in Hw.
      apply andb_true_iff in Hw. destruct Hw as [Hw _]. cbn [app]. unfold name_byte2. rewrite Hw. reflexivity. }
    destruct al as [|a al].
    - cbn [flat_map app]. apply Hw; [apply G4|]. destruct sc; reflexivity.
    - cbn [flat_map]. unfold print_attr2 at 1. rewrite <- !app_assoc.
      specialize (G1 (fst a)). unfold gap_ok in G1. apply andb_true_iff in G1. destruct G1 as [G0 G1].
      destruct (pc_gap pc (fst a)) as [|g gp]; [discriminate|]. unfold ws_str in G1. cbn [forallb] in G1.
      apply andb_true_iff in G1. destruct G1 as [G1 _]. cbn [app]. unfold name_byte2. rewrite G1. reflexivity. }
  rewrite (span_app name_byte2 _ _ Hnb Hs).
  rewrite (read_attrs2_printed pc al Hpc); try assumption; [|apply G4].
  rewrite Hq, (qsplit_all_printed al (aloc_ok2_old al Hal)). destruct (psplit name) as [p l]. reflexivity.
Qed.

(* ================= one element, given its content ================= *)
Definition elem_body (pc : pchoice) (nm : xname) (al : list xattr) (ks : list xnode) (rest : str) : str :=
  print_name nm ++ flat_map (print_attr2 print_name pc) al ++ pc_pre pc nm
  ++ (if xp_null ks && pc_selfclose pc nm then close_of true ++ rest
      else close_of false ++ flat_map (print2 print_name pc) ks ++ end_tag2 print_name pc nm ++ rest).
Lemma print2_elem_eq pc nm al ks rest : print2 print_name pc (XElem nm al ks) ++ rest = 60 :: elem_body pc nm al ks rest.
Proof.
  cbn [print2]. unfold elem_body. rewrite <- !app_assoc. cbn [app]. do 4 f_equal.
  destruct (xp_null ks && pc_selfclose pc nm); rewrite <- ?app_assoc; reflexivity.
Qed.
Lemma end_tag2_eq pc nm rest : end_tag2 print_name pc nm ++ rest = 60 :: 47 :: print_name nm ++ pc_end pc nm ++ 62 :: rest.
Proof. unfold end_tag2. rewrite <- !app_assoc. reflexivity. Qed.

Lemma p_elem_sc pc pk f env name al rest : pc_good pc ->
  local_ok2 (x_local name) = true -> forallb aloc_ok2 al = true -> forallb aval_ok al = true -> (length al < f)%nat ->
  translate (ext_env env (split_attrs al)) true (fst (psplit name)) (snd (psplit name)) = name ->
  res_attrs (ext_env env (split_attrs al)) al = al ->
  parse_elem_with pk f env (print_name name ++ flat_map (print_attr2 print_name pc) al ++ pc_pre pc name ++ close_of true ++ rest)
  = Some (XElem name al [], rest).
Proof.
  intros Hpc Hn Hal Hv Hf Ht Ha. unfold parse_elem_with.
  rewrite (start_tag2_printed pc f env name al true rest Hpc Hn Hal Hv Hf).
  cbn [st_name st_attrs st_rest]. rewrite Ht, Ha. reflexivity.
Qed.
Lemma p_elem_open pc pk f env name al content ks rest : pc_good pc ->
  local_ok2 (x_local name) = true -> forallb aloc_ok2 al = true -> forallb aval_ok al = true -> (length al < f)%nat ->
  translate (ext_env env (split_attrs al)) true (fst (psplit name)) (snd (psplit name)) = name ->
  res_attrs (ext_env env (split_attrs al)) al = al ->
  pk (ext_env env (split_attrs al)) (content ++ end_tag2 print_name pc name ++ rest) = Some (ks, end_tag2 print_name pc name ++ rest) ->
  parse_elem_with pk f env (print_name name ++ flat_map (print_attr2 print_name pc) al ++ pc_pre pc name ++ close_of false
                            ++ content ++ end_tag2 print_name pc name ++ rest)
  = Some (XElem name al (merge_texts ks), rest).
Proof.
  intros Hpc Hn Hal Hv Hf Ht Ha Hk. unfold parse_elem_with.
  rewrite (start_tag2_printed pc f env name al false _ Hpc Hn Hal Hv Hf).
  cbn [st_name st_attrs st_rest st_env st_raw]. rewrite Ht, Ha, Hk.
  unfold end_tag2. rewrite <- !app_assoc. rewrite (app_assoc [60; 47] (print_name name)). rewrite prefix_app.
  pose proof Hpc as (_ & _ & _ & _ & G5).
  rewrite (skip_ws_app (pc_end pc name)) by (try apply G5; reflexivity).
  cbn [app]. rewrite N.eqb_refl. reflexivity.
Qed.

(* ================= the shape of the children: no two adjacent text nodes ================= *)
Definition hd_text (ks : list xnode) : bool := match ks with XText _ :: _ => true | _ => false end.
Fixpoint kids_shape2 (ks : list xnode) : bool :=
  match ks with
  | [] => true
  | k :: r => negb (negb (is_elem k) && hd_text r) && kids_shape2 r
  end.
Definition text_ne (k : xnode) : bool := match k with XText s => negb (xp_null s) | XElem _ _ _ => true end.

Lemma merge_texts_id ks : kids_shape2 ks = true -> forallb text_ne ks = true -> merge_texts ks = ks.
Proof.
  induction ks as [|k r IH]; intros Hs Hn; [reflexivity|].
  cbn [kids_shape2 forallb] in Hs, Hn. apply andb_true_iff in Hs. destruct Hs as [Hk Hs]. apply andb_true_iff in Hn. destruct Hn as [Hkn Hn].
  destruct k as [s|nm al ks0]; cbn [merge_texts]; rewrite (IH Hs Hn); [|reflexivity].
  destruct r as [|[t|nm al ks0] r']; [| discriminate |]; cbn [text_ne] in Hkn; apply negb_true_iff in Hkn; rewrite Hkn; reflexivity.
Qed.

(* ================= well-formed subtrees ================= *)
(* element names in the TTML name space or (if [ttm]: the prefix is bound) the metadata name space;
   attributes unqualified (not xmlns), tts: or xml:, values without CR; children: any mix of elements and
   non-empty CR-free text nodes without two adjacent text nodes *)
Definition ename_ok2 (ttm : bool) (n : xname) : bool :=
  (str_eqb (x_space n) ns_ttml || (ttm && str_eqb (x_space n) ns_ttm))
  && local_ok2 (x_local n) && negb (str_eqb (x_local n) s_xmlns).
Definition aname_ok2 (n : xname) : bool :=
  ((xp_null (x_space n) && negb (str_eqb (x_local n) s_xmlns)) || str_eqb (x_space n) ns_tts || str_eqb (x_space n) ns_xml)
  && local_ok2 (x_local n).
Definition attr_ok2 (a : xattr) : bool := aname_ok2 (fst a) && no13 (snd a).
Fixpoint wf2 (ttm : bool) (n : xnode) : bool :=
  match n with
  | XText s => negb (xp_null s) && no13 s
  | XElem name al ks => ename_ok2 ttm name && forallb attr_ok2 al && kids_shape2 ks && forallb (wf2 ttm) ks
  end.

Definition env_ok2 (ttm : bool) (env : nsenv) : Prop :=
  ns_lookup [] env = Some ns_ttml /\ ns_lookup s_tts env = Some ns_tts /\ (ttm = true -> ns_lookup s_ttm env = Some ns_ttm).

Lemma ename_translate2 ttm env n : env_ok2 ttm env -> ename_ok2 ttm n = true ->
  local_ok2 (x_local n) = true /\ translate env true (fst (psplit n)) (snd (psplit n)) = n.
Proof.
  intros (Hd & _ & Hm) H. destruct n as [sp l]. unfold ename_ok2 in H. cbn [x_space x_local] in *.
  apply andb_true_iff in H. destruct H as [H Hx]. apply andb_true_iff in H. destruct H as [Hs Hl].
  apply negb_true_iff in Hx. split; [exact Hl|].
  apply orb_true_iff in Hs. destruct Hs as [Hs|Hs].
  - apply str_eqb_eq in Hs; subst sp.
    change (psplit {| x_space := ns_ttml; x_local := l |}) with (@nil N, l). cbn [fst snd].
    unfold translate. change (str_eqb [] xp_xmlns) with false. change (str_eqb [] xp_xml) with false.
    change (str_eqb l xp_xmlns) with (str_eqb l s_xmlns). rewrite Hx, Hd. reflexivity.
  - apply andb_true_iff in Hs. destruct Hs as [Ht Hs]. apply str_eqb_eq in Hs; subst sp.
    change (psplit {| x_space := ns_ttm; x_local := l |}) with (s_ttm, l). cbn [fst snd].
    unfold translate. change (str_eqb s_ttm xp_xmlns) with false. change (str_eqb s_ttm xp_xml) with false.
    change (xp_null s_ttm) with false. rewrite (Hm Ht). reflexivity.
Qed.

Lemma aname_ok2_old n : aname_ok2 n = true -> aname_okb n = true /\ local_ok2 (x_local n) = true.
Proof.
  unfold aname_ok2, aname_okb. intros H. apply andb_true_iff in H. destruct H as [H1 H2].
  destruct (local_ok2_parts _ H2) as [Ho _]. rewrite H1, Ho. split; [reflexivity | exact H2].
Qed.

(* one attribute translated back to its name *)
Lemma attr_translate2 env a : ns_lookup s_tts env = Some ns_tts -> aname_ok2 (fst a) = true ->
  ext_env env (split_attrs [a]) = env /\ res_attrs env [a] = [a].
Proof.
  intros Hs Ha. destruct (aname_ok2_old _ Ha) as [Ho _]. destruct (aname_cases _ Ho) as (_ & Hc).
  destruct a as [[sp l] v]. cbn [fst x_local x_space] in *.
  unfold res_attrs. cbn [split_attrs map fst snd ext_env].
  destruct Hc as [(Hp & -> & Hx)|[(Hp & ->)|(Hp & ->)]]; rewrite Hp; cbn [fst snd].
  - change (str_eqb [] xp_xmlns) with false. cbn [xp_null andb]. change (str_eqb l xp_xmlns) with (str_eqb l s_xmlns).
    rewrite Hx. split; reflexivity.
  - change (str_eqb s_tts xp_xmlns) with false. change (xp_null s_tts) with false. cbn [andb].
    unfold translate. change (str_eqb s_tts xp_xmlns) with false. change (xp_null s_tts) with false.
    change (str_eqb s_tts xp_xml) with false. cbn [andb]. rewrite Hs. split; reflexivity.
  - change (str_eqb xp_xml xp_xmlns) with false. change (xp_null xp_xml) with false. cbn [andb]. split; reflexivity.
Qed.

Lemma ext_env_app env x y : ext_env env (x ++ y) = ext_env (ext_env env x) y.
Proof.
  revert env. induction x as [|[[p l] v] x IH]; intros env; [reflexivity|]. cbn [app ext_env].
  destruct (str_eqb p xp_xmlns); [apply IH|]. destruct (xp_null p && str_eqb l xp_xmlns); apply IH.
Qed.

Lemma attrs_translate2 env al : ns_lookup s_tts env = Some ns_tts -> forallb attr_ok2 al = true ->
  forallb aloc_ok2 al = true /\ forallb aval_ok al = true /\ ext_env env (split_attrs al) = env /\ res_attrs env al = al.
Proof.
  intros Hs H. induction al as [|a al IH]; [repeat split|].
  cbn [forallb] in H. apply andb_true_iff in H. destruct H as [Ha H]. destruct (IH H) as (I1 & I2 & I3 & I4).
  unfold attr_ok2 in Ha. apply andb_true_iff in Ha. destruct Ha as [Han Hav].
  destruct (aname_ok2_old _ Han) as [_ Hl]. destruct (attr_translate2 env a Hs Han) as [E1 E2].
  cbn [forallb]. unfold aloc_ok2 at 1, aval_ok at 1. rewrite Hl, Hav, I1, I2.
  repeat split.
  - change (split_attrs (a :: al)) with (split_attrs [a] ++ split_attrs al). rewrite ext_env_app.
    transitivity (ext_env env (split_attrs al)); [f_equal; exact E1 | exact I3].
  - change (res_attrs env (a :: al)) with (res_attrs env [a] ++ res_attrs env al).
    transitivity ([a] ++ al); [f_equal; [exact E2 | exact I4] | reflexivity].
Qed.

(* ================= the content parser, step by step ================= *)
Lemma pk2_end f env r : parse_kids2 (S f) env (60 :: 47 :: r) = Some ([], 60 :: 47 :: r).
Proof. reflexivity. Qed.
Lemma pk2_text f env c s t r : (c =? 60) = false -> unesc2 None (c :: s) = Some (t, r) ->
  parse_kids2 (S f) env (c :: s) = cons_node (XText t) (parse_kids2 f env r).
Proof. intros Hc Hu. cbn [parse_kids2]. rewrite Hc, Hu. reflexivity. Qed.
Lemma pk2_elem f env body e s6 : (match body with c2 :: _ => name_byte2 c2 = true | [] => False end) ->
  parse_elem_with (parse_kids2 f) f env body = Some (e, s6) ->
  parse_kids2 (S f) env (60 :: body) = cons_node e (parse_kids2 f env s6).
Proof.
  intros Hb He. destruct body as [|c2 s2]; [contradiction|]. destruct (name_byte2_facts c2 Hb) as (_ & _ & E47 & _ & E33).
  cbn [parse_kids2]. change (60 =? 60) with true. cbv iota. rewrite E47, E33, He. reflexivity.
Qed.
Lemma pk2_comment f env body r : skip_comment body = Some r ->
  parse_kids2 (S f) env ([60; 33; 45; 45] ++ body) = parse_kids2 f env r.
Proof. intros Hc. cbn [app parse_kids2]. change (60 =? 60) with true. cbv iota. change (33 =? 47) with false. change (33 =? 33) with true. cbv iota. cbn [prefix]. change (45 =? 45) with true. cbv iota. rewrite Hc. reflexivity. Qed.

Lemma elem_body_hd pc nm al ks rest : local_ok2 (x_local nm) = true ->
  match elem_body pc nm al ks rest with c2 :: _ => name_byte2 c2 = true | [] => False end.
Proof.
  intros H. destruct (print_name_nb2 nm H) as [Hnb Hne]. unfold elem_body.
  destruct (print_name nm) as [|c0 r0]; [contradiction|]. cbn [forallb] in Hnb. apply andb_true_iff in Hnb. cbn [app]. tauto.
Qed.

Lemma esc2_text_hd c s : exists c' r', esc2 None (c :: s) = c' :: r' /\ (c' =? 60) = false.
Proof.
  unfold esc2. cbn [flat_map]. unfold esc2_byte.
  destruct (c =? 38) eqn:E38; [cbn [app]; eexists; eexists; split; reflexivity|].
  destruct (c =? 60) eqn:E60; [cbn [app]; eexists; eexists; split; reflexivity|].
  destruct (c =? 62) eqn:E62; [cbn [app]; eexists; eexists; split; reflexivity|].
  cbn [app]. eexists; eexists; split; [reflexivity | exact E60].
Qed.

(* ================= the tree lemma ================= *)
Definition parses2 (pc : pchoice) (ttm : bool) (n : xnode) : Prop :=
  match n with
  | XText _ => True
  | XElem nm al ks =>
    wf2 ttm n = true -> forall f env rest, env_ok2 ttm env -> (length (elem_body pc nm al ks rest) < f)%nat ->
    parse_elem_with (parse_kids2 f) f env (elem_body pc nm al ks rest) = Some (n, rest)
  end.

Lemma wf2_text_ne ttm ks : forallb (wf2 ttm) ks = true -> forallb text_ne ks = true.
Proof.
  induction ks as [|k ks IH]; intros H; [reflexivity|]. cbn [forallb] in *. apply andb_true_iff in H. destruct H as [Hk H].
  rewrite (IH H), andb_true_r. destruct k as [s|nm al ks0]; [|reflexivity]. cbn [wf2] in Hk. cbn [text_ne].
  apply andb_true_iff in Hk. tauto.
Qed.

Lemma pk2_kids pc ttm env tail : env_ok2 ttm env -> (exists r, tail = 60 :: 47 :: r) ->
  forall ks, Forall (parses2 pc ttm) ks -> forallb (wf2 ttm) ks = true -> kids_shape2 ks = true ->
  forall F, (length (flat_map (print2 print_name pc) ks ++ tail) < F)%nat ->
  parse_kids2 F env (flat_map (print2 print_name pc) ks ++ tail) = Some (ks, tail).
Proof.
  intros He (r & ->). induction ks as [|k ks IH]; intros HP Hwf Hsh F HF.
  - cbn [flat_map app] in *. destruct F as [|f]; [lia|]. apply pk2_end.
  - inversion HP as [|? ? Pk Pks]; subst.
    cbn [forallb kids_shape2] in Hwf, Hsh. apply andb_true_iff in Hwf. destruct Hwf as [Wk Wks].
    apply andb_true_iff in Hsh. destruct Hsh as [Sk Sks].
    cbn [flat_map] in HF |- *. rewrite <- app_assoc in HF |- *.
    set (rest' := flat_map (print2 print_name pc) ks ++ 60 :: 47 :: r) in *.
    destruct F as [|f]; [lia|].
    destruct k as [s|nm al ks0].
    + (* character data: the next byte is the '<' of an element or of the end tag *)
      cbn [wf2] in Wk. apply andb_true_iff in Wk. destruct Wk as [Wne W13]. destruct s as [|c s]; [discriminate|].
      assert (Hr : match rest' with c' :: _ => c' = 60 | [] => True end).
      { unfold rest'. destruct ks as [|[t|nm al ks0] ks']; [reflexivity | discriminate |].
        cbn [flat_map]. rewrite <- app_assoc, print2_elem_eq. reflexivity. }
      cbn [print2] in HF |- *.
      pose proof (unesc2_esc2_text (c :: s) rest' W13 Hr) as Hu.
      destruct (esc2_text_hd c s) as (c' & r' & Ee & Hc'). rewrite Ee in *. cbn [app] in *.
      rewrite (pk2_text f env c' _ _ _ Hc' Hu). cbn [length] in HF.
      rewrite (IH Pks Wks Sks f) by (fold rest'; rewrite app_length in HF; lia). reflexivity.
    + (* an element *)
      rewrite print2_elem_eq in HF |- *. cbn [length] in HF.
      assert (Wn : local_ok2 (x_local nm) = true).
      { cbn [wf2] in Wk. unfold ename_ok2 in Wk. repeat (apply andb_true_iff in Wk; destruct Wk as [Wk ?]). assumption. }
      cbn [parses2] in Pk. specialize (Pk Wk f env rest' He ltac:(lia)).
      rewrite (pk2_elem f env _ _ _ (elem_body_hd pc nm al ks0 rest' Wn) Pk).
      assert (Hlen : (length rest' < length (elem_body pc nm al ks0 rest'))%nat).
      { unfold elem_body. destruct (xp_null ks0 && pc_selfclose pc nm); rewrite !app_length; cbn [length close_of]; lia. }
      rewrite (IH Pks Wks Sks f) by (fold rest'; lia). reflexivity.
Qed.

Lemma parse_node2 pc ttm n : pc_good pc -> parses2 pc ttm n.
Proof.
  intros Hpc. induction n as [s|name al ks IH] using xnode_ind'; [exact I|].
  cbn [parses2]. intros Hwf f env rest He Hf.
  cbn [wf2] in Hwf. apply andb_true_iff in Hwf. destruct Hwf as [Hwf Hks]. apply andb_true_iff in Hwf. destruct Hwf as [Hwf Hsh].
  apply andb_true_iff in Hwf. destruct Hwf as [Hn Ha].
  destruct (ename_translate2 ttm env name He Hn) as (Hl & Ht).
  pose proof He as (_ & Htts & _).
  destruct (attrs_translate2 env al Htts Ha) as (A1 & A2 & A3 & A4).
  assert (Hal : (length al < f)%nat).
  { pose proof (print_attrs2_length pc al) as Hp. unfold elem_body in Hf. rewrite !app_length in Hf. lia. }
  unfold elem_body in *. destruct (xp_null ks && pc_selfclose pc name) eqn:Esc.
  - apply andb_true_iff in Esc. destruct Esc as [Ek _]. destruct ks as [|k ks]; [|discriminate].
    apply p_elem_sc; try assumption; rewrite A3; assumption.
  - rewrite <- (merge_texts_id ks Hsh (wf2_text_ne ttm ks Hks)) at 2.
    apply p_elem_open; try assumption; rewrite A3; try assumption.
    apply (pk2_kids pc ttm env); try assumption.
    + rewrite end_tag2_eq. eexists. reflexivity.
    + rewrite !app_length in Hf. cbn [close_of length] in Hf. rewrite !app_length. lia.
Qed.

(* ================= the prolog ================= *)
Lemma skip_comment_aux_app s t : forall b0 b1 r, skip_comment_aux b0 b1 s = Some r -> skip_comment_aux b0 b1 (s ++ t) = Some (r ++ t).
Proof.
  induction s as [|c s IH]; intros b0 b1 r H; [discriminate|]. cbn [app skip_comment_aux] in *.
  destruct (c =? 13); [discriminate|]. destruct (b0 && b1); [|exact (IH _ _ _ H)].
  destruct (c =? 62); [|discriminate]. injection H as <-. reflexivity.
Qed.
Lemma skip_pi_aux_app s t : forall b0 r, skip_pi_aux b0 s = Some r -> skip_pi_aux b0 (s ++ t) = Some (r ++ t).
Proof.
  induction s as [|c s IH]; intros b0 r H; [discriminate|]. cbn [app skip_pi_aux] in *.
  destruct (c =? 13); [discriminate|]. destruct (b0 && (c =? 62)); [|exact (IH _ _ H)].
  injection H as <-. reflexivity.
Qed.
Lemma skip_pi_app s t r : skip_pi s = Some r -> skip_pi (s ++ t) = Some (r ++ t).
Proof.
  unfold skip_pi. destruct s as [|c s]; [discriminate|]. cbn [app]. destruct (name_byte2 c); [|discriminate].
  intros H. exact (skip_pi_aux_app (c :: s) t false r H).
Qed.
Lemma prefix_app_some p s r t : prefix p s = Some r -> prefix p (s ++ t) = Some (r ++ t).
Proof. intros H. apply prefix_Some in H. subst s. rewrite <- app_assoc. apply prefix_app. Qed.

(* the prolog: entirely made of white space (space, tab, LF), comments <!-- ... --> (no CR, no "--" inside,
   not ending in "-") and processing instructions <?name ... ?> (no CR), as the parser's own scanners see them *)
Fixpoint prolog_ok_f (fuel : nat) (p : str) : bool :=
  match fuel with
  | O => false
  | S f =>
    match p with
    | [] => true
    | c :: r =>
      if is_ws2 c then prolog_ok_f f r
      else match prefix [60;33;45;45] p with
           | Some r1 => match skip_comment r1 with Some r2 => prolog_ok_f f r2 | None => false end
           | None =>
             match prefix [60;63] p with
             | Some r1 => match skip_pi r1 with Some r2 => prolog_ok_f f r2 | None => false end
             | None => false
             end
           end
    end
  end.
Definition prolog_ok (p : str) : bool := prolog_ok_f (S (length p)) p.

Definition root_start (rest : str) : Prop :=
  match rest with c :: c2 :: _ => c = 60 /\ name_byte2 c2 = true | _ => False end.
Lemma skip_misc_stop F rest : root_start rest -> skip_misc (S F) rest = Some rest.
Proof.
  destruct rest as [|c [|c2 r]]; try contradiction. intros [-> H2].
  assert (E : (c2 =? 33) = false /\ (c2 =? 63) = false) by (unfold name_byte2 in H2; lia). destruct E as [E33 E63].
  cbn [skip_misc prefix]. change (is_ws2 60) with false. change (60 =? 60) with true. cbv iota.
  rewrite (N.eqb_sym 33), (N.eqb_sym 63), E33, E63. reflexivity.
Qed.

Lemma skip_misc_prolog rest : root_start rest -> forall f p, prolog_ok_f f p = true ->
  forall F, (f <= F)%nat -> skip_misc F (p ++ rest) = Some rest.
Proof.
  intros Hr. induction f as [|f IH]; intros p Hp F HF; [discriminate|].
  destruct F as [|F]; [lia|]. destruct p as [|c r].
  - cbn [app]. apply skip_misc_stop. exact Hr.
  - cbn [prolog_ok_f] in Hp. cbn [app skip_misc]. destruct (is_ws2 c) eqn:Ew.
    + apply IH; [exact Hp | lia].
    + change (c :: r ++ rest) with ((c :: r) ++ rest).
      destruct (prefix [60;33;45;45] (c :: r)) as [r1|] eqn:E1.
      * rewrite (prefix_app_some _ _ _ rest E1).
        destruct (skip_comment r1) as [r2|] eqn:E2; [|discriminate].
        unfold skip_comment in *. rewrite (skip_comment_aux_app r1 rest _ _ _ E2). apply IH; [exact Hp | lia].
      * destruct (prefix [60;63] (c :: r)) as [r1|] eqn:E3; [|discriminate].
        pose proof (prefix_Some _ _ _ E3) as Es. cbn [app] in Es. injection Es as -> ->.
        cbn [app prefix]. change (60 =? 60) with true. change (33 =? 63) with false. change (63 =? 63) with true. cbv iota.
        destruct (skip_pi r1) as [r2|] eqn:E4; [|discriminate].
        rewrite (skip_pi_app r1 rest r2 E4). apply IH; [exact Hp | lia].
Qed.

(* ================= the root element ================= *)
(* its own xmlns attributes establish the environment in which its name and its content are resolved *)
Definition is_decl (n : xname) (v : str) (a : xattr) : bool := xname_eqb (fst a) n && str_eqb (snd a) v.
Definition decl0 : xattr -> bool := is_decl (mkName [] s_xmlns) ns_ttml.          (* xmlns="http://www.w3.org/ns/ttml" *)
Definition decl_tts : xattr -> bool := is_decl (mkName s_xmlns s_tts) ns_tts.     (* xmlns:tts="...#styling" *)
Definition decl_ttm : xattr -> bool := is_decl (mkName s_xmlns s_ttm) ns_ttm.     (* xmlns:ttm="...#metadata" *)
Definition rattr_ok (a : xattr) : bool := if decl0 a || decl_tts a || decl_ttm a then true else attr_ok2 a.
Definition wf2_root (t : xnode) : bool :=
  match t with
  | XText _ => false
  | XElem nm al ks =>
    ename_ok2 false nm && forallb rattr_ok al && existsb decl0 al && existsb decl_tts al
    && kids_shape2 ks && forallb (wf2 (existsb decl_ttm al)) ks
  end.

Lemma is_decl_eq n v a : is_decl n v a = true -> a = (n, v).
Proof.
  unfold is_decl, xname_eqb. destruct a as [[sp l] w]. destruct n as [sp' l']. cbn [fst snd x_space x_local]. intros H.
  apply andb_true_iff in H. destruct H as [H Hv]. apply andb_true_iff in H. destruct H as [Hs Hl].
  apply str_eqb_eq in Hv, Hs, Hl. subst. reflexivity.
Qed.

Definition decl_bind (a : xattr) : option (str * str) :=
  if decl0 a then Some ([], ns_ttml) else if decl_tts a then Some (s_tts, ns_tts) else if decl_ttm a then Some (s_ttm, ns_ttm) else None.
Fixpoint binds (al : list xattr) (env : nsenv) : nsenv :=
  match al with
  | [] => env
  | a :: r => binds r (match decl_bind a with Some b => b :: env | None => env end)
  end.

Lemma attr_ext2 env a : aname_ok2 (fst a) = true -> ext_env env (split_attrs [a]) = env.
Proof.
  intros Ha. destruct (aname_ok2_old _ Ha) as [Ho _]. destruct (aname_cases _ Ho) as (_ & Hc).
  destruct a as [[sp l] v]. cbn [fst x_local x_space] in *. cbn [split_attrs map fst snd ext_env].
  destruct Hc as [(Hp & -> & Hx)|[(Hp & ->)|(Hp & ->)]]; rewrite Hp.
  - change (str_eqb [] xp_xmlns) with false. cbn [xp_null andb]. change (str_eqb l xp_xmlns) with (str_eqb l s_xmlns).
    rewrite Hx. reflexivity.
  - reflexivity.
  - reflexivity.
Qed.

Lemma rattr_ext env a : rattr_ok a = true ->
  ext_env env (split_attrs [a]) = match decl_bind a with Some b => b :: env | None => env end.
Proof.
  unfold rattr_ok, decl_bind. intros H.
  destruct (decl0 a) eqn:E0; [apply is_decl_eq in E0; subst a; reflexivity|].
  destruct (decl_tts a) eqn:E1; [apply is_decl_eq in E1; subst a; reflexivity|].
  destruct (decl_ttm a) eqn:E2; [apply is_decl_eq in E2; subst a; reflexivity|].
  cbn [orb] in H. unfold attr_ok2 in H. apply andb_true_iff in H. destruct H as [H _]. apply attr_ext2. exact H.
Qed.
Lemma rattrs_ext al : forall env, forallb rattr_ok al = true -> ext_env env (split_attrs al) = binds al env.
Proof.
  induction al as [|a al IH]; intros env H; [reflexivity|]. cbn [forallb] in H. apply andb_true_iff in H. destruct H as [Ha H].
  change (split_attrs (a :: al)) with (split_attrs [a] ++ split_attrs al). rewrite ext_env_app.
  cbn [binds]. rewrite <- (rattr_ext env a Ha). apply IH. exact H.
Qed.

Lemma lookup_binds k v (dk : xattr -> bool) :
  (forall a, dk a = true -> decl_bind a = Some (k, v)) ->
  (forall a k' v', decl_bind a = Some (k', v') -> str_eqb k k' = true -> v' = v) ->
  forall al env, existsb dk al = true \/ ns_lookup k env = Some v -> ns_lookup k (binds al env) = Some v.
Proof.
  intros H1 H2. induction al as [|a al IH]; intros env H.
  - destruct H as [H|H]; [discriminate | exact H].
  - cbn [binds]. apply IH. cbn [existsb] in H. destruct H as [H|H].
    + apply orb_true_iff in H. destruct H as [H|H]; [|left; exact H]. right.
      rewrite (H1 a H). cbn [ns_lookup]. rewrite str_eqb_refl. reflexivity.
    + right. destruct (decl_bind a) as [[k' v']|] eqn:Ed; [|exact H]. cbn [ns_lookup].
      destruct (str_eqb k k') eqn:Ek; [|exact H]. rewrite (H2 a k' v' Ed Ek). reflexivity.
Qed.
Lemma decl_bind_std a k' v' : decl_bind a = Some (k', v') ->
  (k' = [] /\ v' = ns_ttml) \/ (k' = s_tts /\ v' = ns_tts) \/ (k' = s_ttm /\ v' = ns_ttm).
Proof.
  unfold decl_bind. destruct (decl0 a); [intros [= <- <-]; tauto|]. destruct (decl_tts a); [intros [= <- <-]; tauto|].
  destruct (decl_ttm a); [intros [= <- <-]; tauto | discriminate].
Qed.

Lemma root_env_ok2 al : existsb decl0 al = true -> existsb decl_tts al = true -> env_ok2 (existsb decl_ttm al) (binds al []).
Proof.
  intros H0 H1. repeat split.
  - apply (lookup_binds [] ns_ttml decl0); [| |left; exact H0].
    + intros a Ha. unfold decl_bind. rewrite Ha. reflexivity.
    + intros a k' v' Hd Hk. destruct (decl_bind_std a k' v' Hd) as [[-> ->]|[[-> ->]|[-> ->]]]; [reflexivity | discriminate | discriminate].
  - apply (lookup_binds s_tts ns_tts decl_tts); [| |left; exact H1].
    + intros a Ha. unfold decl_bind. rewrite Ha. destruct (decl0 a) eqn:E0; [|reflexivity].
      apply is_decl_eq in E0. subst a. discriminate.
    + intros a k' v' Hd Hk. destruct (decl_bind_std a k' v' Hd) as [[-> ->]|[[-> ->]|[-> ->]]]; [discriminate | reflexivity | discriminate].
  - intros H2. apply (lookup_binds s_ttm ns_ttm decl_ttm); [| |left; exact H2].
    + intros a Ha. unfold decl_bind. rewrite Ha. destruct (decl0 a) eqn:E0; [apply is_decl_eq in E0; subst a; discriminate|].
      destruct (decl_tts a) eqn:E1; [apply is_decl_eq in E1; subst a; discriminate|]. reflexivity.
    + intros a k' v' Hd Hk. destruct (decl_bind_std a k' v' Hd) as [[-> ->]|[[-> ->]|[-> ->]]]; [discriminate | discriminate | reflexivity].
Qed.

Lemma rattrs_res env al : ns_lookup s_tts env = Some ns_tts -> forallb rattr_ok al = true ->
  forallb aloc_ok2 al = true /\ forallb aval_ok al = true /\ res_attrs env al = al.
Proof.
  intros Hs. induction al as [|a al IH]; intros H; [repeat split|].
  cbn [forallb] in H. apply andb_true_iff in H. destruct H as [Ha H]. destruct (IH H) as (I1 & I2 & I3).
  assert (Hone : aloc_ok2 a = true /\ aval_ok a = true /\ res_attrs env [a] = [a]).
  { unfold rattr_ok in Ha.
    destruct (decl0 a) eqn:E0; [apply is_decl_eq in E0; subst a; repeat split|].
    destruct (decl_tts a) eqn:E1; [apply is_decl_eq in E1; subst a; repeat split|].
    destruct (decl_ttm a) eqn:E2; [apply is_decl_eq in E2; subst a; repeat split|].
    cbn [orb] in Ha. unfold attr_ok2 in Ha. apply andb_true_iff in Ha. destruct Ha as [Han Hav].
    destruct (aname_ok2_old _ Han) as [_ Hl]. destruct (attr_translate2 env a Hs Han) as [_ E].
    repeat split; assumption. }
  destruct Hone as (O1 & O2 & O3). cbn [forallb]. rewrite O1, O2, I1, I2. repeat split.
  change (res_attrs env (a :: al)) with (res_attrs env [a] ++ res_attrs env al).
  transitivity ([a] ++ al); [f_equal; [exact O3 | exact I3] | reflexivity].
Qed.

(* the inversion theorem for printing choices that are good for every name *)
Theorem parse2_print2_good : forall pc t prolog, pc_good pc -> wf2_root t = true -> prolog_ok prolog = true ->
  xml_parse2 (prolog ++ print2 print_name pc t) = Some t.
Proof.
  intros pc t prolog Hpc Hwf Hp. destruct t as [s|nm al ks]; [discriminate|].
  cbn [wf2_root] in Hwf.
  apply andb_true_iff in Hwf; destruct Hwf as [Hwf Hks]. apply andb_true_iff in Hwf; destruct Hwf as [Hwf Hsh].
  apply andb_true_iff in Hwf; destruct Hwf as [Hwf Hd1]. apply andb_true_iff in Hwf; destruct Hwf as [Hwf Hd0].
  apply andb_true_iff in Hwf; destruct Hwf as [Hn Hra].
  set (ttm := existsb decl_ttm al) in *.
  pose proof (root_env_ok2 al Hd0 Hd1) as He. fold ttm in He. rewrite <- (rattrs_ext al [] Hra) in He.
  set (env' := ext_env [] (split_attrs al)) in *.
  assert (He0 : env_ok2 false env') by (destruct He as (E1 & E2 & _); repeat split; try assumption; discriminate).
  destruct (ename_translate2 false env' nm He0 Hn) as (Hl & Ht).
  pose proof He as (_ & Htts & _). destruct (rattrs_res env' al Htts Hra) as (A1 & A2 & A4).
  rewrite <- (app_nil_r (print2 print_name pc (XElem nm al ks))), print2_elem_eq.
  unfold xml_parse2. set (F := S (length (prolog ++ 60 :: elem_body pc nm al ks []))).
  pose proof (elem_body_hd pc nm al ks [] Hl) as Hhd.
  assert (Hrs : root_start (60 :: elem_body pc nm al ks [])).
  { unfold root_start. destruct (elem_body pc nm al ks []) as [|c2 r]; [contradiction|]. split; [reflexivity | exact Hhd]. }
  rewrite (skip_misc_prolog _ Hrs (S (length prolog)) prolog Hp F) by (unfold F; rewrite app_length; lia).
  change (60 =? 60) with true. cbv iota.
  assert (Hlen : (length (elem_body pc nm al ks []) < F)%nat) by (unfold F; rewrite app_length; cbn [length]; lia).
  assert (Hal : (length al < F)%nat).
  { pose proof (print_attrs2_length pc al) as Hq. unfold elem_body in Hlen. rewrite !app_length in Hlen. lia. }
  assert (Hpe : parse_elem_with (parse_kids2 F) F [] (elem_body pc nm al ks []) = Some (XElem nm al ks, [])).
  { unfold elem_body in *. destruct (xp_null ks && pc_selfclose pc nm) eqn:Esc.
    - apply andb_true_iff in Esc. destruct Esc as [Ek _]. destruct ks as [|k ks]; [|discriminate].
      apply p_elem_sc; assumption.
    - rewrite <- (merge_texts_id ks Hsh (wf2_text_ne ttm ks Hks)) at 2.
      apply p_elem_open; try assumption. fold env'.
      apply (pk2_kids pc ttm env'); try assumption.
      + rewrite end_tag2_eq. eexists. reflexivity.
      + apply Forall_forall. intros k _. apply parse_node2. exact Hpc.
      + rewrite !app_length in Hlen. cbn [close_of length] in Hlen. rewrite !app_length. cbn [length]. lia. }
  rewrite Hpe. reflexivity.
Qed.

(* ================= printing choices checked on the tree ================= *)
(* the white-space fields of [pc] are white space (space, tab, LF) for every name of the tree, the gap before an
   attribute non-empty *)
Definition pattr_ok (pc : pchoice) (a : xattr) : bool :=
  gap_ok (pc_gap pc (fst a)) && ws_str (pc_eq1 pc (fst a)) && ws_str (pc_eq2 pc (fst a)).
Fixpoint pchoice_ok (pc : pchoice) (n : xnode) : bool :=
  match n with
  | XText _ => true
  | XElem nm al ks =>
    ws_str (pc_pre pc nm) && ws_str (pc_end pc nm) && forallb (pattr_ok pc) al && forallb (pchoice_ok pc) ks
  end.

(* any choice made good: a field that is not white space is replaced by nothing (one blank for the gap) *)
Definition norm_ws (w : str) : str := if ws_str w then w else [].
Definition norm_gap (w : str) : str := if gap_ok w then w else [32].
Definition norm_pc (pc : pchoice) : pchoice :=
  {| pc_single := pc_single pc; pc_selfclose := pc_selfclose pc;
     pc_gap := fun n => norm_gap (pc_gap pc n);
     pc_eq1 := fun n => norm_ws (pc_eq1 pc n); pc_eq2 := fun n => norm_ws (pc_eq2 pc n);
     pc_pre := fun n => norm_ws (pc_pre pc n); pc_end := fun n => norm_ws (pc_end pc n) |}.
Lemma norm_ws_ok w : ws_str (norm_ws w) = true.
Proof. unfold norm_ws. destruct (ws_str w) eqn:E; [exact E | reflexivity]. Qed.
Lemma norm_gap_ok w : gap_ok (norm_gap w) = true.
Proof. unfold norm_gap. destruct (gap_ok w) eqn:E; [exact E | reflexivity]. Qed.
Lemma norm_pc_good pc : pc_good (norm_pc pc).
Proof. repeat split; intros n; cbn [norm_pc pc_gap pc_eq1 pc_eq2 pc_pre pc_end]; (apply norm_ws_ok || apply norm_gap_ok). Qed.

Lemma print2_norm pname pc n : pchoice_ok pc n = true -> print2 pname (norm_pc pc) n = print2 pname pc n.
Proof.
  induction n as [s|nm al ks IH] using xnode_ind'; intros H; [reflexivity|].
  cbn [pchoice_ok] in H. apply andb_true_iff in H. destruct H as [H Hks]. apply andb_true_iff in H. destruct H as [H Hal].
  apply andb_true_iff in H. destruct H as [Hpre Hend].
  cbn [print2]. unfold end_tag2. cbn [norm_pc pc_pre pc_end pc_selfclose]. unfold norm_ws. rewrite Hpre, Hend.
  assert (Ea : flat_map (print_attr2 pname (norm_pc pc)) al = flat_map (print_attr2 pname pc) al).
  { clear - Hal. induction al as [|a al IHa]; [reflexivity|]. cbn [forallb] in Hal. apply andb_true_iff in Hal. destruct Hal as [Ha Hal].
    cbn [flat_map]. rewrite (IHa Hal). f_equal. unfold pattr_ok in Ha. apply andb_true_iff in Ha. destruct Ha as [Ha H2].
    apply andb_true_iff in Ha. destruct Ha as [H0 H1].
    unfold print_attr2, quote_of. cbn [norm_pc pc_gap pc_eq1 pc_eq2 pc_single]. unfold norm_ws, norm_gap. rewrite H0, H1, H2. reflexivity. }
  assert (Ek : flat_map (print2 pname (norm_pc pc)) ks = flat_map (print2 pname pc) ks).
  { apply flat_map_ext_Forall. clear - IH Hks. induction IH as [|k ks Hk _ IHk]; [constructor|].
    cbn [forallb] in Hks. apply andb_true_iff in Hks. destruct Hks as [H1 H2]. constructor; [exact (Hk H1) | exact (IHk H2)]. }
  rewrite Ea, Ek. reflexivity.
Qed.

(* ================= the theorem ================= *)
Theorem parse2_print2 : forall pc t prolog, wf2_root t = true -> pchoice_ok pc t = true -> prolog_ok prolog = true ->
  xml_parse2 (prolog ++ print2 print_name pc t) = Some t.
Proof.
  intros pc t prolog Hwf Hpc Hp. rewrite <- (print2_norm print_name pc t Hpc).
  apply parse2_print2_good; [apply norm_pc_good | exact Hwf | exact Hp].
Qed.
(* without a side condition on the choices: made good first *)
Corollary parse2_print2_norm : forall pc t prolog, wf2_root t = true -> prolog_ok prolog = true ->
  xml_parse2 (prolog ++ print2 print_name (norm_pc pc) t) = Some t.
Proof. intros pc t prolog Hwf Hp. apply parse2_print2_good; [apply norm_pc_good | exact Hwf | exact Hp]. Qed.

(* ================= prologs built from items ================= *)
Inductive pitem := PWs (w : str) | PComment (body : str) | PPi (body : str).
Definition print_pitem (i : pitem) : str :=
  match i with
  | PWs w => w
  | PComment b => [60;33;45;45] ++ b ++ [45;45;62]
  | PPi b => [60;63] ++ b ++ [63;62]
  end.
(* a comment body: no CR, no "--" inside, not ending in "-" ([b0 b1]: the two preceding bytes were '-') *)
Fixpoint com_ok (b0 b1 : bool) (s : str) : bool :=
  match s with
  | [] => negb b1
  | c :: r => negb (b0 && b1) && negb (c =? 13) && com_ok b1 (c =? 45) r
  end.
(* the body of a processing instruction: no CR, no "?>" inside ([b0]: the preceding byte was '?') *)
Fixpoint pi_ok (b0 : bool) (s : str) : bool :=
  match s with
  | [] => true
  | c :: r => negb (c =? 13) && negb (b0 && (c =? 62)) && pi_ok (c =? 63) r
  end.
Definition pitem_ok (i : pitem) : bool :=
  match i with
  | PWs w => ws_str w
  | PComment b => com_ok false false b
  | PPi b => match b with c :: _ => name_byte2 c | [] => false end && pi_ok false b
  end.

Lemma skip_comment_body s : forall b0 b1 rest, com_ok b0 b1 s = true ->
  skip_comment_aux b0 b1 (s ++ [45;45;62] ++ rest) = Some rest.
Proof.
  induction s as [|c s IH]; intros b0 b1 rest H.
  - cbn [com_ok] in H. apply negb_true_iff in H. subst b1. cbn [app skip_comment_aux].
    change (45 =? 13) with false. change (62 =? 13) with false. change (45 =? 45) with true. change (62 =? 62) with true.
    cbv iota. rewrite andb_false_r. reflexivity.
  - cbn [com_ok] in H. apply andb_true_iff in H. destruct H as [H Hr]. apply andb_true_iff in H. destruct H as [Hb Hc].
    apply negb_true_iff in Hb, Hc. cbn [app skip_comment_aux]. rewrite Hc, Hb. exact (IH _ _ rest Hr).
Qed.
Lemma skip_pi_body s : forall b0 rest, pi_ok b0 s = true -> skip_pi_aux b0 (s ++ [63;62] ++ rest) = Some rest.
Proof.
  induction s as [|c s IH]; intros b0 rest H.
  - cbn [app skip_pi_aux]. change (63 =? 13) with false. change (62 =? 13) with false. change (63 =? 62) with false.
    change (63 =? 63) with true. change (62 =? 62) with true. cbv iota. rewrite andb_false_r. reflexivity.
  - cbn [pi_ok] in H. apply andb_true_iff in H. destruct H as [H Hr]. apply andb_true_iff in H. destruct H as [Hc Hb].
    apply negb_true_iff in Hb, Hc. cbn [app skip_pi_aux]. rewrite Hc, Hb. exact (IH _ rest Hr).
Qed.

Lemma prolog_ws_f w : ws_str w = true -> forall f rest, prolog_ok_f f rest = true -> prolog_ok_f (length w + f) (w ++ rest) = true.
Proof.
  intros Hw f rest Hr. induction w as [|c w IH]; [exact Hr|].
  unfold ws_str in Hw. cbn [forallb] in Hw. apply andb_true_iff in Hw. destruct Hw as [Hc Hw].
  cbn [length app plus prolog_ok_f]. rewrite Hc. exact (IH Hw).
Qed.
Lemma prolog_ok_f_mono f : forall p F, prolog_ok_f f p = true -> (f <= F)%nat -> prolog_ok_f F p = true.
Proof.
  induction f as [|f IH]; intros p F H HF; [discriminate|]. destruct F as [|F]; [lia|].
  cbn [prolog_ok_f] in *. destruct p as [|c r]; [reflexivity|].
  destruct (is_ws2 c); [apply (IH r F H); lia|].
  destruct (prefix [60;33;45;45] (c :: r)) as [r1|].
  - destruct (skip_comment r1) as [r2|]; [apply (IH r2 F H); lia | discriminate].
  - destruct (prefix [60;63] (c :: r)) as [r1|]; [|discriminate].
    destruct (skip_pi r1) as [r2|]; [apply (IH r2 F H); lia | discriminate].
Qed.

Lemma prolog_items_f items : forallb pitem_ok items = true ->
  exists f, (f <= S (length (flat_map print_pitem items)))%nat /\ prolog_ok_f f (flat_map print_pitem items) = true.
Proof.
  induction items as [|i items IH]; intros H; [exists 1%nat; split; [apply le_n | reflexivity]|].
  cbn [forallb] in H. apply andb_true_iff in H. destruct H as [Hi H]. destruct (IH H) as (f & Hle & Hf).
  cbn [flat_map]. destruct i as [w|b|b]; cbn [pitem_ok print_pitem] in *.
  - exists (length w + f)%nat. split; [rewrite app_length; lia | apply prolog_ws_f; assumption].
  - exists (S f). split; [rewrite !app_length; cbn [length]; lia|].
    rewrite <- !app_assoc. cbn [app prolog_ok_f prefix]. change (is_ws2 60) with false.
    change (60 =? 60) with true. change (33 =? 33) with true. change (45 =? 45) with true. cbv iota.
    unfold skip_comment.
    change (b ++ 45 :: 45 :: 62 :: flat_map print_pitem items) with (b ++ [45;45;62] ++ flat_map print_pitem items).
    rewrite (skip_comment_body b false false _ Hi). exact Hf.
  - apply andb_true_iff in Hi. destruct Hi as [Hn Hb]. destruct b as [|c b]; [discriminate|].
    exists (S f). split; [rewrite !app_length; cbn [length]; lia|].
    rewrite <- !app_assoc. cbn [app prolog_ok_f prefix]. change (is_ws2 60) with false.
    change (60 =? 60) with true. change (33 =? 63) with false. change (63 =? 63) with true. cbv iota.
    unfold skip_pi. rewrite Hn.
    change (c :: b ++ 63 :: 62 :: flat_map print_pitem items) with ((c :: b) ++ [63;62] ++ flat_map print_pitem items).
    rewrite (skip_pi_body (c :: b) false _ Hb). exact Hf.
Qed.
(* every prolog made of good items is accepted *)
Theorem prolog_items_ok : forall items, forallb pitem_ok items = true -> prolog_ok (flat_map print_pitem items) = true.
Proof.
  intros items H. destruct (prolog_items_f items H) as (f & Hle & Hf). unfold prolog_ok.
  exact (prolog_ok_f_mono f _ _ Hf Hle).
Qed.

(* ================= sanity ================= *)
Definition lf : str := [10].
Definition tab : str := [9].
Definition el (sp : str) (l : str) (al : list xattr) (ks : list xnode) : xnode := XElem (mkName sp l) al ks.
Definition at_ (sp : str) (l : str) (v : str) : xattr := (mkName sp l, v).
Local Open Scope string_scope.
Import String.StringSyntax.

(* (a) every accepted freedom: declaration, comment and white space in the prolog, single and double quotes,
   white space around '=' and before '>' and '/>', self-closing tags, the predefined entities, decimal and
   hexadecimal character references for a 2-, 3- and 4-byte character, a comment between two texts, mixed
   content, white space in end tags, white space and a comment after the root element *)
Definition ex2_bytes : str :=
  bs "<?xml version=""1.0"" encoding=""UTF-8""?>" ++ lf ++ bs "<!-- a - comment -->" ++ lf
  ++ bs "<tt xmlns='http://www.w3.org/ns/ttml'" ++ lf ++ tab
  ++ bs "xmlns:tts = ""http://www.w3.org/ns/ttml#styling"" xml:lang='en'><head/><body ><div><p begin=""0s"" end='1s'"
  ++ lf ++ bs "  tts:color=""a&quot;b&apos;c'"" >t1&#233;&#x20AC;&#x1f600;<!-- c -->t2<br />t3"
  ++ bs "<span tts:x='""'>x &lt;&amp;&gt;]]&#62;</span >tail</p" ++ lf ++ bs "></div></body></tt >" ++ lf ++ bs "<!-- end --> ".
Definition ex2_tree : xnode :=
  el ns_ttml (bs "tt") [at_ [] (bs "xmlns") ns_ttml; at_ (bs "xmlns") (bs "tts") ns_tts; at_ ns_xml (bs "lang") (bs "en")]
     [el ns_ttml (bs "head") [] [];
      el ns_ttml (bs "body") []
         [el ns_ttml (bs "div") []
             [el ns_ttml (bs "p") [at_ [] (bs "begin") (bs "0s"); at_ [] (bs "end") (bs "1s"); at_ ns_tts (bs "color") (bs "a""b'c'")]
                 [XText (bs "t1" ++ [195;169; 226;130;172; 240;159;152;128] ++ bs "t2");
                  el ns_ttml (bs "br") [] [];
                  XText (bs "t3");
                  el ns_ttml (bs "span") [at_ ns_tts (bs "x") [34]] [XText (bs "x <&>]]>")];
                  XText (bs "tail")]]]].
Example parse2_ex2 : xml_parse2 ex2_bytes = Some ex2_tree.
Proof. vm_compute. reflexivity. Qed.
(* this tree is in the class of the theorem *)
Example ex2_tree_wf : wf2_root ex2_tree = true.
Proof. vm_compute. reflexivity. Qed.

(* name spaces as Kit/XmlParse.v: scoping, shadowing, unbound prefix kept *)
Example parse2_ns :
  xml_parse2 (bs "<a p:x=""1"" xmlns=""u"" xmlns:p='v'><p:b y=""&lt;&#34;""><c xmlns=""w""/>t&amp;&#xA;</p:b><q:z/></a>")
  = Some (el (bs "u") (bs "a")
             [at_ (bs "v") (bs "x") (bs "1"); at_ [] (bs "xmlns") (bs "u"); at_ (bs "xmlns") (bs "p") (bs "v")]
             [el (bs "v") (bs "b") [at_ [] (bs "y") [60; 34]]
                 [el (bs "w") (bs "c") [at_ [] (bs "xmlns") (bs "w")] []; XText [116; 38; 10]];
              el (bs "q") (bs "z") [] []]).
Proof. vm_compute. reflexivity. Qed.

(* (b) malformed input is rejected *)
Example bad2_empty : xml_parse2 [] = None. Proof. vm_compute. reflexivity. Qed.
Example bad2_doctype : xml_parse2 (bs "<!DOCTYPE tt><a/>") = None. Proof. vm_compute. reflexivity. Qed.
Example bad2_cdata : xml_parse2 (bs "<a><![CDATA[x]]></a>") = None. Proof. vm_compute. reflexivity. Qed.
Example bad2_cr : xml_parse2 (bs "<a>x" ++ [13; 10] ++ bs "</a>") = None. Proof. vm_compute. reflexivity. Qed.
Example bad2_cr_tag : xml_parse2 (bs "<a" ++ [13] ++ bs "/>") = None. Proof. vm_compute. reflexivity. Qed.
Example bad2_cr_prolog : xml_parse2 ([13; 10] ++ bs "<a/>") = None. Proof. vm_compute. reflexivity. Qed.
Example bad2_mismatch : xml_parse2 (bs "<a></b>") = None. Proof. vm_compute. reflexivity. Qed.
Example bad2_crossed : xml_parse2 (bs "<a><b></a></b>") = None. Proof. vm_compute. reflexivity. Qed.
Example bad2_unclosed : xml_parse2 (bs "<a><b/>") = None. Proof. vm_compute. reflexivity. Qed.
Example bad2_trailing : xml_parse2 (bs "<a/>x") = None. Proof. vm_compute. reflexivity. Qed.
Example bad2_leading : xml_parse2 (bs "x<a/>") = None. Proof. vm_compute. reflexivity. Qed.
Example bad2_two_roots : xml_parse2 (bs "<a/><b/>") = None. Proof. vm_compute. reflexivity. Qed.
Example bad2_cdata_end : xml_parse2 (bs "<a>]]></a>") = None. Proof. vm_compute. reflexivity. Qed.
Example bad2_lt_in_value : xml_parse2 (bs "<a b=""<""/>") = None. Proof. vm_compute. reflexivity. Qed.
Example bad2_entity : xml_parse2 (bs "<a>&nbsp;</a>") = None. Proof. vm_compute. reflexivity. Qed.
Example bad2_amp : xml_parse2 (bs "<a>x & y</a>") = None. Proof. vm_compute. reflexivity. Qed.
Example bad2_ref_zero : xml_parse2 (bs "<a>&#0;</a>") = None. Proof. vm_compute. reflexivity. Qed.
Example bad2_ref_surrogate : xml_parse2 (bs "<a>&#xD800;</a>") = None. Proof. vm_compute. reflexivity. Qed.
Example bad2_ref_big : xml_parse2 (bs "<a>&#x110000;</a>") = None. Proof. vm_compute. reflexivity. Qed.
Example bad2_ref_empty : xml_parse2 (bs "<a>&#;</a>") = None. Proof. vm_compute. reflexivity. Qed.
Example bad2_ref_open : xml_parse2 (bs "<a>&#12</a>") = None. Proof. vm_compute. reflexivity. Qed.
Example bad2_ref_hex_in_dec : xml_parse2 (bs "<a>&#1f;</a>") = None. Proof. vm_compute. reflexivity. Qed.
Example bad2_no_gap : xml_parse2 (bs "<a b='1'c='2'/>") = None. Proof. vm_compute. reflexivity. Qed.
Example bad2_unquoted : xml_parse2 (bs "<a b=1/>") = None. Proof. vm_compute. reflexivity. Qed.
Example bad2_no_value : xml_parse2 (bs "<a b></a>") = None. Proof. vm_compute. reflexivity. Qed.
Example bad2_quote_mix : xml_parse2 (bs "<a b='1""/>") = None. Proof. vm_compute. reflexivity. Qed.
Example bad2_pi_inside : xml_parse2 (bs "<a><?pi x?></a>") = None. Proof. vm_compute. reflexivity. Qed.
Example bad2_comment_dashes : xml_parse2 (bs "<a><!-- x -- y --></a>") = None. Proof. vm_compute. reflexivity. Qed.
Example bad2_comment_open : xml_parse2 (bs "<!-- x <a/>") = None. Proof. vm_compute. reflexivity. Qed.
Example bad2_space_name : xml_parse2 (bs "< a/>") = None. Proof. vm_compute. reflexivity. Qed.
Example bad2_end_only : xml_parse2 (bs "</a>") = None. Proof. vm_compute. reflexivity. Qed.
Example bad2_slash : xml_parse2 (bs "<a/ >") = None. Proof. vm_compute. reflexivity. Qed.
Example bad2_empty_prefix : xml_parse2 (bs "<:a/>") = None. Proof. vm_compute. reflexivity. Qed.

(* (c) on what the writer emits the two parsers agree *)
Definition agree_on (r : res str) : Prop :=
  match r with Ok b => xml_parse2 b = xml_parse b /\ xml_parse b <> None | _ => False end.
Example parse2_ex_doc : agree_on (write_ttml_bytes [32; 32] ex_doc).
Proof. vm_compute. split; [reflexivity | discriminate]. Qed.
Example parse2_ex_doc_flat : agree_on (write_ttml_bytes [] ex_doc).
Proof. vm_compute. split; [reflexivity | discriminate]. Qed.
(* and the indented written tree is in the class of the theorem *)
Example ex_doc_wf2 : match write_ttml ex_doc with Ok t => wf2_root (indent_doc [32; 32] t) | _ => false end = true.
Proof. vm_compute. reflexivity. Qed.

(* (d) the printer at work, and the theorem applied *)
Definition ex2_pc : pchoice :=
  {| pc_single := fun a => negb (xp_null (x_space (fst a)));
     pc_selfclose := fun n => str_eqb (x_local n) (bs "br") || str_eqb (x_local n) (bs "head");
     pc_gap := fun n => if xp_null (x_space n) then [32] else [10; 9];
     pc_eq1 := fun n => if str_eqb (x_local n) (bs "end") then [32] else [];
     pc_eq2 := fun n => if str_eqb (x_local n) (bs "end") then [32; 32] else [];
     pc_pre := fun n => if str_eqb (x_local n) (bs "br") then [32] else [];
     pc_end := fun n => if str_eqb (x_local n) (bs "p") then [10] else [] |}.
Example print2_ex2 : print2 print_name ex2_pc ex2_tree =
  bs "<tt xmlns=""http://www.w3.org/ns/ttml""" ++ lf ++ tab ++ bs "xmlns:tts='http://www.w3.org/ns/ttml#styling'" ++ lf ++ tab
  ++ bs "xml:lang='en'><head/><body><div><p begin=""0s"" end =  ""1s""" ++ lf ++ tab ++ bs "tts:color='a""b&apos;c&apos;'>t1"
  ++ [195;169; 226;130;172; 240;159;152;128] ++ bs "t2<br />t3<span" ++ lf ++ tab ++ bs "tts:x='""'>x &lt;&amp;&gt;]]&gt;</span>tail</p" ++ lf
  ++ bs "></div></body></tt>".
Proof. vm_compute. reflexivity. Qed.
Example ex2_pc_ok : pchoice_ok ex2_pc ex2_tree = true.
Proof. vm_compute. reflexivity. Qed.
Definition ex2_prolog : str := bs "<?xml version=""1.0""?>" ++ lf ++ bs "<!-- made by hand -->" ++ lf.
Example ex2_prolog_ok : prolog_ok ex2_prolog = true.
Proof. vm_compute. reflexivity. Qed.
Example parse2_print2_ex2 : xml_parse2 (ex2_prolog ++ print2 print_name ex2_pc ex2_tree) = Some ex2_tree.
Proof. exact (parse2_print2 ex2_pc ex2_tree ex2_prolog ex2_tree_wf ex2_pc_ok ex2_prolog_ok). Qed.
Local Close Scope string_scope.

Print Assumptions unesc2_esc2.
Print Assumptions prolog_items_ok.
Print Assumptions parse2_print2_good.
Print Assumptions parse2_print2.
