(* WebVTT proofs, part 1: string-kit lemmas (cut / split / join / trim) and the X-TIMESTAMP-MAP
   round trip (statement 1). *)
From Coq Require Import List ZArith NArith Bool Lia Arith.
From Astisub Require Import Kit.Base Kit.Str Kit.Html Kit.Scan Model.Dur Model.Srt Model.Vtt
  Proofs.DurProofs Proofs.ScanProofs Proofs.SrtEscProofs.
Import ListNotations.
Open Scope N_scope.

(* ---- generic list helpers ---- *)
Lemma first_occ (c : N) (s : list N) : In c s -> exists a b, s = a ++ c :: b /\ ~ In c a.
Proof.
  induction s as [|x r IH]; intros H; [destruct H|].
  destruct (N.eq_dec x c) as [E|E].
  - subst x. exists [], r. split; [reflexivity | intros []].
  - destruct H as [H|H]; [contradiction|]. destruct (IH H) as (a & b & E1 & E2).
    exists (x :: a), b. split; [cbn [app]; rewrite E1; reflexivity|]. intros [H1|H1]; [contradiction | exact (E2 H1)].
Qed.

Lemma not_in_app {A} (c : A) a b : ~ In c a -> ~ In c b -> ~ In c (a ++ b).
Proof. intros Ha Hb H. apply in_app_or in H. tauto. Qed.

Lemma forallb_not_in (p : N -> bool) s c : forallb p s = true -> p c = false -> ~ In c s.
Proof. intros H Hc Hin. rewrite forallb_forall in H. rewrite (H c Hin) in Hc. discriminate. Qed.

(* ---- cut ---- *)
Lemma cut_fuel_app c sep a b f : ~ In c a -> (length a < f)%nat ->
  cut_fuel f (c :: sep) (a ++ (c :: sep) ++ b) = Some (a, b).
Proof.
  revert f. induction a as [|x r IH]; intros f Hn Hf; (destruct f as [|f]; [lia|]).
  - cbn [app cut_fuel]. change (c :: sep ++ b) with ((c :: sep) ++ b). rewrite prefix_app. reflexivity.
  - cbn [cut_fuel]. change ((x :: r) ++ (c :: sep) ++ b) with (x :: (r ++ (c :: sep) ++ b)).
    assert (Hx : (c =? x) = false). { apply N.eqb_neq. intros E. apply Hn. left. symmetry. exact E. }
    cbn [prefix]. rewrite Hx. rewrite IH; [reflexivity | intros H; apply Hn; right; exact H | cbn [length] in Hf; lia].
Qed.

Lemma cut_fuel_none c sep s f : In c sep -> ~ In c s -> cut_fuel f sep s = None.
Proof.
  intros Hc. revert s. induction f as [|f IH]; intros s Hn; [reflexivity|]. cbn [cut_fuel].
  destruct (prefix sep s) as [r|] eqn:E.
  - exfalso. apply prefix_Some in E. apply Hn. rewrite E. apply in_or_app. left. exact Hc.
  - destruct s as [|x t]; [reflexivity|]. rewrite IH; [reflexivity | intros H; apply Hn; right; exact H].
Qed.

Lemma cut_app c sep a b : ~ In c a -> cut (c :: sep) (a ++ (c :: sep) ++ b) = Some (a, b).
Proof. intros H. unfold cut. apply cut_fuel_app; [exact H|]. rewrite app_length. lia. Qed.

Lemma cut_none c sep s : In c sep -> ~ In c s -> cut sep s = None.
Proof. intros H1 H2. unfold cut. eapply cut_fuel_none; eassumption. Qed.

Lemma cut1_app c a b : ~ In c a -> cut [c] (a ++ c :: b) = Some (a, b).
Proof. intros H. exact (cut_app c [] a b H). Qed.

Lemma cut1_none c s : ~ In c s -> cut [c] s = None.
Proof. intros H. apply (cut_none c); [left; reflexivity | exact H]. Qed.

(* ---- split on a one-byte separator is [split_byte] ---- *)
Lemma split_fuel1 c : forall f s, (length s < f)%nat -> split_fuel f [c] s = split_byte c s.
Proof.
  induction f as [|f IH]; intros s Hf; [lia|]. cbn [split_fuel].
  destruct (in_dec N.eq_dec c s) as [Hin|Hn].
  - destruct (first_occ c s Hin) as (a & b & E & Ha). subst s.
    rewrite (cut1_app c a b Ha), (split_byte_app c a b Ha). f_equal. apply IH.
    rewrite app_length in Hf. cbn [length] in Hf. lia.
  - rewrite (cut1_none c s Hn), (split_byte_none c s Hn). reflexivity.
Qed.

Lemma split1 c s : Str.split [c] s = split_byte c s.
Proof. unfold Str.split. apply split_fuel1. lia. Qed.

(* ---- join / split_byte ---- *)
Lemma split_byte_join c l : l <> [] -> Forall (fun w => ~ In c w) l -> split_byte c (join [c] l) = l.
Proof.
  induction l as [|w r IH]; intros Hne Hw; [contradiction|].
  inversion Hw as [|? ? Hw1 Hw2]; subst. destruct r as [|w2 r2].
  - cbn [join]. apply split_byte_none. exact Hw1.
  - change (join [c] (w :: w2 :: r2)) with (w ++ [c] ++ join [c] (w2 :: r2)). cbn [app].
    rewrite (split_byte_app c w _ Hw1). f_equal. apply IH; [discriminate | exact Hw2].
Qed.

Lemma in_join c sep l : In c (join sep l) -> In c sep \/ exists w, In w l /\ In c w.
Proof.
  induction l as [|w r IH]; [intros []|]. destruct r as [|w2 r2].
  - cbn [join]. intros H. right. exists w. split; [left; reflexivity | exact H].
  - change (join sep (w :: w2 :: r2)) with (w ++ sep ++ join sep (w2 :: r2)). intros H.
    apply in_app_or in H. destruct H as [H|H]; [right; exists w; split; [left; reflexivity | exact H]|].
    apply in_app_or in H. destruct H as [H|H]; [left; exact H|].
    destruct (IH H) as [H1|(w' & H1 & H2)]; [left; exact H1 | right; exists w'; split; [right; exact H1 | exact H2]].
Qed.

(* ---- bytes of a rendered timestamp ---- *)
Definition ts_char (c : N) : bool := is_digit c || (c =? 58) || (c =? 46).

Lemma digits_ts s : digits s -> forallb ts_char s = true.
Proof.
  unfold digits. intros H. rewrite forallb_forall in *. intros c Hc. unfold ts_char. rewrite (H c Hc). reflexivity.
Qed.

Lemma format_vtt_chars t : (0 <= t)%Z -> forallb ts_char (format_vtt t) = true.
Proof.
  intros Ht. unfold format_vtt.
  destruct (format_grammar dot 3 t ltac:(lia) Ht) as (E & Dh & _ & Dm & _ & _ & Ds & _ & _ & Df & _).
  rewrite E. rewrite !forallb_app.
  rewrite (digits_ts _ Dh), (digits_ts _ Dm), (digits_ts _ Ds), (digits_ts _ Df). reflexivity.
Qed.

Lemma format_vtt_not_in t c : (0 <= t)%Z -> ts_char c = false -> ~ In c (format_vtt t).
Proof. intros Ht Hc. apply (forallb_not_in ts_char); [apply format_vtt_chars; exact Ht | exact Hc]. Qed.

Lemma format_vtt_nonnil t : (0 <= t)%Z -> format_vtt t <> [].
Proof.
  intros Ht. unfold format_vtt. destruct (format_grammar dot 3 t ltac:(lia) Ht) as (E & _).
  rewrite E. intros H. apply app_eq_nil in H. destruct H as [_ H]. discriminate.
Qed.

Definition trunc_ms (t : Z) : Z := (t - t mod 1000000)%Z.

Lemma sep_ok_dot : sep_ok dot. Proof. split; [reflexivity | discriminate]. Qed.

Lemma parse_format_vtt t : (0 <= t <= max_int64)%Z -> parse_vtt (format_vtt t) = Some (trunc_ms t).
Proof.
  intros Ht. unfold parse_vtt, format_vtt. rewrite (parse_format dot 3 t sep_ok_dot ltac:(lia) Ht). reflexivity.
Qed.

Lemma itoa_z_digits m : (0 <= m)%Z -> digits (itoa_z m).
Proof. intros H. rewrite (itoa_z_nonneg m H). apply itoa_digits. Qed.

Lemma atoi_itoa_z m : (0 <= m <= max_int64)%Z -> atoi (itoa_z m) = Some m.
Proof.
  intros [H0 H1]. rewrite (itoa_z_nonneg m H0). rewrite atoi_itoa by (rewrite Z2N.id; lia). rewrite Z2N.id by lia. reflexivity.
Qed.

(* ---- statement 1: the timestamp map ---- *)
Theorem parse_tsmap_string l m : (0 <= l <= max_int64)%Z -> (0 <= m <= max_int64)%Z ->
  parse_tsmap (tsmap_string (l, m)) = Some (trunc_ms l, m).
Proof.
  intros Hl Hm. unfold parse_tsmap, tsmap_string. cbn [fst snd].
  set (F := format_vtt l). set (M := itoa_z m).
  assert (HF : forall c, ts_char c = false -> ~ In c F) by (intros c Hc; apply format_vtt_not_in; [lia | exact Hc]).
  assert (HM : forall c, is_digit c = false -> ~ In c M).
  { intros c Hc. apply digits_not_in; [apply itoa_z_digits; lia | exact Hc]. }
  rewrite split1.
  replace (p_tsmap ++ [61; 76; 79; 67; 65; 76; 58] ++ F ++ [44; 77; 80; 69; 71; 84; 83; 58] ++ M)
    with (p_tsmap ++ 61 :: ([76; 79; 67; 65; 76; 58] ++ F ++ [44; 77; 80; 69; 71; 84; 83; 58] ++ M)) by reflexivity.
  rewrite split_byte_app by (unfold p_tsmap; cbn [In]; intros H; repeat (destruct H as [H|H]; [discriminate|]); exact H).
  rewrite split_byte_none.
  2:{ apply not_in_app; [cbn [In]; intros H; repeat (destruct H as [H|H]; [discriminate|]); exact H|].
      apply not_in_app; [apply HF; reflexivity|].
      apply not_in_app; [cbn [In]; intros H; repeat (destruct H as [H|H]; [discriminate|]); exact H | apply HM; reflexivity]. }
  rewrite split1.
  replace ([76; 79; 67; 65; 76; 58] ++ F ++ [44; 77; 80; 69; 71; 84; 83; 58] ++ M)
    with (([76; 79; 67; 65; 76; 58] ++ F) ++ 44 :: ([77; 80; 69; 71; 84; 83; 58] ++ M)) by (rewrite <- app_assoc; reflexivity).
  rewrite split_byte_app.
  2:{ apply not_in_app; [cbn [In]; intros H; repeat (destruct H as [H|H]; [discriminate|]); exact H | apply HF; reflexivity]. }
  rewrite split_byte_none.
  2:{ apply not_in_app; [cbn [In]; intros H; repeat (destruct H as [H|H]; [discriminate|]); exact H | apply HM; reflexivity]. }
  cbn [tsmap_parts].
  change ([76; 79; 67; 65; 76; 58] ++ F) with ([76; 79; 67; 65; 76] ++ 58 :: F).
  rewrite cut1_app by (cbn [In]; intros H; repeat (destruct H as [H|H]; [discriminate|]); exact H).
  change (str_eqb (to_lower (trim_space [76; 79; 67; 65; 76])) k_local) with true. cbv iota.
  unfold F. rewrite (parse_format_vtt l Hl).
  change ([77; 80; 69; 71; 84; 83; 58] ++ M) with ([77; 80; 69; 71; 84; 83] ++ 58 :: M).
  rewrite cut1_app by (cbn [In]; intros H; repeat (destruct H as [H|H]; [discriminate|]); exact H).
  change (str_eqb (to_lower (trim_space [77; 80; 69; 71; 84; 83])) k_local) with false.
  change (str_eqb (to_lower (trim_space [77; 80; 69; 71; 84; 83])) k_mpegts) with true. cbv iota.
  unfold M. rewrite (atoi_itoa_z m Hm). reflexivity.
Qed.

Example parse_tsmap_string_ex :
  parse_tsmap (tsmap_string (3723004567891%Z, 900000%Z)) = Some (3723004000000%Z, 900000%Z).
Proof. apply (parse_tsmap_string 3723004567891 900000); unfold max_int64; lia. Qed.

(* ---- trimming never lengthens; a leading ASCII white-space byte is always removed ---- *)
Lemma strip_any_len seqs s r : Forall (fun q : list N => q <> []) seqs -> strip_any seqs s = Some r -> (length r < length s)%nat.
Proof.
  induction seqs as [|q seqs IH]; intros Hne H; [discriminate|]. inversion Hne as [|? ? Hq Hs]; subst.
  cbn [strip_any] in H. destruct (prefix q s) as [rest|] eqn:E.
  - injection H as <-. apply prefix_len in E. destruct q; [contradiction|]. cbn [length] in E. lia.
  - exact (IH Hs H).
Qed.

Lemma space_seqs_nonnil : Forall (fun q : list N => q <> []) space_seqs.
Proof. unfold space_seqs. repeat constructor; discriminate. Qed.
Lemma space_seqs_rev_nonnil : Forall (fun q : list N => q <> []) (map (@rev N) space_seqs).
Proof. unfold space_seqs. cbn [map rev app]. repeat constructor; discriminate. Qed.

Lemma strip_space1_len s r : strip_space1 s = Some r -> (length r < length s)%nat.
Proof.
  unfold strip_space1. destruct s as [|c t]; [discriminate|]. destruct (is_ascii_space c).
  - intros H. injection H as <-. cbn [length]. lia.
  - destruct (c <? 128); [discriminate|]. apply strip_any_len. exact space_seqs_nonnil.
Qed.
Lemma strip_space1_rev_len s r : strip_space1_rev s = Some r -> (length r < length s)%nat.
Proof.
  unfold strip_space1_rev. destruct s as [|c t]; [discriminate|]. destruct (is_ascii_space c).
  - intros H. injection H as <-. cbn [length]. lia.
  - destruct (c <? 128); [discriminate|]. apply strip_any_len. exact space_seqs_rev_nonnil.
Qed.

Lemma trim_left_fuel_len f : forall s, (length (trim_left_fuel f s) <= length s)%nat.
Proof.
  induction f as [|f IH]; intros s; cbn [trim_left_fuel]; [lia|]. destruct (strip_space1 s) as [r|] eqn:E; [|lia].
  apply strip_space1_len in E. specialize (IH r). lia.
Qed.
Lemma trim_right_fuel_len f : forall s, (length (trim_right_fuel f s) <= length s)%nat.
Proof.
  induction f as [|f IH]; intros s; cbn [trim_right_fuel]; [lia|]. destruct (strip_space1_rev s) as [r|] eqn:E; [|lia].
  apply strip_space1_rev_len in E. specialize (IH r). lia.
Qed.
Lemma trim_right_len s : (length (trim_right s) <= length s)%nat.
Proof. unfold trim_right. rewrite rev_length. pose proof (trim_right_fuel_len (length s) (rev s)) as H. rewrite rev_length in H. exact H. Qed.

Lemma trim_space_fixed_hd c r : trim_space (c :: r) = c :: r -> is_ascii_space c = false.
Proof.
  intros H. destruct (is_ascii_space c) eqn:E; [|reflexivity]. exfalso.
  assert (L : (length (trim_space (c :: r)) <= length r)%nat).
  { unfold trim_space. pose proof (trim_right_len (trim_left (c :: r))) as L1.
    assert (L2 : (length (trim_left (c :: r)) <= length r)%nat).
    { unfold trim_left. cbn [length trim_left_fuel strip_space1]. rewrite E. apply trim_left_fuel_len. }
    lia. }
  rewrite H in L. cbn [length] in L. lia.
Qed.
