(* The extended XML parser of Kit/XmlParse2.v also inverts the bytes the TTML writer model emits
   ([print_node print_name] of Kit/Xml.v: EscapeText's eight escapes, numeric references included):
   [parse2_written], for every document value and every white-space indent option; hence on these bytes the two
   parser models agree ([parse2_agrees_written]).  Route, mirroring Proofs/XmlParseProofs.v with the [...2]
   functions: entity decoding ([unesc2_esc]: the numeric references &#34; &#39; &#x9; &#xA; &#xD; go through
   [read_num] / [utf8_enc]); start tags ([read_attrs2_written], [start_tag2_written]); one element given its
   content ([pe2w]); tree induction over the well-formed class [wf] of XmlParseProofs.v strengthened by
   [names2] (names made of [name_byte2] bytes -- the writer's names are constants) ([parse_node2w]);
   the root ([parse2_root]); the written tree is in the class ([skel_names2]). *)
From Coq Require Import List ZArith NArith Bool Lia ZifyBool ZifyN ZifyNat.
From Astisub Require Import Kit.Base Kit.Str Kit.Xml Kit.XmlParse Kit.XmlParse2 Kit.SortOrd Model.Dur Model.Ttml
  Proofs.TtmlSpec Proofs.TtmlDocSpec Proofs.TtmlDoc Proofs.XmlParseProofs Proofs.XmlParse2Proofs.
Import ListNotations.
Open Scope N_scope.

(* ================= entity decoding ================= *)
(* the two modes the writer's bytes are read in: character data, double-quoted value *)
Definition wmode (m : option byte) : Prop := m = None \/ m = Some 34.

Lemma unesc2_plain_w m c tail b0 b1 : wmode m ->
  (c =? 13) = false -> (c =? 60) = false -> (c =? 34) = false -> (c =? 38) = false -> (c =? 62) = false ->
  unesc2_aux m 0 b0 b1 (c :: tail) = cons_res c (unesc2_aux m 0 b1 (c =? 93) tail).
Proof.
  intros Hm E13 E60 E34 E38 E62. cbn [unesc2_aux]. rewrite E13.
  destruct Hm as [->| ->]; cbv beta iota; rewrite ?E34, E60, E38, E62, andb_false_r; reflexivity.
Qed.

(* one escaped byte: each of the eight escapes is decoded to the byte it stands for (the numeric ones by
   [read_num] and [utf8_enc]); any other byte is copied.  The "]]>" flags do not matter: '>' never occurs raw *)
Lemma unesc2_esc_byte_w m c tail b0 b1 : wmode m ->
  exists b0' b1', unesc2_aux m 0 b0 b1 (esc_byte c ++ tail) = cons_res c (unesc2_aux m 0 b0' b1' tail).
Proof.
  intros Hm. unfold esc_byte.
  destruct (c =? 34) eqn:E34; [apply N.eqb_eq in E34; subst c; exists false, false; destruct Hm as [->| ->]; reflexivity|].
  destruct (c =? 39) eqn:E39; [apply N.eqb_eq in E39; subst c; exists false, false; destruct Hm as [->| ->]; reflexivity|].
  destruct (c =? 38) eqn:E38; [apply N.eqb_eq in E38; subst c; exists false, false; destruct Hm as [->| ->]; reflexivity|].
  destruct (c =? 60) eqn:E60; [apply N.eqb_eq in E60; subst c; exists false, false; destruct Hm as [->| ->]; reflexivity|].
  destruct (c =? 62) eqn:E62; [apply N.eqb_eq in E62; subst c; exists false, false; destruct Hm as [->| ->]; reflexivity|].
  destruct (c =? 9) eqn:E9; [apply N.eqb_eq in E9; subst c; exists false, false; destruct Hm as [->| ->]; reflexivity|].
  destruct (c =? 10) eqn:E10; [apply N.eqb_eq in E10; subst c; exists false, false; destruct Hm as [->| ->]; reflexivity|].
  destruct (c =? 13) eqn:E13; [apply N.eqb_eq in E13; subst c; exists false, false; destruct Hm as [->| ->]; reflexivity|].
  exists b1, (c =? 93). cbn [app]. apply unesc2_plain_w; assumption.
Qed.

Lemma unesc2_aux_esc_text m s rest : wmode m -> stop_hd m rest ->
  forall b0 b1, unesc2_aux m 0 b0 b1 (esc_text s ++ rest) = Some (s, rest).
Proof.
  intros Hm Hr. induction s as [|c s IH]; intros b0 b1.
  - cbn [esc_text flat_map app]. destruct rest as [|c r]; [reflexivity|]. cbn [stop_hd] in Hr. cbn [unesc2_aux].
    destruct Hm as [->| ->]; subst c; reflexivity.
  - unfold esc_text. cbn [flat_map]. rewrite <- app_assoc.
    destruct (unesc2_esc_byte_w m c (flat_map esc_byte s ++ rest) b0 b1 Hm) as (b0' & b1' & E). rewrite E.
    unfold esc_text in IH. rewrite (IH b0' b1'). reflexivity.
Qed.

(* EscapeText is inverted by the extended entity decoder, for every byte string (bytes 9, 10, 13 and both
   quote characters included); the reader stops at the '<' that follows character data, at the closing
   double quote after a value *)
Theorem unesc2_esc : forall m s rest, wmode m -> stop_hd m rest ->
  unesc2 m (esc_text s ++ rest) = Some (s, rest).
Proof. intros m s rest Hm Hr. unfold unesc2. apply unesc2_aux_esc_text; assumption. Qed.
Corollary unesc2_esc_text s rest : (match rest with c :: _ => c = 60 | [] => True end) ->
  unesc2 None (esc_text s ++ rest) = Some (s, rest).
Proof. intros Hr. apply unesc2_esc; [left; reflexivity | exact Hr]. Qed.
Corollary unesc2_esc_value s rest : unesc2 (Some 34) (esc_text s ++ 34 :: rest) = Some (s, 34 :: rest).
Proof. apply unesc2_esc; [right; reflexivity | reflexivity]. Qed.

(* raw bytes (the indentation) *)
Definition raw_byte2 (c : N) : bool :=
  negb (c =? 60) && negb (c =? 34) && negb (c =? 38) && negb (c =? 62) && negb (c =? 13).
Lemma unesc2_raw w rest : forallb raw_byte2 w = true -> hd 0 rest = 60 ->
  forall b0 b1, unesc2_aux None 0 b0 b1 (w ++ rest) = Some (w, rest).
Proof.
  intros Hw Hr. induction w as [|c w IH]; intros b0 b1.
  - cbn [app]. destruct rest as [|c r]; [cbn [hd] in Hr; discriminate|]. cbn [hd] in Hr. subst c. reflexivity.
  - cbn [forallb] in Hw. apply andb_true_iff in Hw. destruct Hw as [Hc Hw]. unfold raw_byte2 in Hc.
    assert (E : (c =? 13) = false /\ (c =? 60) = false /\ (c =? 34) = false /\ (c =? 38) = false /\ (c =? 62) = false) by lia.
    destruct E as (E13 & E60 & E34 & E38 & E62).
    cbn [app]. rewrite (unesc2_plain_w None c _ b0 b1 (or_introl eq_refl) E13 E60 E34 E38 E62).
    rewrite (IH Hw). reflexivity.
Qed.

(* ================= start tags ================= *)
Lemma skip_ws_nows c r : is_ws2 c = false -> skip_ws (c :: r) = c :: r.
Proof. intros H. cbn [skip_ws]. rewrite H. reflexivity. Qed.

(* one attribute as the encoder prints it: one blank, the name, ="escaped value" *)
Lemma read_attrs2_step_w f name v tail : forallb name_byte2 name = true -> name <> [] ->
  read_attrs2 (S f) ([32] ++ name ++ [61; 34] ++ esc_text v ++ [34] ++ tail) = cons_attr (name, v) (read_attrs2 f tail).
Proof.
  intros Hn Hne. destruct name as [|c0 r0]; [contradiction|].
  assert (Hc0 : name_byte2 c0 = true) by (cbn [forallb] in Hn; apply andb_true_iff in Hn; tauto).
  destruct (name_byte2_facts c0 Hc0) as (W & E62 & E47 & _ & _).
  assert (Hsw : starts_ws ([32] ++ (c0 :: r0) ++ [61; 34] ++ esc_text v ++ [34] ++ tail) = true) by reflexivity.
  cbn [read_attrs2]. cbv zeta. rewrite Hsw.
  rewrite (skip_ws_app [32]) by (try reflexivity; cbn [app starts_ws]; exact W).
  cbn [app]. rewrite E62, E47.
  change (c0 :: r0 ++ 61 :: 34 :: esc_text v ++ 34 :: tail) with ((c0 :: r0) ++ 61 :: 34 :: esc_text v ++ 34 :: tail).
  rewrite (span_app name_byte2 (c0 :: r0)); [|exact Hn|reflexivity].
  cbv beta iota. cbn [xp_null].
  rewrite (skip_ws_nows 61) by reflexivity. change (61 =? 61) with true. cbv iota.
  rewrite (skip_ws_nows 34) by reflexivity. change ((34 =? 34) || (34 =? 39)) with true. cbv iota.
  rewrite unesc2_esc_value. reflexivity.
Qed.

Lemma read_attrs2_written al : forall f rest, forallb aloc_ok2 al = true -> (length al < f)%nat ->
  read_attrs2 f (flat_map (print_attr print_name) al ++ 62 :: rest) = Some (raw_attrs al, false, rest).
Proof.
  induction al as [|a al IH]; intros f rest Hok Hf.
  - destruct f as [|f]; [lia|]. reflexivity.
  - destruct f as [|f]; [cbn [length] in Hf; lia|].
    cbn [forallb] in Hok. apply andb_true_iff in Hok. destruct Hok as [Ha Hok].
    destruct (print_name_nb2 (fst a) Ha) as [Hnb Hne].
    cbn [flat_map]. unfold print_attr at 1. rewrite <- !app_assoc.
    rewrite (read_attrs2_step_w f (print_name (fst a)) (snd a) _ Hnb Hne).
    rewrite (IH f rest Hok) by (cbn [length] in Hf; lia). reflexivity.
Qed.

Lemma start_tag2_written f env name al rest :
  local_ok2 (x_local name) = true -> forallb aloc_ok2 al = true -> (length al < f)%nat ->
  start_tag2 f env (print_name name ++ flat_map (print_attr print_name) al ++ 62 :: rest) =
  Some (mkStag (print_name name)
               (translate (ext_env env (split_attrs al)) true (fst (psplit name)) (snd (psplit name)))
               (res_attrs (ext_env env (split_attrs al)) al)
               (ext_env env (split_attrs al)) rest, false).
Proof.
  intros Hn Hal Hf. destruct (local_ok2_parts _ Hn) as [Hno _].
  destruct (print_name_split name Hno) as (Hq & _ & _). destruct (print_name_nb2 name Hn) as [Hnb Hne].
  unfold start_tag2.
  assert (Hs : match flat_map (print_attr print_name) al ++ 62 :: rest with c :: _ => name_byte2 c = false | [] => True end).
  { destruct al as [|a al]; reflexivity. }
  rewrite (span_app name_byte2 _ _ Hnb Hs).
  rewrite read_attrs2_written; [|exact Hal|exact Hf].
  rewrite Hq, (qsplit_all_printed al (aloc_ok2_old al Hal)). destruct (psplit name) as [p l]. reflexivity.
Qed.

(* ================= one element, given its content ================= *)
Lemma pe2w f env name al content tks rest :
  local_ok2 (x_local name) = true -> forallb aloc_ok2 al = true -> (length al < f)%nat ->
  translate (ext_env env (split_attrs al)) true (fst (psplit name)) (snd (psplit name)) = name ->
  res_attrs (ext_env env (split_attrs al)) al = al ->
  merge_texts tks = tks ->
  parse_kids2 f (ext_env env (split_attrs al)) (content ++ end_tag name ++ rest) = Some (tks, end_tag name ++ rest) ->
  parse_elem_with (parse_kids2 f) f env
    (print_name name ++ flat_map (print_attr print_name) al ++ 62 :: content ++ end_tag name ++ rest)
  = Some (XElem name al tks, rest).
Proof.
  intros Hn Hal Hf Ht Ha Hm Hk. unfold parse_elem_with.
  rewrite (start_tag2_written f env name al _ Hn Hal Hf).
  cbn [st_name st_attrs st_rest st_env st_raw]. rewrite Ht, Ha, Hk.
  unfold end_tag. rewrite <- !app_assoc. rewrite (app_assoc [60; 47] (print_name name)). rewrite prefix_app.
  cbn [app]. rewrite (skip_ws_nows 62) by reflexivity. change (62 =? 62) with true. cbv iota. rewrite Hm. reflexivity.
Qed.

Lemma print_name_hd2 name X : local_ok2 (x_local name) = true ->
  match print_name name ++ X with c2 :: _ => name_byte2 c2 = true | [] => False end.
Proof.
  intros H. destruct (print_name_nb2 name H) as [Hnb Hne].
  destruct (print_name name) as [|c0 r0]; [contradiction|]. cbn [forallb] in Hnb. apply andb_true_iff in Hnb. cbn [app]. tauto.
Qed.

Lemma pk2w_elem f env name al content tks rest :
  local_ok2 (x_local name) = true -> forallb aloc_ok2 al = true -> (length al < f)%nat ->
  translate (ext_env env (split_attrs al)) true (fst (psplit name)) (snd (psplit name)) = name ->
  res_attrs (ext_env env (split_attrs al)) al = al ->
  merge_texts tks = tks ->
  parse_kids2 f (ext_env env (split_attrs al)) (content ++ end_tag name ++ rest) = Some (tks, end_tag name ++ rest) ->
  parse_kids2 (S f) env ([60] ++ print_name name ++ flat_map (print_attr print_name) al ++ [62] ++ content ++ end_tag name ++ rest)
  = cons_node (XElem name al tks) (parse_kids2 f env rest).
Proof.
  intros Hn Hal Hf Ht Ha Hm Hk. cbn [app].
  apply pk2_elem; [apply print_name_hd2; exact Hn|]. apply pe2w; assumption.
Qed.

(* ================= indentation between tags ================= *)
Lemma ws_raw2 ind k : indent_ok ind = true -> forallb raw_byte2 (10 :: concat (repeat ind k)) = true.
Proof.
  intros H. cbn [forallb]. change (raw_byte2 10) with true. cbn [andb].
  induction k as [|k IH]; [reflexivity|]. cbn [repeat concat]. rewrite forallb_app, IH, andb_true_r.
  unfold indent_ok in H. clear IH. induction ind as [|c ind IH]; [reflexivity|].
  cbn [forallb] in *. apply andb_true_iff in H. destruct H as [Hc H]. rewrite (IH H), andb_true_r.
  unfold is_ws in Hc. unfold raw_byte2. lia.
Qed.

Lemma pk2w_indent F env ind d s : indent_ok ind = true -> hd 0 s = 60 -> (length (indent_str ind d ++ s) < F)%nat ->
  exists F', (length s < F')%nat /\ parse_kids2 F env (indent_str ind d ++ s) = app_nodes (itext ind d) (parse_kids2 F' env s).
Proof.
  intros Hi Hs HF. destruct ind as [|c i].
  - exists F. cbn [indent_str app] in *. split; [exact HF|]. cbn [itext]. unfold app_nodes.
    destruct (parse_kids2 F env s) as [[sibs r]|]; reflexivity.
  - unfold indent_str, itext. unfold indent_str in HF. destruct F as [|f]; [lia|]. exists f. split.
    + rewrite app_length in HF. cbn [length] in HF. cbn [length]. lia.
    + cbn [app]. rewrite (pk2_text f env 10 (concat (repeat (c :: i) d) ++ s) (10 :: concat (repeat (c :: i) d)) s eq_refl).
      * unfold cons_node, app_nodes. destruct (parse_kids2 f env s) as [[sibs r]|]; reflexivity.
      * change (10 :: concat (repeat (c :: i) d) ++ s) with ((10 :: concat (repeat (c :: i) d)) ++ s).
        unfold unesc2. apply unesc2_raw; [apply ws_raw2; exact Hi | exact Hs].
Qed.

(* ================= merging adjacent character data changes nothing here ================= *)
Lemma merge_elems ind D d ks : forallb is_elem ks = true ->
  merge_texts (flat_map (fun k => itext ind D ++ [itree ind D k]) ks ++ itext ind d)
  = flat_map (fun k => itext ind D ++ [itree ind D k]) ks ++ itext ind d.
Proof.
  induction ks as [|k ks IH]; intros Hel.
  - cbn [flat_map app]. destruct ind as [|c i]; reflexivity.
  - cbn [forallb] in Hel. apply andb_true_iff in Hel. destruct Hel as [Hk Hel].
    destruct k as [s|name al ks0]; [discriminate|].
    cbn [flat_map]. rewrite <- app_assoc. rewrite itree_elem. specialize (IH Hel).
    set (R := flat_map (fun k => itext ind D ++ [itree ind D k]) ks ++ itext ind d) in *. clearbody R.
    destruct ind as [|c i]; cbn [itext app merge_texts xp_null]; rewrite IH; reflexivity.
Qed.

Lemma merge_ikids ind d ks : kids_shape ks = true -> forallb wf ks = true -> merge_texts (ikids ind d ks) = ikids ind d ks.
Proof.
  intros Hsh Hwf. unfold ikids, kids_shape in *. apply orb_true_iff in Hsh. destruct Hsh as [Hsh|Hsh].
  - destruct (existsb is_elem ks) eqn:Ex; [apply merge_elems; exact Hsh|].
    clear Hwf Ex. induction ks as [|k ks IH]; [reflexivity|]. cbn [forallb] in Hsh. apply andb_true_iff in Hsh.
    destruct Hsh as [Hk Hsh]. destruct k as [s|name al ks0]; [discriminate|]. cbn [merge_texts]. rewrite (IH Hsh). reflexivity.
  - destruct ks as [|[s|? ? ?] [|? ?]]; try discriminate.
    cbn [existsb is_elem orb]. cbn [forallb wf] in Hwf. destruct s as [|c s]; [discriminate|]. reflexivity.
Qed.

(* ================= names made of [name_byte2] bytes ================= *)
Fixpoint names2 (n : xnode) : bool :=
  match n with
  | XText _ => true
  | XElem name al ks => local_ok2 (x_local name) && forallb aloc_ok2 al && forallb names2 ks
  end.

(* ================= the tree lemma ================= *)
Definition parses2w (n : xnode) : Prop :=
  wf n = true -> names2 n = true -> is_elem n = true -> forall ind d f env rest, indent_ok ind = true -> env_ok env ->
  (length (print_node print_name ind d n ++ rest) <= f)%nat ->
  parse_kids2 (S f) env (print_node print_name ind d n ++ rest) = cons_node (itree ind d n) (parse_kids2 f env rest).

Lemma pk2w_elems ind D d env tail : indent_ok ind = true -> env_ok env -> (exists r, tail = 60 :: 47 :: r) ->
  forall ks, Forall parses2w ks -> forallb wf ks = true -> forallb names2 ks = true -> forallb is_elem ks = true ->
  forall F, (length (flat_map (fun k => indent_str ind D ++ print_node print_name ind D k) ks ++ indent_str ind d ++ tail) < F)%nat ->
  parse_kids2 F env (flat_map (fun k => indent_str ind D ++ print_node print_name ind D k) ks ++ indent_str ind d ++ tail)
  = Some (flat_map (fun k => itext ind D ++ [itree ind D k]) ks ++ itext ind d, tail).
Proof.
  intros Hi He (r & ->). induction ks as [|k ks IH]; intros HP Hwf Hnm Hel F HF.
  - cbn [flat_map app] in *.
    destruct (pk2w_indent F env ind d (60 :: 47 :: r) Hi eq_refl HF) as (F' & HF' & E). rewrite E.
    destruct F' as [|f']; [lia|]. rewrite pk2_end. cbn [app_nodes]. rewrite app_nil_r. reflexivity.
  - inversion HP as [|? ? Pk Pks]; subst.
    cbn [forallb] in Hwf, Hnm, Hel. apply andb_true_iff in Hwf. destruct Hwf as [Wk Wks].
    apply andb_true_iff in Hnm. destruct Hnm as [Nk Nks].
    apply andb_true_iff in Hel. destruct Hel as [Ek Eks].
    cbn [flat_map] in HF |- *. repeat rewrite <- app_assoc in HF. repeat rewrite <- app_assoc.
    set (rest' := flat_map (fun k0 => indent_str ind D ++ print_node print_name ind D k0) ks ++ indent_str ind d ++ 60 :: 47 :: r) in *.
    destruct (pk2w_indent F env ind D (print_node print_name ind D k ++ rest') Hi (print_elem_hd ind D k rest' Ek) HF) as (F' & HF' & E).
    rewrite E. destruct F' as [|f']; [lia|].
    rewrite (Pk Wk Nk Ek ind D f' env rest' Hi He) by lia.
    pose proof (print_elem_longer ind D k rest' Ek) as Hlen.
    rewrite (IH Pks Wks Nks Eks f') by lia.
    cbn [cons_node app_nodes]. reflexivity.
Qed.

Lemma parse_node2w n : parses2w n.
Proof.
  induction n as [s|name al ks IH] using xnode_ind'; intros Hwf Hnm Hel ind d f env rest Hi He Hf; [discriminate|].
  pose proof Hwf as Hwf0.
  cbn [wf] in Hwf. apply andb_true_iff in Hwf. destruct Hwf as [Hwf Hks]. apply andb_true_iff in Hwf. destruct Hwf as [Hwf Hsh].
  apply andb_true_iff in Hwf. destruct Hwf as [Hn Ha].
  cbn [names2] in Hnm. apply andb_true_iff in Hnm. destruct Hnm as [Hnm Nks]. apply andb_true_iff in Hnm. destruct Hnm as [Nn Na].
  destruct (ename_translate env name He Hn) as (Hl & Ht). destruct (attrs_translate env al He Ha) as (A1 & A2 & A3).
  rewrite print_elem_eq in *. rewrite itree_elem.
  assert (Hlen : (length (content ind d ks ++ end_tag name ++ rest) < f)%nat).
  { cbn [app] in Hf. repeat (rewrite app_length in Hf || cbn [length] in Hf). rewrite !app_length. lia. }
  assert (Hal : (length al < f)%nat).
  { pose proof (print_attrs_length al) as Hp. cbn [app] in Hf. repeat (rewrite app_length in Hf || cbn [length] in Hf). lia. }
  apply pk2w_elem; try assumption; rewrite ?A2; try assumption.
  { apply merge_ikids; assumption. }
  unfold content, ikids, kids_shape in *. apply orb_true_iff in Hsh. destruct Hsh as [Hsh|Hsh].
  - destruct ks as [|k ks'].
    + cbn [existsb flat_map app]. rewrite end_tag_eq. destruct f as [|f]; [lia|]. apply pk2_end.
    + assert (Ex : existsb is_elem (k :: ks') = true).
      { cbn [forallb] in Hsh. apply andb_true_iff in Hsh. destruct Hsh as [Hk _]. cbn [existsb]. rewrite Hk. reflexivity. }
      rewrite Ex in *. rewrite <- app_assoc in *.
      apply pk2w_elems; try assumption. rewrite end_tag_eq. eexists. reflexivity.
  - destruct ks as [|[s|? ? ?] [|? ?]]; try discriminate.
    cbn [existsb is_elem orb flat_map print_node] in *. rewrite app_nil_r in *.
    cbn [forallb wf] in Hks. destruct s as [|c s]; [discriminate|].
    destruct (esc_text_hd c s) as (c' & r' & Ee & Hc').
    destruct f as [|f]; [lia|].
    assert (Hu : unesc2 None (esc_text (c :: s) ++ end_tag name ++ rest) = Some (c :: s, end_tag name ++ rest)).
    { apply unesc2_esc_text. rewrite end_tag_eq. reflexivity. }
    rewrite Ee in *. cbn [app] in *. rewrite (pk2_text f env c' _ _ _ Hc' Hu).
    rewrite end_tag_eq in *. destruct f as [|f]; [cbn [length] in Hlen; lia|]. rewrite pk2_end. reflexivity.
Qed.

(* ================= the root element ================= *)
Lemma root_start_tt X : root_start (60 :: print_name (nm ns_ttml s_tt) ++ X).
Proof. change (print_name (nm ns_ttml s_tt)) with s_tt. split; reflexivity. Qed.

Lemma parse2_root lang ks ind : indent_ok ind = true ->
  forallb wf ks = true -> forallb names2 ks = true -> forallb is_elem ks = true -> ks <> [] ->
  xml_parse2 (print_node print_name ind 0 (XElem (nm ns_ttml s_tt) (root_attrs lang) ks))
  = Some (itree ind 0 (XElem (nm ns_ttml s_tt) (root_attrs lang) ks)).
Proof.
  intros Hi Hwf Hnm Hel Hne.
  rewrite <- (app_nil_r (print_node print_name ind 0 (XElem (nm ns_ttml s_tt) (root_attrs lang) ks))).
  rewrite print_elem_eq, itree_elem. cbn [app].
  unfold xml_parse2. cbv zeta.
  set (body := print_name (nm ns_ttml s_tt) ++ flat_map (print_attr print_name) (root_attrs lang)
               ++ 62 :: content ind 0 ks ++ end_tag (nm ns_ttml s_tt) ++ []).
  set (F := length (60 :: body)).
  rewrite (skip_misc_stop F (60 :: body) (root_start_tt _)).
  change (60 =? 60) with true. cbv iota.
  assert (Hlen : (length (content ind 0 ks ++ end_tag (nm ns_ttml s_tt) ++ []) < S F)%nat).
  { unfold F, body. cbn [length]. rewrite !app_length. cbn [length]. rewrite !app_length. lia. }
  assert (Hal : (length (root_attrs lang) < S F)%nat).
  { pose proof (print_attrs_length (root_attrs lang)) as Hp. unfold F, body. cbn [length]. rewrite !app_length. lia. }
  assert (Eenv : ext_env [] (split_attrs (root_attrs lang)) = root_env) by (destruct lang as [[|c r]|]; reflexivity).
  unfold body.
  rewrite (pe2w (S F) [] (nm ns_ttml s_tt) (root_attrs lang) (content ind 0 ks) (ikids ind 0 ks) []).
  - reflexivity.
  - reflexivity.
  - destruct lang as [[|c r]|]; reflexivity.
  - exact Hal.
  - rewrite Eenv. reflexivity.
  - rewrite Eenv. destruct lang as [[|c r]|]; reflexivity.
  - apply merge_ikids; [|exact Hwf]. unfold kids_shape. rewrite Hel. reflexivity.
  - rewrite Eenv. unfold content, ikids in *.
    assert (Ex : existsb is_elem ks = true).
    { destruct ks as [|k ks']; [contradiction|]. cbn [forallb] in Hel. apply andb_true_iff in Hel. destruct Hel as [Hk _].
      cbn [existsb]. rewrite Hk. reflexivity. }
    rewrite Ex in *. rewrite <- app_assoc in *.
    apply pk2w_elems; try assumption.
    + exact root_env_ok.
    + rewrite end_tag_eq. eexists. reflexivity.
    + apply Forall_forall. intros k _. apply parse_node2w.
Qed.

(* ================= the names of the written tree ================= *)
Lemma names2_elem name al ks : local_ok2 (x_local name) = true -> forallb aloc_ok2 al = true -> forallb names2 ks = true ->
  names2 (XElem name al ks) = true.
Proof. intros H1 H2 H3. cbn [names2]. rewrite H1, H2, H3. reflexivity. Qed.

Lemma opt_attr_n2 sp l v : local_ok2 l = true -> forallb aloc_ok2 (opt_attr sp l v) = true.
Proof. intros H. destruct v as [[|c r]|]; try reflexivity. cbn [opt_attr forallb]. unfold aloc_ok2. cbn [fst nm x_local]. rewrite H. reflexivity. Qed.
Lemma out_attrs_n2 a : forallb aloc_ok2 (out_attrs a) = true.
Proof.
  unfold out_attrs. rewrite forallb_app. apply andb_true_iff. split.
  - assert (Hn : forallb local_ok2 attr_names = true) by (vm_compute; reflexivity).
    generalize dependent (ta_s a). generalize dependent attr_names. clear a.
    induction l as [|n names IH]; intros Hn vs; [reflexivity|]. destruct vs as [|v vs]; [reflexivity|].
    cbn [forallb] in Hn. apply andb_true_iff in Hn. destruct Hn as [Hn1 Hn2].
    cbn [combine flat_map]. rewrite forallb_app, (IH Hn2 vs), andb_true_r. cbn [snd fst].
    destruct v as [v|]; [|reflexivity]. cbn [forallb]. unfold aloc_ok2. cbn [fst nm x_local]. rewrite Hn1. reflexivity.
  - destruct (ta_z a); reflexivity.
Qed.

Lemma out_header_n2 el s : local_ok2 el = true -> names2 (out_header el s) = true.
Proof.
  intros He. unfold out_header. apply names2_elem; [exact He | | reflexivity].
  rewrite !forallb_app, !opt_attr_n2, out_attrs_n2 by reflexivity. reflexivity.
Qed.
Lemma out_run_n2 r : names2 (out_run r) = true.
Proof.
  unfold out_run. apply names2_elem; [reflexivity | |].
  - rewrite forallb_app, opt_attr_n2, out_attrs_n2 by reflexivity. reflexivity.
  - destruct (tr_txt r); reflexivity.
Qed.
Lemma out_lines_n2 ls : forallb names2 (out_lines ls) = true.
Proof.
  unfold out_lines. apply forallb_removelast. apply forallb_flat_map. intros l. rewrite forallb_app.
  rewrite (forallb_map_all names2 out_run l out_run_n2). reflexivity.
Qed.
Lemma out_p_n2 it : names2 (out_p it) = true.
Proof.
  unfold out_p. apply names2_elem; [reflexivity | | apply out_lines_n2].
  rewrite !forallb_app, !opt_attr_n2, out_attrs_n2 by reflexivity. reflexivity.
Qed.
Lemma md_of_n2 m : forallb names2 (md_of m) = true.
Proof.
  destruct m as [[fr t c l]|]; [|reflexivity]. unfold md_of. cbn [tm_copyright tm_title].
  destruct c as [|c0 c]; destruct t as [|t0 t]; reflexivity.
Qed.
Lemma headers_n2 el m : local_ok2 el = true -> forallb names2 (headers el m) = true.
Proof. intros He. unfold headers. apply forallb_map_all. intros kv. apply out_header_n2. exact He. Qed.

Lemma skel_names2 d :
  forallb names2 (skel (md_of (td_meta d)) (headers s_style (sort_keys (td_styles d))) (headers s_region (sort_keys (td_regions d)))
                       (map out_p (td_items d))) = true.
Proof.
  unfold skel. cbn [forallb]. rewrite !andb_true_r. apply andb_true_iff. split.
  - apply names2_elem; [reflexivity | reflexivity|]. rewrite forallb_app, md_of_n2. cbn [forallb andb].
    rewrite !names2_elem; try reflexivity; apply headers_n2; reflexivity.
  - apply names2_elem; [reflexivity | reflexivity|]. cbn [forallb]. rewrite andb_true_r.
    apply names2_elem; [reflexivity | reflexivity|]. apply forallb_map_all. exact out_p_n2.
Qed.

(* ================= the theorems ================= *)
Theorem parse2_written : forall d ind b, indent_ok ind = true -> write_ttml_bytes ind d = Ok b ->
  exists t, write_ttml d = Ok t /\ xml_parse2 b = Some (indent_doc ind t).
Proof.
  intros d ind b Hi Hw. unfold write_ttml_bytes in Hw.
  destruct (td_items d) as [|i0 its] eqn:Ei.
  { unfold write_ttml in Hw. rewrite Ei in Hw. discriminate. }
  assert (Hne : td_items d <> []) by (rewrite Ei; discriminate).
  rewrite (write_ttml_eq d Hne) in Hw. cbn [bind] in Hw.
  assert (Eb : b = print_node print_name ind 0 (written_tree d)) by congruence. subst b. clear Hw.
  exists (written_tree d). split; [apply write_ttml_eq; exact Hne|].
  rewrite <- itree_doc. unfold written_tree.
  destruct (good_split _ (skel_good d)) as [Hwf Hel].
  apply parse2_root; try assumption; [apply skel_names2 | unfold skel; discriminate].
Qed.

(* on the writer's bytes the two parser models give the same tree *)
Corollary parse2_agrees_written : forall d ind b, indent_ok ind = true -> write_ttml_bytes ind d = Ok b ->
  xml_parse2 b = xml_parse b.
Proof.
  intros d ind b Hi Hw.
  destruct (parse2_written d ind b Hi Hw) as (t2 & Ht2 & E2).
  destruct (parse_written d ind b Hi Hw) as (t1 & Ht1 & E1).
  assert (Et : t2 = t1) by congruence. subst t2. rewrite E2, E1. reflexivity.
Qed.

(* the same for any tree of the class under the writer's root element *)
Theorem parse2_wf_root : forall lang ks ind, indent_ok ind = true ->
  forallb wf ks = true -> forallb names2 ks = true -> forallb is_elem ks = true -> ks <> [] ->
  xml_parse2 (print_node print_name ind 0 (XElem (nm ns_ttml s_tt) (root_attrs lang) ks))
  = Some (indent_doc ind (XElem (nm ns_ttml s_tt) (root_attrs lang) ks)).
Proof. intros lang ks ind Hi Hwf Hnm Hel Hne. rewrite <- itree_doc. apply parse2_root; assumption. Qed.
Theorem written_tree_names2 : forall d, forallb names2 (elem_kids (written_tree d)) = true.
Proof. intros d. exact (skel_names2 d). Qed.

(* ================= sanity ================= *)
Definition parses2_back (ind : str) (d : tdoc) : Prop :=
  match write_ttml_bytes ind d, write_ttml d with
  | Ok b, Ok t => xml_parse2 b = Some (indent_doc ind t)
  | _, _ => False
  end.
Example parse2w_ex_doc : parses2_back [32; 32] ex_doc.
Proof. vm_compute. reflexivity. Qed.
Example parse2w_ex_doc_flat : parses2_back [] ex_doc.
Proof. vm_compute. reflexivity. Qed.
Example parse2w_ex_doc_tab : parses2_back [9] ex_doc.
Proof. vm_compute. reflexivity. Qed.

(* every byte EscapeText treats specially, in a run text and in attribute values (style references, region) *)
Definition esc_bytes : str := [9; 10; 13; 34; 39; 38; 60; 62].
Definition esc_doc : tdoc :=
  mkDoc None [] [] [mkItem 0 1000000000 (Some esc_bytes) None no_attrs [[mkRun esc_bytes (Some (esc_bytes ++ [93; 93])) no_attrs]]].
Example parse2w_esc_doc : parses2_back [32; 32] esc_doc.
Proof. vm_compute. reflexivity. Qed.
Example parse2w_esc_doc_flat : parses2_back [] esc_doc.
Proof. vm_compute. reflexivity. Qed.
(* the run text as the extended parser returns it: the original bytes *)
Example parse2w_esc_text :
  match write_ttml_bytes [] esc_doc with
  | Ok b => match xml_parse2 b with
            | Some t => map direct_text (map elem_kids (path_elems [s_body; s_div; s_p; s_span] (elem_kids t))) = [esc_bytes]
            | None => False
            end
  | _ => False
  end.
Proof. vm_compute. reflexivity. Qed.
(* and the bytes on the wire: numeric references for tab, LF, CR and the quotes *)
Example esc_doc_bytes_span :
  match write_ttml_bytes [] esc_doc with
  | Ok b => existsb (has_prefix (esc_text esc_bytes))
                    (map (fun n => skipn n b) (seq 0 (length b))) = true
            /\ esc_text esc_bytes = [38;35;120;57;59; 38;35;120;65;59; 38;35;120;68;59; 38;35;51;52;59; 38;35;51;57;59;
                                     38;97;109;112;59; 38;108;116;59; 38;103;116;59]
  | _ => False
  end.
Proof. vm_compute. split; reflexivity. Qed.

Print Assumptions unesc2_esc.
Print Assumptions parse2_agrees_written.
Print Assumptions parse2_written.
