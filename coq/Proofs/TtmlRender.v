(* C03: the document-level specification objects of the composite reading theorem: a ground-truth TTML model as in
   the property's quantifier, a rendering record holding every syntactic freedom (time-expression syntax per
   boundary, indentation / any text between structural elements, <br/> inside or outside spans through the content
   groups of TtmlSpec.v, name-space assignment, attribute order, section order), the rendered tree, what it
   denotes, and the decidable check a rendering must satisfy.  Definitions only. *)
From Coq Require Import List ZArith NArith Bool.
From Astisub Require Import Kit.Base Kit.Str Kit.Float64 Kit.Float64x Kit.Xml Model.Dur Model.Ttml
  Proofs.TtmlSpec Proofs.TtmlTime Proofs.TtmlRefs Proofs.TtmlDocSpec Proofs.TtmlPara.
Import ListNotations.
Open Scope Z_scope.

(* ================= time expressions ================= *)
Inductive texpr :=
| TClock (hs ms ss fs : str)          (* hours:minutes:seconds[.fraction of 1-3 digits] *)
| TClockFrames (hs ms ss fds : str)   (* hours:minutes:seconds:frames *)
| TOffset (ip fp : str) (m : metric). (* digits[.digits] h|m|s|ms|f|t *)
Definition texpr_str (e : texpr) : str :=
  match e with
  | TClock hs ms ss fs => clock_expr hs ms ss fs
  | TClockFrames hs ms ss fds => clock_frames_expr hs ms ss fds
  | TOffset ip fp m => offset_expr ip fp m
  end.
Definition digitsb (s : str) : bool := forallb is_digit s.
Definition field_ok (s : str) : bool := digitsb s && negb (null s) && (dval s <=? max_int64).
Definition two53 : Z := 2 ^ 53.
Definition two49 : Z := 2 ^ 49.
Definition pow10n (fp : str) : Z := 10 ^ Z.of_nat (length fp).
(* side conditions of the time theorems, as a boolean *)
Definition texpr_okb0 (fr tr : Z) (e : texpr) : bool :=
  match e with
  | TClock hs ms ss fs =>
    field_ok hs && field_ok ms && field_ok ss && digitsb fs && Nat.leb (length fs) 3 && (dval fs <=? max_int64)
  | TClockFrames hs ms ss fds =>
    field_ok hs && field_ok ms && field_ok ss && digitsb fds && negb (null fds) && (dval fds <? two53)
    && (0 <? fr) && (fr <? two53) && (dval fds * second_ns <? two49 * fr)
  | TOffset ip fp m =>
    let n := dec_mant ip fp in
    digitsb ip && digitsb fp && negb (null ip) && (n <? two53) && Nat.leb (length fp) 22
    && match m with
       | Mf => (n =? 0) || ((0 <? fr) && (fr <? two53) && (n * second_ns <? two49 * (pow10n fp * fr)))
       | Mt => (n =? 0) || ((0 <? tr) && (tr <? two53) && (n * second_ns <? two49 * (pow10n fp * tr)))
       | _ => n * timebase m <? two49 * pow10n fp
       end
  end.
(* the integer the parser returns, in closed form (the binary64 terms of TtmlSpec.v) *)
Definition texpr_time (fr tr : Z) (e : texpr) : Z :=
  match e with
  | TClock hs ms ss fs => hms_ns hs ms ss + frac_ns fs
  | TClockFrames hs ms ss fds =>
    hms_ns hs ms ss + if (0 <? dval fds) && (0 <? fr) then frames_term (dval fds) fr else 0
  | TOffset ip fp m =>
    match m with
    | Mf => if dec_mant ip fp =? 0 then 0 else frames_val_term (parse_dec ip fp) fr
    | Mt => if dec_mant ip fp =? 0 then 0 else ticks_val_term (parse_dec ip fp) tr
    | _ => offset_term ip fp m
    end
  end.
(* ... and the result fits Go's int64 nanoseconds (time.Duration arithmetic wraps silently beyond it; every partial
   sum of the parser is non-negative and at most the result) *)
Definition texpr_okb (fr tr : Z) (e : texpr) : bool := texpr_okb0 fr tr e && (texpr_time fr tr e <=? max_int64).
(* the instant the expression means, as a fraction (numerator, denominator) of nanoseconds *)
Definition texpr_exact (fr tr : Z) (e : texpr) : Z * Z :=
  match e with
  | TClock hs ms ss fs => (hms_ns hs ms ss + frac_ns fs, 1)
  | TClockFrames hs ms ss fds => (hms_ns hs ms ss * fr + dval fds * second_ns, fr)
  | TOffset ip fp m =>
    let n := dec_mant ip fp in
    match m with
    | Mf => if n =? 0 then (0, 1) else (n * second_ns, pow10n fp * fr)
    | Mt => if n =? 0 then (0, 1) else (n * second_ns, pow10n fp * tr)
    | _ => (n * timebase m, pow10n fp)
    end
  end.
(* the expression means the model's instant g (a fraction): equal fractions, positive denominators *)
Definition same_instant (g x : Z * Z) : bool :=
  (0 <? snd g) && (0 <? snd x) && (fst g * snd x =? fst x * snd g).

(* ================= ground-truth model ================= *)
Record gitem := mkG { gi_begin : Z * Z; gi_end : Z * Z; gi_region : option str; gi_style : option str;
                      gi_attrs : tattrs; gi_lines : list (list trun) }.
Record gdoc := mkGD { gd_framerate : Z; gd_tickrate : Z; gd_title : str; gd_copyright : str;
                      gd_lang : option (str * str);        (* (code, language) of ttmlLanguageMapping, or none *)
                      gd_styles : list tstyle;              (* in document order; ts_ref = parent *)
                      gd_regions : list tstyle;             (* ts_ref = style *)
                      gd_items : list gitem }.

(* ================= rendering ================= *)
Record rpara := mkRP { rp_begin : texpr; rp_end : texpr;
                       rp_attrs : list xattr;               (* the attributes as written: any order *)
                       rp_groups : list group; rp_wl : str  (* the content: TtmlSpec.v *) }.
Record rendering := mkR {
  r_space : xname -> str;                 (* the name space given to every element and attribute name *)
  r_root_attrs : list xattr;              (* attributes of tt as written *)
  r_root_extra : list xattr;              (* further attributes of tt (name-space declarations, ...) *)
  r_lang_rest : str;                      (* what follows the language code in xml:lang *)
  r_lang_other : option str;              (* xml:lang when the model has no mapped language *)
  r_fr_attr : bool; r_tr_attr : bool;     (* frameRate / tickRate written although 0 *)
  r_sections : list nat;                  (* order of metadata (0), styling (1), layout (2) inside head *)
  r_title_first : bool;
  r_style_attrs : list (list xattr);      (* attributes of each style element as written *)
  r_region_attrs : list (list xattr);
  r_paras : list rpara;
  (* any character data between structural elements (indentation or anything else): one list per level *)
  r_ws_root : list str; r_ws_head : list str; r_ws_meta : list str; r_ws_styling : list str;
  r_ws_layout : list str; r_ws_body : list str; r_ws_div : list str }.

(* character data woven between (and around) the children *)
Fixpoint weave (ws : list str) (ks : list xnode) : list xnode :=
  match ks with
  | [] => text_kids (hd [] ws)
  | k :: r => text_kids (hd [] ws) ++ k :: weave (tl ws) r
  end.
(* structural elements carry a marker as their (provisional) name space, so that the rendering's name-space
   assignment [r_space] can tell an element name from an attribute name with the same local name (style) *)
Definition el_mark : str := [101]%N.
Definition el (l : str) (al : list xattr) (ks : list xnode) : xnode := XElem (mkName el_mark l) al ks.

(* canonical attribute lists (what the values amount to); the written lists are permutations of them *)
Definition hdr_attrs (s : tstyle) : list xattr :=
  opt_attr [] s_id (Some (ts_id s)) ++ opt_attr [] s_style (ts_ref s) ++ out_attrs (ts_attrs s).
Definition para_attrs (g : gitem) (p : rpara) : list xattr :=
  [(mkName [] s_begin, texpr_str (rp_begin p)); (mkName [] s_end, texpr_str (rp_end p))]
  ++ opt_attr [] s_region (gi_region g) ++ opt_attr [] s_style (gi_style g) ++ out_attrs (gi_attrs g).
Definition lang_value (r : rendering) (m : gdoc) : option str :=
  match gd_lang m with Some (code, _) => Some (code ++ r_lang_rest r) | None => r_lang_other r end.
Definition int_attr_of (l : str) (force : bool) (v : Z) : list xattr :=
  if force || negb (v =? 0) then [(mkName [] l, itoa_z v)] else [].
Definition rroot_attrs (r : rendering) (m : gdoc) : list xattr :=
  match lang_value r m with Some v => [(mkName [] s_lang, v)] | None => [] end
  ++ int_attr_of s_frameRate (r_fr_attr r) (gd_framerate m) ++ int_attr_of s_tickRate (r_tr_attr r) (gd_tickrate m)
  ++ r_root_extra r.

Definition render_para (p : rpara) : xnode := el s_p (rp_attrs p) (render_content (rp_groups p) (rp_wl p)).
Definition render_meta (r : rendering) (m : gdoc) : xnode :=
  let t := el s_title [] (text_kids (gd_title m)) in
  let c := el s_copyright [] (text_kids (gd_copyright m)) in
  el s_metadata [] (weave (r_ws_meta r) (if r_title_first r then [t; c] else [c; t])).
Definition render_section (r : rendering) (m : gdoc) (i : nat) : xnode :=
  match i with
  | O => render_meta r m
  | S O => el s_styling [] (weave (r_ws_styling r) (map (fun al => el s_style al []) (r_style_attrs r)))
  | _ => el s_layout [] (weave (r_ws_layout r) (map (fun al => el s_region al []) (r_region_attrs r)))
  end.
Definition render_tree (r : rendering) (m : gdoc) : xnode :=
  el s_tt (r_root_attrs r)
     (weave (r_ws_root r)
            [el s_head [] (weave (r_ws_head r) (map (render_section r m) (r_sections r)));
             el s_body [] (weave (r_ws_body r) [el s_div [] (weave (r_ws_div r) (map render_para (r_paras r)))])]).
(* the rendered document: the tree with the rendering's name spaces on every name *)
Definition render_ttml (r : rendering) (m : gdoc) : xnode := respace (r_space r) (render_tree r m).

(* ================= denotation ================= *)
Definition denote_item (fr tr : Z) (g : gitem) (p : rpara) : titem :=
  mkItem (texpr_time fr tr (rp_begin p)) (texpr_time fr tr (rp_end p)) (gi_region g) (gi_style g) (gi_attrs g) (gi_lines g).
Definition denote_ttml (r : rendering) (m : gdoc) : tdoc :=
  mkDoc (Some (mkMeta (gd_framerate m) (gd_title m) (gd_copyright m)
                      (match gd_lang m with Some (_, name) => name | None => [] end)))
        (map (fun s => (ts_id s, s)) (gd_styles m))
        (map (fun s => (ts_id s, s)) (gd_regions m))
        (map (fun gp => denote_item (gd_framerate m) (gd_tickrate m) (fst gp) (snd gp)) (combine (gd_items m) (r_paras r))).

(* ================= the check ================= *)
Definition xname_eqb' (a b : xname) : bool := str_eqb (x_space a) (x_space b) && str_eqb (x_local a) (x_local b).
Definition xattr_eqb (a b : xattr) : bool := xname_eqb' (fst a) (fst b) && str_eqb (snd a) (snd b).
Fixpoint rnodupb (l : list str) : bool :=
  match l with [] => true | a :: r => negb (existsb (str_eqb a) r) && rnodupb r end.
(* [actual] is [canon] in another order; local names pairwise distinct *)
Definition attrs_perm_ok (canon actual : list xattr) : bool :=
  Nat.eqb (length canon) (length actual) && rnodupb (map attr_local canon) && rnodupb (map attr_local actual)
  && forallb (fun a => existsb (xattr_eqb a) actual) canon.
Definition ostr_eqb (a b : option str) : bool :=
  match a, b with Some x, Some y => str_eqb x y | None, None => true | _, _ => false end.
Definition oz_eqb (a b : option Z) : bool :=
  match a, b with Some x, Some y => x =? y | None, None => true | _, _ => false end.
Fixpoint list_eqb {A} (f : A -> A -> bool) (a b : list A) : bool :=
  match a, b with [] , [] => true | x :: a', y :: b' => f x y && list_eqb f a' b' | _, _ => false end.
Definition tattrs_eqb (a b : tattrs) : bool := list_eqb ostr_eqb (ta_s a) (ta_s b) && oz_eqb (ta_z a) (ta_z b).
Definition trun_eqb (a b : trun) : bool :=
  str_eqb (tr_txt a) (tr_txt b) && ostr_eqb (tr_style a) (tr_style b) && tattrs_eqb (tr_attrs a) (tr_attrs b).
Definition ttok_eqb (a b : ttok) : bool :=
  match a, b with TBrk, TBrk => true | TRun x, TRun y => trun_eqb x y | _, _ => false end.

Definition sections_ok (l : list nat) : bool :=
  existsb (list_eqb Nat.eqb l) [[0;1;2]; [0;2;1]; [1;0;2]; [1;2;0]; [2;0;1]; [2;1;0]]%nat.
Definition root_extra_ok (l : list xattr) : bool :=
  forallb (fun a => negb (str_eqb (attr_local a) s_lang) && negb (str_eqb (attr_local a) s_frameRate)
                    && negb (str_eqb (attr_local a) s_tickRate)) l.
Definition int64b (z : Z) : bool := (- max_int64 - 1 <=? z) && (z <=? max_int64).
Definition lang_ok (r : rendering) (m : gdoc) : bool :=
  match gd_lang m with
  | Some (code, name) => existsb (fun kv => str_eqb (fst kv) code && str_eqb (snd kv) name) lang_table
  | None => match r_lang_other r with Some v => null (lang_of v) | None => true end
  end.
Definition header_check (styles : list (str * tstyle)) (s : tstyle) (al : list xattr) : bool :=
  ref_in styles (ts_ref s) && attrs_ok (ts_attrs s) && attrs_perm_ok (hdr_attrs s) al.
Definition para_check (fr tr : Z) (styles regions : list (str * tstyle)) (g : gitem) (p : rpara) : bool :=
  texpr_okb fr tr (rp_begin p) && texpr_okb fr tr (rp_end p)
  && same_instant (gi_begin g) (texpr_exact fr tr (rp_begin p)) && same_instant (gi_end g) (texpr_exact fr tr (rp_end p))
  && ref_in regions (gi_region g) && ref_in styles (gi_style g) && attrs_ok (gi_attrs g)
  && attrs_perm_ok (para_attrs g p) (rp_attrs p)
  && content_ok (rp_groups p) (rp_wl p) && forallb (group_style_ok styles) (rp_groups p)
  && negb (null (gi_lines g)) && list_eqb ttok_eqb (flat_map group_toks (rp_groups p)) (lines_toks (gi_lines g)).
Definition render_ok (r : rendering) (m : gdoc) : bool :=
  let styles := map (fun s => (ts_id s, s)) (gd_styles m) in
  let regions := map (fun s => (ts_id s, s)) (gd_regions m) in
  int64b (gd_framerate m) && int64b (gd_tickrate m) && lang_ok r m && sections_ok (r_sections r)
  && root_extra_ok (r_root_extra r) && attrs_perm_ok (rroot_attrs r m) (r_root_attrs r)
  && rnodupb (map ts_id (gd_styles m)) && rnodupb (map ts_id (gd_regions m))
  && Nat.eqb (length (r_style_attrs r)) (length (gd_styles m))
  && Nat.eqb (length (r_region_attrs r)) (length (gd_regions m))
  && Nat.eqb (length (r_paras r)) (length (gd_items m))
  && forallb (fun sa => header_check styles (fst sa) (snd sa)) (combine (gd_styles m) (r_style_attrs r))
  && forallb (fun sa => header_check styles (fst sa) (snd sa)) (combine (gd_regions m) (r_region_attrs r))
  && forallb (fun gp => para_check (gd_framerate m) (gd_tickrate m) styles regions (fst gp) (snd gp))
             (combine (gd_items m) (r_paras r)).
