(* C07, WebVTT -> SubRip for TAGGED documents (second audit, item (i)6).
   [vtt_to_srt] (ConvProofs.v) asks [Forall repr_item (conv_vs (ndoc d so ro))]; that holds only when every line is ONE
   untagged run: a tagged run becomes a SubRip run with an attribute-less style (excluded by repr_run), and two untagged
   runs in one line (an inline timestamp splits a line into two such runs) are adjacent unstyled runs (excluded by no_adj).
   The SubRip writer emits an attribute-less styled run exactly like an unstyled one (no tag, the escaped text), so the
   bytes it writes for conv_vs are those of the MERGED conversion conv_vs_m -- each line one unstyled run holding the line's
   text -- provided no run text ends with the byte 0xC2 (the writer escapes run by run and the no-break space is the two
   bytes C2 A0; every valid UTF-8 text satisfies it).  Stated on conv_vs_m the theorem covers tags, classes, voices, inline
   timestamps, settings, regions. *)
From Coq Require Import List ZArith NArith Bool Lia.
From Astisub Require Import Kit.Base Kit.Str Kit.Scan Model.Dur Model.Srt Model.Vtt Model.Conv Model.ConvSsaVtt.
From Astisub Require Import Proofs.SrtProofs Proofs.VttLine Proofs.VttDoc Proofs.ConvProofs Proofs.ConvSsaVttProofs.
Import ListNotations.
Open Scope N_scope.

Lemma forallb_map' {A B} (f : B -> bool) (g : A -> B) l : forallb f (map g l) = forallb (fun x => f (g x)) l.
Proof. induction l as [|x r IH]; [reflexivity|]. cbn [map forallb]. rewrite IH. reflexivity. Qed.
Lemma forallb_ext' {A} (f g : A -> bool) l : (forall x, f x = g x) -> forallb f l = forallb g l.
Proof. intros H. induction l as [|x r IH]; [reflexivity|]. cbn [forallb]. rewrite H, IH. reflexivity. Qed.

Definition vs_line_m (l : vline) : list srun := [mkSrun (vline_text l) None 0].
Definition vs_item_m (it : vitem) : sitem := mkSitem (vi_idx it) (vi_st it) (vi_en it) (map vs_line_m (vi_lines it)).
Definition conv_vs_m (d : vdoc) : list sitem := map vs_item_m (vd_items d).
(* no run text ends with the first byte of the no-break space *)
Definition vs_join_ok (d : vdoc) : bool :=
  forallb (fun it => forallb (fun l => forallb (fun r => negb (ends_c2 (vr_text r))) (vl_runs l)) (vi_lines it)) (vd_items d).

Lemma vs_run_bytes r : run_bytes (vs_run r) = escape_html (vr_text r).
Proof.
  unfold vs_run, run_bytes. cbn [sr_sty sr_pos sr_text]. destruct (vr_tags r); cbn [sa0 sa_col sa_b sa_i sa_u N.eqb app];
    rewrite ?app_nil_r; reflexivity.
Qed.
Lemma vs_line_bytes l : forallb (fun r => negb (ends_c2 (vr_text r))) (vl_runs l) = true ->
  line_bytes (vs_line l) = line_bytes (vs_line_m l).
Proof.
  intros H. unfold line_bytes, vs_line, vs_line_m. f_equal. rewrite map_map. cbn [map concat]. rewrite app_nil_r.
  unfold run_bytes at 2. cbn [sr_sty sr_pos sr_text N.eqb app]. rewrite app_nil_r. unfold vline_text.
  rewrite escape_html_concat by (rewrite forallb_map'; exact H). rewrite map_map.
  f_equal. apply map_ext. intros r. apply vs_run_bytes.
Qed.
Lemma vs_items_bytes l : forallb (fun it => forallb (fun l => forallb (fun r => negb (ends_c2 (vr_text r))) (vl_runs l)) (vi_lines it)) l = true ->
  forall k, items_bytes k (map vs_item l) = items_bytes k (map vs_item_m l).
Proof.
  induction l as [|it r IH]; intros H k; [reflexivity|]. cbn [forallb] in H. apply andb_true_iff in H. destruct H as [Hit Hr].
  cbn [map items_bytes]. rewrite (IH Hr). unfold vs_item, vs_item_m. cbn [si_st si_en si_lines]. do 6 f_equal.
  rewrite !map_map. f_equal. f_equal. apply map_ext_in. intros l Hl. apply vs_line_bytes. rewrite forallb_forall in Hit. exact (Hit l Hl).
Qed.
(* THE LIBRARY'S BYTES ARE THOSE OF THE MERGED CONVERSION *)
Theorem write_conv_vs_m d : vs_join_ok d = true -> write_srt (conv_vs d) = write_srt (conv_vs_m d).
Proof.
  intros H. unfold write_srt, conv_vs, conv_vs_m. destruct (vd_items d) as [|it r] eqn:E; [reflexivity|].
  cbn [map]. unfold vs_join_ok in H. rewrite E in H.
  pose proof (vs_items_bytes (it :: r) H 0%nat) as Hb. cbn [map] in Hb. rewrite Hb. reflexivity.
Qed.

Lemma text_vs_line_m l : sline_text (vs_line_m l) = vline_text l.
Proof. unfold sline_text, vs_line_m. cbn [map concat sr_text]. apply app_nil_r. Qed.
Lemma view_vs_m_items : forall l k, map sview (renum k (map vs_item_m l)) = map vview_ms l.
Proof.
  induction l as [|it r IH]; intros k; [reflexivity|]. cbn [map renum]. rewrite IH. f_equal.
  unfold sview, new_item, vs_item_m, vview_ms. cbn [si_st si_en si_lines]. unfold SrtProofs.trunc_ms, tms. f_equal.
  rewrite !map_map. apply map_ext. intros x. apply text_vs_line_m.
Qed.

Lemma join_ok_ndoc d so ro : vs_join_ok (ndoc d so ro) = vs_join_ok d.
Proof.
  unfold vs_join_ok, ndoc. cbn [vd_items]. generalize 0%nat. induction (vd_items d) as [|it r IH]; intros k; [reflexivity|].
  cbn [nitems forallb]. rewrite IH. f_equal. unfold nitem. cbn [vi_lines]. rewrite forallb_map'.
  apply forallb_ext'. intros l. unfold nline. cbn [vl_runs]. rewrite forallb_map'. apply forallb_ext'. intros r0.
  unfold nrun. reflexivity.
Qed.

(* WebVTT file -> SubRip file -> read back, for tagged documents too *)
Theorem vtt_to_srt_styled : forall d so ro,
  repr_vdoc d so ro -> vs_join_ok d = true -> Forall repr_item (conv_vs_m (ndoc d so ro)) ->
  exists vtt srt l', write_vtt d so ro = Ok vtt /\ convert_vtt_srt vtt = Ok srt /\ read_srt srt = Ok l' /\
                     map sview l' = map vview_ms (vd_items (ndoc d so ro)) /\
                     length l' = length (vd_items d).
Proof.
  intros d so ro Hd Hj Hs. destruct (write_read_vtt d so ro Hd) as (vtt & Hw & Hr).
  set (l1 := conv_vs_m (ndoc d so ro)) in *.
  assert (Hlen1 : length l1 = length (vd_items d)).
  { unfold l1, conv_vs_m, ndoc. cbn [vd_items]. rewrite map_length. clear. generalize 0%nat.
    induction (vd_items d) as [|x r IH]; intros k; [reflexivity|]. cbn [nitems length]. rewrite IH. reflexivity. }
  assert (Hne : l1 <> []).
  { intros E. rewrite E in Hlen1. cbn in Hlen1. destruct Hd as [Hne' _ _ _ _ _ _]. destruct (vd_items d); [contradiction | discriminate]. }
  assert (Hcount : (Z.of_nat (length l1) <= max_int64)%Z).
  { rewrite Hlen1. destruct Hd as [_ Hc _ _ _ _ _]. exact Hc. }
  destruct (read_write_srt l1 Hs Hne Hcount) as (srt & Hws & Hrs).
  exists vtt, srt, (renumber_truncate l1). split; [exact Hw|]. split.
  - unfold convert_vtt_srt. rewrite Hr. rewrite write_conv_vs_m by (rewrite join_ok_ndoc; exact Hj). exact Hws.
  - split; [exact Hrs|]. split.
    + unfold renumber_truncate, l1, conv_vs_m. apply view_vs_m_items.
    + rewrite <- Hlen1. unfold renumber_truncate. clear. generalize 0%nat. induction l1 as [|x r IH]; intros k; [reflexivity|].
      cbn [renum length]. rewrite IH. reflexivity.
Qed.

(* non-vacuity: the worked WebVTT document of C02 (timestamp map, STYLE block, two regions, a NOTE block, settings, a voice,
   a class tag, an inline timestamp inside a line) satisfies the hypotheses -- while conv_vs of it is NOT representable,
   which is why vtt_to_srt did not cover it *)
Example ex_vtt_to_srt_styled_hyps :
  repr_vdoc ex_doc ex_so ex_ro /\ vs_join_ok ex_doc = true /\ Forall repr_item (conv_vs_m (ndoc ex_doc ex_so ex_ro)) /\
  forallb repr_itemb (conv_vs (ndoc ex_doc ex_so ex_ro)) = false.
Proof.
  split; [exact ex_doc_repr|]. split; [vm_compute; reflexivity|]. split; [|vm_compute; reflexivity].
  apply Forall_forall. intros it Hin. apply repr_itemb_ok.
  assert (H : forallb repr_itemb (conv_vs_m (ndoc ex_doc ex_so ex_ro)) = true) by (vm_compute; reflexivity).
  rewrite forallb_forall in H. exact (H it Hin).
Qed.
