(* SSA event text: splitting into lines (at the two-byte sequences \N / \n) and into runs at {...} override
   blocks.  Proofs about the executable model Model/Ssa.v: segments, match_block, line_runs, repl_N,
   text_lines, run_string, line_string, item_text_ssa. *)
From Coq Require Import List ZArith NArith Bool Lia ZifyBool ZifyN ZifyNat Arith.
From Astisub Require Import Kit.Base Kit.Str Kit.Scan Model.Dur Model.Ssa Proofs.VttBase.
Import ListNotations.
Open Scope N_scope.

(* ---- the vocabulary (other files use these names) ---- *)

(* an override block as the writer can emit it so that it is read back as one block:
   "{" x "}" with x non-empty and free of braces *)
Definition block_ok (e : str) : Prop := exists x, e = LB :: x ++ [RB] /\ x <> [] /\ ~ In LB x /\ ~ In RB x.
Definition text_ok (t : str) : Prop := ~ In LB t /\ ~ In RB t.
(* runs of a line as the reader produces them: only the first run may be unstyled (and then it has text
   unless it is the only run); every other run carries a block *)
Definition styled_ok (r : arun) : Prop := exists e, ar_eff r = Some e /\ block_ok e /\ text_ok (ar_text r).
Definition runs_ok (rs : list arun) : Prop :=
  match rs with
  | [] => False
  | r0 :: rest =>
    Forall styled_ok rest /\
    (styled_ok r0 \/ (ar_eff r0 = None /\ text_ok (ar_text r0) /\ (ar_text r0 <> [] \/ rest = [])))
  end.
Definition no_nl (s : str) : Prop := contains [92; 110] s = false /\ contains [92; 78] s = false.
Definition line_ok (l : aline) : Prop :=
  runs_ok (al_runs l) /\ no_nl (line_string l) /\ trim_space (line_string l) = line_string l.
(* line breaks spelled \N (true) or \n (false), chosen per break *)
Fixpoint join_seps (seps : list bool) (l : list str) : str :=
  match l with
  | [] => []
  | [x] => x
  | x :: r => x ++ [92; if hd false seps then 78 else 110] ++ join_seps (tl seps) r
  end.

(* ================================================================================================ *)
(* 1. the override-block regexp                                                                      *)
(* ================================================================================================ *)

(* the bytes a decomposition stands for *)
Definition seg_string (p : str * str) : str := fst p ++ snd p.
Definition segs_string (bs : list (str * str)) : str := concat (map seg_string bs).
(* the next byte, if any, is "{" *)
Definition at_lb (s : str) : Prop := match s with [] => True | c :: _ => c = LB end.

Lemma span_nolb_app a b : ~ In LB a -> at_lb b -> span_nolb (a ++ b) = (a, b).
Proof.
  induction a as [|c a IH]; intros Ha Hb.
  - cbn [app]. destruct b as [|d b]; [reflexivity|]. cbn [at_lb] in Hb. subst d.
    cbn [span_nolb]. rewrite N.eqb_refl. reflexivity.
  - cbn [app span_nolb]. destruct (N.eqb_spec c LB) as [E|E]; [exfalso; apply Ha; left; exact E|].
    rewrite IH; [reflexivity | intros H; apply Ha; right; exact H | exact Hb].
Qed.

(* [span_nolb] splits the string, the first part is free of "{" *)
Lemma span_nolb_spec s : forall a b, span_nolb s = (a, b) -> s = a ++ b /\ ~ In LB a /\ at_lb b.
Proof.
  induction s as [|c r IH]; intros a b H; cbn [span_nolb] in H.
  - injection H as <- <-. split; [reflexivity|]. split; [intros []|exact I].
  - destruct (N.eqb_spec c LB) as [E|E].
    + injection H as <- <-. split; [reflexivity|]. split; [intros [] | exact E].
    + destruct (span_nolb r) as [a' b'] eqn:Er. injection H as <- <-.
      destruct (IH a' b' eq_refl) as (E1 & E2 & E3). split; [cbn [app]; rewrite E1 at 1; reflexivity|].
      split; [|exact E3]. intros [H|H]; [exact (E H) | exact (E2 H)].
Qed.

Lemma split_last_rb_none s : ~ In RB s -> split_last_rb s = None.
Proof.
  induction s as [|c r IH]; intros H; [reflexivity|]. cbn [split_last_rb].
  rewrite IH by (intros Hc; apply H; right; exact Hc).
  destruct (N.eqb_spec c RB) as [E|E]; [exfalso; apply H; left; exact E | reflexivity].
Qed.

(* the last "}" *)
Lemma split_last_rb_app x y : ~ In RB y -> split_last_rb (x ++ RB :: y) = Some (x, y).
Proof.
  intros Hy. induction x as [|c x IH].
  - cbn [app split_last_rb]. rewrite (split_last_rb_none y Hy), N.eqb_refl. reflexivity.
  - cbn [app split_last_rb]. rewrite IH. reflexivity.
Qed.

Lemma split_last_rb_spec s : forall x y, split_last_rb s = Some (x, y) -> s = x ++ RB :: y /\ ~ In RB y.
Proof.
  induction s as [|c r IH]; intros x y H; cbn [split_last_rb] in H; [discriminate|].
  destruct (split_last_rb r) as [[x' y']|] eqn:Er.
  - injection H as <- <-. destruct (IH x' y' eq_refl) as (E1 & E2). split; [cbn [app]; rewrite E1 at 1; reflexivity | exact E2].
  - destruct (N.eqb_spec c RB) as [E|E]; [|discriminate]. injection H as <- <-. subst c.
    split; [reflexivity|]. intros Hin. clear IH. revert Er Hin. induction r as [|d r IHr]; intros Er Hin; [destruct Hin|].
    cbn [split_last_rb] in Er. destruct (split_last_rb r) as [[x' y']|] eqn:Er'; [discriminate|].
    destruct (N.eqb_spec d RB) as [E|E]; [discriminate|]. destruct Hin as [Hin|Hin]; [exact (E Hin) | exact (IHr eq_refl Hin)].
Qed.

(* the block the writer emits, followed by a brace-free text, then the next block or the end *)
Lemma match_block_app x t rest : x <> [] -> ~ In LB x -> ~ In LB t -> ~ In RB t -> at_lb rest ->
  match_block (x ++ [RB] ++ t ++ rest) = Some (LB :: x ++ [RB], t ++ rest).
Proof.
  intros Hx Hlx Hlt Hrt Hrest. unfold match_block.
  replace (x ++ [RB] ++ t ++ rest) with ((x ++ [RB] ++ t) ++ rest) by (rewrite <- !app_assoc; reflexivity).
  rewrite span_nolb_app; [| |exact Hrest].
  2:{ apply not_in_app; [exact Hlx|]. apply not_in_app; [|exact Hlt]. intros [H|[]]. discriminate H. }
  change (x ++ [RB] ++ t) with (x ++ RB :: t). rewrite (split_last_rb_app x t Hrt).
  destruct x as [|c x]; [contradiction | reflexivity].
Qed.

(* whatever matches is a piece of the input: "{" r = block ++ rest *)
Lemma match_block_sound r blk rest : match_block r = Some (blk, rest) -> LB :: r = blk ++ rest.
Proof.
  unfold match_block. destruct (span_nolb r) as [run tl] eqn:Es. destruct (span_nolb_spec r run tl Es) as (E1 & _ & _).
  destruct (split_last_rb run) as [[[|c x] y]|] eqn:El; try discriminate. intros H. injection H as <- <-.
  destruct (split_last_rb_spec run (c :: x) y El) as (E2 & _). rewrite E1, E2.
  cbn [app]. rewrite <- !app_assoc. reflexivity.
Qed.

(* a matched block is "{" x "}" with x non-empty and free of "{" *)
Lemma match_block_shape r blk rest : match_block r = Some (blk, rest) ->
  exists x, blk = LB :: x ++ [RB] /\ x <> [] /\ ~ In LB x.
Proof.
  unfold match_block. destruct (span_nolb r) as [run tl] eqn:Es. destruct (span_nolb_spec r run tl Es) as (E1 & Hn & _).
  destruct (split_last_rb run) as [[[|c x] y]|] eqn:El; try discriminate. intros H. injection H as <- <-.
  destruct (split_last_rb_spec run (c :: x) y El) as (E2 & _). exists (c :: x).
  split; [reflexivity|]. split; [discriminate|]. intros Hin. apply Hn. rewrite E2. apply in_or_app. left. exact Hin.
Qed.

(* no "}" at all: no block *)
Lemma match_block_no_rb r : ~ In RB r -> match_block r = None.
Proof.
  intros H. unfold match_block. destruct (span_nolb r) as [run tl] eqn:Es. destruct (span_nolb_spec r run tl Es) as (E1 & _ & _).
  rewrite split_last_rb_none; [reflexivity|]. intros Hin. apply H. rewrite E1. apply in_or_app. left. exact Hin.
Qed.

(* "{}" alone is not a block: the class needs one byte at least *)
Lemma match_block_braces r : ~ In RB r -> match_block (RB :: r) = None.
Proof.
  intros H. unfold match_block. destruct (span_nolb (RB :: r)) as [run tl] eqn:Es. cbn [span_nolb] in Es.
  change (RB =? LB) with false in Es. cbv iota in Es. destruct (span_nolb r) as [a b] eqn:Er. injection Es as <- <-.
  destruct (span_nolb_spec r a b Er) as (E1 & _ & _). cbn [split_last_rb].
  rewrite split_last_rb_none; [rewrite N.eqb_refl; reflexivity|].
  intros Hin. apply H. rewrite E1. apply in_or_app. left. exact Hin.
Qed.

(* ---- seg_fuel: one lemma per use, each for every sufficient fuel ---- *)

(* soundness, whatever the fuel: the pieces are the input *)
Lemma seg_fuel_sound f : forall s cur t bs, seg_fuel f s cur = (t, bs) -> rev cur ++ s = t ++ segs_string bs.
Proof.
  induction f as [|f IH]; intros s cur t bs H; cbn [seg_fuel] in H.
  - injection H as <- <-. unfold segs_string. cbn [map concat]. rewrite app_nil_r. reflexivity.
  - destruct s as [|c r].
    + injection H as <- <-. reflexivity.
    + destruct (N.eqb_spec c LB) as [E|E].
      * subst c. destruct (match_block r) as [[blk rest]|] eqn:Em.
        -- destruct (seg_fuel f rest []) as [t' more] eqn:Es. injection H as <- <-.
           apply IH in Es. cbn [rev app] in Es. apply match_block_sound in Em. rewrite Em.
           unfold segs_string in *. cbn [map concat]. unfold seg_string at 1. cbn [fst snd].
           rewrite Es, <- !app_assoc. reflexivity.
        -- apply IH in H. cbn [rev] in H. rewrite <- app_assoc in H. exact H.
      * apply IH in H. cbn [rev] in H. rewrite <- app_assoc in H. exact H.
Qed.

(* no "}" anywhere: everything is text (whatever the fuel) *)
Lemma seg_fuel_no_rb f : forall s cur, ~ In RB s -> seg_fuel f s cur = (rev cur ++ s, []).
Proof.
  induction f as [|f IH]; intros s cur H; cbn [seg_fuel]; [reflexivity|].
  destruct s as [|c r]; [rewrite app_nil_r; reflexivity|].
  assert (Hr : ~ In RB r) by (intros Hc; apply H; right; exact Hc).
  rewrite (match_block_no_rb r Hr). rewrite (IH r (c :: cur) Hr). cbn [rev]. rewrite <- app_assoc.
  destruct (c =? LB); reflexivity.
Qed.

Definition seg_ok (p : str * str) : Prop := block_ok (fst p) /\ text_ok (snd p).

Lemma segs_string_at_lb bs : Forall seg_ok bs -> at_lb (segs_string bs).
Proof.
  intros H. destruct H as [|p bs [(x & E & _) _] _]; [exact I|]. unfold segs_string. cbn [map concat].
  unfold seg_string. rewrite E. reflexivity.
Qed.

(* a "{"-free text followed by well-formed (block, text) pieces is decomposed into exactly these *)
Lemma seg_fuel_render bs : Forall seg_ok bs ->
  forall t cur f, ~ In LB t -> (length t + length (segs_string bs) < f)%nat ->
  seg_fuel f (t ++ segs_string bs) cur = (rev cur ++ t, bs).
Proof.
  intros Hbs. induction Hbs as [|[e tx] bs Hp Hbs IH].
  - intros t. induction t as [|c t IHt]; intros cur f Ht Hf; (destruct f as [|f]; [lia|]).
    + unfold segs_string. cbn [map concat seg_fuel app]. rewrite app_nil_r. reflexivity.
    + unfold segs_string in *. cbn [map concat app seg_fuel length] in *.
      destruct (N.eqb_spec c LB) as [E|E]; [exfalso; apply Ht; left; exact E|].
      rewrite IHt; [cbn [rev]; rewrite <- app_assoc; reflexivity | intros Hc; apply Ht; right; exact Hc | lia].
  - intros t. induction t as [|c t IHt]; intros cur f Ht Hf; (destruct f as [|f]; [lia|]).
    + destruct Hp as [(x & E & Hx & Hlx & Hrx) [Hlt Hrt]]. cbn [fst snd] in *. subst e.
      unfold segs_string in *. cbn [map concat] in *. unfold seg_string at 1. unfold seg_string at 1 in Hf. cbn [fst snd] in *.
      fold (segs_string bs) in *.
      replace ([] ++ ((LB :: x ++ [RB]) ++ tx) ++ segs_string bs) with (LB :: (x ++ [RB] ++ tx ++ segs_string bs))
        by (cbn [app]; rewrite <- !app_assoc; reflexivity).
      cbn [seg_fuel]. rewrite N.eqb_refl.
      rewrite (match_block_app x tx (segs_string bs) Hx Hlx Hlt Hrt (segs_string_at_lb bs Hbs)).
      rewrite (IH tx [] f Hlt).
      * cbn [rev app]. rewrite app_nil_r. reflexivity.
      * rewrite !app_length in Hf. cbn [length] in Hf. rewrite !app_length in Hf. lia.
    + cbn [app seg_fuel length] in *.
      destruct (N.eqb_spec c LB) as [E|E]; [exfalso; apply Ht; left; exact E|].
      rewrite IHt; [cbn [rev]; rewrite <- app_assoc; reflexivity | intros Hc; apply Ht; right; exact Hc | lia].
Qed.

(* ---- segments ---- *)

(* for every input: the pieces concatenate to the input *)
Theorem segments_sound s : forall t bs, segments s = (t, bs) -> s = t ++ segs_string bs.
Proof. intros t bs H. unfold segments in H. apply seg_fuel_sound in H. exact H. Qed.

(* characterisation on rendered texts *)
Theorem segments_spec t bs : ~ In LB t -> Forall seg_ok bs -> segments (t ++ segs_string bs) = (t, bs).
Proof.
  intros Ht Hbs. unfold segments. rewrite (seg_fuel_render bs Hbs t [] _ Ht); [reflexivity|].
  rewrite app_length. lia.
Qed.

Theorem segments_no_rb s : ~ In RB s -> segments s = (s, []).
Proof. intros H. unfold segments. rewrite (seg_fuel_no_rb _ s [] H). reflexivity. Qed.

Lemma segments_empty_braces : segments [LB; RB] = ([LB; RB], []).
Proof. reflexivity. Qed.

(* ================================================================================================ *)
(* 2. runs of a line                                                                                 *)
(* ================================================================================================ *)

Definition to_seg (r : arun) : str * str := (match ar_eff r with Some e => e | None => [] end, ar_text r).
Definition of_seg (p : str * str) : arun := mkArun (snd p) (Some (fst p)).

Lemma segs_string_runs rs : segs_string (map to_seg rs) = concat (map run_string rs).
Proof. unfold segs_string. rewrite map_map. reflexivity. Qed.

Lemma styled_seg_ok rs : Forall styled_ok rs -> Forall seg_ok (map to_seg rs).
Proof.
  intros H. induction H as [|r rs (e & E & Hb & Ht) _ IH]; [constructor|]. cbn [map]. constructor; [|exact IH].
  unfold seg_ok, to_seg. rewrite E. cbn [fst snd]. split; assumption.
Qed.

Lemma styled_of_seg rs : Forall styled_ok rs -> map of_seg (map to_seg rs) = rs.
Proof.
  intros H. induction H as [|r rs (e & E & _) _ IH]; [reflexivity|]. cbn [map]. rewrite IH. f_equal.
  destruct r as [t o]. cbn [ar_eff] in E. subst o. reflexivity.
Qed.

(* all runs styled (at least one): exactly these runs, no unstyled run in front *)
Lemma line_runs_styled rs : rs <> [] -> Forall styled_ok rs -> line_runs (concat (map run_string rs)) = rs.
Proof.
  intros Hne H. unfold line_runs. rewrite <- segs_string_runs.
  change (segs_string (map to_seg rs)) with ([] ++ segs_string (map to_seg rs)).
  rewrite (segments_spec [] (map to_seg rs) (fun F => F) (styled_seg_ok rs H)).
  destruct rs as [|r rs]; [contradiction|]. exact (styled_of_seg (r :: rs) H).
Qed.

(* a written line splits back into exactly its runs *)
Theorem line_runs_string rs : runs_ok rs -> line_runs (concat (map run_string rs)) = rs.
Proof.
  destruct rs as [|r0 rest]; [intros []|]. intros [Hrest [H0|(E0 & [Hl0 Hr0] & Hne)]].
  - apply line_runs_styled; [discriminate | constructor; assumption].
  - destruct r0 as [t o]. cbn [ar_eff ar_text] in *. subst o.
    cbn [map concat]. unfold run_string at 1. cbn [ar_eff ar_text app].
    unfold line_runs. rewrite <- segs_string_runs.
    rewrite (segments_spec t (map to_seg rest) Hl0 (styled_seg_ok rest Hrest)).
    destruct rest as [|r1 rest]; [reflexivity|].
    change (map to_seg (r1 :: rest)) with (to_seg r1 :: map to_seg rest). cbv iota.
    change (map (fun p : list N * list N => mkArun (snd p) (Some (fst p))) (to_seg r1 :: map to_seg rest))
      with (map of_seg (map to_seg (r1 :: rest))).
    rewrite (styled_of_seg _ Hrest).
    destruct t as [|c t]; [destruct Hne as [Hne|Hne]; [contradiction | discriminate] | reflexivity].
Qed.

(* an unclosed "{abc" is text *)
Theorem line_runs_unclosed t : ~ In RB t -> line_runs t = [mkArun t None].
Proof. intros H. unfold line_runs. rewrite (segments_no_rb t H). reflexivity. Qed.

(* no block: one unstyled run, also for the empty line *)
Theorem line_runs_plain t : text_ok t -> line_runs t = [mkArun t None].
Proof. intros [_ H]. apply line_runs_unclosed. exact H. Qed.

(* for every input the runs re-render to the input *)
Theorem line_runs_render s : concat (map run_string (line_runs s)) = s.
Proof.
  unfold line_runs. destruct (segments s) as [t bs] eqn:E. apply segments_sound in E.
  assert (Hbs : concat (map run_string (map of_seg bs)) = segs_string bs).
  { unfold segs_string. rewrite map_map. reflexivity. }
  destruct bs as [|b bs].
  - cbn [map concat]. unfold run_string. cbn [ar_eff ar_text app]. rewrite app_nil_r.
    unfold segs_string in E. cbn [map concat] in E. rewrite app_nil_r in E. symmetry. exact E.
  - fold of_seg. rewrite map_app, concat_app, Hbs. rewrite E. f_equal.
    destruct t as [|c t]; [reflexivity|]. cbn [map concat]. unfold run_string. cbn [ar_eff ar_text app]. rewrite app_nil_r. reflexivity.
Qed.

Lemma line_runs_empty_braces : line_runs [LB; RB] = [mkArun [LB; RB] None].
Proof. reflexivity. Qed.

(* commas are ordinary bytes: "Hello, world{\b1}a,b" *)
Example line_runs_commas :
  line_runs [72;101;108;108;111;44;32;119;111;114;108;100;123;92;98;49;125;97;44;98]
  = [mkArun [72;101;108;108;111;44;32;119;111;114;108;100] None; mkArun [97;44;98] (Some [123;92;98;49;125])].
Proof. vm_compute. reflexivity. Qed.

(* ================================================================================================ *)
(* 3. lines: the two-byte separators                                                                 *)
(* ================================================================================================ *)

(* unfolding of [cut] / [contains], no fuel left in the statement *)
Lemma cut_cons sep c s :
  cut sep (c :: s) = match prefix sep (c :: s) with
                     | Some r => Some ([], r)
                     | None => match cut sep s with Some (a, b) => Some (c :: a, b) | None => None end
                     end.
Proof. reflexivity. Qed.

Lemma contains_cons sep c s :
  contains sep (c :: s) = match prefix sep (c :: s) with Some _ => true | None => contains sep s end.
Proof.
  unfold contains. rewrite cut_cons. destruct (prefix sep (c :: s)); [reflexivity|].
  destruct (cut sep s) as [[a b]|]; reflexivity.
Qed.

Lemma contains_false_cut sep s : contains sep s = false -> cut sep s = None.
Proof. unfold contains. destruct (cut sep s); [discriminate | reflexivity]. Qed.

(* a two-byte separator a b with a <> b: the first occurrence in l ++ a b ++ rest is the one after l, even
   when l ends with a (the overlap l = ..a, a b: the candidate starting at that a would need b = a) *)
Lemma prefix2_app_none a b c l rest : a <> b -> prefix [a; b] (c :: l) = None ->
  prefix [a; b] (c :: l ++ a :: b :: rest) = None.
Proof.
  intros Hab H. cbn [prefix] in *. destruct (a =? c); [|reflexivity].
  destruct l as [|d l].
  - cbn [app]. destruct (N.eqb_spec b a) as [E|E]; [exfalso; apply Hab; symmetry; exact E | reflexivity].
  - cbn [app]. destruct (b =? d); [discriminate | reflexivity].
Qed.

Lemma cut2_app a b l rest : a <> b -> contains [a; b] l = false ->
  cut [a; b] (l ++ a :: b :: rest) = Some (l, rest).
Proof.
  intros Hab. induction l as [|c l IH]; intros H.
  - cbn [app]. rewrite cut_cons. cbn [prefix]. rewrite !N.eqb_refl. reflexivity.
  - rewrite contains_cons in H. destruct (prefix [a; b] (c :: l)) eqn:Ep; [discriminate|].
    cbn [app]. rewrite cut_cons, (prefix2_app_none a b c l rest Hab Ep), (IH H). reflexivity.
Qed.

Lemma join_cons2 sep x y r : join sep (x :: y :: r) = x ++ sep ++ join sep (y :: r).
Proof. reflexivity. Qed.

Lemma split_fuel_join2 a b : a <> b -> forall ls f, ls <> [] ->
  Forall (fun l => contains [a; b] l = false) ls -> (length (join [a; b] ls) < f)%nat ->
  split_fuel f [a; b] (join [a; b] ls) = ls.
Proof.
  intros Hab. induction ls as [|x ls IH]; intros f Hne H Hf; [contradiction|].
  inversion H as [|? ? Hx Hls]; subst. destruct f as [|f]; [lia|]. cbn [split_fuel].
  destruct ls as [|y ls].
  - cbn [join]. rewrite (contains_false_cut _ _ Hx). reflexivity.
  - rewrite join_cons2 in *. cbn [app] in *. rewrite (cut2_app a b x _ Hab Hx). f_equal.
    apply IH; [discriminate | exact Hls|]. rewrite app_length in Hf. cbn [length] in Hf. lia.
Qed.

Theorem split_join2 a b ls : a <> b -> ls <> [] -> Forall (fun l => contains [a; b] l = false) ls ->
  Str.split [a; b] (join [a; b] ls) = ls.
Proof. intros Hab Hne H. unfold Str.split. apply split_fuel_join2; [exact Hab | exact Hne | exact H | lia]. Qed.

(* ---- repl_N ---- *)
Lemma repl_N_cons2 c d r :
  repl_N (c :: d :: r) = if (c =? BSL) && (d =? 78) then BSL :: 110 :: repl_N r else c :: repl_N (d :: r).
Proof. reflexivity. Qed.

Lemma repl_N_cons_ne c r : c <> BSL -> repl_N (c :: r) = c :: repl_N r.
Proof.
  intros H. destruct r as [|d r]; [reflexivity|]. rewrite repl_N_cons2.
  destruct (N.eqb_spec c BSL) as [E|E]; [contradiction | reflexivity].
Qed.

(* no \N inside: unchanged *)
Lemma repl_N_id l : contains [92; 78] l = false -> repl_N l = l.
Proof.
  induction l as [|c l IH]; intros H; [reflexivity|].
  rewrite contains_cons in H. destruct (prefix [92; 78] (c :: l)) eqn:Ep; [discriminate|].
  destruct l as [|d l]; [reflexivity|]. rewrite repl_N_cons2, (IH H).
  cbn [prefix] in Ep. unfold BSL. rewrite (N.eqb_sym c 92), (N.eqb_sym d 78).
  destruct (92 =? c); [|reflexivity]. destruct (78 =? d); [discriminate | reflexivity].
Qed.

(* a line, a break (either spelling), the rest *)
Lemma repl_N_app l (sp : bool) rest : contains [92; 78] l = false ->
  repl_N (l ++ 92 :: (if sp then 78 else 110) :: rest) = l ++ 92 :: 110 :: repl_N rest.
Proof.
  induction l as [|c l IH]; intros H.
  - cbn [app]. rewrite repl_N_cons2. destruct sp; [reflexivity|].
    change ((92 =? BSL) && (110 =? 78)) with false. cbv iota. rewrite repl_N_cons_ne by discriminate. reflexivity.
  - rewrite contains_cons in H. destruct (prefix [92; 78] (c :: l)) eqn:Ep; [discriminate|].
    specialize (IH H). cbn [app]. destruct l as [|d l].
    + cbn [app] in *. rewrite repl_N_cons2, IH. change (92 =? 78) with false. rewrite andb_false_r. reflexivity.
    + cbn [app] in *. rewrite repl_N_cons2, IH.
      cbn [prefix] in Ep. unfold BSL. rewrite (N.eqb_sym c 92), (N.eqb_sym d 78).
      destruct (92 =? c); [|reflexivity]. destruct (78 =? d); [discriminate | reflexivity].
Qed.

Lemma join_seps_cons2 seps x y r :
  join_seps seps (x :: y :: r) = x ++ [92; if hd false seps then 78 else 110] ++ join_seps (tl seps) (y :: r).
Proof. reflexivity. Qed.

(* all breaks normalised to \n, whatever the mixture *)
Theorem repl_N_join_seps seps ls : Forall no_nl ls -> repl_N (join_seps seps ls) = join bsl_n ls.
Proof.
  intros H. revert seps. induction H as [|x ls [_ Hx] Hls IH]; intros seps; [reflexivity|].
  destruct ls as [|y ls].
  - cbn [join_seps join]. apply repl_N_id. exact Hx.
  - rewrite join_seps_cons2, join_cons2. cbn [app]. rewrite (repl_N_app x (hd false seps) _ Hx), IH. reflexivity.
Qed.

(* ---- text_lines ---- *)
Lemma line_ok_no_nl ls : Forall line_ok ls -> Forall no_nl (map line_string ls).
Proof. intros H. induction H as [|l ls (_ & Hn & _) _ IH]; cbn [map]; constructor; assumption. Qed.

Lemma text_lines_join name ls : ls <> [] -> Forall line_ok ls ->
  map (fun s => mkAline name (line_runs (trim_space s))) (Str.split bsl_n (join bsl_n (map line_string ls)))
  = map (fun l => mkAline name (al_runs l)) ls.
Proof.
  intros Hne H. unfold bsl_n. rewrite split_join2.
  - rewrite map_map. apply map_ext_in. intros l Hl. rewrite Forall_forall in H. destruct (H l Hl) as (Hr & _ & Ht).
    rewrite Ht. unfold line_string. rewrite (line_runs_string _ Hr). reflexivity.
  - discriminate.
  - destruct ls; [contradiction | discriminate].
  - apply line_ok_no_nl in H. rewrite Forall_forall in *. intros s Hs. exact (proj1 (H s Hs)).
Qed.

(* every mixture of \N and \n inside one event denotes the same lines *)
Theorem text_lines_rendered name ls seps : ls <> [] -> Forall line_ok ls ->
  text_lines name (join_seps seps (map line_string ls)) = map (fun l => mkAline name (al_runs l)) ls.
Proof.
  intros Hne H. unfold text_lines. rewrite (repl_N_join_seps seps _ (line_ok_no_nl ls H)).
  apply text_lines_join; assumption.
Qed.

Lemma join_seps_nil ls : join_seps [] ls = join bsl_n ls.
Proof.
  induction ls as [|x ls IH]; [reflexivity|]. destruct ls as [|y ls]; [reflexivity|].
  rewrite join_seps_cons2, join_cons2. cbn [hd tl]. rewrite IH. reflexivity.
Qed.

(* what the writer emits is read back as the same lines *)
Theorem text_lines_written name ls : ls <> [] -> Forall line_ok ls ->
  text_lines name (item_text_ssa ls) = map (fun l => mkAline name (al_runs l)) ls.
Proof.
  intros Hne H. unfold item_text_ssa. rewrite <- join_seps_nil. apply text_lines_rendered; assumption.
Qed.

(* ================================================================================================ *)
(* 4. decidable versions, for examples                                                               *)
(* ================================================================================================ *)

Definition no_brace (c : byte) : bool := negb (c =? LB) && negb (c =? RB).
Definition text_okb (t : str) : bool := forallb no_brace t.
Definition block_okb (e : str) : bool :=
  match e with
  | c :: r => (c =? LB) &&
              match rev r with
              | d :: xr => (d =? RB) && match xr with [] => false | _ => true end && text_okb xr
              | [] => false
              end
  | [] => false
  end.
Definition styled_okb (r : arun) : bool :=
  match ar_eff r with Some e => block_okb e && text_okb (ar_text r) | None => false end.
Definition runs_okb (rs : list arun) : bool :=
  match rs with
  | [] => false
  | r0 :: rest =>
    forallb styled_okb rest &&
    (styled_okb r0 ||
     (match ar_eff r0 with None => true | Some _ => false end && text_okb (ar_text r0) &&
      (match ar_text r0 with [] => false | _ => true end || match rest with [] => true | _ => false end)))
  end.
Definition line_okb (l : aline) : bool :=
  runs_okb (al_runs l) &&
  negb (contains [92; 110] (line_string l)) && negb (contains [92; 78] (line_string l)) &&
  str_eqb (trim_space (line_string l)) (line_string l).

Lemma text_okb_ok t : text_okb t = true -> text_ok t.
Proof.
  unfold text_okb, text_ok. intros H.
  split; apply (forallb_not_in no_brace t _ H); reflexivity.
Qed.

Lemma block_okb_ok e : block_okb e = true -> block_ok e.
Proof.
  unfold block_okb. destruct e as [|c r]; [discriminate|]. intros H.
  apply andb_true_iff in H. destruct H as [Hc H]. apply N.eqb_eq in Hc. subst c.
  destruct (rev r) as [|d xr] eqn:Er; [discriminate|].
  apply andb_true_iff in H. destruct H as [H Ht]. apply andb_true_iff in H. destruct H as [Hd Hne].
  apply N.eqb_eq in Hd. subst d. apply text_okb_ok in Ht.
  assert (E : r = rev xr ++ [RB]). { rewrite <- (rev_involutive r), Er. reflexivity. }
  exists (rev xr). split; [rewrite E; reflexivity|]. split.
  - destruct xr as [|z xr]; [discriminate|]. cbn [rev]. intros F. apply app_eq_nil in F. destruct F as [_ F]. discriminate.
  - destruct Ht as [H1 H2]. split; intros Hin; apply in_rev in Hin; tauto.
Qed.

Lemma styled_okb_ok r : styled_okb r = true -> styled_ok r.
Proof.
  unfold styled_okb, styled_ok. destruct (ar_eff r) as [e|]; [|discriminate]. intros H.
  apply andb_true_iff in H. destruct H as [H1 H2]. exists e.
  split; [reflexivity|]. split; [apply block_okb_ok; exact H1 | apply text_okb_ok; exact H2].
Qed.

Lemma runs_okb_ok rs : runs_okb rs = true -> runs_ok rs.
Proof.
  unfold runs_okb, runs_ok. destruct rs as [|r0 rest]; [discriminate|]. intros H.
  apply andb_true_iff in H. destruct H as [Hrest H0]. split.
  - rewrite forallb_forall in Hrest. apply Forall_forall. intros r Hr. apply styled_okb_ok. exact (Hrest r Hr).
  - apply orb_true_iff in H0. destruct H0 as [H0|H0]; [left; apply styled_okb_ok; exact H0|]. right.
    apply andb_true_iff in H0. destruct H0 as [H0 Hne]. apply andb_true_iff in H0. destruct H0 as [He Ht].
    split; [destruct (ar_eff r0); [discriminate | reflexivity]|]. split; [apply text_okb_ok; exact Ht|].
    apply orb_true_iff in Hne. destruct Hne as [Hne|Hne].
    + left. destruct (ar_text r0); [discriminate | discriminate].
    + right. destruct rest; [reflexivity | discriminate].
Qed.

Theorem line_okb_ok l : line_okb l = true -> line_ok l.
Proof.
  unfold line_okb, line_ok, no_nl. intros H.
  apply andb_true_iff in H. destruct H as [H Ht]. apply andb_true_iff in H. destruct H as [H HN].
  apply andb_true_iff in H. destruct H as [Hr Hn]. apply negb_true_iff in HN. apply negb_true_iff in Hn.
  apply str_eqb_eq in Ht. split; [apply runs_okb_ok; exact Hr|]. split; [split; assumption | exact Ht].
Qed.

Lemma lines_okb_ok ls : forallb line_okb ls = true -> Forall line_ok ls.
Proof. intros H. rewrite forallb_forall in H. apply Forall_forall. intros l Hl. apply line_okb_ok. exact (H l Hl). Qed.

(* a two-line event: a leading empty line, then  {\i1}{\b1}Hello, {\b0}world{\i0}
   (consecutive blocks, a comma, a trailing block) *)
Definition ex_lines : list aline :=
  [ mkAline [] [mkArun [] None];
    mkAline [] [ mkArun [] (Some [123;92;105;49;125]);
                 mkArun [72;101;108;108;111;44;32] (Some [123;92;98;49;125]);
                 mkArun [119;111;114;108;100] (Some [123;92;98;48;125]);
                 mkArun [] (Some [123;92;105;48;125]) ] ].

Example ex_lines_okb : forallb line_okb ex_lines = true.
Proof. vm_compute. reflexivity. Qed.

Example ex_lines_ok : Forall line_ok ex_lines.
Proof. apply lines_okb_ok. exact ex_lines_okb. Qed.

(* the text the writer emits for it: \n{\i1}{\b1}Hello, {\b0}world{\i0} *)
Example ex_lines_text :
  item_text_ssa ex_lines =
  [92;110; 123;92;105;49;125; 123;92;98;49;125; 72;101;108;108;111;44;32; 123;92;98;48;125; 119;111;114;108;100; 123;92;105;48;125].
Proof. vm_compute. reflexivity. Qed.

(* read back, with either spelling of the break *)
Example ex_lines_back name : text_lines name (item_text_ssa ex_lines) = map (fun l => mkAline name (al_runs l)) ex_lines.
Proof. apply text_lines_written; [discriminate | exact ex_lines_ok]. Qed.

Example ex_lines_back_N name :
  text_lines name (join_seps [true] (map line_string ex_lines)) = map (fun l => mkAline name (al_runs l)) ex_lines.
Proof. apply text_lines_rendered; [discriminate | exact ex_lines_ok]. Qed.

(* a line ending with a backslash followed by a line starting with "n": a\ / nb, written a\\nnb *)
Definition ex_overlap : list aline := [ mkAline [] [mkArun [97; 92] None]; mkAline [] [mkArun [110; 98] None] ].
Example ex_overlap_back :
  item_text_ssa ex_overlap = [97; 92; 92; 110; 110; 98] /\
  text_lines [] (item_text_ssa ex_overlap) = ex_overlap.
Proof.
  split; [reflexivity|]. rewrite text_lines_written; [reflexivity | discriminate|].
  apply lines_okb_ok. vm_compute. reflexivity.
Qed.
