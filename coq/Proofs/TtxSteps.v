(* C06: what one data unit of each class does to the page buffer (continued), and done-list independence. *)
From Coq Require Import List ZArith NArith Bool Lia.
From Astisub Require Import Kit.Base Kit.Str Kit.GoMap Gen.TtxTables Model.TtxRow Model.Ttx Model.TtxSpec Proofs.TtxTables Proofs.TtxCodec.
Import ListNotations.
Open Scope N_scope.

Lemma unit_addr_mag u mag pkt p : unit_addr u = Some (mag, pkt, p) -> mag <> 0.
Proof.
  unfold unit_addr. destruct (negb (fst u =? 3)); [discriminate|]. destruct (Nat.ltb (length (snd u)) 4); [discriminate|].
  destruct (negb (nth 1 (snd u) 0 =? 228)); [discriminate|]. destruct (ham84_dec (nth 2 (snd u) 0)) as [h1|]; [|discriminate].
  destruct (ham84_dec (nth 3 (snd u) 0)) as [h2|]; [|discriminate].
  intros H. inversion H; subst. destruct (N.eqb_spec (N.land (N.land (N.lor (N.shiftl h2 4) h1) 255) 7) 0); lia.
Qed.

(* an inert X/28 or M/29 payload changes nothing *)
Lemma parse_2829_inert pkt p dc b : triplet_inert pkt p = true -> Nat.ltb (length p) 1 = false ->
  ham84_dec (nth 0 p 0) = Some dc -> parse_2829 (tl p) pkt dc b = Ok b.
Proof.
  intros Hb L1 D. unfold triplet_inert in Hb. rewrite L1, D in Hb. cbn [orb] in Hb. unfold parse_2829.
  destruct (negb (dc =? 0) && negb (dc =? 4)); [reflexivity|]. cbn [orb] in Hb.
  destruct (Nat.ltb (length (tl p)) 3); [reflexivity|]. cbn [orb] in Hb.
  rewrite triplet_dec_spec. destruct (triplet_of (tl p)) as [tr|]; [|reflexivity]. rewrite Hb. reflexivity.
Qed.

(* while our page is not being received *)
Lemma dead_step mag0 pn0 u t b : selected mag0 pn0 b -> pb_recv b = false -> dead_ok mag0 pn0 u = true ->
  parse_unit (snd u) (fst u) t b = Ok b.
Proof.
  intros Hs Hr Hb. destruct u as [id i]. cbn [fst snd]. rewrite parse_unit_addr. unfold dead_ok in Hb.
  destruct (unit_addr (id, i)) as [[[mag pkt] p]|]; [|reflexivity].
  unfold parse_packet. destruct (N.eqb_spec pkt 0) as [E0|N0].
  - rewrite (parse_header_view p mag t b mag0 pn0 Hs).
    destruct (hdr_full p) as [[[pn serial] cs]|]; [|reflexivity].
    cbv zeta. rewrite Hr. cbn [andb]. apply negb_true_iff in Hb.
    destruct (mag =? mag0), (pn =? pn0)%Z; cbn in Hb |- *; try reflexivity; discriminate.
  - destruct Hs as (Hm & Hp & H0). rewrite Hr, Hm. cbn [andb].
    destruct (Nat.ltb (length p) 1) eqn:L1; [reflexivity|]. rewrite nth_byte_at, ham84_is_spec.
    destruct (ham84_dec (nth 0 p 0)) as [dc|] eqn:D; [|reflexivity].
    destruct (N.eqb_spec pkt 29) as [-> | N29].
    + destruct (mag =? mag0); cbn [andb negb orb] in Hb |- *; [|reflexivity].
      apply parse_2829_inert; assumption.
    + rewrite andb_false_r. reflexivity.
Qed.

(* the header of another page ends the reception *)
Lemma term_step mag0 pn0 u t b : selected mag0 pn0 b -> pb_recv b = true -> is_terminator mag0 pn0 u = true ->
  parse_unit (snd u) (fst u) t b = Ok (mkPbuf (pb_cd b) (pb_cur b) (pb_done b) (pb_mag b) (pb_page b) false).
Proof.
  intros Hs Hr Hb. destruct u as [id i]. cbn [fst snd]. rewrite parse_unit_addr. unfold is_terminator in Hb.
  destruct (unit_addr (id, i)) as [[[mag pkt] p]|]; [|discriminate].
  apply andb_true_iff in Hb. destruct Hb as [E0 Hb]. unfold parse_packet. rewrite E0.
  rewrite (parse_header_view p mag t b mag0 pn0 Hs).
  destruct (hdr_full p) as [[[pn serial] cs]|]; [|discriminate].
  cbv zeta. rewrite Hr. apply andb_true_iff in Hb. destruct Hb as [Hpn Hsm]. rewrite Hpn.
  destruct serial, (mag =? mag0); cbn in Hsm |- *; try reflexivity; discriminate.
Qed.

(* the header of our page closes the page under construction and opens a new one *)
Lemma header_step mag0 pn0 cs u t b : selected mag0 pn0 b -> is_our_header mag0 pn0 cs u = true ->
  parse_unit (snd u) (fst u) t b =
  Ok (mkPbuf (pb_cd b) (Some (new_page cs t))
             (match pb_cur b with Some q => pb_done b ++ [page_with_end q t] | None => pb_done b end)
             (pb_mag b) (pb_page b) true).
Proof.
  intros Hs Hb. destruct u as [id i]. cbn [fst snd]. rewrite parse_unit_addr. unfold is_our_header in Hb.
  destruct (unit_addr (id, i)) as [[[mag pkt] p]|]; [|discriminate].
  apply andb_true_iff in Hb. destruct Hb as [Hb Hh]. apply andb_true_iff in Hb. destruct Hb as [Em E0].
  unfold parse_packet. rewrite E0. rewrite (parse_header_view p mag t b mag0 pn0 Hs).
  destruct (hdr_full p) as [[[pn serial] c]|]; [|discriminate].
  apply andb_true_iff in Hh. destruct Hh as [Hpn Hc]. apply N.eqb_eq in Hc. subst c.
  cbv zeta. rewrite Hpn, Em. destruct (pb_recv b), serial; cbn [negb andb orb]; reflexivity.
Qed.

(* a row of our page while it is being received is stored *)
Lemma row_step_ours mag0 pn0 row cells u t b q : selected mag0 pn0 b -> pb_recv b = true -> pb_cur b = Some q ->
  is_our_row mag0 row cells u = true ->
  parse_unit (snd u) (fst u) t b =
  Ok (mkPbuf (pb_cd b) (Some (mkTpage (pg_cs q) ((row, cells) :: pg_data q) (pg_rows q ++ [row]) (pg_start q) (pg_end q)))
             (pb_done b) (pb_mag b) (pb_page b) true).
Proof.
  intros (Hm & Hp & H0) Hr Hc Hb. destruct u as [id i]. cbn [fst snd]. rewrite parse_unit_addr. unfold is_our_row in Hb.
  destruct (unit_addr (id, i)) as [[[mag pkt] p]|]; [|discriminate].
  repeat (apply andb_true_iff in Hb; destruct Hb as [Hb ?]).
  match goal with H : str_eqb _ _ = true |- _ => apply str_eqb_eq in H; rename H into Hcells end.
  match goal with H : negb (Nat.ltb _ 40) = true |- _ => apply negb_true_iff in H; rename H into Hlen end.
  match goal with H : (pkt =? row) = true |- _ => apply N.eqb_eq in H; subst row end.
  match goal with H : (1 <=? pkt) = true |- _ => rename H into H1 end.
  match goal with H : (pkt <=? 25) = true |- _ => rename H into H25 end.
  unfold parse_packet. destruct (N.eqb_spec pkt 0) as [E0|N0]; [subst pkt; discriminate|].
  rewrite Hr, Hm, Hb, H1, H25. cbn [andb]. unfold parse_data. rewrite Hlen, Hc.
  rewrite <- Hcells. rewrite Hr, ?Hm. do 6 f_equal. apply map_ext. intros x. apply cell_is_spec.
Qed.

(* before any page has been selected *)
Definition unselected (b : pbuf) : Prop := pb_mag b = 0 /\ pb_page b = 0%Z /\ pb_recv b = false.

Lemma unselected_step u t b : unselected b -> unselected_ok u = true -> parse_unit (snd u) (fst u) t b = Ok b.
Proof.
  intros (Hm & Hp & Hr) Hb. destruct u as [id i]. cbn [fst snd]. rewrite parse_unit_addr. unfold unselected_ok in Hb.
  destruct (unit_addr (id, i)) as [[[mag pkt] p]|] eqn:A; [|reflexivity].
  apply unit_addr_mag in A. unfold parse_packet. destruct (N.eqb_spec pkt 0) as [E0|N0].
  - f_equal. unfold parse_header. unfold hdr_digits, hdr_c6 in Hb. rewrite !nth_byte_at, !ham84_is_spec.
    destruct (Nat.ltb (length p) 8); [reflexivity|].
    destruct (ham84_dec (nth 0 p 0)) as [un|]; [|reflexivity]. destruct (ham84_dec (nth 1 p 0)) as [tn|]; [|reflexivity].
    destruct ((tn =? 15) && (un =? 15)); [reflexivity|].
    rewrite Hm, Hp. cbn [N.eqb Z.eqb andb].
    destruct (ham84_dec (nth 5 p 0)) as [cb|]; [|reflexivity].
    destruct (0 <? N.land cb 8); [discriminate|].
    destruct (ham84_dec (nth 7 p 0)) as [c7|]; [|reflexivity].
    rewrite Hr. cbn [andb]. rewrite Hm. destruct (N.eqb_spec mag 0); [contradiction|]. cbn [negb]. rewrite orb_true_r. reflexivity.
  - rewrite Hr, Hm. cbn [andb]. destruct (Nat.ltb (length p) 1); [reflexivity|]. destruct (ham84 (ttx_byte_at 0 p)); [|reflexivity].
    destruct (N.eqb_spec mag 0); [contradiction|]. cbn [andb]. reflexivity.
Qed.

(* the first header that carries the subtitle flag selects its page and opens it *)
Lemma select_step mag0 pn0 cs u t b p : unselected b -> pb_cur b = None -> is_our_header mag0 pn0 cs u = true ->
  unit_addr u = Some (mag0, 0, p) -> hdr_c6 p = Some true ->
  parse_unit (snd u) (fst u) t b = Ok (mkPbuf (pb_cd b) (Some (new_page cs t)) (pb_done b) mag0 pn0 true).
Proof.
  intros (Hm & Hp & Hr) Hc Hb A C6. destruct u as [id i]. cbn [fst snd]. rewrite parse_unit_addr. unfold is_our_header in Hb.
  rewrite A in *. rewrite N.eqb_refl in Hb. cbn [andb N.eqb] in Hb.
  unfold parse_packet. cbn [N.eqb]. f_equal. unfold hdr_full, hdr_digits in Hb. unfold hdr_c6 in C6. unfold parse_header.
  rewrite !nth_byte_at, !ham84_is_spec.
  destruct (Nat.ltb (length p) 8); [discriminate|].
  destruct (ham84_dec (nth 0 p 0)) as [un|]; [|discriminate]. destruct (ham84_dec (nth 1 p 0)) as [tn|]; [|discriminate].
  destruct ((tn =? 15) && (un =? 15)); [discriminate|].
  rewrite Hm, Hp. cbn [N.eqb Z.eqb andb].
  destruct (ham84_dec (nth 5 p 0)) as [cb|]; [|discriminate]. inversion C6 as [C6']. rewrite C6'.
  destruct (ham84_dec (nth 7 p 0)) as [c7|]; [|discriminate].
  apply andb_true_iff in Hb. destruct Hb as [Hpn Hcs]. apply Z.eqb_eq in Hpn. unfold page_code in Hpn. apply N.eqb_eq in Hcs.
  cbn [pb_recv pb_page pb_mag pb_cur pb_cd pb_done]. rewrite Hr. cbn [andb]. rewrite Hpn. rewrite Z.eqb_refl, N.eqb_refl.
  cbn [negb orb]. rewrite Hc, Hcs. reflexivity.
Qed.

(* ---- X/28 and M/29 designation packets only touch the recorded triplets ---- *)
(* the character decoder while the stream is being read: no page parsed yet, the designations on record are st *)
Definition cdst (d : cdec) (st : dstate) : Prop :=
  cd_last d = None /\ cd_x28 d = fst st /\ cd_m29 d = snd st /\ cd_c d = cd_c cdec0.

Lemma desig_step mag0 pn0 u t cd cur done (recv : bool) st : mag0 <> 0 -> cdst cd st -> desig_ok mag0 u = true ->
  exists cd', cdst cd' (if recv then desig_recv mag0 st u else desig_idle mag0 st u)
              /\ parse_unit (snd u) (fst u) t (mkPbuf cd cur done mag0 pn0 recv) = Ok (mkPbuf cd' cur done mag0 pn0 recv).
Proof.
  intros H0 (Hl & Hx & Hm & Hc) Hb. unfold desig_recv, desig_idle. rewrite Hb. unfold desig_of.
  destruct u as [id i]. cbn [fst snd]. rewrite parse_unit_addr. unfold desig_ok in Hb.
  destruct (unit_addr (id, i)) as [[[mag pkt] p]|]; [|discriminate]. cbn [fst snd].
  repeat (apply andb_true_iff in Hb; destruct Hb as [Hb ?]).
  match goal with H : negb (Nat.ltb (length p) 1) = true |- _ => apply negb_true_iff in H; rename H into L1 end.
  match goal with H : match ham84_dec _ with _ => _ end = true |- _ => rename H into Hd end.
  match goal with H : (_ || _) = true |- _ => rename H into Hk end.
  apply N.eqb_eq in Hb. subst mag.
  destruct (ham84_dec (nth 0 p 0)) as [dc|] eqn:D; [|discriminate].
  repeat (apply andb_true_iff in Hd; destruct Hd as [Hd ?]).
  match goal with H : negb (Nat.ltb (length (tl p)) 3) = true |- _ => apply negb_true_iff in H; rename H into L3 end.
  match goal with H : match triplet_of (tl p) with _ => _ end = true |- _ => rename H into Hfmt end.
  destruct (triplet_of (tl p)) as [tr|] eqn:T; [|discriminate]. apply negb_true_iff in Hfmt.
  assert (Hdc : negb (dc =? 0) && negb (dc =? 4) = false) by (destruct (dc =? 0), (dc =? 4); cbn in Hd |- *; congruence).
  assert (P : forall b, parse_2829 (tl p) pkt dc b =
              (do d <- (if pkt =? 28 then set_x28 (pb_cd b) tr else set_m29 (pb_cd b) tr); Ok (with_cd b d))).
  { intros b. unfold parse_2829. rewrite Hdc, L3, triplet_dec_spec, T, Hfmt. reflexivity. }
  unfold parse_packet. cbn [pb_recv pb_mag].
  assert (Hp0 : (pkt =? 0) = false) by (apply orb_true_iff in Hk; destruct Hk as [E|E]; apply N.eqb_eq in E; subst; reflexivity).
  assert (Hp25 : (pkt <=? 25) = false) by (apply orb_true_iff in Hk; destruct Hk as [E|E]; apply N.eqb_eq in E; subst; reflexivity).
  assert (Hp26 : (pkt =? 26) = false) by (apply orb_true_iff in Hk; destruct Hk as [E|E]; apply N.eqb_eq in E; subst; reflexivity).
  rewrite Hp0, Hp25, Hp26, N.eqb_refl, !andb_false_r, L1. rewrite nth_byte_at, ham84_is_spec, D. cbn [andb].
  (* the two setters, with no page parsed yet *)
  assert (SX : exists cd', cdst cd' (Some tr, snd st) /\ set_x28 cd tr = Ok cd').
  { unfold set_x28. destruct (cd_x28 cd) as [t0|] eqn:X.
    - destruct (N.eqb_spec t0 tr) as [->|Hne]; cbn [negb].
      + exists cd. split; [repeat split; cbn [fst snd]; assumption | reflexivity].
      + unfold update_charset. rewrite Hl. eexists. split; [|reflexivity]. repeat split; cbn [cd_last cd_x28 cd_m29 cd_c fst snd]; assumption.
    - unfold update_charset. rewrite Hl. eexists. split; [|reflexivity]. repeat split; cbn [cd_last cd_x28 cd_m29 cd_c fst snd]; assumption. }
  assert (SM : exists cd', cdst cd' (fst st, Some tr) /\ set_m29 cd tr = Ok cd').
  { unfold set_m29. destruct (cd_m29 cd) as [t0|] eqn:X.
    - destruct (N.eqb_spec t0 tr) as [->|Hne]; cbn [negb].
      + exists cd. split; [repeat split; cbn [fst snd]; assumption | reflexivity].
      + unfold update_charset. rewrite Hl. eexists. split; [|reflexivity]. repeat split; cbn [cd_last cd_x28 cd_m29 cd_c fst snd]; assumption.
    - unfold update_charset. rewrite Hl. eexists. split; [|reflexivity]. repeat split; cbn [cd_last cd_x28 cd_m29 cd_c fst snd]; assumption. }
  destruct SX as (cx & Hcx & Ex). destruct SM as (cm & Hcm & Em).
  apply orb_true_iff in Hk. destruct Hk as [E|E]; apply N.eqb_eq in E; subst pkt; cbn [N.eqb Pos.eqb andb].
  - destruct recv; cbn [andb].
    + rewrite P. cbn [pb_cd N.eqb Pos.eqb]. rewrite Ex. cbn [bind]. exists cx. split; [exact Hcx | reflexivity].
    + exists cd. split; [repeat split; assumption | reflexivity].
  - destruct recv; cbn [andb]; rewrite P; cbn [pb_cd N.eqb Pos.eqb]; rewrite Em; cbn [bind]; exists cm; (split; [exact Hcm | reflexivity]).
Qed.

(* units of the other classes are no designation packets *)
Lemma inert_no_desig pkt p : triplet_inert pkt p = true ->
  negb (Nat.ltb (length p) 1)
  && match ham84_dec (nth 0 p 0) with
     | Some dc => ((dc =? 0) || (dc =? 4)) && negb (Nat.ltb (length (tl p)) 3)
                  && match triplet_of (tl p) with Some t => negb ((pkt =? 28) && (0 <? N.land t 15)) | None => false end
     | None => false
     end = false.
Proof.
  unfold triplet_inert. intros H. destruct (Nat.ltb (length p) 1); [reflexivity|]. cbn [orb negb andb] in H |- *.
  destruct (ham84_dec (nth 0 p 0)) as [dc|]; [|reflexivity].
  destruct (negb (dc =? 0) && negb (dc =? 4)) eqn:Edc.
  - destruct (dc =? 0), (dc =? 4); cbn in Edc |- *; try discriminate; reflexivity.
  - cbn [orb] in H. destruct (Nat.ltb (length (tl p)) 3); [rewrite andb_false_r; reflexivity|]. cbn [orb negb] in H.
    destruct (triplet_of (tl p)) as [t|]; [rewrite H; rewrite andb_false_r; reflexivity | rewrite andb_false_r; reflexivity].
Qed.
Lemma benign_no_desig mag0 pn0 u : benign mag0 pn0 u = true -> desig_ok mag0 u = false.
Proof.
  unfold benign, desig_ok. destruct (unit_addr u) as [[[mag pkt] p]|]; [|reflexivity]. intros H.
  destruct (mag =? mag0) eqn:Em; [|reflexivity]. cbn [andb].
  destruct (N.eqb_spec pkt 28) as [->|N28]; [|destruct (N.eqb_spec pkt 29) as [->|N29]; [|reflexivity]].
  - cbn [N.eqb Pos.eqb N.leb N.compare Pos.compare Pos.compare_cont orb negb] in H. cbn [orb andb]. exact (inert_no_desig 28 p H).
  - cbn [N.eqb Pos.eqb N.leb N.compare Pos.compare Pos.compare_cont orb negb] in H. cbn [orb andb]. exact (inert_no_desig 29 p H).
Qed.
Lemma row_no_desig mag0 row cells u : is_our_row mag0 row cells u = true -> desig_ok mag0 u = false.
Proof.
  unfold is_our_row, desig_ok. destruct (unit_addr u) as [[[mag pkt] p]|]; [|reflexivity]. intros H.
  repeat (apply andb_true_iff in H; destruct H as [H ?]).
  match goal with X : (pkt <=? 25) = true |- _ => apply N.leb_le in X end.
  destruct (N.eqb_spec pkt 28); [lia|]. destruct (N.eqb_spec pkt 29); [lia|]. rewrite andb_false_r. reflexivity.
Qed.
(* while our page is not being received a unit of the "cannot matter" class leaves the record alone *)
Lemma dead_desig_idle mag0 pn0 st u : dead_ok mag0 pn0 u = true -> desig_idle mag0 st u = st.
Proof.
  unfold desig_idle, desig_of, dead_ok, desig_ok. destruct (unit_addr u) as [[[mag pkt] p]|]; [|reflexivity]. intros H. cbn [fst snd].
  destruct (N.eqb_spec pkt 28) as [->|N28].
  - match goal with |- (if ?c then _ else _) = _ => destruct c; reflexivity end.
  - destruct (N.eqb_spec pkt 29) as [->|N29].
    + cbn [N.eqb Pos.eqb] in H. destruct (mag =? mag0) eqn:Em; [|reflexivity]. cbn [negb orb andb] in H |- *.
      match goal with |- (if ?c then _ else _) = _ => assert (E : c = false) by exact (inert_no_desig 29 p H); rewrite E; reflexivity end.
    + destruct (mag =? mag0); cbn [orb andb]; reflexivity.
Qed.

(* ---- the done list is write-only: a prefix on it commutes with every unit ---- *)
Definition add_done (d : list tpage) (b : pbuf) : pbuf :=
  mkPbuf (pb_cd b) (pb_cur b) (d ++ pb_done b) (pb_mag b) (pb_page b) (pb_recv b).
Definition res_map {A B} (f : A -> B) (r : res A) : res B :=
  match r with Ok a => Ok (f a) | Err k => Err k | Panic s => Panic s end.

Lemma parse_header_add d i mag t b : parse_header i mag t (add_done d b) = add_done d (parse_header i mag t b).
Proof.
  unfold parse_header, add_done. cbn [pb_mag pb_page pb_recv pb_cur pb_cd pb_done].
  destruct (Nat.ltb (length i) 8); [reflexivity|].
  destruct (ham84 (ttx_byte_at 0 i)); [|reflexivity]. destruct (ham84 (ttx_byte_at 1 i)); [|reflexivity].
  destruct ((n0 =? 15) && (n =? 15)); [reflexivity|].
  destruct ((pb_mag b =? 0) && (pb_page b =? 0)%Z).
  - destruct (ham84 (ttx_byte_at 5 i)); [|reflexivity].
    destruct (0 <? N.land n1 8); cbn [pb_mag pb_page pb_recv pb_cur pb_cd pb_done];
      (destruct (ham84 (ttx_byte_at 7 i)); [|reflexivity]);
      repeat match goal with |- context [if ?c then _ else _] => destruct c; cbn [pb_mag pb_page pb_recv pb_cur pb_cd pb_done]; try reflexivity end;
      destruct (pb_cur b); cbn [pb_done]; try rewrite app_assoc; reflexivity.
  - cbn [pb_mag pb_page pb_recv pb_cur pb_cd pb_done].
    destruct (ham84 (ttx_byte_at 7 i)); [|reflexivity].
    repeat match goal with |- context [if ?c then _ else _] => destruct c; cbn [pb_mag pb_page pb_recv pb_cur pb_cd pb_done]; try reflexivity end;
      destruct (pb_cur b); cbn [pb_done]; try rewrite app_assoc; reflexivity.
Qed.
Lemma parse_data_add d i pkt b : parse_data i pkt (add_done d b) = res_map (add_done d) (parse_data i pkt b).
Proof.
  unfold parse_data, add_done. cbn [pb_mag pb_page pb_recv pb_cur pb_cd pb_done].
  destruct (Nat.ltb (length i) 40); [reflexivity|]. destruct (pb_cur b); reflexivity.
Qed.
Lemma parse_2829_add d i pkt dc b : parse_2829 i pkt dc (add_done d b) = res_map (add_done d) (parse_2829 i pkt dc b).
Proof.
  unfold parse_2829. destruct (negb (dc =? 0) && negb (dc =? 4)); [reflexivity|].
  destruct (Nat.ltb (length i) 3); [reflexivity|]. destruct (triplet_dec i) as [tr|]; [|reflexivity].
  match goal with |- context [(pkt =? 28) && ?c] => destruct ((pkt =? 28) && c) end; [reflexivity|].
  change (pb_cd (add_done d b)) with (pb_cd b).
  destruct (pkt =? 28).
  - destruct (set_x28 (pb_cd b) _); reflexivity.
  - destruct (set_m29 (pb_cd b) _); reflexivity.
Qed.
Lemma parse_packet_add d i mag pkt t b : parse_packet i mag pkt t (add_done d b) = res_map (add_done d) (parse_packet i mag pkt t b).
Proof.
  unfold parse_packet. destruct (pkt =? 0); [cbn [res_map]; rewrite parse_header_add; reflexivity|].
  change (pb_recv (add_done d b)) with (pb_recv b). change (pb_mag (add_done d b)) with (pb_mag b).
  destruct (pb_recv b && (mag =? pb_mag b) && (1 <=? pkt) && (pkt <=? 25)); [apply parse_data_add|].
  destruct (Nat.ltb (length i) 1); [reflexivity|]. destruct (ham84 (ttx_byte_at 0 i)); [|reflexivity].
  destruct (pb_recv b && (mag =? pb_mag b) && (pkt =? 26)); [reflexivity|].
  destruct (pb_recv b && (mag =? pb_mag b) && (pkt =? 28)); [apply parse_2829_add|].
  destruct ((mag =? pb_mag b) && (pkt =? 29)); [apply parse_2829_add | reflexivity].
Qed.
Lemma parse_unit_add d i id t b : parse_unit i id t (add_done d b) = res_map (add_done d) (parse_unit i id t b).
Proof.
  unfold parse_unit. destruct (negb (id =? 3)); [reflexivity|]. destruct (Nat.ltb (length i) 4); [reflexivity|].
  destruct (negb (ttx_byte_at 1 i =? 228)); [reflexivity|].
  destruct (ham84 (ttx_byte_at 2 i)); [|reflexivity]. destruct (ham84 (ttx_byte_at 3 i)); [|reflexivity].
  apply parse_packet_add.
Qed.
