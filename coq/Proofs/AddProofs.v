(* Sync: Subtitles.Add (C09). *)
From Coq Require Import List ZArith NArith Bool Lia.
From Astisub Require Import Kit.Base Model.Ops.
Import ListNotations.
Open Scope Z_scope.

Fixpoint filter_map {A B} (f : A -> option B) (l : list A) : list B :=
  match l with
  | [] => []
  | x :: r => match f x with Some y => y :: filter_map f r | None => filter_map f r end
  end.

Lemma add_filter_map d l : add_dur d l = filter_map (shift1 d) l.
Proof. induction l as [|x r IH]; cbn [add_dur filter_map]; [reflexivity|]. rewrite IH. reflexivity. Qed.

Definition wf_item (x : item) : Prop := st x <= en x.
Definition alive (d : Z) (x : item) : bool := 0 <? en x + d.

(* the per-cue meaning, under start <= end *)
Lemma shift1_spec d x : wf_item x ->
  shift1 d x = if alive d x then Some (set_st (set_en x (en x + d)) (Z.max 0 (st x + d))) else None.
Proof.
  unfold wf_item, shift1, alive. intros H.
  destruct (en x + d <=? 0) eqn:E1; destruct (st x + d <=? 0) eqn:E2; cbn [andb];
    destruct (0 <? en x + d) eqn:E3; try reflexivity;
    try (apply Z.leb_le in E1); try (apply Z.leb_gt in E1); try (apply Z.leb_le in E2); try (apply Z.leb_gt in E2);
    try (apply Z.ltb_lt in E3); try (apply Z.ltb_ge in E3); try lia.
  - f_equal. f_equal. lia.
  - f_equal. f_equal. lia.
Qed.

(* exactly the cues whose end would be <= 0 go; the others keep their order and identity *)
Lemma add_survivors d l : Forall wf_item l ->
  add_dur d l = map (fun x => set_st (set_en x (en x + d)) (Z.max 0 (st x + d))) (filter (alive d) l).
Proof.
  induction l as [|x r IH]; intros H; cbn [add_dur filter map]; [reflexivity|].
  inversion H as [|? ? Hx Hr]; subst. rewrite (shift1_spec d x Hx).
  destruct (alive d x); cbn [map]; rewrite (IH Hr); reflexivity.
Qed.

Lemma add_removed d l : Forall wf_item l ->
  map uid (add_dur d l) = map uid (filter (alive d) l).
Proof. intros H. rewrite (add_survivors d l H), map_map. reflexivity. Qed.

Definition same_payload (x y : item) : Prop :=
  uid y = uid x /\ i_lines y = i_lines x /\ i_reg y = i_reg x /\ i_sty y = i_sty x /\ i_inl y = i_inl x.

Lemma add_pointwise d l : Forall wf_item l ->
  Forall2 (fun x y => en y = en x + d /\ st y = Z.max 0 (st x + d) /\ same_payload x y)
          (filter (alive d) l) (add_dur d l).
Proof.
  intros H. rewrite (add_survivors d l H). induction (filter (alive d) l) as [|x r IH]; cbn [map]; constructor.
  - cbn. unfold same_payload. cbn. repeat split; reflexivity.
  - exact IH.
Qed.

Lemma add_wf d l : Forall wf_item l -> Forall wf_item (add_dur d l).
Proof.
  intros H. rewrite (add_survivors d l H). rewrite Forall_forall. intros y Hy.
  apply in_map_iff in Hy. destruct Hy as (x & <- & Hx). apply filter_In in Hx. destruct Hx as [Hin Ha].
  rewrite Forall_forall in H. specialize (H x Hin). unfold wf_item, alive in *. cbn. apply Z.ltb_lt in Ha. lia.
Qed.

(* shifting back restores every cue that was neither clamped nor removed *)
Definition restorable (d : Z) (x : item) : Prop := 0 <= st x /\ st x <= en x /\ 0 < en x /\ 0 < st x + d.

Lemma shift1_back d x : restorable d x ->
  exists x', shift1 d x = Some x' /\ shift1 (- d) x' = Some x.
Proof.
  unfold restorable. intros (H0 & H1 & H2 & H3).
  exists (set_st (set_en x (en x + d)) (st x + d)). split.
  - unfold shift1. destruct (en x + d <=? 0) eqn:E1; [apply Z.leb_le in E1; lia|]. cbn [andb].
    destruct (st x + d <=? 0) eqn:E2; [apply Z.leb_le in E2; lia|]. reflexivity.
  - unfold shift1. cbn [st en set_st set_en].
    replace (en x + d + - d) with (en x) by lia. replace (st x + d + - d) with (st x) by lia.
    destruct (en x <=? 0) eqn:E1; [apply Z.leb_le in E1; lia|]. cbn [andb].
    destruct x as [u s e ls rg sy il]. cbn in *. unfold set_st, set_en. cbn.
    destruct (s <=? 0) eqn:E2; [apply Z.leb_le in E2; f_equal; f_equal; lia | reflexivity].
Qed.

Lemma add_back d l : Forall (restorable d) l -> add_dur (- d) (add_dur d l) = l.
Proof.
  induction l as [|x r IH]; intros H; [reflexivity|].
  inversion H as [|? ? Hx Hr]; subst. destruct (shift1_back d x Hx) as (x' & E1 & E2).
  cbn [add_dur]. rewrite E1. cbn [add_dur]. rewrite E2, (IH Hr). reflexivity.
Qed.

Lemma add_length d l : (length (add_dur d l) <= length l)%nat.
Proof. induction l as [|x r IH]; cbn [add_dur]; [lia|]. destruct (shift1 d x); cbn [length]; lia. Qed.
