(* C07, styled teletext sources, continued: EBU STL (the writer joins the runs of a line with one space: the text that comes
   back is the run texts joined with a space) and WebVTT (partial: runs whose colour has no WebVTT class), with examples. *)
From Coq Require Import List ZArith NArith Bool Lia.
From Astisub Require Import Kit.Base Kit.Str Model.TtxRow Model.Ttx Model.TtxSpec Model.Plain Model.PlainTtx Model.ConvTtx.
From Astisub Require Import Model.Srt Model.Vtt Model.Conv Model.Ssa Model.PlainSsa Model.Stl Model.PlainStl Model.Ttml Model.PlainTtml.
From Astisub Require Import Proofs.SrtEscProofs Proofs.SrtProofs Proofs.VttBase Proofs.VttLine Proofs.VttDoc Proofs.PlainProofs Proofs.PlainStlProofs Proofs.SsaDoc
  Proofs.TtmlDocSpec Proofs.ConvTtxProofs.
Import ListNotations.
Open Scope N_scope.

(* ---- EBU STL ---- *)
(* the plain view with the runs of a line joined by one space: what a teletext screen shows at least between two runs (the
   attribute cell between them is displayed as a space) and what the STL writer puts there *)
Definition ttx_to_plain_spaced (cs : list tcue) : plain :=
  map (fun c => (c_st c, c_en c, map (fun runs => join [32] (map (fun r : trunT => tr_text r) runs)) (c_lines c))) cs.

Definition stl_key (i : witem) := (wi_st i, wi_en i, wi_just i, wi_vp i, stl_item_text i).
Lemma tti_blocks_key fps dsc tcp : forall a b idx, map stl_key a = map stl_key b -> tti_blocks fps dsc tcp a idx = tti_blocks fps dsc tcp b idx.
Proof.
  induction a as [|i r IH]; intros [|j s] idx H; cbn [map] in H; try discriminate; [reflexivity|].
  inversion H as [[H1 H2 H3 H4 H5 Hr]]. cbn [tti_blocks]. rewrite (IH s (idx + 1)%Z Hr). f_equal. f_equal.
  unfold new_tti. rewrite H1, H2, H3, H4, H5. reflexivity.
Qed.
Lemma write_stl_key now a b : map stl_key a = map stl_key b -> write_stl now None a = write_stl now None b.
Proof.
  intros H. assert (Hlen : length a = length b) by (rewrite <- (map_length stl_key a), <- (map_length stl_key b), H; reflexivity).
  destruct a as [|i r], b as [|j s]; cbn [length] in Hlen; try discriminate; [reflexivity|].
  unfold write_stl. assert (Hg : new_gsi now None (i :: r) = new_gsi now None (j :: s)).
  { unfold new_gsi. cbn [length]. pose proof H as H'. cbn [map] in H'. unfold stl_key in H'. injection H' as H1 _ _ _ _ _. rewrite H1. injection Hlen as Hl. rewrite Hl. reflexivity. }
  rewrite Hg. rewrite (tti_blocks_key _ _ _ _ _ 1%Z H). reflexivity.
Qed.
Lemma conv_ttx_stl_key cs : map stl_key (conv_ttx_stl cs) = map stl_key (stl_of_plain (ttx_to_plain_spaced cs)).
Proof.
  unfold conv_ttx_stl, stl_of_plain, ttx_to_plain_spaced. rewrite !map_map. apply map_ext. intros c. unfold stl_key.
  cbn [wi_st wi_en wi_just wi_vp]. f_equal. unfold stl_item_text. cbn [wi_lines]. rewrite !map_map. f_equal. apply map_ext. intros l.
  rewrite map_map. cbn [map join]. unfold stl_string. cbn [wr_it wr_un wr_bx wr_text]. reflexivity.
Qed.
Theorem ttx_to_stl_styled : forall ds cs, ttx_feed 0 ds = Ok cs -> stl_plain_ok (ttx_to_plain_spaced cs) ->
  exists dst, convert_ttx_stl ds = Ok dst /\ stl_dec dst = Ok (ptrunc stl_plain_unit (ttx_to_plain_spaced cs)).
Proof.
  intros ds cs Hf Hok. destruct (stl_plain_faithful _ Hok) as (dst & Hw & Hr). exists dst. split; [|exact Hr].
  unfold convert_ttx_stl. rewrite (with_cues _ ds cs Hf). rewrite (write_stl_key _ _ _ (conv_ttx_stl_key cs)). exact Hw.
Qed.
(* with one run per line nothing is inserted *)
Lemma spaced_single cs : Forall (fun c => Forall (fun l : list trunT => length l = 1%nat) (c_lines c)) cs -> ttx_to_plain_spaced cs = ttx_to_plain cs.
Proof.
  intros H. unfold ttx_to_plain_spaced, ttx_to_plain. apply map_ext_in. intros c Hc. rewrite Forall_forall in H. specialize (H c Hc).
  f_equal. apply map_ext_in. intros l Hl. rewrite Forall_forall in H. specialize (H l Hl).
  destruct l as [|r [|r2 l2]]; cbn in H; try discriminate. cbn. rewrite app_nil_r. reflexivity.
Qed.

(* the two views differ by the inserted spaces only: equal once the spaces are disregarded (the tolerance C07 states) *)
Definition ttx_nosp (s : str) : str := filter (fun c => negb (c =? 32)) s.
Definition plain_nosp (p : plain) : plain := map (fun c : pcue => let '(s, e, ls) := c in (s, e, map ttx_nosp ls)) p.
Lemma nosp_app a b : ttx_nosp (a ++ b) = ttx_nosp a ++ ttx_nosp b.
Proof. unfold ttx_nosp. apply filter_app. Qed.
Lemma nosp_join : forall l : list str, ttx_nosp (join [32] l) = ttx_nosp (concat l).
Proof.
  induction l as [|x [|y r] IH]; [reflexivity | cbn [join concat]; rewrite app_nil_r; reflexivity|].
  change (join [32] (x :: y :: r)) with (x ++ [32] ++ join [32] (y :: r)). change (concat (x :: y :: r)) with (x ++ concat (y :: r)).
  rewrite !nosp_app, IH. reflexivity.
Qed.
Theorem spaced_nosp cs : plain_nosp (ttx_to_plain_spaced cs) = plain_nosp (ttx_to_plain cs).
Proof.
  unfold plain_nosp, ttx_to_plain_spaced, ttx_to_plain. rewrite !map_map. apply map_ext. intros c. f_equal. rewrite !map_map.
  apply map_ext. intros l. apply nosp_join.
Qed.

(* ---- WebVTT (partial) ---- *)
(* The full statement is the one of ttx_to_srt_styled with convert_ttx_vtt / vtt_dec / vtt_plain_ok.  A coloured run is written
   as <c.red>...</c> when WebVTT has a class for its colour, and the WebVTT write->read theorem (Proofs/VttDoc.v) covers runs
   without a colour class only; so it is proved here for pages whose runs have no colour or one of the four teletext colours
   the writer has no class for (black, green #008000, blue, white): the bytes are then those of the line written as one run
   whose text is the run texts put together.  Red, yellow, magenta and cyan runs are covered by the byte-level correspondence
   (harness/plain_ttx.go) only. *)
Definition run_classless (r : trunT) : bool := match ttx_run_color r with Some col => match css_color col with [] => true | _ => false end | None => true end.
Definition cues_classless (cs : list tcue) : bool := forallb (fun c => forallb (forallb run_classless) (c_lines c)) cs.
Definition vrun_of (r : trunT) : vrun := mkVrun (tr_text r) (Some []) 0%Z (ttx_run_color r).
Lemma vrun_bytes_plain p n r : run_classless r = true -> vrun_bytes p n (vrun_of r) = escape_html (tr_text r).
Proof.
  intros H. unfold run_classless in H. unfold vrun_bytes, vrun_of. cbn [vr_color vr_tags vr_time vr_text run_tags].
  rewrite !skipn_nil. cbn [map concat rev]. change (0 <? 0)%Z with false. cbv iota.
  destruct (ttx_run_color r) as [col|]; [destruct (css_color col); [|discriminate]|]; cbn [app]; rewrite app_nil_r; reflexivity.
Qed.
Lemma vruns_bytes_plain : forall l p, forallb run_classless l = true -> forallb run_whole l = true ->
  vruns_bytes p (map vrun_of l) = escape_html (concat (map (fun r : trunT => tr_text r) l)).
Proof.
  induction l as [|r rest IH]; intros p H W; [reflexivity|]. cbn [forallb] in H, W. apply andb_true_iff in H. destruct H as [Hr Hrest].
  apply andb_true_iff in W. destruct W as [Wr Wrest]. cbn [map vruns_bytes concat]. rewrite (vrun_bytes_plain _ _ r Hr), (IH (Some (vrun_of r)) Hrest Wrest).
  symmetry. apply (escape_html_app (length (tr_text r)) _ _ (le_n _)).
  unfold run_whole in Wr. apply negb_true_iff in Wr. apply N.eqb_neq in Wr. exact Wr.
Qed.
Lemma vitems_bytes_joined : forall cs k, cues_classless cs = true -> runs_whole cs = true ->
  vitems_bytes k (vd_items (conv_ttx_vtt cs)) = vitems_bytes k (vd_items (vtt_of_plain (ttx_to_plain cs))).
Proof.
  induction cs as [|c r IH]; intros k H W; [reflexivity|]. cbn [cues_classless runs_whole forallb] in H, W.
  apply andb_true_iff in H. destruct H as [Hc Hr]. apply andb_true_iff in W. destruct W as [Wc Wr].
  specialize (IH (S k) Hr Wr). cbn [conv_ttx_vtt vtt_of_plain ttx_to_plain vd_items map] in *.
  cbn [vitems_bytes vi_comments vi_st vi_en vi_lines]. rewrite IH. unfold vitem_settings. cbn [vi_set].
  assert (EL : map vline_bytes (map (fun l => mkVline (map (fun r : trunT => mkVrun (tr_text r) (Some []) 0%Z (ttx_run_color r)) l) []) (c_lines c))
             = map vline_bytes (map (fun t => mkVline [mkVrun t None 0%Z None] []) (map (fun runs => concat (map (fun r : trunT => tr_text r) runs)) (c_lines c)))).
  { rewrite !map_map. apply map_ext_in. intros l Hl. rewrite forallb_forall in Hc, Wc. specialize (Hc l Hl). specialize (Wc l Hl).
    unfold vline_bytes. cbn [vl_voice vl_runs]. f_equal. f_equal. change (map (fun r : trunT => mkVrun (tr_text r) (Some []) 0%Z (ttx_run_color r)) l) with (map vrun_of l).
    rewrite (vruns_bytes_plain l None Hc Wc). cbn [vruns_bytes]. unfold vrun_bytes. cbn. rewrite !app_nil_r. reflexivity. }
  rewrite EL. reflexivity.
Qed.
Lemma write_vtt_joined cs : cues_classless cs = true -> runs_whole cs = true -> write_vtt0 (conv_ttx_vtt cs) = vtt_enc (ttx_to_plain cs).
Proof.
  intros H W. unfold vtt_enc, write_vtt0, write_vtt. rewrite (vitems_bytes_joined cs 0 H W). destruct cs; reflexivity.
Qed.
Theorem ttx_to_vtt_styled_partial : forall ds cs, ttx_feed 0 ds = Ok cs -> cues_classless cs = true -> runs_whole cs = true ->
  vtt_plain_ok (ttx_to_plain cs) ->
  exists dst, convert_ttx_vtt ds = Ok dst /\ vtt_dec dst = Ok (ptrunc 1000000 (ttx_to_plain cs)).
Proof.
  intros ds cs Hf Hc Hw Hok. destruct (vtt_plain_faithful _ Hok) as (dst & He & Hd). exists dst. split; [|exact Hd].
  unfold convert_ttx_vtt. rewrite (with_cues _ ds cs Hf), (write_vtt_joined cs Hc Hw). exact He.
Qed.
