(* C18, EBU STL reader: the failing Read returns its error together with the last bytes it delivers (Model/StlIO.v,
   [read_stl_fail_wd]).  The reader returns an error, and a genuine one (not the out-of-fuel value of the loop). *)
From Coq Require Import List ZArith NArith Bool Lia.
From Astisub Require Import Kit.Base Kit.Str Kit.Scan Kit.IOW Model.Dur Model.Stl Model.StlIO Gen.StlTables
  Proofs.ScanProofs Proofs.StlBlocks Proofs.StlReadSpec Proofs.StlIOProofs Proofs.FuelStl.
Import ListNotations.

Lemma tti_loop_fail_wd_err : forall fuel data counts g tcp acc items, exists k, tti_loop_fail_wd fuel data counts g tcp acc items = Err k.
Proof.
  induction fuel as [|f IH]; intros data counts g tcp acc items; [eexists; reflexivity|].
  cbn [tti_loop_fail_wd]. destruct (read_n 128 data counts) as [p rest cs| |]; try (eexists; reflexivity).
  destruct rest as [|b0 rest']; [eexists; reflexivity|].
  destruct (tti_step g tcp acc items p) as [[acc' items']|k|s] eqn:E; cbn [bind].
  - apply IH.
  - eexists; reflexivity.
  - exfalso. exact (tti_step_no_panic _ _ _ _ _ _ E).
Qed.
Theorem read_stl_fail_wd_err ign data counts : exists k, read_stl_fail_wd ign data counts = Err k.
Proof.
  unfold read_stl_fail_wd. destruct (read_n 1024 data counts) as [b rest cs| |]; try (eexists; reflexivity).
  destruct rest as [|b0 rest']; [eexists; reflexivity|].
  destruct (parse_gsi b) as [g|k|s] eqn:E; cbn [bind].
  - destruct (negb _); [eexists; reflexivity|].
    destruct (tti_loop_fail_wd_err (S (length (b0 :: rest'))) (b0 :: rest') cs g (if ign then 0%Z else g_tcp g) None []) as (k & R).
    rewrite R. eexists; reflexivity.
  - eexists; reflexivity.
  - exfalso. exact (parse_gsi_no_panic _ _ E).
Qed.

Theorem tti_loop_fail_wd_not_fuel : forall fuel data counts g tcp acc items, (length data < fuel)%nat ->
  not_fuel (tti_loop_fail_wd fuel data counts g tcp acc items).
Proof.
  induction fuel as [|f IH]; intros data counts g tcp acc items Hf; [lia|].
  cbn [tti_loop_fail_wd]. destruct (read_n 128 data counts) as [p rest cs| |] eqn:R; try discriminate.
  apply read_n_ok_len in R; [|lia]. destruct rest as [|b0 rest']; [discriminate|].
  apply bind_not_fuel; [apply tti_step_not_fuel|]. intros [acc' items']. apply IH. lia.
Qed.
Theorem read_stl_fail_wd_not_fuel ign data counts : read_stl_fail_wd ign data counts <> Err EOther.
Proof.
  change (not_fuel (read_stl_fail_wd ign data counts)). unfold read_stl_fail_wd.
  destruct (read_n 1024 data counts) as [b rest cs| |]; try discriminate.
  destruct rest as [|b0 rest']; [discriminate|].
  apply bind_not_fuel; [apply parse_gsi_not_fuel|]. intros g. destruct (negb _); [discriminate|].
  apply bind_not_fuel; [apply tti_loop_fail_wd_not_fuel; lia|]. intros items. discriminate.
Qed.
Corollary read_stl_fail_wd_err_genuine ign data counts : exists k, read_stl_fail_wd ign data counts = Err k /\ k <> EOther.
Proof.
  destruct (read_stl_fail_wd_err ign data counts) as (k & R). exists k. split; [exact R|].
  intros ->. exact (read_stl_fail_wd_not_fuel ign data counts R).
Qed.
(* the audit's case: three cues (1408 bytes), the stream fails after 1152 bytes = at the end of the first TTI block.
   Failing with or without the last bytes: an error.  A stream that simply ENDS there is a well-formed one-cue file -
   which is what the library returned, without an error, when the failing Read delivered the block's last bytes and the
   stream reported end-of-file afterwards (before the repo fix). *)
Definition wd_ex_item (k : Z) : witem := mkWitem (k * 1000000000) ((k + 1) * 1000000000) None None [[mkWrun [120%N] false false false]].
Definition wd_ex_file : str :=
  match write_stl [50;52;48;50;50;57]%N None [wd_ex_item 1; wd_ex_item 2; wd_ex_item 3] with Ok d => d | _ => [] end.
Example wd_ex :
  length wd_ex_file = 1408%nat /\
  read_stl_fail_at_wd false wd_ex_file 1152 [] = Err EIO /\ read_stl_fail_at false wd_ex_file 1152 [] = Err EIO /\
  read_stl_fail_at_wd false wd_ex_file 1024 [] = Err EIO /\ read_stl_fail_at_wd false wd_ex_file 1408 [1024; 128; 128; 128]%nat = Err EIO /\
  match read_stl false (firstn 1152 wd_ex_file) with Ok d => length (rd_items d) = 1%nat | _ => False end.
Proof. vm_compute. repeat split; reflexivity. Qed.
