(* SSA/ASS rows: the two row predicates of Proofs/SsaRows.v (cell_denotes for style cells, decode_ecell / ecol_ok for
   event cells) restated with the parser-independent spellings of Proofs/SsaCells.v and Proofs/SsaCellsTime.v, and
   proved equivalent for every attribute and every cell; the float cells the reading theorems quantify over are inside
   the faithful domain of the float model. *)
From Coq Require Import List ZArith NArith Bool Lia Arith ZifyBool ZifyN ZifyNat.
From Astisub Require Import Kit.Base Kit.Str Kit.Scan Model.Dur Model.Ssa Proofs.DurProofs Proofs.VttBase Proofs.SsaFields
  Proofs.SsaTrim Proofs.SsaRows Proofs.SsaRead Proofs.SsaCells Proofs.SsaCellsTime.
Import ListNotations.
Open Scope N_scope.

(* ---------------------------------------------------------------- TrimSpace, exactly *)
(* [core] neither begins nor ends with a white-space character *)
Definition tight (core : str) : Prop :=
  (forall w r, white_char w -> core <> w ++ r) /\ (forall w r, white_char w -> core <> r ++ w).
(* [core] is [cell] without the white space around it *)
Definition trimmed (core cell : str) : Prop := padded core cell /\ tight core.

Lemma trim_left_fuel_fixed f : forall s, (length s <= f)%nat -> strip_space1 (trim_left_fuel f s) = None.
Proof.
  induction f as [|f IH]; intros s Hl; cbn [trim_left_fuel].
  - destruct s; [reflexivity | cbn [length] in Hl; lia].
  - destruct (strip_space1 s) as [r|] eqn:E; [|exact E]. apply IH. apply strip_space1_len in E. lia.
Qed.
Lemma trim_right_fuel_fixed f : forall s, (length s <= f)%nat -> strip_space1_rev (trim_right_fuel f s) = None.
Proof.
  induction f as [|f IH]; intros s Hl; cbn [trim_right_fuel].
  - destruct s; [reflexivity | cbn [length] in Hl; lia].
  - destruct (strip_space1_rev s) as [r|] eqn:E; [|exact E]. apply IH. apply strip_space1_rev_len in E. lia.
Qed.

(* a white-space character: its first byte is an ASCII space or 194 and above, its other bytes are 128 .. 191 *)
Lemma white_char_head w : white_char w -> is_ascii_space (hd 0 w) = true \/ 194 <= hd 0 w.
Proof.
  intros [c Hc|q Hq]; [left; cbn [hd]; unfold is_ascii_space; lia|]. right.
  assert (F : Forall (fun q => 194 <= hd 0 q) space_seqs) by (unfold space_seqs; repeat constructor; cbn [hd]; lia).
  exact (proj1 (Forall_forall _ _) F q Hq).
Qed.
Lemma white_char_tail w c : white_char w -> In c (tl w) -> 128 <= c <= 191.
Proof.
  intros [x Hx|q Hq] Hin; [destruct Hin|].
  assert (F : Forall (fun q => Forall (fun c => 128 <= c <= 191) (tl q)) space_seqs)
    by (unfold space_seqs; repeat constructor; lia).
  exact (proj1 (Forall_forall _ _) (proj1 (Forall_forall _ _) F q Hq) c Hin).
Qed.
Lemma white_head R : white R -> R <> [] -> is_ascii_space (hd 0 R) = true \/ 194 <= hd 0 R.
Proof.
  intros [|w s Hw _] Hne; [contradiction|]. pose proof (white_char_nonnil w Hw) as Hn.
  destruct w as [|x w']; [contradiction|]. cbn [app hd]. exact (white_char_head (x :: w') Hw).
Qed.

(* a tight string followed by white space does not begin with a white-space character *)
Lemma tight_white_fixed core R : core <> [] -> tight core -> white R -> strip_space1 (core ++ R) = None.
Proof.
  intros Hne (Hl & _) HR. destruct (strip_space1 (core ++ R)) as [r'|] eqn:E; [|reflexivity]. exfalso.
  destruct (strip_space1_inv _ _ E) as (w & Hw & Ew). apply app_eq_app in Ew.
  destruct Ew as (e & [(Ec & _)|(Ew & ER)]); [exact (Hl w e Hw Ec)|].
  destruct e as [|c e]; [rewrite app_nil_r in Ew; subst w; exact (Hl core [] Hw (eq_sym (app_nil_r core)))|].
  (* the white-space character straddles the boundary: its byte [c] would begin the white space [R] *)
  assert (Hc : 128 <= c <= 191).
  { apply (white_char_tail w c Hw). rewrite Ew. destruct core as [|x core']; [contradiction|]. cbn [app tl].
    apply in_or_app. right. left. reflexivity. }
  assert (HRn : R <> []) by (rewrite ER; discriminate).
  destruct (white_head R HR HRn) as [Ha|Ha]; rewrite ER in Ha; cbn [app hd] in Ha; [unfold is_ascii_space in Ha; lia | lia].
Qed.

Lemma trim_left_fuel_nil f : trim_left_fuel f [] = [].
Proof. destruct f; reflexivity. Qed.
Lemma trim_right_fuel_nil f : trim_right_fuel f [] = [].
Proof. destruct f; reflexivity. Qed.

(* strings.TrimSpace returns the tight core of its argument, and nothing else is a tight core *)
Theorem trimmed_iff core cell : trimmed core cell <-> trim_space cell = core.
Proof.
  split.
  - intros ((L & R & -> & HL & HR) & Ht). unfold trim_space, trim_left.
    destruct (trim_left_fuel_white L HL (length (L ++ core ++ R)) (core ++ R) (Nat.le_refl _)) as (f' & Hf' & ->).
    destruct core as [|x core'].
    + cbn [app] in *.
      assert (E : trim_left_fuel f' R = []).
      { rewrite <- (app_nil_r R). destruct (trim_left_fuel_white R HR f' []) as (f'' & _ & ->);
          [rewrite app_nil_r; exact Hf' | apply trim_left_fuel_nil]. }
      rewrite E. reflexivity.
    + assert (Hne : x :: core' <> []) by discriminate. set (core := x :: core') in *.
      rewrite trim_left_fuel_id by (apply tight_white_fixed; assumption).
      unfold trim_right. rewrite rev_app_distr.
      destruct (trim_right_fuel_white R HR (length (core ++ R)) (rev core)) as (f'' & _ & ->).
      { rewrite !app_length, !rev_length. lia. }
      rewrite trim_right_fuel_id; [apply rev_involutive|].
      destruct (strip_space1_rev (rev core)) as [r'|] eqn:E; [|reflexivity]. exfalso.
      destruct (strip_space1_rev_inv _ _ E) as (w & Hw & Ew). apply (f_equal (@rev N)) in Ew.
      rewrite rev_involutive, rev_app_distr, rev_involutive in Ew. exact (proj2 Ht w (rev r') Hw Ew).
  - intros <-. split; [apply trim_space_padded|]. unfold trim_space, trim_right, trim_left.
    set (t1 := trim_left_fuel (length cell) cell).
    assert (F1 : strip_space1 t1 = None) by (apply trim_left_fuel_fixed; lia).
    set (t2 := trim_right_fuel (length t1) (rev t1)).
    assert (F2 : strip_space1_rev t2 = None) by (apply trim_right_fuel_fixed; rewrite rev_length; lia).
    destruct (trim_right_fuel_inv (length t1) (rev t1)) as (R & HR & ER). fold t2 in ER.
    assert (E1 : t1 = rev t2 ++ R) by (rewrite <- (rev_involutive t1), ER, rev_app_distr, rev_involutive; reflexivity).
    split.
    + intros w r Hw E. rewrite E in E1. rewrite E1, <- app_assoc, (strip_space1_white w _ Hw) in F1. discriminate F1.
    + intros w r Hw E. apply (f_equal (@rev N)) in E. rewrite rev_involutive, rev_app_distr in E.
      rewrite E, (strip_space1_rev_white w _ Hw) in F2. discriminate F2.
Qed.

(* ---------------------------------------------------------------- style cells *)
(* [cell] spells the value [src] has for attribute [a]: no decoder in sight *)
Definition cell_spelled (a : sattr) (src : astyle) (cell : str) : Prop :=
  match a with
  | AB x => match bget x src with None => cell = [] | Some b => cell <> [] /\ bool_spelling b cell end
  | AC x => colour_spelling (cget x src) cell
  | AF x => match fget x src with None => cell = [] | Some f => float_spelling f cell end
  | AI x => match iget x src with None => cell = [] | Some i => int_spelling i cell end
  | AFontName => cell = ay_fontname src
  | AName => cell = ay_name src
  end.

Theorem cell_denotes_spelling a src cell : cell_denotes a src cell <-> cell_spelled a src cell.
Proof.
  destruct a as [x|x|x|x| |]; cbn [cell_denotes cell_spelled]; try reflexivity.
  - destruct (bget x src) as [b|]; [|reflexivity]. rewrite bool_spelling_iff. reflexivity.
  - symmetry. apply colour_spelling_iff.
  - destruct (fget x src) as [f|]; [|reflexivity]. rewrite float_spelling_iff. split; [intros (_ & H); exact H|].
    intros H. split; [|exact H]. apply float_spelling_iff in H. exact (float_spelling_nonnil f cell H).
  - destruct (iget x src) as [i|]; [|reflexivity]. rewrite int_spelling_iff. split; [intros (_ & H); exact H|].
    intros H. split; [|exact H]. apply int_spelling_iff in H. exact (int_spelling_nonnil i cell H).
Qed.

Definition col_spelled (src : astyle) (col cell : str) : Prop :=
  match sattr_of_name col with Some a => cell_spelled a src cell | None => True end.
Corollary col_ok_spelling src col cell : col_ok src col cell <-> col_spelled src col cell.
Proof. unfold col_ok, col_spelled. destruct (sattr_of_name col); [apply cell_denotes_spelling | reflexivity]. Qed.

Lemma Forall2_iff {A B} (P Q : A -> B -> Prop) l1 l2 : (forall a b, P a b <-> Q a b) -> Forall2 P l1 l2 <-> Forall2 Q l1 l2.
Proof. intros H. split; induction 1; constructor; try assumption; apply H; assumption. Qed.

(* the style row of the reading theorems (C04_read_rendered, C04_read_sections) with spellings in place of decoders *)
Definition style_row_spelled (cols : list str) (cells : list str) (st : astyle) : Prop :=
  cells <> [] /\ Forall (fun c => ~ In 44 c) cells /\ Forall2 (col_spelled st) cols cells /\
  (forall a, sget a st <> sget a astyle0 -> in_cols a cols) /\
  join [44] cells <> [] /\ trimmed (join [44] cells) (join [44] cells).
Theorem style_row_spelling cols cells st : style_row cols cells st <-> style_row_spelled cols cells st.
Proof.
  unfold style_row, style_row_spelled.
  rewrite (Forall2_iff (col_ok st) (col_spelled st) cols cells (col_ok_spelling st)), trimmed_iff. reflexivity.
Qed.

(* ---------------------------------------------------------------- audit item g: float cells are inside the domain *)
(* no reading theorem quantifies over a float cell outside the faithful domain of the float model: a cell that
   satisfies the hypothesis for a float column is empty (no value) or spells a number of thousandths *)
Theorem cell_denotes_float_in_domain x src cell : cell_denotes (AF x) src cell -> cell = [] \/ float_cell_in_domain cell.
Proof.
  intros H. apply cell_denotes_spelling in H. cbn [cell_spelled] in H.
  destruct (fget x src) as [f|]; [right; exists f; exact H | left; exact H].
Qed.
Corollary col_ok_float_in_domain src col cell x : sattr_of_name col = Some (AF x) -> col_ok src col cell ->
  cell = [] \/ float_cell_in_domain cell.
Proof. intros Ha H. unfold col_ok in H. rewrite Ha in H. exact (cell_denotes_float_in_domain x src cell H). Qed.
Definition float_col_in_domain (col cell : str) : Prop :=
  forall x, sattr_of_name col = Some (AF x) -> cell = [] \/ float_cell_in_domain cell.
Corollary style_row_floats_in_domain cols cells st : style_row cols cells st -> Forall2 float_col_in_domain cols cells.
Proof.
  intros (_ & _ & HF & _). induction HF as [|col cell cols' cells' H _ IH]; constructor; [|exact IH].
  intros x Ha. exact (col_ok_float_in_domain st col cell x Ha H).
Qed.
(* the float value such a cell denotes is within the bound of the model *)
Corollary cell_denotes_float_ok x src cell f : cell_denotes (AF x) src cell -> fget x src = Some f -> float_ok f.
Proof.
  intros H E. apply cell_denotes_spelling in H. cbn [cell_spelled] in H. rewrite E in H. exact (float_spelling_bound f cell H).
Qed.
(* outside the domain the model does not guess: a non-empty float cell that spells no number of thousandths makes
   the row fail with the marker EOther (the driver answers NS, the harness compares the result class only) *)
Theorem style_cell_float_outside attr x cell s : sattr_of_name attr = Some (AF x) -> cell <> [] ->
  ~ float_cell_in_domain cell -> style_cell attr cell s = Err EOther.
Proof.
  intros Ha Hne Hout. unfold style_cell. rewrite Ha. destruct cell as [|c r]; [contradiction|].
  destruct (parse_float3 (c :: r)) as [v|] eqn:E; [|reflexivity].
  exfalso. apply Hout. exists v. apply float_spelling_iff. exact E.
Qed.

(* ---------------------------------------------------------------- event cells *)
(* the value [v] the cell of column [a] denotes *)
Definition ecell_spelled (a : eattr) (v : eval) (cell : str) : Prop :=
  match a with
  | EStart | EEnd => exists t, v = EZ t /\ time_spelling t cell
  | ELayer | EMarginL | EMarginR | EMarginV => exists i, v = EO (Some i) /\ int_spelling i cell
  | EMarked => (v = EB (Some true) /\ cell = n_marked1) \/ (v = EB (Some false) /\ cell <> n_marked1)
  | EEffect | EName => v = ES cell
  | EStyle => (v = ES n_default /\ cell = n_star_default) \/ (v = ES cell /\ cell <> n_star_default)
  | EText => exists core, v = ES core /\ trimmed core cell
  end.

Lemma str_eqb_neq a b : str_eqb a b = false <-> a <> b.
Proof.
  split.
  - intros H E. apply str_eqb_eq in E. congruence.
  - intros H. destruct (str_eqb a b) eqn:E; [|reflexivity]. apply str_eqb_eq in E. contradiction.
Qed.

Theorem decode_ecell_spelling a cell v : decode_ecell a cell = Some v <-> ecell_spelled a v cell.
Proof.
  assert (Htime : (match parse_time cell with Some d => Some (EZ d) | None => None end = Some v) <->
                  (exists t, v = EZ t /\ time_spelling t cell)).
  { split.
    - destruct (parse_time cell) as [d|] eqn:E; [|discriminate]. intros H. injection H as <-.
      exists d. split; [reflexivity | apply time_spelling_iff; exact E].
    - intros (t & -> & H). apply time_spelling_iff in H. rewrite H. reflexivity. }
  assert (Hint : (match atoi cell with Some i => Some (EO (Some i)) | None => None end = Some v) <->
                 (exists i, v = EO (Some i) /\ int_spelling i cell)).
  { split.
    - destruct (atoi cell) as [i|] eqn:E; [|discriminate]. intros H. injection H as <-.
      exists i. split; [reflexivity | apply int_spelling_iff; exact E].
    - intros (i & -> & H). apply int_spelling_iff in H. rewrite H. reflexivity. }
  destruct a; cbn [decode_ecell ecell_spelled]; try exact Htime; try exact Hint.
  - split; [intros H; injection H as <-; reflexivity | intros ->; reflexivity].
  - destruct (str_eqb cell n_marked1) eqn:E.
    + apply str_eqb_eq in E. split; [intros H; injection H as <-; left; split; [reflexivity | exact E]|].
      intros [(-> & _)|(_ & Hn)]; [reflexivity | contradiction].
    + apply str_eqb_neq in E. split; [intros H; injection H as <-; right; split; [reflexivity | exact E]|].
      intros [(_ & Hn)|(-> & _)]; [contradiction | reflexivity].
  - split; [intros H; injection H as <-; reflexivity | intros ->; reflexivity].
  - destruct (str_eqb cell n_star_default) eqn:E.
    + apply str_eqb_eq in E. split; [intros H; injection H as <-; left; split; [reflexivity | exact E]|].
      intros [(-> & _)|(_ & Hn)]; [reflexivity | contradiction].
    + apply str_eqb_neq in E. split; [intros H; injection H as <-; right; split; [reflexivity | exact E]|].
      intros [(_ & Hn)|(-> & _)]; [contradiction | reflexivity].
  - split.
    + intros H. injection H as <-. exists (trim_space cell). split; [reflexivity | apply trimmed_iff; reflexivity].
    + intros (core & -> & H). apply trimmed_iff in H. rewrite H. reflexivity.
Qed.

Definition ecol_spelled (src : aevent) (col cell : str) : Prop :=
  match eattr_of_name col with Some a => ecell_spelled a (eget a src) cell | None => True end.
Corollary ecol_ok_spelling src col cell : ecol_ok src col cell <-> ecol_spelled src col cell.
Proof. unfold ecol_ok, ecol_spelled. destruct (eattr_of_name col); [apply decode_ecell_spelling | reflexivity]. Qed.

Definition event_row_spelled (cols : list str) (init : list str) (last : str) (ev : aevent) : Prop :=
  Forall (fun c => ~ In 44 c) init /\ Forall2 (ecol_spelled ev) cols (init ++ [last]) /\
  av_category ev = n_dialogue /\ (forall a, ~ in_ecols a cols -> eget a ev = eget a (aevent0 n_dialogue)) /\
  join [44] (init ++ [last]) <> [] /\ trimmed (join [44] (init ++ [last])) (join [44] (init ++ [last])).
Theorem event_row_spelling cols init last ev : event_row cols init last ev <-> event_row_spelled cols init last ev.
Proof.
  unfold event_row, event_row_spelled.
  rewrite (Forall2_iff (ecol_ok ev) (ecol_spelled ev) cols (init ++ [last]) (ecol_ok_spelling ev)), trimmed_iff. reflexivity.
Qed.
