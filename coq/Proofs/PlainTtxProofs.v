(* C07, teletext as the source of conversions: the teletext codec of Model/PlainTtx.v is plain-faithful, from the stream
   theorem of C06 (Proofs/TtxStream.v, page auto-detected). *)
From Coq Require Import List ZArith NArith Bool Lia.
From Astisub Require Import Kit.Base Kit.Str Kit.GoMap Gen.TtxTables Model.TtxRow Model.Ttx Model.TtxSpec Model.Plain Model.PlainTtx.
From Astisub Require Import Model.Srt Proofs.SrtProofs Proofs.TtxTables Proofs.TtxRowProofs Proofs.TtxCodec Proofs.TtxSteps Proofs.TtxStream Proofs.TtxWitness Proofs.PlainProofs.
Import ListNotations.
Open Scope N_scope.

Lemma forallb_combine_map {A B} (f : A * B -> bool) (g : A -> B) l :
  forallb f (combine l (map g l)) = forallb (fun x => f (x, g x)) l.
Proof. induction l as [|x r IH]; [reflexivity|]. cbn [map combine forallb]. rewrite IH. reflexivity. Qed.

(* ---- lines ---- *)
Notation c0 := (g0_table 0).

Lemma ident_cell_facts b : ident_cell b = true -> 32 <= b /\ b < 128 /\ cell_text c0 b = [b] /\ is_text_cell b = true.
Proof.
  unfold ident_cell. intros H. apply andb_true_iff in H. destruct H as [H H3]. apply andb_true_iff in H. destruct H as [H1 H2].
  apply N.leb_le in H1. apply N.ltb_lt in H2. apply str_eqb_eq in H3.
  split; [exact H1|]. split; [exact H2|]. split.
  - unfold cell_text. destruct (N.ltb_spec b 32); [lia | exact H3].
  - unfold is_text_cell, is_attr. destruct (N.ltb_spec b 8); [lia|]. destruct (N.leb_spec 12 b); [|lia]. destruct (N.leb_spec b 15); [lia|].
    destruct (N.eqb_spec b 10); [lia|]. destruct (N.ltb_spec b 128); [reflexivity | lia].
Qed.

Record line_ok (t : str) : Prop := mkLineOk {
  lo_ne : t <> []; lo_len : (length t <= 37)%nat; lo_cells : forallb ident_cell t = true;
  lo_hd : hd 0 t <> 32; lo_last : last t 0 <> 32 }.
Lemma line_okb_ok t : line_okb t = true -> line_ok t.
Proof.
  unfold line_okb. intros H. repeat (apply andb_true_iff in H; destruct H as [H ?]).
  constructor.
  - apply negb_true_iff in H. destruct t; [discriminate | discriminate].
  - apply Nat.leb_le. assumption.
  - assumption.
  - match goal with X : negb (hd 0 t =? 32) = true |- _ => apply negb_true_iff in X; apply N.eqb_neq in X; exact X end.
  - match goal with X : negb (last t 0 =? 32) = true |- _ => apply negb_true_iff in X; apply N.eqb_neq in X; exact X end.
Qed.

Lemma seg_text_ident t : forallb ident_cell t = true -> seg_text c0 t = t.
Proof.
  induction t as [|b r IH]; intros H; [reflexivity|]. cbn [forallb] in H. apply andb_true_iff in H. destruct H as [Hb Hr].
  cbn [seg_text flat_map]. destruct (ident_cell_facts b Hb) as (_ & _ & E & _). rewrite E. cbn [app]. f_equal. apply IH. exact Hr.
Qed.
Lemma ident_plain b : ident_cell b = true -> b <> 32 -> plain_byte b = true.
Proof.
  intros H Hn. destruct (ident_cell_facts b H) as (H1 & H2 & _ & _). unfold plain_byte, is_ascii_space.
  destruct (N.eqb_spec b 32); [contradiction|]. destruct (N.leb_spec 9 b); [|lia]. destruct (N.leb_spec b 13); [lia|].
  destruct (N.ltb_spec b 128); [reflexivity | lia].
Qed.
Lemma line_trim t : line_ok t -> trim_space t = t.
Proof.
  intros [Hne Hlen Hc Hh Hl]. rewrite forallb_forall in Hc. apply trim_space_plain; [exact Hne | |].
  - apply ident_plain; [|exact Hh]. apply Hc. destruct t; [contradiction | left; reflexivity].
  - apply ident_plain; [|exact Hl]. apply Hc. destruct (@exists_last _ t Hne) as (s & z & ->). rewrite last_last. apply in_or_app. right. left. reflexivity.
Qed.

Lemma line_row_cells t : row_cells (line_row t) = 11 :: 11 :: t ++ 10 :: repeat 32 (37 - length t).
Proof. unfold row_cells, line_row. cbn. rewrite app_nil_r. reflexivity. Qed.
Lemma line_row_len t : line_ok t -> length (row_cells (line_row t)) = 40%nat.
Proof. intros [_ Hlen _ _ _]. rewrite line_row_cells. cbn [length]. rewrite app_length. cbn [length]. rewrite repeat_length. lia. Qed.
Lemma line_row_bytes t : line_ok t -> Forall (fun c => c < 128) (row_cells (line_row t)).
Proof.
  intros [_ _ Hc _ _]. rewrite line_row_cells. constructor; [lia|]. constructor; [lia|]. apply Forall_app. split.
  - apply Forall_forall. intros b Hb. rewrite forallb_forall in Hc. destruct (ident_cell_facts b (Hc b Hb)) as (_ & H & _). exact H.
  - constructor; [lia|]. apply Forall_forall. intros b Hb. apply repeat_spec in Hb. subst. lia.
Qed.
Lemma line_rowspec_ok t : line_ok t -> rowspec_ok (line_row t) = true.
Proof.
  intros [_ _ Hc _ _]. unfold rowspec_ok, line_row, segs_ok. cbn [rw_pre rw_segs rw_end forallb sg_codes sg_cells andb].
  rewrite andb_true_r. apply andb_true_iff. split.
  - apply forallb_forall. intros b Hb. rewrite forallb_forall in Hc. destruct (ident_cell_facts b (Hc b Hb)) as (_ & _ & _ & H). exact H.
  - apply forallb_forall. intros b Hb. apply repeat_spec in Hb. subst. reflexivity.
Qed.
Lemma line_row_text t : line_ok t -> map (fun r : trunT => tr_text r) (row_runs c0 (line_row t)) = [t] /\ row_runs c0 (line_row t) <> [].
Proof.
  intros Hok. unfold row_runs, line_row. cbn [rw_segs seg_runs sg_codes sg_cells existsb app].
  rewrite (seg_text_ident t (lo_cells t Hok)). unfold run_of. rewrite (line_trim t Hok).
  destruct t as [|b r] eqn:E; [exfalso; apply (lo_ne _ Hok); reflexivity|]. split; [reflexivity | discriminate].
Qed.

(* ---- numbered rows ---- *)
Lemma number_keys k l x : In x (map fst (number k l)) -> k <= x /\ x < k + N.of_nat (length l).
Proof.
  revert k. induction l as [|r t IH]; intros k H; [destruct H|]. cbn [number map fst length] in *. destruct H as [<-|H]; [lia|].
  apply IH in H. lia.
Qed.
Lemma number_in k l x sp : In (x, sp) (number k l) -> In sp l /\ k <= x /\ x < k + N.of_nat (length l).
Proof.
  revert k. induction l as [|r t IH]; intros k H; [destruct H|]. cbn [number length] in *. destruct H as [H|H].
  - inversion H; subst. split; [left; reflexivity | lia].
  - apply IH in H. destruct H as (H1 & H2). split; [right; exact H1 | lia].
Qed.
Lemma nsort_number l : forall k, nsort (map fst (number k l)) = map fst (number k l).
Proof.
  induction l as [|r t IH]; intros k; [reflexivity|]. cbn [number map fst nsort fold_right]. fold (nsort (map fst (number (k + 1) t))).
  rewrite IH. destruct t as [|r' t']; [reflexivity|]. cbn [number map fst ninsert]. destruct (N.leb_spec k (k + 1)); [reflexivity | lia].
Qed.
Lemma nodup_number l : forall k, nodupN (map fst (number k l)) = true.
Proof.
  induction l as [|r t IH]; intros k; [reflexivity|]. cbn [number map fst nodupN]. rewrite IH, andb_true_r. apply negb_true_iff.
  destruct (nmem k (map fst (number (k + 1) t))) eqn:E; [|reflexivity]. apply nmem_in in E. apply number_keys in E. lia.
Qed.
Lemma lines_for_number c l : (forall r, In r l -> row_runs c r <> []) -> forall k front,
  (forall x, In x (map fst front) -> x < k) ->
  lines_for c (front ++ number k l) (map fst (number k l)) = map (row_runs c) l.
Proof.
  induction l as [|r t IH]; intros Hne k front Hf; [reflexivity|].
  cbn [number map fst lines_for]. rewrite alookup_app. rewrite alookup_none by (intros Hin; apply Hf in Hin; lia).
  cbn [alookup]. rewrite N.eqb_refl.
  assert (Hr : row_runs c r <> []) by (apply Hne; left; reflexivity).
  replace (front ++ (k, r) :: number (k + 1) t) with ((front ++ [(k, r)]) ++ number (k + 1) t) by (rewrite <- app_assoc; reflexivity).
  rewrite (IH (fun r' H => Hne r' (or_intror H)) (k + 1) (front ++ [(k, r)])).
  - destruct (row_runs c r); [contradiction | reflexivity].
  - intros x Hx. rewrite map_app in Hx. apply in_app_or in Hx. destruct Hx as [Hx|Hx]; [apply Hf in Hx; lia|].
    cbn in Hx. destruct Hx as [<-|[]]. lia.
Qed.

Lemma inst_lines_plain ls : Forall line_ok ls ->
  map (fun runs : list trunT => concat (map (fun r => tr_text r) runs)) (inst_lines c0 (number 1 (map line_row ls))) = ls.
Proof.
  intros H. unfold inst_lines. rewrite nsort_number.
  assert (Hne : forall r, In r (map line_row ls) -> row_runs c0 r <> []).
  { intros r Hr. apply in_map_iff in Hr. destruct Hr as (t & <- & Ht). rewrite Forall_forall in H. apply (line_row_text t (H t Ht)). }
  pose proof (lines_for_number c0 (map line_row ls) Hne 1 [] ltac:(intros x [])) as E. cbn [app] in E. rewrite E.
  rewrite !map_map. rewrite <- (map_id ls) at 2. apply map_ext_in. intros t Ht. rewrite Forall_forall in H.
  destruct (line_row_text t (H t Ht)) as [E' _]. cbv beta. unfold trunT in *. rewrite E'. cbn [concat]. apply app_nil_r.
Qed.

(* ---- one instance belongs to the class of the stream theorem ---- *)
Lemma ttx_hdr_ours : is_our_header 8 88 0 ttx_hdr_unit = true
  /\ exists p, unit_addr ttx_hdr_unit = Some (8, 0, p) /\ hdr_c6 p = Some true.
Proof.
  pose proof (header_unit_is_ours 231 8 ttx_hdr ltac:(lia) ltac:(reflexivity) ltac:(reflexivity)) as H. exact H.
Qed.
Lemma ttx_row_unit_eq row cells : ttx_row_unit row cells = row_unit 231 8 row cells [].
Proof. unfold ttx_row_unit, row_unit. rewrite app_nil_r. reflexivity. Qed.

Definition rows_good (rows : list (N * rowspec)) : Prop :=
  forall k sp, In (k, sp) rows -> 1 <= k <= 25 /\ length (row_cells sp) = 40%nat /\ Forall (fun c => c < 128) (row_cells sp) /\ rowspec_ok sp = true.

Lemma body_ok_rows t rows : rows_good rows ->
  body_ok 8 88 rows (map (fun r => (t, (true, ttx_row_unit (fst r) (row_cells (snd r))))) rows) = true.
Proof.
  induction rows as [|[k sp] r IH]; intros H; [reflexivity|]. cbn [map body_ok fst snd].
  destruct (H k sp (or_introl eq_refl)) as (Hk & Hl & Hc & _).
  rewrite ttx_row_unit_eq. rewrite (row_unit_is_ours 231 8 k (row_cells sp) [] ltac:(lia) Hk Hl Hc). cbn [andb].
  apply IH. intros k' sp' Hin. apply H. right. exact Hin.
Qed.

Lemma inst_class i : rows_good (i_rows i) -> nodupN (map fst (i_rows i)) = true -> i_cs i = 0 ->
  inst_mux_ok 8 88 (i, imux_of i) = true.
Proof.
  intros Hg Hn Hcs. unfold inst_mux_ok, imux_of. cbn [im_hdr im_body im_tail]. rewrite Hcs. rewrite (proj1 ttx_hdr_ours). rewrite Hn.
  rewrite (body_ok_rows (i_t i) (i_rows i) Hg). cbn [andb]. rewrite !andb_true_r. apply forallb_forall. intros [k sp] Hin. cbn [fst snd].
  destruct (Hg k sp Hin) as (Hk & _ & _ & Hok). rewrite Hok. cbn [andb]. apply N.ltb_lt. lia.
Qed.

Lemma inst_of_good t ls : Forall line_ok ls -> (length ls <= 24)%nat -> rows_good (i_rows (inst_of t ls)).
Proof.
  intros Hl Hn k sp Hin. cbn [inst_of i_rows] in Hin. apply number_in in Hin. destruct Hin as (Hsp & Hk). rewrite map_length in Hk.
  apply in_map_iff in Hsp. destruct Hsp as (tx & <- & Htx). rewrite Forall_forall in Hl. specialize (Hl tx Htx).
  split; [lia|]. split; [apply line_row_len; exact Hl|]. split; [apply line_row_bytes; exact Hl | apply line_rowspec_ok; exact Hl].
Qed.

(* ---- the cue list ---- *)
Record cue_ok (c : pcue) : Prop := mkCueOk {
  co_s : (0 <= fst (fst c))%Z; co_se : (fst (fst c) <= snd (fst c))%Z;
  co_sg : (fst (fst c) mod 1000000 = 0)%Z; co_eg : (snd (fst c) mod 1000000 = 0)%Z;
  co_ne : snd c <> []; co_n : (length (snd c) <= 24)%nat; co_lines : Forall line_ok (snd c) }.
Lemma cue_okb_ok c : cue_okb c = true -> cue_ok c.
Proof.
  destruct c as [[s e] ls]. unfold cue_okb. intros H. repeat (apply andb_true_iff in H; destruct H as [H ?]).
  constructor; cbn [fst snd].
  - apply Z.leb_le. assumption.
  - apply Z.leb_le. assumption.
  - apply Z.eqb_eq. assumption.
  - apply Z.eqb_eq. assumption.
  - match goal with X : negb (Nat.eqb (length ls) 0) = true |- _ => apply negb_true_iff in X; destruct ls; [discriminate | discriminate] end.
  - apply Nat.leb_le. assumption.
  - apply Forall_forall. intros t Ht. apply line_okb_ok. match goal with X : forallb line_okb ls = true |- _ => rewrite forallb_forall in X; apply X; exact Ht end.
Qed.

Definition inst_fine (i : inst) : Prop := rows_good (i_rows i) /\ nodupN (map fst (i_rows i)) = true /\ i_cs i = 0 /\ (0 <= i_t i)%Z.
Lemma insts_fine p : Forall cue_ok p -> Forall inst_fine (insts_of_plain p).
Proof.
  induction p as [|[[s e] ls] r IH]; intros H; [constructor|]. inversion H as [|? ? Hc Hr]; subst. destruct Hc as [Hs Hse _ _ Hne Hn Hl]. cbn [fst snd] in *.
  cbn [insts_of_plain]. constructor.
  - split; [apply inst_of_good; assumption|]. split; [apply nodup_number|]. split; [reflexivity | exact Hs].
  - apply Forall_app. split; [|apply IH; exact Hr].
    assert (He : inst_fine (erase_at e)) by (split; [intros k sp [] | split; [reflexivity | split; [reflexivity | cbn; lia]]]).
    destruct r as [|[[s' e'] ls'] r']; [constructor; [exact He | constructor]|]. destruct (e =? s')%Z; [constructor | constructor; [exact He | constructor]].
Qed.

Lemma trunc_grid t : (t mod 1000000 = 0)%Z -> trunc_to 1000000 t = t.
Proof. intros H. unfold trunc_to. rewrite H. lia. Qed.
Lemma ptrunc_grid p : Forall cue_ok p -> ptrunc 1000000 p = p.
Proof.
  intros H. unfold ptrunc. rewrite <- (map_id p) at 2. apply map_ext_in. intros [[s e] ls] Hin. rewrite Forall_forall in H.
  destruct (H _ Hin) as [_ _ Hs He _ _ _]. cbn [fst snd] in *. rewrite (trunc_grid s Hs), (trunc_grid e He). reflexivity.
Qed.

Lemma insts_head p s e ls r : p = (s, e, ls) :: r -> exists tl, insts_of_plain p = inst_of s ls :: tl.
Proof. intros ->. eexists. reflexivity. Qed.

(* the cues the schedule denotes are the plain cues *)
Lemma cues_from_rows f l i r : i_rows i <> [] ->
  cues_from 0 f l (i :: r) = mkTcue (i_t i - f) (match r with j :: _ => i_t j | [] => l end - f) (inst_lines (g0_table (i_cs i)) (i_rows i)) :: cues_from 0 f l r.
Proof. intros H. cbn [cues_from]. destruct (i_rows i); [contradiction | reflexivity]. Qed.
Lemma cues_from_erase f l e r : cues_from 0 f l (erase_at e :: r) = cues_from 0 f l r.
Proof. reflexivity. Qed.

Lemma cues_plain last : forall p, Forall cue_ok p -> ttx_to_plain (cues_from 0 0 last (insts_of_plain p)) = p.
Proof.
  induction p as [|[[s e] ls] r IH]; intros H; [reflexivity|]. inversion H as [|? ? Hc Hr]; subst. specialize (IH Hr).
  destruct Hc as [_ _ _ _ Hne _ Hl]. cbn [fst snd] in *.
  cbn [insts_of_plain].
  assert (Hrows : i_rows (inst_of s ls) <> []) by (destruct ls; [contradiction | discriminate]).
  assert (Hline : map (fun runs : list trunT => concat (map (fun r => tr_text r) runs)) (inst_lines (g0_table (i_cs (inst_of s ls))) (i_rows (inst_of s ls))) = ls)
    by (apply inst_lines_plain; exact Hl).
  rewrite (cues_from_rows _ _ _ _ Hrows). unfold ttx_to_plain. cbn [map c_st c_en c_lines]. unfold trunT in *. rewrite Hline.
  replace (i_t (inst_of s ls)) with s by reflexivity. rewrite !Z.sub_0_r.
  destruct r as [|[[s' e'] ls'] r'].
  - cbn [app]. rewrite cues_from_erase. reflexivity.
  - destruct (Z.eqb_spec e s') as [->|Hne'].
    + cbn [app]. unfold ttx_to_plain in IH. rewrite IH. reflexivity.
    + cbn [app]. rewrite cues_from_erase. unfold ttx_to_plain in IH. rewrite IH. reflexivity.
Qed.

(* first presentation time *)
Lemma tmin_zero l : Forall (fun i => (0 <= i_t i)%Z) l -> tmin (map pes_of l) (Some 0%Z) = Some 0%Z.
Proof.
  induction l as [|i r IH]; intros H; [reflexivity|]. inversion H; subst. cbn [map tmin pes_of pes_time].
  destruct (Z.ltb_spec (i_t i) 0); [lia|]. apply IH. assumption.
Qed.

(* the events of the schedule are the units of the PES packets, in order *)
Lemma pes_events l : flat_map pes_units (map pes_of l) = flat_map inst_events (combine l (map imux_of l)).
Proof.
  induction l as [|i r IH]; [reflexivity|]. cbn [map flat_map combine]. rewrite IH. f_equal.
  unfold pes_of, pes_units, inst_events, imux_of. cbn [im_hdr im_body im_tail map]. rewrite app_nil_r. f_equal.
  rewrite !map_map. reflexivity.
Qed.

(* the plain multiplexing carries no designation packet *)
Lemma ttx_row_no_desig row cells : 1 <= row <= 25 -> desig_ok 8 (ttx_row_unit row cells) = false.
Proof.
  intros Hr. unfold desig_ok, ttx_row_unit. rewrite (unit_addr_enc 231 8 row _ (mag_addr_ok 8 row ltac:(lia) ltac:(lia))).
  destruct (N.eqb_spec row 28); [lia|]. destruct (N.eqb_spec row 29); [lia|]. reflexivity.
Qed.
Lemma desig_inst_plain i st : rows_good (i_rows i) -> desig_inst 8 st (imux_of i) = st.
Proof.
  intros Hg. unfold desig_inst, imux_of. cbn [im_body im_tail].
  assert (H : forall rows, (forall k sp, In (k, sp) rows -> 1 <= k <= 25) ->
              fold_left (fun a x => desig_recv 8 a (snd (snd x))) (map (fun r => (i_t i, (true, ttx_row_unit (fst r) (row_cells (snd r))))) rows) st = st).
  { induction rows as [|[k sp] r IH]; intros Hk; [reflexivity|]. cbn [map fold_left fst snd]. unfold desig_recv at 2.
    rewrite (ttx_row_no_desig k _ (Hk k sp (or_introl eq_refl))). apply IH. intros k' sp' Hin. apply (Hk k' sp'). right. exact Hin. }
  apply H. intros k sp Hin. destruct (Hg k sp Hin) as (Hk & _). exact Hk.
Qed.
Lemma desig_final_plain l : Forall inst_fine l -> fold_left (desig_inst 8) (map imux_of l) (None, None) = (None, None).
Proof.
  induction l as [|i r IH]; intros H; [reflexivity|]. inversion H as [|? ? Hi Hr]; subst. cbn [map fold_left].
  destruct Hi as (Hg & _). rewrite (desig_inst_plain i _ Hg). apply IH. exact Hr.
Qed.

Theorem ttx_plain_faithful : plain_faithful 1000000 ttx_plain_ok ttx_enc ttx_dec.
Proof.
  intros p Hok. unfold ttx_plain_ok, ttx_plain_okb in Hok. apply andb_true_iff in Hok. destruct Hok as [Hok Hchain].
  apply andb_true_iff in Hok. destruct Hok as [Hfirst Hcues].
  assert (Hc : Forall cue_ok p) by (apply Forall_forall; intros c Hin; apply cue_okb_ok; rewrite forallb_forall in Hcues; apply Hcues; exact Hin).
  eexists. split; [reflexivity|].
  pose proof (insts_fine p Hc) as Hfine.
  set (s := sched_of_plain p). set (m := mux_of_plain p). set (peses := map pes_of (insts_of_plain p)).
  assert (Hmux : mux_ok_auto s m = true).
  { unfold mux_ok_auto, s, m, sched_of_plain, mux_of_plain. cbn [s_mag s_pn s_insts mx_pre mx_insts forallb].
    rewrite map_length, Nat.eqb_refl. cbn [andb N.leb Z.leb].
    replace ((1 <=? 8) && (8 <=? 8) && (0 <=? 88)%Z && (88 <=? 99)%Z) with true by reflexivity. cbn [andb].
    apply andb_true_iff. split.
    - destruct (insts_of_plain p) as [|i r]; [reflexivity|]. cbn [map imux_of im_hdr].
      destruct ttx_hdr_ours as [_ (q & A & C)]. rewrite A, C. reflexivity.
    - rewrite forallb_combine_map. apply forallb_forall. intros i Hi. rewrite Forall_forall in Hfine.
      destruct (Hfine i Hi) as (Hg & Hn & Hcs & _). apply inst_class; assumption. }
  assert (Hpes : forallb pes_ok peses = true) by (apply forallb_forall; intros q Hq; apply in_map_iff in Hq; destruct Hq as (i & <- & _); reflexivity).
  assert (Hflat : flat_map pes_units peses = events s m) by (unfold events, s, m, sched_of_plain, mux_of_plain; cbn [mx_pre mx_insts s_insts app]; apply pes_events).
  pose proof (stream_auto_page s m peses Hmux Hpes Hflat) as Hstream.
  unfold ttx_dec. fold peses. rewrite Hstream. f_equal.
  assert (Hmin : zero_or (tmin peses None) = 0%Z).
  { unfold peses. destruct p as [|[[s0 e0] ls0] r]; [reflexivity|]. apply Z.eqb_eq in Hfirst. subst s0.
    cbn [insts_of_plain map tmin pes_of pes_time inst_of i_t]. rewrite tmin_zero; [reflexivity|].
    inversion Hfine as [|? ? _ Hrest]; subst. eapply Forall_impl; [|exact Hrest]. intros i (_ & _ & _ & Ht). exact Ht. }
  assert (Hdes : desig_final true (s_mag s) m = 0).
  { unfold desig_final, s, m, sched_of_plain, mux_of_plain. cbn [s_mag mx_insts]. rewrite (desig_final_plain _ Hfine). reflexivity. }
  rewrite Hmin, Hdes. unfold cues_of, s, sched_of_plain. cbn [s_insts]. rewrite (cues_plain _ p Hc). symmetry. apply ptrunc_grid. exact Hc.
Qed.

(* ts -> any plain-faithful destination *)
Corollary ttx_plain_source {SB : Type} uB okB (encB : plain -> res SB) decB : plain_faithful uB okB encB decB ->
  forall p, ttx_plain_ok p -> okB (ptrunc 1000000 p) ->
  exists src dst, ttx_enc p = Ok src /\ convert_plain ttx_dec encB src = Ok dst /\ decB dst = Ok (ptrunc uB (ptrunc 1000000 p)).
Proof. intros HB. apply (plain_pair _ _ _ _ _ _ _ _ ttx_plain_faithful HB). Qed.
Corollary plain_ttx_to_srt p : ttx_plain_ok p -> srt_plain_ok (ptrunc 1000000 p) ->
  exists src dst, ttx_enc p = Ok src /\ convert_plain ttx_dec srt_enc src = Ok dst /\ srt_dec dst = Ok (ptrunc 1000000 (ptrunc 1000000 p)).
Proof. apply (ttx_plain_source _ _ _ _ srt_plain_faithful). Qed.

(* non-vacuity: two cues that touch, a gap, a two-line cue *)
Definition ex_plain_ttx : plain :=
  [(0%Z, 2000000000%Z, [[72; 105]; [116; 104; 101; 114; 101; 33]]%N); (2000000000%Z, 3500000000%Z, [[89; 111; 32; 39; 79; 75; 39]]%N);
   (5000000000%Z, 6040000000%Z, [[49; 32; 43; 32; 49; 32; 61; 32; 50]]%N)].
Example ex_plain_ttx_ok : ttx_plain_ok ex_plain_ttx. Proof. vm_compute. reflexivity. Qed.
Example ex_plain_ttx_srt_ok : srt_plain_ok (ptrunc 1000000 ex_plain_ttx).
Proof. split; [apply repr_itemsb_ok; vm_compute; reflexivity | split; [discriminate | vm_compute; discriminate]]. Qed.
Example ex_plain_ttx_conversion :
  exists src dst, ttx_enc ex_plain_ttx = Ok src /\ convert_plain ttx_dec srt_enc src = Ok dst /\
                  srt_dec dst = Ok (ptrunc 1000000 (ptrunc 1000000 ex_plain_ttx)).
Proof. apply plain_ttx_to_srt; [exact ex_plain_ttx_ok | exact ex_plain_ttx_srt_ok]. Qed.
