(* Fuel audit, Model/Ssa.v: seg_fuel (value at O: the rest of the text, no further block — an ordinary-looking result).
   Wrapper: segments s = seg_fuel (S (length s)) s [].  [SsaText.seg_fuel_sound] (nothing is lost) holds for every fuel,
   which is why the out-of-fuel value is harmless for THAT theorem; whether a later override block is found is what the
   fuel could change, and it cannot: every recursive call is on a strictly shorter string. *)
From Coq Require Import List ZArith NArith Bool Arith Lia.
From Astisub Require Import Kit.Base Kit.Str Model.Ssa Proofs.SsaText.
Import ListNotations.
Open Scope N_scope.

Lemma match_block_len r blk rest : match_block r = Some (blk, rest) -> (length rest < length r)%nat.
Proof.
  intros H. pose proof (match_block_sound r blk rest H) as E. destruct (match_block_shape r blk rest H) as (x & Hb & Hx & _).
  apply (f_equal (@length byte)) in E. subst blk. cbn [app length] in E. rewrite !app_length in E. cbn [length] in E.
  destruct x; [contradiction|]. cbn [length] in E. lia.
Qed.

Lemma seg_fuel_enough : forall n m s cur, (length s < n)%nat -> (length s < m)%nat -> seg_fuel n s cur = seg_fuel m s cur.
Proof.
  induction n as [|n IH]; intros m s cur Hn Hm; [lia|]. destruct m as [|m]; [lia|].
  cbn [seg_fuel]. destruct s as [|c r]; [reflexivity|]. cbn [length] in Hn, Hm.
  destruct (c =? LB); [|apply IH; lia].
  destruct (match_block r) as [[blk rest]|] eqn:E; [|apply IH; lia].
  apply match_block_len in E. rewrite (IH m rest []) by lia. reflexivity.
Qed.
Theorem seg_fuel_indep fuel s cur : (S (length s) <= fuel)%nat -> seg_fuel fuel s cur = seg_fuel (S (length s)) s cur.
Proof. intros H. apply seg_fuel_enough; lia. Qed.

Lemma seg_fuel_step f c r cur :
  seg_fuel (S f) (c :: r) cur =
  if c =? LB then
    match match_block r with
    | Some (blk, rest) => let (t, more) := seg_fuel f rest [] in (rev cur, (blk, t) :: more)
    | None => seg_fuel f r (c :: cur)
    end
  else seg_fuel f r (c :: cur).
Proof. reflexivity. Qed.

(* the function without fuel and its equations *)
Definition seg_c (s cur : str) : str * list (str * str) := seg_fuel (S (length s)) s cur.
Theorem segments_c s : segments s = seg_c s []. Proof. reflexivity. Qed.
Theorem seg_c_nil cur : seg_c [] cur = (rev cur, []). Proof. reflexivity. Qed.
Theorem seg_c_cons c r cur :
  seg_c (c :: r) cur =
  if c =? LB then
    match match_block r with
    | Some (blk, rest) => let (t, more) := seg_c rest [] in (rev cur, (blk, t) :: more)
    | None => seg_c r (c :: cur)
    end
  else seg_c r (c :: cur).
Proof.
  unfold seg_c at 1. cbn [length]. rewrite seg_fuel_step. destruct (c =? LB); [|reflexivity].
  destruct (match_block r) as [[blk rest]|] eqn:E; [|reflexivity].
  apply match_block_len in E. unfold seg_c. rewrite (seg_fuel_enough (S (length r)) (S (length rest)) rest []) by lia.
  reflexivity.
Qed.
