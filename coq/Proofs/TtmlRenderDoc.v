(* C03, reading of rendered documents: a document rendered from a ground-truth model with any of the syntactic
   freedoms of TtmlRender.v (time-expression syntax per boundary, attribute order, name spaces, any character data
   between structural elements, order of the head's sections, paragraph content as groups) is read by ReadFromTTML
   as the value it denotes.  The time expressions enter through [time_contract] (proved apart).
   Parts A (checks, navigation) and B (root, headers, tables, paragraphs) are in TtmlRenderA.v / TtmlRenderB.v. *)
From Coq Require Import List ZArith NArith Bool Lia Permutation.
From Astisub Require Import Kit.Base Kit.Str Kit.Float64 Kit.Float64x Kit.Xml Model.Dur Model.Ttml
  Proofs.TtmlLines Proofs.TtmlDocSpec Proofs.TtmlDocA Proofs.TtmlDocB Proofs.TtmlSpec Proofs.TtmlTime Proofs.TtmlRefs
  Proofs.TtmlPara Proofs.TtmlRender.
From Astisub Require Export Proofs.TtmlRenderA Proofs.TtmlRenderB.   (* [time_contract] is defined in part B *)
Import ListNotations.
Open Scope Z_scope.

(* the reader, step by step *)
Lemma read_ttml_steps name a kids fro tro rgs sts items :
  str_eqb (x_local name) s_tt = true -> int_attr s_frameRate a = Some fro -> int_attr s_tickRate a = Some tro ->
  map_res read_header (path_elems [s_head; s_layout; s_region] kids) = Ok rgs ->
  map_res read_header (path_elems [s_head; s_styling; s_style] kids) = Ok sts ->
  forallb (ref_ok (add_all sts [])) sts = true -> forallb (ref_ok (add_all sts [])) rgs = true ->
  map_res (read_p (add_all sts []) (add_all rgs []) (oz fro) (oz tro)) (path_elems [s_body; s_div; s_p] kids) = Ok items ->
  read_ttml (XElem name a kids) =
  Ok (mkDoc (Some (mkMeta (oz fro)
                          (last_text (path_elems [s_title] (flat_map elem_kids (path_elems [s_head; s_metadata] kids))))
                          (last_text (path_elems [s_copyright] (flat_map elem_kids (path_elems [s_head; s_metadata] kids))))
                          (lang_of (attr_str s_lang a))))
            (add_all sts []) (add_all rgs []) items).
Proof.
  intros Hn Hf Ht Hr Hs Hrs Hrr Hi. unfold read_ttml. rewrite Hn, Hf, Ht. cbn [negb].
  rewrite Hr. cbn [bind]. rewrite Hs. cbn [bind]. rewrite Hrs, Hrr. cbn [negb].
  unfold oz in Hi. rewrite Hi. reflexivity.
Qed.

Lemma render_ok_parts r m : render_ok r m = true ->
  int64b (gd_framerate m) = true /\ int64b (gd_tickrate m) = true /\ lang_ok r m = true
  /\ sections_ok (r_sections r) = true /\ root_extra_ok (r_root_extra r) = true
  /\ attrs_perm_ok (rroot_attrs r m) (r_root_attrs r) = true
  /\ NoDup (map ts_id (gd_styles m)) /\ NoDup (map ts_id (gd_regions m))
  /\ length (r_style_attrs r) = length (gd_styles m) /\ length (r_region_attrs r) = length (gd_regions m)
  /\ length (r_paras r) = length (gd_items m)
  /\ forallb (fun sa => header_check (tbl (gd_styles m)) (fst sa) (snd sa)) (combine (gd_styles m) (r_style_attrs r)) = true
  /\ forallb (fun sa => header_check (tbl (gd_styles m)) (fst sa) (snd sa)) (combine (gd_regions m) (r_region_attrs r)) = true
  /\ forallb (fun gp => para_check (gd_framerate m) (gd_tickrate m) (tbl (gd_styles m)) (tbl (gd_regions m)) (fst gp) (snd gp))
             (combine (gd_items m) (r_paras r)) = true.
Proof.
  unfold render_ok. fold (tbl (gd_styles m)). fold (tbl (gd_regions m)). cbv zeta. intros H.
  apply andb_true_iff in H. destruct H as [H H14]. apply andb_true_iff in H. destruct H as [H H13].
  apply andb_true_iff in H. destruct H as [H H12]. apply andb_true_iff in H. destruct H as [H H11].
  apply andb_true_iff in H. destruct H as [H H10]. apply andb_true_iff in H. destruct H as [H H9].
  apply andb_true_iff in H. destruct H as [H H8]. apply andb_true_iff in H. destruct H as [H H7].
  apply andb_true_iff in H. destruct H as [H H6]. apply andb_true_iff in H. destruct H as [H H5].
  apply andb_true_iff in H. destruct H as [H H4]. apply andb_true_iff in H. destruct H as [H H3].
  apply andb_true_iff in H. destruct H as [H1 H2].
  apply nodupb_NoDup in H7. apply nodupb_NoDup in H8.
  apply Nat.eqb_eq in H9. apply Nat.eqb_eq in H10. apply Nat.eqb_eq in H11.
  repeat split; assumption.
Qed.

Theorem read_rendered_tree : time_contract -> forall r m, render_ok r m = true ->
  read_ttml (render_tree r m) = Ok (denote_ttml r m).
Proof.
  intros TC r m H. apply render_ok_parts in H.
  destruct H as (Hfr & Htr & Hlang & Hsec & Hex & Hroot & Nst & Nrg & Lst & Lrg & Lps & Hst & Hrg & Hps).
  destruct (root_rendered r m Hfr Htr Hlang Hex Hroot) as (fro & tro & Efr & Vfr & Etr & Vtr & Elang).
  pose proof (add_all_tbl _ Nst) as Tst. pose proof (add_all_tbl _ Nrg) as Trg.
  rewrite render_tree_eq.
  rewrite (read_ttml_steps (mkName el_mark s_tt) (r_root_attrs r) (root_kids r m) fro tro (gd_regions m) (gd_styles m)
             (map (fun gp => denote_item (gd_framerate m) (gd_tickrate m) (fst gp) (snd gp)) (combine (gd_items m) (r_paras r)))).
  - rewrite (path_md r m Hsec), (meta_title r m), (meta_copyright r m), Elang, Vfr, Tst, Trg. reflexivity.
  - reflexivity.
  - exact Efr.
  - exact Etr.
  - rewrite (path_regions r m Hsec). exact (read_headers_rendered _ s_region _ _ Lrg Hrg).
  - rewrite (path_styles r m Hsec). exact (read_headers_rendered _ s_style _ _ Lst Hst).
  - rewrite Tst. exact (refs_ok_rendered _ _ _ Lst Hst).
  - rewrite Tst. exact (refs_ok_rendered _ _ _ Lrg Hrg).
  - rewrite (path_paras r m), Tst, Trg, Vfr, Vtr, map_res_map.
    apply (map_res_zip (fun p => read_p (tbl (gd_styles m)) (tbl (gd_regions m)) (gd_framerate m) (gd_tickrate m) (render_para p))
                       (fun gp => denote_item (gd_framerate m) (gd_tickrate m) (fst gp) (snd gp))
                       (gd_items m) (r_paras r) Lps).
    intros g p Hin. cbn [fst snd]. apply (read_para_rendered TC).
    exact (combine_in_forallb _ _ _ g p Hps Hin).
Qed.

(* the composite reading theorem *)
Theorem read_rendered_doc : time_contract -> forall r m, render_ok r m = true ->
  read_ttml (render_ttml r m) = Ok (denote_ttml r m).
Proof.
  intros TC r m H. unfold render_ttml. rewrite read_ttml_respace. exact (read_rendered_tree TC r m H).
Qed.

Print Assumptions read_rendered_doc.
