(* SSA/ASS documents: what the writer emits is read back as the document it denotes; a second write gives the same
   bytes. *)
From Coq Require Import List ZArith NArith Bool Lia.
From Astisub Require Import Kit.Base Kit.Str Kit.Scan Model.Dur Model.Ssa.
From Astisub Require Import Proofs.VttBase Proofs.DurProofs Proofs.ScanProofs Proofs.EolProofs Proofs.SsaFields Proofs.SsaText Proofs.SsaTrim
  Proofs.SsaRows Proofs.SsaLines Proofs.SsaInfo Proofs.SsaStyles Proofs.SsaEvents.
Import ListNotations.
Open Scope N_scope.

Definition canon_info (d : adoc) : ainfo := match ad_meta d with Some m => m | None => ainfo0 end.
Definition doc_styles (d : adoc) : list astyle := opt_cells (map snd (ad_styles d)).

(* the item the reader returns for a written item: times truncated to the centisecond, absent numbers as 0, layer
   (v4+) or marked flag (v4) only, every line under the speaker name the writer chose, the runs unchanged *)
Definition canon_item (v4p : bool) (i : aitem) : aitem :=
  let e := event_of_item i in
  mkAitem (trunc_cs (ai_start i)) (trunc_cs (ai_end i)) (ai_style i)
          (Some (mkAevattr (av_effect e) (if v4p then Some (oz (av_layer e)) else None)
                           (Some (oz (av_ml e))) (Some (oz (av_mr e))) (Some (oz (av_mv e)))
                           (if v4p then None else Some (match av_marked e with Some true => true | _ => false end))))
          (map (fun l => mkAline (item_name (ai_lines i)) (al_runs l)) (ai_lines i)).
Definition canon_doc (d : adoc) : adoc :=
  mkAdoc (Some (canon_info d)) (ad_styles d) (map (canon_item (is_v4plus d)) (ad_items d)).

(* representable item: the derived event is representable, the style reference names a style of the document (and
   is not the reserved spelling "*Default"), at least one line, every line made of runs the reader would produce *)
Definition item_repr (names : list str) (i : aitem) : Prop :=
  event_repr (event_of_item i) /\
  match ai_style i with Some n => n <> [] /\ n <> n_star_default /\ In n names | None => True end /\
  ai_lines i <> [] /\ Forall line_ok (ai_lines i).
Definition doc_repr (d : adoc) : Prop :=
  styles_repr (ad_styles d) (doc_styles d) /\ info_ok (canon_info d) /\ ad_items d <> [] /\
  Forall (item_repr (map ay_name (doc_styles d))) (ad_items d).

Definition doc_lines (d : adoc) : list str :=
  info_lines (canon_info d) ++
  (match ad_styles d with [] => [] | _ => styles_lines (is_v4plus d) (doc_styles d) end) ++
  events_lines (is_v4plus d) (ad_items d).

Lemma write_lines d : styles_repr (ad_styles d) (doc_styles d) -> ad_items d <> [] ->
  write_ssa d (style_keys d) = Ok (render_eol [10] (doc_lines d)).
Proof.
  intros Hs Hi. unfold write_ssa, write_ssa_chunks. destruct (ad_items d) as [|i0 ir] eqn:Ei; [contradiction|].
  cbv beta iota. f_equal. unfold doc_lines. rewrite !render_app.
  rewrite <- info_bytes_lines, <- events_bytes_lines. unfold canon_info.
  destruct (ad_styles d) as [|p r] eqn:Es.
  - cbn [app concat]. rewrite app_nil_r. reflexivity.
  - rewrite <- Es in Hs. rewrite <- (styles_bytes_lines d (doc_styles d) Hs). cbn [app concat]. rewrite app_nil_r. reflexivity.
Qed.

(* ---- every written line is free of line breaks ---- *)
Lemma info_lines_brkfree b : info_ok b -> Forall brkfree (info_lines b).
Proof.
  intros (Hc & Hk & Hn & Ht). unfold info_lines. constructor; [reflexivity|]. unfold info_body_lines.
  assert (Hs : forall k, Forall brkfree (info_str_lines k b)).
  { intros k. unfold info_str_lines. destruct (kget k b) as [|c r] eqn:E; [constructor|]. constructor; [|constructor].
    apply brkfree_app; [apply brkfree_ikey|]. apply brkfree_app; [reflexivity|]. rewrite <- E. apply Hk. }
  assert (Hnm : forall k, Forall brkfree (info_num_lines k b)).
  { intros k. unfold info_num_lines. destruct (nget k b) as [v|]; [|constructor]. constructor; [|constructor].
    apply brkfree_app; [apply brkfree_nkey|]. apply brkfree_app; [reflexivity|]. apply cell_clean_nobrk, itoa_z_clean. }
  repeat (apply Forall_app; split); try apply Hs; try apply Hnm.
  - apply Forall_forall. intros l Hl. apply in_map_iff in Hl. destruct Hl as (c & <- & Hc').
    apply brkfree_app; [reflexivity|]. rewrite Forall_forall in Hc. apply Hc. exact Hc'.
  - unfold info_timer_lines. destruct (an_timer b) as [t|]; [|constructor]. constructor; [|constructor].
    apply brkfree_app; [reflexivity|]. apply brkfree_app; [reflexivity|]. apply timer_value_ok.
Qed.
Lemma styles_lines_brkfree v4p sts : Forall style_repr sts -> Forall brkfree (styles_lines v4p sts).
Proof.
  intros HF. unfold styles_lines. destruct (style_fmt_covers sts) as (attrs & Ef & Hn & _). rewrite Ef.
  apply Forall_app. split.
  - constructor; [reflexivity|]. constructor; [destruct v4p; reflexivity|]. constructor; [|constructor].
    apply brkfree_app; [reflexivity|]. apply format_value_ok; [discriminate|].
    apply Forall_forall. intros n Hin. apply in_map_iff in Hin. destruct Hin as (a & <- & _). apply sattr_name_clean.
  - apply Forall_forall. intros l Hl. apply in_map_iff in Hl. destruct Hl as (st & <- & Hst).
    apply brkfree_app; [reflexivity|]. rewrite Forall_forall in HF. apply (style_row_value st attrs (HF st Hst) Hn).
Qed.
Lemma events_lines_brkfree v4p items : Forall (fun i => event_repr (event_of_item i)) items ->
  Forall brkfree (events_lines v4p items).
Proof.
  intros HF. unfold events_lines. apply Forall_app. split.
  - constructor; [reflexivity|]. constructor; [reflexivity|]. constructor; [|constructor]. destruct v4p; reflexivity.
  - apply Forall_forall. intros l Hl. apply in_map_iff in Hl. destruct Hl as (i & <- & Hi).
    apply brkfree_app; [reflexivity|]. rewrite Forall_forall in HF. apply (event_row_value v4p _ (HF i Hi)).
Qed.

(* ---- the styles map and the items the reader builds ---- *)
Lemma styles_map_repr sts : NoDup (map ay_name sts) -> styles_map sts = map (fun st => (ay_name st, Some st)) sts.
Proof. intros H. unfold styles_map. rewrite (fold_sm_set (fun st => Some st) sts []); [reflexivity | exact H]. Qed.

Lemma item_name_const N (ls : list aline) : ls <> [] -> item_name (map (fun l => mkAline N (al_runs l)) ls) = N.
Proof.
  intros Hne. unfold item_name.
  assert (G : forall ls acc, ls <> [] -> fold_left (fun n l => match al_voice l with [] => n | v => v end)
                                          (map (fun l => mkAline N (al_runs l)) ls) acc = match N with [] => acc | _ => N end).
  { clear. induction ls as [|l r IH]; intros acc Hne; [contradiction|]. cbn [map fold_left al_voice].
    destruct r as [|l2 r2]; [cbn [map fold_left]; destruct N; reflexivity|].
    rewrite IH by discriminate. destruct N; reflexivity. }
  rewrite (G ls [] Hne). destruct N; reflexivity.
Qed.

Lemma read_item names v4p i m : item_repr names i -> (forall n, In n names -> sm_mem n m = true) ->
  event_item (event_canon v4p (event_of_item i)) m = canon_item v4p i.
Proof.
  intros (Her & Hsty & Hne & Hlines) Hm. destruct Her as (_ & _ & _ & _ & Htt & _).
  unfold event_item, canon_item, event_canon, event_of_item in *.
  cbn [av_start av_end av_style av_effect av_layer av_ml av_mr av_mv av_marked av_name av_text] in *.
  rewrite Htt, (text_lines_written _ _ Hne Hlines).
  destruct (ai_style i) as [n|]; [|reflexivity].
  destruct Hsty as (Hn0 & Hnd & Hin). destruct (str_eqb n n_star_default) eqn:E; [apply str_eqb_eq in E; contradiction|].
  destruct n as [|c r]; [contradiction|]. rewrite (Hm _ Hin). reflexivity.
Qed.

Lemma doc_styles_repr d sts : styles_repr (ad_styles d) sts -> doc_styles d = sts.
Proof. intros (Em & _). unfold doc_styles. rewrite Em, map_map. cbn [snd]. apply opt_cells_somes. Qed.

(* WRITE THEN READ: for every representable document, the reader maps the bytes the writer emits to the canonical
   form of the document (script info and every style attribute unchanged; per item see [canon_item]) *)
Theorem write_read d : doc_repr d ->
  exists data, write_ssa d (style_keys d) = Ok data /\ read_ssa data = Ok (canon_doc d).
Proof.
  intros (Hs & Hinfo & Hne & Hitems). exists (render_eol [10] (doc_lines d)). split; [apply write_lines; assumption|].
  pose proof Hs as (Em & Hnd & Hsort & Hsr).
  assert (Her : Forall (fun i => event_repr (event_of_item i)) (ad_items d)).
  { apply Forall_forall. intros i Hi. rewrite Forall_forall in Hitems. apply (Hitems i Hi). }
  unfold read_ssa. rewrite (lines_render [10] (doc_lines d)); [|left; reflexivity|].
  2:{ unfold doc_lines. apply Forall_app. split; [apply info_lines_brkfree; exact Hinfo|]. apply Forall_app. split.
      - destruct (ad_styles d); [constructor | apply styles_lines_brkfree; exact Hsr].
      - apply events_lines_brkfree. exact Her. }
  unfold read_ssa_lines, doc_lines, info_lines. cbn [app ssa_run]. rewrite info_hdr_step. unfold rstate0.
  cbn [rs_fmt rs_info rs_styles rs_events].
  rewrite ssa_run_app, (info_body_read (canon_info d) [] [] [] Hinfo).
  assert (Hmid : forall s, rs_sect s = SInfo -> rs_styles s = [] -> rs_events s = [] ->
            ssa_run s false ((match ad_styles d with [] => [] | _ => styles_lines (is_v4plus d) (doc_styles d) end) ++
                             events_lines (is_v4plus d) (ad_items d)) =
            Ok (mkRstate SEvents (map eattr_name (event_format (is_v4plus d))) (rs_info s) (doc_styles d)
                         (map (fun i => event_canon (is_v4plus d) (event_of_item i)) (ad_items d)))).
  { intros s Hsect Hst Hev. rewrite ssa_run_app.
    destruct (ad_styles d) as [|p r] eqn:Es.
    - cbn [ssa_run]. rewrite events_block_read; [|rewrite Hsect; discriminate | exact Her].
      assert (E0 : doc_styles d = []) by (unfold doc_styles; rewrite Es; reflexivity).
      rewrite Hst, Hev, E0. reflexivity.
    - rewrite styles_block_read; [|rewrite Hsect; discriminate | exact Hsr].
      rewrite events_block_read; [|discriminate | exact Her].
      cbn [rs_info rs_styles rs_events]. rewrite Hst, Hev. reflexivity. }
  rewrite (Hmid (mkRstate SInfo [] (canon_info d) [] []) eq_refl eq_refl eq_refl). cbn [rs_info].
  unfold finish, canon_doc. cbn [rs_info rs_styles rs_events]. f_equal. f_equal.
  - rewrite (styles_map_repr _ Hnd). symmetry. exact Em.
  - assert (Efil : forall l, filter is_dialogue (map (fun i => event_canon (is_v4plus d) (event_of_item i)) l) =
                             map (fun i => event_canon (is_v4plus d) (event_of_item i)) l).
    { induction l as [|i r IH]; [reflexivity|]. cbn [map filter]. unfold is_dialogue at 1. cbn [event_canon av_category].
      rewrite str_eqb_refl, IH. reflexivity. }
    rewrite Efil, map_map. apply map_ext_in. intros i Hi. rewrite Forall_forall in Hitems.
    apply (read_item (map ay_name (doc_styles d)) _ i _ (Hitems i Hi)).
    intros n Hn. apply sm_mem_in. rewrite (styles_map_repr _ Hnd), map_map. exact Hn.
Qed.

(* ---- the second write ---- *)
Lemma is_v4plus_canon d : is_v4plus (canon_doc d) = is_v4plus d.
Proof. unfold is_v4plus, canon_doc, canon_info. cbn [ad_meta]. destruct (ad_meta d); reflexivity. Qed.

Lemma item_text_runs N ls : item_text_ssa (map (fun l => mkAline N (al_runs l)) ls) = item_text_ssa ls.
Proof. unfold item_text_ssa. rewrite map_map. reflexivity. Qed.

Lemma format_ssa_trunc t : (0 <= t)%Z -> format_ssa (trunc_cs t) = format_ssa t.
Proof.
  intros Ht. unfold format_ssa, trunc_cs. change 10000000%Z with (frac_div 2).
  apply (format_canonical dot 2 t); [lia | exact Ht].
Qed.

Lemma event_string_canon v4p i : (0 <= ai_start i)%Z -> (0 <= ai_end i)%Z -> ai_lines i <> [] ->
  event_string (event_of_item (canon_item v4p i)) (event_format v4p) = event_string (event_of_item i) (event_format v4p).
Proof.
  intros Hs He Hne. unfold event_string, event_format. cbn [map]. f_equal.
  unfold canon_item, event_of_item.
  cbn [ai_inl ai_start ai_end ai_style ai_lines ae_effect ae_layer ae_ml ae_mr ae_mv ae_marked
       av_start av_end av_style av_effect av_layer av_ml av_mr av_mv av_marked av_name av_text event_cell_string].
  rewrite (item_name_const _ _ Hne), item_text_runs, (format_ssa_trunc _ Hs), (format_ssa_trunc _ He).
  destruct (ai_inl i) as [a|]; cbn [ae_effect ae_layer ae_ml ae_mr ae_mv ae_marked oz].
  - destruct v4p; [reflexivity|]. destruct (ae_marked a) as [ [|]|]; reflexivity.
  - destruct v4p; reflexivity.
Qed.

(* the canonical form is written to the same bytes *)
Theorem write_canon d :
  Forall (fun i => (0 <= ai_start i)%Z /\ (0 <= ai_end i)%Z /\ ai_lines i <> []) (ad_items d) ->
  write_ssa (canon_doc d) (style_keys (canon_doc d)) = write_ssa d (style_keys d).
Proof.
  intros HF. unfold write_ssa, write_ssa_chunks.
  assert (Eev : events_bytes (canon_doc d) = events_bytes d).
  { unfold events_bytes. rewrite is_v4plus_canon. unfold canon_doc. cbn [ad_items]. rewrite map_map.
    assert (Em : map (fun x => n_dialogue_pfx ++ event_string (event_of_item (canon_item (is_v4plus d) x)) (event_format (is_v4plus d)) ++ nl) (ad_items d) =
                 map (fun i => n_dialogue_pfx ++ event_string (event_of_item i) (event_format (is_v4plus d)) ++ nl) (ad_items d)).
    { apply map_ext_in. intros i Hi. rewrite Forall_forall in HF. destruct (HF i Hi) as (H1 & H2 & H3).
      rewrite (event_string_canon _ i H1 H2 H3). reflexivity. }
    rewrite Em. reflexivity. }
  assert (Est : styles_bytes (canon_doc d) (style_keys (canon_doc d)) = styles_bytes d (style_keys d)).
  { unfold styles_bytes, style_keys. rewrite is_v4plus_canon. reflexivity. }
  rewrite Eev, Est. unfold canon_doc at 1 2 3. cbn [ad_items ad_meta ad_styles]. unfold canon_info.
  destruct (ad_items d) as [|i r]; [reflexivity|]. cbn [map]. destruct (ad_meta d); reflexivity.
Qed.

(* SECOND WRITE BYTE-EQUAL: write d, read it, write what was read: the same bytes *)
Theorem rewrite_same d : doc_repr d ->
  exists data d', write_ssa d (style_keys d) = Ok data /\ read_ssa data = Ok d' /\
                  write_ssa d' (style_keys d') = Ok data.
Proof.
  intros Hr. destruct (write_read d Hr) as (data & Hw & Hrd). exists data, (canon_doc d).
  split; [exact Hw|]. split; [exact Hrd|]. rewrite write_canon; [exact Hw|].
  destruct Hr as (_ & _ & _ & Hitems). apply Forall_forall. intros i Hi. rewrite Forall_forall in Hitems.
  destruct (Hitems i Hi) as (((Hs & He & _) & _) & _ & Hne & _).
  unfold event_of_item in Hs, He. cbn [av_start av_end] in Hs, He. repeat split; [lia | lia | exact Hne].
Qed.
