(* WebVTT, the reading half: the reader returns what a rendered document denotes, for every rendering: byte-order
   mark, header line with trailing text, timestamp map, STYLE block, region definitions, per cue a NOTE comment block,
   an identifier line (present / absent / not a number), timestamps with or without hours (hour field of any width),
   any white space around the arrow, settings in any order, blank lines (of white space) in any number. *)
From Coq Require Import List ZArith NArith Lia Bool Arith.
From Astisub Require Import Kit.Base Kit.Str Kit.Scan Kit.Html Model.Dur Model.Srt Model.Vtt.
From Astisub Require Import Proofs.DurProofs Proofs.SrtProofs Proofs.SrtReadProofs Proofs.VttBase Proofs.VttLine Proofs.VttDoc
  Proofs.VttReadTime Proofs.VttReadLine.
Import ListNotations.
Open Scope N_scope.

(* ================= blank lines ================= *)
Lemma blanks_clean D C cs idx STY REGS TSM bs : Forall blank bs ->
  vtt_run (mkVst D C 0 BNone cs idx [] STY REGS TSM) bs = Ok (mkVst D C 0 BNone cs idx [] STY REGS TSM).
Proof.
  induction bs as [|b bs IH]; intros HF; [reflexivity|]. inversion HF as [|? ? Hb HF']; subst. cbn [vtt_run].
  rewrite (blank_step _ b Hb). unfold step_blank. cbn [v_done v_cur v_pre_lines v_block v_comments v_index v_tags v_styles v_regions v_tsmap].
  apply IH. exact HF'.
Qed.
(* after the text of a cue: at least one blank line ends the block *)
Lemma blanks_after_text D C STY REGS TSM bs : bs <> [] -> Forall blank bs ->
  vtt_run (mkVst D C 0 BText [] 0%Z [] STY REGS TSM) bs = Ok (mkVst D C 0 BNone [] 0%Z [] STY REGS TSM).
Proof.
  intros Hne HF. destruct bs as [|b bs]; [contradiction|]. inversion HF as [|? ? Hb HF']; subst. cbn [vtt_run].
  rewrite (blank_step _ b Hb). unfold step_blank. cbn [v_done v_cur v_pre_lines v_block v_comments v_index v_tags v_styles v_regions v_tsmap].
  apply blanks_clean. exact HF'.
Qed.
Lemma blanks_nobrk bs : Forall blank bs -> forallb nobrk bs = true.
Proof. intros H. apply forallb_forall. intros b Hb. rewrite Forall_forall in H. apply H. exact Hb. Qed.

(* ================= one cue ================= *)
Record gcue := mkGcue { gc_comments : list str; gc_id : option str; gc_st : Z; gc_en : Z;
                        gc_sets : list (skey * str); gc_lines : list vline }.
Record crend := mkCrend { cr_before : list str;        (* blank lines before the cue *)
                          cr_note_blanks : list str;   (* blank lines that end the NOTE block *)
                          cr_time : trend }.
Definition note_part (cs : list str) (bs : list str) : list str :=
  match cs with [] => [] | c :: cs' => (p_note ++ c) :: cs' ++ bs end.
Definition id_part (id : option str) : list str := match id with Some x => [x] | None => [] end.
Definition cue_lines (r : crend) (g : gcue) : list str :=
  cr_before r ++ note_part (gc_comments g) (cr_note_blanks r) ++ id_part (gc_id g) ++
  [timing_render (cr_time r) (gc_st g) (gc_en g) (gc_sets g)] ++ text_lines (gc_lines g).

Definition settings_of (g : gcue) : vset * option str := fold_left apply_setting (gc_sets g) (vset0, None).
Definition id_value (id : option str) : Z := match id with Some x => atoi_val x | None => 0%Z end.
(* what the cue denotes *)
Definition denote_cue (g : gcue) : vitem :=
  mkVitem (id_value (gc_id g)) (trunc_ms (gc_st g)) (trunc_ms (gc_en g)) (gc_comments g) (snd (settings_of g))
          (Some (fst (settings_of g))) None (map nline (gc_lines g)).

Definition gcue_ok (regs : list (str * vregion)) (g : gcue) : Prop :=
  (0 <= gc_st g <= max_int64)%Z /\ (0 <= gc_en g <= max_int64)%Z /\ Forall (setting_ok regs) (gc_sets g) /\
  comments_ok (gc_comments g) = true /\ match gc_id g with Some x => lineok x = true | None => True end /\
  forallb text_line_ok (gc_lines g) = true.
Definition crend_ok (r : crend) (g : gcue) : Prop :=
  Forall blank (cr_before r) /\ Forall blank (cr_note_blanks r) /\ (gc_comments g <> [] -> cr_note_blanks r <> []) /\
  trend_ok (cr_time r) (gc_st g) (gc_en g) (gc_sets g).

Section Cues.
Variables (STY : option (list str)) (REGS : list (str * vregion)) (TSM : option (Z * Z)).

Lemma note_part_run D C cs bs : comments_ok cs = true -> Forall blank bs -> (cs <> [] -> bs <> []) ->
  vtt_run (mkVst D C 0 BNone [] 0%Z [] STY REGS TSM) (note_part cs bs) = Ok (mkVst D C 0 BNone cs 0%Z [] STY REGS TSM).
Proof.
  intros Hc Hb Hne. destruct cs as [|c cs']; [reflexivity|]. cbn [comments_ok] in Hc. apply andb_true_iff in Hc. destruct Hc as [H1 H2].
  cbn [note_part vtt_run]. rewrite (step_note_eq _ c H1). cbn [v_done v_cur v_pre_lines v_comments v_index v_tags v_styles v_regions v_tsmap app].
  rewrite (vtt_run_app_ok _ _ _ _ (comments_loop STY REGS TSM D C 0%Z [] cs' [c] H2)).
  destruct bs as [|b bs']; [exfalso; apply Hne; [discriminate | reflexivity]|]. inversion Hb as [|? ? Hb1 Hb']; subst.
  cbn [vtt_run]. rewrite (blank_step _ b Hb1). unfold step_blank. cbn [v_done v_cur v_pre_lines v_block v_comments v_index v_tags v_styles v_regions v_tsmap app].
  apply blanks_clean. exact Hb'.
Qed.
Lemma id_part_run D C cs id : match id with Some x => lineok x = true | None => True end ->
  vtt_run (mkVst D C 0 BNone cs 0%Z [] STY REGS TSM) (id_part id) = Ok (mkVst D C 0 BNone cs (id_value id) [] STY REGS TSM).
Proof.
  intros H. destruct id as [x|]; [|reflexivity]. destruct (lineok_parts x H) as [H1 H2]. cbn [id_part vtt_run id_value].
  rewrite (step_other_eq _ x H1 H2). reflexivity.
Qed.

(* the main part of a cue, from a state in which no block is open *)
Lemma cue_main_run r g D C : gcue_ok REGS g -> crend_ok r g ->
  vtt_run (mkVst D C 0 BNone [] 0%Z [] STY REGS TSM)
          (note_part (gc_comments g) (cr_note_blanks r) ++ id_part (gc_id g) ++
           [timing_render (cr_time r) (gc_st g) (gc_en g) (gc_sets g)] ++ text_lines (gc_lines g)) =
  Ok (mkVst (close_dc D C) (Some (denote_cue g)) 0 BText [] 0%Z [] STY REGS TSM).
Proof.
  intros (Hst & Hen & Hsets & Hcs & Hid & Hls) (_ & Hnb & Hnn & Htr).
  rewrite (vtt_run_app_ok _ _ _ _ (note_part_run D C _ _ Hcs Hnb Hnn)).
  rewrite (vtt_run_app_ok _ _ _ _ (id_part_run D C _ _ Hid)).
  cbn [app vtt_run].
  destruct (step_timing_gen (mkVst D C 0 BNone (gc_comments g) (id_value (gc_id g)) [] STY REGS TSM) _ _ _ _ Htr Hst Hen Hsets) as [E _].
  rewrite E. cbn [v_done v_cur v_pre_lines v_comments v_index v_tags v_styles v_regions v_tsmap].
  rewrite (text_loop STY REGS TSM _ _ _ _ _ _ _ _ _ _ [] Hls). reflexivity.
Qed.
(* the same preceded by the cue's blank lines: from "no block open", or from the text of the previous cue when there is
   at least one blank line *)
Lemma cue_run r g D C (after_text : bool) : gcue_ok REGS g -> crend_ok r g -> (after_text = true -> cr_before r <> []) ->
  vtt_run (mkVst D C 0 (if after_text then BText else BNone) [] 0%Z [] STY REGS TSM) (cue_lines r g) =
  Ok (mkVst (close_dc D C) (Some (denote_cue g)) 0 BText [] 0%Z [] STY REGS TSM).
Proof.
  intros Hg Hr Hgap. pose proof Hr as (Hb & _). unfold cue_lines.
  assert (E0 : vtt_run (mkVst D C 0 (if after_text then BText else BNone) [] 0%Z [] STY REGS TSM) (cr_before r) =
               Ok (mkVst D C 0 BNone [] 0%Z [] STY REGS TSM)).
  { destruct after_text; [apply blanks_after_text; [apply Hgap; reflexivity | exact Hb] | apply blanks_clean; exact Hb]. }
  rewrite (vtt_run_app_ok _ _ _ _ E0). apply cue_main_run; assumption.
Qed.

Lemma cue_lines_nobrk r g : gcue_ok REGS g -> crend_ok r g -> forallb nobrk (cue_lines r g) = true.
Proof.
  intros (Hst & Hen & Hsets & Hcs & Hid & Hls) (Hb & Hnb & _ & Htr). unfold cue_lines. rewrite !forallb_app.
  rewrite (blanks_nobrk _ Hb).
  assert (E1 : forallb nobrk (note_part (gc_comments g) (cr_note_blanks r)) = true).
  { destruct (gc_comments g) as [|c cs']; [reflexivity|]. cbn [comments_ok] in Hcs. apply andb_true_iff in Hcs. destruct Hcs as [H1 H2].
    cbn [note_part forallb]. rewrite (line_clean_nobrk _ H1), forallb_app, (blanks_nobrk _ Hnb), andb_true_r. cbn [andb].
    apply forallb_forall. intros x Hx. rewrite forallb_forall in H2. apply line_clean_nobrk. apply lineok_parts. apply H2, Hx. }
  rewrite E1.
  assert (E2 : forallb nobrk (id_part (gc_id g)) = true).
  { destruct (gc_id g) as [x|]; [|reflexivity]. cbn [id_part forallb]. rewrite (line_clean_nobrk x); [reflexivity|]. apply lineok_parts. exact Hid. }
  rewrite E2. cbn [forallb].
  destruct (step_timing_gen (mkVst [] None 0 BNone [] 0%Z [] STY REGS TSM) _ _ _ _ Htr Hst Hen Hsets) as [_ E3]. rewrite E3.
  rewrite (text_lines_nobrk _ Hls). reflexivity.
Qed.

(* all cues *)
Definition all_cue_lines (l : list (crend * gcue)) : list str := concat (map (fun p => cue_lines (fst p) (snd p)) l).
Lemma cues_run l : forall D C (after_text : bool),
  Forall (fun p => gcue_ok REGS (snd p) /\ crend_ok (fst p) (snd p)) l ->
  match l with [] => True | p :: r => (after_text = true -> cr_before (fst p) <> []) /\ Forall (fun q => cr_before (fst q) <> []) r end ->
  exists D' C' (blk : bool),
    vtt_run (mkVst D C 0 (if after_text then BText else BNone) [] 0%Z [] STY REGS TSM) (all_cue_lines l) =
    Ok (mkVst D' C' 0 (if blk then BText else BNone) [] 0%Z [] STY REGS TSM) /\
    close_dc D' C' = close_dc D C ++ map (fun p => denote_cue (snd p)) l.
Proof.
  induction l as [|[r g] l IH]; intros D C after_text HF Hgap.
  - exists D, C, after_text. split; [reflexivity | cbn [map]; rewrite app_nil_r; reflexivity].
  - inversion HF as [|? ? [Hg Hr] HF']; subst. destruct Hgap as [Hgap1 Hgap2]. cbn [fst snd] in *.
    unfold all_cue_lines. cbn [map concat fst snd]. fold (all_cue_lines l).
    rewrite (vtt_run_app_ok _ _ _ _ (cue_run r g D C after_text Hg Hr Hgap1)).
    destruct (IH (close_dc D C) (Some (denote_cue g)) true HF') as (D' & C' & blk & E1 & E2).
    { destruct l as [|q l']; [exact I|]. inversion Hgap2; subst. split; [intros _; assumption | assumption]. }
    exists D', C', blk. split; [exact E1|]. rewrite E2. cbn [close_dc map snd]. rewrite <- app_assoc. reflexivity.
Qed.
Lemma all_cue_lines_nobrk l : Forall (fun p => gcue_ok REGS (snd p) /\ crend_ok (fst p) (snd p)) l -> forallb nobrk (all_cue_lines l) = true.
Proof.
  induction l as [|[r g] l IH]; intros HF; [reflexivity|]. inversion HF as [|? ? [Hg Hr] HF']; subst.
  unfold all_cue_lines. cbn [map concat fst snd]. rewrite forallb_app. fold (all_cue_lines l).
  rewrite (cue_lines_nobrk r g Hg Hr), (IH HF'). reflexivity.
Qed.
End Cues.

(* ================= the document ================= *)
Record gdoc := mkGdoc { gd_tsmap : option (Z * Z); gd_style : option (list str); gd_regions : list vregion }.
Record hrend := mkHrend {
  hr_bom : bool;
  hr_trailing : str;              (* what follows WEBVTT on the header line: nothing, or a white-space byte and any text *)
  hr_blanks0 : list str;          (* blank lines after the header (and timestamp map) *)
  hr_style_blanks : list str;     (* blank lines that end the STYLE block *)
  hr_region_blanks : list str }.  (* blank lines after the region definitions *)

Definition header_line (h : hrend) : str := with_bom (hr_bom h) (p_webvtt ++ hr_trailing h).
Definition tsmap_part (g : gdoc) : list str := match gd_tsmap g with Some m => [tsmap_string m] | None => [] end.
Definition style_part (h : hrend) (g : gdoc) : list str :=
  match gd_style g with Some ss => [p_style] ++ ss ++ hr_style_blanks h | None => [] end.
Definition render_vtt (h : hrend) (g : gdoc) (cues : list (crend * gcue)) (eof : list str) : list str :=
  [header_line h] ++ tsmap_part g ++ hr_blanks0 h ++ style_part h g ++ map region_line (gd_regions g) ++ hr_region_blanks h ++
  all_cue_lines cues ++ eof.

Definition denote_regions (g : gdoc) : list (str * vregion) := map (fun rg => (rg_id rg, nregion rg)) (gd_regions g).
Definition denote_vtt (g : gdoc) (cues : list (crend * gcue)) : vdoc :=
  mkVdoc (map (fun p => denote_cue (snd p)) cues) (denote_regions g)
         (match gd_style g with Some ss => [(default_style_id, Some ss)] | None => [] end)
         (match gd_tsmap g with Some (l, m) => Some (trunc_ms l, m) | None => None end).

Definition trailing_ok (t : str) : Prop :=
  (t = [] \/ exists c r, t = c :: r /\ is_ascii_space c = true) /\ utf8_valid (p_webvtt ++ t) = true /\ nobrk t = true.
Definition hrend_ok (h : hrend) (g : gdoc) : Prop :=
  trailing_ok (hr_trailing h) /\ Forall blank (hr_blanks0 h) /\ Forall blank (hr_style_blanks h) /\
  (gd_style g <> None -> hr_style_blanks h <> []) /\ Forall blank (hr_region_blanks h).
Definition gdoc_ok (g : gdoc) : Prop :=
  match gd_tsmap g with Some (l, m) => (0 <= l <= max_int64)%Z /\ (0 <= m <= max_int64)%Z | None => True end /\
  match gd_style g with Some ss => forallb lineok ss = true /\ last_ends_brace ss = true | None => True end /\
  Forall (fun rg => region_ok rg = true) (gd_regions g) /\ NoDup (map rg_id (gd_regions g)).

Lemma header_step h rest : trailing_ok (hr_trailing h) -> vtt_header (header_line h :: rest) = Ok rest.
Proof.
  intros (Hsh & Hu & _). cbn [vtt_header]. unfold header_line, with_bom.
  assert (Et : trim_prefix bom (if hr_bom h then bom ++ p_webvtt ++ hr_trailing h else p_webvtt ++ hr_trailing h) = p_webvtt ++ hr_trailing h).
  { destruct (hr_bom h); [unfold trim_prefix; rewrite prefix_app; reflexivity | reflexivity]. }
  rewrite Et, Hu. cbn [negb].
  destruct (fields_first [] p_webvtt (hr_trailing h)) as (r & Er).
  - constructor.
  - repeat constructor.
  - discriminate.
  - destruct Hsh as [->|(c & r & -> & Hc)]; [left; reflexivity | right; exact Hc].
  - cbn [app] in Er. rewrite Er. reflexivity.
Qed.
Lemma header_line_nobrk h : trailing_ok (hr_trailing h) -> nobrk (header_line h) = true.
Proof.
  intros (_ & _ & Hn). unfold header_line, with_bom. destruct (hr_bom h).
  - apply nobrk_app; [reflexivity|]. apply nobrk_app; [reflexivity | exact Hn].
  - apply nobrk_app; [reflexivity | exact Hn].
Qed.

Lemma style_part_run h g TSM : gdoc_ok g -> hrend_ok h g ->
  vtt_run (mkVst [] None 0 BNone [] 0%Z [] None [] TSM) (style_part h g) = Ok (mkVst [] None 0 BNone [] 0%Z [] (gd_style g) [] TSM)
  /\ forallb nobrk (style_part h g) = true.
Proof.
  intros (_ & Hs & _) (_ & _ & Hb & Hne & _). unfold style_part. destruct (gd_style g) as [ss|]; [|split; reflexivity].
  destruct Hs as [H1 H2]. split.
  - cbn [app vtt_run]. rewrite step_style_start by reflexivity.
    cbn [v_done v_cur v_pre_lines v_comments v_index v_tags v_styles v_regions v_tsmap].
    rewrite (vtt_run_app_ok _ _ _ _ (style_loop [] TSM [] None 0%Z ss [] H1)). cbn [app].
    destruct (hr_style_blanks h) as [|b bs]; [exfalso; apply Hne; [discriminate | reflexivity]|].
    inversion Hb as [|? ? Hb1 Hb']; subst. cbn [vtt_run]. rewrite (blank_step _ b Hb1). unfold step_blank.
    cbn [v_done v_cur v_pre_lines v_block v_comments v_index v_tags v_styles v_regions v_tsmap]. rewrite H2. cbn [negb].
    apply blanks_clean. exact Hb'.
  - cbn [app forallb]. rewrite forallb_app, (blanks_nobrk _ Hb), andb_true_r. cbn [andb].
    apply forallb_forall. intros x Hx. rewrite forallb_forall in H1. apply line_clean_nobrk. apply lineok_parts. apply H1, Hx.
Qed.

(* READING A RENDERED DOCUMENT *)
Theorem read_rendered_vtt h g cues eof :
  hrend_ok h g -> gdoc_ok g ->
  Forall (fun p => gcue_ok (denote_regions g) (snd p) /\ crend_ok (fst p) (snd p)) cues ->
  Forall (fun p => cr_before (fst p) <> []) (tl cues) -> Forall blank eof ->
  read_vtt_lines (render_vtt h g cues eof) false = Ok (denote_vtt g cues)
  /\ forallb nobrk (render_vtt h g cues eof) = true.
Proof.
  intros Hh Hg Hcues Hgap Heof. pose proof Hh as (Htr & Hb0 & _ & _ & Hbr). pose proof Hg as (Hts & _ & Hrok & Hnd).
  set (TSM := match gd_tsmap g with Some (l, m) => Some (trunc_ms l, m) | None => None end).
  set (REGS := denote_regions g).
  assert (R1 : vtt_run vstate0 (tsmap_part g) = Ok (mkVst [] None 0 BNone [] 0%Z [] None [] TSM) /\ forallb nobrk (tsmap_part g) = true).
  { unfold TSM, tsmap_part. destruct (gd_tsmap g) as [[l m]|]; [|split; reflexivity]. destruct Hts as [H1 H2]. cbn [vtt_run forallb].
    destruct (step_tsmap_line vstate0 l m eq_refl H1 H2) as [E En]. rewrite E, En. split; reflexivity. }
  destruct R1 as [R1 N1]. destruct (style_part_run h g TSM Hg Hh) as [R2 N2].
  assert (R3 : vtt_run (mkVst [] None 0 BNone [] 0%Z [] (gd_style g) [] TSM) (map region_line (gd_regions g)) =
               Ok (mkVst [] None 0 BNone [] 0%Z [] (gd_style g) REGS TSM)).
  { rewrite (region_loop [] None 0%Z (gd_style g) TSM (gd_regions g) [] Hrok); [reflexivity | exact Hnd]. }
  assert (N3 : forallb nobrk (map region_line (gd_regions g)) = true).
  { apply forallb_forall. intros x Hx. apply in_map_iff in Hx. destruct Hx as (rg & <- & Hrg). rewrite Forall_forall in Hrok.
    specialize (Hrok rg Hrg). apply region_ok_parts in Hrok. apply line_clean_nobrk. tauto. }
  assert (Hgap' : match cues with [] => True | p :: r => (false = true -> cr_before (fst p) <> []) /\ Forall (fun q => cr_before (fst q) <> []) r end).
  { destruct cues as [|p r]; [exact I|]. split; [discriminate | exact Hgap]. }
  destruct (cues_run (gd_style g) REGS TSM cues [] None false Hcues Hgap') as (D' & C' & blk & R4 & E4).
  split.
  - unfold read_vtt_lines, render_vtt. cbn [app]. rewrite (header_step h _ Htr).
    rewrite (vtt_run_app_ok _ _ _ _ R1), (vtt_run_app_ok _ _ _ _ (blanks_clean _ _ _ _ _ _ _ _ Hb0)),
            (vtt_run_app_ok _ _ _ _ R2), (vtt_run_app_ok _ _ _ _ R3), (vtt_run_app_ok _ _ _ _ (blanks_clean _ _ _ _ _ _ _ _ Hbr)),
            (vtt_run_app_ok _ _ _ _ R4).
    assert (R5 : exists blk', vtt_run (mkVst D' C' 0 (if blk then BText else BNone) [] 0%Z [] (gd_style g) REGS TSM) eof =
                              Ok (mkVst D' C' 0 blk' [] 0%Z [] (gd_style g) REGS TSM)).
    { destruct blk.
      - destruct eof as [|b bs]; [exists BText; reflexivity|]. exists BNone. apply blanks_after_text; [discriminate | exact Heof].
      - exists BNone. apply blanks_clean. exact Heof. }
    destruct R5 as (blk' & R5). rewrite R5. unfold denote_vtt. f_equal. f_equal.
    unfold close_vcur. cbn [v_cur v_done]. exact E4.
  - unfold render_vtt. rewrite !forallb_app. cbn [forallb]. rewrite (header_line_nobrk h Htr), N1, (blanks_nobrk _ Hb0), N2, N3,
      (blanks_nobrk _ Hbr), (all_cue_lines_nobrk (gd_style g) REGS TSM cues Hcues), (blanks_nobrk _ Heof). reflexivity.
Qed.
