(* Sync (C09) and order (C12): Add keeps a start-ordered list start-ordered (the map s |-> max 0 (s+d) is monotone and
   removal keeps the relative order), for every list - no start <= end hypothesis. *)
From Coq Require Import List ZArith NArith Bool Lia Sorted.
From Astisub Require Import Kit.Base Model.Ops Proofs.AddProofs Proofs.OrderProofs.
Import ListNotations.
Open Scope Z_scope.

Lemma shift1_start d x x' : shift1 d x = Some x' -> st x' = Z.max 0 (st x + d).
Proof.
  unfold shift1. destruct ((en x + d <=? 0) && (st x + d <=? 0)); [discriminate|].
  intros H. injection H as <-. cbn. destruct (Z.leb_spec (st x + d) 0); lia.
Qed.

Lemma add_lower_bound d k r : Forall (fun y => k <= st y) r ->
  Forall (fun y => Z.max 0 (k + d) <= st y) (add_dur d r).
Proof.
  induction r as [|y r IH]; intros H; cbn [add_dur]; [constructor|].
  inversion H as [|? ? Hy Hr]; subst. specialize (IH Hr).
  destruct (shift1 d y) as [y'|] eqn:E; [|exact IH].
  constructor; [|exact IH]. rewrite (shift1_start d y y' E). lia.
Qed.

Lemma add_sorted d l : sorted l -> sorted (add_dur d l).
Proof.
  induction l as [|x r IH]; intros H; cbn [add_dur]; [constructor|].
  apply sorted_inv in H. destruct H as [Hr Hx]. specialize (IH Hr).
  destruct (shift1 d x) as [x'|] eqn:E; [|exact IH].
  constructor; [exact IH|]. rewrite (shift1_start d x x' E). apply add_lower_bound. exact Hx.
Qed.

Lemma order_add_sorted d l : sorted l -> order (add_dur d l) = add_dur d l.
Proof. intros H. apply order_sorted_id, add_sorted. exact H. Qed.
