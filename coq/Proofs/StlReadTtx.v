(* C05, reading half for all renderings: rows under the teletext display standards (1 and 2).
   A row is a structured teletext row in the sense of Model/TtxRowStl.v ([srow]: cells in front of the start box - anything
   but a start box -, the start box, alternating groups of attribute codes (colours, sizes, italics/underline/boxing on
   and off) and of other cells, optionally an end box and what follows); its meaning is [srow_runs] with the STL character
   handler as decoder.  The teletext slice proves that the shared row parser returns that meaning
   (stl_parse_row_encoded); Proofs/StlTtxAgree.v proves that Model/Stl.v's stl_ttx_row is the shared parser.  Here the
   two are put together for the reader's rows (rows_ttx), with the text field split at 0x8A.  A row of the text field
   ([brow]) is such a row with its start box written, or - when nothing stands in front of the box and no other cell is a
   start box - omitted: the reader reads a row without any 0x0B as if one stood in front of it, and WriteToSTL never
   writes one (Proofs/StlWriteRendering.v). *)
From Coq Require Import List ZArith NArith Bool Lia.
From Astisub Require Import Kit.Base Kit.Str Kit.Scan Model.Dur Model.Stl Model.TtxRow Model.TtxRowStl Gen.StlTables
  Proofs.TtxRowStlProofs Proofs.StlTtxAgree Proofs.StlReadRows.
Import ListNotations.
Open Scope N_scope.

(* the STL character handler as the text/next-state pair the shared theorem is stated with *)
Definition h_text (d : option N) (v : N) : str := fst (decode1 d v).
Definition h_next (d : option N) (v : N) : option N := snd (decode1 d v).
Lemma stl_handler_ok d v : is_stext v = true -> stl_handler d v = Ok (h_text d v, h_next d v).
Proof. intros _. unfold stl_handler, h_text, h_next. destruct (decode1 d v). reflexivity. Qed.

(* a run of the shared parser as a run of Model/Stl.v *)
Definition sattr_of (s : tsty stlx) : sattr_stl :=
  mkSattrStl (sx_italics (ts_x s)) (sx_underline (ts_x s)) (sx_boxing (ts_x s)) (ts_color s) (ts_dh s) (ts_ds s) (ts_dw s).
Definition erun_of (t : trun stlx) : erun := mkErun (tr_text t) (sattr_of (tr_sty t)) (Some (tr_sb t)) (Some (tr_sa t)).
Definition spaced (x : erun) : Prop := ru_sb x <> None /\ ru_sa x <> None.
Lemma erun_of_trun_of x : spaced x -> erun_of (trun_of x) = x.
Proof.
  destruct x as [t [it un bx col dh ds dw] [sb|] [sa|]]; intros [H1 H2]; try contradiction; reflexivity.
Qed.

(* every run stl_ttx_row appends records its spaces *)
Lemma append_ttx_spaced items text a : Forall spaced items -> Forall spaced (stl_append_ttx items text a).
Proof.
  intros H. unfold stl_append_ttx. destruct (trim_space text); [exact H|]. constructor; [split; discriminate | exact H].
Qed.
Lemma my_step_spaced v items text a started acc : Forall spaced items ->
  Forall spaced (let '(i', _, _, _, _) := my_step v items text a started acc in i').
Proof.
  intros H. unfold my_step. destruct (o_some _ || o_some _ || o_some _ || o_some _ || o_some _).
  - destruct (negb _ || _ || _ || _ || _ || _ || _ || _ || _ || _ || _); [|exact H].
    destruct (if v =? 10 then false else if v =? 11 then true else started); [apply append_ttx_spaced; exact H | exact H].
  - destruct (if v =? 10 then false else if v =? 11 then true else started); [|exact H]. destruct (decode1 acc v). exact H.
Qed.
Lemma ttx_row_spaced : forall row items text a started acc, Forall spaced items ->
  Forall spaced (fst (stl_ttx_row row items text a started acc)).
Proof.
  induction row as [|v r IH]; intros items text a started acc H.
  - cbn [stl_ttx_row fst]. apply Forall_rev. apply append_ttx_spaced. exact H.
  - rewrite ttx_row_cons. pose proof (my_step_spaced v items text a started acc H) as H'.
    destruct (my_step v items text a started acc) as [[[[i' t'] a'] s'] c']. apply IH. exact H'.
Qed.

(* what a row means, in Model/Stl.v's run type, and the pending accent it leaves *)
Definition denote_trow (d : option N) (r : srow) : list erun * option N :=
  let '(runs, d') := srow_runs (option N) h_text h_next d r in (map erun_of runs, d').

Theorem ttx_row_rendered d r : srow_ok r = true ->
  stl_ttx_row (srow_cells r) [] [] sattr0_stl false d = denote_trow d r.
Proof.
  intros Hok. pose proof (stl_parse_row_encoded (option N) stl_handler h_text h_next stl_handler_ok d r Hok) as E.
  rewrite stl_ttx_row_is_parse_row in E. unfold denote_trow.
  pose proof (ttx_row_spaced (srow_cells r) [] [] sattr0_stl false d (Forall_nil _)) as Sp.
  destruct (stl_ttx_row (srow_cells r) [] [] sattr0_stl false d) as [l acc'].
  destruct (srow_runs (option N) h_text h_next d r) as [runs d']. cbn [fst] in Sp.
  assert (E1 : map trun_of l = runs /\ acc' = d') by (split; congruence). destruct E1 as [E1 ->]. f_equal.
  rewrite <- E1, map_map. rewrite <- (map_id l) at 1. apply map_ext_in. intros x Hx. symmetry. apply erun_of_trun_of.
  exact (proj1 (Forall_forall _ _) Sp x Hx).
Qed.

(* ---- the text field ---- *)
(* a row of the text field: a structured row whose start box is written ([br_box = true]: the cells are [srow_cells]) or
   omitted ([br_box = false]: nothing in front of the box, the cells are those after the box and contain no 0x0B).  The
   reader reads a row without any start box as if one stood in front of it (rows_ttx), so both mean the same; the
   library's writer never writes the start box. *)
Record brow := mkBrow { br_box : bool; br_row : srow }.
Definition brow_inner (r : srow) : list N :=
  flat_map (fun g => ss_codes g ++ ss_cells g) (sr_segs r) ++ match sr_end r with Some j => 10 :: j | None => [] end.
Definition brow_cells (b : brow) : list N := if br_box b then srow_cells (br_row b) else brow_inner (br_row b).
Lemma srow_cells_inner r : srow_cells r = sr_pre r ++ 11 :: brow_inner r.
Proof. reflexivity. Qed.
(* the start box may be omitted only when nothing stands in front of it and no cell of the row is a start box *)
Definition brow_box_okb (b : brow) : bool :=
  br_box b || (match sr_pre (br_row b) with [] => true | _ => false end && negb (nmem 11 (brow_inner (br_row b)))).
Definition trow_okb (b : brow) : bool :=
  srow_ok (br_row b) && forallb (fun c => negb (c =? 138) && (c <? 256)) (brow_cells b)
  && brow_box_okb b
  && match snd (denote_trow None (br_row b)) with None => true | Some _ => false end.   (* no floating accent left pending *)
Definition tfield_bytes (rows : list brow) : str := join [138] (map brow_cells rows).
Definition trows_ok (rows : list brow) : bool :=
  match rows with [] => false | _ => true end && forallb trow_okb rows && Nat.eqb (length (tfield_bytes rows)) 112.
Definition denote_trows (rows : list brow) : list (list erun) :=
  filter (fun l => match l with [] => false | _ => true end) (map (fun r => fst (denote_trow None (br_row r))) rows).

Lemma srow_has_box r : nmem 11 (srow_cells r) = true.
Proof.
  unfold nmem, srow_cells. rewrite existsb_app. apply orb_true_iff. right. cbn [existsb]. reflexivity.
Qed.
(* the cells the reader hands to the row parser: the row itself, or the row with a start box put in front *)
Lemma brow_boxed b : brow_box_okb b = true ->
  (if nmem 11 (brow_cells b) then brow_cells b else 11 :: brow_cells b) = srow_cells (br_row b).
Proof.
  unfold brow_box_okb, brow_cells. destruct (br_box b); cbn [orb]; intros H.
  - rewrite srow_has_box. reflexivity.
  - apply andb_true_iff in H. destruct H as [Hpre Hno]. apply negb_true_iff in Hno. rewrite Hno.
    rewrite srow_cells_inner. destruct (sr_pre (br_row b)); [reflexivity | discriminate].
Qed.

Lemma rows_ttx_fold : forall rows lines, forallb trow_okb rows = true ->
  rows_ttx (map brow_cells rows) None lines = (rev lines ++ denote_trows rows, None).
Proof.
  induction rows as [|r rs IH]; intros lines H; [cbn [map rows_ttx denote_trows filter]; rewrite app_nil_r; reflexivity|].
  cbn [forallb] in H. apply andb_true_iff in H. destruct H as [Hr Hrs]. unfold trow_okb in Hr.
  apply andb_true_iff in Hr. destruct Hr as [Hr Hacc]. apply andb_true_iff in Hr. destruct Hr as [Hr Hbox].
  apply andb_true_iff in Hr. destruct Hr as [Hok _].
  cbn [map rows_ttx]. rewrite (brow_boxed r Hbox). rewrite (ttx_row_rendered None (br_row r) Hok).
  unfold denote_trows. cbn [map filter]. destruct (denote_trow None (br_row r)) as [l acc'] eqn:E. cbn [snd fst] in *.
  destruct acc'; [discriminate|]. rewrite (IH _ Hrs). unfold denote_trows. destruct l as [|x l'].
  - reflexivity.
  - cbn [rev]. rewrite <- app_assoc. reflexivity.
Qed.

Theorem rows_ttx_rendered rows : trows_ok rows = true ->
  length (tfield_bytes rows) = 112%nat /\
  split_byte 138 (tfield_bytes rows) = map brow_cells rows /\
  rows_ttx (split_byte 138 (tfield_bytes rows)) None [] = (denote_trows rows, None).
Proof.
  unfold trows_ok. intros H. apply andb_true_iff in H. destruct H as [H HL]. apply andb_true_iff in H. destruct H as [Hne Hall].
  apply Nat.eqb_eq in HL.
  assert (S : split_byte 138 (tfield_bytes rows) = map brow_cells rows).
  { unfold tfield_bytes. apply split_join_rows; [destruct rows; [discriminate Hne | discriminate]|].
    apply Forall_forall. intros bs Hin. apply in_map_iff in Hin. destruct Hin as (r & <- & Hr).
    pose proof (proj1 (forallb_forall _ _) Hall r Hr) as Hk. unfold trow_okb in Hk.
    apply andb_true_iff in Hk. destruct Hk as [Hk _]. apply andb_true_iff in Hk. destruct Hk as [Hk _].
    apply andb_true_iff in Hk. destruct Hk as [_ Hb].
    intros Hin. pose proof (proj1 (forallb_forall _ _) Hb 138 Hin) as Hc. vm_compute in Hc. discriminate. }
  split; [exact HL|]. split; [exact S|]. rewrite S. exact (rows_ttx_fold rows [] Hall).
Qed.
