(* The float64 path of the STL timecode formatter (Model/StlFloat.v: d.Hours(), d.Minutes(),
   d.Seconds() followed by math.Floor, and the "< 10" padding tests) agrees with the integer model
   Dur.stl_fields on every duration an STL timecode can hold (0 <= t < 256 h).

   Argument.  d.X() = RN (q + RN (r / c)) with q = t / c, r = t mod c.  As r <= c - 1 and
   c <= 2^k, r / c <= 1 - 2^-k.  Both 0 and 1 - 2^-k are binary64 numbers, so the rounded quotient
   stays in [0, 1 - 2^-k]; then q + RN (r / c) lies in [q, q + 1 - 2^-k], whose two ends are
   binary64 numbers as long as (q + 1) * 2^k <= 2^53, so the rounded sum stays there too
   (monotonicity of rounding; no rounding is ever computed).  Hence Floor gives q, and the
   comparison with 10 is the comparison of q with 10.
     hours:   c = 3.6e12 <= 2^42, q < 256
     minutes: c = 6e10   <= 2^36, q < 256 * 60
     seconds: c = 1e9    <= 2^30, q < 256 * 3600 *)
From Coq Require Import ZArith Reals Lia Lra Bool.
From Flocq Require Import Core BinarySingleNaN.
From Astisub Require Import Kit.Float64 Model.Dur Model.StlFloat Proofs.FracFloatProofs.
Open Scope R_scope.

(* ---------------------------------------------------------------- *)
(* toolkit additions                                                  *)

Lemma fadd_correct : forall x y : f64, is_finite x = true -> is_finite y = true ->
  Rabs (B2R x + B2R y) <= bpow radix2 100 ->
  B2R (fadd x y) = RN (B2R x + B2R y) /\ is_finite (fadd x y) = true.
Proof.
  intros x y Fx Fy Hb. unfold fadd.
  generalize (Bplus_correct prec emax Hprec Hmax mode_NE x y Fx Fy).
  norm_fexp. rewrite (no_overflow _ Hb).
  intros [H1 [H2 _]]. split; assumption.
Qed.

Lemma bpow_cancel : forall k : Z, bpow radix2 k * bpow radix2 (- k) = 1.
Proof.
  intros k. rewrite <- bpow_plus. replace (k + - k)%Z with 0%Z by lia. reflexivity.
Qed.

(* q + 1 - 2^-k is a binary64 number when (q + 1) * 2^k <= 2^53 *)
Lemma fmt_upper : forall k q : Z, (0 <= k <= 52)%Z -> (0 <= q)%Z ->
  ((q + 1) * 2 ^ k <= 2 ^ 53)%Z ->
  fmt (IZR q + 1 - bpow radix2 (- k)).
Proof.
  intros k q Hk Hq Hb.
  assert (Hp : (0 < 2 ^ k)%Z) by (apply Z.pow_pos_nonneg; lia).
  assert (H1 : (1 <= (q + 1) * 2 ^ k)%Z) by nia.
  replace (IZR q + 1 - bpow radix2 (- k))
    with (F2R (Float radix2 ((q + 1) * 2 ^ k - 1) (- k))).
  - apply fmt_F2R; lia.
  - unfold F2R. cbn [Fnum Fexp].
    rewrite minus_IZR, mult_IZR, plus_IZR.
    replace (IZR (2 ^ k)) with (bpow radix2 k)
      by (symmetry; apply (IZR_Zpower radix2); lia).
    pose proof (bpow_cancel k) as E.
    replace (((IZR q + 1) * bpow radix2 k - 1) * bpow radix2 (- k))
      with ((IZR q + 1) * (bpow radix2 k * bpow radix2 (- k)) - bpow radix2 (- k)) by ring.
    rewrite E. ring.
Qed.

(* rounding keeps a value inside [q, q + 1 - 2^-k] *)
Lemma RN_sandwich : forall (k q : Z) (x : R), (0 <= k <= 52)%Z -> (0 <= q)%Z ->
  ((q + 1) * 2 ^ k <= 2 ^ 53)%Z ->
  IZR q <= x <= IZR q + 1 - bpow radix2 (- k) ->
  IZR q <= RN x <= IZR q + 1 - bpow radix2 (- k).
Proof.
  intros k q x Hk Hq Hb [H1 H2].
  assert (Hp : (0 < 2 ^ k)%Z) by (apply Z.pow_pos_nonneg; lia).
  split.
  - apply round_ge_generic; auto with typeclass_instances.
    apply fmt_IZR. nia.
  - apply round_le_generic; auto with typeclass_instances.
    apply fmt_upper; assumption.
Qed.

(* ---------------------------------------------------------------- *)
(* the core lemma: RN (q + RN (r / c)) stays in [q, q + 1 - 2^-k]      *)

Lemma unit_core : forall k c q r : Z, (0 <= k <= 52)%Z -> (0 < c <= 2 ^ k)%Z -> (0 <= q)%Z ->
  ((q + 1) * 2 ^ k <= 2 ^ 53)%Z -> (0 <= r < c)%Z ->
  is_finite (fadd (of_Z q) (fdiv (of_Z r) (of_Z c))) = true /\
  IZR q <= B2R (fadd (of_Z q) (fdiv (of_Z r) (of_Z c))) <= IZR q + 1 - bpow radix2 (- k).
Proof.
  intros k c q r Hk Hc Hq Hb Hr.
  assert (Hp : (0 < 2 ^ k)%Z) by (apply Z.pow_pos_nonneg; lia).
  assert (Hp52 : (2 ^ k <= 2 ^ 52)%Z) by (apply Z.pow_le_mono_r; lia).
  assert (Hq53 : (q < 2 ^ 53)%Z) by nia.
  change (2 ^ 52)%Z with 4503599627370496%Z in Hp52.
  change (2 ^ 53)%Z with 9007199254740992%Z in Hq53.
  destruct (of_Z_correct q) as [Hq1 Hq2];
    [change (2 ^ 53)%Z with 9007199254740992%Z; lia|].
  destruct (of_Z_correct r) as [Hr1 Hr2];
    [change (2 ^ 53)%Z with 9007199254740992%Z; lia|].
  destruct (of_Z_correct c) as [Hc1 Hc2];
    [change (2 ^ 53)%Z with 9007199254740992%Z; lia|].
  pose proof bpow100_big as Hbig.
  (* the real-number facts *)
  set (u := bpow radix2 (- k)).
  assert (Hu0 : 0 < u) by (apply bpow_gt_0).
  assert (Hu1 : u <= 1).
  { change 1 with (bpow radix2 0). apply bpow_le. lia. }
  assert (Hc0 : 1 <= IZR c) by (apply IZR_le; lia).
  assert (HcP : IZR c <= bpow radix2 k).
  { rewrite <- (IZR_Zpower radix2) by lia. apply IZR_le. apply Hc. }
  assert (Hinv : u <= / IZR c).
  { unfold u. rewrite bpow_opp. apply Rinv_le_contravar; [lra | exact HcP]. }
  assert (Hr0 : 0 <= IZR r) by (apply IZR_le; lia).
  assert (Hr3 : IZR r <= IZR c - 1).
  { rewrite <- minus_IZR. apply IZR_le. lia. }
  assert (Hic : 0 < / IZR c) by (apply Rinv_0_lt_compat; lra).
  assert (Hd0 : 0 <= IZR r / IZR c).
  { apply Rmult_le_pos; lra. }
  assert (Hd1 : IZR r / IZR c <= 1 - u).
  { apply Rle_trans with ((IZR c - 1) / IZR c).
    - apply Rmult_le_compat_r; lra.
    - replace ((IZR c - 1) / IZR c) with (1 - / IZR c) by (field; lra). lra. }
  assert (Hqr : 0 <= IZR q <= 9007199254740992).
  { split; apply IZR_le; lia. }
  (* the division *)
  destruct (fdiv_correct (of_Z r) (of_Z c)) as [Hy1 Hy2].
  { exact Hr2. }
  { rewrite Hc1. lra. }
  { rewrite Hr1, Hc1. rewrite Rabs_pos_eq; lra. }
  rewrite Hr1, Hc1 in Hy1.
  assert (Hy : 0 <= B2R (fdiv (of_Z r) (of_Z c)) <= 1 - u).
  { rewrite Hy1.
    assert (S : IZR 0 <= RN (IZR r / IZR c) <= IZR 0 + 1 - bpow radix2 (- k)).
    { apply RN_sandwich; [lia | lia | lia |]. fold u. lra. }
    fold u in S. lra. }
  (* the addition *)
  destruct (fadd_correct (of_Z q) (fdiv (of_Z r) (of_Z c))) as [Hx1 Hx2].
  { exact Hq2. }
  { exact Hy2. }
  { rewrite Hq1. rewrite Rabs_pos_eq; lra. }
  split; [exact Hx2|].
  rewrite Hx1, Hq1. apply RN_sandwich; [lia | lia | exact Hb |]. fold u. lra.
Qed.

(* d.X() for a unit c <= 2^k: finite, inside [t / c, t / c + 1 - 2^-k] *)
Lemma unit_bounds : forall k c t : Z, (0 <= k <= 52)%Z -> (0 < c <= 2 ^ k)%Z -> (0 <= t)%Z ->
  ((t / c + 1) * 2 ^ k <= 2 ^ 53)%Z ->
  is_finite (dur_unit_float c t) = true /\
  IZR (t / c) <= B2R (dur_unit_float c t) <= IZR (t / c) + 1 - bpow radix2 (- k).
Proof.
  intros k c t Hk Hc Ht Hb. unfold dur_unit_float.
  rewrite Z.quot_div_nonneg by lia. rewrite Z.rem_mod_nonneg by lia.
  apply unit_core; try assumption.
  - apply Z.div_pos; lia.
  - apply Z.mod_pos_bound. lia.
Qed.

Lemma unit_floor : forall k c t : Z, (0 <= k <= 52)%Z -> (0 < c <= 2 ^ k)%Z -> (0 <= t)%Z ->
  ((t / c + 1) * 2 ^ k <= 2 ^ 53)%Z ->
  floor_Z (dur_unit_float c t) = (t / c)%Z.
Proof.
  intros k c t Hk Hc Ht Hb.
  destruct (unit_bounds k c t Hk Hc Ht Hb) as [Fx Bx].
  assert (Hp : (0 < 2 ^ k)%Z) by (apply Z.pow_pos_nonneg; lia).
  assert (Hq : (0 <= t / c)%Z) by (apply Z.div_pos; lia).
  pose proof (bpow_gt_0 radix2 (- k)) as Hu.
  apply floor_Z_correct; [exact Fx | nia | lra].
Qed.

Lemma unit_lt10 : forall k c t : Z, (0 <= k <= 52)%Z -> (0 < c <= 2 ^ k)%Z -> (0 <= t)%Z ->
  ((t / c + 1) * 2 ^ k <= 2 ^ 53)%Z ->
  lt10_float c t = (t / c <? 10)%Z.
Proof.
  intros k c t Hk Hc Ht Hb.
  destruct (unit_bounds k c t Hk Hc Ht Hb) as [Fx Bx].
  pose proof (bpow_gt_0 radix2 (- k)) as Hu.
  destruct (of_Z_correct 10) as [Ht1 Ht2]; [lia|].
  unfold lt10_float.
  rewrite (Bcompare_correct prec emax _ (of_Z 10) Fx Ht2). rewrite Ht1.
  destruct (Z.ltb_spec (t / c) 10) as [Hlt | Hge].
  - assert (H9 : IZR (t / c) <= 9) by (apply IZR_le; lia).
    rewrite Rcompare_Lt; [reflexivity | lra].
  - assert (H10 : 10 <= IZR (t / c)) by (apply IZR_le; lia).
    destruct (Rcompare_spec (B2R (dur_unit_float c t)) 10) as [H|H|H]; try reflexivity.
    lra.
Qed.

(* ---------------------------------------------------------------- *)
(* the three units, on the whole range 0 <= t < 256 h                  *)

Definition stl_range (t : Z) : Prop := (0 <= t < 256 * hour_ns)%Z.

Lemma hour_side : forall t : Z, stl_range t ->
  (0 <= 42 <= 52)%Z /\ (0 < hour_ns <= 2 ^ 42)%Z /\ (0 <= t)%Z /\
  ((t / hour_ns + 1) * 2 ^ 42 <= 2 ^ 53)%Z.
Proof.
  intros t Ht. unfold stl_range in Ht.
  assert (Hq : (t / hour_ns < 256)%Z) by (apply Z.div_lt_upper_bound; unfold hour_ns in *; lia).
  unfold hour_ns in *.
  change (2 ^ 42)%Z with 4398046511104%Z. change (2 ^ 53)%Z with 9007199254740992%Z. lia.
Qed.

Lemma minute_side : forall t : Z, stl_range t ->
  (0 <= 36 <= 52)%Z /\ (0 < minute_ns <= 2 ^ 36)%Z /\ (0 <= t)%Z /\
  ((t / minute_ns + 1) * 2 ^ 36 <= 2 ^ 53)%Z.
Proof.
  intros t Ht. unfold stl_range in Ht.
  assert (Hq : (t / minute_ns < 15360)%Z)
    by (apply Z.div_lt_upper_bound; unfold hour_ns, minute_ns in *; lia).
  unfold hour_ns, minute_ns in *.
  change (2 ^ 36)%Z with 68719476736%Z. change (2 ^ 53)%Z with 9007199254740992%Z. lia.
Qed.

Lemma second_side : forall t : Z, stl_range t ->
  (0 <= 30 <= 52)%Z /\ (0 < second_ns <= 2 ^ 30)%Z /\ (0 <= t)%Z /\
  ((t / second_ns + 1) * 2 ^ 30 <= 2 ^ 53)%Z.
Proof.
  intros t Ht. unfold stl_range in Ht.
  assert (Hq : (t / second_ns < 921600)%Z)
    by (apply Z.div_lt_upper_bound; unfold hour_ns, second_ns in *; lia).
  unfold hour_ns, second_ns in *.
  change (2 ^ 30)%Z with 1073741824%Z. change (2 ^ 53)%Z with 9007199254740992%Z. lia.
Qed.

Definition stl_unit (c : Z) : Prop := c = hour_ns \/ c = minute_ns \/ c = second_ns.

(* math.Floor(d.Hours()), math.Floor(d.Minutes()), math.Floor(d.Seconds()) *)
Theorem floor_unit_float_correct : forall c t : Z, stl_unit c -> stl_range t ->
  floor_Z (dur_unit_float c t) = Z.quot t c.
Proof.
  intros c t Hc Ht.
  assert (H0 : (0 <= t)%Z) by (unfold stl_range in Ht; lia).
  destruct Hc as [-> | [-> | ->]].
  - destruct (hour_side t Ht) as [A [B [C D]]].
    rewrite Z.quot_div_nonneg by (unfold hour_ns; lia). exact (unit_floor 42 _ _ A B C D).
  - destruct (minute_side t Ht) as [A [B [C D]]].
    rewrite Z.quot_div_nonneg by (unfold minute_ns; lia). exact (unit_floor 36 _ _ A B C D).
  - destruct (second_side t Ht) as [A [B [C D]]].
    rewrite Z.quot_div_nonneg by (unfold second_ns; lia). exact (unit_floor 30 _ _ A B C D).
Qed.

(* d.Hours() < 10, d.Minutes() < 10, d.Seconds() < 10 *)
Theorem lt10_float_correct : forall c t : Z, stl_unit c -> stl_range t ->
  lt10_float c t = (Z.quot t c <? 10)%Z.
Proof.
  intros c t Hc Ht.
  assert (H0 : (0 <= t)%Z) by (unfold stl_range in Ht; lia).
  destruct Hc as [-> | [-> | ->]].
  - destruct (hour_side t Ht) as [A [B [C D]]].
    rewrite Z.quot_div_nonneg by (unfold hour_ns; lia). exact (unit_lt10 42 _ _ A B C D).
  - destruct (minute_side t Ht) as [A [B [C D]]].
    rewrite Z.quot_div_nonneg by (unfold minute_ns; lia). exact (unit_lt10 36 _ _ A B C D).
  - destruct (second_side t Ht) as [A [B [C D]]].
    rewrite Z.quot_div_nonneg by (unfold second_ns; lia). exact (unit_lt10 30 _ _ A B C D).
Qed.

(* ---------------------------------------------------------------- *)
(* the four fields                                                    *)

(* what is left after removing the c-field is again in range *)
Lemma rest_range : forall c t : Z, stl_unit c -> stl_range t ->
  stl_range (t - Z.quot t c * c).
Proof.
  intros c t Hc Ht. unfold stl_range in *.
  assert (Hc0 : (0 < c)%Z)
    by (destruct Hc as [-> | [-> | ->]]; unfold hour_ns, minute_ns, second_ns; lia).
  rewrite Z.quot_div_nonneg by lia.
  pose proof (Z.div_mod t c ltac:(lia)) as E.
  pose proof (Z.mod_pos_bound t c Hc0) as B.
  assert (Hq : (0 <= t / c)%Z) by (apply Z.div_pos; lia).
  nia.
Qed.

Theorem stl_fields_float_correct : forall t fps : Z, stl_range t ->
  stl_fields_float t fps = stl_fields t fps.
Proof.
  intros t fps Ht. unfold stl_fields_float, stl_fields. cbv zeta.
  rewrite (floor_unit_float_correct hour_ns t) by (unfold stl_unit; auto).
  pose proof (rest_range hour_ns t ltac:(unfold stl_unit; auto) Ht) as Ht1.
  set (t1 := (t - Z.quot t hour_ns * hour_ns)%Z) in *.
  rewrite (floor_unit_float_correct minute_ns t1) by (unfold stl_unit; auto).
  pose proof (rest_range minute_ns t1 ltac:(unfold stl_unit; auto) Ht1) as Ht2.
  set (t2 := (t1 - Z.quot t1 minute_ns * minute_ns)%Z) in *.
  rewrite (floor_unit_float_correct second_ns t2) by (unfold stl_unit; auto).
  reflexivity.
Qed.

(* the statements with the range spelled out *)
Corollary stl_fields_float_correct_256h : forall t fps : Z,
  (0 <= t < 256 * 3600000000000)%Z -> stl_fields_float t fps = stl_fields t fps.
Proof. intros t fps Ht. apply stl_fields_float_correct. exact Ht. Qed.

Corollary lt10_float_correct_256h : forall c t : Z,
  c = 3600000000000%Z \/ c = 60000000000%Z \/ c = 1000000000%Z ->
  (0 <= t < 256 * 3600000000000)%Z -> lt10_float c t = (Z.quot t c <? 10)%Z.
Proof. intros c t Hc Ht. apply lt10_float_correct; [exact Hc | exact Ht]. Qed.

(* ---------------------------------------------------------------- *)
(* executable checks                                                  *)

(* 23:59:59 + 999999999 ns *)
Example stl_float_last_ns_25 :
  stl_fields_float 86399999999999 25 = (23, 59, 59, 24)%Z.
Proof. vm_compute. reflexivity. Qed.
Example stl_float_last_ns_30 :
  stl_fields_float 86399999999999 30 = (23, 59, 59, 29)%Z.
Proof. vm_compute. reflexivity. Qed.
(* one nanosecond below the first hour boundary: d.Hours() must not round up to 1 *)
Example stl_float_below_hour :
  stl_fields_float 3599999999999 25 = (0, 59, 59, 24)%Z.
Proof. vm_compute. reflexivity. Qed.
Example stl_float_below_hour_int :
  stl_fields 3599999999999 25 = (0, 59, 59, 24)%Z.
Proof. vm_compute. reflexivity. Qed.
(* the top of the range: 255:59:59 + 999999999 ns *)
Example stl_float_top :
  stl_fields_float (256 * 3600000000000 - 1) 25 = (255, 59, 59, 24)%Z.
Proof. vm_compute. reflexivity. Qed.
(* the padding tests around 10 h, 10 min, 10 s *)
Example lt10_float_below_10h : lt10_float hour_ns (10 * 3600000000000 - 1) = true.
Proof. vm_compute. reflexivity. Qed.
Example lt10_float_at_10h : lt10_float hour_ns (10 * 3600000000000) = false.
Proof. vm_compute. reflexivity. Qed.
Example lt10_float_below_10m : lt10_float minute_ns (10 * 60000000000 - 1) = true.
Proof. vm_compute. reflexivity. Qed.
Example lt10_float_below_10s : lt10_float second_ns (10 * 1000000000 - 1) = true.
Proof. vm_compute. reflexivity. Qed.

Print Assumptions stl_fields_float_correct.
Print Assumptions lt10_float_correct.
Print Assumptions floor_unit_float_correct.
