(* Sync (C09): two shifts in the same direction compose to one shift by the sum; the zero shift is the identity on cues
   that are on the timeline.  Mixed signs do not compose (clamping at 0 loses the start): computed counter-example. *)
From Coq Require Import List ZArith NArith Bool Lia.
From Astisub Require Import Kit.Base Model.Ops Proofs.AddProofs.
Import ListNotations.
Open Scope Z_scope.

Definition on_timeline (x : item) : Prop := 0 <= st x /\ st x <= en x /\ 0 < en x.

Lemma shift1_compose d1 d2 x : wf_item x ->
  (d1 <= 0 /\ d2 <= 0) \/ (0 <= d1 /\ 0 <= d2 /\ 0 <= st x /\ 0 < en x) ->
  match shift1 d1 x with Some y => shift1 d2 y | None => None end = shift1 (d1 + d2) x.
Proof.
  destruct x as [u s e li rg sy il]. unfold wf_item, shift1, set_st, set_en. cbn [st en uid i_lines i_reg i_sty i_inl].
  intros Hw Hc.
  destruct (Z.leb_spec (e + d1) 0) as [E1|E1]; destruct (Z.leb_spec (s + d1) 0) as [E2|E2]; cbn [andb];
    cbn [st en uid i_lines i_reg i_sty i_inl];
    destruct (Z.leb_spec (e + d1 + d2) 0) as [E3|E3]; destruct (Z.leb_spec (e + (d1 + d2)) 0) as [E4|E4];
    destruct (Z.leb_spec (s + (d1 + d2)) 0) as [E5|E5]; cbn [andb]; try (exfalso; lia);
    try destruct (Z.leb_spec (0 + d2) 0) as [E6|E6]; try destruct (Z.leb_spec (s + d1 + d2) 0) as [E7|E7];
    cbn [andb]; try reflexivity; try (exfalso; lia); try (do 2 f_equal; lia).
Qed.

Lemma add_compose_gen d1 d2 l :
  Forall (fun x => wf_item x /\ ((d1 <= 0 /\ d2 <= 0) \/ (0 <= d1 /\ 0 <= d2 /\ 0 <= st x /\ 0 < en x))) l ->
  add_dur d2 (add_dur d1 l) = add_dur (d1 + d2) l.
Proof.
  induction l as [|x r IH]; intros H; cbn [add_dur]; [reflexivity|].
  inversion H as [|? ? [Hw Hc] Hr]; subst. specialize (IH Hr).
  pose proof (shift1_compose d1 d2 x Hw Hc) as Hx.
  destruct (shift1 d1 x) as [y|]; cbn [add_dur]; rewrite <- Hx.
  - destruct (shift1 d2 y); rewrite IH; reflexivity.
  - exact IH.
Qed.

Lemma add_compose_back d1 d2 l : d1 <= 0 -> d2 <= 0 -> Forall wf_item l ->
  add_dur d2 (add_dur d1 l) = add_dur (d1 + d2) l.
Proof.
  intros H1 H2 H. apply add_compose_gen. eapply Forall_impl; [|exact H]. intros x Hx. split; [exact Hx | left; split; assumption].
Qed.

Lemma add_compose_forward d1 d2 l : 0 <= d1 -> 0 <= d2 -> Forall on_timeline l ->
  add_dur d2 (add_dur d1 l) = add_dur (d1 + d2) l.
Proof.
  intros H1 H2 H. apply add_compose_gen. eapply Forall_impl; [|exact H]. intros x (Ha & Hb & Hc).
  split; [exact Hb | right; repeat split; assumption].
Qed.

Lemma add_zero l : Forall on_timeline l -> add_dur 0 l = l.
Proof.
  induction l as [|x r IH]; intros H; cbn [add_dur]; [reflexivity|].
  inversion H as [|? ? (Ha & Hb & Hc) Hr]; subst. rewrite (IH Hr).
  destruct x as [u s e li rg sy il]. unfold shift1, set_st, set_en. cbn [st en uid i_lines i_reg i_sty i_inl] in *.
  destruct (Z.leb_spec (e + 0) 0) as [E1|E1]; [exfalso; lia|]. cbn [andb].
  destruct (Z.leb_spec (s + 0) 0) as [E2|E2]; do 2 f_equal; lia.
Qed.

(* mixed signs: a back shift that clamps, followed by the opposite shift, is not the zero shift *)
Lemma add_compose_mixed_differs :
  let x := mkItem 1%N 2 10 [] None None false in
  on_timeline x /\ map (fun y => (st y, en y)) (add_dur 5 (add_dur (-5) [x])) = [(5, 10)] /\
  map (fun y => (st y, en y)) (add_dur (-5 + 5) [x]) = [(2, 10)].
Proof. cbn. unfold on_timeline. cbn. repeat split; try lia; reflexivity. Qed.
