(* C06: sweeps over the generated teletext tables (Gen/TtxTables.v, re-generated from the code on every run).
   Each is a finite check closed by vm_compute and lifted to a universally quantified statement. *)
From Coq Require Import List ZArith NArith Bool Lia.
From Astisub Require Import Kit.Base Kit.Str Gen.TtxTables Model.TtxRow Model.Ttx Model.TtxSpec.
Import ListNotations.
Open Scope N_scope.

Definition below (k : nat) : list N := map N.of_nat (seq 0 k).
Lemma below_in k n : n < N.of_nat k -> In n (below k).
Proof.
  intros H. unfold below. apply in_map_iff. exists (N.to_nat n). split; [apply N2Nat.id|]. apply in_seq. lia.
Qed.
Lemma sweep (P : N -> bool) k : forallb P (below k) = true -> forall n, n < N.of_nat k -> P n = true.
Proof. intros H n Hn. rewrite forallb_forall in H. apply H. apply below_in. exact Hn. Qed.

(* ---- the function tables have 256 entries ---- *)
Lemma ham_len : length ttx_hamming84 = 256%nat. Proof. vm_compute. reflexivity. Qed.
Lemma par_len : length ttx_parity = 256%nat. Proof. vm_compute. reflexivity. Qed.
Lemma rev_len : length ttx_reverse8 = 256%nat. Proof. vm_compute. reflexivity. Qed.

Definition optN_eqb (a b : option N) : bool := opt_eqb a b.
Lemma opt_eqb_eq a b : opt_eqb a b = true -> a = b.
Proof. destruct a, b; cbn; intros H; try discriminate; try reflexivity. apply N.eqb_eq in H. congruence. Qed.

(* ---- Hamming 8/4: astikit's table is the nearest-code-word decoder on every byte ---- *)
Theorem ham84_is_spec : forall b, ham84 b = ham84_dec b.
Proof.
  intros b. destruct (N.ltb_spec b 256) as [Hb|Hb].
  - apply opt_eqb_eq. revert b Hb.
    apply (sweep (fun b => opt_eqb (ham84 b) (ham84_dec b)) 256). vm_compute. reflexivity.
  - unfold ham84, ham84_dec. rewrite nth_overflow by (rewrite ham_len; lia).
    destruct (N.ltb_spec b 256); [lia | reflexivity].
Qed.

(* decode after encode is the identity on all 16 nibbles *)
Theorem ham84_dec_enc : forall n, n < 16 -> ham84 (ham84_enc n) = Some n.
Proof.
  intros n Hn. apply opt_eqb_eq. revert n Hn.
  apply (sweep (fun n => opt_eqb (ham84 (ham84_enc n)) (Some n)) 16). vm_compute. reflexivity.
Qed.
(* every single bit error is corrected *)
Theorem ham84_single_error : forall n k, n < 16 -> k < 8 -> ham84 (N.lxor (ham84_enc n) (2 ^ k)) = Some n.
Proof.
  intros n k Hn Hk.
  assert (S : forallb (fun n => forallb (fun k => opt_eqb (ham84 (N.lxor (ham84_enc n) (2 ^ k))) (Some n)) (below 8)) (below 16) = true)
    by (vm_compute; reflexivity).
  rewrite forallb_forall in S. specialize (S n (below_in 16 n Hn)).
  rewrite forallb_forall in S. specialize (S k (below_in 8 k Hk)). apply opt_eqb_eq. exact S.
Qed.
(* every double bit error is detected *)
Theorem ham84_double_error : forall n j k, n < 16 -> j < 8 -> k < 8 -> j <> k ->
  ham84 (N.lxor (N.lxor (ham84_enc n) (2 ^ j)) (2 ^ k)) = None.
Proof.
  intros n j k Hn Hj Hk Hjk.
  assert (S : forallb (fun n => forallb (fun j => forallb (fun k =>
            (j =? k) || opt_eqb (ham84 (N.lxor (N.lxor (ham84_enc n) (2 ^ j)) (2 ^ k))) None) (below 8)) (below 8)) (below 16) = true)
    by (vm_compute; reflexivity).
  rewrite forallb_forall in S. specialize (S n (below_in 16 n Hn)).
  rewrite forallb_forall in S. specialize (S j (below_in 8 j Hj)).
  rewrite forallb_forall in S. specialize (S k (below_in 8 k Hk)).
  apply orb_true_iff in S. destruct S as [E|E]; [apply N.eqb_eq in E; contradiction | apply opt_eqb_eq; exact E].
Qed.
(* the decoded values are nibbles *)
Theorem ham84_range : forall b n, ham84 b = Some n -> n < 16.
Proof.
  intros b n H. destruct (N.ltb_spec b 256) as [Hb|Hb].
  - pose proof (sweep (fun b => match ham84 b with Some n => n <? 16 | None => true end) 256 ltac:(vm_compute; reflexivity) b Hb) as S.
    cbv beta in S. rewrite H in S. apply N.ltb_lt. exact S.
  - unfold ham84 in H. rewrite nth_overflow in H by (rewrite ham_len; lia). discriminate.
Qed.

(* ---- bit reversal ---- *)
Theorem rev8_is_spec : forall b, b < 256 -> rev8 b = brev8 b.
Proof. intros b Hb. apply N.eqb_eq. revert b Hb. apply (sweep (fun b => rev8 b =? brev8 b) 256). vm_compute. reflexivity. Qed.
Theorem rev8_involutive : forall b, b < 256 -> rev8 (rev8 b) = b.
Proof. intros b Hb. apply N.eqb_eq. revert b Hb. apply (sweep (fun b => rev8 (rev8 b) =? b) 256). vm_compute. reflexivity. Qed.

(* ---- parity: value = low seven bits, ok = odd number of ones ---- *)
Theorem parity_is_spec : forall b, b < 256 -> parity b = (N.land b 127, N.odd (ones8 b)).
Proof.
  intros b Hb.
  pose proof (sweep (fun b => (fst (parity b) =? N.land b 127) && Bool.eqb (snd (parity b)) (N.odd (ones8 b))) 256 ltac:(vm_compute; reflexivity) b Hb) as S.
  cbv beta in S. apply andb_true_iff in S. destruct S as [S1 S2]. apply N.eqb_eq in S1. apply Bool.eqb_prop in S2.
  destruct (parity b) as [v ok]. cbn [fst snd] in *. congruence.
Qed.

(* ---- the stored cell of every transmitted byte ---- *)
Theorem cell_is_spec : forall x, ttx_cell x = cell0 x.
Proof.
  intros x. destruct (N.ltb_spec x 256) as [Hx|Hx].
  - apply N.eqb_eq. revert x Hx. apply (sweep (fun x => ttx_cell x =? cell0 x) 256). vm_compute. reflexivity.
  - unfold ttx_cell, cell0, rev8, parity. rewrite (nth_overflow ttx_reverse8) by (rewrite rev_len; lia).
    destruct (N.ltb_spec x 256); [lia|]. vm_compute. reflexivity.
Qed.
(* a seven-bit character sent with odd parity is stored as itself *)
Theorem cell_par_enc : forall c, c < 128 -> ttx_cell (par_enc c) = c.
Proof. intros c Hc. apply N.eqb_eq. revert c Hc. apply (sweep (fun c => ttx_cell (par_enc c) =? c) 128). vm_compute. reflexivity. Qed.
(* a byte with even parity contributes the cell 0 (no text) *)
Theorem cell_bad_parity : forall x, x < 256 -> N.odd (ones8 x) = false -> ttx_cell x = 0.
Proof.
  intros x Hx Hp.
  pose proof (sweep (fun x => N.odd (ones8 x) || (ttx_cell x =? 0)) 256 ltac:(vm_compute; reflexivity) x Hx) as S.
  cbv beta in S. rewrite Hp in S. apply N.eqb_eq. exact S.
Qed.
(* every stored cell is a seven-bit value *)
Theorem cell_range : forall x, ttx_cell x < 128.
Proof.
  intros x. rewrite cell_is_spec. unfold cell0. destruct (N.ltb_spec x 256) as [Hx|Hx]; [|lia].
  apply N.ltb_lt. revert x Hx. apply (sweep (fun x => match cell_spec x with Some c => c | None => 0 end <? 128) 256). vm_compute. reflexivity.
Qed.

(* ---- character sets ---- *)
Definition tab_ok (t : list str) : bool := Nat.eqb (length t) 96.
Definition nat_ok (t : list str) : bool := Nat.eqb (length t) 13.

(* shape of the tables: 96-entry G0 sets, 13-entry national subsets, 13 distinct positions inside the table,
   a G0 set in every entry of teletextCharsets *)
Definition charsets_shape : bool :=
  forallb tab_ok ttx_g0_tables && forallb nat_ok ttx_national_tables && tab_ok ttx_tab_G0Latin
  && Nat.eqb (length ttx_national_positions) 13
  && forallb (fun p => p <? 96) ttx_national_positions
  && forallb (fun e => match snd e with
                       | (Some g0, _, nat) => tab_ok g0 && match nat with Some n => nat_ok n | None => true end
                       | (None, _, _) => false end) ttx_charsets.
Lemma charsets_shape_ok : charsets_shape = true. Proof. vm_compute. reflexivity. Qed.

Fixpoint nodupb (l : list N) : bool := match l with [] => true | x :: r => negb (nmem x r) && nodupb r end.
Lemma national_positions_distinct : nodupb ttx_national_positions = true. Proof. vm_compute. reflexivity. Qed.

(* for every entry: the selected table is the G0 set with exactly the 13 national positions replaced by the
   subset's characters (all other 83 positions untouched), or the G0 set itself when the entry has no subset *)
Definition entry_subst_ok (e : (N * N) * (option (list str) * option (list str) * option (list str))) : bool :=
  let '((k1, code), (g0o, _, nato)) := e in
  match g0o with
  | None => false
  | Some g0 =>
    match charset_for (k1 * 1024) code with
    | Ok c =>
      match nato with
      | None => forallb (fun i => str_eqb (nth i c []) (nth i g0 [])) (seq 0 96) && Nat.eqb (length c) 96
      | Some n =>
        Nat.eqb (length c) 96
        && forallb (fun i => nmem (N.of_nat i) ttx_national_positions || str_eqb (nth i c []) (nth i g0 [])) (seq 0 96)
        && forallb (fun k => str_eqb (nth (N.to_nat (nth k ttx_national_positions 0)) c []) (nth k n [])) (seq 0 13)
      end
    | _ => false
    end
  end.
(* the first entry for a key is the one the map lookup returns: keys are distinct *)
Fixpoint keys_distinct (l : list (N * N)) : bool :=
  match l with [] => true | (a, b) :: r => negb (existsb (fun k => (fst k =? a) && (snd k =? b)) r) && keys_distinct r end.
Lemma charsets_keys_distinct : keys_distinct (map fst ttx_charsets) = true. Proof. vm_compute. reflexivity. Qed.
Lemma charsets_keys_small : forallb (fun e => (fst (fst e) <? 16) && (snd (fst e) <? 8)) ttx_charsets = true.
Proof. vm_compute. reflexivity. Qed.

Theorem national_substitution_exact : forallb entry_subst_ok ttx_charsets = true.
Proof. vm_compute. reflexivity. Qed.

(* ---- charset_for never panics and always yields a 96-entry table ---- *)
Definition entry_total (v : option (list str) * option (list str) * option (list str)) : bool :=
  match v with
  | (Some g0, _, Some n) => match subst_national ttx_national_positions n g0 with Ok c => Nat.eqb (length c) 96 | _ => false end
  | (Some g0, _, None) => Nat.eqb (length g0) 96
  | (None, _, _) => false
  end.
Lemma entries_total : forallb (fun e => entry_total (snd e)) ttx_charsets = true. Proof. vm_compute. reflexivity. Qed.
Lemma lookup2_in {V} k1 k2 (m : list ((N * N) * V)) v : ttx_lookup2 k1 k2 m = Some v -> In ((k1, k2), v) m.
Proof.
  induction m as [|[[a b] w] r IH]; cbn [ttx_lookup2]; [discriminate|].
  destruct ((a =? k1) && (b =? k2)) eqn:E.
  - intros H. inversion H; subst. apply andb_true_iff in E. destruct E as [E1 E2]. apply N.eqb_eq in E1. apply N.eqb_eq in E2. subst. left. reflexivity.
  - intros H. right. apply IH. exact H.
Qed.
Theorem charset_for_total : forall triplet code, exists c, charset_for triplet code = Ok c /\ length c = 96%nat.
Proof.
  intros triplet code. unfold charset_for.
  destruct (ttx_lookup2 _ code ttx_charsets) as [v|] eqn:L.
  - apply lookup2_in in L. pose proof entries_total as T. rewrite forallb_forall in T. specialize (T _ L). cbn [snd] in T.
    destruct v as [[[g0|] g2] [n|]]; cbn [entry_total] in T; try discriminate.
    + destruct (subst_national ttx_national_positions n g0) as [c| |]; try discriminate. exists c. split; [reflexivity|]. apply Nat.eqb_eq. exact T.
    + exists g0. split; [reflexivity|]. apply Nat.eqb_eq. exact T.
  - exists ttx_tab_G0Latin. split; [reflexivity|]. vm_compute. reflexivity.
Qed.
