(* parseTeletextRow with the STL styler (stl.go, display standards 1 and 2): for every structured row the parser
   returns exactly the runs the row denotes, and the decoder state it leaves behind.  The character decoder is any
   decoder that is total on text cells (the STL character handler with its pending diacritic is one).  For the STL
   slice (C05) to cite. *)
From Coq Require Import List ZArith NArith Bool Lia.
From Astisub Require Import Kit.Base Kit.Str Model.TtxRow Model.TtxRowStl.
Import ListNotations.
Open Scope N_scope.

Section StlRow.
  Variable D : Type.
  Variable dec : D -> N -> res (str * D).
  Variables (dtext : D -> N -> str) (dnext : D -> N -> D).
  Hypothesis dec_ok : forall d v, is_stext v = true -> dec d v = Ok (dtext d v, dnext d v).

  Notation step := (row_step stlx stlx D dec (Some stl_styler)).
  Notation fold := (row_fold stlx stlx D dec (Some stl_styler)).
  Notation app_item := (append_item stlx stlx (Some stl_styler)).

  Ltac cmp v :=
    repeat match goal with
           | |- context [N.eqb v ?k] => destruct (N.eqb_spec v k); try lia
           | |- context [N.ltb v ?k] => destruct (N.ltb_spec v k); try lia
           | |- context [N.leb ?k v] => destruct (N.leb_spec k v); try lia
           | |- context [N.leb v ?k] => destruct (N.leb_spec v k); try lia
           end.

  Lemma fold_app a b st : fold st (a ++ b) = (do st' <- fold st a; fold st' b).
  Proof.
    revert st. induction a as [|v r IH]; intros st; cbn [app row_fold bind]; [reflexivity|].
    destruct (step st v) as [st1| |]; cbn [bind]; [apply IH | reflexivity | reflexivity].
  Qed.

  Lemma is_sattr_false v : is_sattr v = false -> 8 <= v /\ (v < 12 \/ 15 < v) /\ (v < 128 \/ 133 < v).
  Proof.
    unfold is_sattr. intros H. apply orb_false_iff in H. destruct H as [H H3]. apply orb_false_iff in H. destruct H as [H1 H2].
    apply N.ltb_ge in H1. apply andb_false_iff in H2. apply andb_false_iff in H3.
    destruct H2 as [H2|H2]; apply N.leb_gt in H2; destruct H3 as [H3|H3]; apply N.leb_gt in H3; lia.
  Qed.
  Lemma is_sattr_true v : is_sattr v = true -> v < 8 \/ (12 <= v /\ v <= 15) \/ (128 <= v /\ v <= 133).
  Proof.
    unfold is_sattr. intros H. apply orb_true_iff in H. destruct H as [H|H]; [apply orb_true_iff in H; destruct H as [H|H]|].
    - apply N.ltb_lt in H. lia.
    - apply andb_true_iff in H. destruct H as [H1 H2]. apply N.leb_le in H1. apply N.leb_le in H2. lia.
    - apply andb_true_iff in H. destruct H as [H1 H2]. apply N.leb_le in H1. apply N.leb_le in H2. lia.
  Qed.

  Ltac stl_cbn := cbn [stl_styler sy_new sy_parse sy_set sy_changed sy_update sy_prop]; unfold stl_parse, stl_set, stl_changed, stl_update; cbn [stl_styler sy_new sy_parse sy_set sy_changed sy_update sy_prop stl_parse stl_set stl_changed stl_update stlx0
                       sx_boxing sx_italics sx_underline t_is_some t_opt_or fresh_ne orb andb negb opt_eqb
                       rs_started rs_l rs_li rs_d ti_text ti_sty ts_color ts_dh ts_ds ts_dw ts_x].

  (* outside the box: a cell that is neither an attribute nor a start box changes nothing *)
  Lemma step_outside l li d v : is_sattr v = false -> v <> 11 -> step (mkRowst l li false d) v = Ok (mkRowst l li false d).
  Proof.
    intros Ha H11. apply is_sattr_false in Ha. unfold row_step. stl_cbn. cmp v; stl_cbn; reflexivity.
  Qed.
  Lemma fold_outside l li d vs : forallb (fun v => negb (is_sattr v) && negb (v =? 11)) vs = true ->
    fold (mkRowst l li false d) vs = Ok (mkRowst l li false d).
  Proof.
    induction vs as [|v r IH]; intros H; cbn [row_fold]; [reflexivity|].
    cbn [forallb] in H. apply andb_true_iff in H. destruct H as [Hv Hr]. apply andb_true_iff in Hv. destruct Hv as [H1 H2].
    apply negb_true_iff in H1. apply negb_true_iff in H2. apply N.eqb_neq in H2.
    rewrite (step_outside l li d v H1 H2). cbn [bind]. apply IH. exact Hr.
  Qed.

  Lemma is_stext_cases v : is_stext v = true -> is_sattr v = false /\ v <> 10.
  Proof.
    unfold is_stext. intros H. apply andb_true_iff in H. destruct H as [H1 H2]. apply negb_true_iff in H1. apply negb_true_iff in H2.
    apply N.eqb_neq in H2. split; assumption.
  Qed.
  (* a start box (a text cell that gives whatever the decoder gives for it) *)
  Lemma step_box l txt s b d : step (mkRowst l (mkTitem txt s) b d) 11 = Ok (mkRowst l (mkTitem (txt ++ dtext d 11) s) true (dnext d 11)).
  Proof. unfold row_step. stl_cbn. cbn. rewrite (dec_ok d 11 eq_refl). reflexivity. Qed.
  Lemma step_endbox l li b d : step (mkRowst l li b d) 10 = Ok (mkRowst l li false d).
  Proof. unfold row_step. cbn. reflexivity. Qed.

  Lemma step_text l txt s d v : is_stext v = true ->
    step (mkRowst l (mkTitem txt s) true d) v = Ok (mkRowst l (mkTitem (txt ++ dtext d v) s) true (dnext d v)).
  Proof.
    intros H. pose proof (dec_ok d v H) as Dv. apply is_stext_cases in H. destruct H as [Ha H10]. apply is_sattr_false in Ha.
    unfold row_step. stl_cbn. cmp v; stl_cbn; rewrite Dv; reflexivity.
  Qed.
  Lemma fold_text l s vs : forall txt d, forallb is_stext vs = true ->
    fold (mkRowst l (mkTitem txt s) true d) vs
    = Ok (mkRowst l (mkTitem (txt ++ fst (stext D dtext dnext d vs)) s) true (snd (stext D dtext dnext d vs))).
  Proof.
    induction vs as [|v r IH]; intros txt d H; cbn [row_fold stext]; [cbn [fst snd]; rewrite app_nil_r; reflexivity|].
    cbn [forallb] in H. apply andb_true_iff in H. destruct H as [Hv Hr].
    rewrite (step_text l txt s d v Hv). cbn [bind]. rewrite (IH _ _ Hr).
    destruct (stext D dtext dnext (dnext d v) r) as [t d']. cbn [fst snd]. rewrite <- app_assoc. reflexivity.
  Qed.

  Lemma stl_update_new x : stl_update stlx0 x = x.
  Proof. destruct x. reflexivity. Qed.
  Lemma stl_changed_new x : stl_changed stlx0 x = stl_set x.
  Proof. destruct x as [[|] [|] [|]]; reflexivity. Qed.

  Lemma app_item_run l txt s : app_item l (mkTitem txt s) = l ++ srun_of txt s.
  Proof.
    destruct s as [a b d e x]. unfold append_item, srun_of. cbn [ti_text ti_sty ts_color ts_dh ts_ds ts_dw ts_x stl_styler sy_prop].
    destruct (trim_space txt) as [|y r]; [rewrite app_nil_r; reflexivity | reflexivity].
  Qed.

  (* an attribute while no text is pending (inside or outside the box): only the style changes *)
  Lemma step_attr_empty l s d v (b : bool) : is_sattr v = true ->
    step (mkRowst l (mkTitem [] s) b d) v = Ok (mkRowst l (mkTitem [] (sapply s v)) b d).
  Proof.
    intros H. apply is_sattr_true in H. unfold row_step, sapply.
    destruct s as [col dh ds dw [bx it un]]. destruct H as [H|[H|H]].
    - stl_cbn. cmp v. stl_cbn.
      destruct col as [k|]; stl_cbn; [|destruct b; unfold append_item; cbn; reflexivity].
      destruct (N.eqb_spec v k) as [-> | Hne]; stl_cbn.
      + destruct b, dh, ds, dw, bx, it, un; stl_cbn; unfold append_item; cbn; reflexivity.
      + destruct b; unfold append_item; cbn; reflexivity.
    - assert (Hv : v = 12 \/ v = 13 \/ v = 14 \/ v = 15) by lia.
      destruct b; destruct Hv as [-> | [-> | [-> | ->]]]; cbn; unfold append_item; cbn;
        destruct col, dh, ds, dw; reflexivity.
    - assert (Hv : v = 128 \/ v = 129 \/ v = 130 \/ v = 131 \/ v = 132 \/ v = 133) by lia.
      destruct b; destruct Hv as [-> | [-> | [-> | [-> | [-> | ->]]]]]; cbn; unfold append_item; cbn;
        destruct col, dh, ds, dw, bx, it, un; reflexivity.
  Qed.
  Lemma fold_attrs_empty l d vs (b : bool) : forall s, forallb is_sattr vs = true ->
    fold (mkRowst l (mkTitem [] s) b d) vs = Ok (mkRowst l (mkTitem [] (fold_left sapply vs s)) b d).
  Proof.
    induction vs as [|v r IH]; intros s H; cbn [row_fold fold_left]; [reflexivity|].
    cbn [forallb] in H. apply andb_true_iff in H. destruct H as [Hv Hr].
    rewrite (step_attr_empty l s d v b Hv). cbn [bind]. apply IH. exact Hr.
  Qed.
  Lemma fold_pre d vs : forall s, forallb (fun v => negb (v =? 11)) vs = true ->
    fold (mkRowst [] (mkTitem [] s) false d) vs = Ok (mkRowst [] (mkTitem [] (fold_left sapply (filter is_sattr vs) s)) false d).
  Proof.
    induction vs as [|v r IH]; intros s H; cbn [row_fold filter fold_left]; [reflexivity|].
    cbn [forallb] in H. apply andb_true_iff in H. destruct H as [Hv Hr]. apply negb_true_iff in Hv. apply N.eqb_neq in Hv.
    destruct (is_sattr v) eqn:A.
    - rewrite (step_attr_empty [] s d v false A). cbn [bind fold_left]. apply IH. exact Hr.
    - rewrite (step_outside [] (mkTitem [] s) d v A Hv). cbn [bind]. apply IH. exact Hr.
  Qed.

  (* an attribute that begins a new run: the pending text is flushed *)
  Lemma step_attr_effective l txt s d v : is_sattr v = true -> seffective s v = true ->
    step (mkRowst l (mkTitem txt s) true d) v = Ok (mkRowst (app_item l (mkTitem txt s)) (mkTitem [] (sapply s v)) true d).
  Proof.
    intros H E. apply is_sattr_true in H. unfold row_step, sapply, seffective in *.
    destruct s as [col dh ds dw [bx it un]]. destruct H as [H|[H|H]].
    - revert E. stl_cbn. cmp v. stl_cbn. intros E.
      match goal with |- (if ?c then _ else _) = _ => assert (Hc : c = true) end.
      { destruct (match col with Some y => v =? y | None => false end); stl_cbn; [|reflexivity]. cbn [negb orb] in E.
        destruct dh, ds, dw, bx, it, un; cbn in E |- *; try reflexivity; discriminate. }
      rewrite Hc. reflexivity.
    - assert (Hv : v = 12 \/ v = 13 \/ v = 14 \/ v = 15) by lia.
      destruct Hv as [-> | [-> | [-> | ->]]]; cbn; destruct col, dh, ds, dw; reflexivity.
    - assert (Hv : v = 128 \/ v = 129 \/ v = 130 \/ v = 131 \/ v = 132 \/ v = 133) by lia.
      destruct Hv as [-> | [-> | [-> | [-> | [-> | ->]]]]]; cbn; destruct col, dh, ds, dw, bx, it, un; reflexivity.
  Qed.

  Lemma ineffective_cases s v : is_sattr v = true -> seffective s v = false ->
    v < 8 /\ ts_color s = Some v /\ ts_dh s = None /\ ts_ds s = None /\ ts_dw s = None /\ ts_x s = stlx0.
  Proof.
    intros Ha He. apply is_sattr_true in Ha. unfold seffective in He.
    repeat (apply orb_false_iff in He; destruct He as [He ?]).
    apply N.leb_gt in He. destruct Ha as [Ha|[Ha|Ha]]; [|lia|lia]. split; [exact Ha|].
    match goal with H : negb (opt_eqb _ _) = false |- _ => apply negb_false_iff in H; rename H into Hc end.
    destruct (ts_color s) as [k|]; [|discriminate]. cbn [opt_eqb] in Hc. apply N.eqb_eq in Hc. subst k.
    destruct (ts_dh s), (ts_ds s), (ts_dw s); try discriminate.
    destruct (ts_x s) as [[|] [|] [|]]; try discriminate. repeat split.
  Qed.
  Lemma apply_ineffective s v : is_sattr v = true -> seffective s v = false -> sapply s v = s.
  Proof.
    intros Ha He. destruct (ineffective_cases s v Ha He) as (Hv & Hc & Hh & Hs & Hw & Hx). unfold sapply.
    destruct (N.ltb_spec v 8); [|lia]. destruct s as [col dh ds dw x]. cbn in *. subst. reflexivity.
  Qed.
  Lemma step_attr_ineffective l txt s d v : is_sattr v = true -> seffective s v = false ->
    step (mkRowst l (mkTitem txt s) true d) v = Ok (mkRowst l (mkTitem txt s) true d).
  Proof.
    intros Ha He. destruct (ineffective_cases s v Ha He) as (Hv & Hc & Hh & Hs & Hw & Hx).
    unfold row_step. destruct s as [col dh ds dw x]. cbn [ts_color ts_dh ts_ds ts_dw ts_x] in *. subst.
    stl_cbn. cmp v. stl_cbn. rewrite N.eqb_refl. reflexivity.
  Qed.

  Definition sseg_bytes (g : sseg) : list N := ss_codes g ++ ss_cells g.

  Lemma fold_codes l d cs : forall txt s, forallb is_sattr cs = true ->
    fold (mkRowst l (mkTitem txt s) true d) cs =
    Ok (if existsb (seffective s) cs
        then mkRowst (l ++ srun_of txt s) (mkTitem [] (fold_left sapply cs s)) true d
        else mkRowst l (mkTitem txt s) true d).
  Proof.
    induction cs as [|v r IH]; intros txt s H; cbn [row_fold existsb fold_left]; [reflexivity|].
    cbn [forallb] in H. apply andb_true_iff in H. destruct H as [Hv Hr].
    destruct (seffective s v) eqn:E; cbn [orb].
    - rewrite (step_attr_effective l txt s d v Hv E). cbn [bind]. rewrite app_item_run. apply fold_attrs_empty. exact Hr.
    - rewrite (step_attr_ineffective l txt s d v Hv E). cbn [bind]. rewrite (apply_ineffective s v Hv E). apply IH. exact Hr.
  Qed.

  Notation sseg_runs' := (sseg_runs D dtext dnext).

  Lemma fold_segs segs : forall l txt s d,
    forallb (fun g => forallb is_sattr (ss_codes g) && forallb is_stext (ss_cells g)) segs = true ->
    exists l' txt' s', fold (mkRowst l (mkTitem txt s) true d) (flat_map sseg_bytes segs)
                       = Ok (mkRowst l' (mkTitem txt' s') true (snd (sseg_runs' s txt d segs)))
                       /\ l' ++ srun_of txt' s' = l ++ fst (sseg_runs' s txt d segs).
  Proof.
    induction segs as [|g r IH]; intros l txt s d Hok.
    - exists l, txt, s. split; reflexivity.
    - cbn [forallb] in Hok. apply andb_true_iff in Hok. destruct Hok as [Hg Hr].
      apply andb_true_iff in Hg. destruct Hg as [Ha Ht].
      cbn [flat_map sseg_runs]. rewrite fold_app. unfold sseg_bytes at 1. rewrite fold_app. rewrite (fold_codes l d (ss_codes g) txt s Ha). cbn [bind].
      destruct (existsb (seffective s) (ss_codes g)).
      + rewrite (fold_text _ _ _ [] d Ht). cbn [bind app].
        destruct (stext D dtext dnext d (ss_cells g)) as [t d'] eqn:T. cbn [fst snd].
        destruct (IH (l ++ srun_of txt s) t (fold_left sapply (ss_codes g) s) d' Hr) as (l' & txt' & s' & E & R).
        destruct (sseg_runs' (fold_left sapply (ss_codes g) s) t d' r) as [runs d''] eqn:S. cbn [fst snd] in *.
        exists l', txt', s'. split; [exact E|]. rewrite R. rewrite <- app_assoc. reflexivity.
      + rewrite (fold_text _ _ _ txt d Ht). cbn [bind].
        destruct (stext D dtext dnext d (ss_cells g)) as [t d'] eqn:T. cbn [fst snd].
        destruct (IH l (txt ++ t) s d' Hr) as (l' & txt' & s' & E & R).
        exists l', txt', s'. split; [exact E | exact R].
  Qed.

  (* the row theorem for the STL reader's parameters: junk and attributes in front of the start box, groups of
     attributes (colour, size, italics/underline/boxing on and off) and of other cells, end box and junk or none *)
  Theorem stl_parse_row_encoded : forall d r, srow_ok r = true ->
    stl_parse_row dec d (srow_cells r) = Ok (srow_runs D dtext dnext d r).
  Proof.
    intros d r Hok. unfold srow_ok in Hok. apply andb_true_iff in Hok. destruct Hok as [Hok Hend].
    apply andb_true_iff in Hok. destruct Hok as [Hpre Hsegs].
    unfold stl_parse_row, parse_row, srow_cells, rowst0, srow_runs.
    rewrite fold_app. pose proof (fold_pre d (sr_pre r) (tsty0 stlx stlx0) Hpre) as Hp. fold (spre_style r) in Hp.
    rewrite Hp. cbn [bind row_fold]. rewrite step_box. cbn [bind app]. rewrite fold_app.
    destruct (fold_segs (sr_segs r) [] (dtext d 11) (spre_style r) (dnext d 11) Hsegs) as (l' & txt' & s' & E & R).
    replace (flat_map (fun g => ss_codes g ++ ss_cells g) (sr_segs r)) with (flat_map sseg_bytes (sr_segs r)) by reflexivity.
    rewrite E. cbn [bind]. cbn [app] in R.
    destruct (sseg_runs D dtext dnext (spre_style r) (dtext d 11) (dnext d 11) (sr_segs r)) as [runs dfin]. cbn [fst snd] in *.
    destruct (sr_end r) as [j|].
    - cbn [row_fold]. rewrite step_endbox. cbn [bind]. rewrite (fold_outside _ _ _ _ Hend). cbn [bind rs_l rs_li rs_d].
      rewrite app_item_run. rewrite R. reflexivity.
    - cbn [row_fold bind rs_l rs_li rs_d]. rewrite app_item_run. rewrite R. reflexivity.
  Qed.
End StlRow.

(* the hypothesis is satisfiable and the class non-trivial: a decoder that yields the byte itself for 0x20..0x7f and nothing
   otherwise; a row "\x80\x0bab \x81\x03cd\x0a!" = italics on in front of the box, "ab ", italics off + yellow, "cd" *)
Definition ex_stl_dec (d : unit) (v : N) : res (str * unit) := Ok (if (32 <=? v) && (v <? 128) then [v] else [], tt).
Definition ex_stl_row : srow := mkSrow [128] [mkSseg [] [97; 98; 32]; mkSseg [129; 3] [99; 100]] (Some [33]).
Example ex_stl_row_ok : srow_ok ex_stl_row = true. Proof. vm_compute. reflexivity. Qed.
Example ex_stl_row_parse :
  stl_parse_row ex_stl_dec tt (srow_cells ex_stl_row)
  = Ok ([mkTrun [97; 98] (mkTsty None None None None (mkStlx None (Some true) None)) 0 1;
         mkTrun [99; 100] (mkTsty (Some 3) None None None (mkStlx None (Some false) None)) 0 0], tt).
Proof.
  rewrite (stl_parse_row_encoded unit ex_stl_dec (fun _ v => if (32 <=? v) && (v <? 128) then [v] else []) (fun _ _ => tt)
             ltac:(intros [] v _; reflexivity) tt ex_stl_row ex_stl_row_ok).
  vm_compute. reflexivity.
Qed.
Print Assumptions stl_parse_row_encoded.
