(* Conversion EBU STL -> TTML over the models (Model/ConvStlTtml.v), styled: the cue list ReadFromSTL produced,
   written by WriteToTTML with the default indent and read back by ReadFromTTML, holds the same cues in the same
   order, times truncated to the millisecond, and per line EXACTLY the text [stl_to_plain] gives (the texts of the
   line's runs put together); the title, the language and the teletext colours (tts:color) come back too.
   Composition of the TTML write -> read theorems ([write_read_bytes], [write_read] + [parse2_written]) with the
   conversion.

   Representability.  The TTML theorems ask [repr_doc] (Proofs/TtmlDocSpec.v) of the value written.  It does NOT
   exclude anything of the shape [conv_stl_ttml] produces: metadata with a title and a language, several runs per
   line and colour attributes are all inside it.  On [conv_stl_ttml d] it amounts exactly to [stlttml_okb d]
   (lemma [stlttml_repr_eq]):
     - at least one cue (WriteToTTML returns ErrNoSubtitlesToWrite otherwise);
     - every start and end in [0, max_int64] ns.  ReadFromSTL subtracts the timecode start of programme from the
       TTI timecodes, so a cue in front of it has a NEGATIVE time: excluded (the TTML theorems do not cover the
       rendering of negative durations);
     - every cue has at least one line.  ReadFromSTL keeps a TTI block whose rows are all blank as an Item without
       lines; WriteToTTML writes it as an empty <p>, which ReadFromTTML reads as a cue with ONE empty line: the
       plain view is altered ([] becomes [[]]), so the exact statement cannot hold there: excluded;
     - no line feed inside a run's text (it would be read back as a line boundary).  The reader's texts come from
       the character tables, where the bytes below 0x20 are control codes (teletext rows) or an error (open rows).

   Text that is lost BEFORE the view compared here: the reader trims every run (appendTeletextLineItem /
   appendOpenSubtitleLineItem: strings.TrimSpace), and a spacing attribute between two runs - which occupies a
   blank cell on screen - is not text.  So the blank the STL FILE showed between two runs of a row is already gone
   in the reader's runs (TeletextSpacesBefore / After keep the counts, WriteToTTML does not look at them);
   [stl_to_plain] concatenates the run texts without it, and so does the TTML document read back: "hello" + "world"
   comes back as "helloworld" on both sides of the equality below. *)
From Coq Require Import List ZArith NArith Bool Lia String Ascii.
From Astisub Require Import Kit.Base Kit.Str Kit.Scan Kit.Xml Kit.XmlParse Kit.XmlParse2 Model.Dur Gen.StlTables Model.Stl Model.Ttml
  Model.Plain Model.PlainStl Model.PlainTtml Model.ConvStlTtml.
From Astisub Require Import Proofs.TtmlSpec Proofs.TtmlDocSpec Proofs.TtmlDoc Proofs.TtmlBytes Proofs.Parse2Written.
Import ListNotations.

(* ================= the view of the written document ================= *)
Lemma stlttml_line_text l : ttml_line_text (map stlttml_run l) = stl_line_text l.
Proof. unfold ttml_line_text, stl_line_text. rewrite map_map. reflexivity. Qed.

(* the value the written document denotes: the frame rate is not written, the language comes back when it is one of
   the library's five names, the colour attributes and the run structure are kept *)
Lemma stlttml_written_value d :
  written_value (conv_stl_ttml d)
  = mkDoc (Some (mkMeta 0 (rd_title d) [] (written_lang (rd_lang d)))) [] []
          (map (fun it => mkItem (trunc_ms (ri_st it)) (trunc_ms (ri_en it)) None None no_attrs
                                 (map (map stlttml_run) (ri_lines it))) (rd_items d)).
Proof. unfold written_value, conv_stl_ttml. cbn [td_meta td_styles td_regions td_items written_meta tm_title tm_copyright tm_lang]. rewrite map_map. reflexivity. Qed.

Lemma stlttml_to_plain_written d :
  ttml_to_plain (written_value (conv_stl_ttml d)) = ptrunc 1000000 (stl_to_plain d).
Proof.
  rewrite stlttml_written_value. unfold ttml_to_plain, stl_to_plain, ptrunc. cbn [td_items]. rewrite !map_map.
  apply map_ext. intros it. cbn [ti_st ti_en ti_lines]. unfold trunc_ms, trunc_to. f_equal.
  rewrite map_map. apply map_ext. intros l. apply stlttml_line_text.
Qed.

(* ================= representability ================= *)
Definition stlttml_item_okb (it : ritem) : bool :=
  (0 <=? ri_st it)%Z && (ri_st it <=? max_int64)%Z && (0 <=? ri_en it)%Z && (ri_en it <=? max_int64)%Z
  && negb (null (ri_lines it)) && forallb (forallb (fun r => no_nl (ru_text r))) (ri_lines it).
Definition stlttml_okb (d : rdoc) : bool := negb (null (rd_items d)) && forallb stlttml_item_okb (rd_items d).
Definition stlttml_ok (d : rdoc) : Prop := stlttml_okb d = true.

Lemma stlttml_attrs_ok a : attrs_ok (stlttml_attrs a) = true.
Proof. unfold stlttml_attrs. destruct (a_col a) as [c|]; [destruct (stlttml_colour c) as [col|]|]; reflexivity. Qed.

Lemma stlttml_null_map {A B} (f : A -> B) (l : list A) : null (map f l) = null l.
Proof. destruct l; reflexivity. Qed.

Lemma stlttml_forallb_map {A B} (p : B -> bool) (f : A -> B) (l : list A) :
  forallb p (map f l) = forallb (fun x => p (f x)) l.
Proof. induction l as [|x r IH]; [reflexivity|]. cbn [map forallb]. rewrite IH. reflexivity. Qed.

Lemma stlttml_forallb_ext {A} (p q : A -> bool) (l : list A) :
  (forall x, p x = q x) -> forallb p l = forallb q l.
Proof. intros Hpq. induction l as [|x r IH]; [reflexivity|]. cbn [forallb]. rewrite IH, Hpq. reflexivity. Qed.

Lemma stlttml_run_ok r : run_ok (@nil (str * tstyle)) (stlttml_run r) = no_nl (ru_text r).
Proof.
  unfold run_ok, stlttml_run. cbn [tr_txt tr_style tr_attrs ref_in]. rewrite stlttml_attrs_ok. rewrite !andb_true_r.
  reflexivity.
Qed.

Lemma stlttml_item_ok it :
  item_ok (@nil (str * tstyle)) (@nil (str * tstyle)) (stlttml_item it) = stlttml_item_okb it.
Proof.
  unfold item_ok, stlttml_item, stlttml_item_okb. cbn [ti_st ti_en ti_region ti_style ti_attrs ti_lines ref_in].
  change (attrs_ok no_attrs) with true. rewrite !andb_true_r. rewrite stlttml_null_map. f_equal.
  rewrite stlttml_forallb_map. apply stlttml_forallb_ext. intros l. rewrite stlttml_forallb_map. apply stlttml_forallb_ext.
  intros r. apply stlttml_run_ok.
Qed.

(* [repr_doc] on a converted document is exactly [stlttml_okb]: nothing [conv_stl_ttml] produces (metadata with a
   language, several runs per line, colour attributes) is outside the TTML theorems *)
Lemma stlttml_repr_eq d : repr_doc (conv_stl_ttml d) = stlttml_okb d.
Proof.
  unfold repr_doc, conv_stl_ttml, stlttml_okb. cbn [td_items td_styles td_regions].
  change (map_ok []) with true. cbn [forallb]. rewrite !andb_true_r. rewrite stlttml_null_map. f_equal.
  rewrite stlttml_forallb_map. apply stlttml_forallb_ext. intros it. apply stlttml_item_ok.
Qed.

(* ================= the colour index on reader outputs ================= *)
(* ReadFromSTL only ever sets a teletext colour from a spacing attribute 0x00..0x07 (teletext rows; open rows set
   none), so every [a_col] of a document it returns is None or an index up to 7 *)
Definition stlttml_col_ok (a : sattr_stl) : Prop := match a_col a with Some c => (c <= 7)%N | None => True end.
Definition stlttml_run_col_ok (r : erun) : Prop := stlttml_col_ok (ru_at r).

Lemma stlttml_sty_update_col a c : stlttml_col_ok a -> stlttml_col_ok (sty_update a c).
Proof.
  intros Ha. destruct c as [k b]. unfold sty_update. destruct (k =? 0)%N; [exact Ha|]. destruct (k =? 1)%N; exact Ha.
Qed.
Lemma stlttml_append_ttx_col items text a :
  Forall stlttml_run_col_ok items -> stlttml_col_ok a -> Forall stlttml_run_col_ok (stl_append_ttx items text a).
Proof.
  intros Hi Ha. unfold stl_append_ttx. destruct (trim_space text) as [|c t]; [exact Hi|]. constructor; [exact Ha | exact Hi].
Qed.
Lemma stlttml_forall_rev {A} (P : A -> Prop) l : Forall P l -> Forall P (rev l).
Proof. intros H. apply Forall_forall. intros x Hx. apply in_rev in Hx. revert x Hx. apply Forall_forall. exact H. Qed.

Lemma stlttml_ttx_row_col : forall row items text a started acc,
  Forall stlttml_run_col_ok items -> stlttml_col_ok a ->
  Forall stlttml_run_col_ok (fst (stl_ttx_row row items text a started acc)).
Proof.
  induction row as [|v r IH]; intros items text a started acc Hi Ha.
  - cbn [stl_ttx_row fst]. apply stlttml_forall_rev. apply stlttml_append_ttx_col; assumption.
  - cbn [stl_ttx_row]. cbv zeta.
    set (color := if (v <=? 7)%N then Some v else None).
    set (st' := if (v =? 10)%N then false else if (v =? 11)%N then true else started).
    set (sc := if ((v <=? 7)%N || ((10 <=? v)%N && (v <=? 15)%N)) then None else sty_code v).
    assert (Hcol : match color with Some c => (c <= 7)%N | None => True end).
    { unfold color. destruct (v <=? 7)%N eqn:Hv; [apply N.leb_le in Hv; exact Hv | exact I]. }
    clearbody color st' sc.
    match goal with |- context [if ?b then _ else _] => destruct b end.
    + match goal with |- context [if ?b then _ else _] => destruct b end.
      * apply IH.
        -- destruct st'; [apply stlttml_append_ttx_col; assumption | exact Hi].
        -- destruct sc as [c|]; [apply stlttml_sty_update_col|];
             (unfold stlttml_col_ok; cbn [a_col]; destruct color as [c'|]; [exact Hcol | exact Ha]).
      * apply IH; assumption.
    + destruct st'.
      * destruct (decode1 acc v) as [o acc']. apply IH; assumption.
      * apply IH; assumption.
Qed.

Lemma stlttml_append_open_col items text a :
  Forall stlttml_run_col_ok items -> stlttml_col_ok a -> Forall stlttml_run_col_ok (append_open items text a).
Proof.
  intros Hi Ha. unfold append_open. destruct (trim_space text) as [|c t]; [exact Hi|]. constructor; [exact Ha | exact Hi].
Qed.
Lemma stlttml_open_row_col : forall row items text a acc l acc',
  Forall stlttml_run_col_ok items -> stlttml_col_ok a ->
  open_row row items text a acc = Ok (l, acc') -> Forall stlttml_run_col_ok l.
Proof.
  induction row as [|v r IH]; intros items text a acc l acc' Hi Ha Hrow.
  - cbn [open_row] in Hrow. inversion Hrow; subst. apply stlttml_forall_rev. apply stlttml_append_open_col; assumption.
  - cbn [open_row] in Hrow. destruct (v <=? 31)%N; [discriminate|]. destruct (sty_code v) as [c|].
    + eapply IH; [| |exact Hrow]; [apply stlttml_append_open_col; assumption | apply stlttml_sty_update_col; exact Ha].
    + destruct (decode1 acc v) as [o acc1]. eapply IH; [| |exact Hrow]; assumption.
Qed.

Definition stlttml_lines_col_ok (ls : list (list erun)) : Prop := Forall (Forall stlttml_run_col_ok) ls.
Lemma stlttml_sattr0_col : stlttml_col_ok sattr0_stl. Proof. exact I. Qed.
Lemma stlttml_push_line l lines :
  Forall stlttml_run_col_ok l -> stlttml_lines_col_ok lines ->
  stlttml_lines_col_ok (match l with [] => lines | _ => l :: lines end).
Proof. intros Hl Hls. destruct l as [|x t]; [exact Hls|]. constructor; assumption. Qed.

Lemma stlttml_rows_ttx_col : forall rows acc lines,
  stlttml_lines_col_ok lines -> stlttml_lines_col_ok (fst (rows_ttx rows acc lines)).
Proof.
  induction rows as [|row r IH]; intros acc lines Hls.
  - cbn [rows_ttx fst]. apply stlttml_forall_rev. exact Hls.
  - cbn [rows_ttx]. cbv zeta.
    match goal with |- context [stl_ttx_row ?rw [] [] sattr0_stl false acc] =>
      pose proof (stlttml_ttx_row_col rw [] [] sattr0_stl false acc (Forall_nil _) stlttml_sattr0_col) as Hrow;
      destruct (stl_ttx_row rw [] [] sattr0_stl false acc) as [l acc1] end.
    cbn [fst] in Hrow. apply IH. apply stlttml_push_line; assumption.
Qed.
Lemma stlttml_rows_open_col : forall rows acc lines ls acc',
  stlttml_lines_col_ok lines -> rows_open rows acc lines = Ok (ls, acc') -> stlttml_lines_col_ok ls.
Proof.
  induction rows as [|row r IH]; intros acc lines ls acc' Hls Hrows.
  - cbn [rows_open] in Hrows. inversion Hrows; subst. apply stlttml_forall_rev. exact Hls.
  - cbn [rows_open] in Hrows. destruct (open_row row [] [] sattr0_stl acc) as [[l acc1]|k|p] eqn:Hrow; cbn [bind] in Hrows; try discriminate.
    eapply IH; [|exact Hrows]. apply stlttml_push_line; [|exact Hls].
    eapply stlttml_open_row_col; [apply Forall_nil | exact stlttml_sattr0_col | exact Hrow].
Qed.

Definition stlttml_item_col_ok (it : ritem) : Prop := stlttml_lines_col_ok (ri_lines it).
Lemma stlttml_tti_loop_col : forall fuel data g tcp acc items l,
  Forall stlttml_item_col_ok items -> tti_loop fuel data g tcp acc items = Ok l -> Forall stlttml_item_col_ok l.
Proof.
  induction fuel as [|f IH]; intros data g tcp acc items l Hi Hloop; [discriminate|].
  cbn [tti_loop] in Hloop. destruct (read_n 128 data []) as [p rest x| |].
  - cbv zeta in Hloop. destruct (t_ebn (parse_tti p (g_fps g)) =? 254)%Z; [eapply IH; eassumption|].
    destruct (str_eqb (g_dsc g) stl_s_dscOpen).
    + destruct (rows_open (split_byte 138 (t_text (parse_tti p (g_fps g)))) acc []) as [[ls acc1]|k|pp] eqn:Hrows;
        cbn [bind] in Hloop; try discriminate.
      eapply IH; [|exact Hloop]. constructor; [|exact Hi]. unfold stlttml_item_col_ok, item_of. cbn [ri_lines].
      eapply stlttml_rows_open_col; [apply Forall_nil | exact Hrows].
    + pose proof (stlttml_rows_ttx_col (split_byte 138 (t_text (parse_tti p (g_fps g)))) acc [] (Forall_nil _)) as Hrows.
      destruct (rows_ttx (split_byte 138 (t_text (parse_tti p (g_fps g)))) acc []) as [ls acc1]. cbn [fst] in Hrows.
      eapply IH; [|exact Hloop]. constructor; [|exact Hi]. unfold stlttml_item_col_ok, item_of. cbn [ri_lines]. exact Hrows.
  - inversion Hloop; subst. apply stlttml_forall_rev. exact Hi.
  - discriminate.
Qed.

Theorem stlttml_read_col : forall ign data d, read_stl ign data = Ok d -> Forall stlttml_item_col_ok (rd_items d).
Proof.
  intros ign data d Hrd. unfold read_stl in Hrd. destruct (read_n 1024 data []) as [b rest x| |]; try discriminate.
  destruct (parse_gsi b) as [g|k|p]; cbn [bind] in Hrd; try discriminate.
  destruct (negb (nmem (g_cct g) stl_tables_existing)); [discriminate|]. cbv zeta in Hrd.
  destruct (tti_loop (S (Datatypes.length rest)) rest g (if ign then 0%Z else g_tcp g) None []) as [items|k|p] eqn:Hloop;
    cbn [bind] in Hrd; try discriminate.
  inversion Hrd; subst. cbn [rd_items]. eapply stlttml_tti_loop_col; [apply Forall_nil | exact Hloop].
Qed.

(* every colour the reader sets has a TTML string: on reader outputs [stlttml_attrs] never takes its "not a colour"
   branch, a run with a teletext colour in force always gets tts:color *)
Lemma stlttml_colour_total a c :
  stlttml_col_ok a -> a_col a = Some c ->
  exists col, stlttml_colour c = Some col /\ stlttml_attrs a = stlttml_colour_attrs col.
Proof.
  intros Ha Hc. unfold stlttml_col_ok in Ha. rewrite Hc in Ha. unfold stlttml_attrs. rewrite Hc.
  assert (Hcases : (c = 0 \/ c = 1 \/ c = 2 \/ c = 3 \/ c = 4 \/ c = 5 \/ c = 6 \/ c = 7)%N) by lia.
  destruct Hcases as [E|[E|[E|[E|[E|[E|[E|E]]]]]]]; subst c; eexists; split; reflexivity.
Qed.

(* ================= the theorems ================= *)
(* STL cue list -> TTML bytes -> read back (XML parser model of Kit/XmlParse.v) *)
Theorem conversion_stl_ttml_styled : forall d : rdoc,
  repr_doc (conv_stl_ttml d) = true ->
  exists dst, write_ttml_bytes ttml_default_indent (conv_stl_ttml d) = Ok dst /\
              ttml_dec dst = Ok (ptrunc 1000000 (stl_to_plain d)).
Proof.
  intros d Hr. destruct (write_read_bytes (conv_stl_ttml d) ttml_default_indent Hr eq_refl) as (b & t & Hw & Hx & Hread).
  exists b. split; [exact Hw|]. unfold ttml_dec, dec_with, read_ttml_bytes. rewrite Hx, Hread. f_equal.
  apply stlttml_to_plain_written.
Qed.

(* the same, with the document read back itself: title, language, colours and run boundaries are there *)
Theorem conversion_stl_ttml_styled_doc : forall d : rdoc,
  repr_doc (conv_stl_ttml d) = true ->
  exists dst, write_ttml_bytes ttml_default_indent (conv_stl_ttml d) = Ok dst /\
              read_ttml_bytes dst
              = Ok (mkDoc (Some (mkMeta 0 (rd_title d) [] (written_lang (rd_lang d)))) [] []
                          (map (fun it => mkItem (trunc_ms (ri_st it)) (trunc_ms (ri_en it)) None None no_attrs
                                                 (map (map stlttml_run) (ri_lines it))) (rd_items d))).
Proof.
  intros d Hr. destruct (write_read_bytes (conv_stl_ttml d) ttml_default_indent Hr eq_refl) as (b & t & Hw & Hx & Hread).
  exists b. split; [exact Hw|]. unfold read_ttml_bytes. rewrite Hx, Hread. f_equal. apply stlttml_written_value.
Qed.

(* the same with the decoder over the XML parser model for hand-written documents (Kit/XmlParse2.v) *)
Theorem conversion_stl_ttml_styled2 : forall d : rdoc,
  repr_doc (conv_stl_ttml d) = true ->
  exists dst, write_ttml_bytes ttml_default_indent (conv_stl_ttml d) = Ok dst /\
              ttml_dec2 dst = Ok (ptrunc 1000000 (stl_to_plain d)).
Proof.
  intros d Hr. destruct (write_read (conv_stl_ttml d) ttml_default_indent Hr eq_refl) as (t0 & Hw & Hread).
  assert (Hb : write_ttml_bytes ttml_default_indent (conv_stl_ttml d) = Ok (print_node print_name ttml_default_indent 0 t0))
    by (unfold write_ttml_bytes; rewrite Hw; reflexivity).
  assert (Hi : indent_ok ttml_default_indent = true) by reflexivity.
  destruct (parse2_written (conv_stl_ttml d) ttml_default_indent _ Hi Hb) as (t1 & Hw1 & Hp2).
  rewrite Hw in Hw1. inversion Hw1; subst t1.
  exists (print_node print_name ttml_default_indent 0 t0). split; [exact Hb|].
  unfold ttml_dec2, dec_with, read_ttml_bytes2. rewrite Hp2, Hread. f_equal. apply stlttml_to_plain_written.
Qed.

(* stated on the cue list alone *)
Corollary conversion_stl_ttml_styled_ok : forall d : rdoc,
  stlttml_ok d ->
  exists dst, write_ttml_bytes ttml_default_indent (conv_stl_ttml d) = Ok dst /\
              ttml_dec dst = Ok (ptrunc 1000000 (stl_to_plain d)).
Proof. intros d Hd. apply conversion_stl_ttml_styled. rewrite stlttml_repr_eq. exact Hd. Qed.

(* file to file: an STL file the reader accepts, converted, read back *)
Corollary conversion_stl_ttml_styled_file : forall (ign : bool) (data : str) (d : rdoc),
  read_stl ign data = Ok d ->
  repr_doc (conv_stl_ttml d) = true ->
  exists dst, convert_stl_ttml ign data = Ok dst /\
              ttml_dec dst = Ok (ptrunc 1000000 (stl_to_plain d)).
Proof.
  intros ign data d Hrd Hr. destruct (conversion_stl_ttml_styled d Hr) as (dst & Hw & Hdec).
  exists dst. split; [|exact Hdec]. unfold convert_stl_ttml. rewrite Hrd. exact Hw.
Qed.

(* the same through the plain views of both sides: what the STL decoder gives for the source is, to the
   millisecond, what the TTML decoder gives for the destination *)
Corollary conversion_stl_ttml_styled_plain : forall (data : str) (d : rdoc),
  read_stl false data = Ok d ->
  stlttml_ok d ->
  exists dst p, convert_stl_ttml false data = Ok dst /\ stl_dec data = Ok p /\
                ttml_dec dst = Ok (ptrunc 1000000 p).
Proof.
  intros data d Hrd Hd. assert (Hr : repr_doc (conv_stl_ttml d) = true) by (rewrite stlttml_repr_eq; exact Hd).
  destruct (conversion_stl_ttml_styled_file false data d Hrd Hr) as (dst & Hc & Hdec).
  exists dst, (stl_to_plain d). split; [exact Hc|]. split; [|exact Hdec].
  unfold stl_dec, dec_with. rewrite Hrd. reflexivity.
Qed.

(* ================= an instance ================= *)
(* byte strings from literals, for the example only *)
Definition stlttml_lit (s : string) : str := map N_of_ascii (list_ascii_of_string s).
Definition stlttml_ex_run (t : string) (col : option N) : erun :=
  mkErun (stlttml_lit t) (mkSattrStl None None None col None None None) (Some 0%N) (Some 0%N).
(* two cues as ReadFromSTL returns them: title "T", language "english" (code 09), 25 frames per second, teletext
   level 1; cue 1 has a line of two runs, the second one red (a_col = Some 1), and a second line; cue 2 ends off the
   millisecond grid and its text needs escaping, in green *)
Definition stlttml_ex : rdoc :=
  mkRdoc 25 [] [] (stlttml_lit "1") [] [] 40 23 [] [] [] 0 [] [] [] [] [] (stlttml_lit "T") 0 (stlttml_lit "english")
    [ mkRitem 1000000000 2000000000 2 20 23 2 (stlttml_lit "left") (stlttml_lit "82%")
        [ [stlttml_ex_run "hello" None; stlttml_ex_run "world" (Some 1%N)]; [stlttml_ex_run "two" None] ];
      mkRitem 3600000000000 3661001999999 3 22 23 1 [] (stlttml_lit "91%")
        [ [stlttml_ex_run "a < b & c" (Some 2%N)] ] ]%Z.

(* the colour strings: "#" + Sprintf("%.6x", ...) of ColorBlack .. ColorWhite in teletext order *)
Example stlttml_ex_colours :
  map stlttml_colour [0; 1; 2; 3; 4; 5; 6; 7; 8]%N
  = [Some (stlttml_lit "#000000"); Some (stlttml_lit "#ff0000"); Some (stlttml_lit "#008000");
     Some (stlttml_lit "#ffff00"); Some (stlttml_lit "#0000ff"); Some (stlttml_lit "#ff00ff");
     Some (stlttml_lit "#00ffff"); Some (stlttml_lit "#ffffff"); None].
Proof. vm_compute. reflexivity. Qed.

(* the bytes of the conversion: the shape observed on the library (head with metadata > ttm:title, empty styling
   and layout, one span per run, <br></br> between lines, 4 blanks of indent), plus tts:color on the coloured runs *)
Example stlttml_ex_bytes :
  write_ttml_bytes ttml_default_indent (conv_stl_ttml stlttml_ex) = Ok (stlttml_lit
"<tt xmlns=""http://www.w3.org/ns/ttml"" xml:lang=""en"" xmlns:ttm=""http://www.w3.org/ns/ttml#metadata"" xmlns:tts=""http://www.w3.org/ns/ttml#styling"">
    <head>
        <metadata>
            <ttm:title>T</ttm:title>
        </metadata>
        <styling></styling>
        <layout></layout>
    </head>
    <body>
        <div>
            <p begin=""00:00:01.000"" end=""00:00:02.000"">
                <span>hello</span>
                <span tts:color=""#ff0000"">world</span>
                <br></br>
                <span>two</span>
            </p>
            <p begin=""01:00:00.000"" end=""01:01:01.001"">
                <span tts:color=""#008000"">a &lt; b &amp; c</span>
            </p>
        </div>
    </body>
</tt>").
Proof. vm_compute. reflexivity. Qed.

Example stlttml_ex_ok : stlttml_ok stlttml_ex.
Proof. vm_compute. reflexivity. Qed.
Example stlttml_ex_repr : repr_doc (conv_stl_ttml stlttml_ex) = true.
Proof. vm_compute. reflexivity. Qed.

(* the theorem's conclusion on the instance, the plain view spelled out: "hello" + "world" is one line *)
Example stlttml_ex_conversion :
  exists dst, write_ttml_bytes ttml_default_indent (conv_stl_ttml stlttml_ex) = Ok dst /\
              ttml_dec dst = Ok [ (1000000000, 2000000000, [stlttml_lit "helloworld"; stlttml_lit "two"]);
                                  (3600000000000, 3661001000000, [stlttml_lit "a < b & c"]) ]%Z.
Proof.
  destruct (conversion_stl_ttml_styled stlttml_ex stlttml_ex_repr) as (dst & Hw & Hdec).
  exists dst. split; [exact Hw|]. rewrite Hdec. vm_compute. reflexivity.
Qed.

(* and by computation alone: the decoder run on the bytes above *)
Example stlttml_ex_decoded :
  (do b <- write_ttml_bytes ttml_default_indent (conv_stl_ttml stlttml_ex); ttml_dec b)
  = Ok (ptrunc 1000000 (stl_to_plain stlttml_ex)).
Proof. vm_compute. reflexivity. Qed.

(* ================= the library's bytes exactly (EscapeText with U+FFFD) ================= *)
From Astisub Require Import Kit.XmlEsc Model.TtmlGo Proofs.TtmlLegal.

Lemma stlttml_attrs_legal a : legal_attrs (stlttml_attrs a) = true.
Proof.
  unfold stlttml_attrs. destruct (a_col a) as [c|]; [|reflexivity].
  destruct (stlttml_colour c) as [col|] eqn:Ec; [|reflexivity].
  assert (Hall : forall c0, match stlttml_colour c0 with Some col0 => xml_legal col0 | None => true end = true).
  { intros c0. destruct c0 as [|p0]; [reflexivity|].
    destruct p0 as [p1|p1|]; [| |reflexivity];
      (destruct p1 as [p2|p2|]; [| |reflexivity]; (destruct p2 as [p3|p3|]; reflexivity)). }
  specialize (Hall c). rewrite Ec in Hall.
  unfold stlttml_colour_attrs, legal_attrs. cbn [ta_s forallb legal_ostr]. rewrite Hall. reflexivity.
Qed.

Lemma stlttml_legal_doc d : stlttml_legalb d = true -> legal_doc (conv_stl_ttml d) = true.
Proof.
  unfold stlttml_legalb, legal_doc, conv_stl_ttml. cbn [td_meta td_styles td_regions td_items tm_title tm_copyright forallb].
  intros H. apply andb_true_iff in H. destruct H as [Ht Hi]. rewrite Ht.
  assert (Hc : xml_legal [] = true) by reflexivity. rewrite Hc. cbn [andb].
  rewrite stlttml_forallb_map. rewrite <- Hi. apply stlttml_forallb_ext. intros it.
  unfold legal_item, stlttml_item. cbn [ti_region ti_style ti_attrs ti_lines legal_ostr].
  assert (Hn : legal_attrs no_attrs = true) by reflexivity. rewrite Hn. cbn [andb].
  rewrite stlttml_forallb_map. apply stlttml_forallb_ext. intros l.
  rewrite stlttml_forallb_map. apply stlttml_forallb_ext. intros r.
  unfold legal_run, stlttml_run. cbn [tr_txt tr_style tr_attrs legal_ostr]. rewrite stlttml_attrs_legal.
  rewrite !andb_true_r. reflexivity.
Qed.

(* on XML-legal cue lists the library's bytes are the bytes of [convert_stl_ttml] *)
Theorem convert_stl_ttml_go_legal : forall ign data d,
  read_stl ign data = Ok d -> stlttml_ok d -> stlttml_legalb d = true ->
  convert_stl_ttml_go ign data = convert_stl_ttml ign data.
Proof.
  intros ign data d Hrd Hok Hl. unfold convert_stl_ttml_go, convert_stl_ttml. rewrite Hrd. cbn [bind].
  apply write_ttml_bytes_go_legal; [rewrite stlttml_repr_eq; exact Hok|apply stlttml_legal_doc; exact Hl].
Qed.

(* file to file with the library's bytes: an STL file the reader accepts whose cue list is representable and
   XML-legal, converted, read back *)
Theorem conversion_stl_ttml_styled_go : forall (ign : bool) (data : str) (d : rdoc),
  read_stl ign data = Ok d -> stlttml_ok d -> stlttml_legalb d = true ->
  exists dst, convert_stl_ttml_go ign data = Ok dst /\
              ttml_dec dst = Ok (ptrunc 1000000 (stl_to_plain d)).
Proof.
  intros ign data d Hrd Hok Hl. rewrite (convert_stl_ttml_go_legal ign data d Hrd Hok Hl).
  apply conversion_stl_ttml_styled_file; [exact Hrd|rewrite stlttml_repr_eq; exact Hok].
Qed.
