(* ApplyLinearCorrection: the binary64 evaluation stays within 3 ns of the exact affine map,
   and is monotone in t.  General sign case (a1 < a2 or a2 < a1), slope in [1/2, 2]. *)
From Coq Require Import ZArith Reals Lia Lra Psatz Bool.
From Flocq Require Import Core BinarySingleNaN.
From Astisub Require Import Kit.Float64 Model.Lin Proofs.FracFloatProofs.
Open Scope R_scope.

Definition day : Z := 86400000000000%Z.
Definition in_day (z : Z) : Prop := (0 <= z <= day)%Z.

(* exact slope (d2-d1)/(a2-a1) lies in [1/2, 2]; both orientations of the two anchor points *)
Definition slope_ok (a1 d1 a2 d2 : Z) : Prop :=
  (a1 < a2 /\ a2 - a1 <= 2 * (d2 - d1) <= 4 * (a2 - a1))%Z \/
  (a2 < a1 /\ a1 - a2 <= 2 * (d1 - d2) <= 4 * (a1 - a2))%Z.

(* ---------------------------------------------------------------- *)
(* generic facts                                                      *)

(* absolute rounding error: |x| <= 2^e  ->  |RN x - x| <= 2^(e-53) *)
Lemma RN_abs_err : forall (x : R) (e : Z), (-1022 <= e)%Z ->
  Rabs x <= bpow radix2 e -> Rabs (RN x - x) <= bpow radix2 (e - 53).
Proof.
  intros x e He Hx.
  apply Rle_trans with (/ 2 * ulp radix2 fexp x).
  - apply (error_le_half_ulp radix2 fexp (fun n => negb (Z.even n)) x).
  - assert (Hu : ulp radix2 fexp x <= ulp radix2 fexp (bpow radix2 e)).
    { apply ulp_le; auto with typeclass_instances.
      rewrite (Rabs_pos_eq (bpow radix2 e)); [exact Hx | apply bpow_ge_0]. }
    rewrite ulp_bpow in Hu.
    replace (fexp (e + 1)) with (e - 53 + 1)%Z in Hu
      by (unfold FLT_exp, prec, emax; lia).
    rewrite bpow_plus in Hu. change (bpow radix2 1) with 2 in Hu.
    lra.
Qed.

Lemma Ztrunc_err : forall x : R, Rabs (IZR (Ztrunc x) - x) < 1.
Proof.
  intros x. destruct (Rle_or_lt 0 x) as [H|H].
  - rewrite Ztrunc_floor by exact H.
    pose proof (Zfloor_lb x). pose proof (Zfloor_ub x).
    apply Rabs_def1; lra.
  - rewrite Ztrunc_ceil by lra.
    pose proof (Zceil_lb x). pose proof (Zceil_ub x).
    apply Rabs_def1; lra.
Qed.

Lemma IZR_day : forall z : Z, in_day z -> 0 <= IZR z <= 86400000000000.
Proof. intros z [H1 H2]. unfold day in H2. split; apply IZR_le; assumption. Qed.

Lemma of_Z_day : forall z : Z, in_day z ->
  B2R (of_Z z) = IZR z /\ is_finite (of_Z z) = true.
Proof. intros z [H1 H2]. unfold day in H2. apply of_Z_correct. lia. Qed.

(* ---------------------------------------------------------------- *)
(* the slope                                                          *)

Definition slope (a1 d1 a2 d2 : Z) : R := IZR (d2 - d1) / IZR (a2 - a1).

Lemma slope_bounds : forall a1 d1 a2 d2 : Z, slope_ok a1 d1 a2 d2 ->
  / 2 <= slope a1 d1 a2 d2 <= 2.
Proof.
  intros a1 d1 a2 d2 H. unfold slope.
  set (A := (a2 - a1)%Z) in *. set (D := (d2 - d1)%Z) in *.
  destruct H as [[H1 [H2 H3]] | [H1 [H2 H3]]].
  - assert (HA : 0 < IZR A) by (apply IZR_lt; unfold A; lia).
    assert (B1 : IZR A <= 2 * IZR D).
    { rewrite <- mult_IZR. apply IZR_le. exact H2. }
    assert (B2 : 2 * IZR D <= 4 * IZR A).
    { rewrite <- 2!mult_IZR. apply IZR_le. exact H3. }
    split.
    + apply Rmult_le_reg_r with (IZR A); [exact HA|].
      unfold Rdiv. rewrite Rmult_assoc, Rinv_l by lra. lra.
    + apply Rmult_le_reg_r with (IZR A); [exact HA|].
      unfold Rdiv. rewrite Rmult_assoc, Rinv_l by lra. lra.
  - assert (HA : 0 < - IZR A) by (rewrite <- opp_IZR; apply IZR_lt; unfold A; lia).
    assert (B1 : - IZR A <= 2 * - IZR D).
    { rewrite <- 2!opp_IZR, <- mult_IZR. apply IZR_le. unfold A, D. lia. }
    assert (B2 : 2 * - IZR D <= 4 * - IZR A).
    { rewrite <- 2!opp_IZR, <- 2!mult_IZR. apply IZR_le. unfold A, D. lia. }
    replace (IZR D / IZR A) with (- IZR D / - IZR A) by (field; lra).
    split.
    + apply Rmult_le_reg_r with (- IZR A); [exact HA|].
      unfold Rdiv. rewrite Rmult_assoc, Rinv_l by lra. lra.
    + apply Rmult_le_reg_r with (- IZR A); [exact HA|].
      unfold Rdiv. rewrite Rmult_assoc, Rinv_l by lra. lra.
Qed.

Lemma pow2_m52 : bpow radix2 (-52) = / 4503599627370496.
Proof. reflexivity. Qed.
Lemma pow2_m5 : bpow radix2 (-5) = / 32.
Proof. reflexivity. Qed.
Lemma pow2_m4 : bpow radix2 (-4) = / 16.
Proof. reflexivity. Qed.
Lemma pow2_48 : bpow radix2 48 = 281474976710656.
Proof. reflexivity. Qed.
Lemma pow2_49 : bpow radix2 49 = 562949953421312.
Proof. reflexivity. Qed.

(* the computed slope: finite, equals RN(s), within 2^-52 of s, and in [1/2, 2] *)
Lemma lin_a_correct : forall a1 d1 a2 d2 : Z,
  in_day a1 -> in_day d1 -> in_day a2 -> in_day d2 -> slope_ok a1 d1 a2 d2 ->
  let s := slope a1 d1 a2 d2 in
  let a := lin_a a1 d1 a2 d2 in
  is_finite a = true /\ / 2 <= B2R a <= 2 /\
  Rabs (B2R a - s) <= / 4503599627370496.
Proof.
  intros a1 d1 a2 d2 Ha1 Hd1 Ha2 Hd2 Hs s a.
  pose proof (slope_bounds _ _ _ _ Hs) as Sb. fold s in Sb.
  unfold in_day, day in *.
  destruct (of_Z_correct (d2 - d1)) as [HD1 HD2]; [lia|].
  destruct (of_Z_correct (a2 - a1)) as [HA1 HA2]; [lia|].
  assert (HAnz : IZR (a2 - a1) <> 0).
  { apply not_0_IZR. destruct Hs as [[? _]|[? _]]; lia. }
  destruct (fdiv_correct (of_Z (d2 - d1)) (of_Z (a2 - a1))) as [Hx1 Hx2].
  - exact HD2.
  - rewrite HA1. exact HAnz.
  - rewrite HD1, HA1. fold (slope a1 d1 a2 d2). fold s.
    pose proof bpow100_big. rewrite Rabs_pos_eq; lra.
  - fold (lin_a a1 d1 a2 d2) in Hx1, Hx2. fold a in Hx1, Hx2.
    rewrite HD1, HA1 in Hx1. fold (slope a1 d1 a2 d2) in Hx1. fold s in Hx1.
    split; [exact Hx2|]. rewrite Hx1. split; [split|].
    + apply round_ge_generic; auto with typeclass_instances; [|lra].
      change (/ 2) with (bpow radix2 (-1)). apply fmt_bpow. lia.
    + apply round_le_generic; auto with typeclass_instances; [|lra].
      change 2 with (bpow radix2 1). apply fmt_bpow. lia.
    + rewrite <- pow2_m52. apply (RN_abs_err s 1); [lia|].
      change (bpow radix2 1) with 2. rewrite Rabs_pos_eq; lra.
Qed.

(* one product a * x, x an in-day integer *)
Lemma mul_err : forall (a : f64) (s : R) (x : Z),
  is_finite a = true -> / 2 <= B2R a <= 2 -> / 2 <= s <= 2 ->
  Rabs (B2R a - s) <= / 4503599627370496 -> in_day x ->
  let p := fmul a (of_Z x) in
  is_finite p = true /\ B2R p = RN (B2R a * IZR x) /\
  0 <= B2R p <= 281474976710656 /\
  Rabs (B2R p - s * IZR x) <= / 16.
Proof.
  intros a s x Fa Ba Bs Ea Hx p.
  destruct (of_Z_day x Hx) as [Hx1 Hx2].
  pose proof (IZR_day x Hx) as Bx.
  assert (Bp : 0 <= B2R a * IZR x <= 281474976710656) by nra.
  destruct (fmul_correct a (of_Z x) Fa Hx2) as [Hp1 Hp2].
  - rewrite Hx1. pose proof bpow100_big. rewrite Rabs_pos_eq; lra.
  - fold p in Hp1, Hp2. rewrite Hx1 in Hp1.
    split; [exact Hp2|]. split; [exact Hp1|]. rewrite Hp1. split; [split|].
    + apply round_ge_generic; auto with typeclass_instances; [|lra].
      apply generic_format_0.
    + apply round_le_generic; auto with typeclass_instances; [|lra].
      rewrite <- pow2_48. apply fmt_bpow. lia.
    + assert (E1 : Rabs (RN (B2R a * IZR x) - B2R a * IZR x) <= / 32).
      { rewrite <- pow2_m5. apply (RN_abs_err _ 48); [lia|].
        rewrite pow2_48. rewrite Rabs_pos_eq; lra. }
      apply Rabs_le_inv in E1. apply Rabs_le_inv in Ea.
      apply Rabs_le. nra.
Qed.

(* ---------------------------------------------------------------- *)
(* main theorems                                                      *)

Section Lin.
Variables a1 d1 a2 d2 : Z.
Hypothesis Ha1 : in_day a1.
Hypothesis Hd1 : in_day d1.
Hypothesis Ha2 : in_day a2.
Hypothesis Hd2 : in_day d2.
Hypothesis Hs : slope_ok a1 d1 a2 d2.

Let s := slope a1 d1 a2 d2.
Let a := lin_a a1 d1 a2 d2.

(* the intercept, before truncation *)
Lemma lin_b_float :
  let fb := fsub (of_Z d1) (fmul a (of_Z a1)) in
  Rabs (B2R fb - (IZR d1 - s * IZR a1)) <= / 8.
Proof.
  intros fb.
  destruct (lin_a_correct a1 d1 a2 d2 Ha1 Hd1 Ha2 Hd2 Hs) as [Fa [Ba Ea]].
  fold a in Fa, Ba, Ea. fold s in Ea.
  pose proof (slope_bounds _ _ _ _ Hs) as Sb. fold s in Sb.
  destruct (mul_err a s a1 Fa Ba Sb Ea Ha1) as [Fp [_ [Bp Ep]]].
  set (p := fmul a (of_Z a1)) in *.
  destruct (of_Z_day d1 Hd1) as [Hd11 Hd12].
  pose proof (IZR_day d1 Hd1) as Bd.
  assert (Bdiff : Rabs (IZR d1 - B2R p) <= 562949953421312).
  { apply Rabs_le. lra. }
  destruct (fsub_correct (of_Z d1) p Hd12 Fp) as [Hb1 _].
  - rewrite Hd11. pose proof bpow100_big. lra.
  - fold fb in Hb1. rewrite Hd11 in Hb1. rewrite Hb1.
    assert (E1 : Rabs (RN (IZR d1 - B2R p) - (IZR d1 - B2R p)) <= / 16).
    { rewrite <- pow2_m4. apply (RN_abs_err _ 49); [lia|].
      rewrite pow2_49. exact Bdiff. }
    apply Rabs_le_inv in E1. apply Rabs_le_inv in Ep.
    apply Rabs_le. lra.
Qed.

Theorem lin_affine_slope : forall t : Z, in_day t ->
  Rabs (IZR (lin a1 d1 a2 d2 t) - (IZR d1 + IZR (t - a1) * s)) <= 3.
Proof.
  intros t Ht.
  destruct (lin_a_correct a1 d1 a2 d2 Ha1 Hd1 Ha2 Hd2 Hs) as [Fa [Ba Ea]].
  fold a in Fa, Ba, Ea. fold s in Ea.
  pose proof (slope_bounds _ _ _ _ Hs) as Sb. fold s in Sb.
  destruct (mul_err a s t Fa Ba Sb Ea Ht) as [_ [_ [_ Et]]].
  pose proof lin_b_float as Eb. cbv zeta in Eb.
  unfold lin, lin_b. fold a.
  rewrite plus_IZR, 2!to_Z_correct, minus_IZR.
  pose proof (Ztrunc_err (B2R (fmul a (of_Z t)))) as T1.
  pose proof (Ztrunc_err (B2R (fsub (of_Z d1) (fmul a (of_Z a1))))) as T2.
  apply Rabs_le_inv in Et. apply Rabs_le_inv in Eb.
  apply Rabs_def2 in T1. apply Rabs_def2 in T2.
  apply Rabs_le. lra.
Qed.

Theorem lin_monotone_slope : forall t t' : Z, in_day t -> in_day t' -> (t <= t')%Z ->
  (lin a1 d1 a2 d2 t <= lin a1 d1 a2 d2 t')%Z.
Proof.
  intros t t' Ht Ht' Hle.
  destruct (lin_a_correct a1 d1 a2 d2 Ha1 Hd1 Ha2 Hd2 Hs) as [Fa [Ba Ea]].
  fold a in Fa, Ba, Ea. fold s in Ea.
  pose proof (slope_bounds _ _ _ _ Hs) as Sb. fold s in Sb.
  destruct (mul_err a s t Fa Ba Sb Ea Ht) as [_ [E1 _]].
  destruct (mul_err a s t' Fa Ba Sb Ea Ht') as [_ [E2 _]].
  unfold lin. fold a. apply Z.add_le_mono_r.
  rewrite 2!to_Z_correct. apply Ztrunc_le.
  rewrite E1, E2. apply round_le; auto with typeclass_instances.
  apply Rmult_le_compat_l; [lra|]. apply IZR_le. exact Hle.
Qed.

End Lin.

(* the statements of the task, with the slope spelled out *)
Theorem lin_affine : forall a1 d1 a2 d2 t : Z,
  in_day a1 -> in_day d1 -> in_day a2 -> in_day d2 -> in_day t ->
  a1 <> a2 -> slope_ok a1 d1 a2 d2 ->
  Rabs (IZR (lin a1 d1 a2 d2 t)
        - (IZR d1 + IZR (t - a1) * IZR (d2 - d1) / IZR (a2 - a1))) <= 3.
Proof.
  intros a1 d1 a2 d2 t Ha1 Hd1 Ha2 Hd2 Ht _ Hs.
  pose proof (lin_affine_slope a1 d1 a2 d2 Ha1 Hd1 Ha2 Hd2 Hs t Ht) as H.
  unfold slope in H.
  replace (IZR (t - a1) * IZR (d2 - d1) / IZR (a2 - a1))
    with (IZR (t - a1) * (IZR (d2 - d1) / IZR (a2 - a1))); [exact H|].
  unfold Rdiv. ring.
Qed.

Theorem lin_monotone : forall a1 d1 a2 d2 t t' : Z,
  in_day a1 -> in_day d1 -> in_day a2 -> in_day d2 -> in_day t -> in_day t' ->
  a1 <> a2 -> slope_ok a1 d1 a2 d2 ->
  (t <= t')%Z -> (lin a1 d1 a2 d2 t <= lin a1 d1 a2 d2 t')%Z.
Proof.
  intros a1 d1 a2 d2 t t' Ha1 Hd1 Ha2 Hd2 Ht Ht' _ Hs Hle.
  now apply lin_monotone_slope.
Qed.

(* the two anchor points are (almost) fixed *)
Corollary lin_anchor1 : forall a1 d1 a2 d2 : Z,
  in_day a1 -> in_day d1 -> in_day a2 -> in_day d2 -> a1 <> a2 -> slope_ok a1 d1 a2 d2 ->
  (Z.abs (lin a1 d1 a2 d2 a1 - d1) <= 3)%Z.
Proof.
  intros a1 d1 a2 d2 Ha1 Hd1 Ha2 Hd2 Hne Hs.
  pose proof (lin_affine a1 d1 a2 d2 a1 Ha1 Hd1 Ha2 Hd2 Ha1 Hne Hs) as H.
  replace (a1 - a1)%Z with 0%Z in H by lia.
  unfold Rdiv in H. rewrite 2!Rmult_0_l, Rplus_0_r in H.
  rewrite <- minus_IZR, <- abs_IZR in H. apply le_IZR. exact H.
Qed.

Corollary lin_anchor2 : forall a1 d1 a2 d2 : Z,
  in_day a1 -> in_day d1 -> in_day a2 -> in_day d2 -> a1 <> a2 -> slope_ok a1 d1 a2 d2 ->
  (Z.abs (lin a1 d1 a2 d2 a2 - d2) <= 3)%Z.
Proof.
  intros a1 d1 a2 d2 Ha1 Hd1 Ha2 Hd2 Hne Hs.
  pose proof (lin_affine a1 d1 a2 d2 a2 Ha1 Hd1 Ha2 Hd2 Ha2 Hne Hs) as H.
  assert (HA : IZR (a2 - a1) <> 0) by (apply not_0_IZR; lia).
  replace (IZR d1 + IZR (a2 - a1) * IZR (d2 - d1) / IZR (a2 - a1)) with (IZR d2) in H.
  - rewrite <- minus_IZR, <- abs_IZR in H. apply le_IZR. exact H.
  - rewrite (minus_IZR d2 d1). field. exact HA.
Qed.

Print Assumptions lin_affine.
Print Assumptions lin_monotone.
Print Assumptions lin_anchor1.
Print Assumptions lin_anchor2.
