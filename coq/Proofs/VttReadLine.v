(* WebVTT cue timing lines as a document may spell them: either timestamp with or without hours (hour field of any
   width), any ASCII white space (or none) around the arrow, the settings in any order and repeated, each after one or
   more white-space bytes; blank lines made of white space. *)
From Coq Require Import List ZArith NArith Lia Bool Arith.
From Astisub Require Import Kit.Base Kit.Str Kit.Scan Kit.Html Model.Dur Model.Srt Model.Vtt.
From Astisub Require Import Proofs.DurProofs Proofs.SrtProofs Proofs.SrtReadProofs Proofs.VttBase Proofs.VttLine Proofs.VttDoc Proofs.VttReadTime.
Import ListNotations.
Open Scope N_scope.

(* ---- white space only ---- *)
Lemma trim_left_fuel_ws w : forall n, ws w -> (length w <= n)%nat -> trim_left_fuel n w = [].
Proof.
  induction w as [|c w IH]; intros n Hw Hn; [destruct n; reflexivity|]. inversion Hw as [|? ? Hc Hw']; subst.
  destruct n as [|n]; [cbn [length] in Hn; lia|]. cbn [trim_left_fuel]. rewrite (strip_space1_ws c w Hc).
  apply IH; [exact Hw' | cbn [length] in Hn; lia].
Qed.
Lemma trim_space_ws w : ws w -> trim_space w = [].
Proof. intros Hw. unfold trim_space, trim_left. rewrite (trim_left_fuel_ws w (length w) Hw (le_n _)). reflexivity. Qed.

(* a blank line of the document: white space without line break *)
Definition blank (w : str) : Prop := ws w /\ nobrk w = true.
Lemma blank_step s w : blank w -> vtt_step s w = step_blank s.
Proof. intros [Hw _]. rewrite vtt_step_eq. cbv zeta. rewrite (trim_space_ws w Hw). reflexivity. Qed.

(* ---- words separated by white space ---- *)
(* each word is preceded by its separator *)
Definition ws_words (l : list (str * str)) : str := concat (map (fun p : str * str => fst p ++ snd p) l).
Definition sepw_ok (p : str * str) : Prop := ws (fst p) /\ fst p <> [] /\ plainw (snd p).

Lemma ws_words_cons p l : ws_words (p :: l) = fst p ++ snd p ++ ws_words l.
Proof. unfold ws_words. cbn [map concat]. rewrite <- app_assoc. reflexivity. Qed.

Lemma fields_fuel_ws_words l : forall cur f, Forall sepw_ok l ->
  fields_fuel (length (ws_words l) + S f) cur (ws_words l) = (match cur with [] => [] | _ => [rev cur] end) ++ map snd l.
Proof.
  induction l as [|[sep w] l IH]; intros cur f HF.
  - cbn [ws_words map concat length plus fields_fuel]. rewrite app_nil_r. reflexivity.
  - inversion HF as [|? ? (Hs & Hsn & (Hwn & Hw)) HF']; subst. cbn [fst snd] in *. rewrite ws_words_cons. cbn [fst snd map].
    destruct sep as [|c sep']; [contradiction|]. inversion Hs as [|? ? Hc Hs']; subst.
    rewrite !app_length. cbn [length plus app fields_fuel]. rewrite (strip_space1_ws c _ Hc).
    assert (E : fields_fuel (length sep' + (length w + length (ws_words l)) + S f) [] (sep' ++ w ++ ws_words l) = w :: map snd l).
    { rewrite <- Nat.add_assoc. rewrite (fields_fuel_skip_ws _ sep' _ Hs').
      rewrite <- Nat.add_assoc. rewrite (VttDoc.fields_fuel_word w [] _ _ Hw). rewrite app_nil_r.
      rewrite (IH (rev w) f HF'). rewrite rev_involutive.
      destruct (rev w) eqn:Er; [|reflexivity]. exfalso. apply Hwn. rewrite <- (rev_involutive w), Er. reflexivity. }
    destruct cur as [|c0 cur']; rewrite E; reflexivity.
Qed.
(* leading white space (possibly none), a first word, then separated words *)
Lemma fields_lead_words lead T l : ws lead -> plainw T -> Forall sepw_ok l ->
  fields (lead ++ T ++ ws_words l) = T :: map snd l.
Proof.
  intros Hl [HTn HT] HF. unfold fields.
  replace (S (length (lead ++ T ++ ws_words l))) with (length lead + (length T + (length (ws_words l) + S 0)))%nat
    by (rewrite !app_length; lia).
  rewrite (fields_fuel_skip_ws _ lead _ Hl). rewrite (VttDoc.fields_fuel_word T [] _ _ HT). rewrite app_nil_r.
  rewrite (fields_fuel_ws_words l (rev T) 0 HF). rewrite rev_involutive.
  destruct (rev T) eqn:Er; [|reflexivity]. exfalso. apply HTn. rewrite <- (rev_involutive T), Er. reflexivity.
Qed.

(* ---- cue settings, any order ---- *)
Inductive skey := KAlign | KLine | KPosition | KSize | KVertical | KRegion.
Definition skey_name (k : skey) : str :=
  match k with KAlign => k_align | KLine => k_line | KPosition => k_position | KSize => k_size | KVertical => k_vertical | KRegion => k_regionk end.
Definition sword (p : skey * str) : str := skey_name (fst p) ++ [58] ++ snd p.
(* what one setting does to the cue's settings and region reference *)
Definition apply_setting (acc : vset * option str) (p : skey * str) : vset * option str :=
  let '(s, reg) := acc in
  match fst p with
  | KAlign => (set_align (snd p) s, reg) | KLine => (set_line (snd p) s, reg) | KPosition => (set_position (snd p) s, reg)
  | KSize => (set_size (snd p) s, reg) | KVertical => (set_vertical (snd p) s, reg) | KRegion => (s, Some (snd p))
  end.
Definition setting_ok (regs : list (str * vregion)) (p : skey * str) : Prop :=
  sval_ok (snd p) = true /\
  match fst p with KRegion => exists rg, aget (snd p) regs = Some rg /\ rg_id rg = snd p | _ => True end.

Lemma cue_settings_any regs sets : forall s reg, Forall (setting_ok regs) sets ->
  cue_settings (map sword sets) regs s reg = Ok (fold_left apply_setting sets (s, reg)).
Proof.
  induction sets as [|[k v] sets IH]; intros s reg HF; [reflexivity|].
  inversion HF as [|? ? (Hv & Hr) HF']; subst. cbn [fst snd] in *. destruct (sval_ok_parts v Hv) as (_ & N58 & _).
  cbn [map fold_left]. unfold sword at 1. cbn [fst snd]. change (skey_name k ++ [58] ++ v) with (skey_name k ++ 58 :: v).
  rewrite cue_part_kv; [|destruct k; cbn [skey_name]; no58 | exact N58].
  destruct k; cbn [skey_name apply_setting fst snd];
    repeat match goal with |- context [str_eqb ?a ?b] => let e := eval vm_compute in (str_eqb a b) in change (str_eqb a b) with e end;
    cbv iota; try (apply IH; exact HF').
  destruct Hr as (rg & Hg & Hid). rewrite Hg, Hid. apply IH. exact HF'.
Qed.

(* ---- the timing line ---- *)
Record trend := mkTrend { tr_h1 : hform; tr_h2 : hform; tr_sp1 : str; tr_sp2 : str; tr_seps : list str }.
Definition set_words_any (r : trend) (sets : list (skey * str)) : list (str * str) := combine (tr_seps r) (map sword sets).
Definition timing_render (r : trend) (st en : Z) (sets : list (skey * str)) : str :=
  ts_render (tr_h1 r) st ++ tr_sp1 r ++ arrow ++ tr_sp2 r ++ ts_render (tr_h2 r) en ++ ws_words (set_words_any r sets).
Definition sep_ok1 (x : str) : Prop := ws x /\ x <> [] /\ nobrk x = true.
Definition trend_ok (r : trend) (st en : Z) (sets : list (skey * str)) : Prop :=
  hform_ok (tr_h1 r) st /\ hform_ok (tr_h2 r) en /\ blank (tr_sp1 r) /\ blank (tr_sp2 r) /\
  length (tr_seps r) = length sets /\ Forall sep_ok1 (tr_seps r).

Lemma ws_ascii' w : ws w -> ascii w = true.
Proof.
  intros H. unfold ascii. apply forallb_forall. intros c Hc. unfold ws in H. rewrite Forall_forall in H. specialize (H c Hc).
  unfold is_ascii_space in H. apply N.ltb_lt. apply orb_true_iff in H. destruct H as [H|H]; [apply N.eqb_eq in H; lia|].
  apply andb_true_iff in H. destruct H as [_ H]. apply N.leb_le in H. lia.
Qed.
Lemma all_plain_ascii s : all_plain s -> ascii s = true.
Proof.
  intros H. unfold ascii. apply forallb_forall. intros c Hc. unfold all_plain in H. rewrite Forall_forall in H.
  specialize (H c Hc). apply plain_byte_facts in H. tauto.
Qed.
Lemma all_plain_nobrk s : all_plain s -> nobrk s = true.
Proof.
  intros H. unfold nobrk. apply forallb_forall. intros c Hc. unfold all_plain in H. rewrite Forall_forall in H.
  specialize (H c Hc). apply plain_byte_facts in H. destruct H as (_ & _ & H & _). rewrite H. reflexivity.
Qed.
Lemma all_plain_forallb s : forallb plain_byte s = true -> all_plain s.
Proof. intros H. apply Forall_forall. rewrite forallb_forall in H. exact H. Qed.

Lemma skey_name_facts k : skey_name k <> [] /\ forallb plain_byte (skey_name k) = true /\ ~ In 62 (skey_name k) /\ ~ In 58 (skey_name k).
Proof. destruct k; cbn [skey_name]; (split; [discriminate|]; split; [reflexivity|]; split; no58). Qed.
Lemma sword_facts p : sval_ok (snd p) = true -> plainw (sword p) /\ ~ In 62 (sword p).
Proof.
  intros Hv. destruct (sval_ok_parts _ Hv) as (P & _ & N62). destruct (skey_name_facts (fst p)) as (Kn & Kp & K62 & _).
  unfold sword. split; [split|].
  - destruct (skey_name (fst p)); [contradiction | discriminate].
  - rewrite !forallb_app, Kp, P. reflexivity.
  - apply not_in_app; [exact K62|]. apply not_in_app; [intros [H|[]]; discriminate | exact N62].
Qed.

Lemma set_words_any_ok regs r sets : length (tr_seps r) = length sets -> Forall sep_ok1 (tr_seps r) -> Forall (setting_ok regs) sets ->
  Forall sepw_ok (set_words_any r sets) /\ map snd (set_words_any r sets) = map sword sets /\
  ascii (ws_words (set_words_any r sets)) = true /\ nobrk (ws_words (set_words_any r sets)) = true /\
  ~ In 62 (ws_words (set_words_any r sets)) /\
  (set_words_any r sets = [] \/ exists X z, ws_words (set_words_any r sets) = X ++ [z] /\ plain_byte z = true) /\
  (sets = [] -> ws_words (set_words_any r sets) = []).
Proof.
  unfold set_words_any. generalize (tr_seps r). intros seps. revert seps.
  induction sets as [|p sets IH]; intros seps Hlen Hseps Hsets.
  - destruct seps; [|discriminate]. cbn [map combine ws_words concat]. repeat split; try constructor; try reflexivity; try (intros []).
  - destruct seps as [|sep seps]; [discriminate|]. cbn [length] in Hlen. injection Hlen as Hlen.
    inversion Hseps as [|? ? (S1 & S2 & S3) Hseps']; subst. inversion Hsets as [|? ? (V1 & V3) Hsets']; subst.
    destruct (IH seps Hlen Hseps' Hsets') as (I1 & I2 & I3 & I4 & I5 & I6 & _).
    destruct (sword_facts p V1) as (Pw & W62).
    cbn [map combine]. rewrite ws_words_cons. cbn [fst snd].
    split; [constructor; [split; [exact S1 | split; [exact S2 | exact Pw]] | exact I1]|].
    split; [cbn [map snd]; f_equal; exact I2|].
    split; [apply ascii_app; [apply ws_ascii'; exact S1 | apply ascii_app; [apply plainw_ascii; exact Pw | exact I3]]|].
    split; [apply nobrk_app; [exact S3 | apply nobrk_app; [apply plainw_nobrk; exact Pw | exact I4]]|].
    split; [apply not_in_app; [apply (ws_not_in _ 62 S1); reflexivity | apply not_in_app; [exact W62 | exact I5]]|].
    split; [|discriminate]. right. destruct I6 as [E|(X & z & E & Hz)].
    + rewrite E. cbn [ws_words map concat]. rewrite app_nil_r. destruct Pw as [Pn Pp].
      destruct (@exists_last _ (sword p) Pn) as (q & x & Eq). exists (sep ++ q), x. rewrite Eq, app_assoc. split; [reflexivity|].
      rewrite forallb_forall in Pp. apply Pp. rewrite Eq. apply in_or_app. right. left. reflexivity.
    + exists (sep ++ sword p ++ X), z. rewrite E, !app_assoc. split; [reflexivity | exact Hz].
Qed.

(* THE TIMING LINE, EVERY SPELLING *)
Lemma step_timing_gen s r st en sets :
  trend_ok r st en sets -> (0 <= st <= max_int64)%Z -> (0 <= en <= max_int64)%Z -> Forall (setting_ok (v_regions s)) sets ->
  vtt_step s (timing_render r st en sets) =
  Ok (mkVst (close_vcur s)
            (Some (mkVitem (v_index s) (trunc_ms st) (trunc_ms en) (v_comments s)
                           (snd (fold_left apply_setting sets (vset0, None))) (Some (fst (fold_left apply_setting sets (vset0, None)))) None []))
            (v_pre_lines s) BText [] 0%Z (v_tags s) (v_styles s) (v_regions s) (v_tsmap s))
  /\ nobrk (timing_render r st en sets) = true.
Proof.
  intros (Hh1 & Hh2 & [W1 B1] & [W2 B2] & Hlen & Hseps) Hst Hen Hsets.
  destruct (ts_render_facts _ _ Hh1 Hst) as (P1 & E1 & M1 & G1 & D1).
  destruct (ts_render_facts _ _ Hh2 Hen) as (P2 & E2 & M2 & G2 & _).
  destruct (set_words_any_ok (v_regions s) r sets Hlen Hseps Hsets) as (Hsw & Hmap & Was & Wnb & W62 & Wlast & _).
  set (T1 := ts_render (tr_h1 r) st) in *. set (T2 := ts_render (tr_h2 r) en) in *.
  set (WS := ws_words (set_words_any r sets)) in *.
  set (A := T1 ++ tr_sp1 r). set (B := tr_sp2 r ++ T2 ++ WS).
  assert (EL : timing_render r st en sets = A ++ arrow ++ B).
  { unfold timing_render, A, B. fold T1 T2 WS. rewrite <- !app_assoc. reflexivity. }
  assert (Hnb : nobrk (A ++ arrow ++ B) = true).
  { pose proof (all_plain_nobrk _ P1) as N1'. pose proof (all_plain_nobrk _ P2) as N2'. fold T1 in N1'. fold T2 in N2'.
    clearbody T1 T2 WS. unfold A, B.
    apply nobrk_app; [apply nobrk_app; assumption|]. apply nobrk_app; [reflexivity|].
    apply nobrk_app; [assumption|]. apply nobrk_app; assumption. }
  rewrite EL. split; [|exact Hnb].
  assert (Hasc : ascii (A ++ arrow ++ B) = true).
  { pose proof (all_plain_ascii _ P1) as A1'. pose proof (all_plain_ascii _ P2) as A2'. fold T1 in A1'. fold T2 in A2'.
    pose proof (ws_ascii' _ W1) as A3'. pose proof (ws_ascii' _ W2) as A4'.
    clearbody T1 T2 WS. unfold A, B.
    apply ascii_app; [apply ascii_app; assumption|]. apply ascii_app; [reflexivity|].
    apply ascii_app; [assumption|]. apply ascii_app; assumption. }
  (* the line is left alone by trimming: it starts with a digit and ends with a plain byte *)
  destruct E1 as (N1 & Hd1 & _). destruct E2 as (N2 & _ & Hl2).
  assert (Hends : ends_plain (A ++ arrow ++ B)).
  { split; [unfold A; destruct T1; [contradiction | discriminate]|]. split.
    - unfold A. destruct T1 as [|c T1']; [contradiction|]. exact Hd1.
    - destruct Wlast as [Ew|(X & z & Ew & Hz)].
      + assert (EW : WS = []) by (unfold WS; rewrite Ew; reflexivity). unfold B. rewrite EW, app_nil_r.
        destruct (@exists_last _ T2 N2) as (q & x & Eq). rewrite Eq in Hl2 |- *. rewrite last_last in Hl2.
        rewrite !app_assoc, last_last. exact Hl2.
      + unfold B. rewrite Ew, !app_assoc, last_last. exact Hz. }
  assert (Hhd : exists d L, A ++ arrow ++ B = d :: L /\ is_digit d = true).
  { unfold A. destruct T1 as [|c T1']; [contradiction|]. cbn [hd] in D1. eexists. eexists. split; [reflexivity | exact D1]. }
  destruct Hhd as (d & L & EdL & Hd).
  assert (HA : ~ In 45 A) by (unfold A; apply not_in_app; [exact M1 | apply (ws_not_in _ 45 W1); reflexivity]).
  assert (HB : ~ In 62 B).
  { unfold B. apply not_in_app; [apply (ws_not_in _ 62 W2); reflexivity|]. apply not_in_app; [exact G2 | exact W62]. }
  assert (Ecut : cut arrow (A ++ arrow ++ B) = Some (A, B)) by (apply (cut_app 45 [45; 62] A B HA)).
  rewrite vtt_step_eq. cbv zeta. rewrite (trim_space_ends _ Hends), (utf8_ascii _ Hasc). cbn [negb].
  rewrite EdL. apply is_digit_range in Hd.
  unfold p_note, p_region, p_style. rewrite !has_prefix_hd_neq by lia. rewrite <- EdL.
  unfold contains. rewrite Ecut. rewrite EdL at 1. cbv iota. rewrite <- EdL.
  unfold step_cue, Str.split. cbn [split_fuel]. rewrite Ecut.
  rewrite (split_fuel_none _ arrow B (cut_none 62 arrow B ltac:(right; right; left; reflexivity) HB)).
  unfold B at 1. unfold WS at 1. rewrite (fields_lead_words (tr_sp2 r) T2 (set_words_any r sets) W2); [| | exact Hsw].
  2:{ split; [exact N2|]. apply forallb_forall. unfold all_plain in P2. rewrite Forall_forall in P2. exact P2. }
  unfold A, T1. rewrite (parse_vtt_ts _ _ _ Hh1 Hst W1).
  rewrite <- (app_nil_r T2). unfold T2. rewrite (parse_vtt_ts _ _ [] Hh2 Hen ltac:(constructor)).
  rewrite Hmap, (cue_settings_any _ _ _ _ Hsets).
  destruct (fold_left apply_setting sets (vset0, None)) as [st' reg']. reflexivity.
Qed.
