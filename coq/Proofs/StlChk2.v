(* stl.go: the writer's guarded dereferences of the cue list (Model/StlCW.v) never reach a panic site, and compute the flattening
   the writer model is stated on; nil elements of the cue list are filtered by WriteToSTL (nonNilItems) before anything
   looks at it. *)
From Coq Require Import List ZArith NArith Bool.
From Astisub Require Import Kit.Base Kit.Str Kit.Chk Model.Stl Model.StlCW.
Import ListNotations.

Lemma just_c_ok sa : just_c sa = Ok (match sa with Some s => gs_just s | None => None end).
Proof. unfold just_c. destruct sa as [s|]; cbn [is_some negb deref bind]; [|reflexivity]. destruct (gs_just s); reflexivity. Qed.
Lemma vp_c_ok sa : vp_c sa = Ok (match sa with Some s => gs_pos s | None => None end).
Proof. unfold vp_c. destruct sa as [s|]; cbn [is_some deref bind]; [|reflexivity]. destruct (gs_pos s); reflexivity. Qed.
Lemma run_c_ok li : run_c li = Ok (run_flat li).
Proof.
  unfold run_c, run_flat, flag_c. destruct (gl_style li) as [s|]; cbn [is_some deref bind]; [|reflexivity].
  destruct (gs_it s), (gs_un s), (gs_bx s); reflexivity.
Qed.
Lemma map_c_ok {A B} (f : A -> res B) (g : A -> B) : (forall x, f x = Ok (g x)) -> forall l, map_c f l = Ok (map g l).
Proof. intros H. induction l as [|x r IH]; [reflexivity|]. cbn [map_c map]. rewrite H, IH. reflexivity. Qed.

Lemma item_c_ok i : item_c i = Ok (item_flat i).
Proof.
  unfold item_c. rewrite just_c_ok, vp_c_ok. cbn [bind]. rewrite (map_c_ok _ _ (map_c_ok _ _ run_c_ok)). reflexivity.
Qed.
(* for EVERY Go-shaped cue list, nil elements included *)
Theorem items_c_ok (l : list (option gsitem)) : items_c l = Ok (map item_flat (somes l)).
Proof. unfold items_c. apply map_c_ok. exact item_c_ok. Qed.
Theorem items_c_no_panic (l : list (option gsitem)) s : items_c l <> Panic s.
Proof. rewrite items_c_ok. discriminate. Qed.
(* nil elements are skipped: the list without them gives the same flattened list *)
Theorem items_c_nil_skipped (a b : list (option gsitem)) : items_c (a ++ None :: b) = items_c (a ++ b).
Proof. rewrite !items_c_ok, !somes_app. reflexivity. Qed.
(* before the filter (repo 4240852) a nil *Item was dereferenced at 702: the guard dropped, the site is reachable *)
Example items_unguarded_nil_item : items_unguarded_c [None] = Panic 702 /\ items_c [None] = Ok [].
Proof. split; reflexivity. Qed.

(* the whole writer on the Go-shaped list *)
From Astisub Require Import Model.StlC Proofs.StlChk.
Theorem write_stl_items_c_ok now md (l : list (option gsitem)) :
  write_stl_items_c now md l = write_stl now md (map item_flat (somes l)).
Proof. unfold write_stl_items_c. rewrite items_c_ok. cbn [bind]. apply write_stl_c_ok. Qed.
Theorem write_stl_items_c_no_panic now md (l : list (option gsitem)) site : write_stl_items_c now md l <> Panic site.
Proof. rewrite write_stl_items_c_ok, <- write_stl_c_ok. apply write_stl_c_no_panic. Qed.
Theorem write_stl_items_c_nil_skipped now md (a b : list (option gsitem)) :
  write_stl_items_c now md (a ++ None :: b) = write_stl_items_c now md (a ++ b).
Proof. rewrite !write_stl_items_c_ok, !somes_app. reflexivity. Qed.
Theorem write_stl_items_c_all_nil now md n : write_stl_items_c now md (repeat None n) = write_stl now md [].
Proof.
  rewrite write_stl_items_c_ok. f_equal. induction n as [|n IH]; [reflexivity|]. cbn [repeat somes]. exact IH.
Qed.
(* dropping the guard of stlJustificationCodeFromStyle makes its site reachable *)
Definition just_unguarded (sa : option gstyle) : res (option N) := do s <- deref sa 724; do j <- deref (gs_just s) 727; Ok (Some j).
Example just_unguarded_panics : just_unguarded None = Panic 724 /\ just_unguarded (Some (mkGstyle None None None None None)) = Panic 727.
Proof. split; reflexivity. Qed.
