(* stl.go: the writer's guarded dereferences of the cue list (Model/StlCW.v) never reach a panic site when no element of
   the cue list is nil, and compute the flattening the writer model is stated on; a nil element is the one unguarded
   dereference of WriteToSTL. *)
From Coq Require Import List ZArith NArith Bool.
From Astisub Require Import Kit.Base Kit.Str Kit.Chk Model.Stl Model.StlCW.
Import ListNotations.

Lemma just_c_ok sa : just_c sa = Ok (match sa with Some s => gs_just s | None => None end).
Proof. unfold just_c. destruct sa as [s|]; cbn [is_some negb deref bind]; [|reflexivity]. destruct (gs_just s); reflexivity. Qed.
Lemma vp_c_ok sa : vp_c sa = Ok (match sa with Some s => gs_pos s | None => None end).
Proof. unfold vp_c. destruct sa as [s|]; cbn [is_some deref bind]; [|reflexivity]. destruct (gs_pos s); reflexivity. Qed.
Lemma run_c_ok li : run_c li = Ok (run_flat li).
Proof.
  unfold run_c, run_flat, flag_c. destruct (gl_style li) as [s|]; cbn [is_some deref bind]; [|reflexivity].
  destruct (gs_it s), (gs_un s), (gs_bx s); reflexivity.
Qed.
Lemma map_c_ok {A B} (f : A -> res B) (g : A -> B) : (forall x, f x = Ok (g x)) -> forall l, map_c f l = Ok (map g l).
Proof. intros H. induction l as [|x r IH]; [reflexivity|]. cbn [map_c map]. rewrite H, IH. reflexivity. Qed.

Theorem items_c_ok (l : list gitem) : items_c (map Some l) = Ok (map item_flat l).
Proof.
  unfold items_c. induction l as [|i r IH]; [reflexivity|]. cbn [map map_c]. unfold item_c at 1. cbn [deref bind].
  rewrite just_c_ok, vp_c_ok. cbn [bind]. rewrite (map_c_ok _ _ (map_c_ok _ _ run_c_ok)). cbn [bind]. rewrite IH. reflexivity.
Qed.
Theorem items_c_no_panic (l : list gitem) s : items_c (map Some l) <> Panic s.
Proof. rewrite items_c_ok. discriminate. Qed.
(* the one dereference without a guard: a nil *Item in the cue list (the library's own readers never produce one) *)
Example items_c_nil_item : items_c [None] = Panic 702.
Proof. reflexivity. Qed.
(* dropping the guard of stlJustificationCodeFromStyle makes its site reachable *)
Definition just_unguarded (sa : option gstyle) : res (option N) := do s <- deref sa 724; do j <- deref (gs_just s) 727; Ok (Some j).
Example just_unguarded_panics : just_unguarded None = Panic 724 /\ just_unguarded (Some (mkGstyle None None None None None)) = Panic 727.
Proof. split; reflexivity. Qed.
