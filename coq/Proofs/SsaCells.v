(* SSA/ASS cells: which spellings denote which value, stated WITHOUT the reader's decoders, and the equivalence of
   that characterisation with the decoders (parse_bool, atoi, parse_color, parse_float3 of Model/Ssa.v).

   The predicates of Proofs/SsaRows.v (cell_denotes, decode_ecell) say "the decoder answers this value"; read as a
   specification that is circular.  Here every kind of cell gets an explicit set of spellings:
     digits      : a string of the bytes 0 .. 9; its value is positional (dec_value);
     integers    : an optional + or -, at least one digit (leading zeros allowed), value in the int64 range;
     booleans    : true is spelt by every integer other than zero, false by every other cell (0, -0, 00, a word, an
                   integer outside the int64 range, ...);
     colours     : the empty cell (no colour); ampersand, capital H and a hexadecimal integer (optional sign, digits of
                   either case, any number of leading zeros, 1 .. any number of digits, value in the int64 range); or
                   a decimal integer; the bytes 0 .. 3 of the two's complement value are red, green, blue, alpha
                   (values of 2^32 and above lose their upper bits, negative values are taken modulo 2^32);
     numbers     : optional sign, digits, optionally a dot and digits of which all after the third are 0; at least one
                   digit in all; magnitude below 10^12; not the negative zero: this is the FAITHFUL DOMAIN of the float
                   model (thousandths);
   the times and the white space are in Proofs/SsaCellsTime.v, the two row predicates in Proofs/SsaCellsRows.v. *)
From Coq Require Import List ZArith NArith Bool Lia Arith ZifyBool ZifyN ZifyNat.
From Coq Require Decimal DecimalFacts DecimalPos DecimalN.
From Astisub Require Import Kit.Base Kit.Str Kit.Scan Model.Dur Model.Ssa Proofs.DurProofs Proofs.VttBase Proofs.SsaFields.
Import ListNotations.
Open Scope N_scope.

(* ---------------------------------------------------------------- digit strings and their positional value *)
Definition dec_digit (c : byte) : Prop := 48 <= c <= 57.
Definition dec_string (s : str) : Prop := Forall dec_digit s.
(* the number a digit string denotes: sum of digit * base ^ position *)
Fixpoint pos_value (base : N) (dv : byte -> N) (s : str) : N :=
  match s with
  | [] => 0
  | c :: r => dv c * base ^ N.of_nat (length r) + pos_value base dv r
  end.
Definition dec_value (s : str) : N := pos_value 10 (fun c => c - 48) s.

Lemma pos_value_app base dv a b :
  pos_value base dv (a ++ b) = pos_value base dv a * base ^ N.of_nat (length b) + pos_value base dv b.
Proof.
  induction a as [|c a IH]; [cbn [app pos_value]; lia|].
  cbn [app pos_value]. rewrite IH, app_length, Nat2N.inj_add, N.pow_add_r. lia.
Qed.

Lemma dec_digit_is c : dec_digit c <-> is_digit c = true.
Proof. unfold dec_digit, is_digit. lia. Qed.
Lemma dec_string_digits s : dec_string s <-> digits s.
Proof.
  unfold dec_string, digits. rewrite Forall_forall, forallb_forall. split; intros H c Hc; apply dec_digit_is, H, Hc.
Qed.

(* Coq's decimal numerals read big-endian *)
Lemma digit_cons_value c u u' : digit_cons c u = Some u' ->
  dec_digit c /\ N.of_uint u' = (c - 48) * 10 ^ DecimalPos.Unsigned.usize u + N.of_uint u /\
  DecimalPos.Unsigned.usize u' = N.succ (DecimalPos.Unsigned.usize u).
Proof.
  unfold digit_cons, dec_digit. intros H.
  repeat match type of H with
         | (if ?c =? ?k then _ else _) = _ =>
           let E := fresh "E" in destruct (c =? k) eqn:E;
           [ apply N.eqb_eq in E; subst c; injection H as <-;
             split; [lia|]; split; [|reflexivity];
             unfold N.of_uint; rewrite !DecimalPos.Unsigned.of_uint_alt; unfold Decimal.rev at 1; cbn [Decimal.revapp];
             rewrite DecimalPos.Unsigned.of_lu_revapp; cbn [DecimalPos.Unsigned.of_lu]; lia
           | clear E ]
         end.
  discriminate H.
Qed.

Lemma str_to_uint_value s : forall u, str_to_uint s = Some u ->
  dec_string s /\ N.of_uint u = dec_value s /\ DecimalPos.Unsigned.usize u = N.of_nat (length s).
Proof.
  induction s as [|c r IH]; intros u H; cbn [str_to_uint] in H.
  - injection H as <-. split; [constructor|]. split; reflexivity.
  - destruct (str_to_uint r) as [u0|] eqn:E; [|discriminate H].
    destruct (IH u0 eq_refl) as (Hd & Hv & Hl). destruct (digit_cons_value c u0 u H) as (Hc & Hv' & Hl').
    split; [constructor; assumption|]. split.
    + unfold dec_value in *. cbn [pos_value]. rewrite Hv', Hv, Hl. reflexivity.
    + rewrite Hl', Hl. cbn [length]. lia.
Qed.

Lemma str_to_uint_total s : dec_string s -> exists u, str_to_uint s = Some u.
Proof.
  induction s as [|c r IH]; intros H; [exists Decimal.Nil; reflexivity|].
  inversion H as [|? ? Hc Hr]; subst. destruct (IH Hr) as (u & E). cbn [str_to_uint]. rewrite E.
  unfold digit_cons, dec_digit in *.
  repeat match goal with |- exists _, (if ?c =? ?k then _ else _) = _ =>
           let E := fresh "E" in destruct (c =? k) eqn:E; [eexists; reflexivity|] end.
  exfalso. lia.
Qed.

(* strconv's digit loop: at least one digit, nothing but digits; the value is the positional one *)
Theorem atoi_digits_spec s n : atoi_digits s = Some n <-> s <> [] /\ dec_string s /\ n = dec_value s.
Proof.
  unfold atoi_digits. split.
  - intros H. destruct s as [|c r]; [discriminate H|]. destruct (str_to_uint (c :: r)) as [u|] eqn:E; [|discriminate H].
    injection H as <-. destruct (str_to_uint_value _ u E) as (Hd & Hv & _). split; [discriminate|]. split; [exact Hd | exact Hv].
  - intros (Hne & Hd & ->). destruct s as [|c r]; [contradiction|]. destruct (str_to_uint_total _ Hd) as (u & E).
    rewrite E. f_equal. exact (proj1 (proj2 (str_to_uint_value _ u E))).
Qed.

Lemma digits_val_value s : dec_string s -> digits_val s = dec_value s.
Proof.
  intros H. unfold digits_val. destruct s as [|c r]; [reflexivity|].
  assert (E : atoi_digits (c :: r) = Some (dec_value (c :: r))) by (apply atoi_digits_spec; split; [discriminate | split; [exact H | reflexivity] ]).
  rewrite E. reflexivity.
Qed.

Lemma dec_value_itoa n : dec_value (itoa n) = n.
Proof.
  pose proof (atoi_digits_itoa n) as H. apply atoi_digits_spec in H. destruct H as (_ & _ & H). symmetry. exact H.
Qed.
Lemma dec_string_itoa n : dec_string (itoa n).
Proof. apply dec_string_digits. exact (itoa_digits n). Qed.
Lemma dec_string_zeros k : dec_string (repeat 48 k).
Proof. apply dec_string_digits. apply digits_repeat. Qed.
Lemma dec_string_app a b : dec_string a -> dec_string b -> dec_string (a ++ b).
Proof. unfold dec_string. intros Ha Hb. apply Forall_app. split; assumption. Qed.
Lemma dec_value_zeros k : dec_value (repeat 48 k) = 0.
Proof. unfold dec_value. induction k as [|k IH]; [reflexivity|]. cbn [repeat pos_value]. rewrite IH. lia. Qed.
(* leading zeros do not change the value; trailing zeros multiply by ten *)
Lemma dec_value_lead k s : dec_value (repeat 48 k ++ s) = dec_value s.
Proof. unfold dec_value. rewrite pos_value_app. fold (dec_value (repeat 48 k)). rewrite dec_value_zeros. lia. Qed.
Lemma dec_value_trail s k : dec_value (s ++ repeat 48 k) = dec_value s * 10 ^ N.of_nat k.
Proof.
  unfold dec_value. rewrite pos_value_app. fold (dec_value (repeat 48 k)). rewrite dec_value_zeros, repeat_length. lia.
Qed.

(* ---------------------------------------------------------------- signed numerals in some base *)
Inductive sign_of : str -> bool -> Prop :=
| sign_none : sign_of [] false
| sign_plus : sign_of [43] false
| sign_minus : sign_of [45] true.
Definition signed (neg : bool) (n : N) : Z := if neg then (- Z.of_N n)%Z else Z.of_N n.
Definition int64 (v : Z) : Prop := (-9223372036854775808 <= v <= 9223372036854775807)%Z.
(* an optional sign, at least one digit of the base, the value in the int64 range *)
Definition num_spelling (isd : byte -> Prop) (val : str -> N) (v : Z) (cell : str) : Prop :=
  exists sg neg ds, cell = sg ++ ds /\ sign_of sg neg /\ ds <> [] /\ Forall isd ds /\ v = signed neg (val ds) /\ int64 v.

Section Signed.
  Variable isd : byte -> Prop.
  Variable val : str -> N.
  Variable scan : str -> option N.          (* the digit loop of the parser *)
  Variable parse : str -> option Z.
  Hypothesis isd_not_sign : forall c, isd c -> c <> 43 /\ c <> 45.
  Hypothesis scan_spec : forall ds n, scan ds = Some n <-> ds <> [] /\ Forall isd ds /\ n = val ds.
  Hypothesis parse_eq : forall s, parse s =
    let '(neg, ds) := sign_split s in
    match scan ds with
    | None => None
    | Some n => let v := if neg then (- Z.of_N n)%Z else Z.of_N n in
                if ((v <? - max_int64 - 1) || (max_int64 <? v))%Z then None else Some v
    end.

  Lemma range_check v : int64 v <-> ((v <? - max_int64 - 1) || (max_int64 <? v))%Z = false.
  Proof. unfold int64, max_int64. lia. Qed.

  Lemma parse_split neg ds v : scan ds = Some (val ds) -> v = signed neg (val ds) -> int64 v ->
    (let v := if neg then (- Z.of_N (val ds))%Z else Z.of_N (val ds) in
     if ((v <? - max_int64 - 1) || (max_int64 <? v))%Z then None else Some v) = Some v.
  Proof.
    intros _ Hv Hr. cbv zeta. unfold signed in Hv. rewrite <- Hv. apply range_check in Hr. rewrite Hr. reflexivity.
  Qed.

  Theorem num_spelling_parse v cell : num_spelling isd val v cell <-> parse cell = Some v.
  Proof.
    rewrite parse_eq. split.
    - intros (sg & neg & ds & -> & Hs & Hne & Hd & Hv & Hr).
      assert (Hsc : scan ds = Some (val ds)) by (apply scan_spec; split; [exact Hne | split; [exact Hd | reflexivity] ]).
      destruct Hs; cbn [app].
      + destruct ds as [|c r]; [contradiction|]. pose proof (Forall_inv Hd) as Hc.
        destruct (isd_not_sign c Hc) as [H1 H2]. rewrite (sign_split_other c r H2 H1). cbv iota beta.
        rewrite Hsc. apply (parse_split false); assumption.
      + change (sign_split (43 :: ds)) with (false, ds). cbv iota beta. rewrite Hsc. apply (parse_split false); assumption.
      + change (sign_split (45 :: ds)) with (true, ds). cbv iota beta. rewrite Hsc. apply (parse_split true); assumption.
    - intros H.
      assert (G : forall sg neg ds, cell = sg ++ ds -> sign_of sg neg ->
                  match scan ds with
                  | None => None
                  | Some n => let v := if neg then (- Z.of_N n)%Z else Z.of_N n in
                              if ((v <? - max_int64 - 1) || (max_int64 <? v))%Z then None else Some v
                  end = Some v -> num_spelling isd val v cell).
      { intros sg neg ds E Hs Hm. destruct (scan ds) as [n|] eqn:Esc; [|discriminate Hm].
        apply scan_spec in Esc. destruct Esc as (Hne & Hd & ->). cbv zeta in Hm.
        destruct ((_ <? _) || (_ <? _))%Z eqn:B in Hm; [discriminate Hm|]. injection Hm as Hm.
        exists sg, neg, ds. split; [exact E|]. split; [exact Hs|]. split; [exact Hne|]. split; [exact Hd|].
        split; [symmetry; exact Hm|]. apply range_check. rewrite <- Hm. exact B. }
      destruct cell as [|c r].
      + change (sign_split []) with (false, @nil N) in H. cbv iota beta in H.
        apply (G [] false []); [reflexivity | constructor | exact H].
      + destruct (N.eq_dec c 45) as [->|N45].
        { change (sign_split (45 :: r)) with (true, r) in H. cbv iota beta in H.
          apply (G [45] true r); [reflexivity | constructor | exact H]. }
        destruct (N.eq_dec c 43) as [->|N43].
        { change (sign_split (43 :: r)) with (false, r) in H. cbv iota beta in H.
          apply (G [43] false r); [reflexivity | constructor | exact H]. }
        rewrite (sign_split_other c r N45 N43) in H. cbv iota beta in H.
        apply (G [] false (c :: r)); [reflexivity | constructor | exact H].
  Qed.
End Signed.

(* ---------------------------------------------------------------- integers *)
Definition int_spelling : Z -> str -> Prop := num_spelling dec_digit dec_value.

Lemma dec_digit_not_sign c : dec_digit c -> c <> 43 /\ c <> 45.
Proof. unfold dec_digit. lia. Qed.

(* strconv.Atoi accepts exactly these spellings, with these values *)
Theorem int_spelling_iff v cell : int_spelling v cell <-> atoi cell = Some v.
Proof.
  apply (num_spelling_parse dec_digit dec_value atoi_digits atoi dec_digit_not_sign).
  - intros ds n. apply atoi_digits_spec.
  - intros s. apply atoi_sign.
Qed.

Lemma int_spelling_unique v v' cell : int_spelling v cell -> int_spelling v' cell -> v = v'.
Proof. intros H H'. apply int_spelling_iff in H. apply int_spelling_iff in H'. congruence. Qed.
Lemma int_spelling_nonnil v cell : int_spelling v cell -> cell <> [].
Proof. intros (sg & neg & ds & -> & _ & Hne & _) E. apply app_eq_nil in E. destruct E as [_ E]. contradiction. Qed.

(* the spellings in closed form: sign, any number of zeros, the shortest decimal numeral of the magnitude *)
Theorem int_spelling_canonical (neg : bool) (sg : str) (k : nat) (n : N) :
  sign_of sg neg -> int64 (signed neg n) -> int_spelling (signed neg n) (sg ++ repeat 48 k ++ itoa n).
Proof.
  intros Hs Hr. exists sg, neg, (repeat 48 k ++ itoa n). split; [reflexivity|]. split; [exact Hs|]. split.
  - intros E. apply app_eq_nil in E. destruct E as [_ E]. exact (itoa_nonnil n E).
  - split; [apply dec_string_app; [apply dec_string_zeros | apply dec_string_itoa]|].
    rewrite dec_value_lead, dec_value_itoa. split; [reflexivity | exact Hr].
Qed.

(* ---------------------------------------------------------------- booleans *)
(* true: an integer other than zero; false: every other cell *)
Definition bool_spelling (b : bool) (cell : str) : Prop :=
  if b then exists v, v <> 0%Z /\ int_spelling v cell else ~ exists v, v <> 0%Z /\ int_spelling v cell.

Theorem bool_spelling_iff b cell : bool_spelling b cell <-> parse_bool cell = b.
Proof.
  unfold bool_spelling, parse_bool. destruct (atoi cell) as [v|] eqn:E.
  - apply int_spelling_iff in E. destruct b; split.
    + intros (v' & Hv & H'). rewrite (int_spelling_unique v v' cell E H'). lia.
    + intros H. exists v. split; [lia | exact E].
    + intros H. destruct (v =? 0)%Z eqn:Z0; [reflexivity|]. exfalso. apply H. exists v. split; [lia | exact E].
    + intros H (v' & Hv & H'). rewrite (int_spelling_unique v v' cell E H') in H. lia.
  - destruct b; split.
    + intros (v' & _ & H'). apply int_spelling_iff in H'. congruence.
    + discriminate.
    + reflexivity.
    + intros _ (v' & _ & H'). apply int_spelling_iff in H'. congruence.
Qed.

(* the integer zero in any spelling, and every cell that is not an integer in range, is false *)
Corollary bool_spelling_zero cell : int_spelling 0 cell -> bool_spelling false cell.
Proof. intros H (v & Hv & H'). apply Hv. exact (int_spelling_unique v 0 cell H' H). Qed.
Corollary bool_spelling_junk cell : (forall v, ~ int_spelling v cell) -> bool_spelling false cell.
Proof. intros H (v & _ & H'). exact (H v H'). Qed.

(* ---------------------------------------------------------------- hexadecimal *)
Definition hex_char (c : byte) : Prop := 48 <= c <= 57 \/ 65 <= c <= 70 \/ 97 <= c <= 102.
(* 0-9, A-F and a-f denote 0-9, 10-15, 10-15 *)
Definition hex_digit_value (c : byte) : N := if c <=? 57 then c - 48 else if c <=? 70 then c - 55 else c - 87.
Definition hex_value (s : str) : N := pos_value 16 hex_digit_value s.
Definition hex_spelling : Z -> str -> Prop := num_spelling hex_char hex_value.

Lemma hex_val_spec c d : hex_val c = Some d <-> hex_char c /\ d = hex_digit_value c.
Proof.
  unfold hex_val, hex_char, hex_digit_value, is_digit.
  destruct (c <=? 57) eqn:L1; destruct (c <=? 70) eqn:L2; destruct (48 <=? c) eqn:L3; destruct (97 <=? c) eqn:L4;
    destruct (c <=? 102) eqn:L5; destruct (65 <=? c) eqn:L6; cbn [andb];
    (split; [intros H; try discriminate H; injection H as <-; lia | intros (Hc & ->); try (f_equal; lia); exfalso; lia]).
Qed.

Lemma hex_digits_spec s : forall acc n,
  hex_digits acc s = Some n <-> Forall hex_char s /\ n = acc * 16 ^ N.of_nat (length s) + hex_value s.
Proof.
  unfold hex_value. induction s as [|c r IH]; intros acc n; cbn [hex_digits pos_value length].
  - split; [intros H; injection H as <-; split; [constructor | cbn; lia] | intros (_ & ->); f_equal; cbn; lia].
  - destruct (hex_val c) as [d|] eqn:E.
    + apply hex_val_spec in E. destruct E as (Hc & ->). rewrite IH. rewrite Nat2N.inj_succ, N.pow_succ_r'. split.
      * intros (Hr & ->). split; [constructor; assumption | lia].
      * intros (Hr & ->). inversion Hr; subst. split; [assumption | lia].
    + split; [discriminate|]. intros (Hr & _). inversion Hr as [|? ? Hc _]; subst.
      assert (H : hex_val c = Some (hex_digit_value c)) by (apply hex_val_spec; split; [exact Hc | reflexivity]). congruence.
Qed.

Lemma hex_char_not_sign c : hex_char c -> c <> 43 /\ c <> 45.
Proof. unfold hex_char. lia. Qed.

(* strconv.ParseInt(s, 16, 64) accepts exactly these spellings *)
Theorem hex_spelling_iff v s : hex_spelling v s <-> parse_int_hex s = Some v.
Proof.
  apply (num_spelling_parse hex_char hex_value (fun ds => match ds with [] => None | _ => hex_digits 0 ds end)
           parse_int_hex hex_char_not_sign).
  - intros ds n. destruct ds as [|c r].
    + split; [discriminate | intros (H & _); contradiction].
    + rewrite hex_digits_spec. split; [intros (H & ->); split; [discriminate | split; [exact H | lia] ]
                                       | intros (_ & H & ->); split; [exact H | lia] ].
  - intros s0. rewrite parse_int_hex_sign. destruct (sign_split s0) as [neg ds]. destruct ds; reflexivity.
Qed.

(* ---------------------------------------------------------------- colours *)
(* the colour an integer denotes: its low 32 bits (two's complement) are alpha, blue, green, red from the top *)
Definition colour_of (i : Z) (c : acolor) : Prop := color_ok c /\ (i mod 4294967296)%Z = color_value c.
Definition colour_spelling (o : option acolor) (cell : str) : Prop :=
  match o with
  | None => cell = []
  | Some c => exists i, colour_of i c /\ ((exists r, cell = 38 :: 72 :: r /\ hex_spelling i r) \/ int_spelling i cell)
  end.

Lemma colour_of_int_spec i : colour_of i (color_of_int i).
Proof.
  unfold colour_of, color_of_int, color_ok, color_value, byte_of. cbn [ac_a ac_b ac_g ac_r].
  change (2 ^ 24)%Z with 16777216%Z. change (2 ^ 16)%Z with 65536%Z. change (2 ^ 8)%Z with 256%Z. change (2 ^ 0)%Z with 1%Z.
  split; [lia|]. rewrite !Z2N.id by lia. lia.
Qed.
Lemma colour_of_unique i c c' : colour_of i c -> colour_of i c' -> c = c'.
Proof.
  intros ((Ha & Hb & Hg & Hr) & E) ((Ha' & Hb' & Hg' & Hr') & E'). destruct c as [a b g r], c' as [a' b' g' r'].
  unfold color_value in *. cbn [ac_a ac_b ac_g ac_r] in *. rewrite E in E'. f_equal; lia.
Qed.
Lemma colour_of_iff i c : colour_of i c <-> color_of_int i = c.
Proof. split; [intros H; exact (colour_of_unique i _ _ (colour_of_int_spec i) H) | intros <-; apply colour_of_int_spec]. Qed.

Lemma int_spelling_head v c r : int_spelling v (c :: r) -> c <> 38.
Proof.
  intros (sg & neg & ds & E & Hs & Hne & Hd & _). destruct Hs; cbn [app] in E.
  - subst ds. inversion Hd as [|? ? Hc _]; subst. unfold dec_digit in Hc. lia.
  - injection E as -> _. discriminate.
  - injection E as -> _. discriminate.
Qed.

(* newColorFromSSAColor accepts exactly these spellings; no side condition: the model and the library agree on every
   cell, values outside 32 bits included *)
Theorem colour_spelling_iff o cell : colour_spelling o cell <-> parse_color cell = Ok o.
Proof.
  unfold colour_spelling, parse_color. destruct cell as [|c r].
  - destruct o as [col|]; split; try reflexivity; try discriminate.
    intros (i & _ & [(r & E & _)|H]); [discriminate E | exfalso; exact (int_spelling_nonnil i [] H eq_refl)].
  - destruct (prefix amp_h (c :: r)) as [rest|] eqn:P.
    + apply prefix_Some in P. unfold amp_h in P. cbn [app] in P. injection P as -> ->.
      destruct (parse_int_hex rest) as [i|] eqn:E.
      * apply hex_spelling_iff in E. destruct o as [col|]; split.
        -- intros (i' & Hc & [(r' & E' & H')|H']).
           ++ injection E' as <-. apply hex_spelling_iff in E. apply hex_spelling_iff in H'. rewrite E in H'. injection H' as <-.
              apply colour_of_iff in Hc. rewrite Hc. reflexivity.
           ++ exfalso. exact (int_spelling_head _ _ _ H' eq_refl).
        -- intros H. injection H as <-. exists i. split; [apply colour_of_int_spec|]. left. exists rest. split; [reflexivity | exact E].
        -- discriminate.
        -- discriminate.
      * destruct o as [col|]; split; try discriminate.
        intros (i' & Hc & [(r' & E' & H')|H']).
        -- injection E' as <-. apply hex_spelling_iff in H'. congruence.
        -- exfalso. exact (int_spelling_head _ _ _ H' eq_refl).
    + assert (Hnp : forall r', c :: r <> 38 :: 72 :: r').
      { intros r' E. rewrite E in P. discriminate P. }
      destruct (atoi (c :: r)) as [i|] eqn:E.
      * apply int_spelling_iff in E. destruct o as [col|]; split.
        -- intros (i' & Hc & [(r' & E' & _)|H']); [exfalso; exact (Hnp r' E')|].
           rewrite (int_spelling_unique i i' _ E H'). apply colour_of_iff in Hc. rewrite Hc. reflexivity.
        -- intros H. injection H as <-. exists i. split; [apply colour_of_int_spec | right; exact E].
        -- discriminate.
        -- discriminate.
      * destruct o as [col|]; split; try discriminate.
        intros (i' & Hc & [(r' & E' & _)|H']); [exfalso; exact (Hnp r' E')|]. apply int_spelling_iff in H'. congruence.
Qed.

(* audit item c: every hexadecimal spelling of a colour -- digits of either case mixed at will, 1 .. 8 digits or more
   with leading zeros, six digits (no alpha byte) included -- is read as that colour *)
Theorem colour_hex_any_case c ds : color_ok c -> ds <> [] -> Forall hex_char ds -> Z.of_N (hex_value ds) = color_value c ->
  parse_color (38 :: 72 :: ds) = Ok (Some c).
Proof.
  intros Hc Hne Hd Hv. apply colour_spelling_iff. pose proof (color_value_bounds c Hc) as Hb.
  exists (color_value c). split; [split; [exact Hc | lia]|]. left. exists ds. split; [reflexivity|].
  exists [], false, ds. split; [reflexivity|]. split; [constructor|]. split; [exact Hne|]. split; [exact Hd|].
  unfold signed, int64. split; [symmetry; exact Hv | lia].
Qed.
(* ... with a sign, too *)
Theorem colour_hex_plus c ds : color_ok c -> ds <> [] -> Forall hex_char ds -> Z.of_N (hex_value ds) = color_value c ->
  parse_color (38 :: 72 :: 43 :: ds) = Ok (Some c).
Proof.
  intros Hc Hne Hd Hv. apply colour_spelling_iff. pose proof (color_value_bounds c Hc) as Hb.
  exists (color_value c). split; [split; [exact Hc | lia]|]. left. exists (43 :: ds). split; [reflexivity|].
  exists [43], false, ds. split; [reflexivity|]. split; [constructor|]. split; [exact Hne|]. split; [exact Hd|].
  unfold signed, int64. split; [symmetry; exact Hv | lia].
Qed.
(* a decimal spelling with sign and leading zeros *)
Theorem colour_decimal_any c (k : nat) sg : color_ok c -> sign_of sg false ->
  parse_color (sg ++ repeat 48 k ++ itoa (Z.to_N (color_value c))) = Ok (Some c).
Proof.
  intros Hc Hs. apply colour_spelling_iff. pose proof (color_value_bounds c Hc) as Hb.
  exists (color_value c). split; [split; [exact Hc | lia]|]. right.
  pose proof (int_spelling_canonical false sg k (Z.to_N (color_value c)) Hs) as H. unfold signed in H.
  rewrite Z2N.id in H by lia. apply H. unfold int64. lia.
Qed.

(* ---------------------------------------------------------------- numbers (thousandths): the faithful domain *)
(* the part after the integer digits: nothing, or a dot and digits of which all after the third are zeros; [f] is its
   value in thousandths, [nd] the number of fraction digits *)
Definition frac_spelling (f : N) (nd : nat) (tail : str) : Prop :=
  (tail = [] /\ f = 0 /\ nd = 0%nat) \/
  (exists f3 zs, tail = 46 :: f3 ++ zs /\ dec_string f3 /\ (length f3 <= 3)%nat /\ Forall (eq 48) zs /\
                 f = dec_value f3 * 10 ^ N.of_nat (3 - length f3) /\ nd = length (f3 ++ zs)).
Definition float_spelling (z : Z) (cell : str) : Prop :=
  exists sg neg ip tail f nd,
    cell = sg ++ ip ++ tail /\ sign_of sg neg /\ dec_string ip /\ frac_spelling f nd tail /\ (0 < length ip + nd)%nat /\
    (Z.of_N (dec_value ip * 1000 + f) < 1000000000000000)%Z /\ z = signed neg (dec_value ip * 1000 + f) /\
    (neg = true -> dec_value ip * 1000 + f <> 0).
(* THE FAITHFUL DOMAIN of the float model: the cells that spell a number of thousandths *)
Definition float_cell_in_domain (cell : str) : Prop := exists z, float_spelling z cell.

Lemma zeros_repeat zs : Forall (eq 48) zs -> zs = repeat 48 (length zs).
Proof. induction 1 as [|x l <- _ IH]; [reflexivity|]. cbn [length repeat]. f_equal. exact IH. Qed.
Lemma zeros_forallb zs : Forall (eq 48) zs <-> forallb (N.eqb 48) zs = true.
Proof.
  rewrite forallb_forall, Forall_forall. split; intros H x Hx; [apply N.eqb_eq, H, Hx | apply N.eqb_eq, H, Hx].
Qed.
Lemma firstn_repeat {A} (x : A) k n : (k <= n)%nat -> firstn k (repeat x n) = repeat x k.
Proof.
  revert n. induction k as [|k IH]; intros n H; [reflexivity|]. destruct n as [|n]; [lia|].
  cbn [repeat firstn]. f_equal. apply IH. lia.
Qed.
Lemma skipn_repeat {A} (x : A) k n : skipn k (repeat x n) = repeat x (n - k).
Proof.
  revert n. induction k as [|k IH]; intros n; [rewrite Nat.sub_0_r; reflexivity|]. destruct n as [|n]; [reflexivity|].
  cbn [repeat skipn]. apply IH.
Qed.
Lemma zeros_dec zs : Forall (eq 48) zs -> dec_string zs.
Proof. intros H. rewrite (zeros_repeat zs H). apply dec_string_zeros. Qed.

(* the three digits the parser keeps, and the digits it insists are zeros *)
Lemma frac_digits_kept f3 zs : (length f3 <= 3)%nat -> Forall (eq 48) zs ->
  firstn 3 ((f3 ++ zs) ++ [48; 48; 48]) = f3 ++ repeat 48 (3 - length f3) /\ Forall (eq 48) (skipn 3 (f3 ++ zs)).
Proof.
  intros Hl Hz. rewrite (zeros_repeat zs Hz). set (k := length zs).
  rewrite <- app_assoc. change [48; 48; 48] with (repeat 48 3). rewrite <- repeat_app. split.
  - rewrite firstn_app, firstn_all2 by exact Hl. f_equal. apply firstn_repeat. lia.
  - rewrite skipn_app. apply Forall_app. split.
    + rewrite skipn_all2 by exact Hl. constructor.
    + rewrite skipn_repeat. apply Forall_forall. intros x Hx. apply repeat_spec in Hx. symmetry. exact Hx.
Qed.

Lemma span_digits_spec s ip r : span_digits s = (ip, r) ->
  s = ip ++ r /\ dec_string ip /\ match r with [] => True | c :: _ => is_digit c = false end.
Proof.
  revert ip r. induction s as [|c s IH]; intros ip r H; cbn [span_digits] in H.
  - injection H as <- <-. split; [reflexivity|]. split; [constructor | exact I].
  - destruct (is_digit c) eqn:Ec.
    + destruct (span_digits s) as [a b]. injection H as <- <-. destruct (IH a b eq_refl) as (E & Hd & Hr).
      split; [cbn [app]; f_equal; exact E|]. split; [constructor; [apply dec_digit_is; exact Ec | exact Hd] | exact Hr].
    + injection H as <- <-. split; [reflexivity|]. split; [constructor | exact Ec].
Qed.

Lemma pf_val_spec neg i f z : pf_val neg i f = Some z <->
  (Z.of_N (i * 1000 + f) < 1000000000000000)%Z /\ z = signed neg (i * 1000 + f) /\ (neg = true -> i * 1000 + f <> 0).
Proof.
  unfold pf_val, float_bound, signed. cbv zeta.
  destruct (1000000000000000 <=? Z.of_N i * 1000 + Z.of_N f)%Z eqn:B; [split; [discriminate | lia]|].
  destruct neg.
  - destruct (Z.of_N i * 1000 + Z.of_N f =? 0)%Z eqn:Z0.
    + split; [discriminate|]. intros (_ & _ & H). specialize (H eq_refl). lia.
    + split; [intros H; injection H as <-; lia | intros (_ & -> & _); f_equal; lia].
  - split; [intros H; injection H as <-; split; [lia | split; [lia | discriminate] ] | intros (_ & -> & _); f_equal; lia].
Qed.

Lemma pf_body_spelled neg ip tail f nd : dec_string ip -> frac_spelling f nd tail -> (0 < length ip + nd)%nat ->
  pf_body neg (ip ++ tail) = pf_val neg (dec_value ip) f.
Proof.
  intros Hi Hf Hn. unfold pf_body. pose proof (proj1 (dec_string_digits ip) Hi) as Di.
  destruct Hf as [(-> & -> & ->)|(f3 & zs & -> & H3 & Hl & Hz & -> & ->)].
  - rewrite (span_digits_app ip [] Di I). cbv iota beta. rewrite app_nil_r.
    destruct ip as [|c ip]; [cbn [length] in Hn; lia|]. cbn [skipn forallb negb app].
    rewrite (digits_val_value _ Hi). reflexivity.
  - rewrite (span_digits_app ip (46 :: f3 ++ zs) Di) by reflexivity. cbv iota beta.
    assert (Dz : dec_string (f3 ++ zs)) by (apply dec_string_app; [exact H3 | apply zeros_dec; exact Hz]).
    rewrite (span_digits_all (f3 ++ zs)) by (apply dec_string_digits; exact Dz). cbv iota beta.
    destruct (frac_digits_kept f3 zs Hl Hz) as (Ef & Es).
    assert (Hcat : forall x, match ip ++ f3 ++ zs with [] => None | _ :: _ => x end = x :> option Z).
    { intros x. destruct (ip ++ f3 ++ zs) eqn:E; [|reflexivity]. apply (f_equal (@length N)) in E.
      rewrite !app_length in E. rewrite app_length in Hn. cbn [length] in E. lia. }
    rewrite Hcat. apply zeros_forallb in Es. rewrite Es. cbn [negb]. rewrite Ef.
    rewrite (digits_val_value _ Hi), digits_val_value by (apply dec_string_app; [exact H3 | apply dec_string_zeros]).
    rewrite dec_value_trail. reflexivity.
Qed.

(* the fraction digits the parser finds after the integer digits *)
Definition frac_of (r1 : str) : option str :=
  match r1 with
  | [] => Some []
  | 46 :: r2 => let '(fp, r3) := span_digits r2 in match r3 with [] => Some fp | _ => None end
  | _ => None
  end.
Lemma pf_body_frac neg body : pf_body neg body =
  let '(ip, r1) := span_digits body in
  match frac_of r1 with
  | None => None
  | Some fp =>
    match ip ++ fp with
    | [] => None
    | _ => if negb (forallb (N.eqb 48) (skipn 3 fp)) then None
           else pf_val neg (digits_val ip) (digits_val (firstn 3 (fp ++ [48; 48; 48])))
    end
  end.
Proof. reflexivity. Qed.
Lemma frac_of_other c r : c <> 46 -> frac_of (c :: r) = None.
Proof.
  intros H. unfold frac_of. destruct c as [|p]; [reflexivity|].
  do 8 (destruct p as [p|p|]; try reflexivity; try (exfalso; apply H; reflexivity)).
Qed.

Lemma pf_body_inv neg body z : pf_body neg body = Some z ->
  exists ip tail f nd, body = ip ++ tail /\ dec_string ip /\ frac_spelling f nd tail /\ (0 < length ip + nd)%nat /\
                       pf_val neg (dec_value ip) f = Some z.
Proof.
  rewrite pf_body_frac. intros H. destruct (span_digits body) as [ip r1] eqn:E1.
  destruct (span_digits_spec body ip r1 E1) as (-> & Hi & Hr1).
  assert (G : forall fp, dec_string fp ->
            match ip ++ fp with
            | [] => None
            | _ :: _ => if negb (forallb (N.eqb 48) (skipn 3 fp)) then None
                        else pf_val neg (digits_val ip) (digits_val (firstn 3 (fp ++ [48; 48; 48])))
            end = Some z ->
            exists f, (0 < length ip + length fp)%nat /\ pf_val neg (dec_value ip) f = Some z /\
                      (fp = [] /\ f = 0 \/
                       exists f3 zs, fp = f3 ++ zs /\ dec_string f3 /\ (length f3 <= 3)%nat /\ Forall (eq 48) zs /\
                                     f = dec_value f3 * 10 ^ N.of_nat (3 - length f3))).
  { intros fp Hfp Hm. destruct (ip ++ fp) as [|x l] eqn:Ecat; [discriminate Hm|].
    assert (Hlen : (0 < length ip + length fp)%nat).
    { apply (f_equal (@length N)) in Ecat. rewrite app_length in Ecat. cbn [length] in Ecat. lia. }
    destruct (forallb (N.eqb 48) (skipn 3 fp)) eqn:Ez; [|discriminate Hm]. cbn [negb] in Hm.
    apply zeros_forallb in Ez. rewrite (digits_val_value _ Hi) in Hm.
    set (f3 := firstn 3 fp). set (zs := skipn 3 fp).
    assert (Efp : fp = f3 ++ zs) by (symmetry; apply firstn_skipn).
    assert (H3 : dec_string f3) by (apply Forall_forall; intros y Hy; apply (proj1 (Forall_forall _ _) Hfp); rewrite Efp; apply in_or_app; left; exact Hy).
    assert (Hl : (length f3 <= 3)%nat) by apply firstn_le_length.
    destruct (frac_digits_kept f3 zs Hl Ez) as (Ef & _). rewrite Efp, Ef in Hm.
    rewrite digits_val_value in Hm by (apply dec_string_app; [exact H3 | apply dec_string_zeros]).
    rewrite dec_value_trail in Hm.
    exists (dec_value f3 * 10 ^ N.of_nat (3 - length f3)). split; [exact Hlen|]. split; [exact Hm|].
    right. exists f3, zs. repeat split; assumption. }
  destruct r1 as [|c r2].
  - change (frac_of []) with (Some (@nil N)) in H. cbv iota beta in H.
    destruct (G [] ltac:(constructor) H) as (f & Hlen & Hv & Hshape).
    exists ip, [], 0, 0%nat. split; [reflexivity|]. split; [exact Hi|]. split; [left; repeat split|]. split; [exact Hlen|].
    destruct Hshape as [(_ & ->)|(f3 & zs & E & _ & _ & _ & ->)]; [exact Hv|].
    symmetry in E. apply app_eq_nil in E. destruct E as [-> ->]. exact Hv.
  - destruct (N.eq_dec c 46) as [->|Nd].
    + unfold frac_of in H. destruct (span_digits r2) as [fp r3] eqn:E2. destruct (span_digits_spec r2 fp r3 E2) as (-> & Hfp & _).
      destruct r3 as [|y r3]; [|discriminate H]. rewrite app_nil_r.
      destruct (G fp Hfp H) as (f & Hlen & Hv & Hshape).
      destruct Hshape as [(-> & ->)|(f3 & zs & -> & H3 & Hl & Hz & ->)].
      * exists ip, [46], 0, 0%nat. split; [reflexivity|]. split; [exact Hi|]. split.
        { right. exists [], []. repeat split; try constructor. cbn [length]. lia. }
        split; [exact Hlen | exact Hv].
      * exists ip, (46 :: f3 ++ zs), (dec_value f3 * 10 ^ N.of_nat (3 - length f3)), (length (f3 ++ zs)).
        split; [reflexivity|]. split; [exact Hi|]. split; [right; exists f3, zs; repeat split; assumption|].
        split; [exact Hlen | exact Hv].
    + rewrite (frac_of_other c r2 Nd) in H. discriminate H.
Qed.

(* strconv.ParseFloat restricted to the model's domain: exactly these spellings, with these values *)
Theorem float_spelling_iff z cell : float_spelling z cell <-> parse_float3 cell = Some z.
Proof.
  rewrite parse_float3_sign. split.
  - intros (sg & neg & ip & tail & f & nd & -> & Hs & Hi & Hf & Hn & Hb & Hz & H0).
    assert (Hbody : pf_body neg (ip ++ tail) = Some z).
    { rewrite (pf_body_spelled neg ip tail f nd Hi Hf Hn). apply pf_val_spec. repeat split; assumption. }
    destruct Hs; cbn [app]; try exact Hbody.
    (* no sign: the first byte is a digit or the dot *)
    destruct (ip ++ tail) as [|c r] eqn:E; [exact Hbody|].
    rewrite sign_split_other; [exact Hbody | |]; intros ->.
    + destruct ip as [|d ip]; cbn [app] in E.
      * destruct Hf as [(-> & _)|(f3 & zs & -> & _)]; discriminate E.
      * injection E as -> _. inversion Hi as [|? ? Hd _]; subst. unfold dec_digit in Hd. lia.
    + destruct ip as [|d ip]; cbn [app] in E.
      * destruct Hf as [(-> & _)|(f3 & zs & -> & _)]; discriminate E.
      * injection E as -> _. inversion Hi as [|? ? Hd _]; subst. unfold dec_digit in Hd. lia.
  - intros H.
    assert (G : forall sg neg body, cell = sg ++ body -> sign_of sg neg -> pf_body neg body = Some z -> float_spelling z cell).
    { intros sg neg body E Hs Hb. destruct (pf_body_inv neg body z Hb) as (ip & tail & f & nd & -> & Hi & Hf & Hn & Hv).
      apply pf_val_spec in Hv. destruct Hv as (Hbd & Hz & H0).
      exists sg, neg, ip, tail, f, nd. repeat split; assumption. }
    destruct cell as [|c r].
    + change (sign_split []) with (false, @nil N) in H. apply (G [] false []); [reflexivity | constructor | exact H].
    + destruct (N.eq_dec c 45) as [->|N45].
      { change (sign_split (45 :: r)) with (true, r) in H. apply (G [45] true r); [reflexivity | constructor | exact H]. }
      destruct (N.eq_dec c 43) as [->|N43].
      { change (sign_split (43 :: r)) with (false, r) in H. apply (G [43] false r); [reflexivity | constructor | exact H]. }
      rewrite (sign_split_other c r N45 N43) in H. apply (G [] false (c :: r)); [reflexivity | constructor | exact H].
Qed.

Lemma float_spelling_nonnil z cell : float_spelling z cell -> cell <> [].
Proof.
  intros (sg & neg & ip & tail & f & nd & -> & _ & _ & Hf & Hn & _) E.
  apply app_eq_nil in E. destruct E as [_ E]. apply app_eq_nil in E. destruct E as [-> ->].
  destruct Hf as [(_ & _ & ->)|(f3 & zs & E & _)]; [cbn [length] in Hn; lia | discriminate E].
Qed.
Lemma float_spelling_bound z cell : float_spelling z cell -> float_ok z.
Proof.
  intros (sg & neg & ip & tail & f & nd & _ & _ & _ & _ & _ & Hb & -> & _). unfold float_ok, float_bound, signed.
  destruct neg; lia.
Qed.

(* the usual forms, in closed form: sign, integer digits with any leading zeros, 0 .. 3 fraction digits *)
Theorem float_spelling_plain (neg : bool) sg (k : nat) (i : N) fr :
  sign_of sg neg -> dec_string fr -> (length fr <= 3)%nat ->
  let m := i * 1000 + dec_value fr * 10 ^ N.of_nat (3 - length fr) in
  (Z.of_N m < 1000000000000000)%Z -> (neg = true -> m <> 0) ->
  float_spelling (signed neg m) (sg ++ (repeat 48 k ++ itoa i) ++ match fr with [] => [] | _ => 46 :: fr end).
Proof.
  intros Hs Hf Hl m Hb H0.
  assert (Ev : dec_value (repeat 48 k ++ itoa i) = i) by (rewrite dec_value_lead; apply dec_value_itoa).
  exists sg, neg, (repeat 48 k ++ itoa i), (match fr with [] => [] | _ => 46 :: fr end),
         (dec_value fr * 10 ^ N.of_nat (3 - length fr)), (length fr).
  split; [reflexivity|]. split; [exact Hs|]. split; [apply dec_string_app; [apply dec_string_zeros | apply dec_string_itoa]|].
  split.
  { destruct fr as [|c fr]; [left; repeat split; reflexivity|]. right. exists (c :: fr), [].
    rewrite app_nil_r. repeat split; try assumption. constructor. }
  rewrite Ev. split.
  { rewrite app_length. pose proof (itoa_nonnil i) as Hn. destruct (itoa i); [contradiction | cbn [length]; lia]. }
  repeat split; assumption.
Qed.

(* the script info timer is the same number with a decimal comma *)
Definition timer_spelling (z : Z) (content : str) : Prop := float_spelling z (comma_to_dot content).
Theorem timer_spelling_iff z content : timer_spelling z content <-> parse_float3 (comma_to_dot content) = Some z.
Proof. apply float_spelling_iff. Qed.
