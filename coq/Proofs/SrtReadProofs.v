(* SubRip, the reading half: the reader returns the cues a rendering denotes, whatever the rendering choices
   (byte-order mark, index line present / absent / not a number, blank-line padding, ',' or '.' and 1-3 fraction
   digits, spacing around the arrow, trailing coordinates), and the style state carried across the lines of a cue. *)
From Coq Require Import List ZArith NArith Lia Bool Arith.
From Astisub Require Import Kit.Base Kit.Str Kit.Html Kit.Scan Model.Dur Model.Srt.
From Astisub Require Import Proofs.DurProofs Proofs.ScanProofs Proofs.SrtEscProofs Proofs.SrtProofs.
From Astisub Require Import Proofs.SrtSimple.
Import ListNotations.
Open Scope N_scope.

(* ================= generic string facts ================= *)
Definition ws (s : str) : Prop := Forall (fun c => is_ascii_space c = true) s.

Lemma ws_ascii s : ws s -> all_ascii s.
Proof.
  unfold ws, all_ascii. intros H. eapply Forall_impl; [|exact H]. cbv beta. intros c Hc. unfold is_ascii_space in Hc.
  apply orb_true_iff in Hc. destruct Hc as [Hc|Hc]; [apply N.eqb_eq in Hc; subst; reflexivity|].
  apply andb_true_iff in Hc. destruct Hc as [_ Hc]. apply N.leb_le in Hc. lia.
Qed.
Lemma ws_not_in s c : ws s -> is_ascii_space c = false -> ~ In c s.
Proof. intros H Hc Hin. unfold ws in H. rewrite Forall_forall in H. rewrite (H c Hin) in Hc. discriminate. Qed.

Lemma trim_right_fuel_ws z r : plain_byte z = true -> forall w n, ws w -> (length w <= n)%nat ->
  trim_right_fuel n (w ++ z :: r) = z :: r.
Proof.
  intros Hz. assert (Hstop : forall n, trim_right_fuel n (z :: r) = z :: r).
  { intros [|n]; [reflexivity|]. cbn [trim_right_fuel strip_space1_rev]. unfold plain_byte in Hz.
    apply andb_true_iff in Hz. destruct Hz as [H1 H2]. apply negb_true_iff in H1. rewrite H1, H2. reflexivity. }
  induction w as [|c w IH]; intros n Hw Hn; [apply Hstop|].
  inversion Hw as [|? ? Hc Hw']; subst. destruct n as [|n]; [cbn [length] in Hn; lia|].
  cbn [app trim_right_fuel strip_space1_rev]. rewrite Hc. apply IH; [exact Hw' | cbn [length] in Hn; lia].
Qed.

(* a string with plain first and last bytes, followed by ASCII white space *)
Definition ends_plain (s : str) : Prop := s <> [] /\ plain_byte (hd 0 s) = true /\ plain_byte (last s 0) = true.

Lemma trim_space_ends_ws s w : ends_plain s -> ws w -> trim_space (s ++ w) = s.
Proof.
  intros (Hne & Hh & Hl) Hw. unfold trim_space.
  destruct s as [|c r]; [contradiction|]. cbn [hd] in Hh.
  change ((c :: r) ++ w) with (c :: (r ++ w)). rewrite (trim_left_plain c _ Hh).
  change (c :: (r ++ w)) with ((c :: r) ++ w).
  destruct (@exists_last _ (c :: r) Hne) as (s' & z & E). rewrite E in *. clear E. rewrite last_last in Hl.
  unfold trim_right. rewrite !rev_app_distr. cbn [rev app].
  rewrite (trim_right_fuel_ws z (rev s') Hl).
  - cbn [rev]. rewrite rev_involutive. reflexivity.
  - apply Forall_rev. exact Hw.
  - rewrite rev_length, !app_length. lia.
Qed.
Lemma trim_space_ends s : ends_plain s -> trim_space s = s.
Proof. intros H. rewrite <- (app_nil_r s) at 1. apply trim_space_ends_ws; [exact H | constructor]. Qed.

Lemma trim_space_bom_ends s : ends_plain s -> trim_space (bom ++ s) = bom ++ s.
Proof.
  intros (Hne & _ & Hl). unfold trim_space. rewrite trim_left_bom.
  destruct (@exists_last _ s Hne) as (s' & z & E). rewrite E in *. rewrite last_last in Hl. rewrite app_assoc. apply trim_right_plain. exact Hl.
Qed.

Lemma utf8_valid_fuel_enough n : forall m s, (length s < n)%nat -> (length s < m)%nat ->
  utf8_valid_fuel n s = utf8_valid_fuel m s.
Proof.
  induction n as [|n IH]; intros m s Hn Hm; [lia|]. destruct m as [|m]; [lia|].
  cbn [utf8_valid_fuel]. destruct s as [|c t]; [reflexivity|]. cbn [length] in Hn, Hm.
  destruct (c <? 128); [apply IH; lia|].
  destruct ((194 <=? c) && (c <=? 223)).
  { destruct t as [|c1 t1]; [reflexivity|]. cbn [length] in Hn, Hm. f_equal. apply IH; lia. }
  destruct ((224 <=? c) && (c <=? 239)).
  { destruct t as [|c1 [|c2 t2]]; try reflexivity. cbn [length] in Hn, Hm. f_equal. apply IH; lia. }
  destruct ((240 <=? c) && (c <=? 244)); [|reflexivity].
  destruct t as [|c1 [|c2 [|c3 t3]]]; try reflexivity. cbn [length] in Hn, Hm. f_equal. apply IH; lia.
Qed.
Lemma utf8_valid_bom s : utf8_valid (bom ++ s) = utf8_valid s.
Proof.
  unfold utf8_valid, bom. cbn [app].
  assert (E : forall f, utf8_valid_fuel (S f) (239 :: 187 :: 191 :: s) = utf8_valid_fuel f s) by reflexivity.
  rewrite E. apply utf8_valid_fuel_enough; cbn [length]; lia.
Qed.

Lemma trim_prefix_bom_plain s : plain_byte (hd 0 s) = true -> trim_prefix bom s = s.
Proof.
  destruct s as [|c r]; [reflexivity|]. cbn [hd]. intros H. unfold trim_prefix, bom. cbn [prefix].
  destruct (239 =? c) eqn:E; [|reflexivity]. apply N.eqb_eq in E. subst c. discriminate.
Qed.

(* ================= the byte-order mark and the [first] flag ================= *)
Definition with_bom (b : bool) (x : str) : str := if b then bom ++ x else x.
Definition head_ok (x : str) : Prop := x = [] \/ (ends_plain x).

Lemma srt_step_first s b x : head_ok x -> srt_step s true (with_bom b x) = srt_step s false x.
Proof.
  intros Hx.
  assert (E : trim_space (with_bom b x) = with_bom b x /\ trim_space x = x /\
              utf8_valid (with_bom b x) = utf8_valid x /\ trim_prefix bom (with_bom b x) = x).
  { destruct Hx as [->|Hx].
    - destruct b; repeat split; reflexivity.
    - destruct b; cbn [with_bom].
      + split; [apply trim_space_bom_ends; exact Hx|]. split; [apply trim_space_ends; exact Hx|].
        split; [apply utf8_valid_bom|]. unfold trim_prefix. rewrite prefix_app. reflexivity.
      + split; [apply trim_space_ends; exact Hx|]. split; [apply trim_space_ends; exact Hx|].
        split; [reflexivity|]. apply trim_prefix_bom_plain. apply Hx. }
  destruct E as (E1 & E2 & E3 & E4). unfold srt_step. rewrite E1, E2, E3, E4. reflexivity.
Qed.

Lemma srt_run_first s b x R : head_ok x -> srt_run s true (with_bom b x :: R) = srt_run s false (x :: R).
Proof. intros Hx. cbn [srt_run]. rewrite (srt_step_first s b x Hx). reflexivity. Qed.

(* ================= cut / split / fields ================= *)
Lemma cut_skip h sp b : cut (h :: sp) b = None -> forall a, ~ In h a -> cut (h :: sp) (a ++ b) = None.
Proof.
  intros Hb. induction a as [|c t IH]; intros H; [exact Hb|].
  change (cut (h :: sp) ((c :: t) ++ b))
    with (match prefix (h :: sp) (c :: t ++ b) with
          | Some r => Some ([], r)
          | None => match cut (h :: sp) (t ++ b) with Some (a0, b0) => Some (c :: a0, b0) | None => None end
          end).
  rewrite prefix_head_ne by (intros E; apply H; left; exact E).
  rewrite IH by (intros Hin; apply H; right; exact Hin). reflexivity.
Qed.

Lemma split_two h sp a b : ~ In h a -> cut (h :: sp) b = None -> Str.split (h :: sp) (a ++ (h :: sp) ++ b) = [a; b].
Proof.
  intros Ha Hb. unfold Str.split. cbn [split_fuel]. rewrite (cut_found h sp a b Ha). f_equal.
  destruct (length (a ++ (h :: sp) ++ b)) as [|f]; [reflexivity|]. cbn [split_fuel]. rewrite Hb. reflexivity.
Qed.

Lemma contains_false_cut sep s : contains sep s = false -> cut sep s = None.
Proof. unfold contains. destruct (cut sep s); [discriminate | reflexivity]. Qed.

Lemma strip_space1_ws c r : is_ascii_space c = true -> strip_space1 (c :: r) = Some r.
Proof. intros H. cbn [strip_space1]. rewrite H. reflexivity. Qed.

(* what follows the end time: nothing, or white space and anything *)
Definition tail_starts_ws (tl : str) : Prop := tl = [] \/ is_ascii_space (hd 0 tl) = true.

Lemma fields_fuel_word tl : tail_starts_ws tl -> forall T fuel cur, all_plain T -> (length (T ++ tl) < fuel)%nat ->
  (cur <> [] \/ T <> []) -> exists rest, fields_fuel fuel cur (T ++ tl) = (rev cur ++ T) :: rest.
Proof.
  intros Htl. induction T as [|c r IH]; intros fuel cur Hp Hf Hne; (destruct fuel as [|f]; [lia|]).
  - cbn [app]. rewrite app_nil_r. destruct cur as [|c0 cur']; [destruct Hne; contradiction|].
    destruct Htl as [->|Hw]; [exists []; reflexivity|].
    destruct tl as [|w tl']; [exists []; reflexivity|]. cbn [hd] in Hw.
    cbn [fields_fuel]. rewrite (strip_space1_ws w tl' Hw). eexists. reflexivity.
  - inversion Hp as [|? ? Hc Hr]; subst. cbn [app fields_fuel]. rewrite (strip_space1_plain c _ Hc).
    destruct (IH f (c :: cur) Hr) as (rest & E); [cbn [app length] in Hf; lia | left; discriminate|].
    exists rest. rewrite E. cbn [rev]. rewrite <- app_assoc. reflexivity.
Qed.

Lemma fields_fuel_skip_ws X : forall w fuel, ws w -> fields_fuel (length w + fuel) [] (w ++ X) = fields_fuel fuel [] X.
Proof.
  induction w as [|c w IH]; intros fuel Hw; [reflexivity|]. inversion Hw as [|? ? Hc Hw']; subst.
  cbn [length plus app fields_fuel]. rewrite (strip_space1_ws c _ Hc). apply IH. exact Hw'.
Qed.

Lemma fields_first w T tl : ws w -> all_plain T -> T <> [] -> tail_starts_ws tl ->
  exists rest, fields (w ++ T ++ tl) = T :: rest.
Proof.
  intros Hw Hp Hne Htl. unfold fields.
  replace (S (length (w ++ T ++ tl))) with (length w + S (length (T ++ tl)))%nat by (rewrite (app_length w); lia).
  rewrite (fields_fuel_skip_ws _ w _ Hw).
  destruct (fields_fuel_word tl Htl T (S (length (T ++ tl))) [] Hp ltac:(lia) (or_intror Hne)) as (rest & E).
  exists rest. exact E.
Qed.

(* ================= numbers ================= *)
Lemma digit_cons_digit c u v : digit_cons c u = Some v -> is_digit c = true.
Proof.
  unfold digit_cons. intros H.
  repeat (match type of H with context [if ?b then _ else _] => destruct b eqn:?E end;
          [match goal with E0 : (c =? _) = true |- _ => apply N.eqb_eq in E0; subst c; reflexivity end|]).
  discriminate.
Qed.
Lemma str_to_uint_digits : forall s u, str_to_uint s = Some u -> digits s.
Proof.
  unfold digits. induction s as [|c r IH]; intros u H; [reflexivity|]. cbn [str_to_uint] in H.
  destruct (str_to_uint r) as [u'|] eqn:E; [|discriminate]. cbn [forallb].
  rewrite (digit_cons_digit c u' u H), (IH u' eq_refl). reflexivity.
Qed.
(* a string that starts with a digit and contains a non-digit is not a number *)
Lemma atoi_not_number c r x : is_digit c = true -> In x (c :: r) -> is_digit x = false -> atoi (c :: r) = None.
Proof.
  intros Hc Hin Hx. unfold atoi.
  assert (Hm : match c :: r with 45 :: r0 => (true, r0) | 43 :: r0 => (false, r0) | _ => (false, c :: r) end = (false, c :: r)).
  { destruct c as [|p]; [reflexivity|]. do 8 (destruct p as [p|p|]; try reflexivity; try discriminate). }
  rewrite Hm. unfold atoi_digits. destruct (str_to_uint (c :: r)) as [u|] eqn:E; [|reflexivity].
  apply str_to_uint_digits in E. rewrite (digits_in _ x E Hin) in Hx. discriminate.
Qed.

Lemma unescape_nonnil s : s <> [] -> unescape_html s <> [].
Proof.
  destruct s as [|c t]; [contradiction|]. intros _. unfold unescape_html.
  destruct (first_match unesc_pairs (c :: t)) as [[n rest]|] eqn:E.
  - rewrite (replace_cons_match _ _ _ _ _ unesc_pairs_ne E).
    assert (Hn : n <> []).
    { unfold unesc_pairs in E. cbn [first_match] in E.
      destruct (prefix e_amp (c :: t)); [inversion E; discriminate|].
      destruct (prefix e_lt (c :: t)); [inversion E; discriminate|].
      destruct (prefix e_nbsp (c :: t)); [inversion E; discriminate|]. discriminate. }
    destruct n; [contradiction | discriminate].
  - rewrite (replace_cons_nomatch _ _ _ E). discriminate.
Qed.

(* ================= timestamps with ',' or '.' and 1-3 fraction digits ================= *)
Definition ts (sep : N) (k : nat) (t : Z) : str := format_duration t [sep] k.
Definition sep_choice (sep : N) : Prop := sep = comma \/ sep = dot.
Definition trunc_k (k : nat) (t : Z) : Z := (t - t mod frac_div k)%Z.

Lemma sep_choice_ok sep : sep_choice sep -> sep_ok sep /\ plain_byte sep = true /\ sep <> 45.
Proof. intros [->| ->]; repeat split; discriminate. Qed.

Lemma plain_not_ws c : plain_byte c = true -> is_ascii_space c = false.
Proof. unfold plain_byte. intros H. apply andb_true_iff in H. destruct H as [H _]. apply negb_true_iff in H. exact H. Qed.

Lemma ts_facts sep k t : sep_choice sep -> (1 <= k <= 3)%nat -> (0 <= t)%Z ->
  all_plain (ts sep k t) /\ ends_plain (ts sep k t) /\ ~ In 45 (ts sep k t).
Proof.
  intros Hs Hk Ht. destruct (sep_choice_ok sep Hs) as ((Hsd & Hsc) & Hsp & Hs45). unfold ts.
  destruct (format_grammar sep k t Hk Ht) as (E & Dh & Lh & Dm & _ & _ & Ds & _ & _ & Df & Lf).
  rewrite E.
  assert (P : all_plain (two (f_h t) ++ [colon] ++ two (f_m t) ++ [colon] ++ two (f_s t) ++ [sep] ++ pad_left 48 k (itoa_z (f_fr k t)))).
  { apply all_plain_app; [apply digits_all_plain; exact Dh|]. apply all_plain_app; [repeat constructor|].
    apply all_plain_app; [apply digits_all_plain; exact Dm|]. apply all_plain_app; [repeat constructor|].
    apply all_plain_app; [apply digits_all_plain; exact Ds|]. apply all_plain_app; [constructor; [exact Hsp | constructor]|].
    apply digits_all_plain; exact Df. }
  split; [exact P|]. split.
  - assert (Hne : two (f_h t) ++ [colon] ++ two (f_m t) ++ [colon] ++ two (f_s t) ++ [sep] ++ pad_left 48 k (itoa_z (f_fr k t)) <> []).
    { destruct (two (f_h t)); [cbn [length] in Lh; lia | discriminate]. }
    split; [exact Hne|]. unfold all_plain in P. rewrite Forall_forall in P. split; apply P.
    + destruct (two (f_h t)); [cbn [length] in Lh; lia | left; reflexivity].
    + destruct (@exists_last _ _ Hne) as (s' & z & E2). rewrite E2, last_last. apply in_or_app. right. left. reflexivity.
  - intros Hin.
    apply in_app_or in Hin; destruct Hin as [Hin|Hin]; [exact (digits_not_in _ 45 Dh eq_refl Hin)|].
    apply in_app_or in Hin; destruct Hin as [[Hin|[]]|Hin]; [discriminate|].
    apply in_app_or in Hin; destruct Hin as [Hin|Hin]; [exact (digits_not_in _ 45 Dm eq_refl Hin)|].
    apply in_app_or in Hin; destruct Hin as [[Hin|[]]|Hin]; [discriminate|].
    apply in_app_or in Hin; destruct Hin as [Hin|Hin]; [exact (digits_not_in _ 45 Ds eq_refl Hin)|].
    apply in_app_or in Hin; destruct Hin as [[Hin|[]]|Hin]; [congruence|].
    exact (digits_not_in _ 45 Df eq_refl Hin).
Qed.

Lemma digits_ends_plain s : digits s -> s <> [] -> ends_plain s.
Proof.
  intros Hd Hne. split; [exact Hne|]. split.
  - destruct s as [|c r]; [contradiction|]. apply is_digit_plain. apply (digits_in _ c Hd). left. reflexivity.
  - apply is_digit_plain. apply (digits_in s _ Hd).
    destruct (@exists_last _ s Hne) as (s' & z & ->). rewrite last_last. apply in_or_app. right. left. reflexivity.
Qed.

(* with its own separator the timestamp (and white space after it) parses to the truncated instant *)
Lemma parse_duration_ts sep k t w : sep_choice sep -> (1 <= k <= 3)%nat -> (0 <= t <= max_int64)%Z -> ws w ->
  parse_duration (ts sep k t ++ w) sep 3 = Some (trunc_k k t).
Proof.
  intros Hs Hk [Ht Hmax] Hw. destruct (sep_choice_ok sep Hs) as (Hsep & Hsp & _). unfold ts.
  destruct (format_grammar sep k t Hk Ht) as (E & Dh & _ & Dm & _ & Bm & Ds & _ & Bs & Df & Lf).
  destruct (fields_bounds k t Hk Ht) as (Bh & _ & _ & Bf & Hsum).
  rewrite E. unfold parse_duration.
  set (HMS := two (f_h t) ++ [colon] ++ two (f_m t) ++ [colon] ++ two (f_s t)).
  set (F := pad_left 48%N k (itoa_z (f_fr k t))) in *.
  assert (Esplit : split_byte sep ((two (f_h t) ++ [colon] ++ two (f_m t) ++ [colon] ++ two (f_s t) ++ [sep] ++ F) ++ w) = [HMS; F ++ w]).
  { replace ((two (f_h t) ++ [colon] ++ two (f_m t) ++ [colon] ++ two (f_s t) ++ [sep] ++ F) ++ w) with (HMS ++ sep :: (F ++ w))
      by (unfold HMS; rewrite <- !app_assoc; reflexivity).
    rewrite split_byte_app by (apply hms_no_sep; assumption).
    rewrite split_byte_none; [reflexivity|].
    intros Hin. apply in_app_or in Hin. destruct Hin as [Hin | Hin].
    - exact (digits_not_in F sep Df (proj1 Hsep) Hin).
    - exact (ws_not_in w sep Hw (plain_not_ws sep Hsp) Hin). }
  rewrite Esplit. cbn [rev app].
  assert (HneF : F <> []). { intros EF. rewrite EF in Lf. cbn in Lf. lia. }
  rewrite (trim_space_ends_ws F w (digits_ends_plain F Df HneF) Hw). rewrite Lf.
  destruct (Nat.ltb 3 k) eqn:E3; [apply Nat.ltb_lt in E3; lia|].
  rewrite (atoi_no_sign F Df HneF). unfold F at 1. rewrite (proj2 (frac_digits k (f_fr k t) (proj1 Bf))).
  rewrite Z2N.id by lia.
  assert (Hfr_small : (f_fr k t < 1000)%Z).
  { assert (10 ^ Z.of_nat k <= 1000)%Z by (assert (k = 1 \/ k = 2 \/ k = 3)%nat as [-> | [-> | ->] ] by lia; cbn; lia). lia. }
  destruct ((f_fr k t <? - max_int64 - 1)%Z || (max_int64 <? f_fr k t)%Z) eqn:B.
  { apply orb_true_iff in B. unfold max_int64 in *. destruct B as [B|B]; apply Z.ltb_lt in B; lia. }
  cbn [join].
  assert (Hh : (f_h t <= max_int64)%Z).
  { unfold f_h, hour_ns. assert (t / 3600000000000 <= t)%Z by (apply Z.div_le_upper_bound; lia). lia. }
  unfold HMS. rewrite parse_hms_spec by (unfold max_int64 in *; lia).
  f_equal. unfold trunc_k. rewrite <- Hsum. unfold pow10_int, ms_ns, frac_div.
  assert (k = 1 \/ k = 2 \/ k = 3)%nat as [-> | [-> | ->] ] by lia; cbn; lia.
Qed.

(* a '.' timestamp is not accepted by the ',' attempt, so the '.' attempt decides *)
Lemma parse_duration_dot_comma k t w : (1 <= k <= 3)%nat -> (0 <= t)%Z -> ws w ->
  parse_duration (ts dot k t ++ w) comma 3 = None.
Proof.
  intros Hk Ht Hw. unfold ts.
  destruct (format_grammar dot k t Hk Ht) as (E & Dh & Lh & Dm & _ & _ & Ds & Ls & _ & Df & Lf).
  rewrite E. unfold parse_duration.
  set (A := two (f_h t)) in *. set (B := two (f_m t)) in *. set (C := two (f_s t)) in *.
  set (F := pad_left 48%N k (itoa_z (f_fr k t))) in *.
  set (whole := (A ++ [colon] ++ B ++ [colon] ++ C ++ [dot] ++ F) ++ w).
  assert (Nc : ~ In comma whole).
  { unfold whole. intros Hin. apply in_app_or in Hin. destruct Hin as [Hin|Hin]; [|exact (ws_not_in w comma Hw eq_refl Hin)].
    apply in_app_or in Hin; destruct Hin as [Hin|Hin]; [exact (digits_not_in _ comma Dh eq_refl Hin)|].
    apply in_app_or in Hin; destruct Hin as [[Hin|[]]|Hin]; [discriminate|].
    apply in_app_or in Hin; destruct Hin as [Hin|Hin]; [exact (digits_not_in _ comma Dm eq_refl Hin)|].
    apply in_app_or in Hin; destruct Hin as [[Hin|[]]|Hin]; [discriminate|].
    apply in_app_or in Hin; destruct Hin as [Hin|Hin]; [exact (digits_not_in _ comma Ds eq_refl Hin)|].
    apply in_app_or in Hin; destruct Hin as [[Hin|[]]|Hin]; [discriminate|].
    exact (digits_not_in _ comma Df eq_refl Hin). }
  rewrite (split_byte_none comma whole Nc). cbn [rev app].
  assert (HneC : C <> []) by (intros EC; rewrite EC in Ls; discriminate).
  assert (Hhms : parse_hms whole = None).
  { unfold parse_hms, whole.
    assert (EP : ends_plain (A ++ [colon] ++ B ++ [colon] ++ C ++ [dot] ++ F)).
    { pose proof (ts_facts dot k t (or_intror eq_refl) Hk Ht) as (_ & EPl & _). unfold ts in EPl. rewrite E in EPl. exact EPl. }
    rewrite (trim_space_ends_ws _ w EP Hw). cbn [app].
    rewrite (split_byte_app colon A) by (apply digits_not_in; [exact Dh | reflexivity]).
    rewrite (split_byte_app colon B) by (apply digits_not_in; [exact Dm | reflexivity]).
    rewrite (split_byte_none colon (C ++ dot :: F)).
    2:{ intros Hin. apply in_app_or in Hin. destruct Hin as [Hin|[Hin|Hin]];
        [exact (digits_not_in _ colon Ds eq_refl Hin) | discriminate | exact (digits_not_in _ colon Df eq_refl Hin)]. }
    assert (EPC : ends_plain (C ++ dot :: F)).
    { assert (HneF : F <> []) by (intros EF; rewrite EF in Lf; cbn in Lf; lia).
      split; [destruct C; [contradiction | discriminate]|]. split.
      - destruct C as [|c0 C']; [contradiction|]. cbn [app hd]. apply is_digit_plain. apply (digits_in _ c0 Ds). left. reflexivity.
      - destruct (@exists_last _ F HneF) as (F' & z & EF). rewrite EF. change (C ++ dot :: F' ++ [z]) with (C ++ (dot :: F') ++ [z]).
        rewrite app_assoc, last_last. apply is_digit_plain. apply (digits_in _ z Df). rewrite EF. apply in_or_app. right. left. reflexivity. }
    rewrite (trim_space_ends _ EPC).
    destruct C as [|c0 C']; [contradiction|]. cbn [app].
    rewrite (atoi_not_number c0 (C' ++ dot :: F) dot).
    - reflexivity.
    - apply (digits_in _ c0 Ds). left. reflexivity.
    - right. apply in_or_app. right. left. reflexivity.
    - reflexivity. }
  rewrite Hhms. reflexivity.
Qed.

Lemma parse_srt_ts sep k t w : sep_choice sep -> (1 <= k <= 3)%nat -> (0 <= t <= max_int64)%Z -> ws w ->
  parse_srt (ts sep k t ++ w) = Some (trunc_k k t).
Proof.
  intros Hs Hk Ht Hw. unfold parse_srt. destruct Hs as [-> | ->].
  - rewrite (parse_duration_ts comma k t w (or_introl eq_refl) Hk Ht Hw). reflexivity.
  - rewrite (parse_duration_dot_comma k t w Hk (proj1 Ht) Hw). apply (parse_duration_ts dot k t w (or_intror eq_refl) Hk Ht Hw).
Qed.

(* ================= reader steps, any style state ================= *)
Definition pend (s : rstate) : list (list srun) := match r_cur s with Some c => si_lines c | None => r_pre s end.
Definition add_line_a (s : rstate) (rs : list srun) (a : sa) : rstate :=
  match r_cur s with
  | Some it => mkR (r_done s) (Some (mkSitem (si_idx it) (si_st it) (si_en it) (si_lines it ++ [rs]))) a (r_pre s)
  | None => mkR (r_done s) None a (r_pre s ++ [rs])
  end.
Definition set_sa (s : rstate) (a : sa) : rstate := mkR (r_done s) (r_cur s) a (r_pre s).

Lemma pend_add s rs a : pend (add_line_a s rs a) = pend s ++ [rs].
Proof. unfold pend, add_line_a. destruct (r_cur s); reflexivity. Qed.
Lemma close_add s rs a fl : close_cur (add_line_a s rs a) fl = close_cur s fl.
Proof. unfold close_cur, add_line_a. destruct (r_cur s); reflexivity. Qed.
Lemma sa_add s rs a : r_sa (add_line_a s rs a) = a.
Proof. unfold add_line_a. destruct (r_cur s); reflexivity. Qed.

(* a text line (no arrow): its runs are appended, or only the style state changes when it has no runs *)
Lemma step_text s x rs a' : trim_space x = x -> utf8_valid x = true -> contains arrow x = false ->
  parse_text_srt x (r_sa s) = (rs, a') ->
  srt_step s false x = Ok (match rs with [] => set_sa s a' | _ => add_line_a s rs a' end).
Proof.
  intros Ht Hu Hc Hp. unfold srt_step. rewrite Ht, Hu. cbn [negb]. rewrite Hc, Hp.
  unfold add_line_a, set_sa. destruct rs; [reflexivity|]. destruct (r_cur s); reflexivity.
Qed.

Lemma step_blank s : srt_step s false [] = Ok (add_line_a s [blank_run] (r_sa s)).
Proof. apply (step_text s [] [blank_run] (r_sa s)); reflexivity. Qed.

Fixpoint add_blanks (n : nat) (s : rstate) : rstate :=
  match n with O => s | S m => add_blanks m (add_line_a s [blank_run] (r_sa s)) end.

Lemma run_blanks : forall n s R, srt_run s false (repeat [] n ++ R) = srt_run (add_blanks n s) false R.
Proof.
  induction n as [|n IH]; intros s R; [reflexivity|]. cbn [repeat app add_blanks].
  rewrite (srt_run_cons _ _ _ _ _ (step_blank s)). apply IH.
Qed.
Lemma repeat_snoc {A} (x : A) n : repeat x (S n) = repeat x n ++ [x].
Proof. induction n as [|n IH]; [reflexivity|]. cbn [repeat app] in *. rewrite <- IH. reflexivity. Qed.
Lemma add_blanks_facts : forall n s,
  pend (add_blanks n s) = pend s ++ repeat [blank_run] n /\ (forall fl, close_cur (add_blanks n s) fl = close_cur s fl) /\
  r_sa (add_blanks n s) = r_sa s.
Proof.
  induction n as [|n IH]; intros s; [rewrite app_nil_r; repeat split|].
  cbn [add_blanks]. destruct (IH (add_line_a s [blank_run] (r_sa s))) as (P & C & A).
  rewrite P, A, pend_add, sa_add, <- app_assoc. repeat split. intros fl. rewrite C, close_add. reflexivity.
Qed.

(* an index line: one text token (no NUL byte: inside the faithful domain of the tokenizer model, [index_ok_simple]) *)
Definition index_ok (x : str) : Prop :=
  ends_plain x /\ utf8_valid x = true /\ contains arrow x = false /\ ~ In 60 x /\ ~ In 0 x.
Lemma index_ok_simple x : index_ok x -> html_simple x = true.
Proof. intros (_ & _ & _ & H60 & H0). apply text_line_simple; assumption. Qed.
Definition index_run (x : str) (a : sa) : srun := mkSrun (unescape_html x) (if sa_styled a then Some a else None) 0.

Lemma parse_text_plainline x a : index_ok x -> parse_text_srt x a = ([index_run x a], a).
Proof.
  intros (He & _ & _ & Hlt & _). pose proof (trim_space_ends x He) as Ht. destruct He as (Hne & _).
  unfold parse_text_srt. rewrite Ht. destruct x as [|c r]; [contradiction|]. cbv iota. set (x := c :: r) in *.
  rewrite tokenize_tokc. rewrite <- (app_nil_r x) at 1.
  rewrite tokc_app_text by exact Hlt. rewrite tokc_nil, flush_rev_text by exact Hne.
  rewrite pt_text by (rewrite Ht; exact Hne). reflexivity.
Qed.

Lemma step_index s x : index_ok x -> srt_step s false x = Ok (add_line_a s [index_run x (r_sa s)] (r_sa s)).
Proof.
  intros Hx. pose proof (parse_text_plainline x (r_sa s) Hx) as Hp. destruct Hx as (He & Hu & Hc & _).
  apply (step_text s x _ _ (trim_space_ends x He) Hu Hc Hp).
Qed.

Lemma index_ok_head x : index_ok x -> head_ok x.
Proof. intros (He & _). right. exact He. Qed.

(* closing the pending cue *)
Lemma strip_lines_app_blanks : forall L n, Forall line_keeps L -> strip_lines (L ++ repeat [blank_run] n) = L.
Proof.
  induction L as [|l L IH]; intros n H.
  - destruct n; reflexivity.
  - inversion H as [|? ? Hl HL]; subst. cbn [app]. rewrite (strip_lines_cons_keep l _ Hl), (IH n HL). reflexivity.
Qed.

Definition index_text (ix : option str) : str := match ix with Some x => unescape_html x | None => [] end.

Lemma finalize_gap L n (ix : option str) a : Forall line_keeps L ->
  (ix = None -> (1 <= n)%nat \/ L = []) ->
  (forall x, ix = Some x -> x <> []) ->
  finalize (L ++ repeat [blank_run] n ++ match ix with Some x => [[index_run x a]] | None => [] end) = (L, index_text ix).
Proof.
  intros HL Hgap Hne. destruct ix as [x|].
  - rewrite app_assoc. unfold finalize. rewrite rev_app_distr. cbn [rev app run_texts map index_run sr_text concat].
    rewrite app_nil_r. pose proof (unescape_nonnil x (Hne x eq_refl)) as Hu. cbn [index_text].
    destruct (unescape_html x); [contradiction|]. rewrite rev_involutive, (strip_lines_app_blanks L n HL). reflexivity.
  - rewrite app_nil_r. cbn [index_text]. destruct n as [|n].
    + destruct (Hgap eq_refl) as [Hn | ->]; [lia|]. reflexivity.
    + rewrite repeat_snoc, app_assoc. unfold finalize. rewrite rev_app_distr. cbn [rev app run_texts map blank_run sr_text concat].
      rewrite <- app_assoc. change ([[blank_run]]) with (repeat [blank_run] 1).
      rewrite <- repeat_app, (strip_lines_app_blanks L _ HL). reflexivity.
Qed.

(* ================= renderings ================= *)
Record rend := mkRend {
  rd_blank_before : nat;      (* blank lines before the cue *)
  rd_index : option str;      (* the index line, if any: a number or anything else that is one piece of plain text *)
  rd_sep : N;                 (* ',' or '.' *)
  rd_digits : nat;            (* 1..3 fraction digits *)
  rd_sp_left : str;           (* white space before the arrow (may be empty) *)
  rd_sp_right : str;          (* white space after the arrow (may be empty) *)
  rd_tail : str               (* after the end time: nothing, or white space then coordinates *)
}.
Record rcue := mkRcue { rc_st : Z; rc_en : Z; rc_body : list str }.

Definition tail_ok (tl : str) : Prop :=
  all_ascii tl /\ contains arrow tl = false /\
  (tl = [] \/ (is_ascii_space (hd 0 tl) = true /\ plain_byte (last tl 0) = true)).
Definition rend_ok (c : rend) : Prop :=
  match rd_index c with Some x => index_ok x | None => True end /\
  sep_choice (rd_sep c) /\ (1 <= rd_digits c <= 3)%nat /\ ws (rd_sp_left c) /\ ws (rd_sp_right c) /\ tail_ok (rd_tail c).
(* without an index line at least one blank line must separate the cue from the previous one *)
Definition gap_ok (c : rend) : Prop := rd_index c = None -> (1 <= rd_blank_before c)%nat.

Definition rtime_line (c : rend) (st en : Z) : str :=
  ts (rd_sep c) (rd_digits c) st ++ rd_sp_left c ++ arrow ++ rd_sp_right c ++ ts (rd_sep c) (rd_digits c) en ++ rd_tail c.
Definition cue_lines (c : rend) (q : rcue) : list str :=
  repeat [] (rd_blank_before c) ++ match rd_index c with Some x => [x] | None => [] end ++
  rtime_line c (rc_st q) (rc_en q) :: rc_body q.
Definition all_cue_lines (cs : list (rend * rcue)) : list str := concat (map (fun p => cue_lines (fst p) (snd p)) cs).
Definition bom_first (b : bool) (ls : list str) : list str := match ls with x :: r => with_bom b x :: r | [] => [] end.
Definition render (b : bool) (cs : list (rend * rcue)) (eof : nat) : list str :=
  bom_first b (all_cue_lines cs ++ repeat [] eof).

(* the text lines of a cue, with the style state threaded through them *)
Fixpoint thread (xs : list str) (a : sa) : list (list srun) * sa :=
  match xs with
  | [] => ([], a)
  | x :: r => let '(rs, a') := parse_text_srt x a in
              let '(ls, a'') := thread r a' in
              (match rs with [] => ls | _ => rs :: ls end, a'')
  end.
(* a raw body line is an arbitrary string: the last conjunct keeps it inside the faithful domain of the markup tokenizer
   model (no raw-text element such as script/style/title, no comment, no '&' or CR in an attribute value, no NUL byte);
   outside it the statement below would hold of the model only (witness: Proofs/SrtSimpleRaw.v) *)
Definition body_line_ok (x : str) : Prop :=
  trim_space x = x /\ utf8_valid x = true /\ contains arrow x = false /\ html_simple x = true.
Definition rcue_ok (q : rcue) : Prop :=
  (0 <= rc_st q <= max_int64)%Z /\ (0 <= rc_en q <= max_int64)%Z /\
  Forall body_line_ok (rc_body q) /\ Forall line_keeps (fst (thread (rc_body q) sa0)).

Definition index_value (ix : option str) : Z := atoi_val (index_text ix).
Lemma idx_match (t : str) : match t with [] => 0%Z | _ => atoi_val t end = atoi_val t.
Proof. destruct t; reflexivity. Qed.
Definition denote_cue (p : rend * rcue) : sitem :=
  let (c, q) := p in
  mkSitem (index_value (rd_index c)) (trunc_k (rd_digits c) (rc_st q)) (trunc_k (rd_digits c) (rc_en q))
          (fst (thread (rc_body q) sa0)).

(* ---- the timestamp line ---- *)
Lemma rtime_line_facts c st en : rend_ok c -> (0 <= st)%Z -> (0 <= en)%Z ->
  ends_plain (rtime_line c st en) /\ all_ascii (rtime_line c st en).
Proof.
  intros (_ & Hs & Hk & Hl & Hr & (Ta & _ & Tl)) Hst Hen.
  destruct (ts_facts _ _ st Hs Hk Hst) as (P1 & (N1 & H1 & _) & _). destruct (ts_facts _ _ en Hs Hk Hen) as (P2 & (N2 & _ & L2) & _).
  unfold rtime_line. set (T1 := ts (rd_sep c) (rd_digits c) st) in *. set (T2 := ts (rd_sep c) (rd_digits c) en) in *.
  split.
  - split; [destruct T1; [contradiction | discriminate]|]. split; [destruct T1; [contradiction | exact H1]|].
    destruct Tl as [E0 | (Hw0 & Hz)].
    + rewrite E0, app_nil_r. destruct (@exists_last _ T2 N2) as (s' & z & E). rewrite E in *. rewrite last_last in L2.
      rewrite !app_assoc, last_last. exact L2.
    + assert (Hn : rd_tail c <> []) by (intros E; rewrite E in Hw0; discriminate).
      destruct (@exists_last _ _ Hn) as (s' & z & E). rewrite E in *. rewrite last_last in Hz. rewrite !app_assoc, last_last. exact Hz.
  - apply Forall_app. split; [apply all_plain_ascii; exact P1|]. apply Forall_app. split; [apply ws_ascii; exact Hl|].
    apply Forall_app. split; [repeat constructor|]. apply Forall_app. split; [apply ws_ascii; exact Hr|].
    apply Forall_app. split; [apply all_plain_ascii; exact P2 | exact Ta].
Qed.

Lemma ws_no45 w : ws w -> ~ In 45 w.
Proof. intros H. apply (ws_not_in w 45 H). reflexivity. Qed.

Lemma step_rtime s c st en fl index : rend_ok c -> (0 <= st <= max_int64)%Z -> (0 <= en <= max_int64)%Z ->
  finalize (pend s) = (fl, index) ->
  srt_step s false (rtime_line c st en) =
  Ok (mkR (close_cur s fl)
          (Some (mkSitem (match index with [] => 0%Z | _ => atoi_val index end)
                         (trunc_k (rd_digits c) st) (trunc_k (rd_digits c) en) []))
          sa0 []).
Proof.
  intros Hc Hst Hen Hf. destruct (rtime_line_facts c st en Hc (proj1 Hst) (proj1 Hen)) as (He & Ha).
  destruct Hc as (_ & Hs & Hk & Hl & Hr & (_ & Tc & Tl)).
  destruct (ts_facts _ _ st Hs Hk (proj1 Hst)) as (P1 & _ & M1). destruct (ts_facts _ _ en Hs Hk (proj1 Hen)) as (P2 & (N2 & _) & M2).
  unfold srt_step. rewrite (trim_space_ends _ He), (utf8_valid_ascii _ Ha). cbn [negb].
  unfold pend in Hf.
  unfold rtime_line in *. set (T1 := ts (rd_sep c) (rd_digits c) st) in *. set (T2 := ts (rd_sep c) (rd_digits c) en) in *.
  replace (T1 ++ rd_sp_left c ++ arrow ++ rd_sp_right c ++ T2 ++ rd_tail c)
    with ((T1 ++ rd_sp_left c) ++ arrow ++ (rd_sp_right c ++ T2 ++ rd_tail c)) by (rewrite <- !app_assoc; reflexivity).
  assert (NA : ~ In 45 (T1 ++ rd_sp_left c)).
  { intros Hin. apply in_app_or in Hin. destruct Hin as [Hin|Hin]; [exact (M1 Hin) | exact (ws_no45 _ Hl Hin)]. }
  assert (CB : cut [45; 45; 62] (rd_sp_right c ++ T2 ++ rd_tail c) = None).
  { rewrite app_assoc. apply cut_skip; [apply contains_false_cut; exact Tc|].
    intros Hin. apply in_app_or in Hin. destruct Hin as [Hin|Hin]; [exact (ws_no45 _ Hr Hin) | exact (M2 Hin)]. }
  unfold arrow. rewrite (contains_found 45 [45; 62] _ _ NA), Hf, (split_two 45 [45; 62] _ _ NA CB).
  assert (TS : tail_starts_ws (rd_tail c)) by (destruct Tl as [E | (E & _)]; [left; exact E | right; exact E]).
  destruct (fields_first _ T2 _ Hr P2 N2 TS) as (rest & EF). rewrite EF.
  unfold T1. rewrite (parse_srt_ts _ _ st _ Hs Hk Hst Hl).
  rewrite <- (app_nil_r T2). unfold T2. rewrite (parse_srt_ts _ _ en [] Hs Hk Hen (Forall_nil _)). reflexivity.
Qed.

(* ---- the text lines ---- *)
Lemma run_body : forall xs D i st en acc a R, Forall body_line_ok xs ->
  srt_run (mkR D (Some (mkSitem i st en acc)) a []) false (xs ++ R) =
  srt_run (mkR D (Some (mkSitem i st en (acc ++ fst (thread xs a)))) (snd (thread xs a)) []) false R.
Proof.
  induction xs as [|x xs IH]; intros D i st en acc a R H.
  - cbn [app thread fst snd]. rewrite app_nil_r. reflexivity.
  - inversion H as [|? ? (Ht & Hu & Hc & _) Hxs]; subst. cbn [app thread].
    destruct (parse_text_srt x a) as [rs a'] eqn:Hp. destruct (thread xs a') as [ls a''] eqn:Hth.
    rewrite (srt_run_cons _ _ _ _ _ (step_text (mkR D (Some (mkSitem i st en acc)) a []) x rs a' Ht Hu Hc Hp)).
    destruct rs as [|r0 rs'].
    + unfold set_sa. cbn [r_done r_cur r_pre]. rewrite (IH _ _ _ _ _ _ _ Hxs), Hth. reflexivity.
    + unfold add_line_a. cbn [r_done r_cur r_pre si_idx si_st si_en si_lines].
      rewrite (IH _ _ _ _ _ _ _ Hxs), Hth. cbn [fst snd]. rewrite <- app_assoc. reflexivity.
Qed.

(* ---- one cue ---- *)
Lemma run_cue s c q R L : pend s = L -> Forall line_keeps L -> rend_ok c -> rcue_ok q -> (gap_ok c \/ L = []) ->
  srt_run s false (cue_lines c q ++ R) =
  srt_run (mkR (close_cur s L) (Some (denote_cue (c, q))) (snd (thread (rc_body q) sa0)) []) false R.
Proof.
  intros HP HL Hc (Hst & Hen & Hb & _) Hg. unfold cue_lines. rewrite <- !app_assoc.
  rewrite run_blanks. destruct (add_blanks_facts (rd_blank_before c) s) as (P1 & C1 & _).
  set (s1 := add_blanks (rd_blank_before c) s) in *.
  assert (Hidx : match rd_index c with Some x => index_ok x | None => True end) by apply Hc.
  assert (Hgap : rd_index c = None -> (1 <= rd_blank_before c)%nat \/ L = []).
  { intros E. destruct Hg as [Hg | Hg]; [left; exact (Hg E) | right; exact Hg]. }
  assert (Hne : forall x, rd_index c = Some x -> x <> []).
  { intros x E. rewrite E in Hidx. apply Hidx. }
  pose proof (finalize_gap L (rd_blank_before c) (rd_index c) (r_sa s1) HL Hgap Hne) as HF.
  unfold denote_cue, index_value.
  destruct (rd_index c) as [x|] eqn:Eix.
  - cbn [app]. rewrite (srt_run_cons _ _ _ _ _ (step_index s1 x Hidx)).
    set (s2 := add_line_a s1 [index_run x (r_sa s1)] (r_sa s1)).
    assert (P2 : pend s2 = L ++ repeat [blank_run] (rd_blank_before c) ++ [[index_run x (r_sa s1)]]).
    { unfold s2. rewrite pend_add, P1, HP, <- app_assoc. reflexivity. }
    rewrite <- P2 in HF.
    rewrite (srt_run_cons _ _ _ _ _ (step_rtime s2 c _ _ _ _ Hc Hst Hen HF)).
    unfold s2. rewrite close_add, C1.
    rewrite (run_body _ _ _ _ _ [] sa0 R Hb), idx_match. reflexivity.
  - cbn [app]. rewrite app_nil_r in HF. rewrite <- HP, <- P1 in HF at 1.
    rewrite (srt_run_cons _ _ _ _ _ (step_rtime s1 c _ _ _ _ Hc Hst Hen HF)).
    rewrite C1. rewrite (run_body _ _ _ _ _ [] sa0 R Hb), idx_match. reflexivity.
Qed.

(* ================= all cues, end of input ================= *)
Lemma finish_close s : finish s = close_cur s (strip_lines (pend s)).
Proof. unfold finish, close_cur, pend, finalize_eof. destruct (r_cur s); reflexivity. Qed.

Lemma run_cues eof : forall cs s L, pend s = L -> Forall line_keeps L ->
  Forall (fun p => rend_ok (fst p) /\ rcue_ok (snd p)) cs ->
  match cs with [] => True | p :: r => (gap_ok (fst p) \/ L = []) /\ Forall (fun p => gap_ok (fst p)) r end ->
  exists s', srt_run s false (all_cue_lines cs ++ repeat [] eof) = Ok s' /\
             finish s' = close_cur s L ++ map denote_cue cs.
Proof.
  induction cs as [|[c q] cs IH]; intros s L HP HL Hok Hgap.
  - unfold all_cue_lines. cbn [map concat app]. rewrite <- (app_nil_r (repeat [] eof)), run_blanks. cbn [srt_run].
    eexists. split; [reflexivity|]. rewrite finish_close. destruct (add_blanks_facts eof s) as (P & C & _).
    rewrite P, C, HP, (strip_lines_app_blanks L eof HL), app_nil_r. reflexivity.
  - pose proof (Forall_inv Hok) as (Hc & Hq). pose proof (Forall_inv_tail Hok) as Hok'. cbn [fst snd] in *. destruct Hgap as (Hg & Hgs).
    unfold all_cue_lines. cbn [map concat fst snd]. rewrite <- app_assoc. fold (all_cue_lines cs).
    rewrite (run_cue s c q _ L HP HL Hc Hq Hg).
    set (s1 := mkR (close_cur s L) (Some (denote_cue (c, q))) (snd (thread (rc_body q) sa0)) []).
    destruct (IH s1 (fst (thread (rc_body q) sa0))) as (s' & E & F).
    + reflexivity.
    + apply Hq.
    + exact Hok'.
    + destruct cs as [|p r]; [exact I|]. split; [left; exact (Forall_inv Hgs) | exact (Forall_inv_tail Hgs)].
    + exists s'. split; [exact E|]. rewrite F. unfold s1, close_cur. cbn [r_cur r_done denote_cue si_idx si_st si_en map].
      rewrite <- app_assoc. reflexivity.
Qed.

Lemma srt_run_bom_first s b ls : match ls with x :: _ => head_ok x | [] => True end ->
  srt_run s true (bom_first b ls) = srt_run s false ls.
Proof. destruct ls as [|x r]; intros H; [reflexivity|]. apply srt_run_first. exact H. Qed.

Lemma first_line_head_ok cs eof : Forall (fun p => rend_ok (fst p) /\ rcue_ok (snd p)) cs ->
  match all_cue_lines cs ++ repeat [] eof with x :: _ => head_ok x | [] => True end.
Proof.
  intros Hok. destruct cs as [|[c q] cs].
  - unfold all_cue_lines. cbn [map concat app]. destruct eof; [exact I | left; reflexivity].
  - pose proof (Forall_inv Hok) as (Hc & Hq). cbn [fst snd] in *.
    unfold all_cue_lines. cbn [map concat fst snd]. unfold cue_lines.
    destruct (rd_blank_before c); [|left; reflexivity]. cbn [repeat app].
    destruct (rd_index c) as [x|] eqn:E.
    + cbn [app]. apply index_ok_head. destruct Hc as (Hi & _). rewrite E in Hi. exact Hi.
    + cbn [app]. right. destruct Hq as (Hst & Hen & _). apply (rtime_line_facts c _ _ Hc (proj1 Hst) (proj1 Hen)).
Qed.

(* Reading a rendering returns the cues it denotes. *)
Theorem read_rendered_raw : forall (b : bool) (cs : list (rend * rcue)) (eof : nat),
  Forall (fun p => rend_ok (fst p) /\ rcue_ok (snd p)) cs ->
  Forall (fun p => gap_ok (fst p)) (tl cs) ->
  read_srt_lines (render b cs eof) false = Ok (map denote_cue cs).
Proof.
  intros b cs eof Hok Hgap. unfold read_srt_lines, render.
  rewrite (srt_run_bom_first _ b _ (first_line_head_ok cs eof Hok)).
  destruct (run_cues eof cs (mkR [] None sa0 []) [] eq_refl (Forall_nil _) Hok) as (s' & E & F).
  - destruct cs as [|p r]; [exact I|]. split; [right; reflexivity | exact Hgap].
  - rewrite E. unfold finish in F. cbn [close_cur r_cur r_done app] in F. rewrite <- F. reflexivity.
Qed.

(* ================= abstract cues (the representable items of SrtProofs) ================= *)
Definition rcue_of (it : sitem) : rcue := mkRcue (si_st it) (si_en it) (map line_str (si_lines it)).
Definition denote_item (p : rend * sitem) : sitem :=
  let (c, it) := p in
  mkSitem (index_value (rd_index c)) (trunc_k (rd_digits c) (si_st it)) (trunc_k (rd_digits c) (si_en it)) (si_lines it).
Definition render_items (b : bool) (l : list (rend * sitem)) (eof : nat) : list str :=
  render b (map (fun p => (fst p, rcue_of (snd p))) l) eof.

Lemma thread_written : forall ls, Forall repr_doc_line ls -> thread (map line_str ls) sa0 = (ls, sa0).
Proof.
  induction ls as [|l ls IH]; intros H; [reflexivity|].
  pose proof (Forall_inv H) as (Hl & _). pose proof (Forall_inv_tail H) as Hls. cbn [map thread].
  unfold line_str at 1. rewrite (parse_written_line l Hl), (IH Hls).
  destruct l as [|r0 l']; [|reflexivity]. exfalso. destruct Hl as (_ & _ & Hne). apply Hne. reflexivity.
Qed.

Lemma rcue_of_ok it : repr_item it -> rcue_ok (rcue_of it).
Proof.
  intros ((Hst & Hen) & Hls). unfold rcue_ok, rcue_of. cbn [rc_st rc_en rc_body]. split; [exact Hst|]. split; [exact Hen|]. split.
  - apply Forall_forall. intros x Hx. apply in_map_iff in Hx. destruct Hx as (l & <- & Hl).
    rewrite Forall_forall in Hls. pose proof (repr_doc_line_simple l (Hls l Hl)) as Hsim.
    destruct (Hls l Hl) as (_ & Ht & Hc & _ & Hu). repeat split; assumption.
  - rewrite (thread_written _ Hls). cbn [fst]. apply repr_item_keeps. split; [split; assumption | exact Hls].
Qed.

Theorem read_rendered : forall (b : bool) (l : list (rend * sitem)) (eof : nat),
  Forall (fun p => rend_ok (fst p) /\ repr_item (snd p)) l ->
  Forall (fun p => gap_ok (fst p)) (tl l) ->
  read_srt_lines (render_items b l eof) false = Ok (map denote_item l).
Proof.
  intros b l eof Hok Hgap. unfold render_items. rewrite read_rendered_raw.
  - f_equal. rewrite map_map. apply map_ext_in. intros [c it] Hin. cbn [fst snd denote_cue denote_item rcue_of rc_st rc_en rc_body].
    rewrite Forall_forall in Hok. destruct (Hok _ Hin) as (_ & (_ & Hls)). cbn [snd] in Hls.
    rewrite (thread_written _ Hls). reflexivity.
  - apply Forall_forall. intros p Hp. apply in_map_iff in Hp. destruct Hp as ([c it] & <- & Hin). cbn [fst snd].
    rewrite Forall_forall in Hok. destruct (Hok _ Hin) as (Hc & Hit). split; [exact Hc | apply rcue_of_ok; exact Hit].
  - destruct l as [|p r]; [constructor|]. cbn [map tl] in *. apply Forall_forall. intros p' Hp'. apply in_map_iff in Hp'.
    destruct Hp' as (p0 & <- & Hin). cbn [fst]. rewrite Forall_forall in Hgap. exact (Hgap _ Hin).
Qed.

(* what the fields denote *)
Lemma trunc_k_exact k t : (t mod frac_div k = 0)%Z -> trunc_k k t = t.
Proof. unfold trunc_k. intros ->. lia. Qed.
Lemma trunc_3_ms t : trunc_k 3 t = trunc_ms t.
Proof. reflexivity. Qed.
Lemma frac_div_values : frac_div 1 = 100000000%Z /\ frac_div 2 = 10000000%Z /\ frac_div 3 = 1000000%Z.
Proof. repeat split. Qed.

Lemma index_value_none : index_value None = 0%Z. Proof. reflexivity. Qed.
Lemma index_ok_digits d : digits d -> d <> [] -> index_ok d.
Proof.
  intros Hd Hne. split; [apply digits_ends_plain; assumption|].
  split; [apply utf8_valid_ascii, all_plain_ascii, digits_all_plain; exact Hd|].
  split; [unfold arrow; apply contains_none; apply digits_not_in; [exact Hd | reflexivity]|].
  split; apply digits_not_in; try exact Hd; reflexivity.
Qed.
Lemma index_value_number n : (Z.of_N n <= max_int64)%Z -> index_ok (itoa n) /\ index_value (Some (itoa n)) = Z.of_N n.
Proof.
  intros H. split; [apply index_ok_digits; [apply itoa_digits | apply itoa_nonnil]|].
  unfold index_value, index_text. rewrite unescape_no_amp by (apply digits_not_in; [apply itoa_digits | reflexivity]).
  apply atoi_val_itoa. exact H.
Qed.
(* an index line that is not a number (and has no '&') denotes 0 *)
Lemma index_value_not_number c r x : is_digit c = true \/ plain_byte c = true /\ c <> 45 /\ c <> 43 ->
  In x (c :: r) -> is_digit x = false -> ~ In 38 (c :: r) -> index_value (Some (c :: r)) = 0%Z.
Proof.
  intros Hc Hin Hx Hamp. unfold index_value, index_text. rewrite (unescape_no_amp _ Hamp). unfold atoi_val.
  assert (Hm : match c :: r with 45 :: r0 => (true, r0) | 43 :: r0 => (false, r0) | _ => (false, c :: r) end = (false, c :: r)).
  { destruct Hc as [Hc | (_ & H45 & H43)].
    - destruct c as [|p]; [reflexivity|]. do 8 (destruct p as [p|p|]; try reflexivity; try discriminate).
    - destruct c as [|p]; [reflexivity|]. do 8 (destruct p as [p|p|]; try reflexivity; try congruence). }
  rewrite Hm. unfold atoi_digits. destruct (str_to_uint (c :: r)) as [u|] eqn:E; [|reflexivity].
  apply str_to_uint_digits in E. rewrite (digits_in _ x E Hin) in Hx. discriminate.
Qed.

(* ================= executable versions of the hypotheses ================= *)
Definition wsb (s : str) : bool := forallb is_ascii_space s.
Definition all_asciib (s : str) : bool := forallb (fun c => c <? 128) s.
Definition ends_plainb (s : str) : bool := negb (is_nil s) && plain_byte (hd 0 s) && plain_byte (last s 0).
Definition index_okb (x : str) : bool :=
  ends_plainb x && utf8_valid x && negb (contains arrow x) && negb (existsb (N.eqb 60) x) && negb (existsb (N.eqb 0) x).
Definition tail_okb (tl : str) : bool :=
  all_asciib tl && negb (contains arrow tl) && (is_nil tl || (is_ascii_space (hd 0 tl) && plain_byte (last tl 0))).
Definition rend_okb (c : rend) : bool :=
  match rd_index c with Some x => index_okb x | None => true end &&
  ((rd_sep c =? comma) || (rd_sep c =? dot)) && (Nat.leb 1 (rd_digits c) && Nat.leb (rd_digits c) 3) &&
  wsb (rd_sp_left c) && wsb (rd_sp_right c) && tail_okb (rd_tail c).
Definition gap_okb (c : rend) : bool := match rd_index c with None => Nat.leb 1 (rd_blank_before c) | Some _ => true end.
Definition line_keepsb (l : list srun) : bool := match rev l with r :: _ => negb (is_nil (sr_text r)) | [] => false end.
Definition body_line_okb (x : str) : bool := str_eqb (trim_space x) x && utf8_valid x && negb (contains arrow x) && html_simple x.
Definition rcue_okb (q : rcue) : bool :=
  (0 <=? rc_st q)%Z && (rc_st q <=? max_int64)%Z && (0 <=? rc_en q)%Z && (rc_en q <=? max_int64)%Z &&
  forallb body_line_okb (rc_body q) && forallb line_keepsb (fst (thread (rc_body q) sa0)).

Lemma forallb_Forall {A} (f : A -> bool) (P : A -> Prop) l : (forall x, f x = true -> P x) -> forallb f l = true -> Forall P l.
Proof. intros H Hl. apply Forall_forall. intros x Hx. apply H. rewrite forallb_forall in Hl. apply Hl. exact Hx. Qed.

Lemma wsb_ok s : wsb s = true -> ws s.
Proof. apply forallb_Forall. auto. Qed.
Lemma all_asciib_ok s : all_asciib s = true -> all_ascii s.
Proof. apply forallb_Forall. intros x Hx. apply N.ltb_lt. exact Hx. Qed.
Lemma ends_plainb_ok s : ends_plainb s = true -> ends_plain s.
Proof.
  unfold ends_plainb, ends_plain. intros H. apply andb_true_iff in H. destruct H as [H H3]. apply andb_true_iff in H. destruct H as [H1 H2].
  apply negb_true_iff in H1. split; [apply is_nil_false; exact H1 | split; assumption].
Qed.
Lemma not_existsb_not_in c s : existsb (N.eqb c) s = false -> ~ In c s.
Proof.
  intros H Hin. assert (E : existsb (N.eqb c) s = true) by (apply existsb_exists; exists c; split; [exact Hin | apply N.eqb_refl]).
  rewrite E in H. discriminate.
Qed.
Lemma index_okb_ok x : index_okb x = true -> index_ok x.
Proof.
  unfold index_okb, index_ok. intros H. apply andb_true_iff in H. destruct H as [H H5].
  apply andb_true_iff in H. destruct H as [H H4]. apply andb_true_iff in H. destruct H as [H H3].
  apply andb_true_iff in H. destruct H as [H1 H2]. apply negb_true_iff in H3, H4, H5.
  split; [apply ends_plainb_ok; exact H1|]. split; [exact H2|]. split; [exact H3|].
  split; apply not_existsb_not_in; assumption.
Qed.
Lemma tail_okb_ok tl : tail_okb tl = true -> tail_ok tl.
Proof.
  unfold tail_okb, tail_ok. intros H. apply andb_true_iff in H. destruct H as [H H3]. apply andb_true_iff in H. destruct H as [H1 H2].
  apply negb_true_iff in H2. split; [apply all_asciib_ok; exact H1|]. split; [exact H2|].
  apply orb_true_iff in H3. destruct H3 as [H3|H3]; [left; destruct tl; [reflexivity | discriminate]|].
  right. apply andb_true_iff in H3. exact H3.
Qed.
Lemma rend_okb_ok c : rend_okb c = true -> rend_ok c.
Proof.
  unfold rend_okb, rend_ok. intros H.
  apply andb_true_iff in H. destruct H as [H H6]. apply andb_true_iff in H. destruct H as [H H5].
  apply andb_true_iff in H. destruct H as [H H4]. apply andb_true_iff in H. destruct H as [H H3].
  apply andb_true_iff in H. destruct H as [H1 H2].
  split; [destruct (rd_index c); [apply index_okb_ok; exact H1 | exact I]|].
  split; [apply orb_true_iff in H2; destruct H2 as [H2|H2]; apply N.eqb_eq in H2; [left | right]; exact H2|].
  split; [apply andb_true_iff in H3; destruct H3 as [Ha Hb]; apply Nat.leb_le in Ha, Hb; lia|].
  split; [apply wsb_ok; exact H4|]. split; [apply wsb_ok; exact H5 | apply tail_okb_ok; exact H6].
Qed.
Lemma gap_okb_ok c : gap_okb c = true -> gap_ok c.
Proof. unfold gap_okb, gap_ok. intros H E. rewrite E in H. apply Nat.leb_le. exact H. Qed.
Lemma line_keepsb_ok l : line_keepsb l = true -> line_keeps l.
Proof.
  unfold line_keepsb, line_keeps. destruct (rev l) as [|r t] eqn:E; [discriminate|]. intros H.
  exists (rev t), r. split; [rewrite <- (rev_involutive l), E; reflexivity|]. apply is_nil_false. apply negb_true_iff. exact H.
Qed.
Lemma body_line_okb_ok x : body_line_okb x = true -> body_line_ok x.
Proof.
  unfold body_line_okb, body_line_ok. intros H. apply andb_true_iff in H. destruct H as [H H4].
  apply andb_true_iff in H. destruct H as [H H3]. apply andb_true_iff in H. destruct H as [H1 H2].
  split; [apply str_eqb_eq; exact H1|]. split; [exact H2|]. split; [apply negb_true_iff; exact H3 | exact H4].
Qed.
Lemma rcue_okb_ok q : rcue_okb q = true -> rcue_ok q.
Proof.
  unfold rcue_okb, rcue_ok. intros H.
  apply andb_true_iff in H. destruct H as [H H6]. apply andb_true_iff in H. destruct H as [H H5].
  apply andb_true_iff in H. destruct H as [H H4]. apply andb_true_iff in H. destruct H as [H H3].
  apply andb_true_iff in H. destruct H as [H1 H2]. apply Z.leb_le in H1, H2, H3, H4.
  split; [lia|]. split; [lia|].
  split; [exact (forallb_Forall _ _ _ body_line_okb_ok H5) | exact (forallb_Forall _ _ _ line_keepsb_ok H6)].
Qed.
Lemma raw_okb_ok cs : forallb (fun p => rend_okb (fst p) && rcue_okb (snd p)) cs = true ->
  Forall (fun p => rend_ok (fst p) /\ rcue_ok (snd p)) cs.
Proof.
  apply forallb_Forall. intros p H. apply andb_true_iff in H. destruct H as [H1 H2].
  split; [apply rend_okb_ok; exact H1 | apply rcue_okb_ok; exact H2].
Qed.
Lemma gaps_okb_ok {A} (l : list (rend * A)) : forallb (fun p => gap_okb (fst p)) l = true -> Forall (fun p => gap_ok (fst p)) l.
Proof. apply forallb_Forall. intros p H. apply gap_okb_ok. exact H. Qed.
Lemma items_okb_ok l : forallb (fun p => rend_okb (fst p) && repr_itemb (snd p)) l = true ->
  Forall (fun p => rend_ok (fst p) /\ repr_item (snd p)) l.
Proof.
  apply forallb_Forall. intros p H. apply andb_true_iff in H. destruct H as [H1 H2].
  split; [apply rend_okb_ok; exact H1 | apply repr_itemb_ok; exact H2].
Qed.

(* ================= examples ================= *)
(* renderings: cue 1 has no index, one blank line before it and the byte-order mark in front; ',' and 3 digits;
   cue 2 has the index "#2" (not a number), three blank lines, '.', 2 digits, tabs around the arrow, coordinates;
   cue 3 has index "3", no blank line before it, no space around the arrow, 1 digit;
   cue 4 has index "9999999999999999999999" (out of range), one blank line. *)
Definition ex_rends : list rend :=
  [ mkRend 1 None 44 3 [32] [32] [];
    mkRend 3 (Some [35;50]) 46 2 [9;32] [32;9] [32;88;49;58;52;48;32;88;50;58;54;48;48];
    mkRend 0 (Some [51]) 44 1 [] [] [];
    mkRend 1 (Some (repeat 57 22)) 46 3 [32] [32] [32;32;89;49;58;53] ].
Definition ex_cues : list (rend * sitem) := combine ex_rends ex_items.

Example ex_cues_ok : Forall (fun p => rend_ok (fst p) /\ repr_item (snd p)) ex_cues /\ Forall (fun p => gap_ok (fst p)) (tl ex_cues).
Proof. split; [apply items_okb_ok | apply gaps_okb_ok]; vm_compute; reflexivity. Qed.

Example ex_read_rendered : read_srt_lines (render_items true ex_cues 2) false = Ok (map denote_item ex_cues).
Proof. apply read_rendered; apply ex_cues_ok. Qed.


(* multi-line and unterminated emphasis: the style state is carried from line to line within a cue and reset by the
   next timestamp line.  Cue 1: "<i>one" / "two</i> three" / "<b>four";  cue 2: "five". *)
Definition ex_emph : list (rend * rcue) :=
  [ (mkRend 0 (Some [49]) 44 3 [32] [32] [],
     mkRcue 1000000000 2000000000 [[60;105;62;111;110;101]; [116;119;111;60;47;105;62;32;116;104;114;101;101]; [60;98;62;102;111;117;114]]);
    (mkRend 1 (Some [50]) 44 3 [32] [32] [], mkRcue 3000000000 4000000000 [[102;105;118;101]]) ].
Definition sa_it : sa := mkSa false true false None.
Definition sa_bo : sa := mkSa true false false None.
Example ex_emphasis :
  read_srt_lines (render false ex_emph 0) false =
  Ok [ mkSitem 1 1000000000 2000000000
         [ [mkSrun [111;110;101] (Some sa_it) 0];
           [mkSrun [116;119;111] (Some sa_it) 0; mkSrun [32;116;104;114;101;101] None 0];
           [mkSrun [102;111;117;114] (Some sa_bo) 0] ];
       mkSitem 2 3000000000 4000000000 [ [mkSrun [102;105;118;101] None 0] ] ].
Proof.
  rewrite read_rendered_raw; [vm_compute; reflexivity | apply raw_okb_ok; vm_compute; reflexivity | apply gaps_okb_ok; vm_compute; reflexivity].
Qed.
(* a line without tags takes the pending style: [parse_text_plainline]; the timestamp line resets it: [step_rtime]. *)

(* ================= variants the reader does not tolerate (outside the hypotheses) ================= *)
Definition tl1 : str := [48;48;58;48;48;58;48;49;44;48;48;48;32;45;45;62;32;48;48;58;48;48;58;48;50;44;48;48;48].
Definition tl2 : str := [48;48;58;48;48;58;48;51;44;48;48;48;32;45;45;62;32;48;48;58;48;48;58;48;52;44;48;48;48].
(* no index line and no blank line: the last text line of the previous cue is taken as the index and lost *)
Example missing_index_without_blank_refuted :
  read_srt_lines [tl1; [97]; [98]; tl2; [99]] false =
  Ok [ mkSitem 0 1000000000 2000000000 [[mkSrun [97] None 0]];      (* the line "b" is gone *)
       mkSitem 0 3000000000 4000000000 [[mkSrun [99] None 0]] ].
Proof. vm_compute. reflexivity. Qed.
(* an index line that is only markup produces no text; without a blank line the same loss occurs *)
Example markup_only_index_without_blank_refuted :
  read_srt_lines [tl1; [97]; [98]; [60;98;62]; tl2; [99]] false =
  Ok [ mkSitem 0 1000000000 2000000000 [[mkSrun [97] None 0]];
       mkSitem 0 3000000000 4000000000 [[mkSrun [99] None 0]] ]
  /\ index_okb [60;98;62] = false.
Proof. split; vm_compute; reflexivity. Qed.
(* coordinates glued to the end time make the line unreadable *)
Example glued_coordinates_refuted : read_srt_lines [tl1 ++ [88;49;58;52;48]; [97]] false = Err EParse.
Proof. vm_compute. reflexivity. Qed.
(* white space between the byte-order mark and a numeric index is not trimmed: the number is not recognised *)
Example bom_space_index_refuted :
  read_srt_lines [bom ++ [32;55]; tl1; [97]] false = Ok [ mkSitem 0 1000000000 2000000000 [[mkSrun [97] None 0]] ]
  /\ read_srt_lines [[32;55]; tl1; [97]] false = Ok [ mkSitem 7 1000000000 2000000000 [[mkSrun [97] None 0]] ].
Proof. split; vm_compute; reflexivity. Qed.

Print Assumptions read_rendered_raw.
Print Assumptions read_rendered.
