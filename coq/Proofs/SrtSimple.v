(* SubRip: the lines the writer produces for representable runs lie inside the faithful domain of the markup
   tokenizer model (Kit.Html.html_simple), i.e. where the model of golang.org/x/net/html was checked to agree with
   the real tokenizer: no raw-text element, no comment, no '&' and no CR inside an attribute value, no NUL byte.
     run_toks_simple   : repr_run r -> every token of the written run is tok_simple
     run_bytes_no_nul  : repr_run r -> the written run has no NUL byte
     repr_line_simple  : repr_line l -> html_simple (line_str l) = true
     repr_item_simple  : repr_item it -> every written text line of the item is html_simple
     written_doc_simple: every line of the document written for representable items is html_simple
   and the computed witness that the colour conditions of col_ok are needed (amp_colour_witness). *)
From Coq Require Import List ZArith NArith Lia Bool Arith.
From Astisub Require Import Kit.Base Kit.Str Kit.Html Kit.Scan Model.Dur Model.Srt.
From Astisub Require Import Proofs.DurProofs Proofs.ScanProofs Proofs.SrtEscProofs Proofs.SrtProofs.
Import ListNotations.
Open Scope N_scope.

Lemma not_in_existsb k s : ~ In k s -> existsb (N.eqb k) s = false.
Proof.
  intros H. destruct (existsb (N.eqb k) s) eqn:E; [|reflexivity].
  apply existsb_exists in E. destruct E as (x & Hx & Ex). apply N.eqb_eq in Ex. subst x. contradiction.
Qed.

(* ---- (i) the tokens ---- *)
Lemma font_not_raw_text : existsb (str_eqb n_font) raw_text_tags = false.
Proof. vm_compute. reflexivity. Qed.

Lemma tok_simple_font c raw : ~ In 38 c -> ~ In 13 c -> tok_simple (HStart n_font [(n_color, c)] raw) = true.
Proof.
  intros H38 H13. cbn [tok_simple forallb snd]. rewrite font_not_raw_text, (not_in_existsb 38 c H38), (not_in_existsb 13 c H13).
  reflexivity.
Qed.

Lemma run_toks_simple r : repr_run r -> forallb tok_simple (run_toks r) = true.
Proof.
  intros (_ & _ & Hs & _). unfold run_toks. destruct (sr_sty r) as [a|]; [|reflexivity].
  destruct Hs as (_ & Hc). destruct a as [b i u col]. cbn [sa_b sa_i sa_u sa_col] in *.
  destruct col as [c|].
  - destruct Hc as (Hne & _ & H38 & H13 & _). destruct c as [|c0 c]; [contradiction|].
    destruct b, i, u; cbv iota; cbn [app forallb]; rewrite (tok_simple_font _ _ H38 H13); reflexivity.
  - destruct b, i, u; reflexivity.
Qed.

Lemma line_toks_simple : forall l, Forall repr_run l -> forallb tok_simple (concat (map run_toks l)) = true.
Proof.
  induction l as [|r l IH]; intros H; [reflexivity|]. inversion H as [|? ? Hr Hl]; subst.
  cbn [map concat]. rewrite forallb_app, (run_toks_simple r Hr), (IH Hl). reflexivity.
Qed.

(* ---- (ii) no NUL byte ---- *)
Lemma escape_no_nul s : ~ In 0 s -> existsb (N.eqb 0) (escape_html s) = false.
Proof.
  intros H0. apply not_in_existsb. intros Hin. destruct (escape_bytes _ _ Hin) as [H|H]; [exact (H0 H)|].
  cbn [In] in H. repeat (destruct H as [H|H]; [discriminate|]). exact H.
Qed.

Lemma run_bytes_no_nul r : repr_run r -> existsb (N.eqb 0) (run_bytes r) = false.
Proof.
  intros (Hp & _ & Hs & H0). unfold run_bytes. rewrite Hp. change (0 =? 0) with true. cbv iota.
  pose proof (escape_no_nul _ H0) as He. set (e := escape_html (sr_text r)) in *. clearbody e.
  destruct (sr_sty r) as [a|].
  - destruct Hs as (_ & Hc). destruct a as [b i u col]. cbn [sa_b sa_i sa_u sa_col] in *.
    destruct col as [c|].
    + destruct Hc as (Hne & _ & _ & _ & Hc0). destruct c as [|c0 c]; [contradiction|]. apply not_in_existsb in Hc0.
      destruct b, i, u; cbv iota; rewrite !existsb_app, He, Hc0; reflexivity.
    + destruct b, i, u; cbv iota; rewrite !existsb_app, He; reflexivity.
  - cbv iota. rewrite !existsb_app, He. reflexivity.
Qed.

Lemma line_str_no_nul : forall l, Forall repr_run l -> existsb (N.eqb 0) (line_str l) = false.
Proof.
  induction l as [|r l IH]; intros H; [reflexivity|]. inversion H as [|? ? Hr Hl]; subst.
  unfold line_str. cbn [map concat]. rewrite existsb_app, (run_bytes_no_nul r Hr). exact (IH Hl).
Qed.

(* ---- a written line lies inside the faithful domain ---- *)
Theorem repr_line_simple : forall l, repr_line l -> html_simple (line_str l) = true.
Proof.
  intros l (Hl & Hadj & _). unfold html_simple. rewrite tokenize_tokc. unfold line_str at 1.
  rewrite (tokc_line l [] Hl Hadj) by (intros C; contradiction). cbn [flush app].
  rewrite (line_toks_simple l Hl), (line_str_no_nul l Hl). reflexivity.
Qed.

Lemma repr_doc_line_simple l : repr_doc_line l -> html_simple (line_str l) = true.
Proof. intros (H & _). apply repr_line_simple. exact H. Qed.

Theorem repr_item_simple : forall it, repr_item it -> Forall (fun x => html_simple x = true) (map line_str (si_lines it)).
Proof.
  intros it (_ & Hls). apply Forall_forall. intros x Hx. apply in_map_iff in Hx. destruct Hx as (l & <- & Hl).
  rewrite Forall_forall in Hls. apply repr_doc_line_simple. exact (Hls l Hl).
Qed.

(* ---- every line of a written document lies inside the faithful domain ---- *)
(* a line without '<' and without NUL is one text token *)
Lemma text_line_simple s : ~ In 60 s -> ~ In 0 s -> html_simple s = true.
Proof.
  intros H60 H0. unfold html_simple. rewrite (not_in_existsb 0 s H0), tokenize_tokc.
  rewrite <- (app_nil_r s) at 1. rewrite (tokc_app_text s [] [] H60), tokc_nil.
  destruct (rev s ++ []); reflexivity.
Qed.

Lemma digits_simple s : digits s -> html_simple s = true.
Proof. intros H. apply text_line_simple; apply (digits_not_in s _ H); reflexivity. Qed.

Lemma bom_idx_simple k : html_simple (bom ++ idx_str k) = true.
Proof.
  assert (P : digits (idx_str k)) by apply itoa_digits.
  apply text_line_simple; intros Hin; apply in_app_or in Hin; destruct Hin as [Hin|Hin];
    try (cbn [bom In] in Hin; repeat (destruct Hin as [Hin|Hin]; [discriminate|]); exact Hin);
    revert Hin; apply (digits_not_in _ _ P); reflexivity.
Qed.

Lemma time_line_simple it : time_ok it -> html_simple (time_line it) = true.
Proof.
  intros ((Hs & _) & (He & _)).
  assert (N : forall c, (is_digit c || (c =? 58) || (c =? 44)) = false -> ~ In c arrow_sp -> ~ In c (time_line it)).
  { intros c Hc Ha Hin. unfold time_line in Hin. apply in_app_or in Hin. destruct Hin as [Hin|Hin]; [exact (format_srt_no c _ Hs Hc Hin)|].
    apply in_app_or in Hin. destruct Hin as [Hin|Hin]; [exact (Ha Hin) | exact (format_srt_no c _ He Hc Hin)]. }
  apply text_line_simple; apply N; try reflexivity; intros Hin; cbn [arrow_sp In] in Hin;
    repeat (destruct Hin as [Hin|Hin]; [discriminate|]); exact Hin.
Qed.

Lemma rest_lines_simple : forall r k, Forall repr_item r -> Forall (fun x => html_simple x = true) (rest_lines k r).
Proof.
  induction r as [|it r IH]; intros k H; [constructor|]. inversion H as [|? ? Hit Hr]; subst.
  cbn [rest_lines]. constructor; [reflexivity|]. unfold item_lines.
  constructor; [apply digits_simple, itoa_digits|].
  constructor; [apply time_line_simple; apply Hit|].
  apply Forall_app. split; [apply repr_item_simple; exact Hit | apply IH; exact Hr].
Qed.

Theorem written_doc_simple : forall l data, Forall repr_item l -> write_srt l = Ok data ->
  Forall (fun x => html_simple x = true) (lines data).
Proof.
  intros l data Hl Hw. destruct l as [|it r]; [discriminate|]. inversion Hl as [|? ? Hit Hr]; subst.
  rewrite write_srt_lines in Hw. inversion Hw; subst data. clear Hw.
  rewrite lines_lf_join.
  2:{ unfold doc_lines. destruct Hit as (Ht & Hls). constructor; [apply nobrk_app; [reflexivity | apply nobrk_idx]|].
      constructor; [apply nobrk_time; exact Ht|]. apply Forall_app. split; [apply nobrk_text_lines; exact Hls | apply nobrk_rest; exact Hr]. }
  unfold doc_lines. constructor; [apply bom_idx_simple|]. constructor; [apply time_line_simple; apply Hit|].
  apply Forall_app. split; [apply repr_item_simple; exact Hit | apply rest_lines_simple; exact Hr].
Qed.

(* ---- the conditions on a colour are needed ---- *)
(* one cue, one line, the run hello in the colour [&amp;]: every other condition of repr_item holds and the MODEL reads the
   written line back unchanged, but the line is outside the faithful domain -- the real tokenizer unescapes the character
   reference inside the attribute value and the library reads the colour [&] (replayed on the library) *)
Definition amp_colour : str := [38;97;109;112;59].
Definition amp_line : list srun := [mkSrun [104;101;108;108;111] (Some (mkSa false false false (Some amp_colour))) 0].
Definition amp_item : sitem := mkSitem 1 1000000000%Z 2000000000%Z [amp_line].
Example amp_colour_witness :
  col_okb amp_colour = false /\ repr_itemb amp_item = false /\
  html_simple (line_str amp_line) = false /\
  parse_text_srt (line_str amp_line) sa0 = (amp_line, sa0).
Proof. repeat split; vm_compute; reflexivity. Qed.
(* likewise a CR or a NUL byte in the colour, a NUL byte in the text *)
Example cr_nul_witness :
  col_okb [97;13;98] = false /\ col_okb [97;0;98] = false /\
  repr_runb (mkSrun [97;0;98] None 0) = false /\
  html_simple (line_str [mkSrun [120] (Some (mkSa false false false (Some [97;13;98]))) 0]) = false /\
  html_simple (line_str [mkSrun [97;0;98] None 0]) = false.
Proof. repeat split; vm_compute; reflexivity. Qed.

Print Assumptions repr_line_simple.
Print Assumptions written_doc_simple.
