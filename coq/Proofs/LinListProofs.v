(* the list level of ApplyLinearCorrection: text, style, identity and list order untouched *)
From Coq Require Import List ZArith.
From Astisub Require Import Kit.Base Kit.Float64 Model.Ops Model.Lin.
Import ListNotations.

Lemma linear_correction_payload a1 d1 a2 d2 l :
  map (fun x => (uid x, i_lines x, i_reg x, i_sty x, i_inl x)) (linear_correction a1 d1 a2 d2 l) =
  map (fun x => (uid x, i_lines x, i_reg x, i_sty x, i_inl x)) l.
Proof. unfold linear_correction. rewrite map_map. apply map_ext. intros x. reflexivity. Qed.

Lemma linear_correction_times a1 d1 a2 d2 l :
  map (fun x => (st x, en x)) (linear_correction a1 d1 a2 d2 l) =
  map (fun x => (lin a1 d1 a2 d2 (st x), lin a1 d1 a2 d2 (en x))) l.
Proof. unfold linear_correction. rewrite map_map. apply map_ext. intros x. reflexivity. Qed.
