(* SSA/ASS rows: a style row and an event row are decoded column by column, whatever the order, subset or
   repetition of the columns named by the Format line; rows written by the writer are read back. *)
From Coq Require Import List ZArith NArith Bool Lia.
From Astisub Require Import Kit.Base Kit.Str Kit.Scan Model.Dur Model.Ssa Proofs.VttBase Proofs.SsaFields.
Import ListNotations.
Open Scope N_scope.

(* ---------------------------------------------------------------- uniform view of a style *)
Inductive sval := VB (o : option bool) | VC (o : option acolor) | VF (o : option Z) | VI (o : option Z) | VS (s : str).
Definition sget (a : sattr) (s : astyle) : sval :=
  match a with
  | AB x => VB (bget x s) | AC x => VC (cget x s) | AF x => VF (fget x s) | AI x => VI (iget x s)
  | AFontName => VS (ay_fontname s) | AName => VS (ay_name s)
  end.
Lemma sattr_eq_dec (a b : sattr) : {a = b} + {a <> b}.
Proof. repeat decide equality. Qed.

Lemma astyle_ext s s' : (forall a, sget a s = sget a s') -> s = s'.
Proof.
  intros H. destruct s, s'.
  pose proof (H (AName)) as H0; cbn in H0; injection H0 as H0.
  pose proof (H (AFontName)) as H1; cbn in H1; injection H1 as H1.
  pose proof (H (AB BBold)) as H2; cbn in H2; injection H2 as H2.
  pose proof (H (AB BItalic)) as H3; cbn in H3; injection H3 as H3.
  pose proof (H (AB BStrikeout)) as H4; cbn in H4; injection H4 as H4.
  pose proof (H (AB BUnderline)) as H5; cbn in H5; injection H5 as H5.
  pose proof (H (AC CBack)) as H6; cbn in H6; injection H6 as H6.
  pose proof (H (AC COutline)) as H7; cbn in H7; injection H7 as H7.
  pose proof (H (AC CPrimary)) as H8; cbn in H8; injection H8 as H8.
  pose proof (H (AC CSecondary)) as H9; cbn in H9; injection H9 as H9.
  pose proof (H (AF FAlphaLevel)) as H10; cbn in H10; injection H10 as H10.
  pose proof (H (AF FAngle)) as H11; cbn in H11; injection H11 as H11.
  pose proof (H (AF FFontSize)) as H12; cbn in H12; injection H12 as H12.
  pose proof (H (AF FOutline)) as H13; cbn in H13; injection H13 as H13.
  pose proof (H (AF FScaleX)) as H14; cbn in H14; injection H14 as H14.
  pose proof (H (AF FScaleY)) as H15; cbn in H15; injection H15 as H15.
  pose proof (H (AF FShadow)) as H16; cbn in H16; injection H16 as H16.
  pose proof (H (AF FSpacing)) as H17; cbn in H17; injection H17 as H17.
  pose proof (H (AI IAlignment)) as H18; cbn in H18; injection H18 as H18.
  pose proof (H (AI IBorderStyle)) as H19; cbn in H19; injection H19 as H19.
  pose proof (H (AI IEncoding)) as H20; cbn in H20; injection H20 as H20.
  pose proof (H (AI IMarginL)) as H21; cbn in H21; injection H21 as H21.
  pose proof (H (AI IMarginR)) as H22; cbn in H22; injection H22 as H22.
  pose proof (H (AI IMarginV)) as H23; cbn in H23; injection H23 as H23.
  cbn in *. subst. reflexivity.
Qed.

Ltac set_other :=
  let E := fresh "E" in
  intros E; try reflexivity; exfalso; apply E; reflexivity.
Lemma sget_bset_same x v s : sget (AB x) (bset x v s) = VB v.
Proof. destruct s, x; reflexivity. Qed.
Lemma sget_bset_other x v s b : b <> AB x -> sget b (bset x v s) = sget b s.
Proof. destruct s, x; destruct b as [y|y|y|y| |]; try destruct y; set_other. Qed.
Lemma sget_cset_same x v s : sget (AC x) (cset x v s) = VC v.
Proof. destruct s, x; reflexivity. Qed.
Lemma sget_cset_other x v s b : b <> AC x -> sget b (cset x v s) = sget b s.
Proof. destruct s, x; destruct b as [y|y|y|y| |]; try destruct y; set_other. Qed.
Lemma sget_fset_same x v s : sget (AF x) (fset x v s) = VF v.
Proof. destruct s, x; reflexivity. Qed.
Lemma sget_fset_other x v s b : b <> AF x -> sget b (fset x v s) = sget b s.
Proof. destruct s, x; destruct b as [y|y|y|y| |]; try destruct y; set_other. Qed.
Lemma sget_iset_same x v s : sget (AI x) (iset x v s) = VI v.
Proof. destruct s, x; reflexivity. Qed.
Lemma sget_iset_other x v s b : b <> AI x -> sget b (iset x v s) = sget b s.
Proof. destruct s, x; destruct b as [y|y|y|y| |]; try destruct y; set_other. Qed.
Lemma sget_fontname_same v s : sget AFontName (set_fontname v s) = VS v.
Proof. destruct s; reflexivity. Qed.
Lemma sget_fontname_other v s b : b <> AFontName -> sget b (set_fontname v s) = sget b s.
Proof. destruct s; destruct b as [y|y|y|y| |]; try destruct y; set_other. Qed.
Lemma sget_name_same v s : sget AName (set_name v s) = VS v.
Proof. destruct s; reflexivity. Qed.
Lemma sget_name_other v s b : b <> AName -> sget b (set_name v s) = sget b s.
Proof. destruct s; destruct b as [y|y|y|y| |]; try destruct y; set_other. Qed.

(* the Format names are pairwise distinct and are recognised *)
Lemma sattr_of_name_name a : sattr_of_name (sattr_name a) = Some a.
Proof. destruct a as [y|y|y|y| |]; try destruct y; reflexivity. Qed.
Lemma sattr_of_name_tertiary : sattr_of_name n_tertiary = Some (AC COutline).
Proof. reflexivity. Qed.

(* ---------------------------------------------------------------- reading a style row *)
(* [cell] is an admissible encoding of the value [src] has for attribute [a]: stated with the field decoders, so every
   encoding the decoders accept is covered (-1 / 1 / any non-zero integer for true, decimal or &H colours, ...) *)
Definition cell_denotes (a : sattr) (src : astyle) (cell : str) : Prop :=
  match a with
  | AB x => match bget x src with None => cell = [] | Some b => cell <> [] /\ parse_bool cell = b end
  | AC x => parse_color cell = Ok (cget x src)
  | AF x => match fget x src with None => cell = [] | Some f => cell <> [] /\ parse_float3 cell = Some f end
  | AI x => match iget x src with None => cell = [] | Some i => cell <> [] /\ atoi cell = Some i end
  | AFontName => cell = ay_fontname src
  | AName => cell = ay_name src
  end.
Definition agrees (a : sattr) (src s : astyle) : Prop := sget a s = sget a src \/ sget a s = sget a astyle0.

Lemma style_cell_denotes attr a cell src s :
  sattr_of_name attr = Some a -> cell_denotes a src cell -> agrees a src s ->
  exists s', style_cell attr cell s = Ok s' /\ sget a s' = sget a src /\ forall b, b <> a -> sget b s' = sget b s.
Proof.
  intros Ha Hd Hag. unfold style_cell. rewrite Ha. destruct a as [x|x|x|x| |]; cbn [cell_denotes] in Hd.
  - destruct (bget x src) as [bv|] eqn:Eb.
    + destruct Hd as [Hne Hp]. destruct cell as [|c0 cr]; [contradiction|]. rewrite Hp.
      eexists. split; [reflexivity|]. split; [rewrite sget_bset_same; cbn [sget]; rewrite Eb; reflexivity|].
      intros b Hb. apply sget_bset_other. exact Hb.
    + subst cell. exists s. split; [reflexivity|]. split; [|reflexivity].
      destruct Hag as [Hag|Hag]; [exact Hag|]. rewrite Hag. cbn [sget]. rewrite Eb. destruct x; reflexivity.
  - rewrite Hd. eexists. split; [reflexivity|]. split; [rewrite sget_cset_same; reflexivity|].
    intros b Hb. apply sget_cset_other. exact Hb.
  - destruct (fget x src) as [fv|] eqn:Ef.
    + destruct Hd as [Hne Hp]. destruct cell as [|c0 cr]; [contradiction|]. rewrite Hp.
      eexists. split; [reflexivity|]. split; [rewrite sget_fset_same; cbn [sget]; rewrite Ef; reflexivity|].
      intros b Hb. apply sget_fset_other. exact Hb.
    + subst cell. exists s. split; [reflexivity|]. split; [|reflexivity].
      destruct Hag as [Hag|Hag]; [exact Hag|]. rewrite Hag. cbn [sget]. rewrite Ef. destruct x; reflexivity.
  - destruct (iget x src) as [iv|] eqn:Ei.
    + destruct Hd as [Hne Hp]. destruct cell as [|c0 cr]; [contradiction|]. rewrite Hp.
      eexists. split; [reflexivity|]. split; [rewrite sget_iset_same; cbn [sget]; rewrite Ei; reflexivity|].
      intros b Hb. apply sget_iset_other. exact Hb.
    + subst cell. exists s. split; [reflexivity|]. split; [|reflexivity].
      destruct Hag as [Hag|Hag]; [exact Hag|]. rewrite Hag. cbn [sget]. rewrite Ei. destruct x; reflexivity.
  - subst cell. eexists. split; [reflexivity|]. split; [apply sget_fontname_same|].
    intros b Hb. apply sget_fontname_other. exact Hb.
  - subst cell. eexists. split; [reflexivity|]. split; [apply sget_name_same|].
    intros b Hb. apply sget_name_other. exact Hb.
Qed.

(* a column whose name is not one of the 25 known names is ignored, whatever its cell *)
Lemma style_cell_unknown attr cell s : sattr_of_name attr = None -> style_cell attr cell s = Ok s.
Proof. intros H. unfold style_cell. rewrite H. reflexivity. Qed.

Definition col_ok (src : astyle) (col cell : str) : Prop :=
  match sattr_of_name col with Some a => cell_denotes a src cell | None => True end.
Definition in_cols (a : sattr) (cols : list str) : Prop := exists c, In c cols /\ sattr_of_name c = Some a.

Lemma style_cells_read cols : forall cells src s,
  Forall2 (col_ok src) cols cells -> (forall a, agrees a src s) ->
  exists r, style_cells cols cells s = Ok r /\ (forall a, agrees a src r) /\
            (forall a, in_cols a cols -> sget a r = sget a src) /\
            (forall a, ~ in_cols a cols -> sget a r = sget a s).
Proof.
  induction cols as [|col cols IH]; intros cells src s HF Hag.
  - inversion HF; subst. exists s. split; [reflexivity|]. split; [exact Hag|]. split.
    + intros a (c & Hin & _). destruct Hin.
    + intros a _. reflexivity.
  - inversion HF as [|? cell ? cells' Hc HF']; subst. cbn [style_cells].
    unfold col_ok in Hc. destruct (sattr_of_name col) as [a0|] eqn:Ea.
    + destruct (style_cell_denotes col a0 cell src s Ea Hc (Hag a0)) as (s' & Es & Hsame & Hoth).
      rewrite Es.
      assert (Hag' : forall a, agrees a src s').
      { intros a. destruct (sattr_eq_dec a a0) as [->|Hne]; [left; exact Hsame|].
        unfold agrees. rewrite (Hoth a Hne). apply Hag. }
      destruct (IH cells' src s' HF' Hag') as (r & Er & Hagr & Hin & Hout).
      exists r. split; [exact Er|]. split; [exact Hagr|]. split.
      * intros a (c & Hc' & Hca). destruct Hc' as [<-|Hc'].
        -- assert (a = a0) by congruence. subst a.
           destruct (Hagr a0) as [H1|H1]; [exact H1|].
           (* either a later column names it again, or it is untouched since [s'] *)
           assert (Hdec : in_cols a0 cols \/ ~ in_cols a0 cols).
           { clear. induction cols as [|c cs IHc]; [right; intros (c & [] & _)|].
             destruct (sattr_of_name c) as [b|] eqn:Eb.
             - destruct (sattr_eq_dec b a0) as [->|Hne]; [left; exists c; split; [left; reflexivity | exact Eb]|].
               destruct IHc as [(c' & Hi & Hc')|Hn]; [left; exists c'; split; [right; exact Hi | exact Hc']|].
               right. intros (c' & [<-|Hi] & Hc'); [congruence | apply Hn; exists c'; split; assumption].
             - destruct IHc as [(c' & Hi & Hc')|Hn]; [left; exists c'; split; [right; exact Hi | exact Hc']|].
               right. intros (c' & [<-|Hi] & Hc'); [congruence | apply Hn; exists c'; split; assumption]. }
           destruct Hdec as [Hi|Hn]; [apply Hin; exact Hi | rewrite (Hout a0 Hn); exact Hsame].
        -- apply Hin. exists c. split; assumption.
      * intros a Hn. assert (Hne : a <> a0).
        { intros ->. apply Hn. exists col. split; [left; reflexivity | exact Ea]. }
        rewrite Hout; [apply Hoth; exact Hne|].
        intros (c & Hi & Hc'). apply Hn. exists c. split; [right; exact Hi | exact Hc'].
    + rewrite (style_cell_unknown col cell s Ea).
      destruct (IH cells' src s HF' Hag) as (r & Er & Hagr & Hin & Hout).
      exists r. split; [exact Er|]. split; [exact Hagr|]. split.
      * intros a (c & [<-|Hc'] & Hca); [congruence|]. apply Hin. exists c. split; assumption.
      * intros a Hn. apply Hout. intros (c & Hi & Hc'). apply Hn. exists c. split; [right; exact Hi | exact Hc'].
Qed.

Lemma Forall2_length {A B} (R : A -> B -> Prop) l1 l2 : Forall2 R l1 l2 -> length l1 = length l2.
Proof. induction 1; cbn [length]; congruence. Qed.

(* THE STYLE ROW, READ: for every list of column names (any order, any subset, repeated or unknown names, the
   TertiaryColour alias) and every list of comma-free cells that encode the attributes of [src] column by column,
   the row is decoded to a style that has [src]'s value for every named attribute and no value for the others *)
Theorem style_row_read cols cells src :
  cells <> [] -> Forall (fun c => ~ In 44 c) cells -> Forall2 (col_ok src) cols cells ->
  exists r, style_from_string (join [44] cells) cols = Ok r /\
            (forall a, in_cols a cols -> sget a r = sget a src) /\
            (forall a, ~ in_cols a cols -> sget a r = sget a astyle0).
Proof.
  intros Hne Hnc HF. unfold style_from_string, comma. rewrite (split_byte_join 44 cells Hne Hnc).
  rewrite <- (Forall2_length _ _ _ HF), Nat.eqb_refl.
  destruct (style_cells_read cols cells src astyle0 HF) as (r & Er & _ & Hin & Hout).
  { intros a. right. reflexivity. }
  exists r. split; [exact Er|]. split; assumption.
Qed.

(* when the columns name every attribute that [src] sets (and its name), the row denotes exactly [src] *)
Corollary style_row_read_full cols cells src :
  cells <> [] -> Forall (fun c => ~ In 44 c) cells -> Forall2 (col_ok src) cols cells ->
  (forall a, sget a src <> sget a astyle0 -> in_cols a cols) ->
  style_from_string (join [44] cells) cols = Ok src.
Proof.
  intros Hne Hnc HF Hall. destruct (style_row_read cols cells src Hne Hnc HF) as (r & Er & Hin & Hout).
  rewrite Er. f_equal. apply astyle_ext. intros a.
  assert (Hdec : sget a src = sget a astyle0 \/ sget a src <> sget a astyle0).
  { destruct (sget a src) as [o|o|o|o|o] eqn:E1, (sget a astyle0) as [o'|o'|o'|o'|o'] eqn:E2;
      try (right; discriminate);
      destruct a as [y|y|y|y| |]; try destruct y; cbn in E2; inversion E2; subst;
      try (destruct o; [right; discriminate | left; reflexivity]).
    all: destruct o; [left; reflexivity | right; discriminate]. }
  destruct Hdec as [Heq|Hneq].
  - assert (Hd : in_cols a cols \/ ~ in_cols a cols).
    { clear -cols. induction cols as [|c cs IHc]; [right; intros (c & [] & _)|].
      destruct (sattr_of_name c) as [b|] eqn:Eb.
      - destruct (sattr_eq_dec b a) as [->|Hne]; [left; exists c; split; [left; reflexivity | exact Eb]|].
        destruct IHc as [(c' & Hi & Hc')|Hn]; [left; exists c'; split; [right; exact Hi | exact Hc']|].
        right. intros (c' & [<-|Hi] & Hc'); [congruence | apply Hn; exists c'; split; assumption].
      - destruct IHc as [(c' & Hi & Hc')|Hn]; [left; exists c'; split; [right; exact Hi | exact Hc']|].
        right. intros (c' & [<-|Hi] & Hc'); [congruence | apply Hn; exists c'; split; assumption]. }
    destruct Hd as [Hi|Hn]; [apply Hin; exact Hi | rewrite (Hout a Hn); symmetry; exact Heq].
  - apply Hin. apply Hall. exact Hneq.
Qed.

(* ---------------------------------------------------------------- the written style row *)
(* representable style: colour components are bytes, floats in the model's domain, ints in Go's int range, no comma
   in the two strings *)
Definition style_ok (s : astyle) : Prop :=
  (forall x c, cget x s = Some c -> color_ok c) /\ (forall x f, fget x s = Some f -> float_ok f) /\
  (forall x i, iget x s = Some i -> int_ok i) /\ ~ In 44 (ay_name s) /\ ~ In 44 (ay_fontname s).

Definition cell_of (s : astyle) (a : sattr) : str := match style_cell_string a s with Some c => c | None => [] end.

Lemma opt_cells_map s attrs : ~ In AName attrs ->
  opt_cells (map (fun a => style_cell_string a s) attrs) = map (cell_of s) attrs.
Proof.
  induction attrs as [|a r IH]; intros Hn; [reflexivity|]. cbn [map opt_cells].
  assert (Ha : a <> AName) by (intros ->; apply Hn; left; reflexivity).
  assert (Hr : ~ In AName r) by (intros Hi; apply Hn; right; exact Hi).
  unfold cell_of at 1. destruct a as [y|y|y|y| |]; cbn [style_cell_string opt_cells]; try (rewrite (IH Hr); reflexivity).
  contradiction.
Qed.

Lemma style_string_cells s attrs : ~ In AName attrs ->
  style_string s (AName :: attrs) = join [44] (ay_name s :: map (cell_of s) attrs).
Proof.
  intros Hn. unfold style_string, comma. cbn [map style_cell_string opt_cells]. rewrite (opt_cells_map s attrs Hn). reflexivity.
Qed.

Lemma written_cell_denotes a s : style_ok s -> a <> AName -> cell_denotes a s (cell_of s a) /\ ~ In 44 (cell_of s a).
Proof.
  intros (Hc & Hf & Hi & Hn & Hfn) Ha. unfold cell_of. destruct a as [x|x|x|x| |]; cbn [style_cell_string cell_denotes].
  - destruct (bget x s) as [b|]; [|split; [reflexivity | intros []]].
    split; [split; [apply format_bool_nonnil | apply parse_bool_format] | apply cell_clean_nocomma, format_bool_clean].
  - destruct (cget x s) as [c|] eqn:E; [|split; [apply parse_color_empty | intros []]].
    split; [apply parse_color_format; exact (Hc x c E) | apply cell_clean_nocomma, format_color_clean; exact (Hc x c E)].
  - destruct (fget x s) as [f|] eqn:E; [|split; [reflexivity | intros []]].
    split; [split; [apply format_float3_nonnil | apply parse_float3_format; exact (Hf x f E)] | apply cell_clean_nocomma, format_float3_clean].
  - destruct (iget x s) as [i|] eqn:E; [|split; [reflexivity | intros []]].
    split; [split; [apply itoa_z_nonnil | apply atoi_itoa_z_all; exact (Hi x i E)] | apply cell_clean_nocomma, itoa_z_clean].
  - split; [reflexivity | exact Hfn].
  - contradiction.
Qed.

(* STYLE ROW ROUND TRIP: for every list of attributes [attrs] (any order, any subset, repetitions allowed) the row
   the writer emits under the format Name :: attrs is read back, under that Format line, as the style restricted to
   the listed attributes *)
Theorem style_row_roundtrip s attrs : style_ok s -> ~ In AName attrs ->
  exists r, style_from_string (style_string s (AName :: attrs)) (map sattr_name (AName :: attrs)) = Ok r /\
            sget AName r = sget AName s /\
            (forall a, In a attrs -> sget a r = sget a s) /\
            (forall a, a <> AName -> ~ In a attrs -> sget a r = sget a astyle0).
Proof.
  intros Hok Hn. rewrite (style_string_cells s attrs Hn).
  assert (Hin_cols : forall a, in_cols a (map sattr_name (AName :: attrs)) <-> In a (AName :: attrs)).
  { intros a. split.
    - intros (c & Hc & Ha). apply in_map_iff in Hc. destruct Hc as (b & <- & Hb). rewrite sattr_of_name_name in Ha.
      inversion Ha; subst. exact Hb.
    - intros Hi. exists (sattr_name a). split; [apply in_map; exact Hi | apply sattr_of_name_name]. }
  destruct (style_row_read (map sattr_name (AName :: attrs)) (ay_name s :: map (cell_of s) attrs) s) as (r & Er & Hin & Hout).
  - discriminate.
  - constructor; [apply Hok|]. apply Forall_forall. intros c Hc. apply in_map_iff in Hc. destruct Hc as (a & <- & Ha).
    apply written_cell_denotes; [exact Hok | intros ->; contradiction].
  - cbn [map]. constructor.
    + unfold col_ok. rewrite sattr_of_name_name. reflexivity.
    + clear Hin_cols. induction attrs as [|a r IH]; cbn [map]; constructor.
      * unfold col_ok. rewrite sattr_of_name_name. apply written_cell_denotes; [exact Hok|].
        intros ->. apply Hn. left. reflexivity.
      * apply IH. intros Hi. apply Hn. right. exact Hi.
  - exists r. split; [exact Er|]. split; [apply Hin, Hin_cols; left; reflexivity|]. split.
    + intros a Ha. apply Hin, Hin_cols. right. exact Ha.
    + intros a Hna Hni. apply Hout. intros Hc. apply Hin_cols in Hc. destruct Hc as [<-|Hc]; [apply Hna; reflexivity | contradiction].
Qed.

(* every attribute the style sets is among the format's: the row is read back as the style itself *)
Definition sets (a : sattr) (s : astyle) : Prop := sget a s <> sget a astyle0.
Corollary style_row_roundtrip_full s attrs : style_ok s -> ~ In AName attrs ->
  (forall a, a <> AName -> sets a s -> In a attrs) ->
  style_from_string (style_string s (AName :: attrs)) (map sattr_name (AName :: attrs)) = Ok s.
Proof.
  intros Hok Hn Hall. destruct (style_row_roundtrip s attrs Hok Hn) as (r & Er & Hname & Hin & Hout).
  rewrite Er. f_equal. apply astyle_ext. intros a.
  destruct (sattr_eq_dec a AName) as [->|Hna]; [exact Hname|].
  destruct (in_dec sattr_eq_dec a attrs) as [Hi|Hni]; [apply Hin; exact Hi|].
  rewrite (Hout a Hna Hni).
  assert (Hdec : sget a s = sget a astyle0 \/ sets a s).
  { unfold sets. destruct s. destruct a as [y|y|y|y| |]; try destruct y; cbn;
      match goal with |- ?V ?o = _ \/ _ =>
        destruct o; first [left; reflexivity | right; discriminate] end. }
  destruct Hdec as [He|Hs]; [symmetry; exact He | exfalso; apply Hni, Hall; assumption].
Qed.

(* ---------------------------------------------------------------- event rows *)
Inductive eval := EZ (z : Z) | EO (o : option Z) | EB (o : option bool) | ES (s : str).
Definition eget (a : eattr) (e : aevent) : eval :=
  match a with
  | EStart => EZ (av_start e) | EEnd => EZ (av_end e)
  | ELayer => EO (av_layer e) | EMarginL => EO (av_ml e) | EMarginR => EO (av_mr e) | EMarginV => EO (av_mv e)
  | EMarked => EB (av_marked e)
  | EEffect => ES (av_effect e) | EName => ES (av_name e) | EStyle => ES (av_style e) | EText => ES (av_text e)
  end.
Lemma eattr_eq_dec (a b : eattr) : {a = b} + {a <> b}.
Proof. decide equality. Qed.
Lemma aevent_ext e e' : av_category e = av_category e' -> (forall a, eget a e = eget a e') -> e = e'.
Proof.
  intros Hc H. destruct e, e'. cbn in Hc.
  pose proof (H EEffect) as H1; cbn in H1; injection H1 as H1.
  pose proof (H EEnd) as H2; cbn in H2; injection H2 as H2.
  pose proof (H ELayer) as H3; cbn in H3; injection H3 as H3.
  pose proof (H EMarginL) as H4; cbn in H4; injection H4 as H4.
  pose proof (H EMarginR) as H5; cbn in H5; injection H5 as H5.
  pose proof (H EMarginV) as H6; cbn in H6; injection H6 as H6.
  pose proof (H EMarked) as H7; cbn in H7; injection H7 as H7.
  pose proof (H EName) as H8; cbn in H8; injection H8 as H8.
  pose proof (H EStart) as H9; cbn in H9; injection H9 as H9.
  pose proof (H EStyle) as H10; cbn in H10; injection H10 as H10.
  pose proof (H EText) as H11; cbn in H11; injection H11 as H11.
  subst. reflexivity.
Qed.
Lemma eattr_of_name_name a : eattr_of_name (eattr_name a) = Some a.
Proof. destruct a; reflexivity. Qed.

(* the decoder of one column *)
Definition decode_ecell (a : eattr) (cell : str) : option eval :=
  match a with
  | EStart | EEnd => match parse_time cell with Some d => Some (EZ d) | None => None end
  | ELayer | EMarginL | EMarginR | EMarginV => match atoi cell with Some v => Some (EO (Some v)) | None => None end
  | EMarked => Some (EB (Some (str_eqb cell n_marked1)))
  | EEffect | EName => Some (ES cell)
  | EStyle => Some (ES (if str_eqb cell n_star_default then n_default else cell))
  | EText => Some (ES (trim_space cell))
  end.

Lemma event_cell_decode attr a cell e : eattr_of_name attr = Some a ->
  match decode_ecell a cell with
  | Some v => exists e', event_cell attr cell e = Ok e' /\ eget a e' = v /\
                         (forall b, b <> a -> eget b e' = eget b e) /\ av_category e' = av_category e
  | None => event_cell attr cell e = Err EParse
  end.
Proof.
  intros Ha. unfold event_cell. destruct e. rewrite Ha.
  destruct a; cbn [decode_ecell];
    try (destruct (parse_time cell); [|reflexivity]);
    try (destruct (atoi cell); [|reflexivity]);
    (eexists; split; [reflexivity|]; split; [reflexivity|]; split; [|reflexivity];
     intros b Hb; destruct b; try reflexivity; exfalso; apply Hb; reflexivity).
Qed.
Lemma event_cell_unknown attr cell e : eattr_of_name attr = None -> event_cell attr cell e = Ok e.
Proof. intros H. unfold event_cell. destruct e. rewrite H. reflexivity. Qed.

Definition ecol_ok (src : aevent) (col cell : str) : Prop :=
  match eattr_of_name col with Some a => decode_ecell a cell = Some (eget a src) | None => True end.
Definition in_ecols (a : eattr) (cols : list str) : Prop := exists c, In c cols /\ eattr_of_name c = Some a.
Lemma in_ecols_dec a cols : in_ecols a cols \/ ~ in_ecols a cols.
Proof.
  induction cols as [|c cs IHc]; [right; intros (c & [] & _)|].
  destruct (eattr_of_name c) as [b|] eqn:Eb.
  - destruct (eattr_eq_dec b a) as [->|Hne]; [left; exists c; split; [left; reflexivity | exact Eb]|].
    destruct IHc as [(c' & Hi & Hc')|Hn]; [left; exists c'; split; [right; exact Hi | exact Hc']|].
    right. intros (c' & [<-|Hi] & Hc'); [congruence | apply Hn; exists c'; split; assumption].
  - destruct IHc as [(c' & Hi & Hc')|Hn]; [left; exists c'; split; [right; exact Hi | exact Hc']|].
    right. intros (c' & [<-|Hi] & Hc'); [congruence | apply Hn; exists c'; split; assumption].
Qed.

Lemma event_cells_read cols : forall cells src e,
  Forall2 (ecol_ok src) cols cells ->
  exists r, event_cells cols cells e = Ok r /\ av_category r = av_category e /\
            (forall a, in_ecols a cols -> eget a r = eget a src) /\
            (forall a, ~ in_ecols a cols -> eget a r = eget a e).
Proof.
  induction cols as [|col cols IH]; intros cells src e HF.
  - inversion HF; subst. exists e. split; [reflexivity|]. split; [reflexivity|]. split.
    + intros a (c & [] & _).
    + reflexivity.
  - inversion HF as [|? cell ? cells' Hc HF']; subst. cbn [event_cells].
    unfold ecol_ok in Hc. destruct (eattr_of_name col) as [a0|] eqn:Ea.
    + pose proof (event_cell_decode col a0 cell e Ea) as Hd. rewrite Hc in Hd.
      destruct Hd as (e' & Ee & Hsame & Hoth & Hcat). rewrite Ee.
      destruct (IH cells' src e' HF') as (r & Er & Hcr & Hin & Hout).
      exists r. split; [exact Er|]. split; [congruence|]. split.
      * intros a (c & [<-|Hc'] & Hca).
        -- assert (a = a0) by congruence. subst a.
           destruct (in_ecols_dec a0 cols) as [Hi|Hn]; [apply Hin; exact Hi | rewrite (Hout a0 Hn); exact Hsame].
        -- apply Hin. exists c. split; assumption.
      * intros a Hn. assert (Hne : a <> a0).
        { intros ->. apply Hn. exists col. split; [left; reflexivity | exact Ea]. }
        rewrite Hout; [apply Hoth; exact Hne|].
        intros (c & Hi & Hc'). apply Hn. exists c. split; [right; exact Hi | exact Hc'].
    + rewrite (event_cell_unknown col cell e Ea).
      destruct (IH cells' src e HF') as (r & Er & Hcr & Hin & Hout).
      exists r. split; [exact Er|]. split; [exact Hcr|]. split.
      * intros a (c & [<-|Hc'] & Hca); [congruence|]. apply Hin. exists c. split; assumption.
      * intros a Hn. apply Hout. intros (c & Hi & Hc'). apply Hn. exists c. split; [right; exact Hi | exact Hc'].
Qed.

(* commas: the cells are recovered when every cell but the last is comma-free *)
Lemma join_split_byte c s : join [c] (split_byte c s) = s.
Proof.
  induction s as [|x r IH]; [reflexivity|]. cbn [split_byte].
  destruct (split_byte c r) as [|h t] eqn:E; [exfalso; exact (split_byte_nonnil c r E)|].
  destruct (x =? c) eqn:Ex.
  - apply N.eqb_eq in Ex. subst x. cbn [join app]. cbn [join] in IH. f_equal. exact IH.
  - destruct t as [|h2 t2]; cbn [join] in *; [f_equal; exact IH|].
    cbn [app]. f_equal. exact IH.
Qed.
Lemma split_join_last c init last : Forall (fun w => ~ In c w) init ->
  split_byte c (join [c] (init ++ [last])) = init ++ split_byte c last.
Proof.
  induction init as [|x r IH]; intros HF; [reflexivity|].
  inversion HF as [|? ? Hx Hr]; subst. cbn [app].
  assert (E : join [c] (x :: r ++ [last]) = x ++ c :: join [c] (r ++ [last])).
  { destruct r; reflexivity. }
  rewrite E, (split_byte_app c x _ Hx), (IH Hr). reflexivity.
Qed.
Lemma fold_last_cells init last : Forall (fun w => ~ In 44 w) init ->
  fold_last (S (length init)) (split_byte 44 (join [44] (init ++ [last]))) = init ++ [last].
Proof.
  intros HF. rewrite (split_join_last 44 init last HF). unfold fold_last, comma.
  replace (S (length init) - 1)%nat with (length init + 0)%nat by lia.
  rewrite firstn_app_2, skipn_app. cbn [firstn]. rewrite app_nil_r.
  rewrite skipn_all2 by lia. replace (length init + 0 - length init)%nat with 0%nat by lia.
  cbn [skipn app]. rewrite join_split_byte. reflexivity.
Qed.

(* THE EVENT ROW, READ: for every non-empty list of column names (any order, subset, repetition, unknown names) and
   every list of cells of which all but the last are comma-free, the row -- the last cell taking all surplus commas --
   is decoded column by column *)
Theorem event_row_read header cols init last src :
  Forall (fun c => ~ In 44 c) init -> Forall2 (ecol_ok src) cols (init ++ [last]) ->
  exists r, event_from_string header (join [44] (init ++ [last])) cols = Ok r /\ av_category r = header /\
            (forall a, in_ecols a cols -> eget a r = eget a src) /\
            (forall a, ~ in_ecols a cols -> eget a r = eget a (aevent0 header)).
Proof.
  intros Hnc HF. pose proof (Forall2_length _ _ _ HF) as Hlen. rewrite app_length in Hlen. cbn [length] in Hlen.
  unfold event_from_string, comma. rewrite Hlen.
  replace (length init + 1)%nat with (S (length init)) by lia.
  rewrite (fold_last_cells init last Hnc).
  rewrite (split_join_last 44 init last Hnc), app_length.
  pose proof (split_byte_nonnil 44 last) as Hnn.
  destruct (Nat.ltb (length init + length (split_byte 44 last)) (S (length init))) eqn:El.
  { apply Nat.ltb_lt in El. destruct (split_byte 44 last); [contradiction | cbn [length] in El; lia]. }
  destruct (event_cells_read cols (init ++ [last]) src (aevent0 header) HF) as (r & Er & Hc & Hin & Hout).
  exists r. split; [exact Er|]. split; [exact Hc|]. split; assumption.
Qed.

(* ---------------------------------------------------------------- the written event row *)
Definition event_ok (e : aevent) : Prop :=
  (0 <= av_start e <= max_int64)%Z /\ (0 <= av_end e <= max_int64)%Z /\
  int_ok (oz (av_layer e)) /\ int_ok (oz (av_ml e)) /\ int_ok (oz (av_mr e)) /\ int_ok (oz (av_mv e)) /\
  ~ In 44 (av_effect e) /\ ~ In 44 (av_name e) /\ ~ In 44 (av_style e).
Definition trunc_cs (t : Z) : Z := (t - t mod 10000000)%Z.
(* what the reader makes of the cell the writer emits for column [a] *)
Definition ewritten (a : eattr) (e : aevent) : eval :=
  match a with
  | EStart => EZ (trunc_cs (av_start e)) | EEnd => EZ (trunc_cs (av_end e))
  | ELayer => EO (Some (oz (av_layer e))) | EMarginL => EO (Some (oz (av_ml e)))
  | EMarginR => EO (Some (oz (av_mr e))) | EMarginV => EO (Some (oz (av_mv e)))
  | EMarked => EB (Some (match av_marked e with Some true => true | _ => false end))
  | EEffect => ES (av_effect e) | EName => ES (av_name e)
  | EStyle => ES (if str_eqb (av_style e) n_star_default then n_default else av_style e)
  | EText => ES (trim_space (av_text e))
  end.
(* the speaker name cell: the writer replaces commas by semicolons; a comma-free name is written as it is *)
Lemma name_cell_id n : ~ In 44 n -> name_cell n = n.
Proof.
  unfold name_cell. induction n as [|c r IH]; intros H; [reflexivity|]. cbn [map].
  destruct (c =? 44) eqn:E; [apply N.eqb_eq in E; subst c; exfalso; apply H; left; reflexivity|].
  rewrite IH; [reflexivity | intros Hi; apply H; right; exact Hi].
Qed.
Lemma name_cell_nocomma n : ~ In 44 (name_cell n).
Proof.
  unfold name_cell. intros H. apply in_map_iff in H. destruct H as (c & E & _).
  destruct (c =? 44) eqn:Ec; [discriminate E|]. apply N.eqb_neq in Ec. exact (Ec E).
Qed.
Lemma decode_written a e : event_ok e -> decode_ecell a (event_cell_string a e) = Some (ewritten a e).
Proof.
  intros (Hs & He & Hl & Hml & Hmr & Hmv & _ & Hnm & _). destruct a; cbn [decode_ecell event_cell_string ewritten];
    try rewrite (name_cell_id _ Hnm);
    try (rewrite atoi_itoa_z_all by assumption; reflexivity); try reflexivity.
  - rewrite (parse_time_format _ He). reflexivity.
  - destruct (av_marked e) as [ [|]|]; reflexivity.
  - rewrite (parse_time_format _ Hs). reflexivity.
Qed.
Lemma written_ecell_nocomma a e : event_ok e -> a <> EText -> ~ In 44 (event_cell_string a e).
Proof.
  intros (Hs & He & _ & _ & _ & _ & Hef & Hnm & Hst) Ha. destruct a; cbn [event_cell_string]; try assumption;
    try apply name_cell_nocomma;
    try (apply cell_clean_nocomma, itoa_z_clean); try (apply cell_clean_nocomma, format_ssa_clean; lia).
  - destruct (av_marked e) as [ [|]|]; vm_compute; intros H; repeat (destruct H as [H|H]; [discriminate|]); exact H.
  - contradiction.
Qed.

(* EVENT ROW ROUND TRIP: for every non-empty list of columns [init ++ [lastc]] in which the text column, if present,
   is the last one (any order, any subset, repetitions allowed), the row the writer emits is read back under that Format
   line with, for every listed column, the value the written cell denotes: times truncated to the centisecond, absent
   numbers as 0, the marked flag, the three strings, the text trimmed -- commas in the text preserved *)
Theorem event_row_roundtrip header e init lastc : event_ok e -> ~ In EText init ->
  let fmt := init ++ [lastc] in
  exists r, event_from_string header (event_string e fmt) (map eattr_name fmt) = Ok r /\ av_category r = header /\
            (forall a, In a fmt -> eget a r = ewritten a e) /\
            (forall a, ~ In a fmt -> eget a r = eget a (aevent0 header)).
Proof.
  intros Hok Hnt fmt.
  (* a source event whose fields are the values the cells denote *)
  set (src := mkAevent header (av_effect e)
                (trunc_cs (av_end e)) (Some (oz (av_layer e)))
                (Some (match av_marked e with Some true => true | _ => false end))
                (Some (oz (av_ml e))) (Some (oz (av_mr e))) (Some (oz (av_mv e))) (av_name e)
                (trunc_cs (av_start e)) (if str_eqb (av_style e) n_star_default then n_default else av_style e)
                (trim_space (av_text e))).
  assert (Hsrc : forall a, eget a src = ewritten a e) by (intros a; destruct a; reflexivity).
  assert (Hin_cols : forall a, in_ecols a (map eattr_name fmt) <-> In a fmt).
  { intros a. split.
    - intros (c & Hc & Ha). apply in_map_iff in Hc. destruct Hc as (b & <- & Hb). rewrite eattr_of_name_name in Ha.
      inversion Ha; subst. exact Hb.
    - intros Hi. exists (eattr_name a). split; [apply in_map; exact Hi | apply eattr_of_name_name]. }
  unfold event_string, comma. unfold fmt at 1. rewrite map_app. cbn [map].
  destruct (event_row_read header (map eattr_name fmt) (map (fun a => event_cell_string a e) init)
              (event_cell_string lastc e) src) as (r & Er & Hc & Hin & Hout).
  - apply Forall_forall. intros c Hc. apply in_map_iff in Hc. destruct Hc as (a & <- & Ha).
    apply written_ecell_nocomma; [exact Hok | intros ->; contradiction].
  - unfold fmt. rewrite map_app. cbn [map].
    assert (G : forall l, Forall2 (ecol_ok src) (map eattr_name l) (map (fun a => event_cell_string a e) l)).
    { induction l as [|a l IHl]; cbn [map]; constructor; [|exact IHl].
      unfold ecol_ok. rewrite eattr_of_name_name, Hsrc. apply decode_written. exact Hok. }
    specialize (G (init ++ [lastc])). rewrite !map_app in G. exact G.
  - exists r. split; [exact Er|]. split; [exact Hc|]. split.
    + intros a Ha. rewrite <- Hsrc. apply Hin, Hin_cols. exact Ha.
    + intros a Hna. apply Hout. intros Hc'. apply Hin_cols in Hc'. contradiction.
Qed.
