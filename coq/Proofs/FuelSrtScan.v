(* Fuel audit, functions that already had a sufficiency lemma, restated in the audit's shape
   [measure <= fuel -> f fuel x = f measure x], with the fuel-free equations where they were missing:
     Model/Srt.v  utf8_valid_fuel (value at O: true !)  — SrtReadProofs.utf8_valid_fuel_enough
     Model/Srt.v  replace_fuel    (value at O: s)       — SrtEscProofs.replace_fuel_enough
     Kit/Scan.v   lines_fuel      (value at O: [])      — ScanProofs.lines_fuel_enough
     Kit/Scan.v   scan_abs        (value at O: [])      — ScanProofs.scan_abs_lines (equal to the fuel-free [lines]) *)
From Coq Require Import List ZArith NArith Bool Arith Lia.
From Astisub Require Import Kit.Base Kit.Str Kit.Scan Model.Dur Model.Srt
  Proofs.ScanProofs Proofs.SrtEscProofs Proofs.SrtReadProofs.
Import ListNotations.
Open Scope N_scope.

(* ---------------------------------------------------------------- utf8_valid *)
Theorem utf8_valid_fuel_indep fuel s : (S (length s) <= fuel)%nat -> utf8_valid_fuel fuel s = utf8_valid_fuel (S (length s)) s.
Proof. intros H. apply utf8_valid_fuel_enough; lia. Qed.

(* fuel-free equation: every call on the right is on a shorter string *)
Theorem utf8_valid_nil : utf8_valid [] = true. Proof. reflexivity. Qed.
Lemma fs_utf8_step f c t :
  utf8_valid_fuel (S f) (c :: t) =
  if c <? 128 then utf8_valid_fuel f t
  else if (194 <=? c) && (c <=? 223) then
    match t with c1 :: t1 => (128 <=? c1) && (c1 <=? 191) && utf8_valid_fuel f t1 | _ => false end
  else if (224 <=? c) && (c <=? 239) then
    match t with
    | c1 :: c2 :: t2 =>
      let lo := if c =? 224 then 160 else 128 in
      let hi := if c =? 237 then 159 else 191 in
      (lo <=? c1) && (c1 <=? hi) && (128 <=? c2) && (c2 <=? 191) && utf8_valid_fuel f t2
    | _ => false
    end
  else if (240 <=? c) && (c <=? 244) then
    match t with
    | c1 :: c2 :: c3 :: t3 =>
      let lo := if c =? 240 then 144 else 128 in
      let hi := if c =? 244 then 143 else 191 in
      (lo <=? c1) && (c1 <=? hi) && (128 <=? c2) && (c2 <=? 191) && (128 <=? c3) && (c3 <=? 191) && utf8_valid_fuel f t3
    | _ => false
    end
  else false.
Proof. reflexivity. Qed.
Theorem utf8_valid_cons c t :
  utf8_valid (c :: t) =
  if c <? 128 then utf8_valid t
  else if (194 <=? c) && (c <=? 223) then
    match t with c1 :: t1 => (128 <=? c1) && (c1 <=? 191) && utf8_valid t1 | _ => false end
  else if (224 <=? c) && (c <=? 239) then
    match t with
    | c1 :: c2 :: t2 =>
      let lo := if c =? 224 then 160 else 128 in
      let hi := if c =? 237 then 159 else 191 in
      (lo <=? c1) && (c1 <=? hi) && (128 <=? c2) && (c2 <=? 191) && utf8_valid t2
    | _ => false
    end
  else if (240 <=? c) && (c <=? 244) then
    match t with
    | c1 :: c2 :: c3 :: t3 =>
      let lo := if c =? 240 then 144 else 128 in
      let hi := if c =? 244 then 143 else 191 in
      (lo <=? c1) && (c1 <=? hi) && (128 <=? c2) && (c2 <=? 191) && (128 <=? c3) && (c3 <=? 191) && utf8_valid t3
    | _ => false
    end
  else false.
Proof.
  unfold utf8_valid at 1. rewrite fs_utf8_step.
  destruct (c <? 128); [apply utf8_valid_fuel_enough; cbn [length]; lia|].
  destruct ((194 <=? c) && (c <=? 223)).
  { destruct t as [|c1 t1]; [reflexivity|]. f_equal. apply utf8_valid_fuel_enough; cbn [length]; lia. }
  destruct ((224 <=? c) && (c <=? 239)).
  { destruct t as [|c1 [|c2 t2]]; try reflexivity. cbv zeta. f_equal. apply utf8_valid_fuel_enough; cbn [length]; lia. }
  destruct ((240 <=? c) && (c <=? 244)); [|reflexivity].
  destruct t as [|c1 [|c2 [|c3 t3]]]; try reflexivity. cbv zeta. f_equal. apply utf8_valid_fuel_enough; cbn [length]; lia.
Qed.
Theorem utf8_valid_ascii c t : (c <? 128) = true -> utf8_valid (c :: t) = utf8_valid t.
Proof. intros H. rewrite utf8_valid_cons, H. reflexivity. Qed.
(* a byte that no sequence can start with: 128..193 and 245..255 *)
Theorem utf8_valid_bad_lead c t : (c <? 128) = false -> ((194 <=? c) && (c <=? 223)) = false ->
  ((224 <=? c) && (c <=? 239)) = false -> ((240 <=? c) && (c <=? 244)) = false -> utf8_valid (c :: t) = false.
Proof. intros H1 H2 H3 H4. rewrite utf8_valid_cons, H1, H2, H3, H4. reflexivity. Qed.
(* the value [true] is therefore never the out-of-fuel one: an invalid lead byte anywhere makes the result false,
   however long the valid ASCII text in front of it *)
Theorem utf8_valid_ascii_then_bad a c t : forallb (fun x => x <? 128) a = true ->
  (c <? 128) = false -> ((194 <=? c) && (c <=? 223)) = false ->
  ((224 <=? c) && (c <=? 239)) = false -> ((240 <=? c) && (c <=? 244)) = false -> utf8_valid (a ++ c :: t) = false.
Proof.
  intros Ha H1 H2 H3 H4. induction a as [|x a IH]; cbn [app].
  - apply utf8_valid_bad_lead; assumption.
  - cbn [forallb] in Ha. apply andb_true_iff in Ha. destruct Ha as [Hx Ha]. rewrite (utf8_valid_ascii x _ Hx). exact (IH Ha).
Qed.

(* ---------------------------------------------------------------- replace_all *)
Theorem replace_fuel_indep pairs fuel s : olds_nonempty pairs -> (S (length s) <= fuel)%nat ->
  replace_fuel fuel pairs s = replace_fuel (S (length s)) pairs s.
Proof. intros Hne H. apply replace_fuel_enough; [exact Hne | lia | lia]. Qed.
(* fuel-free equations: SrtEscProofs.replace_all_nil, replace_cons_match, replace_cons_nomatch *)
(* the two tables the model uses satisfy the hypothesis (SrtEscProofs.esc_pairs_ne, unesc_pairs_ne) *)
Corollary escape_html_fuel fuel s : (S (length s) <= fuel)%nat -> replace_fuel fuel esc_pairs s = escape_html s.
Proof. intros H. apply replace_fuel_enough; [exact esc_pairs_ne | lia | unfold lt; reflexivity]. Qed.
Corollary unescape_html_fuel fuel s : (S (length s) <= fuel)%nat -> replace_fuel fuel unesc_pairs s = unescape_html s.
Proof. intros H. apply replace_fuel_enough; [exact unesc_pairs_ne | lia | unfold lt; reflexivity]. Qed.
(* the hypothesis is needed: with an empty pattern the loop consumes nothing and stops only when the fuel is gone
   (strings.NewReplacer with an empty old string inserts at every position instead).  Model scope, not a defect: the
   tables are the two constants above. *)
Example replace_empty_old_reaches_fuel : replace_all [([], [120])] [1] = [120; 120; 1].
Proof. vm_compute. reflexivity. Qed.

(* ---------------------------------------------------------------- lines, scan *)
Theorem lines_fuel_indep fuel s : (S (length s) <= fuel)%nat -> lines_fuel fuel s = lines_fuel (S (length s)) s.
Proof. intros H. apply lines_fuel_enough; lia. Qed.
(* fuel-free equations: ScanProofs.lines_unfold, lines_none *)
Theorem scan_abs_indep fuel buf rest counts : (S (length buf + length rest + length counts) <= fuel)%nat ->
  scan_abs fuel buf rest counts = scan_abs (S (length buf + length rest + length counts)) buf rest counts.
Proof. intros H. rewrite !scan_abs_lines by lia. reflexivity. Qed.
