(* C03: every TTML time-expression form is resolved to the instant it means (structure from TtmlTime.v,
   binary64 arithmetic from TtmlFloat.v). *)
From Coq Require Import List ZArith NArith Bool Lia.
From Astisub Require Import Kit.Base Kit.Str Kit.Float64 Kit.Float64x Kit.Xml Model.Dur Model.Ttml
  Proofs.DurProofs Proofs.TtmlSpec Proofs.TtmlTime Proofs.TtmlFloat Proofs.TtmlFloat2.
Import ListNotations.
Open Scope Z_scope.

Lemma dec_mant_nil ip : dec_mant ip [] = dval ip.
Proof. unfold dec_mant, dval. rewrite app_nil_r. reflexivity. Qed.

(* offsets in h, m, s, ms with a decimal fraction: value n / 10^k units *)
Theorem offset_time_denotes ip fp m fr tr : digits ip -> digits fp -> ip <> [] ->
  (m = Mh \/ m = Mm \/ m = Ms \/ m = Mms) ->
  let n := dec_mant ip fp in let den := 10 ^ Z.of_nat (length fp) in
  0 <= n < 2 ^ 53 -> (length fp <= 22)%nat -> n * timebase m < 2 ^ 49 * den ->
  exists r, ttml_time (offset_expr ip fp m) fr tr = Some r /\ denotes_instant r (n * timebase m) den.
Proof.
  intros Hi Hf Hne Hm n den Hn Hl Hb. exists (offset_term ip fp m). split.
  - rewrite offset_time by assumption. destruct Hm as [->|[->|[->| ->]]]; reflexivity.
  - apply offset_term_correct; assumption.
Qed.

(* offsets in frames, the count possibly with a fraction: n / 10^k frames at frame rate fr *)
Theorem frames_offset_denotes ip fp fr tr : digits ip -> digits fp -> ip <> [] ->
  let n := dec_mant ip fp in let den := 10 ^ Z.of_nat (length fp) in
  0 < n < 2 ^ 53 -> (length fp <= 22)%nat -> 0 < fr < 2 ^ 53 -> n * second_ns < 2 ^ 49 * (den * fr) ->
  exists r, ttml_time (offset_expr ip fp Mf) fr tr = Some r /\ denotes_instant r (n * second_ns) (den * fr).
Proof.
  intros Hi Hf Hne n den Hn Hl Hfr Hb. exists (frames_val_term (parse_dec ip fp) fr). split.
  - rewrite offset_time by assumption. cbv zeta. rewrite (parse_dec_fpos ip fp Hn Hl), orb_true_r.
    assert (E : (0 <? fr) = true) by (apply Z.ltb_lt; lia). rewrite E. reflexivity.
  - apply frames_val_correct; assumption.
Qed.

(* offsets in ticks, the count possibly with a fraction: n / 10^k ticks at tick rate tr *)
Theorem ticks_offset_denotes ip fp fr tr : digits ip -> digits fp -> ip <> [] ->
  let n := dec_mant ip fp in let den := 10 ^ Z.of_nat (length fp) in
  0 < n < 2 ^ 53 -> (length fp <= 22)%nat -> 0 < tr < 2 ^ 53 -> n * second_ns < 2 ^ 49 * (den * tr) ->
  exists r, ttml_time (offset_expr ip fp Mt) fr tr = Some r /\ denotes_instant r (n * second_ns) (den * tr).
Proof.
  intros Hi Hf Hne n den Hn Hl Htr Hb. exists (ticks_val_term (parse_dec ip fp) tr). split.
  - rewrite offset_time by assumption. cbv zeta. rewrite (parse_dec_fpos ip fp Hn Hl), orb_true_r.
    assert (E : (0 <? tr) = true) by (apply Z.ltb_lt; lia). rewrite E. reflexivity.
  - apply ticks_val_correct; assumption.
Qed.

(* a zero count (0f, 0.00t, ...) is the instant 0, whatever the rates *)
Theorem zero_count_time ip fp m fr tr : digits ip -> digits fp -> ip <> [] -> (m = Mf \/ m = Mt) ->
  dec_mant ip fp = 0 -> ttml_time (offset_expr ip fp m) fr tr = Some 0.
Proof.
  intros Hi Hf Hne Hm H0. rewrite offset_time by assumption. cbv zeta.
  destruct (parse_dec_zero ip fp H0) as [Hp Hz]. rewrite Hp, Hz. destruct Hm as [-> | ->]; reflexivity.
Qed.

(* clock time with frames: hours:minutes:seconds exactly, plus the frames at the document's frame rate *)
Theorem clock_frames_denotes hs ms ss fds fr tr : digits hs -> digits ms -> digits ss -> digits fds ->
  hs <> [] -> ms <> [] -> ss <> [] -> fds <> [] ->
  dval hs <= max_int64 -> dval ms <= max_int64 -> dval ss <= max_int64 ->
  0 <= dval fds < 2 ^ 53 -> 0 < fr < 2 ^ 53 -> dval fds * second_ns < 2 ^ 49 * fr ->
  exists r, ttml_time (clock_frames_expr hs ms ss fds) fr tr = Some (hms_ns hs ms ss + r) /\
            denotes_instant r (dval fds * second_ns) fr.
Proof.
  intros Dh Dm Ds Df Nh Nm Ns Nf Mh Mm Mss Hf Hfr Hb.
  assert (Mf : dval fds <= max_int64) by (unfold max_int64; lia).
  rewrite clock_frames_time by assumption.
  destruct (Z.eq_dec (dval fds) 0) as [E0|E0].
  - exists 0. rewrite E0. cbn [Z.ltb Z.compare andb]. split; [reflexivity|].
    unfold denotes_instant. split; [intros _; rewrite Z.mul_0_l, Z.div_0_l by lia; reflexivity | lia].
  - exists (frames_term (dval fds) fr).
    assert (E : (0 <? dval fds) && (0 <? fr) = true) by (apply andb_true_iff; split; apply Z.ltb_lt; lia).
    rewrite E. split; [reflexivity|]. apply frames_term_correct; lia.
Qed.

(* 15 significant digits are within the exact domain of the decimal parser *)
Lemma denotes_instant_whole r n : denotes_instant r n 1 -> r = n.
Proof. intros [H _]. rewrite H by (exists n; lia). apply Z.div_1_r. Qed.
