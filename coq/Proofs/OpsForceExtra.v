(* ForceDuration (C14), additions: the target is at least one millisecond, so the filler [d - 1 ms, d) never starts at
   a negative time; the result lasts exactly d when the filler is added and when the last cue is clipped. *)
From Coq Require Import List ZArith NArith Bool Lia Sorted.
From Astisub Require Import Kit.Base Model.Ops Proofs.ForceProofs.
Import ListNotations.
Open Scope Z_scope.

Definition ms : Z := 1000000.

(* the filler: one millisecond long, ending at d, starting at or after 0 as soon as d >= 1 ms *)
Lemma filler_times u d : st (dummy_item u d) = d - ms /\ en (dummy_item u d) = d /\ st (dummy_item u d) < en (dummy_item u d).
Proof. unfold dummy_item, ms. cbn [st en]. lia. Qed.

Theorem filler_start_nonneg u d : ms <= d -> 0 <= st (dummy_item u d).
Proof. intros H. unfold dummy_item, ms in *. cbn [st]. lia. Qed.

Lemma clip_st d x : st (clip d x) = st x.
Proof. unfold clip. destruct (d <? en x); reflexivity. Qed.

Lemma kept_starts (P : Z -> Prop) d l : Forall (fun x => P (st x)) l -> Forall (fun x => P (st x)) (kept d l).
Proof.
  intros H. unfold kept. rewrite Forall_forall in *. intros y Hy. apply in_map_iff in Hy. destruct Hy as (x & <- & Hx).
  apply filter_In in Hx. rewrite clip_st. apply H. tauto.
Qed.

(* no cue of the result starts at a negative time (when none of the input does and d >= 1 ms) *)
Theorem force_starts_nonneg d dummy u l : wf_timeline l -> ms <= d ->
  Forall (fun x => 0 <= st x) l -> Forall (fun x => 0 <= st x) (force_duration d dummy u l).
Proof.
  intros Hw Hd H. assert (Hd0 : 0 < d) by (unfold ms in Hd; lia).
  rewrite (force_characterisation d dummy u l Hw Hd0). apply Forall_app. split.
  - apply (kept_starts (fun s => 0 <= s)). exact H.
  - destruct (dummy && (duration (kept d l) <? d)); constructor; [apply filler_start_nonneg; exact Hd | constructor].
Qed.

(* ---- the filler is added: the result is the kept part followed by the filler, and lasts exactly d ---- *)
Theorem force_filler_added d u l : wf_timeline l -> 0 < d -> duration (kept d l) < d ->
  force_duration d true u l = kept d l ++ [dummy_item u d] /\ duration (force_duration d true u l) = d.
Proof.
  intros Hw Hd Hlt. rewrite (force_characterisation d true u l Hw Hd). cbn [andb].
  apply Z.ltb_lt in Hlt. rewrite Hlt. split; [reflexivity | apply duration_last_app].
Qed.

(* ---- a cue is clipped (or ends exactly at d): the kept part already lasts d ---- *)
Lemma kept_cons d a r : kept d (a :: r) = if st a <? d then clip d a :: kept d r else kept d r.
Proof. unfold kept. cbn [filter]. destruct (st a <? d); reflexivity. Qed.

Lemma kept_in d r y : In y (kept d r) -> exists x, In x r /\ st x < d /\ y = clip d x.
Proof.
  unfold kept. intros H. apply in_map_iff in H. destruct H as (x & <- & Hx). apply filter_In in Hx.
  destruct Hx as [Hin Hlt]. apply Z.ltb_lt in Hlt. exists x. auto.
Qed.

Lemma in_kept d r x : In x r -> st x < d -> In (clip d x) (kept d r).
Proof.
  intros Hin Hlt. unfold kept. apply in_map. apply filter_In. split; [exact Hin | apply Z.ltb_lt; exact Hlt].
Qed.

Lemma clip_en_ge d x : d <= en x -> en (clip d x) = d.
Proof.
  intros H. unfold clip. destruct (d <? en x) eqn:E; [reflexivity|]. apply Z.ltb_ge in E. lia.
Qed.

Lemma kept_duration_ge d : forall l x, wf_timeline l -> In x l -> st x < d -> d <= en x -> d <= duration (kept d l).
Proof.
  induction l as [|a r IH]; intros x Hw Hin Hlt Hge; [destruct Hin|].
  pose proof (wf_tail _ _ Hw) as Hw'. pose proof (wf_starts _ _ Hw) as Hs.
  rewrite kept_cons. destruct Hin as [->|Hin].
  - destruct (st x <? d) eqn:E; [|apply Z.ltb_ge in E; lia].
    destruct (kept d r) as [|y m] eqn:Ek.
    + unfold duration. cbn [last]. rewrite (clip_en_ge d x Hge). lia.
    + rewrite duration_cons.
      assert (Hy : In y (kept d r)) by (rewrite Ek; left; reflexivity).
      destruct (kept_in d r y Hy) as (z & Hz & Hzd & _).
      apply (IH z Hw' Hz Hzd). rewrite Forall_forall in Hs. specialize (Hs z Hz). lia.
  - specialize (IH x Hw' Hin Hlt Hge).
    destruct (st a <? d); [|exact IH].
    pose proof (in_kept d r x Hin Hlt) as Hk.
    destruct (kept d r) as [|y m] eqn:Ek; [destruct Hk|].
    rewrite duration_cons. exact IH.
Qed.

(* whatever the filler flag: if some cue is on screen at d or ends exactly at d (st < d <= en), nothing is appended
   and the result - the kept part, its last cue ending at d - lasts exactly d *)
Theorem force_clipped_duration d dummy u l x : wf_timeline l -> 0 < d -> In x l -> st x < d -> d <= en x ->
  force_duration d dummy u l = kept d l /\ duration (force_duration d dummy u l) = d.
Proof.
  intros Hw Hd Hin Hlt Hge.
  assert (E : duration (kept d l) = d).
  { pose proof (kept_duration_le d l Hd Hw). pose proof (kept_duration_ge d l x Hw Hin Hlt Hge). lia. }
  rewrite (force_characterisation d dummy u l Hw Hd), E, Z.ltb_irrefl, andb_false_r, app_nil_r.
  split; [reflexivity | exact E].
Qed.

(* the two cases side by side, for d >= 1 ms *)
Theorem force_exact_duration d u l : wf_timeline l -> ms <= d ->
  duration (force_duration d true u l) = d /\ Forall (fun x => st x < en x) (force_duration d true u l).
Proof.
  intros Hw Hd. assert (Hd0 : 0 < d) by (unfold ms in Hd; lia).
  split; [apply force_with_filler_duration; assumption|].
  rewrite (force_characterisation d true u l Hw Hd0). apply Forall_app. split.
  - unfold kept. rewrite Forall_forall. intros y Hy. apply in_map_iff in Hy. destruct Hy as (x & <- & Hx).
    apply filter_In in Hx. destruct Hx as [Hin Hlt]. apply Z.ltb_lt in Hlt.
    assert (Hpos : st x < en x).
    { clear - Hw Hin. induction l as [|a r IH]; [destruct Hin|]. destruct Hin as [->|Hin]; [exact (wf_head _ _ Hw)|].
      exact (IH (wf_tail _ _ Hw) Hin). }
    rewrite clip_st. unfold clip. destruct (d <? en x); cbn [en set_en]; lia.
  - destruct (true && (duration (kept d l) <? d)); constructor; [apply filler_times | constructor].
Qed.

(* ---- non-vacuity: cues with text; d inside the last cue (clipped), d in a gap (filler), d = 1 ms on an empty list;
   and why the quantifier says d >= 1 ms ---- *)
Definition ex_cue (u : N) (s e : Z) (t : N) : item := mkItem u s e [mkLine [mkRun [t] None false] []] None None false.
Definition ex_tl2 : list item := [ex_cue 1 0 (3 * ms) 65; ex_cue 2 (3 * ms) (5 * ms) 66; ex_cue 3 (7 * ms) (9 * ms) 67].
Example ex_tl2_wf : wf_timeline ex_tl2.
Proof. unfold ex_tl2, ex_cue, ms. repeat (constructor; cbn [st en]; try lia). Qed.
Example ex_clipped :
  map (fun x => (uid x, st x, en x, item_text x)) (force_duration (8 * ms) true 9%N ex_tl2) =
  [(1%N, 0, 3 * ms, [65%N]); (2%N, 3 * ms, 5 * ms, [66%N]); (3%N, 7 * ms, 8 * ms, [67%N])].
Proof. reflexivity. Qed.
Example ex_filler :
  map (fun x => (uid x, st x, en x, item_text x)) (force_duration (6 * ms) true 9%N ex_tl2) =
  [(1%N, 0, 3 * ms, [65%N]); (2%N, 3 * ms, 5 * ms, [66%N]); (9%N, 5 * ms, 6 * ms, [46; 46; 46]%N)].
Proof. reflexivity. Qed.
Example ex_clipped_hyp : In (ex_cue 3 (7 * ms) (9 * ms) 67) ex_tl2 /\ 7 * ms < 8 * ms <= 9 * ms.
Proof. split; [right; right; left; reflexivity | unfold ms; lia]. Qed.
Example ex_filler_hyp : duration (kept (6 * ms) ex_tl2) < 6 * ms.
Proof. reflexivity. Qed.
Example ex_one_ms : map (fun x => (st x, en x)) (force_duration ms true 9%N []) = [(0, ms)].
Proof. reflexivity. Qed.
(* below one millisecond the filler would start before 0: outside the property's domain *)
Example ex_below_one_ms : map (fun x => (st x, en x)) (force_duration 500 true 9%N []) = [(-999500, 500)].
Proof. reflexivity. Qed.
