(* Constants of the Go source tied to the literals of Model.Vtt (see Proofs/ConstTie.v). *)
From Coq Require Import List NArith ZArith Bool.
From Astisub Require Import Kit.Base Kit.Str Gen.Consts Proofs.ConstTie Model.Vtt.
Import ListNotations.
Open Scope N_scope.

Module VttTie.
Import Model.Vtt.
Definition ties : list bool :=
  [ eqs p_tsmap gc_webvttTimestampMapHeader
  ; eqs default_style_id gc_webvttDefaultStyleID
  ; eqs [45; 45; 62] gc_webvttTimeBoundariesSeparator ].
Lemma consts_from_source : all ties = true.
Proof. vm_compute. reflexivity. Qed.
End VttTie.
