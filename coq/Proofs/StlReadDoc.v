(* C05, reading half for all renderings: TTI blocks and the file (display standard 0: open-subtitling rows; any other
   display standard code, in particular 1 and 2: teletext rows).
   A file is a GSI block followed by blocks; a block is a user-data block (any 128 bytes whose extension block number
   is 0xFE) or a subtitle block: arbitrary subtitle group / subtitle number / cumulative status / comment flag bytes,
   any extension block number but 0xFE, any four bytes as in and as out timecode, any vertical
   position and justification byte, and a text field as in Proofs/StlReadRows.v (open subtitling) or Proofs/StlReadTtx.v (teletext: rows with
   the start box written or omitted).  [denote_blocks] says what they mean:
   one cue per subtitle block, in order.  read_rendered_blocks: the reader returns exactly that, for both values of the
   ignore-programme-start option. *)
From Coq Require Import List ZArith NArith Bool Lia ZifyBool ZifyN ZifyNat.
From Astisub Require Import Kit.Base Kit.Str Kit.Utf8 Kit.Scan Model.Dur Model.Stl Gen.StlTables
  Proofs.StlBlocks Proofs.StlCodec Proofs.StlTti Proofs.StlReadSpec Proofs.StlReadRows.
From Astisub Require Import Model.TtxRow Model.TtxRowStl Proofs.StlReadTtx.
Import ListNotations.
Open Scope Z_scope.

(* the text field: rows of an open-subtitling file, or rows of a teletext-standard file *)
Inductive rtext := TOpen (rows : list (list relem)) | TTtx (rows : list brow).
Definition text_bytes (t : rtext) : str := match t with TOpen rows => field_bytes rows | TTtx rows => tfield_bytes rows end.
Definition text_okb (open : bool) (t : rtext) : bool :=
  match t with TOpen rows => open && rows_ok rows | TTtx rows => negb open && trows_ok rows end.
Definition text_rows (t : rtext) : nat := match t with TOpen rows => length rows | TTtx rows => length rows end.
Definition denote_text (t : rtext) : list (list erun) := match t with TOpen rows => denote_rows rows | TTtx rows => denote_trows rows end.

Record rcue := mkRcue {
  rc_sgn : N; rc_snl : N; rc_snh : N; rc_ebn : N; rc_cs : N;
  rc_ih : Z; rc_im : Z; rc_is : Z; rc_if : Z;       (* in  h m s f *)
  rc_oh : Z; rc_om : Z; rc_os : Z; rc_of : Z;       (* out h m s f *)
  rc_vp : N; rc_jc : N; rc_cf : N;
  rc_text : rtext }.
Inductive rblock := BUser (p : str) | BCue (c : rcue).

Definition render_cue (c : rcue) : str :=
  [rc_sgn c; rc_snl c; rc_snh c; rc_ebn c; rc_cs c]
  ++ tc_bytes (rc_ih c) (rc_im c) (rc_is c) (rc_if c) ++ tc_bytes (rc_oh c) (rc_om c) (rc_os c) (rc_of c)
  ++ [rc_vp c; rc_jc c; rc_cf c] ++ text_bytes (rc_text c).
Definition render_block (b : rblock) : str := match b with BUser p => p | BCue c => render_cue c end.

(* the four bytes of a timecode: any values (the reader does not check minutes, seconds or frames against their range) *)
Definition tc_okb (h m s f : Z) : bool :=
  (0 <=? h) && (h <? 256) && (0 <=? m) && (m <? 256) && (0 <=? s) && (s <? 256) && (0 <=? f) && (f <? 256).
Definition cue_okb (open : bool) (fps : Z) (c : rcue) : bool :=
  negb (rc_ebn c =? 254)%N &&
  tc_okb (rc_ih c) (rc_im c) (rc_is c) (rc_if c) && tc_okb (rc_oh c) (rc_om c) (rc_os c) (rc_of c) &&
  text_okb open (rc_text c).
Definition block_okb (open : bool) (fps : Z) (b : rblock) : bool :=
  match b with
  | BUser p => Nat.eqb (length p) 128 && (nth 3 p 0 =? 254)%N
  | BCue c => cue_okb open fps c
  end.

(* the instant of a timecode, as the reader converts it: whole seconds exactly, the frame rounded up to the nanosecond
   (within 1 ns of the exact instant: C05_timecode_exact) *)
Definition tc_ns (h m s f fps : Z) : Z := h * hour_ns + m * minute_ns + s * second_ns + frames_ns f fps.

Definition denote_cue (g : gsi) (tcp : Z) (c : rcue) : ritem :=
  let j := parse_jc (rc_jc c) in
  let vp := Z.of_N (rc_vp c) in
  mkRitem (tc_ns (rc_ih c) (rc_im c) (rc_is c) (rc_if c) (g_fps g) - tcp)
          (tc_ns (rc_oh c) (rc_om c) (rc_os c) (rc_of c) (g_fps g) - tcp)
          j vp (g_mnr g) (N.of_nat (text_rows (rc_text c))) (vtt_align j) (vtt_line vp (g_mnr g)) (denote_text (rc_text c)).
Definition denote_blocks (g : gsi) (tcp : Z) (blocks : list rblock) : list ritem :=
  flat_map (fun b => match b with BUser _ => [] | BCue c => [denote_cue g tcp c] end) blocks.

Lemma parse_tc_any h m s f fps : tc_okb h m s f = true -> parse_stl_bytes (tc_bytes h m s f) fps = tc_ns h m s f fps.
Proof.
  unfold tc_okb. intros H. repeat (apply andb_true_iff in H; destruct H as [H ?]).
  unfold parse_stl_bytes, tc_bytes, tc_ns. rewrite !Z2N.id by lia. reflexivity.
Qed.

Lemma text_bytes_length open t : text_okb open t = true -> length (text_bytes t) = 112%nat.
Proof.
  destruct t as [rows|rows]; cbn [text_okb text_bytes]; intros H; apply andb_true_iff in H; destruct H as [_ H].
  - exact (proj1 (rows_open_rendered _ H)).
  - exact (proj1 (rows_ttx_rendered _ H)).
Qed.
Lemma render_cue_length open c : text_okb open (rc_text c) = true -> length (render_cue c) = 128%nat.
Proof. intros H. unfold render_cue, tc_bytes. rewrite !app_length, (text_bytes_length open _ H). reflexivity. Qed.
Lemma render_block_length open fps b : block_okb open fps b = true -> length (render_block b) = 128%nat.
Proof.
  destruct b as [p|c]; cbn [block_okb render_block]; intros H.
  - apply andb_true_iff in H. destruct H as [H _]. apply Nat.eqb_eq. exact H.
  - unfold cue_okb in H. apply andb_true_iff in H. destruct H as [_ H]. apply (render_cue_length open). exact H.
Qed.

(* the reader's loop on rendered blocks: display standard 0 with open-subtitling rows, any other with teletext rows *)
Definition is_open (g : gsi) : bool := str_eqb (g_dsc g) stl_s_dscOpen.
Lemma blocks_spec_rendered g tcp : (g_fps g = 25 \/ g_fps g = 30) ->
  forall blocks, forallb (block_okb (is_open g) (g_fps g)) blocks = true ->
  blocks_spec g tcp None (map render_block blocks) = Ok (denote_blocks g tcp blocks).
Proof.
  intros Hfps. induction blocks as [|b r IH]; intros H; [reflexivity|].
  cbn [forallb] in H. apply andb_true_iff in H. destruct H as [Hb Hr]. specialize (IH Hr).
  cbn [map blocks_spec denote_blocks flat_map]. fold (denote_blocks g tcp r).
  destruct b as [p|c]; cbn [block_okb render_block] in *.
  - apply andb_true_iff in Hb. destruct Hb as [_ Hu]. unfold is_user_data. rewrite Hu. exact IH.
  - unfold cue_okb in Hb. apply andb_true_iff in Hb. destruct Hb as [Hb Htext]. apply andb_true_iff in Hb. destruct Hb as [Hb Hout].
    apply andb_true_iff in Hb. destruct Hb as [Hebn Hin]. apply negb_true_iff in Hebn.
    pose proof (text_bytes_length _ _ Htext) as L.
    assert (F : firstn 112 (text_bytes (rc_text c)) = text_bytes (rc_text c)) by (rewrite <- L; apply firstn_all).
    assert (U : is_user_data (render_cue c) = false) by (unfold is_user_data, render_cue; cbn [app nth]; exact Hebn).
    rewrite U. unfold render_cue. unfold tc_bytes. rewrite parse_tti_explicit. cbn [t_text]. rewrite !F.
    fold (is_open g).
    assert (T : forall h m s f, [Z.to_N h; Z.to_N m; Z.to_N s; Z.to_N f] = tc_bytes h m s f) by reflexivity.
    destruct (rc_text c) as [rows|rows] eqn:Et; cbn [text_okb text_bytes] in *; apply andb_true_iff in Htext; destruct Htext as [Ho Hrows].
    + rewrite Ho. destruct (rows_open_rendered _ Hrows) as (_ & S & R). rewrite R. cbn [bind]. rewrite IH. cbn [bind app]. f_equal. f_equal.
      unfold item_of, denote_cue. cbn [t_in t_out t_jc t_vp]. rewrite S, map_length, Et. cbn [text_rows denote_text]. rewrite !T.
      rewrite (parse_tc_any _ _ _ _ _ Hin), (parse_tc_any _ _ _ _ _ Hout). reflexivity.
    + apply negb_true_iff in Ho. rewrite Ho. destruct (rows_ttx_rendered _ Hrows) as (_ & S & R). rewrite R. rewrite IH. cbn [bind app]. f_equal. f_equal.
      unfold item_of, denote_cue. cbn [t_in t_out t_jc t_vp]. rewrite S, map_length, Et. cbn [text_rows denote_text]. rewrite !T.
      rewrite (parse_tc_any _ _ _ _ _ Hin), (parse_tc_any _ _ _ _ _ Hout). reflexivity.
Qed.

(* what the file means *)
Definition denote_stl (ign : bool) (g : gsi) (blocks : list rblock) : rdoc :=
  let tcp := if ign then 0 else g_tcp g in rdoc_with g tcp (denote_blocks g tcp blocks).

(* any GSI block that parses to g, followed by rendered blocks *)
Theorem read_rendered_blocks (ign : bool) (gb : str) (g : gsi) (blocks : list rblock) :
  length gb = 1024%nat -> parse_gsi gb = Ok g -> g_cct g = stl_c_cctLatin ->
  forallb (block_okb (is_open g) (g_fps g)) blocks = true ->
  read_stl ign (gb ++ concat (map render_block blocks)) = Ok (denote_stl ign g blocks).
Proof.
  intros Hgb Hg Hcct Hall.
  assert (Hfps : g_fps g = 25 \/ g_fps g = 30).
  { unfold parse_gsi in Hg. destruct (slookup (stl_sl 3 8 gb) stl_framerate) as [fps|] eqn:E; [|discriminate].
    assert (F : fps = 25 \/ fps = 30).
    { revert E. generalize (stl_sl 3 8 gb). intros k. unfold stl_framerate. cbn [slookup].
      destruct (str_eqb k _); [intros [= <-]; left; reflexivity|]. destruct (str_eqb k _); [intros [= <-]; right; reflexivity | discriminate]. }
    assert (G : g_fps g = fps).
    { repeat match type of Hg with bind ?r _ = _ => destruct r; cbn [bind] in Hg; try discriminate end. inversion Hg. reflexivity. }
    rewrite G. exact F. }
  rewrite (read_spec ign gb (map render_block blocks) g Hgb).
  - cbv zeta. rewrite (blocks_spec_rendered g _ Hfps blocks Hall). reflexivity.
  - apply Forall_forall. intros p Hp. apply in_map_iff in Hp. destruct Hp as (b & <- & Hb).
    exact (render_block_length _ _ b (proj1 (forallb_forall _ _) Hall b Hb)).
  - exact Hg.
  - rewrite Hcct. reflexivity.
Qed.

(* one cue per subtitle block; user-data blocks denote nothing *)
Lemma denote_blocks_count g tcp blocks :
  length (denote_blocks g tcp blocks) = length (filter (fun b => match b with BCue _ => true | BUser _ => false end) blocks).
Proof. induction blocks as [|[p|c] r IH]; cbn [denote_blocks flat_map filter app length] in *; [reflexivity | exact IH | f_equal; exact IH]. Qed.
