(* C05: TTI block codec round trip (field level). *)
From Coq Require Import List ZArith NArith Bool Lia ZifyBool ZifyN ZifyNat.
From Astisub Require Import Kit.Base Kit.Str Kit.Utf8 Kit.Scan Model.Dur Model.Stl Gen.StlTables Proofs.DurProofs Proofs.ScanProofs Proofs.StlBlocks.
Import ListNotations.
Open Scope Z_scope.

(* a frame instant as the reader produces them: h:m:s:f converted at fps (rounded up to the nanosecond) *)
Definition frame_instant (fps t : Z) : Prop :=
  exists h m s f, tc_ok h m s f fps /\ t = h * hour_ns + m * minute_ns + s * second_ns + frames_ns f fps.

Lemma frame_instant_parse h m s f fps : tc_ok h m s f fps -> frame_instant fps (parse_stl_bytes (tc_bytes h m s f) fps).
Proof. intros H. exists h, m, s, f. split; [exact H | apply parse_tc_value; exact H]. Qed.

(* writing a frame instant and reading it back gives the instant itself *)
Lemma instant_roundtrip fps t : (fps = 25 \/ fps = 30) -> frame_instant fps t ->
  parse_stl_bytes (format_stl_bytes t fps) fps = t /\ exists h m s f, tc_ok h m s f fps /\ format_stl_bytes t fps = tc_bytes h m s f.
Proof.
  intros Hfps (h & m & s & f & Hok & ->). rewrite <- (parse_tc_value h m s f fps Hok).
  rewrite (tti_timecode_roundtrip h m s f fps Hfps Hok). split; [reflexivity|]. exists h, m, s, f. split; [exact Hok | reflexivity].
Qed.

Definition closed_dsc (dsc : str) : bool := str_eqb dsc stl_s_dscLevel1 || str_eqb dsc stl_s_dscLevel2.
Record tti_repr (fps : Z) (dsc : str) (tcp : Z) (t : tti) : Prop := {
  tr_cf : (t_cf t < 256)%N; tr_cs : (t_cs t < 256)%N; tr_jc : (t_jc t < 256)%N;
  tr_ebn : 0 <= t_ebn t < 256; tr_sgn : 0 <= t_sgn t < 256; tr_sn : 0 <= t_sn t < 65536;
  tr_vp : 0 <= t_vp t < 256; tr_vp_closed : closed_dsc dsc = true -> 1 <= t_vp t <= 23;
  tr_in : frame_instant fps (t_in t + tcp); tr_out : frame_instant fps (t_out t + tcp) }.

Lemma zbyte_small v : 0 <= v < 256 -> zbyte v = Z.to_N v.
Proof. intros H. unfold zbyte. rewrite Z.mod_small by lia. reflexivity. Qed.

Lemma validate_vp_repr vp dsc : 0 <= vp < 256 -> (closed_dsc dsc = true -> 1 <= vp <= 23) -> validate_vp vp dsc = Z.to_N vp.
Proof.
  intros Hv Hc. unfold validate_vp. fold (closed_dsc dsc). destruct (closed_dsc dsc).
  - specialize (Hc eq_refl). destruct (vp <? 1) eqn:E1; [lia|]. cbn [andb]. destruct (23 <? vp) eqn:E2; [lia|]. cbn [andb]. apply zbyte_small; lia.
  - rewrite !andb_false_r. apply zbyte_small; lia.
Qed.

Lemma parse_tti_explicit a0 a1 a2 a3 a4 b0 b1 b2 b3 c0 c1 c2 c3 d0 d1 d2 pad fps :
  parse_tti ([a0; a1; a2; a3; a4] ++ [b0; b1; b2; b3] ++ [c0; c1; c2; c3] ++ [d0; d1; d2] ++ pad) fps =
  mkTti d2 a4 (Z.of_N a3) d1 (Z.of_N a0) (Z.of_N (a1 + 256 * a2)) (firstn 112 pad)
        (parse_stl_bytes [b0; b1; b2; b3] fps) (parse_stl_bytes [c0; c1; c2; c3] fps) (Z.of_N d0).
Proof. reflexivity. Qed.

(* every field of a representable TTI block survives bytes / parse; the text field comes back as written:
   encoded and padded to 112 bytes with 0x8F (its decoding is the subject of the row theorems) *)
Theorem tti_roundtrip fps dsc tcp t : (fps = 25 \/ fps = 30) -> tti_repr fps dsc tcp t ->
  parse_tti (tti_bytes fps dsc tcp t) fps =
  mkTti (t_cf t) (t_cs t) (t_ebn t) (t_jc t) (t_sgn t) (t_sn t) (pad_right_cut 143 112 (encode_text_stl (t_text t)))
        (t_in t + tcp) (t_out t + tcp) (t_vp t).
Proof.
  intros Hfps [Hcf Hcs Hjc Hebn Hsgn Hsn Hvp Hvpc Hin Hout].
  destruct (instant_roundtrip fps _ Hfps Hin) as (Pin & h1 & m1 & s1 & f1 & Hok1 & Fin).
  destruct (instant_roundtrip fps _ Hfps Hout) as (Pout & h2 & m2 & s2 & f2 & Hok2 & Fout).
  unfold tti_bytes. rewrite (validate_vp_repr _ _ Hvp Hvpc).
  assert (Ein : parse_stl_bytes (tc_bytes h1 m1 s1 f1) fps = t_in t + tcp) by (rewrite <- Fin; exact Pin).
  assert (Eout : parse_stl_bytes (tc_bytes h2 m2 s2 f2) fps = t_out t + tcp) by (rewrite <- Fout; exact Pout).
  rewrite Fin, Fout. unfold tc_bytes in *.
  set (pad := pad_right_cut 143 112 (encode_text_stl (t_text t))).
  assert (Lp : length pad = 112%nat) by apply pad_right_cut_length.
  rewrite parse_tti_explicit. rewrite Ein, Eout. rewrite <- Lp at 1. rewrite firstn_all.
  assert (Esn : Z.of_N (zbyte (t_sn t) + 256 * zbyte (t_sn t / 256)) = t_sn t).
  { unfold zbyte. assert (0 <= t_sn t / 256 < 256) by (Z.div_mod_to_equations; lia).
    rewrite (Z.mod_small (t_sn t / 256)) by lia. Z.div_mod_to_equations. lia. }
  rewrite Esn. rewrite !zbyte_small by lia. rewrite !Z2N.id by lia. reflexivity.
Qed.

(* ---- user-data blocks (EBN 0xFE) denote no cue: the reader's loop steps over them ---- *)
Lemma read_n_block n blk rest : length blk = n -> exists cs, read_n n (blk ++ rest) [] = RnOk blk rest cs.
Proof.
  intros L. destruct (read_n_full n (blk ++ rest) []) as (cs & R).
  - rewrite app_length. lia.
  - exists cs. rewrite R. subst n. rewrite firstn_app, Nat.sub_diag, firstn_all, firstn_O, app_nil_r.
    rewrite skipn_app, Nat.sub_diag, skipn_all, skipn_O. reflexivity.
Qed.

Theorem user_data_skipped p rest fuel g tcp acc items :
  length p = 128%nat -> nth 3 p 0%N = 254%N ->
  tti_loop (S fuel) (p ++ rest) g tcp acc items = tti_loop fuel rest g tcp acc items.
Proof.
  intros L E. cbn [tti_loop]. destruct (read_n_block 128 p rest L) as (cs & R). rewrite R.
  unfold parse_tti at 1. cbn [t_ebn]. unfold stl_byte_at. rewrite E. reflexivity.
Qed.

(* the end of the data ends the loop; a partial block is an error *)
Theorem tti_loop_eof fuel g tcp acc items : tti_loop (S fuel) [] g tcp acc items = Ok (rev items).
Proof. reflexivity. Qed.
