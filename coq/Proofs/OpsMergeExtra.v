(* Merge (C12), additions: what "B itself is unchanged" can mean in a functional model.
   [merge a b pr ps] is a NEW value; [b] is an argument and stays what it was.  What is observable on the library
   side and expressible here: the cues of the result that come from B are B's cues - the same records (identity,
   times, content), all of them, in B's own stable start order - and the definitions that come from B are B's values
   (C12_merge_union).  Identity is shared: the receiver afterwards points to B's cue objects, it does not copy them. *)
From Coq Require Import List ZArith NArith Bool Lia Permutation Sorted.
From Astisub Require Import Kit.Base Model.Ops Proofs.OrderProofs.
Import ListNotations.
Open Scope Z_scope.

(* selecting cues commutes with the stable sort *)
Lemma filter_insert (p : item -> bool) x l : sorted l ->
  filter p (insert x l) = if p x then insert x (filter p l) else filter p l.
Proof.
  induction l as [|y r IH]; intros Hs; cbn [insert filter].
  - destruct (p x); reflexivity.
  - apply sorted_inv in Hs. destruct Hs as [Hr Hy].
    destruct (st x <=? st y) eqn:C.
    + cbn [filter]. destruct (p x) eqn:Px; [|reflexivity].
      destruct (p y); cbn [insert]; [rewrite C; reflexivity|].
      (* every later cue starts at or after y, hence at or after x *)
      apply Z.leb_le in C.
      assert (Hall : Forall (fun z => st x <= st z) (filter p r)).
      { rewrite Forall_forall in *. intros z Hz. apply filter_In in Hz. destruct Hz as [Hz _]. specialize (Hy z Hz). lia. }
      destruct (filter p r) as [|z m]; [reflexivity|]. cbn [insert].
      pose proof (Forall_inv Hall) as Hz. cbv beta in Hz. apply Z.leb_le in Hz. rewrite Hz. reflexivity.
    + cbn [filter]. rewrite (IH Hr). destruct (p x); destruct (p y); cbn [insert]; rewrite ?C; reflexivity.
Qed.

Lemma filter_order (p : item -> bool) l : filter p (order l) = order (filter p l).
Proof.
  induction l as [|x r IH]; [reflexivity|]. cbn [order fold_right filter]. fold (order r).
  rewrite (filter_insert p x (order r) (order_sorted r)), IH.
  destruct (p x); reflexivity.
Qed.

(* [p] recognises the cues of B (in the library: pointer identity; here any test that holds for every cue of B and
   for no cue of A, e.g. membership of the identity tag when the two lists have disjoint tags) *)
Theorem merge_items_from_b (p : item -> bool) a b pr ps :
  filter p (items a) = [] -> filter p (items b) = items b ->
  filter p (items (merge a b pr ps)) = order (items b).
Proof. intros Ha Hb. rewrite merge_items, filter_order, filter_app, Ha, Hb. reflexivity. Qed.

Theorem merge_items_from_a (p : item -> bool) a b pr ps :
  filter p (items a) = items a -> filter p (items b) = [] ->
  filter p (items (merge a b pr ps)) = order (items a).
Proof. intros Ha Hb. rewrite merge_items, filter_order, filter_app, Ha, Hb, app_nil_r. reflexivity. Qed.

(* every cue of B is a cue of the result, the very same record (identity included: shared, not copied), and every
   cue of the result is a cue of A or of B *)
Theorem merge_items_in a b pr ps y : In y (items (merge a b pr ps)) <-> In y (items a) \/ In y (items b).
Proof.
  rewrite merge_items. rewrite <- in_app_iff. split; intros H.
  - eapply Permutation_in; [apply Permutation_sym, order_perm | exact H].
  - eapply Permutation_in; [apply order_perm | exact H].
Qed.

(* the identity test on disjoint tags *)
Definition tagged (ids : list N) (x : item) : bool := nmem (uid x) ids.

Lemma filter_tagged_all l : filter (tagged (map uid l)) l = l.
Proof.
  assert (H : forall ids, (forall x, In x l -> In (uid x) ids) -> filter (tagged ids) l = l).
  { induction l as [|x r IH]; intros ids Hin; [reflexivity|]. cbn [filter]. unfold tagged at 1.
    assert (E : nmem (uid x) ids = true).
    { unfold nmem. apply existsb_exists. exists (uid x). split; [apply Hin; left; reflexivity | apply N.eqb_refl]. }
    rewrite E. f_equal. apply IH. intros z Hz. apply Hin. right. exact Hz. }
  apply H. intros x Hx. apply in_map. exact Hx.
Qed.

Lemma filter_tagged_none ids l : (forall x, In x l -> ~ In (uid x) ids) -> filter (tagged ids) l = [].
Proof.
  induction l as [|x r IH]; intros Hn; [reflexivity|]. cbn [filter]. unfold tagged at 1.
  assert (E : nmem (uid x) ids = false).
  { destruct (nmem (uid x) ids) eqn:C; [|reflexivity]. unfold nmem in C. apply existsb_exists in C.
    destruct C as (k & Hk & Ek). apply N.eqb_eq in Ek. subst k. exfalso. exact (Hn x (or_introl eq_refl) Hk). }
  rewrite E. apply IH. intros z Hz. apply Hn. right. exact Hz.
Qed.

(* with disjoint identity tags: the sub-list of the result made of B's cues is B's list, stably ordered - nothing of B
   lost, duplicated or altered - and likewise for A *)
Theorem merge_keeps_b a b pr ps :
  (forall x, In x (items a) -> ~ In (uid x) (map uid (items b))) ->
  filter (tagged (map uid (items b))) (items (merge a b pr ps)) = order (items b).
Proof.
  intros Hd. apply merge_items_from_b; [apply filter_tagged_none; exact Hd | apply filter_tagged_all].
Qed.

Theorem merge_keeps_a a b pr ps :
  (forall x, In x (items b) -> ~ In (uid x) (map uid (items a))) ->
  filter (tagged (map uid (items a))) (items (merge a b pr ps)) = order (items a).
Proof.
  intros Hd. apply merge_items_from_a; [apply filter_tagged_all | apply filter_tagged_none; exact Hd].
Qed.

(* non-vacuity on the example of OrderProofs (A: cues 1, 2; B: cues 3, 4 unordered; equal starts across A and B) *)
Example ex_merge_keeps_b :
  let m := merge ex_merge_a ex_merge_b [mkRegion 4 None false] [mkStyle 7 None false; mkStyle 8 (Some 7%N) false] in
  filter (tagged [3; 4]%N) (items m) = order (items ex_merge_b) /\
  map (fun x => (uid x, st x, en x, i_reg x, i_sty x)) (filter (tagged [3; 4]%N) (items m)) =
    [(4%N, 1, 2, None, None); (3%N, 5, 7, Some 4%N, Some 7%N)] /\
  filter (tagged [1; 2]%N) (items m) = items ex_merge_a.
Proof. repeat split; reflexivity. Qed.
Example ex_merge_disjoint : forall x, In x (items ex_merge_a) -> ~ In (uid x) (map uid (items ex_merge_b)).
Proof. intros x [<-|[<-|[]]]; cbn; intros [H|[H|[]]]; discriminate H. Qed.
