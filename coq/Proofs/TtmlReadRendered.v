(* C03: the composite reading theorem: every rendering (Proofs/TtmlRender.v) of a ground-truth TTML model that
   passes the decidable check is read as what it denotes, and every boundary is the instant the model means. *)
From Coq Require Import List ZArith NArith Bool Lia.
From Astisub Require Import Kit.Base Kit.Str Kit.Xml Model.Dur Model.Ttml Proofs.TtmlSpec Proofs.TtmlRender
  Proofs.TtmlRenderTime Proofs.TtmlRenderDoc.
Import ListNotations.
Open Scope Z_scope.

Definition boundary_ok (g : gitem) (it : titem) : Prop :=
  denotes_instant (ti_st it) (fst (gi_begin g)) (snd (gi_begin g)) /\
  denotes_instant (ti_en it) (fst (gi_end g)) (snd (gi_end g)).

Lemma para_check_times fr tr st rg g p : para_check fr tr st rg g p = true -> boundary_ok g (denote_item fr tr g p).
Proof.
  unfold para_check. intros H. rewrite !andb_true_iff in H.
  destruct H as [[[[[[[[[[[Hb He] Sb] Se] _] _] _] _] _] _] _] _].
  unfold boundary_ok, denote_item. cbn [ti_st ti_en]. split.
  - eapply denotes_same_instant; [exact Sb | apply texpr_denotes; exact Hb].
  - eapply denotes_same_instant; [exact Se | apply texpr_denotes; exact He].
Qed.

Lemma items_times fr tr st rg : forall gs ps, length ps = length gs ->
  forallb (fun gp => para_check fr tr st rg (fst gp) (snd gp)) (combine gs ps) = true ->
  Forall2 boundary_ok gs (map (fun gp => denote_item fr tr (fst gp) (snd gp)) (combine gs ps)).
Proof.
  induction gs as [|g gs IH]; intros [|p ps] Hl Hf; try discriminate; [constructor|].
  cbn [combine forallb map fst snd] in *. apply andb_true_iff in Hf. destruct Hf as [H1 H2].
  constructor; [exact (para_check_times _ _ _ _ _ _ H1) | apply IH; [injection Hl; auto | exact H2]].
Qed.

Theorem read_rendered : forall r m, render_ok r m = true ->
  read_ttml (render_ttml r m) = Ok (denote_ttml r m) /\
  Forall2 boundary_ok (gd_items m) (td_items (denote_ttml r m)).
Proof.
  intros r m H. split; [exact (read_rendered_doc texpr_unmarshal r m H)|].
  unfold render_ok in H. cbv zeta in H. repeat (apply andb_true_iff in H; destruct H as [H ?]).
  unfold denote_ttml. cbn [td_items]. eapply items_times; [|eassumption].
  match goal with Hn : Nat.eqb (length (r_paras r)) (length (gd_items m)) = true |- _ => apply Nat.eqb_eq in Hn; exact Hn end.
Qed.
