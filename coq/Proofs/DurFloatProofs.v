(* The float64 path of stl.go's timecode writers (Model/DurFloat.v) equals the integer formulas of Model/Dur.v.
   d.Hours() = RN(float64(q) + RN(float64(n) / unit)) with q = d / unit, n = d % unit: n / unit <= 1 - 1/unit <= 1 - 2^-42
   (the largest unit, one hour = 3.6e12 ns, is below 2^42), and q + 1 - 2^-42 is a binary64 number for q < 1024, so both
   roundings stay in [q, q + 1 - 2^-42]: math.Floor gives q and "< 10" decides as on q. *)
From Coq Require Import ZArith Reals Lia Lra Bool List.
From Flocq Require Import Core BinarySingleNaN.
From Astisub Require Import Kit.Base Kit.Str Kit.Float64 Model.Dur Model.Lin Model.DurFloat Proofs.FracFloatProofs Proofs.DurProofs.
Import ListNotations.
Open Scope R_scope.

Lemma fadd_correct : forall x y : f64, is_finite x = true -> is_finite y = true ->
  Rabs (B2R x + B2R y) <= bpow radix2 100 ->
  B2R (fadd x y) = RN (B2R x + B2R y) /\ is_finite (fadd x y) = true.
Proof.
  intros x y Fx Fy Hb. unfold fadd.
  generalize (Bplus_correct prec emax Hprec Hmax mode_NE x y Fx Fy).
  norm_fexp. rewrite (no_overflow _ Hb).
  intros [H1 [H2 _]]. split; assumption.
Qed.

Lemma fmt_upper42 : forall q : Z, (0 <= q < 1024)%Z -> fmt (IZR q + 1 - / 4398046511104).
Proof.
  intros q Hq.
  replace (IZR q + 1 - / 4398046511104)
    with (F2R (Float radix2 (q * 4398046511104 + 4398046511104 - 1) (-42))).
  - apply fmt_F2R; lia.
  - unfold F2R. simpl Fnum. simpl Fexp.
    rewrite minus_IZR, plus_IZR, mult_IZR.
    change (bpow radix2 (-42)) with (/ 4398046511104). field.
Qed.

Lemma RN_sandwich42 : forall (q : Z) (x : R), (0 <= q < 1024)%Z ->
  IZR q <= x <= IZR q + 1 - / 4398046511104 ->
  IZR q <= RN x <= IZR q + 1 - / 4398046511104.
Proof.
  intros q x Hq [H1 H2]. split.
  - apply round_ge_generic; auto with typeclass_instances. apply fmt_IZR. lia.
  - apply round_le_generic; auto with typeclass_instances. apply fmt_upper42, Hq.
Qed.

(* d.Hours() / d.Minutes() / d.Seconds() for a non-negative duration, the unit at most 2^42 ns, fewer than 1024 units *)
Lemma dur_float_bounds : forall t unit : Z, (0 <= t)%Z -> (0 < unit <= 4398046511104)%Z -> (t / unit < 1024)%Z ->
  is_finite (dur_float t unit) = true /\
  IZR (t / unit) <= B2R (dur_float t unit) <= IZR (t / unit) + 1 - / 4398046511104.
Proof.
  intros t unit Ht Hu Hq. unfold dur_float.
  rewrite (Z.quot_div_nonneg t unit) by lia. rewrite (Z.rem_mod_nonneg t unit) by lia.
  set (q := (t / unit)%Z) in *. set (n := (t mod unit)%Z).
  assert (Hq0 : (0 <= q)%Z) by (apply Z.div_pos; lia).
  assert (Hn : (0 <= n < unit)%Z) by (apply Z.mod_pos_bound; lia).
  destruct (of_Z_correct q) as [Hq1 Hq2]; [lia|].
  destruct (of_Z_correct n) as [Hn1 Hn2]; [lia|].
  destruct (of_Z_correct unit) as [Hu1 Hu2]; [lia|].
  assert (Hu' : 0 < IZR unit) by (apply IZR_lt; lia).
  assert (Hn0 : 0 <= IZR n) by (apply IZR_le; lia).
  assert (Hn' : IZR n <= IZR unit - 1) by (rewrite <- minus_IZR; apply IZR_le; lia).
  assert (Hinv : / 4398046511104 <= / IZR unit).
  { apply Rinv_le_contravar; [exact Hu' | apply IZR_le; lia]. }
  assert (Hr : 0 <= IZR n / IZR unit <= 1 - / 4398046511104).
  { split.
    - apply Rmult_le_pos; [exact Hn0 | left; apply Rinv_0_lt_compat; exact Hu'].
    - apply Rle_trans with ((IZR unit - 1) / IZR unit).
      + apply Rmult_le_compat_r; [left; apply Rinv_0_lt_compat; exact Hu' | exact Hn'].
      + replace ((IZR unit - 1) / IZR unit) with (1 - / IZR unit) by (field; lra). lra. }
  destruct (fdiv_correct (of_Z n) (of_Z unit)) as [Hd1 Hd2].
  - exact Hn2.
  - rewrite Hu1. lra.
  - rewrite Hn1, Hu1. pose proof bpow100_big. rewrite Rabs_pos_eq; lra.
  - rewrite Hn1, Hu1 in Hd1.
    assert (Hx1 : 0 <= B2R (fdiv (of_Z n) (of_Z unit)) <= 1 - / 4398046511104).
    { rewrite Hd1. pose proof (RN_sandwich42 0 (IZR n / IZR unit) ltac:(lia)) as S. lra. }
    assert (Hqr : 0 <= IZR q <= 1023).
    { split; [apply IZR_le; lia | apply IZR_le; lia]. }
    destruct (fadd_correct (of_Z q) (fdiv (of_Z n) (of_Z unit)) Hq2 Hd2) as [Ha1 Ha2].
    + rewrite Hq1. pose proof bpow100_big. rewrite Rabs_pos_eq; lra.
    + split; [exact Ha2|]. rewrite Ha1, Hq1. apply RN_sandwich42; [lia | lra].
Qed.

Lemma flt64_correct : forall x y : f64, is_finite x = true -> is_finite y = true ->
  flt64 x y = Rlt_bool (B2R x) (B2R y).
Proof.
  intros x y Fx Fy. unfold flt64. rewrite (Bcompare_correct prec emax x y Fx Fy).
  unfold Rlt_bool. destruct (Rcompare (B2R x) (B2R y)); reflexivity.
Qed.

(* math.Floor gives the integer quotient, and the leading zero is decided as on the integer *)
Theorem dur_float_floor : forall t unit : Z, (0 <= t)%Z -> (0 < unit <= 4398046511104)%Z -> (t / unit < 1024)%Z ->
  floor_Z (dur_float t unit) = Z.quot t unit /\ two_float (dur_float t unit) = two (Z.quot t unit).
Proof.
  intros t unit Ht Hu Hq. destruct (dur_float_bounds t unit Ht Hu Hq) as [Fx Bx].
  rewrite (Z.quot_div_nonneg t unit) by lia.
  assert (Hq0 : (0 <= t / unit)%Z) by (apply Z.div_pos; lia).
  assert (Hfl : floor_Z (dur_float t unit) = (t / unit)%Z).
  { apply floor_Z_correct; [exact Fx | lia | lra]. }
  split; [exact Hfl|].
  unfold two_float, two. rewrite Hfl. f_equal.
  destruct (of_Z_correct 10) as [H10 F10]; [lia|].
  rewrite (flt64_correct _ _ Fx F10), H10.
  destruct (t / unit <? 10)%Z eqn:C.
  - apply Z.ltb_lt in C. assert (IZR (t / unit) <= 9) by (apply IZR_le; lia).
    rewrite Rlt_bool_true by lra. reflexivity.
  - apply Z.ltb_ge in C. assert (10 <= IZR (t / unit)) by (apply IZR_le; lia).
    rewrite Rlt_bool_false by lra. reflexivity.
Qed.

Local Open Scope Z_scope.
Ltac Zify.zify_post_hook ::= Z.to_euclidean_division_equations.

(* the three float fields of a duration below 1024 hours (in particular below 24 h) *)
Lemma stl_float_steps : forall t : Z, 0 <= t < 1024 * hour_ns ->
  let h := Z.quot t hour_ns in
  let t1 := t - h * hour_ns in
  let m := Z.quot t1 minute_ns in
  let t2 := t1 - m * minute_ns in
  (floor_Z (dur_float t hour_ns) = h /\ two_float (dur_float t hour_ns) = two h) /\
  (floor_Z (dur_float t1 minute_ns) = m /\ two_float (dur_float t1 minute_ns) = two m) /\
  (floor_Z (dur_float t2 second_ns) = Z.quot t2 second_ns /\ two_float (dur_float t2 second_ns) = two (Z.quot t2 second_ns)).
Proof.
  intros t Ht. cbv zeta. unfold hour_ns, minute_ns, second_ns in *.
  rewrite (Z.quot_div_nonneg t) by lia.
  assert (B1 : 0 <= t - t / 3600000000000 * 3600000000000 < 3600000000000) by lia.
  rewrite (Z.quot_div_nonneg (t - t / 3600000000000 * 3600000000000)) by lia.
  set (t1 := t - t / 3600000000000 * 3600000000000) in *.
  assert (B2 : 0 <= t1 - t1 / 60000000000 * 60000000000 < 60000000000) by lia.
  set (t2 := t1 - t1 / 60000000000 * 60000000000) in *.
  pose proof (dur_float_floor t 3600000000000 ltac:(lia) ltac:(lia) ltac:(lia)) as H1.
  pose proof (dur_float_floor t1 60000000000 ltac:(lia) ltac:(lia) ltac:(lia)) as H2.
  pose proof (dur_float_floor t2 1000000000 ltac:(lia) ltac:(lia) ltac:(lia)) as H3.
  rewrite (Z.quot_div_nonneg t) in H1 by lia. rewrite (Z.quot_div_nonneg t1) in H2 by lia.
  split; [exact H1 | split; [exact H2 | exact H3]].
Qed.

Theorem stl_fields_float_eq : forall t fps : Z, 0 <= t < 1024 * hour_ns -> stl_fields_float t fps = stl_fields t fps.
Proof.
  intros t fps Ht. destruct (stl_float_steps t Ht) as ((A1 & _) & (A2 & _) & (A3 & _)).
  unfold stl_fields_float, stl_fields. cbv zeta. rewrite A1, A2, A3. reflexivity.
Qed.

Theorem format_stl_float_eq : forall t fps : Z, 0 <= t < 1024 * hour_ns -> format_stl_float t fps = format_stl t fps.
Proof.
  intros t fps Ht. destruct (stl_float_steps t Ht) as ((A1 & B1) & (A2 & B2) & (A3 & B3)).
  unfold format_stl_float, format_stl, stl_fields. cbv zeta. rewrite A1, B1, A2, B2, A3, B3. reflexivity.
Qed.

Theorem format_stl_bytes_float_eq : forall t fps : Z, 0 <= t < 1024 * hour_ns ->
  format_stl_bytes_float t fps = format_stl_bytes t fps.
Proof. intros t fps Ht. unfold format_stl_bytes_float, format_stl_bytes. rewrite (stl_fields_float_eq t fps Ht). reflexivity. Qed.

Lemma day_below_1024h : forall t, 0 <= t < day_ns -> 0 <= t < 1024 * hour_ns.
Proof. intros t. unfold day_ns, hour_ns. lia. Qed.

(* ---- the 4-byte form on an arbitrary instant below 24 h ---- *)
Definition stl_frame (t fps : Z) : Z := ((t mod second_ns) * fps) / second_ns.
Definition stl_back (t fps : Z) : Z := parse_stl_bytes (format_stl_bytes t fps) fps.

Lemma n_of_byte v : 0 <= v < 256 -> Z.of_N (Z.to_N (v mod 256)) = v.
Proof. intros H. rewrite Z.mod_small by lia. apply Z2N.id. lia. Qed.

Lemma stl_back_value t fps : 0 <= t < day_ns -> 0 < fps < 100 ->
  0 <= stl_frame t fps < fps /\
  format_stl_bytes t fps = map (fun v => Z.to_N (v mod 256)) [f_h t; f_m t; f_s t; stl_frame t fps] /\
  stl_back t fps = (t - t mod second_ns) + frames_ns (stl_frame t fps) fps.
Proof.
  intros Ht Hf. unfold stl_back, stl_frame, format_stl_bytes. rewrite (stl_fields_spec t fps) by lia.
  set (F := ((t mod second_ns) * fps) / second_ns).
  assert (BF : 0 <= F < fps). { unfold F, second_ns. split; [apply Z.div_pos; nia | apply Z.div_lt_upper_bound; nia]. }
  unfold day_ns, hour_ns in Ht.
  assert (Bh : 0 <= f_h t < 256) by (unfold f_h, hour_ns; lia).
  assert (Bm : 0 <= f_m t < 256) by (unfold f_m, hour_ns, minute_ns; lia).
  assert (Bs : 0 <= f_s t < 256) by (unfold f_s, minute_ns, second_ns; lia).
  split; [exact BF|]. split; [reflexivity|].
  cbn [map parse_stl_bytes]. rewrite !n_of_byte by lia.
  unfold f_h, f_m, f_s, hour_ns, minute_ns, second_ns. lia.
Qed.

Lemma frames_ns_bounds F fps : 0 < fps < 100 -> 0 <= F < fps ->
  F * second_ns <= frames_ns F fps * fps < F * second_ns + fps /\ 0 <= frames_ns F fps < second_ns.
Proof.
  intros Hf HF. unfold frames_ns, second_ns. rewrite Z.quot_div_nonneg by nia.
  pose proof (Z.div_mod (1000000000 * F + fps - 1) fps ltac:(lia)) as DM.
  pose proof (Z.mod_pos_bound (1000000000 * F + fps - 1) fps ltac:(lia)) as MB.
  set (v := (1000000000 * F + fps - 1) / fps) in *. set (r := (1000000000 * F + fps - 1) mod fps) in *.
  assert (A : F * 1000000000 <= v * fps < F * 1000000000 + fps) by lia.
  split; [exact A|]. split; nia.
Qed.

Lemma frames_ns_mono F G fps : 0 < fps -> 0 <= F <= G -> frames_ns F fps <= frames_ns G fps.
Proof.
  intros Hf H. unfold frames_ns, second_ns. rewrite !Z.quot_div_nonneg by nia. apply Z.div_le_mono; nia.
Qed.

(* the frame written is the latest frame instant not after t (floor), the reader returns that instant to within one
   nanosecond (never more than 1 ns after t), a second write gives the same four bytes *)
Theorem stl_bytes_roundtrip t fps : 0 <= t < day_ns -> 0 < fps < 100 ->
  let F := stl_frame t fps in
  let exact_times_fps := (t - t mod second_ns) * fps + F * second_ns in
  0 <= F < fps /\ F * second_ns <= (t mod second_ns) * fps < (F + 1) * second_ns /\
  exact_times_fps <= stl_back t fps * fps < exact_times_fps + fps /\
  stl_back t fps <= t + 1 /\ 0 <= stl_back t fps < day_ns /\
  format_stl_bytes (stl_back t fps) fps = format_stl_bytes t fps.
Proof.
  intros Ht Hf. cbv zeta. destruct (stl_back_value t fps Ht Hf) as (BF & Eb & Ev).
  destruct (frames_ns_bounds (stl_frame t fps) fps Hf BF) as (Hfr & Hfr0).
  set (F := stl_frame t fps) in *. set (v := stl_back t fps) in *.
  assert (Hfl : F * second_ns <= (t mod second_ns) * fps < (F + 1) * second_ns).
  { unfold F, stl_frame, second_ns.
    pose proof (Z.div_mod ((t mod 1000000000) * fps) 1000000000 ltac:(lia)) as DM.
    pose proof (Z.mod_pos_bound ((t mod 1000000000) * fps) 1000000000 ltac:(lia)) as MB. lia. }
  assert (Hle : frames_ns F fps <= t mod second_ns + 1).
  { unfold second_ns in *. assert ((frames_ns F fps - 1) * fps < (t mod 1000000000) * fps) by nia. nia. }
  split; [exact BF|]. split; [exact Hfl|].
  split; [rewrite Ev; nia|]. split; [rewrite Ev; lia|].
  assert (Hv : 0 <= v < day_ns).
  { rewrite Ev. unfold day_ns, hour_ns, second_ns in *. lia. }
  split; [exact Hv|].
  (* same fields *)
  assert (Evm : v mod second_ns = frames_ns F fps /\ f_h v = f_h t /\ f_m v = f_m t /\ f_s v = f_s t).
  { unfold f_h, f_m, f_s, hour_ns, minute_ns, second_ns in *. rewrite Ev. lia. }
  destruct Evm as (Em & Eh & Emi & Es).
  destruct (stl_back_value v fps Hv Hf) as (_ & Eb' & _). rewrite Eb', Eb. fold F.
  rewrite Eh, Emi, Es. unfold stl_frame. rewrite Em.
  assert (EF : frames_ns F fps * fps / second_ns = F).
  { unfold second_ns in *. symmetry. apply Z.div_unique with (r := frames_ns F fps * fps - F * 1000000000); lia. }
  rewrite EF. reflexivity.
Qed.

(* later instants never come back as earlier ones *)
Theorem stl_bytes_monotone t t' fps : 0 <= t <= t' -> t' < day_ns -> 0 < fps < 100 -> stl_back t fps <= stl_back t' fps.
Proof.
  intros Ht Ht' Hf.
  destruct (stl_back_value t fps ltac:(lia) Hf) as (BF & _ & Ev).
  destruct (stl_back_value t' fps ltac:(lia) Hf) as (BF' & _ & Ev').
  destruct (frames_ns_bounds (stl_frame t fps) fps Hf BF) as (_ & Hfr0).
  destruct (frames_ns_bounds (stl_frame t' fps) fps Hf BF') as (_ & Hfr0').
  rewrite Ev, Ev'.
  destruct (Z.eq_dec (t - t mod second_ns) (t' - t' mod second_ns)) as [E|NE].
  - (* same second: the frame number is monotone *)
    rewrite E. apply Z.add_le_mono_l. apply frames_ns_mono; [lia|].
    split; [lia|]. unfold stl_frame, second_ns in *. apply Z.div_le_mono; [lia|]. nia.
  - (* a later second *)
    unfold second_ns in *. lia.
Qed.

(* the frame field is the floor of the frame count: fps in {25, 30} give 40 ms and 33.33.. ms frames *)
Example stl_bytes_examples :
  format_stl_bytes 3723456789012 25 = [1; 2; 3; 11]%N /\ stl_back 3723456789012 25 = 3723440000000 /\
  format_stl_bytes 3723456789012 30 = [1; 2; 3; 13]%N /\ stl_back 3723456789012 30 = 3723433333334 /\
  format_stl_bytes_float 3723456789012 30 = [1; 2; 3; 13]%N /\
  format_stl_float 86399999999999 25 = [50; 51; 53; 57; 53; 57; 50; 52]%N /\ format_stl 86399999999999 25 = [50; 51; 53; 57; 53; 57; 50; 52]%N.
Proof. repeat split; vm_compute; reflexivity. Qed.
