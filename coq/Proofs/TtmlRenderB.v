(* C03, reading of rendered documents, part B: the root's attributes, style and region headers, the tables,
   paragraphs. *)
From Coq Require Import List ZArith NArith Bool Lia Permutation.
From Astisub Require Import Kit.Base Kit.Str Kit.Float64 Kit.Float64x Kit.Xml Model.Dur Model.Ttml
  Proofs.TtmlLines Proofs.TtmlDocSpec Proofs.TtmlDocA Proofs.TtmlDocB Proofs.TtmlSpec Proofs.TtmlTime Proofs.TtmlRefs
  Proofs.TtmlPara Proofs.TtmlRender Proofs.TtmlRenderA.
Import ListNotations.
Open Scope Z_scope.

(* the contract on time expressions (proved apart): an expression satisfying the side conditions is parsed, and
   its duration is the closed form *)
Definition time_contract : Prop := forall fr tr e, texpr_okb fr tr e = true ->
  exists d, ttml_unmarshal (texpr_str e) = Some d /\ ttml_duration d fr tr = texpr_time fr tr e.

Definition oz (o : option Z) : Z := match o with Some z => z | None => 0 end.

(* ================= the root's attributes ================= *)
Definition root_name (l : str) : Prop := l = s_lang \/ l = s_frameRate \/ l = s_tickRate.

Lemma extra_vals l ex : root_extra_ok ex = true -> root_name l -> attr_vals l ex = [].
Proof.
  intros H Hl. induction ex as [|[n v] ex IH]; [reflexivity|].
  unfold root_extra_ok in H. cbn [forallb] in H. apply andb_true_iff in H. destruct H as [Ha Hr].
  cbn [attr_vals]. destruct (str_eqb (x_local n) l) eqn:E; [|apply IH; exact Hr].
  exfalso. apply str_eqb_eq in E. unfold attr_local in Ha. cbn [fst] in Ha. rewrite E in Ha.
  destruct Hl as [ -> | [ -> | -> ] ]; rewrite str_eqb_refl in Ha; cbn in Ha; try discriminate;
    rewrite ?andb_false_r in Ha; discriminate.
Qed.

Lemma int_attr_of_vals_hit l force v :
  attr_vals l (int_attr_of l force v) = if force || negb (v =? 0) then [itoa_z v] else [].
Proof.
  unfold int_attr_of. destruct (force || negb (v =? 0)); [|reflexivity].
  cbn [attr_vals x_local]. rewrite str_eqb_refl. reflexivity.
Qed.
Lemma int_attr_of_vals_miss l l' force v : str_eqb l' l = false -> attr_vals l (int_attr_of l' force v) = [].
Proof.
  intros H. unfold int_attr_of. destruct (force || negb (v =? 0)); [|reflexivity].
  cbn [attr_vals x_local]. rewrite H. reflexivity.
Qed.
Definition lang_part (r : rendering) (m : gdoc) : list xattr :=
  match lang_value r m with Some v => [(mkName [] s_lang, v)] | None => [] end.
Lemma lang_part_miss l r m : str_eqb s_lang l = false -> attr_vals l (lang_part r m) = [].
Proof. intros H. unfold lang_part. destruct (lang_value r m); [|reflexivity]. cbn [attr_vals x_local]. rewrite H. reflexivity. Qed.
Lemma root_attrs_eq r m : rroot_attrs r m =
  lang_part r m ++ int_attr_of s_frameRate (r_fr_attr r) (gd_framerate m)
  ++ int_attr_of s_tickRate (r_tr_attr r) (gd_tickrate m) ++ r_root_extra r.
Proof. reflexivity. Qed.

(* an integer attribute written (or left out because it is 0) is read as its value *)
Lemma int_vals_read force v : int64b v = true ->
  exists o, fold_left (fun acc v0 => match acc, parse_int_attr v0 with
                                     | Some _, Some z => Some (Some z)
                                     | _, _ => None
                                     end) (if force || negb (v =? 0) then [itoa_z v] else []) (Some None) = Some o
            /\ oz o = v.
Proof.
  intros Hv. apply int64b_range in Hv. destruct (force || negb (v =? 0)) eqn:E.
  - exists (Some v). cbn [fold_left]. rewrite (parse_itoa_z v Hv). split; reflexivity.
  - exists None. cbn [fold_left]. split; [reflexivity|].
    apply orb_false_iff in E. destruct E as [_ E]. apply negb_false_iff in E. apply Z.eqb_eq in E. subst v. reflexivity.
Qed.

Lemma lang_in_table code name :
  existsb (fun kv => str_eqb (fst kv) code && str_eqb (snd kv) name) lang_table = true -> In (code, name) lang_table.
Proof.
  intros H. apply existsb_exists in H. destruct H as ([c n] & Hin & E). cbn [fst snd] in E.
  apply andb_true_iff in E. destruct E as [E1 E2]. apply str_eqb_eq in E1. apply str_eqb_eq in E2. subst. exact Hin.
Qed.

Theorem root_rendered r m :
  int64b (gd_framerate m) = true -> int64b (gd_tickrate m) = true -> lang_ok r m = true ->
  root_extra_ok (r_root_extra r) = true -> attrs_perm_ok (rroot_attrs r m) (r_root_attrs r) = true ->
  exists fro tro, int_attr s_frameRate (r_root_attrs r) = Some fro /\ oz fro = gd_framerate m
                  /\ int_attr s_tickRate (r_root_attrs r) = Some tro /\ oz tro = gd_tickrate m
                  /\ lang_of (attr_str s_lang (r_root_attrs r)) = match gd_lang m with Some (_, name) => name | None => [] end.
Proof.
  intros Hfr Htr Hlang Hex Hperm. apply attrs_perm_sound in Hperm. destruct Hperm as [Hp Hnd].
  destruct (int_vals_read (r_fr_attr r) _ Hfr) as (fro & Efr & Vfr).
  destruct (int_vals_read (r_tr_attr r) _ Htr) as (tro & Etr & Vtr).
  exists fro, tro.
  rewrite !(int_attr_perm _ _ _ Hp Hnd), (attr_str_perm _ _ _ Hp Hnd).
  repeat split; try assumption.
  - unfold int_attr. rewrite root_attrs_eq, !attr_vals_app.
    rewrite (lang_part_miss s_frameRate r m) by reflexivity.
    rewrite int_attr_of_vals_hit, (int_attr_of_vals_miss s_frameRate s_tickRate) by reflexivity.
    rewrite (extra_vals s_frameRate _ Hex) by (right; left; reflexivity).
    cbn [app]. rewrite app_nil_r. exact Efr.
  - unfold int_attr. rewrite root_attrs_eq, !attr_vals_app.
    rewrite (lang_part_miss s_tickRate r m) by reflexivity.
    rewrite int_attr_of_vals_hit, (int_attr_of_vals_miss s_tickRate s_frameRate) by reflexivity.
    rewrite (extra_vals s_tickRate _ Hex) by (right; right; reflexivity).
    cbn [app]. rewrite app_nil_r. exact Etr.
  - assert (Ev : attr_vals s_lang (rroot_attrs r m) = match lang_value r m with Some v => [v] | None => [] end).
    { rewrite root_attrs_eq, !attr_vals_app.
      rewrite (int_attr_of_vals_miss s_lang s_frameRate), (int_attr_of_vals_miss s_lang s_tickRate) by reflexivity.
      rewrite (extra_vals s_lang _ Hex) by (left; reflexivity).
      rewrite !app_nil_r. unfold lang_part. destruct (lang_value r m); [|reflexivity].
      cbn [attr_vals x_local]. rewrite str_eqb_refl. reflexivity. }
    unfold lang_ok in Hlang. unfold lang_value in Ev.
    destruct (gd_lang m) as [[code name]|].
    + rewrite (attr_str_single _ _ _ Ev). apply lang_of_table. apply lang_in_table. exact Hlang.
    + destruct (r_lang_other r) as [v|].
      * rewrite (attr_str_single _ _ _ Ev). destruct (lang_of v); [reflexivity | discriminate].
      * rewrite (attr_str_none _ _ Ev). reflexivity.
Qed.

(* ================= headers ================= *)
Definition hdr_pre (s : tstyle) : list xattr := opt_attr [] s_id (Some (ts_id s)) ++ opt_attr [] s_style (ts_ref s).
Lemma hdr_attrs_eq s : hdr_attrs s = hdr_pre s ++ out_attrs (ts_attrs s).
Proof. unfold hdr_attrs, hdr_pre. rewrite <- app_assoc. reflexivity. Qed.

Theorem read_header_rendered (styles : list (str * tstyle)) s al l : header_check styles s al = true ->
  read_header (el l al []) = Ok s.
Proof.
  unfold header_check. intros H. apply andb_true_iff in H. destruct H as [H Hperm]. apply andb_true_iff in H. destruct H as [Hr Ha].
  apply attrs_perm_sound in Hperm. destruct Hperm as [Hp Hnd].
  unfold read_header, el. cbn [elem_attrs].
  rewrite (read_attrs_perm _ _ Hp Hnd), !(attr_str_perm _ _ _ Hp Hnd).
  destruct s as [id rf ta]. cbn [ts_ref ts_attrs] in *.
  rewrite hdr_attrs_eq. unfold hdr_pre. cbn [ts_id ts_ref ts_attrs].
  set (pre := opt_attr [] s_id (Some id) ++ opt_attr [] s_style rf).
  assert (Hpre : pre_ok pre = true).
  { apply pre_ok_app; apply opt_attr_pre_ok; [exact other_id | exact other_style]. }
  rewrite (read_out_attrs pre ta Hpre Ha).
  assert (Eid : attr_str s_id (pre ++ out_attrs ta) = id).
  { assert (Ev : attr_vals s_id (pre ++ out_attrs ta) = match id with c :: r => [c :: r] | [] => [] end).
    { unfold pre. rewrite !attr_vals_app, (out_attrs_other _ _ other_id), opt_attr_vals_hit.
      rewrite opt_attr_vals_miss by reflexivity. rewrite !app_nil_r. reflexivity. }
    destruct id as [|c r]; [apply attr_str_none | apply attr_str_single]; exact Ev. }
  assert (Est : opt_ref (attr_str s_style (pre ++ out_attrs ta)) = rf).
  { apply (attr_str_ref s_style (pre ++ out_attrs ta) rf).
    - unfold pre. rewrite !attr_vals_app, (out_attrs_other _ _ other_style), opt_attr_vals_hit.
      rewrite opt_attr_vals_miss by reflexivity. rewrite app_nil_r. reflexivity.
    - destruct (ref_in_cases _ _ Hr) as [E|(c & k' & E & _)]; [left; exact E | right; exists c, k'; exact E]. }
  rewrite Eid, Est. reflexivity.
Qed.

Lemma read_headers_rendered (styles : list (str * tstyle)) l ss als : length als = length ss ->
  forallb (fun sa => header_check styles (fst sa) (snd sa)) (combine ss als) = true ->
  map_res read_header (map (fun al => el l al []) als) = Ok ss.
Proof.
  intros Hl H. rewrite map_res_map.
  rewrite (map_res_zip (fun al => read_header (el l al [])) fst ss als Hl).
  - rewrite (map_fst_combine ss als Hl). reflexivity.
  - intros s al Hin. cbn [fst]. apply (read_header_rendered styles).
    exact (combine_in_forallb (fun sa => header_check styles (fst sa) (snd sa)) ss als s al H Hin).
Qed.

(* ================= the tables ================= *)
Definition tbl (l : list tstyle) : list (str * tstyle) := map (fun s => (ts_id s, s)) l.

Lemma add_all_tbl l : NoDup (map ts_id l) -> add_all l [] = tbl l.
Proof.
  intros Hnd.
  assert (E : map snd (tbl l) = l).
  { unfold tbl. rewrite map_map. cbn [snd]. apply map_id. }
  rewrite <- E at 1. apply (add_all_app (tbl l) []).
  - cbn [app]. unfold tbl. rewrite map_map. cbn [fst]. exact Hnd.
  - unfold tbl. rewrite forallb_forall. intros kv Hin. apply in_map_iff in Hin. destruct Hin as (s & <- & _).
    cbn [fst snd]. apply str_eqb_refl.
Qed.

Lemma refs_ok_rendered (styles : list (str * tstyle)) ss als : length als = length ss ->
  forallb (fun sa => header_check styles (fst sa) (snd sa)) (combine ss als) = true ->
  forallb (ref_ok styles) ss = true.
Proof.
  revert als. induction ss as [|s ss IH]; intros [|al als] Hl H; cbn [length] in Hl; try discriminate; [reflexivity|].
  cbn [combine forallb fst snd] in *. apply andb_true_iff in H. destruct H as [H1 H2].
  rewrite (IH als) by (try lia; exact H2). rewrite andb_true_r.
  unfold header_check in H1. apply andb_true_iff in H1. destruct H1 as [H1 _]. apply andb_true_iff in H1. destruct H1 as [H1 _].
  unfold ref_ok. destruct (ref_in_cases _ _ H1) as [E|(c & k & E & Hm)]; rewrite E; [reflexivity | exact Hm].
Qed.

(* ================= paragraphs ================= *)
Definition para_pre (g : gitem) (p : rpara) : list xattr :=
  [(mkName [] s_begin, texpr_str (rp_begin p)); (mkName [] s_end, texpr_str (rp_end p))]
  ++ opt_attr [] s_region (gi_region g) ++ opt_attr [] s_style (gi_style g).
Lemma para_attrs_eq g p : para_attrs g p = para_pre g p ++ out_attrs (gi_attrs g).
Proof. unfold para_attrs, para_pre. rewrite <- !app_assoc. reflexivity. Qed.

Lemma para_pre_ok g p : pre_ok (para_pre g p) = true.
Proof.
  unfold para_pre. apply pre_ok_app; [reflexivity|].
  apply pre_ok_app; apply opt_attr_pre_ok; [exact other_region | exact other_style].
Qed.
Lemma para_pre_begin g p : attr_vals s_begin (para_pre g p) = [texpr_str (rp_begin p)].
Proof. unfold para_pre. destruct (gi_region g) as [[|c r]|]; destruct (gi_style g) as [[|c' r']|]; reflexivity. Qed.
Lemma para_pre_end g p : attr_vals s_end (para_pre g p) = [texpr_str (rp_end p)].
Proof. unfold para_pre. destruct (gi_region g) as [[|c r]|]; destruct (gi_style g) as [[|c' r']|]; reflexivity. Qed.
Lemma para_pre_region g p : attr_vals s_region (para_pre g p) = match gi_region g with Some (c :: k) => [c :: k] | _ => [] end.
Proof. unfold para_pre. destruct (gi_region g) as [[|c r]|]; destruct (gi_style g) as [[|c' r']|]; reflexivity. Qed.
Lemma para_pre_style g p : attr_vals s_style (para_pre g p) = match gi_style g with Some (c :: k) => [c :: k] | _ => [] end.
Proof. unfold para_pre. destruct (gi_region g) as [[|c r]|]; destruct (gi_style g) as [[|c' r']|]; reflexivity. Qed.
Lemma para_vals l g p : other l = true -> attr_vals l (para_attrs g p) = attr_vals l (para_pre g p).
Proof. intros H. rewrite para_attrs_eq, attr_vals_app, (out_attrs_other _ _ H). apply app_nil_r. Qed.

Theorem read_para_rendered : time_contract -> forall fr tr (styles regions : list (str * tstyle)) g p,
  para_check fr tr styles regions g p = true ->
  read_p styles regions fr tr (render_para p) = Ok (denote_item fr tr g p).
Proof.
  intros TC fr tr styles regions g p H. unfold para_check in H.
  apply andb_true_iff in H. destruct H as [H Htoks]. apply andb_true_iff in H. destruct H as [H Hne].
  apply andb_true_iff in H. destruct H as [H Hgs]. apply andb_true_iff in H. destruct H as [H Hc].
  apply andb_true_iff in H. destruct H as [H Hperm]. apply andb_true_iff in H. destruct H as [H Hat].
  apply andb_true_iff in H. destruct H as [H Hsy]. apply andb_true_iff in H. destruct H as [H Hrg].
  apply andb_true_iff in H. destruct H as [H _]. apply andb_true_iff in H. destruct H as [H _].
  apply andb_true_iff in H. destruct H as [Hb He].
  apply attrs_perm_sound in Hperm. destruct Hperm as [Hp Hnd].
  destruct (TC fr tr _ Hb) as (db & Ub & Db). destruct (TC fr tr _ He) as (de & Ue & De).
  assert (Eb : dur_attr s_begin (rp_attrs p) = Some (Some db)).
  { rewrite (dur_attr_perm _ _ _ Hp Hnd). unfold dur_attr. rewrite (para_vals _ g p other_begin), para_pre_begin.
    cbn [fold_left]. rewrite Ub. reflexivity. }
  assert (Ee : dur_attr s_end (rp_attrs p) = Some (Some de)).
  { rewrite (dur_attr_perm _ _ _ Hp Hnd). unfold dur_attr. rewrite (para_vals _ g p other_end), para_pre_end.
    cbn [fold_left]. rewrite Ue. reflexivity. }
  assert (Ea : tt_read_attrs (rp_attrs p) = Some (gi_attrs g)).
  { rewrite (read_attrs_perm _ _ Hp Hnd), para_attrs_eq. apply read_out_attrs; [apply para_pre_ok | exact Hat]. }
  destruct (attr_str_ref s_region (para_attrs g p) (gi_region g)) as [Er1 Er2].
  { rewrite (para_vals _ g p other_region). apply para_pre_region. }
  { destruct (ref_in_cases _ _ Hrg) as [E|(c & k' & E & _)]; [left; exact E | right; exists c, k'; exact E]. }
  destruct (attr_str_ref s_style (para_attrs g p) (gi_style g)) as [Es1 Es2].
  { rewrite (para_vals _ g p other_style). apply para_pre_style. }
  { destruct (ref_in_cases _ _ Hsy) as [E|(c & k' & E & _)]; [left; exact E | right; exists c, k'; exact E]. }
  rewrite <- (attr_str_perm s_region _ _ Hp Hnd) in Er1, Er2.
  rewrite <- (attr_str_perm s_style _ _ Hp Hnd) in Es1, Es2.
  assert (Krg : ref_known regions (attr_str s_region (rp_attrs p)) = true).
  { unfold ref_known. rewrite Er1. apply ref_null_mem. exact Hrg. }
  assert (Ksy : ref_known styles (attr_str s_style (rp_attrs p)) = true).
  { unfold ref_known. rewrite Es1. apply ref_null_mem. exact Hsy. }
  unfold render_para, el.
  rewrite (read_p_rendered styles regions fr tr (mkName el_mark s_p) (rp_attrs p) (rp_groups p) (rp_wl p) db de (gi_attrs g)
                           Hc Eb Ee Ea Krg Ksy Hgs).
  apply (list_eqb_eq ttok_eqb ttok_eqb_eq) in Htoks.
  rewrite Db, De, Er2, Es2, Htoks, lines_of_lines_toks.
  - reflexivity.
  - intros E. rewrite E in Hne. discriminate.
Qed.
