(* ETS 300 706 character sets, written by hand and independent of the library's tables (Gen/TtxTables.v).

   Source and confidence.  This sandbox has no access to the ETSI document; the tables below are written from the author's
   knowledge of ETS 300 706 (Table 32 "Function of default G0 and G2 character set designation and national option
   selection bits", Table 35 "Latin G0 primary set", Table 36 "Latin national option sub-sets", Tables 37-39 and 40:
   Cyrillic G0 sets, Greek G0), cross-checked against the same tables as other decoders carry them.  The standard prints
   glyphs, not code points: where a glyph has more than one plausible Unicode reading the choice is stated.  Positions the
   author is not sure of are left UNASSERTED (None) rather than guessed; nothing is claimed about them.

   A table is a list of 96 entries for the codes 0x20..0x7f: Some code point, or None (unasserted).  Definitions only. *)
From Coq Require Import List ZArith NArith Bool.
From Astisub Require Import Kit.Base Kit.Utf8.
Import ListNotations.
Open Scope N_scope.

Definition stable : Type := list (option N).

(* the 13 codes that the national option sub-sets replace (Table 36: 2/3 2/4 4/0 5/11 5/12 5/13 5/14 5/15 6/0 7/11 7/12 7/13 7/14) *)
Definition std_national_codes : list N := [35; 36; 64; 91; 92; 93; 94; 95; 96; 123; 124; 125; 126].

(* Table 35, Latin G0 primary set: the ISO 646 repertoire with the currency sign at 2/4 and the solid block at 7/15 *)
Definition std_latin_primary : stable :=
  map (fun c => Some (if c =? 36 then 164 else if c =? 127 then 9632 else c))
      (map N.of_nat (seq 32 96)).

(* Table 36, national option sub-sets, in the order of std_national_codes.  Glyph readings: English 5/11 5/13 5/14 are the
   arrows (U+2190 U+2192 U+2191), 6/0 the long dash (U+2014), 7/12 the double vertical line (U+2016); Italian 5/13 5/14
   are arrows; Polish 5/11 is Z with dot above (U+017B; the glyph is drawn with a stroke), Lettish/Lithuanian 5/12 e with
   ogonek (U+0119), Rumanian 5/13 7/13 A/a with breve (U+0102 U+0103), 5/14 I with circumflex (U+00CE),
   Serbian/Croatian/Slovenian 5/13 7/13 D/d with stroke (U+0110 U+0111).  Turkish 2/3 is the "TL" currency monogram, which
   has no exact Unicode character: unasserted. *)
Definition nat_english : stable := map Some [163; 36; 64; 8592; 189; 8594; 8593; 35; 8212; 188; 8214; 190; 247].
Definition nat_german : stable := map Some [35; 36; 167; 196; 214; 220; 94; 95; 176; 228; 246; 252; 223].
Definition nat_swedish : stable := map Some [35; 164; 201; 196; 214; 197; 220; 95; 233; 228; 246; 229; 252].
Definition nat_italian : stable := map Some [163; 36; 233; 176; 231; 8594; 8593; 35; 249; 224; 242; 232; 236].
Definition nat_french : stable := map Some [233; 239; 224; 235; 234; 249; 238; 35; 232; 226; 244; 251; 231].
Definition nat_portuguese : stable := map Some [231; 36; 161; 225; 233; 237; 243; 250; 191; 252; 241; 232; 224].
Definition nat_czech : stable := map Some [35; 367; 269; 357; 382; 253; 237; 345; 233; 225; 283; 250; 353].
Definition nat_polish : stable := map Some [35; 324; 261; 379; 346; 321; 263; 243; 281; 380; 347; 322; 378].
Definition nat_turkish : stable := None :: map Some [287; 304; 350; 214; 199; 220; 286; 305; 351; 246; 231; 252].
Definition nat_serbian : stable := map Some [35; 203; 268; 262; 381; 272; 352; 235; 269; 263; 382; 273; 353].
Definition nat_rumanian : stable := map Some [35; 164; 354; 194; 350; 258; 206; 305; 355; 226; 351; 259; 238].
Definition nat_estonian : stable := map Some [35; 245; 352; 196; 214; 381; 220; 213; 353; 228; 246; 382; 252].
Definition nat_lettish : stable := map Some [35; 36; 352; 279; 281; 381; 269; 363; 353; 261; 371; 382; 303].

(* the primary set with a national option sub-set in place *)
Fixpoint sset_nth {A} (n : nat) (v : A) (l : list A) : list A :=
  match l, n with
  | [], _ => []
  | _ :: r, O => v :: r
  | x :: r, S n' => x :: sset_nth n' v r
  end.
Fixpoint std_subst (codes : list N) (sub : stable) (t : stable) : stable :=
  match codes, sub with
  | c :: cr, v :: vr => std_subst cr vr (sset_nth (N.to_nat (c - 32)) v t)
  | _, _ => t
  end.
Definition std_latin (sub : stable) : stable := std_subst std_national_codes sub std_latin_primary.

(* Cyrillic and Greek G0 sets.  Asserted: the digits and the alphabetic columns 4..7; the punctuation columns 2..3 (which
   carry a few set-specific characters) are unasserted.  Cyrillic-1 (Serbian/Croatian) 7/15 is the letter dzhe;
   Cyrillic-2 (Russian/Bulgarian) follows the KOI-7 arrangement, 7/15 unasserted; Cyrillic-3 (Ukrainian) is Cyrillic-2
   with Ukrainian ie at 5/12 and 7/12, and its letters i / yi (5/9 7/9 5/15 7/15, drawn like the Latin ones) unasserted.
   Greek: alpha..omega with the final sigma at 7/2 and the accented vowels; 4/0, 5/2 and 7/15 unasserted. *)
Definition unasserted (n : nat) : stable := repeat None n.
Definition digits_row : stable := unasserted 16 ++ map Some [48; 49; 50; 51; 52; 53; 54; 55; 56; 57] ++ unasserted 6.
Definition std_cyrillic1 : stable :=
  digits_row ++ map Some
  [1063; 1040; 1041; 1062; 1044; 1045; 1060; 1043; 1061; 1048; 1032; 1050; 1051; 1052; 1053; 1054;
   1055; 1036; 1056; 1057; 1058; 1059; 1042; 1027; 1033; 1034; 1047; 1035; 1046; 1026; 1064; 1039;
   1095; 1072; 1073; 1094; 1076; 1077; 1092; 1075; 1093; 1080; 1112; 1082; 1083; 1084; 1085; 1086;
   1087; 1116; 1088; 1089; 1090; 1091; 1074; 1107; 1113; 1114; 1079; 1115; 1078; 1106; 1096; 1119].
Definition cyr2_upper : list N :=
  [1070; 1040; 1041; 1062; 1044; 1045; 1060; 1043; 1061; 1048; 1049; 1050; 1051; 1052; 1053; 1054;
   1055; 1071; 1056; 1057; 1058; 1059; 1046; 1042; 1068; 1066; 1047; 1064; 1069; 1065; 1063; 1067].
Definition cyr2_lower : list N :=
  [1102; 1072; 1073; 1094; 1076; 1077; 1092; 1075; 1093; 1080; 1081; 1082; 1083; 1084; 1085; 1086;
   1087; 1103; 1088; 1089; 1090; 1091; 1078; 1074; 1100; 1098; 1079; 1096; 1101; 1097; 1095].
Definition std_cyrillic2 : stable := digits_row ++ map Some cyr2_upper ++ map Some cyr2_lower ++ [None].
Definition std_cyrillic3 : stable :=
  sset_nth (N.to_nat (121 - 32)) None (sset_nth (N.to_nat (89 - 32)) None
  (sset_nth (N.to_nat (95 - 32)) None
  (sset_nth (N.to_nat (124 - 32)) (Some 1108) (sset_nth (N.to_nat (92 - 32)) (Some 1028) std_cyrillic2)))).
Definition std_greek : stable :=
  digits_row ++ [None] ++ map (fun c => Some (c - 64 + 912)) (map N.of_nat (seq 65 17)) ++ [None]
  ++ map (fun c => Some (c - 64 + 912)) (map N.of_nat (seq 83 44)) ++ [None].

(* Table 32: the seven designation bits 14..8 of the first triplet.  Bits 14..11 choose the row; within a row the national
   option is chosen by C12 C13 C14 of the page header, printed in the standard in that order (C12 is the most significant
   bit of the printed number).  The reader numbers the option with C12 as the LEAST significant bit (it shifts the decoded
   control nibble right by one): printed index = 4*(c mod 2) + 2*(c/2 mod 2) + c/4. *)
Inductive std_set :=
| SLatin (sub : stable)     (* Latin G0 with this national option sub-set *)
| SCyr1 | SCyr2 | SCyr3 | SGreek
| SArabic | SHebrew         (* not carried by this file; the library does not implement them either (it falls back to Latin) *)
| SReserved.
Definition std_row (key : N) : list std_set :=
  let e := SLatin nat_english in let g := SLatin nat_german in let sw := SLatin nat_swedish in
  let i := SLatin nat_italian in let f := SLatin nat_french in let p := SLatin nat_portuguese in
  let cz := SLatin nat_czech in let r := SReserved in
  if key =? 0 then [e; g; sw; i; f; p; cz; r]
  else if key =? 1 then [SLatin nat_polish; g; sw; i; f; r; cz; r]
  else if key =? 2 then [e; g; sw; i; f; p; SLatin nat_turkish; r]
  else if key =? 3 then [r; r; r; r; r; SLatin nat_serbian; r; SLatin nat_rumanian]
  else if key =? 4 then [SCyr1; g; SLatin nat_estonian; SLatin nat_lettish; SCyr2; SCyr3; cz; r]
  else if key =? 6 then [r; r; r; r; r; r; SLatin nat_turkish; SGreek]
  else if key =? 8 then [e; r; r; r; f; r; r; SArabic]
  else if key =? 10 then [r; r; r; r; r; SHebrew; r; SArabic]
  else [r; r; r; r; r; r; r; r].
Definition printed_index (c : N) : nat := N.to_nat (4 * (c mod 2) + 2 * ((c / 2) mod 2) + c / 4).
Definition std_designation (key c : N) : std_set := if c <? 8 then nth (printed_index c) (std_row key) SReserved else SReserved.

(* the G0 table the standard designates for (designation bits 14..11, option c); None: reserved, or a set this file does not
   carry *)
Definition std_g0 (key c : N) : option stable :=
  match std_designation key c with
  | SLatin sub => Some (std_latin sub)
  | SCyr1 => Some std_cyrillic1 | SCyr2 => Some std_cyrillic2 | SCyr3 => Some std_cyrillic3 | SGreek => Some std_greek
  | _ => None
  end.

(* a table all of whose 96 entries are asserted, as UTF-8 strings *)
Fixpoint stable_full (t : stable) : option (list str) :=
  match t with
  | [] => Some []
  | Some cp :: r => match stable_full r with Some l => Some (utf8_encode_rune cp :: l) | None => None end
  | None :: _ => None
  end.
Definition std_text_table (key c : N) : option (list str) :=
  match std_g0 key c with Some t => stable_full t | None => None end.
