(* srt.go, checked transcription: the same reader and writer as Model/Srt.v with every run-time panic site of the Go
   code (slice index, slicing, nil dereference) spelled out as a checked access behind the code's own guard.
   Site numbers are the line numbers of srt.go.  Proofs/SrtChk.v shows that no site is reachable and that these
   functions agree with the pattern-matching transcription of Model/Srt.v, on which the fidelity theorems are stated.
   Definitions only. *)
From Coq Require Import List ZArith NArith Bool Arith.
From Astisub Require Import Kit.Base Kit.Str Kit.Html Kit.Scan Kit.Chk Model.Dur Model.Srt.
Import ListNotations.
Open Scope N_scope.

(* ---- srtRemoveTrailingEmptyLines ---- *)
(* for j := len(Items)-1; j >= 0; j-- { if len(Items[j].Text) == 0 { Items = Items[:j] } else { break } } *)
Fixpoint strip_items_c (j : nat) (items : list srun) : res (list srun) :=
  match j with
  | O => Ok items
  | S k =>
    do r <- index items k 135;
    match sr_text r with
    | [] => do items' <- slice_to items k 136; strip_items_c k items'
    | _ => Ok items
    end
  end.
(* for i := len(s.Lines)-1; i >= 0; i-- { ... } *)
Fixpoint strip_loop_c (i : nat) (ls : list (list srun)) : res (list (list srun)) :=
  match i with
  | O => Ok ls
  | S j =>
    do l <- index ls j 133;
    if Nat.ltb 0 (length l) then
      do l' <- strip_items_c (length l) l;
      let ls1 := set_nth ls j l' in
      if Nat.eqb (length l') 0 then do ls2 <- slice_to ls1 j 142; strip_loop_c j ls2
      else strip_loop_c j ls1
    else strip_loop_c j ls
  end.
Definition strip_lines_c (ls : list (list srun)) : res (list (list srun)) :=
  if Nat.ltb 0 (length ls) then strip_loop_c (length ls) ls else Ok ls.

(* the previous cue is closed: its last line, when its text is not empty, is the index of the next cue *)
(* if len(s.Lines) != 0 { index = s.Lines[len(s.Lines)-1].String(); if index != "" { s.Lines = s.Lines[:len(s.Lines)-1] } }
   [index ls (length ls - 1) 68] does panic on the empty list (nat 0 - 1 = 0 and [index [] 0] is Panic), so site 68 is
   sound as written; s.Lines[:len-1] is [slice_to_pred] (Kit/Chk.v): Panic 70 on the empty list, as Go's [:-1]. *)
Definition finalize_c (ls : list (list srun)) : res (list (list srun) * str) :=
  if negb (Nat.eqb (length ls) 0) then
    do lastl <- index ls (length ls - 1) 68;
    match run_texts lastl with
    | [] => do st <- strip_lines_c ls; Ok (st, [])
    | idx => do ls' <- slice_to_pred ls 70; do st <- strip_lines_c ls'; Ok (st, idx)
    end
  else do st <- strip_lines_c ls; Ok (st, []).

(* the time boundaries line: s1 := Split(line, "-->"); guard len(s1) < 2; s2 := Fields(s1[1]); guard len(s2) == 0;
   then s1[0] and s2[0] *)
Definition srt_timing_c (line : str) : res (str * str) :=
  let s1 := Str.split arrow line in
  if Nat.ltb (length s1) 2 then Err EParse else
  do r <- index s1 1 92;
  let s2 := fields r in
  if Nat.eqb (length s2) 0 then Err EParse else
  do l <- index s1 0 99;
  do e <- index s2 0 103;
  Ok (l, e).

Definition srt_step_c (s : rstate) (first : bool) (raw : str) : res rstate :=
  let line0 := trim_space raw in
  if negb (utf8_valid line0) then Err EParse else
  let line := if first then trim_prefix bom line0 else line0 in
  if contains arrow line then
    let curlines := match r_cur s with Some it => si_lines it | None => r_pre s end in
    do fi <- finalize_c curlines;
    let '(fl, index) := fi in
    let done' := close_cur s fl in
    do le <- srt_timing_c line;
    let '(l, e) := le in
    match parse_srt l, parse_srt e with
    | Some d0, Some d1 =>
      let idx := match index with [] => 0%Z | _ => atoi_val index end in
      Ok (mkR done' (Some (mkSitem idx d0 d1 [])) sa0 [])
    | _, _ => Err EParse
    end
  else
    let '(rs, a') := parse_text_srt line (r_sa s) in
    match rs with
    | [] => Ok (mkR (r_done s) (r_cur s) a' (r_pre s))
    | _ =>
      match r_cur s with
      | Some it => Ok (mkR (r_done s) (Some (mkSitem (si_idx it) (si_st it) (si_en it) (si_lines it ++ [rs]))) a' (r_pre s))
      | None => Ok (mkR (r_done s) None a' (r_pre s ++ [rs]))
      end
    end.
Fixpoint srt_run_c (s : rstate) (first : bool) (ls : list str) : res rstate :=
  match ls with
  | [] => Ok s
  | l :: r => match srt_step_c s first l with
              | Ok s' => srt_run_c s' false r
              | Err k => Err k
              | Panic p => Panic p
              end
  end.
Definition read_srt_lines_c (ls : list str) (scan_err : bool) : res (list sitem) :=
  match srt_run_c (mkR [] None sa0 []) true ls with
  | Ok s =>
    if scan_err then Err EIO
    else match r_cur s with
         | Some it => do fl <- strip_lines_c (si_lines it); Ok (r_done s ++ [mkSitem (si_idx it) (si_st it) (si_en it) fl])
         | None => Ok (r_done s)
         end
  | Err k => Err k
  | Panic p => Panic p
  end.
Definition read_srt_c (data : str) : res (list sitem) := read_srt_lines_c (lines data) false.

(* ---- WriteToSRT ---- *)
(* LineItem.srtBytes: every use of li.InlineStyle is behind "li.InlineStyle != nil &&"; *SRTColor behind "!= nil" *)
Definition run_bytes_c (r : srun) : res str :=
  let has := is_some (sr_sty r) in
  do color <- (if has then
                 do a <- deref (sr_sty r) 286;
                 if is_some (sa_col a) then deref (sa_col a) 287 else Ok []
               else Ok []);
  do b <- (if has then do a <- deref (sr_sty r) 291; Ok (sa_b a) else Ok false);
  do i <- (if has then do a <- deref (sr_sty r) 292; Ok (sa_i a) else Ok false);
  do u <- (if has then do a <- deref (sr_sty r) 293; Ok (sa_u a) else Ok false);
  Ok ((match color with [] => [] | _ => s_font_open ++ color ++ [34; 62] end) ++
      (if b then tag_open 98 else []) ++ (if i then tag_open 105 else []) ++ (if u then tag_open 117 else []) ++
      (if sr_pos r =? 0 then [] else [123;92;97;110] ++ itoa (sr_pos r) ++ [125]) ++
      escape_html (sr_text r) ++
      (if u then tag_close 117 else []) ++ (if i then tag_close 105 else []) ++ (if b then tag_close 98 else []) ++
      (match color with [] => [] | _ => s_font_close end)).
Fixpoint runs_bytes_c (l : list srun) : res str :=
  match l with
  | [] => Ok []
  | r :: t => do x <- run_bytes_c r; do y <- runs_bytes_c t; Ok (x ++ y)
  end.
Definition line_bytes_c (l : list srun) : res str := do x <- runs_bytes_c l; Ok (x ++ [10]).
Fixpoint lines_bytes_c (ls : list (list srun)) : res str :=
  match ls with
  | [] => Ok []
  | l :: t => do x <- line_bytes_c l; do y <- lines_bytes_c t; Ok (x ++ y)
  end.
Fixpoint items_bytes_c (k : nat) (l : list sitem) : res str :=
  match l with
  | [] => Ok []
  | it :: r =>
    do body <- lines_bytes_c (si_lines it);
    do rest <- items_bytes_c (S k) r;
    Ok (itoa (N.of_nat (S k)) ++ [10] ++ format_srt (si_st it) ++ arrow_sp ++ format_srt (si_en it) ++ [10] ++
        body ++ [10] ++ rest)
  end.
(* if len(s.Items) == 0 { return ErrNoSubtitlesToWrite } ... c = c[:len(c)-1]
   ([slice_to_pred]: Panic 265 when c is empty; c starts with the BOM, so the site is unreachable even without the
   guard on Items -- the guard-dropped variant of Proofs/SrtChk.v drops the BOM as well) *)
Definition write_srt_c (l : list sitem) : res str :=
  if Nat.eqb (length l) 0 then Err ENothingToWrite
  else do body <- items_bytes_c 0 l;
       let c := bom ++ body in
       slice_to_pred c 265.

(* Subtitles.Items is a []*Item whose elements may be nil: WriteToSRT starts with s.Items = nonNilItems(s.Items)
   (srt.go:236), then proceeds as above on the remaining items *)
Definition write_srt_items_c (l : list (option sitem)) : res str := write_srt_c (somes l).
