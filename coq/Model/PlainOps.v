(* Conversion of unstyled cue lists with operations in between, for every pair of codecs (C07): the plain view fits the
   generic cue of Model/Ops.v exactly (lines of one text run each), so the documented operations act on plain cue
   lists directly.  Definitions only. *)
From Coq Require Import List ZArith NArith Bool.
From Astisub Require Import Kit.Base Kit.Str Kit.Float64 Model.Ops Model.Lin Model.Plain.
Import ListNotations.

Inductive pop :=
| PAdd (d : Z)
| PFragment (f : Z)
| PUnfragment
| POrder
| POptimize
| PLin (a1 d1 a2 d2 : Z)
| PMerge (other : plain).

Definition item_of_pcue (c : pcue) : item :=
  let '(s, e, ls) := c in mkItem 0 s e (map (fun t => mkLine [mkRun t None false] []) ls) None None false.
Definition pcue_of_item (x : item) : pcue := (st x, en x, map line_text (i_lines x)).
Definition items_of_plain (p : plain) : list item := map item_of_pcue p.
Definition plain_of_items (l : list item) : plain := map pcue_of_item l.

Definition apply_pop (o : pop) (xs : list item) : list item :=
  match o with
  | PAdd d => add_dur d xs
  | PFragment f => fragment f xs
  | PUnfragment => unfragment xs
  | POrder => order xs
  | POptimize => items (optimize (mkSubs xs None None))
  | PLin a1 d1 a2 d2 => linear_correction a1 d1 a2 d2 xs
  | PMerge other => items (merge (mkSubs xs None None) (mkSubs (items_of_plain other) None None) [] [])
  end.
Definition ops_plain (ops : list pop) (p : plain) : plain :=
  plain_of_items (fold_left (fun xs o => apply_pop o xs) ops (items_of_plain p)).

(* source bytes -> reader -> operations -> writer -> destination bytes *)
Definition convert_plain_ops {SA SB : Type} (decA : SA -> res plain) (encB : plain -> res SB) (ops : list pop) (data : SA) : res SB :=
  match decA data with
  | Ok p => encB (ops_plain ops p)
  | Err k => Err k
  | Panic q => Panic q
  end.
