(* teletext.go: parseTeletextRow and appendTeletextLineItem -- one row of (at most) 40 teletext character
   cells to the styled runs of one line.  Shared by the transport-stream teletext reader (no styler, the
   page's character decoder) and by the STL reader under the teletext display standards (STL styler, STL
   character handler), hence parameterised by the decoder and the styler.  Definitions only.

   Pointer comparisons of the Go code, as they evaluate:
   - [color != li.InlineStyle.TeletextColor] compares pointers to the eight package-level colour values, so it
     is equality of colour codes;
   - [doubleHeight != li.InlineStyle.TeletextDoubleHeight] (same for size/width) compares a pointer freshly
     allocated by astikit.BoolPtr (or nil) with the stored one: it is false only when both are nil. *)
From Coq Require Import List ZArith NArith Bool.
From Astisub Require Import Kit.Base Kit.Str.
Import ListNotations.
Open Scope N_scope.

Section Row.
  (* X: the part of StyleAttributes the styler owns (STL: boxing/italics/underline; teletext: unit);
     S: the styler's own state; D: the state of the character decoder (STL: the pending diacritic of the character
     handler, which lives across rows and subtitles; teletext: unit) *)
  Variables (X S D : Type).

  Record styler := mkStyler {
    sy_new : S;                     (* fs() *)
    sy_parse : N -> S -> S;         (* parseSpacingAttribute *)
    sy_set : S -> bool;             (* hasBeenSet *)
    sy_changed : S -> X -> bool;    (* hasChanged(li.InlineStyle) *)
    sy_update : S -> X -> X;        (* update(li.InlineStyle) *)
    sy_prop : X -> X                (* propagateStyleAttributes(li.InlineStyle) *)
  }.

  Variable dec : D -> N -> res (str * D).   (* decoder.decode: text and the decoder afterwards; a Go index panic is a Panic *)
  Variable fs : option styler.       (* nil for the transport-stream reader *)

  (* the teletext attributes of StyleAttributes *)
  Record tsty := mkTsty { ts_color : option N; ts_dh : option bool; ts_ds : option bool; ts_dw : option bool; ts_x : X }.
  (* the line item under construction *)
  Record titem := mkTitem { ti_text : str; ti_sty : tsty }.
  (* an appended line item: trimmed text, style, TeletextSpacesBefore/After *)
  Record trun := mkTrun { tr_text : str; tr_sty : tsty; tr_sb : N; tr_sa : N }.

  Fixpoint count_lead (c : N) (s : str) : N :=
    match s with x :: r => if x =? c then 1 + count_lead c r else 0 | [] => 0 end.

  (* appendTeletextLineItem *)
  Definition append_item (l : list trun) (li : titem) : list trun :=
    match trim_space (ti_text li) with
    | [] => l
    | t => let sty := ti_sty li in
           let x' := match fs with Some f => sy_prop f (ts_x sty) | None => ts_x sty end in
           l ++ [mkTrun t (mkTsty (ts_color sty) (ts_dh sty) (ts_ds sty) (ts_dw sty) x')
                        (count_lead 32 (ti_text li)) (count_lead 32 (rev (ti_text li)))]
    end.

  Record rowst := mkRowst { rs_l : list trun; rs_li : titem; rs_started : bool; rs_d : D }.

  Definition t_is_some {A} (o : option A) : bool := match o with Some _ => true | None => false end.
  (* p != q where p is nil or freshly allocated *)
  Definition fresh_ne {A} (p q : option A) : bool := match p, q with None, None => false | _, _ => true end.
  Definition t_opt_or {A} (p q : option A) : option A := match p with Some _ => p | None => q end.

  Definition row_step (st : rowst) (v : N) : res rowst :=
    let col := if v <? 8 then Some v else None in
    let started := if v =? 10 then false else if v =? 11 then true else rs_started st in
    let dh := if v =? 12 then Some false else if v =? 13 then Some true else None in
    let dw := if v =? 12 then Some false else if v =? 14 then Some true else None in
    let ds := if v =? 12 then Some false else if v =? 15 then Some true else None in
    let isdefault := negb (v <? 8) && negb ((10 <=? v) && (v <=? 15)) in
    let s := match fs with
             | Some f => Some (if isdefault then sy_parse f v (sy_new f) else sy_new f)
             | None => None end in
    let sset := match fs, s with Some f, Some sv => sy_set f sv | _, _ => false end in
    let li := rs_li st in
    let sty := ti_sty li in
    if t_is_some col || t_is_some dh || t_is_some ds || t_is_some dw || sset then
      let schg := match fs, s with Some f, Some sv => sy_changed f sv (ts_x sty) | _, _ => false end in
      if negb (opt_eqb col (ts_color sty)) || fresh_ne dh (ts_dh sty) || fresh_ne ds (ts_ds sty)
         || fresh_ne dw (ts_dw sty) || schg then
        let l' := if started then append_item (rs_l st) li else rs_l st in
        let txt := if started then [] else ti_text li in
        let x' := match fs, s with Some f, Some sv => sy_update f sv (ts_x sty) | _, _ => ts_x sty end in
        let sty' := mkTsty (t_opt_or col (ts_color sty)) (t_opt_or dh (ts_dh sty)) (t_opt_or ds (ts_ds sty))
                           (t_opt_or dw (ts_dw sty)) x' in
        Ok (mkRowst l' (mkTitem txt sty') started (rs_d st))
      else Ok (mkRowst (rs_l st) li started (rs_d st))
    else if started then
      do td <- dec (rs_d st) v;
      Ok (mkRowst (rs_l st) (mkTitem (ti_text li ++ fst td) sty) started (snd td))
    else Ok (mkRowst (rs_l st) li started (rs_d st)).

  Fixpoint row_fold (st : rowst) (row : list N) : res rowst :=
    match row with
    | [] => Ok st
    | v :: r => do st' <- row_step st v; row_fold st' r
    end.

  Variable x0 : X.   (* the styler's part of a zero StyleAttributes *)
  Definition tsty0 : tsty := mkTsty None None None None x0.
  Definition rowst0 (d : D) : rowst := mkRowst [] (mkTitem [] tsty0) false d.

  (* parseTeletextRow: the runs of the line ([] = no line appended to the item) and the decoder afterwards *)
  Definition parse_row (d : D) (row : list N) : res (list trun * D) :=
    do st <- row_fold (rowst0 d) row;
    Ok (append_item (rs_l st) (rs_li st), rs_d st).
End Row.

Arguments mkTsty {X}. Arguments ts_color {X}. Arguments ts_dh {X}. Arguments ts_ds {X}. Arguments ts_dw {X}. Arguments ts_x {X}.
Arguments mkTitem {X}. Arguments ti_text {X}. Arguments ti_sty {X}.
Arguments mkTrun {X}. Arguments tr_text {X}. Arguments tr_sty {X}. Arguments tr_sb {X}. Arguments tr_sa {X}.
Arguments mkRowst {X D}. Arguments rs_l {X D}. Arguments rs_li {X D}. Arguments rs_started {X D}. Arguments rs_d {X D}.
