(* The plain view shared by all codecs (C07): what the conversion property compares - per cue the start, the end
   and the text of each line (run texts put together) - and the generic file-to-file conversion through it.
   Each codec provides  of_plain : plain -> its document type  (an unstyled document with those cues) and
   to_plain : its document type -> plain.  Definitions only. *)
From Coq Require Import List ZArith NArith Bool.
From Astisub Require Import Kit.Base Kit.Str Model.Srt Model.Vtt Model.Conv.
Import ListNotations.

Definition pcue : Type := (Z * Z * list str)%type.
Definition plain : Type := list pcue.

Definition trunc_to (u t : Z) : Z := (t - t mod u)%Z.
Definition ptrunc (u : Z) (p : plain) : plain :=
  map (fun c : pcue => let '(s, e, ls) := c in (trunc_to u s, trunc_to u e, ls)) p.

(* a codec seen through the plain view: an encoder of plain cue lists and a decoder to plain cue lists *)
Definition dec_with {A : Type} (rd : str -> res A) (to_p : A -> plain) (data : str) : res plain :=
  match rd data with Ok a => Ok (to_p a) | Err k => Err k | Panic p => Panic p end.
(* generic conversion source bytes -> destination bytes through the plain view *)
Definition convert_plain {SA SB : Type} (decA : SA -> res plain) (encB : plain -> res SB) (data : SA) : res SB :=
  match decA data with
  | Ok p => encB p
  | Err k => Err k
  | Panic p => Panic p
  end.

(* ---- SubRip ---- *)
Definition srt_of_plain (p : plain) : list sitem :=
  map (fun c : pcue => let '(s, e, ls) := c in mkSitem 0 s e (map (fun t => [mkSrun t None 0%N]) ls)) p.
Definition srt_to_plain (l : list sitem) : plain := map sview l.

(* ---- WebVTT ---- *)
Definition vtt_of_plain (p : plain) : vdoc :=
  mkVdoc (map (fun c : pcue => let '(s, e, ls) := c in
                 mkVitem 0 s e [] None None None (map (fun t => mkVline [mkVrun t None 0%Z None] []) ls)) p)
         [] [] None.
Definition vtt_to_plain (d : vdoc) : plain := map vview (vd_items d).
Definition write_vtt0 (d : vdoc) : res str := write_vtt d [] [].

Definition srt_enc (p : plain) : res str := write_srt (srt_of_plain p).
Definition srt_dec : str -> res plain := dec_with read_srt srt_to_plain.
Definition vtt_enc (p : plain) : res str := write_vtt0 (vtt_of_plain p).
Definition vtt_dec : str -> res plain := dec_with read_vtt vtt_to_plain.
