(* Conversion between formats as the library does it: both codecs share one in-memory cue list; what crosses is
   what the destination writer looks at.  SubRip -> WebVTT: bold/italic/underline travel as the tags b, i, u
   (propagateSRTAttributes), the font colour as TTMLColor (written as a class for the five colours the writer
   knows); WebVTT -> SubRip: text only (the reader never sets WebVTTBold & co., so the SRT attributes stay off;
   voices, settings, regions, comments and inline timestamps are not looked at by the SubRip writer).
   Definitions only. *)
From Coq Require Import List ZArith NArith Bool.
From Astisub Require Import Kit.Base Kit.Str Kit.Scan Model.Dur Model.Srt Model.Vtt.
Import ListNotations.

Definition tag_b : vtag := mkVtag [98%N] [] [].
Definition tag_i : vtag := mkVtag [105%N] [] [].
Definition tag_u : vtag := mkVtag [117%N] [] [].
Definition tags_of_sa (a : sa) : list vtag :=
  (if sa_b a then [tag_b] else []) ++ (if sa_i a then [tag_i] else []) ++ (if sa_u a then [tag_u] else []).

Definition sv_run (r : srun) : vrun :=
  mkVrun (sr_text r)
         (match sr_sty r with Some a => Some (tags_of_sa a) | None => None end)
         0%Z
         (match sr_sty r with Some a => sa_col a | None => None end).
Definition sv_line (l : list srun) : vline := mkVline (map sv_run l) [].
Definition sv_item (it : sitem) : vitem :=
  mkVitem (si_idx it) (si_st it) (si_en it) [] None None None (map sv_line (si_lines it)).
Definition conv_sv (l : list sitem) : vdoc := mkVdoc (map sv_item l) [] [] None.

Definition vs_run (r : vrun) : srun :=
  mkSrun (vr_text r) (match vr_tags r with Some _ => Some sa0 | None => None end) 0%N.
Definition vs_line (l : vline) : list srun := map vs_run (vl_runs l).
Definition vs_item (it : vitem) : sitem := mkSitem (vi_idx it) (vi_st it) (vi_en it) (map vs_line (vi_lines it)).
Definition conv_vs (d : vdoc) : list sitem := map vs_item (vd_items d).

(* file to file *)
Definition convert_srt_vtt (data : str) : res str :=
  match read_srt data with
  | Ok l => write_vtt (conv_sv l) [] []
  | Err k => Err k
  | Panic p => Panic p
  end.
Definition convert_vtt_srt (data : str) : res str :=
  match read_vtt data with
  | Ok d => write_srt (conv_vs d)
  | Err k => Err k
  | Panic p => Panic p
  end.

(* what C07 compares: per cue the times and, per line, the text of its runs put together *)
Definition sline_text (l : list srun) : str := concat (map sr_text l).
Definition vline_text (l : vline) : str := concat (map vr_text (vl_runs l)).
Definition sview (it : sitem) : Z * Z * list str := (si_st it, si_en it, map sline_text (si_lines it)).
Definition vview (it : vitem) : Z * Z * list str := (vi_st it, vi_en it, map vline_text (vi_lines it)).
