(* Conversion TTML -> WebVTT as the library does it (C07, styled sources): what WriteToWebVTT (webvtt.go) sees of the
   Subtitles value ReadFromTTML (ttml.go) builds.

   ReadFromTTML calls TTMLInStyleAttributes.styleAttributes() for every style, region, paragraph and span, and that
   calls StyleAttributes.propagateTTMLAttributes (subtitles.go), which fills the WebVTT attributes:
     textAlign            -> WebVTTAlign
     extent  W H          -> WebVTTWidth = W; WebVTTLines = Atoi(H without its per-cent signs) / 5 (Go integer division; left 0 when
                             Atoi fails); WebVTTSize = H, or W when writingMode starts with tb   -- only when
                             strings.Split(extent, one blank) has at least two components (the first two are used)
     origin  X Y          -> WebVTTRegionAnchor = 0%,0% ; WebVTTViewportAnchor = TrimSpace(origin) with every blank replaced
                             by a comma; WebVTTScroll = up   -- whatever the number of components; and, with at least two
                             components, WebVTTLine = X, WebVTTPosition = Y (swapped when writingMode starts with tb)
   WebVTTVertical, WebVTTTags, WebVTTStyles are never set by the TTML reader.

   WriteToWebVTT then emits: no X-TIMESTAMP-MAP (Metadata.WebVTTTimestampMap is nil), no STYLE block (no WebVTTStyles);
   every region of the Regions map (keyed by the region's ID; a later region element with the same ID replaces the
   earlier one) with lines / regionanchor / scroll / viewportanchor / width from Region.InlineStyle, falling back to
   Region.Style.InlineStyle (the style the region element names: ONE level, not its parents); per cue - Item.InlineStyle
   is never nil for a TTML source - align / line / position / region:ID / size from Item.InlineStyle with fall-back to
   Item.Style.InlineStyle (one level again; nothing is inherited from div, body or the region); per run the class of
   LineItem.InlineStyle.TTMLColor (the span's OWN tts:color, no fall-back to its style) when it is one of the five
   colours of cssColor, then the escaped text.  Lines and runs are those of the reader model (Model/Ttml.v).
   Definitions only. *)
From Coq Require Import List ZArith NArith Bool.
From Astisub Require Import Kit.Base Kit.Str Kit.Xml Kit.XmlParse2 Model.Dur Model.Ttml Model.Vtt Model.Plain Model.PlainTtml.
Import ListNotations.
Open Scope N_scope.

(* slots of ta_s in the order of attr_names: 1 color, 5 extent, 12 origin, 16 textAlign, 22 writingMode *)
Definition tv_slot (k : nat) (a : tattrs) : option str := nth k (ta_s a) None.
Definition tv_tb : str := [116; 98].
(* sa.TTMLWritingMode != nil && strings.HasPrefix( *sa.TTMLWritingMode, tb ) *)
Definition tv_is_tb (a : tattrs) : bool :=
  match tv_slot 22 a with Some m => has_prefix tv_tb m | None => false end.
(* strings.ReplaceAll(s, per-cent, empty) ; strings.ReplaceAll(s, blank, comma) *)
Definition tv_unpct (s : str) : str := filter (fun c => negb (c =? 37)) s.
Definition tv_commas (s : str) : str := map (fun c => if c =? 32 then 44 else c) s.
Definition tv_anchor0 : str := [48; 37; 44; 48; 37].   (* 0%,0% *)
Definition tv_up : str := [117; 112].                  (* up *)

(* the WebVTT attributes of one StyleAttributes value after propagateTTMLAttributes: cue settings, region settings *)
Record tvattr := mkTv { tv_set : vset; tv_reg : vregattr }.
Definition tv_prop (a : tattrs) : tvattr :=
  let tb := tv_is_tb a in
  let align := match tv_slot 16 a with Some v => v | None => [] end in
  let ext := match tv_slot 5 a with
             | Some e =>
               match split_byte 32 e with
               | d0 :: d1 :: _ =>
                 (d0, match atoi (tv_unpct d1) with Some h => Z.quot h 5 | None => 0%Z end, if tb then d0 else d1)
               | _ => ([], 0%Z, [])
               end
             | None => ([], 0%Z, [])
             end in
  let org := match tv_slot 12 a with
             | Some o =>
               (tv_anchor0, tv_commas (trim_space o), tv_up,
                match split_byte 32 o with
                | c0 :: c1 :: _ => if tb then (c1, c0) else (c0, c1)
                | _ => ([], [])
                end)
             | None => ([], [], [], ([], []))
             end in
  let '(width, lines, size) := ext in
  let '(anchor, vanchor, scroll, (line, position)) := org in
  mkTv (mkVset align line position size []) (mkVregattr lines anchor scroll vanchor width).

(* X.Style.InlineStyle of a style reference: the named style's own attributes *)
Definition tv_style_of (styles : list (str * tstyle)) (r : option str) : option tvattr :=
  match r with
  | Some id => match map_get id styles with Some s => Some (tv_prop (ts_attrs s)) | None => None end
  | None => None
  end.

(* a span: Text, InlineStyle (never nil, no tags), TTMLColor = its own tts:color *)
Definition tv_run (r : trun) : vrun := mkVrun (tr_txt r) (Some []) 0%Z (tv_slot 1 (tr_attrs r)).
Definition tv_line (l : list trun) : vline := mkVline (map tv_run l) [].
Definition tv_item (styles regions : list (str * tstyle)) (it : titem) : vitem :=
  mkVitem 0%Z (ti_st it) (ti_en it) []
          (match ti_region it with
           | Some id => match map_get id regions with Some rg => Some (ts_id rg) | None => None end
           | None => None
           end)
          (Some (tv_set (tv_prop (ti_attrs it))))
          (match tv_style_of styles (ti_style it) with Some p => Some (tv_set p) | None => None end)
          (map tv_line (ti_lines it)).
Definition tv_region (styles : list (str * tstyle)) (kv : str * tstyle) : str * vregion :=
  (fst kv, mkVregion (ts_id (snd kv)) (Some (tv_reg (tv_prop (ts_attrs (snd kv)))))
                     (match tv_style_of styles (ts_ref (snd kv)) with Some p => Some (tv_reg p) | None => None end)).

Definition conv_ttml_vtt (d : tdoc) : vdoc :=
  mkVdoc (map (tv_item (td_styles d) (td_regions d)) (td_items d))
         (map (tv_region (td_styles d)) (td_regions d))
         (map (fun kv : str * tstyle => (fst kv, Some [])) (td_styles d))
         None.
(* the keys of the Styles and Regions maps (the writer sorts them) *)
Definition tv_style_order (d : tdoc) : list str := map fst (td_styles d).
Definition tv_region_order (d : tdoc) : list str := map fst (td_regions d).
Definition write_ttml_vtt (d : tdoc) : res str := write_vtt (conv_ttml_vtt d) (tv_style_order d) (tv_region_order d).

(* file to file; the TTML bytes go through the XML parser model for hand-written documents (Kit/XmlParse2.v) *)
Definition convert_ttml_vtt (data : str) : res str :=
  match read_ttml_bytes2 data with
  | Ok d => write_ttml_vtt d
  | Err k => Err k
  | Panic p => Panic p
  end.

(* ---- the written lines in the form the WebVTT round-trip theorem covers (Proofs/ConvTtmlVttProofs.v) ----
   A span whose colour is one of the five is written exactly like a run inside the class tag c.NAME; adjacent spans without
   such a colour are written exactly like one run holding their texts one after the other (the reader cannot tell them
   apart either).  The merge is not done when the second text begins with the byte 0xA0: escaping the two texts apart
   and together could then differ (the no-break space is the two bytes 0xC2 0xA0). *)
Definition tv_cname (r : vrun) : str := match vr_color r with Some c => css_color c | None => [] end.
Definition tv_ctag (name : str) : vtag := mkVtag [99] [] [name].
Definition tv_untagged (r : vrun) : bool := match vr_tags r with None => true | Some _ => false end.
Fixpoint tv_nruns (rs : list vrun) : list vrun :=
  match rs with
  | [] => []
  | r :: rest =>
    match tv_cname r with
    | [] =>
      match tv_nruns rest with
      | r' :: rest' =>
        if tv_untagged r' && negb (hd 0 (vr_text r') =? 160)
        then mkVrun (vr_text r ++ vr_text r') None 0%Z None :: rest'
        else mkVrun (vr_text r) None 0%Z None :: r' :: rest'
      | [] => [mkVrun (vr_text r) None 0%Z None]
      end
    | name => mkVrun (vr_text r) (Some [tv_ctag name]) 0%Z None :: tv_nruns rest
    end
  end.
Definition tv_nline (l : vline) : vline := mkVline (tv_nruns (vl_runs l)) (vl_voice l).
Definition tv_nitem (it : vitem) : vitem :=
  mkVitem (vi_idx it) (vi_st it) (vi_en it) (vi_comments it) (vi_region it) (vi_set it) (vi_fb it) (map tv_nline (vi_lines it)).
Definition tv_norm (d : vdoc) : vdoc := mkVdoc (map tv_nitem (vd_items d)) (vd_regions d) (vd_styles d) (vd_tsmap d).
