(* webvtt.go: ReadFromWebVTT (over the scanner's tokens), parseTextWebVTT, the timestamp map,
   WriteToWebVTT.  Definitions only. *)
From Coq Require Import List ZArith NArith Bool.
From Astisub Require Import Kit.Base Kit.Str Kit.Html Kit.Scan Kit.GoMap Model.Dur Model.Srt.
Import ListNotations.
Open Scope N_scope.

Record vtag := mkVtag { vt_name : str; vt_annot : str; vt_classes : list str }.
(* a run: Text, StartAt, InlineStyle (None = nil; Some tags = WebVTTTags), TTMLColor (writer only) *)
Record vrun := mkVrun { vr_text : str; vr_tags : option (list vtag); vr_time : Z; vr_color : option str }.
Record vline := mkVline { vl_runs : list vrun; vl_voice : str }.
Record vset := mkVset { vs_align : str; vs_line : str; vs_position : str; vs_size : str; vs_vertical : str }.
Definition vset0 : vset := mkVset [] [] [] [] [].
Record vitem := mkVitem {
  vi_idx : Z; vi_st : Z; vi_en : Z; vi_comments : list str;
  vi_region : option str;          (* Region.ID *)
  vi_set : option vset;            (* InlineStyle (None = nil) *)
  vi_fb : option vset;             (* Style.InlineStyle settings used as fall-back by the writer *)
  vi_lines : list vline }.
Record vregattr := mkVregattr { ra_lines : Z; ra_anchor : str; ra_scroll : str; ra_vanchor : str; ra_width : str }.
Definition vregattr0 : vregattr := mkVregattr 0%Z [] [] [] [].
Record vregion := mkVregion { rg_id : str; rg_attr : option vregattr; rg_fb : option vregattr }.
Record vdoc := mkVdoc {
  vd_items : list vitem;
  vd_regions : list (str * vregion);          (* map, by key *)
  vd_styles : list (str * option (list str)); (* map style id -> WebVTTStyles of its inline attributes (None = nil) *)
  vd_tsmap : option (Z * Z) }.                (* Local (ns), MpegTS *)

(* ---- strings.Trim(s, ".") ---- *)
Fixpoint trim_left_byte (c : byte) (s : str) : str :=
  match s with x :: r => if x =? c then trim_left_byte c r else s | [] => [] end.
Definition trim_byte (c : byte) (s : str) : str := rev (trim_left_byte c (rev (trim_left_byte c s))).

(* ---- webVTTRegexpTag on the raw bytes of a start tag ----
   (the pattern of webvtt.go: optional slashes, name, dotted classes, annotation, '>'); modelled on raws without '/' (see [vtt_tag_simple]):
   name = run of bytes that are neither '.' nor white space; classes = the run of non-blank bytes starting
   at a '.', if any; annotation = the rest up to the closing '>' *)
Definition re_ws (c : byte) : bool := (c =? 32) || (c =? 9) || (c =? 10) || (c =? 12) || (c =? 13).
Fixpoint span (p : byte -> bool) (s : str) : str * str :=
  match s with
  | c :: r => if p c then let (a, b) := span p r in (c :: a, b) else ([], s)
  | [] => ([], [])
  end.
Definition vtt_tag_simple (raw : str) : bool :=
  negb (existsb (N.eqb 47) raw) &&
  match raw with 60 :: c :: _ => is_letter c | _ => false end &&
  match rev raw with 62 :: _ => true | _ => false end.
(* returns (name, classes string, annotation) *)
Definition vtt_match_tag (raw : str) : str * str * str :=
  let body := removelast (tl raw) in
  let '(name, r1) := span (fun c => negb ((c =? 46) || re_ws c)) body in
  let '(cls, r2) := match r1 with
                    | 46 :: _ => span (fun c => negb (re_ws c)) r1
                    | _ => ([], r1)
                    end in
  let '(_, r3) := span re_ws r2 in
  (name, cls, r3).

(* ---- inline timestamps: '<' [hours of 2+ digits ':'] mm ':' ss '.' ttt '>' ---- *)
Definition take_digits (s : str) : str * str := span is_digit s.
(* at a position just after '<': Some (timestamp text, rest after '>') *)
Definition match_ts (s : str) : option (str * str) :=
  let '(d1, r1) := take_digits s in
  match r1 with
  | 58 :: r2 =>
    let '(d2, r3) := take_digits r2 in
    match r3 with
    | 58 :: r4 =>   (* hours present: d1 (>= 2 digits) : d2 (2) : d3 (2) . d4 (3) > *)
      let '(d3, r5) := take_digits r4 in
      match r5 with
      | 46 :: r6 =>
        let '(d4, r7) := take_digits r6 in
        match r7 with
        | 62 :: rest =>
          if (Nat.leb 2 (length d1)) && (Nat.eqb (length d2) 2) && (Nat.eqb (length d3) 2) && (Nat.eqb (length d4) 3)
          then Some (d1 ++ [58] ++ d2 ++ [58] ++ d3 ++ [46] ++ d4, rest) else None
        | _ => None
        end
      | _ => None
      end
    | 46 :: r4 =>   (* no hours: d1 (2) : d2 (2) . d4 (3) > *)
      let '(d4, r5) := take_digits r4 in
      match r5 with
      | 62 :: rest =>
        if (Nat.eqb (length d1) 2) && (Nat.eqb (length d2) 2) && (Nat.eqb (length d4) 3)
        then Some (d1 ++ [58] ++ d2 ++ [46] ++ d4, rest) else None
      | _ => None
      end
    | _ => None
    end
  | _ => None
  end.
(* splits a text token at its inline timestamps: text before the first one, then (timestamp, text) pairs *)
Fixpoint split_ts (fuel : nat) (s : str) (cur : str) : str * list (str * str) :=
  match fuel with
  | O => (rev cur ++ s, [])
  | S f =>
    match s with
    | [] => (rev cur, [])
    | 60 :: r =>
      match match_ts r with
      | Some (ts, rest) =>
        let '(seg, more) := split_ts f rest [] in
        (rev cur, (ts, seg) :: more)
      | None => split_ts f r (60 :: cur)
      end
    | c :: r => split_ts f r (c :: cur)
    end
  end.
Definition is_blank (s : str) : bool := match trim_space s with [] => true | _ => false end.
Definition parse_text_token (style : option (list vtag)) (raw : str) : list vrun :=
  match split_ts (S (length raw)) raw [] with
  | (_, []) => [mkVrun (unescape_html raw) style 0%Z None]
  | (before, segs) =>
    (if is_blank before then [] else [mkVrun (unescape_html before) style 0%Z None]) ++
    flat_map (fun p : str * str =>
                let (ts, seg) := p in
                if is_blank seg then []
                else [mkVrun (unescape_html seg) style (match parse_vtt ts with Some v => v | None => 0%Z end) None]) segs
  end.

(* ---- parseTextWebVTT ---- *)
Definition n_v : str := [118].
Fixpoint vtt_toks (ts : list htok) (tags : list vtag) (voice : str) (acc : list vrun) : list vrun * str * list vtag :=
  match ts with
  | [] => (acc, voice, tags)
  | HEnd _ _ :: r => vtt_toks r (removelast tags) voice acc
  | HStart _ _ raw :: r =>
    let '(name, cls, annot) := vtt_match_tag raw in
    let classes := match cls with [] => [] | _ => Str.split [46] (trim_byte 46 cls) end in
    let annotation := match annot with [] => [] | _ => trim_space annot end in
    if str_eqb name n_v then
      vtt_toks r tags (match voice with [] => annotation | _ => voice end) acc
    else vtt_toks r (tags ++ [mkVtag name annotation classes]) voice acc
  | HText raw :: r =>
    vtt_toks r tags voice (acc ++ parse_text_token (match tags with [] => None | _ => Some tags end) raw)
  | _ :: r => vtt_toks r tags voice acc
  end.
Definition parse_text_vtt (line : str) (tags : list vtag) : vline * list vtag :=
  let '(runs, voice, tags') := vtt_toks (tokenize line) tags [] [] in
  (mkVline runs voice, tags').
(* the tags of a line the model reproduces: every start tag is [vtt_tag_simple] *)
Definition vtt_line_simple (line : str) : bool :=
  html_simple line &&
  forallb (fun t => match t with HStart _ _ raw => vtt_tag_simple raw | _ => true end) (tokenize line).

(* ---- X-TIMESTAMP-MAP ---- *)
Definition k_local : str := [108;111;99;97;108].
Definition k_mpegts : str := [109;112;101;103;116;115].
Fixpoint tsmap_parts (parts : list str) (local mp : Z) : option (Z * Z) :=
  match parts with
  | [] => Some (local, mp)
  | p :: r =>
    match cut [58] p with
    | None => None
    | Some (k, v) =>
      let key := to_lower (trim_space k) in
      if str_eqb key k_local then
        match parse_vtt v with Some d => tsmap_parts r d mp | None => None end
      else if str_eqb key k_mpegts then
        match atoi v with Some n => tsmap_parts r local n | None => None end
      else tsmap_parts r local mp
    end
  end.
Definition parse_tsmap (line : str) : option (Z * Z) :=
  match Str.split [61] line with
  | _ :: rhs :: _ => tsmap_parts (Str.split [44] rhs) 0%Z 0%Z
  | _ => None
  end.

(* ---- ReadFromWebVTT ---- *)
Inductive vblock := BNone | BComment | BStyle | BText.
Definition default_style_id : str :=
  [97;115;116;105;115;117;98;45;119;101;98;118;116;116;45;100;101;102;97;117;108;116;45;115;116;121;108;101;45;105;100].
Record vstate := mkVst {
  v_done : list vitem;              (* o.Items but the current one *)
  v_cur : option vitem;             (* None: the dummy item before the first cue *)
  v_pre_lines : nat;                (* number of lines of the dummy item *)
  v_block : vblock;
  v_comments : list str;
  v_index : Z;
  v_tags : list vtag;               (* sa.WebVTTTags *)
  v_styles : option (list str);     (* default style's WebVTTStyles once a STYLE line was seen *)
  v_regions : list (str * vregion);
  v_tsmap : option (Z * Z) }.

Definition p_note : str := [78;79;84;69;32].
Definition p_region : str := [82;101;103;105;111;110;58;32].
Definition p_style : str := [83;84;89;76;69].
Definition p_tsmap : str := [88;45;84;73;77;69;83;84;65;77;80;45;77;65;80].
Definition p_webvtt : str := [87;69;66;86;84;84].
Definition k_id : str := [105;100].  Definition k_lines : str := [108;105;110;101;115].
Definition k_anchor : str := [114;101;103;105;111;110;97;110;99;104;111;114].
Definition k_scroll : str := [115;99;114;111;108;108].
Definition k_vanchor : str := [118;105;101;119;112;111;114;116;97;110;99;104;111;114].
Definition k_width : str := [119;105;100;116;104].
Definition k_align : str := [97;108;105;103;110].  Definition k_line : str := [108;105;110;101].
Definition k_position : str := [112;111;115;105;116;105;111;110].  Definition k_regionk : str := [114;101;103;105;111;110].
Definition k_size : str := [115;105;122;101].  Definition k_vertical : str := [118;101;114;116;105;99;97;108].

Fixpoint aset {V} (k : str) (v : V) (m : list (str * V)) : list (str * V) :=
  match m with
  | [] => [(k, v)]
  | (k', v') :: r => if str_eqb k k' then (k, v) :: r else (k', v') :: aset k v r
  end.
Fixpoint aget {V} (k : str) (m : list (str * V)) : option V :=
  match m with [] => None | (k', v) :: r => if str_eqb k k' then Some v else aget k r end.

Fixpoint region_parts (parts : list str) (id : str) (a : vregattr) : res (str * vregattr) :=
  match parts with
  | [] => Ok (id, a)
  | p :: r =>
    match Str.split [61] p with
    | k :: v :: _ =>
      if str_eqb k k_id then region_parts r v a
      else if str_eqb k k_lines then
        match atoi v with
        | Some n => region_parts r id (mkVregattr n (ra_anchor a) (ra_scroll a) (ra_vanchor a) (ra_width a))
        | None => Err EParse
        end
      else if str_eqb k k_anchor then region_parts r id (mkVregattr (ra_lines a) v (ra_scroll a) (ra_vanchor a) (ra_width a))
      else if str_eqb k k_scroll then region_parts r id (mkVregattr (ra_lines a) (ra_anchor a) v (ra_vanchor a) (ra_width a))
      else if str_eqb k k_vanchor then region_parts r id (mkVregattr (ra_lines a) (ra_anchor a) (ra_scroll a) v (ra_width a))
      else if str_eqb k k_width then region_parts r id (mkVregattr (ra_lines a) (ra_anchor a) (ra_scroll a) (ra_vanchor a) v)
      else region_parts r id a
    | _ => Err EParse
    end
  end.

Fixpoint cue_settings (fs : list str) (regions : list (str * vregion)) (s : vset) (reg : option str) : res (vset * option str) :=
  match fs with
  | [] => Ok (s, reg)
  | f :: r =>
    match Str.split [58] f with
    | k :: v :: _ =>
      if str_eqb k k_align then cue_settings r regions (mkVset v (vs_line s) (vs_position s) (vs_size s) (vs_vertical s)) reg
      else if str_eqb k k_line then cue_settings r regions (mkVset (vs_align s) v (vs_position s) (vs_size s) (vs_vertical s)) reg
      else if str_eqb k k_position then cue_settings r regions (mkVset (vs_align s) (vs_line s) v (vs_size s) (vs_vertical s)) reg
      else if str_eqb k k_regionk then
        match aget v regions with
        | Some rg => cue_settings r regions s (Some (rg_id rg))
        | None => Err EUnknownRef
        end
      else if str_eqb k k_size then cue_settings r regions (mkVset (vs_align s) (vs_line s) (vs_position s) v (vs_vertical s)) reg
      else if str_eqb k k_vertical then cue_settings r regions (mkVset (vs_align s) (vs_line s) (vs_position s) (vs_size s) v) reg
      else cue_settings r regions s reg
    | _ => Err EParse
    end
  end.

Definition close_vcur (s : vstate) : list vitem :=
  match v_cur s with Some it => v_done s ++ [it] | None => v_done s end.
Definition cur_has_lines (s : vstate) : bool :=
  match v_cur s with Some it => match vi_lines it with [] => false | _ => true end | None => negb (Nat.eqb (v_pre_lines s) 0) end.
Definition last_ends_brace (l : list str) : bool :=
  match rev l with
  | [] => true                         (* len(sa.WebVTTStyles) == 0 *)
  | x :: _ => match rev x with 125 :: _ => true | _ => false end
  end.

Definition vtt_step (s : vstate) (raw : str) : res vstate :=
  let line := trim_space raw in
  if negb (utf8_valid line) then Err EParse else
  if has_prefix p_note line then
    Ok (mkVst (v_done s) (v_cur s) (v_pre_lines s) BComment (v_comments s ++ [trim_prefix p_note line]) (v_index s) (v_tags s) (v_styles s) (v_regions s) (v_tsmap s))
  else match line with
  | [] =>
    let keep := match v_block s with
                | BStyle => match v_styles s with Some l => negb (last_ends_brace l) | None => false end
                | _ => false
                end in
    Ok (mkVst (v_done s) (v_cur s) (v_pre_lines s) (if keep then BStyle else BNone) (v_comments s) (v_index s) [] (v_styles s) (v_regions s) (v_tsmap s))
  | _ =>
  if has_prefix p_region line then
    match region_parts (Str.split [32] (trim_prefix p_region line)) [] vregattr0 with
    | Ok (id, a) =>
      Ok (mkVst (v_done s) (v_cur s) (v_pre_lines s) (v_block s) (v_comments s) (v_index s) (v_tags s) (v_styles s)
                (aset id (mkVregion id (Some a) None) (v_regions s)) (v_tsmap s))
    | Err k => Err k
    | Panic p => Panic p
    end
  else if has_prefix p_style line then
    match v_styles s with
    | Some _ => Ok (mkVst (v_done s) (v_cur s) (v_pre_lines s) BStyle (v_comments s) (v_index s) (v_tags s) (v_styles s) (v_regions s) (v_tsmap s))
    | None => Ok (mkVst (v_done s) (v_cur s) (v_pre_lines s) BStyle (v_comments s) (v_index s) [] (Some []) (v_regions s) (v_tsmap s))
    end
  else if contains arrow line then
    match Str.split arrow line with
    | l :: r :: _ =>
      match fields r with
      | [] => Err EParse
      | e :: settings =>
        match parse_vtt l with
        | None => Err EParse
        | Some d0 =>
          match parse_vtt e with
          | None => Err EParse
          | Some d1 =>
            match cue_settings settings (v_regions s) vset0 None with
            | Ok (st, reg) =>
              Ok (mkVst (close_vcur s) (Some (mkVitem (v_index s) d0 d1 (v_comments s) reg (Some st) None [])) (v_pre_lines s)
                        BText [] 0%Z (v_tags s) (v_styles s) (v_regions s) (v_tsmap s))
            | Err k => Err k
            | Panic p => Panic p
            end
          end
        end
      end
    | _ => Err EParse
    end
  else if has_prefix p_tsmap line then
    if cur_has_lines s then Err EParse
    else match parse_tsmap line with
         | Some m => Ok (mkVst (v_done s) (v_cur s) (v_pre_lines s) (v_block s) (v_comments s) (v_index s) (v_tags s) (v_styles s) (v_regions s) (Some m))
         | None => Err EParse
         end
  else
    match v_block s with
    | BComment => Ok (mkVst (v_done s) (v_cur s) (v_pre_lines s) BComment (v_comments s ++ [line]) (v_index s) (v_tags s) (v_styles s) (v_regions s) (v_tsmap s))
    | BStyle => Ok (mkVst (v_done s) (v_cur s) (v_pre_lines s) BStyle (v_comments s) (v_index s) (v_tags s)
                          (match v_styles s with Some l => Some (l ++ [line]) | None => None end) (v_regions s) (v_tsmap s))
    | BText =>
      let '(ln, tags') := parse_text_vtt line (v_tags s) in
      match vl_runs ln with
      | [] => Ok (mkVst (v_done s) (v_cur s) (v_pre_lines s) BText (v_comments s) (v_index s) tags' (v_styles s) (v_regions s) (v_tsmap s))
      | _ =>
        match v_cur s with
        | Some it =>
          Ok (mkVst (v_done s) (Some (mkVitem (vi_idx it) (vi_st it) (vi_en it) (vi_comments it) (vi_region it) (vi_set it) (vi_fb it) (vi_lines it ++ [ln])))
                    (v_pre_lines s) BText (v_comments s) (v_index s) tags' (v_styles s) (v_regions s) (v_tsmap s))
        | None => Ok (mkVst (v_done s) None (S (v_pre_lines s)) BText (v_comments s) (v_index s) tags' (v_styles s) (v_regions s) (v_tsmap s))
        end
      end
    | BNone => Ok (mkVst (v_done s) (v_cur s) (v_pre_lines s) BNone (v_comments s) (atoi_val line) (v_tags s) (v_styles s) (v_regions s) (v_tsmap s))
    end
  end.

Fixpoint vtt_run (s : vstate) (ls : list str) : res vstate :=
  match ls with
  | [] => Ok s
  | l :: r => match vtt_step s l with Ok s' => vtt_run s' r | Err k => Err k | Panic p => Panic p end
  end.
(* the header loop: lines are skipped until one whose first field is WEBVTT *)
Fixpoint vtt_header (ls : list str) : res (list str) :=
  match ls with
  | [] => Ok []
  | l :: r =>
    let l' := trim_prefix bom l in
    if negb (utf8_valid l') then Err EParse
    else match fields l' with
         | f :: _ => if str_eqb f p_webvtt then Ok r else vtt_header r
         | [] => vtt_header r
         end
  end.
Definition vstate0 : vstate := mkVst [] None 0 BNone [] 0%Z [] None [] None.
Definition read_vtt_lines (ls : list str) (scan_err : bool) : res vdoc :=
  match vtt_header ls with
  | Ok body =>
    match vtt_run vstate0 body with
    | Ok s =>
      if scan_err then Err EIO
      else Ok (mkVdoc (close_vcur s) (v_regions s)
                      (match v_styles s with Some l => [(default_style_id, Some l)] | None => [] end) (v_tsmap s))
    | Err k => Err k
    | Panic p => Panic p
    end
  | Err k => Err k
  | Panic p => Panic p
  end.
Definition read_vtt (data : str) : res vdoc := read_vtt_lines (lines data) false.

(* ---- WriteToWebVTT ---- *)
Definition tag_start (t : vtag) : str :=
  match vt_name t with
  | [] => []
  | n => [60] ++ n ++ (match vt_classes t with [] => [] | cs => [46] ++ join [46] cs end)
              ++ (match vt_annot t with [] => [] | a => [32] ++ a end) ++ [62]
  end.
Definition tag_end (t : vtag) : str := match vt_name t with [] => [] | n => [60; 47] ++ n ++ [62] end.
Fixpoint common_prefix (a b : list vtag) : nat :=
  match a, b with
  | x :: a', y :: b' => if str_eqb (tag_start x) (tag_start y) then S (common_prefix a' b') else O
  | _, _ => O
  end.
Definition css_colors : list (str * str) :=
  [([35;48;48;102;102;102;102], [99;121;97;110]); ([35;102;102;102;102;48;48], [121;101;108;108;111;119]);
   ([35;102;102;48;48;48;48], [114;101;100]); ([35;102;102;48;48;102;102], [109;97;103;101;110;116;97]);
   ([35;48;48;102;102;48;48], [108;105;109;101])].
Definition css_color (rgb : str) : str := match aget (to_lower rgb) css_colors with Some c => c | None => [] end.
Definition run_tags (r : vrun) : list vtag := match vr_tags r with Some t => t | None => [] end.
Definition vrun_bytes (prev next : option vrun) (r : vrun) : str :=
  let color := match vr_color r with Some c => css_color c | None => [] end in
  let tags := run_tags r in
  let opened := match prev with Some p => match vr_tags p with Some pt => common_prefix pt tags | None => O end | None => O end in
  let left := match next with Some n => match vr_tags n with Some nt => common_prefix tags nt | None => O end | None => O end in
  (match color with [] => [] | _ => [60;99;46] ++ color ++ [62] end) ++
  concat (map tag_start (skipn opened tags)) ++
  (if (0 <? vr_time r)%Z then [60] ++ format_vtt (vr_time r) ++ [62] else []) ++
  escape_html (vr_text r) ++
  concat (map tag_end (rev (skipn left tags))) ++
  (match color with [] => [] | _ => [60;47;99;62] end).
Fixpoint vruns_bytes (prev : option vrun) (rs : list vrun) : str :=
  match rs with
  | [] => []
  | r :: rest => vrun_bytes prev (match rest with n :: _ => Some n | [] => None end) r ++ vruns_bytes (Some r) rest
  end.
(* strings.ReplaceAll(l.VoiceName, ">", "&gt;"): a '>' would close the voice tag inside the name *)
Definition voice_esc (v : str) : str := flat_map (fun c => if c =? 62 then [38;103;116;59] else [c]) v.
Definition vline_bytes (l : vline) : str :=
  (match vl_voice l with [] => [] | v => [60;118;32] ++ voice_esc v ++ [62] end) ++ vruns_bytes None (vl_runs l) ++ [10].

Definition setting (key : str) (v fb : str) : str :=
  match v with
  | [] => match fb with [] => [] | _ => [32] ++ key ++ [58] ++ fb end
  | _ => [32] ++ key ++ [58] ++ v
  end.
Definition vitem_settings (it : vitem) : str :=
  match vi_set it with
  | None => []
  | Some s =>
    let fb := match vi_fb it with Some f => f | None => vset0 end in
    setting k_align (vs_align s) (vs_align fb) ++ setting k_line (vs_line s) (vs_line fb) ++
    setting k_position (vs_position s) (vs_position fb) ++
    (match vi_region it with Some id => [32] ++ k_regionk ++ [58] ++ id | None => [] end) ++
    setting k_size (vs_size s) (vs_size fb) ++ setting k_vertical (vs_vertical s) (vs_vertical fb)
  end.
Definition reg_setting (key : str) (v fb : str) : str :=
  match v with
  | [] => match fb with [] => [] | _ => [32] ++ key ++ [61] ++ fb end
  | _ => [32] ++ key ++ [61] ++ v
  end.
Definition vregion_bytes (rg : vregion) : str :=
  let a := match rg_attr rg with Some a => a | None => vregattr0 end in
  let fb := match rg_fb rg with Some a => a | None => vregattr0 end in
  [82;101;103;105;111;110;58;32;105;100;61] ++ rg_id rg ++
  (if (ra_lines a =? 0)%Z then (if (ra_lines fb =? 0)%Z then [] else [32] ++ k_lines ++ [61] ++ itoa_z (ra_lines fb))
   else [32] ++ k_lines ++ [61] ++ itoa_z (ra_lines a)) ++
  reg_setting k_anchor (ra_anchor a) (ra_anchor fb) ++ reg_setting k_scroll (ra_scroll a) (ra_scroll fb) ++
  reg_setting k_vanchor (ra_vanchor a) (ra_vanchor fb) ++ reg_setting k_width (ra_width a) (ra_width fb) ++ [10].

(* byte-wise lexicographic order = Go's string order; insertion sort of keys *)
Fixpoint str_leb (a b : str) : bool :=
  match a, b with
  | [], _ => true
  | _ :: _, [] => false
  | x :: a', y :: b' => if x <? y then true else if y <? x then false else str_leb a' b'
  end.
Fixpoint sinsert (x : str) (l : list str) : list str :=
  match l with [] => [x] | y :: r => if str_leb x y then x :: l else y :: sinsert x r end.
Definition ssort (l : list str) : list str := fold_right sinsert [] l.

Fixpoint vitems_bytes (k : nat) (l : list vitem) : str :=
  match l with
  | [] => []
  | it :: r =>
    (match vi_comments it with
     | [] => []
     | cs => p_note ++ concat (map (fun c => c ++ [10]) cs) ++ [10]
     end) ++
    itoa (N.of_nat (S k)) ++ [10] ++ format_vtt (vi_st it) ++ arrow_sp ++ format_vtt (vi_en it) ++ vitem_settings it ++ [10] ++
    concat (map vline_bytes (vi_lines it)) ++ [10] ++ vitems_bytes (S k) r
  end.
Definition tsmap_string (m : Z * Z) : str :=
  p_tsmap ++ [61;76;79;67;65;76;58] ++ format_vtt (fst m) ++ [44;77;80;69;71;84;83;58] ++ itoa_z (snd m).
(* [style_order], [region_order]: ALL the keys of the maps s.Styles and s.Regions, in the order the runtime ranges over
   them.  [vd_styles], [vd_regions] give the value under a key: a key of [region_order] (of [style_order]) whose look-up is
   [None] stands for a nil pointer (nil Region, nil Style); for styles [Some None] is a Style whose InlineStyle is nil.
   webvtt.go:491-565: the keys with a non-nil value are collected and sorted; per KEY the writer takes the value
   s.Styles[key] / s.Regions[key] (the line of a region shows the ID field of that value, which need not be the key);
   after the region lines one empty line is written when len(s.Regions) > 0, nil values included *)
Definition write_vtt (d : vdoc) (style_order region_order : list str) : res str :=
  match vd_items d with
  | [] => Err ENothingToWrite
  | _ =>
    let styles := flat_map (fun id => match aget id (vd_styles d) with Some (Some l) => l | _ => [] end) (ssort style_order) in
    Ok (removelast (
      p_webvtt ++ (match vd_tsmap d with Some m => [10] ++ tsmap_string m | None => [] end) ++ [10;10] ++
      (match styles with [] => [] | _ => p_style ++ [10] ++ join [10] styles ++ [10;10] end) ++
      concat (map (fun k => match aget k (vd_regions d) with Some rg => vregion_bytes rg | None => [] end) (ssort region_order)) ++
      (match region_order with [] => [] | _ => [10] end) ++
      vitems_bytes 0 (vd_items d)))
  end.
