(* webvtt.go, checked transcription: the same reader and writer as Model/Vtt.v with the run-time panic sites of the Go
   code (slice index, slicing, nil dereference) spelled out as checked accesses behind the code's own guards.  Site
   numbers are line numbers of webvtt.go.  Proofs/VttChk.v shows that no site is reachable and that these functions
   agree with the pattern-matching transcription of Model/Vtt.v, on which the fidelity theorems are stated.
   Not re-transcribed (library contracts, see notes/C08.md): the sub-match slices of regexp.FindStringSubmatch /
   FindAllStringSubmatchIndex (vtt_match_tag, split_ts) and map look-ups (never panic).  Definitions only.
   Second audit, N6: x[:len(x)-1] is [slice_to_pred] (Panic on the empty slice; sites 364, 642), and the writer's
   loops over l.Items, tags and the two tag stacks (L656-716) are index loops with one site per index expression. *)
From Coq Require Import List ZArith NArith Bool Arith.
From Astisub Require Import Kit.Base Kit.Str Kit.Html Kit.Scan Kit.GoMap Kit.Chk Model.Dur Model.Srt Model.Vtt.
Import ListNotations.
Open Scope N_scope.

(* ---- parseWebVTTTimestampMap ---- *)
Fixpoint tsmap_parts_c (parts : list str) (local mp : Z) : res (Z * Z) :=
  match parts with
  | [] => Ok (local, mp)
  | p :: r =>
    (* splits := strings.SplitN(split, ":", 2) *)
    let splits := match cut [58] p with Some (k, v) => [k; v] | None => [p] end in
    if Nat.leb (length splits) 1 then Err EParse else
    do k <- index splits 0 91;
    do v <- index splits 1 93;
    let key := to_lower (trim_space k) in
    if str_eqb key k_local then
      match parse_vtt v with Some d => tsmap_parts_c r d mp | None => Err EParse end
    else if str_eqb key k_mpegts then
      match atoi v with Some n => tsmap_parts_c r local n | None => Err EParse end
    else tsmap_parts_c r local mp
  end.
Definition parse_tsmap_c (line : str) : res (Z * Z) :=
  let splits := Str.split [61] line in
  if Nat.leb (length splits) 1 then Err EParse else
  do right <- index splits 1 80;
  tsmap_parts_c (Str.split [44] right) 0%Z 0%Z.

(* ---- Region: lines ---- *)
Fixpoint region_parts_c (parts : list str) (id : str) (a : vregattr) : res (str * vregattr) :=
  match parts with
  | [] => Ok (id, a)
  | p :: r =>
    let split := Str.split [61] p in
    if Nat.leb (length split) 1 then Err EParse else
    do k <- index split 0 187;
    do v <- index split 1 189;
    if str_eqb k k_id then region_parts_c r v a
    else if str_eqb k k_lines then
      match atoi v with
      | Some n => region_parts_c r id (mkVregattr n (ra_anchor a) (ra_scroll a) (ra_vanchor a) (ra_width a))
      | None => Err EParse
      end
    else if str_eqb k k_anchor then region_parts_c r id (mkVregattr (ra_lines a) v (ra_scroll a) (ra_vanchor a) (ra_width a))
    else if str_eqb k k_scroll then region_parts_c r id (mkVregattr (ra_lines a) (ra_anchor a) v (ra_vanchor a) (ra_width a))
    else if str_eqb k k_vanchor then region_parts_c r id (mkVregattr (ra_lines a) (ra_anchor a) (ra_scroll a) v (ra_width a))
    else if str_eqb k k_width then region_parts_c r id (mkVregattr (ra_lines a) (ra_anchor a) (ra_scroll a) (ra_vanchor a) v)
    else region_parts_c r id a
  end.

(* ---- cue settings: for index := 1; index < len(right); index++ { right[index] ... } ---- *)
Fixpoint settings_loop_c (fuel i : nat) (right : list str) (regions : list (str * vregion)) (s : vset) (reg : option str)
  : res (vset * option str) :=
  match fuel with
  | O => Ok (s, reg)
  | S fuel' =>
    if Nat.ltb i (length right) then
      do f <- index right i 261;
      let split := Str.split [58] f in
      if Nat.leb (length split) 1 then Err EParse else
      do k <- index split 0 273;
      do v <- index split 1 275;
      if str_eqb k k_align then settings_loop_c fuel' (S i) right regions (mkVset v (vs_line s) (vs_position s) (vs_size s) (vs_vertical s)) reg
      else if str_eqb k k_line then settings_loop_c fuel' (S i) right regions (mkVset (vs_align s) v (vs_position s) (vs_size s) (vs_vertical s)) reg
      else if str_eqb k k_position then settings_loop_c fuel' (S i) right regions (mkVset (vs_align s) (vs_line s) v (vs_size s) (vs_vertical s)) reg
      else if str_eqb k k_regionk then
        match aget v regions with
        | Some rg => settings_loop_c fuel' (S i) right regions s (Some (rg_id rg))
        | None => Err EUnknownRef
        end
      else if str_eqb k k_size then settings_loop_c fuel' (S i) right regions (mkVset (vs_align s) (vs_line s) (vs_position s) v (vs_vertical s)) reg
      else if str_eqb k k_vertical then settings_loop_c fuel' (S i) right regions (mkVset (vs_align s) (vs_line s) (vs_position s) (vs_size s) v) reg
      else settings_loop_c fuel' (S i) right regions s reg
    else Ok (s, reg)
  end.

(* the time boundaries line: reached only when the line contains "-->" (the guard of left[1]) *)
Definition step_cue_c (s : vstate) (line : str) : res vstate :=
  let left := Str.split arrow line in
  do r <- index left 1 240;
  let right := fields r in
  if Nat.eqb (length right) 0 then Err EParse else
  do l <- index left 0 247;
  match parse_vtt l with
  | None => Err EParse
  | Some d0 =>
    do e <- index right 0 251;
    match parse_vtt e with
    | None => Err EParse
    | Some d1 =>
      do sr <- (if Nat.ltb 1 (length right) then settings_loop_c (length right) 1 right (v_regions s) vset0 None else Ok (vset0, None));
      let '(st, reg) := sr in
      Ok (mkVst (close_vcur s) (Some (mkVitem (v_index s) d0 d1 (v_comments s) reg (Some st) None [])) (v_pre_lines s)
                BText [] 0%Z (v_tags s) (v_styles s) (v_regions s) (v_tsmap s))
    end
  end.

(* len(sa.WebVTTStyles) == 0 || strings.HasSuffix(sa.WebVTTStyles[len(sa.WebVTTStyles)-1], "}") *)
(* [index l (length l - 1) 167] panics on the empty list ([index [] 0]): sound with the nat predecessor *)
Definition last_ends_brace_c (l : list str) : res bool :=
  if Nat.eqb (length l) 0 then Ok true
  else do x <- index l (length l - 1) 167; Ok (match rev x with 125 :: _ => true | _ => false end).

(* ---- parseTextWebVTT: the end tag pops the stack behind "len(sa.WebVTTTags) > 0" ---- *)
(* sa.WebVTTTags = sa.WebVTTTags[:len(sa.WebVTTTags)-1] is [slice_to_pred] (Kit/Chk.v): Panic 364 on the empty stack, as
   Go's [:-1]; the sub-match accesses matches[2..4] (L368-377) sit behind len(matches) > 4 on the result of
   FindStringSubmatch: library contract ([vtt_match_tag]), no site here *)
Fixpoint vtt_toks_c (ts : list htok) (tags : list vtag) (voice : str) (acc : list vrun) : res (list vrun * str * list vtag) :=
  match ts with
  | [] => Ok (acc, voice, tags)
  | HEnd _ _ :: r =>
    if Nat.ltb 0 (length tags) then do tags' <- slice_to_pred tags 364; vtt_toks_c r tags' voice acc
    else vtt_toks_c r tags voice acc
  | HStart _ _ raw :: r =>
    let '(name, cls, annot) := vtt_match_tag raw in
    let classes := match cls with [] => [] | _ => Str.split [46] (trim_byte 46 cls) end in
    let annotation := match annot with [] => [] | _ => trim_space annot end in
    if str_eqb name n_v then
      vtt_toks_c r tags (match voice with [] => annotation | _ => voice end) acc
    else vtt_toks_c r (tags ++ [mkVtag name annotation classes]) voice acc
  | HText raw :: r =>
    vtt_toks_c r tags voice (acc ++ parse_text_token (match tags with [] => None | _ => Some tags end) raw)
  | _ :: r => vtt_toks_c r tags voice acc
  end.
Definition parse_text_vtt_c (line : str) (tags : list vtag) : res (vline * list vtag) :=
  do x <- vtt_toks_c (tokenize line) tags [] [];
  let '(runs, voice, tags') := x in
  Ok (mkVline runs voice, tags').

Definition vtt_step_c (s : vstate) (raw : str) : res vstate :=
  let line := trim_space raw in
  if negb (utf8_valid line) then Err EParse else
  if has_prefix p_note line then
    Ok (mkVst (v_done s) (v_cur s) (v_pre_lines s) BComment (v_comments s ++ [trim_prefix p_note line]) (v_index s) (v_tags s) (v_styles s) (v_regions s) (v_tsmap s))
  else match line with
  | [] =>
    do keep <- (match v_block s with
                | BStyle => match v_styles s with
                            | Some l => do b <- last_ends_brace_c l; Ok (negb b)
                            | None => Ok false
                            end
                | _ => Ok false
                end);
    Ok (mkVst (v_done s) (v_cur s) (v_pre_lines s) (if keep then BStyle else BNone) (v_comments s) (v_index s) [] (v_styles s) (v_regions s) (v_tsmap s))
  | _ =>
  if has_prefix p_region line then
    match region_parts_c (Str.split [32] (trim_prefix p_region line)) [] vregattr0 with
    | Ok (id, a) =>
      Ok (mkVst (v_done s) (v_cur s) (v_pre_lines s) (v_block s) (v_comments s) (v_index s) (v_tags s) (v_styles s)
                (aset id (mkVregion id (Some a) None) (v_regions s)) (v_tsmap s))
    | Err k => Err k
    | Panic p => Panic p
    end
  else if has_prefix p_style line then
    match v_styles s with
    | Some _ => Ok (mkVst (v_done s) (v_cur s) (v_pre_lines s) BStyle (v_comments s) (v_index s) (v_tags s) (v_styles s) (v_regions s) (v_tsmap s))
    | None => Ok (mkVst (v_done s) (v_cur s) (v_pre_lines s) BStyle (v_comments s) (v_index s) [] (Some []) (v_regions s) (v_tsmap s))
    end
  else if contains arrow line then step_cue_c s line
  else if has_prefix p_tsmap line then
    if cur_has_lines s then Err EParse
    else do m <- parse_tsmap_c line;
         Ok (mkVst (v_done s) (v_cur s) (v_pre_lines s) (v_block s) (v_comments s) (v_index s) (v_tags s) (v_styles s) (v_regions s) (Some m))
  else
    match v_block s with
    | BComment => Ok (mkVst (v_done s) (v_cur s) (v_pre_lines s) BComment (v_comments s ++ [line]) (v_index s) (v_tags s) (v_styles s) (v_regions s) (v_tsmap s))
    | BStyle => Ok (mkVst (v_done s) (v_cur s) (v_pre_lines s) BStyle (v_comments s) (v_index s) (v_tags s)
                          (match v_styles s with Some l => Some (l ++ [line]) | None => None end) (v_regions s) (v_tsmap s))
    | BText =>
      do lt <- parse_text_vtt_c line (v_tags s);
      let '(ln, tags') := lt in
      match vl_runs ln with
      | [] => Ok (mkVst (v_done s) (v_cur s) (v_pre_lines s) BText (v_comments s) (v_index s) tags' (v_styles s) (v_regions s) (v_tsmap s))
      | _ =>
        match v_cur s with
        | Some it =>
          Ok (mkVst (v_done s) (Some (mkVitem (vi_idx it) (vi_st it) (vi_en it) (vi_comments it) (vi_region it) (vi_set it) (vi_fb it) (vi_lines it ++ [ln])))
                    (v_pre_lines s) BText (v_comments s) (v_index s) tags' (v_styles s) (v_regions s) (v_tsmap s))
        | None => Ok (mkVst (v_done s) None (S (v_pre_lines s)) BText (v_comments s) (v_index s) tags' (v_styles s) (v_regions s) (v_tsmap s))
        end
      end
    | BNone => Ok (mkVst (v_done s) (v_cur s) (v_pre_lines s) BNone (v_comments s) (atoi_val line) (v_tags s) (v_styles s) (v_regions s) (v_tsmap s))
    end
  end.
Fixpoint vtt_run_c (s : vstate) (ls : list str) : res vstate :=
  match ls with
  | [] => Ok s
  | l :: r => match vtt_step_c s l with Ok s' => vtt_run_c s' r | Err k => Err k | Panic p => Panic p end
  end.
(* if fs := strings.Fields(line); len(fs) > 0 && fs[0] == "WEBVTT" *)
Fixpoint vtt_header_c (ls : list str) : res (list str) :=
  match ls with
  | [] => Ok []
  | l :: r =>
    let l' := trim_prefix bom l in
    if negb (utf8_valid l') then Err EParse
    else let fs := fields l' in
         if Nat.ltb 0 (length fs) then
           do f <- index fs 0 134;
           if str_eqb f p_webvtt then Ok r else vtt_header_c r
         else vtt_header_c r
  end.
Definition read_vtt_lines_c (ls : list str) (scan_err : bool) : res vdoc :=
  match vtt_header_c ls with
  | Ok body =>
    match vtt_run_c vstate0 body with
    | Ok s =>
      if scan_err then Err EIO
      else Ok (mkVdoc (close_vcur s) (v_regions s)
                      (match v_styles s with Some l => [(default_style_id, Some l)] | None => [] end) (v_tsmap s))
    | Err k => Err k
    | Panic p => Panic p
    end
  | Err k => Err k
  | Panic p => Panic p
  end.
Definition read_vtt_c (data : str) : res vdoc := read_vtt_lines_c (lines data) false.

(* ---- WriteToWebVTT: every optional part is dereferenced behind its nil test ---- *)
(* webVTTTagsCommonPrefix (L713-716): for n < len(a) && n < len(b) && a[n].startTag() == b[n].startTag() { n++ }
   an index loop with a[n], b[n] as checked accesses behind the two length tests; n grows at most len(a) times *)
Fixpoint common_prefix_loop_c (fuel n : nat) (a b : list vtag) : res nat :=
  match fuel with
  | O => Ok n
  | S fuel' =>
    if Nat.ltb n (length a) && Nat.ltb n (length b) then
      do x <- index a n 714;
      do y <- index b n 714;
      if str_eqb (tag_start x) (tag_start y) then common_prefix_loop_c fuel' (S n) a b else Ok n
    else Ok n
  end.
Definition common_prefix_c (a b : list vtag) : res nat := common_prefix_loop_c (length a) 0 a b.
(* for idx := alreadyOpened; idx < len(tags); idx++ { c = append(c, tags[idx].startTag()...) }     (L694-696) *)
Fixpoint tags_open_c (fuel idx : nat) (tags : list vtag) : res str :=
  match fuel with
  | O => Ok []
  | S fuel' =>
    if Nat.ltb idx (length tags) then
      do t <- index tags idx 695;
      do rest <- tags_open_c fuel' (S idx) tags;
      Ok (tag_start t ++ rest)
    else Ok []
  end.
(* for idx := len(tags) - 1; idx >= leftOpened; idx-- { c = append(c, tags[idx].endTag()...) }     (L703-705)
   the argument k is idx + 1 for the Go int idx, which runs from len(tags)-1 down and may be -1: k = 0 is idx = -1, and
   -1 >= leftOpened is false because leftOpened >= 0 *)
Fixpoint tags_close_c (k left : nat) (tags : list vtag) : res str :=
  match k with
  | O => Ok []
  | S idx =>
    if Nat.leb left idx then
      do t <- index tags idx 704;
      do rest <- tags_close_c idx left tags;
      Ok (tag_end t ++ rest)
    else Ok []
  end.
(* LineItem.webVTTBytes: li.InlineStyle (tags, colour), previous / next and their InlineStyle *)
Definition vrun_bytes_c (prev next : option vrun) (r : vrun) : res str :=
  do color <- (if is_some (vr_color r) then do c <- deref (vr_color r) 674; Ok (css_color c) else Ok []);
  do tags <- (if is_some (vr_tags r) then deref (vr_tags r) 685 else Ok []);
  do opened <- (if is_some prev then
                  do p <- deref prev 688;
                  if is_some (vr_tags p) then do pt <- deref (vr_tags p) 689; common_prefix_c pt tags else Ok O
                else Ok O);
  do left <- (if is_some next then
                do n <- deref next 691;
                if is_some (vr_tags n) then do nt <- deref (vr_tags n) 692; common_prefix_c tags nt else Ok O
              else Ok O);
  do starts <- tags_open_c (length tags) opened tags;
  do ends <- tags_close_c (length tags) left tags;
  Ok ((match color with [] => [] | _ => [60;99;46] ++ color ++ [62] end) ++
      starts ++
      (if (0 <? vr_time r)%Z then [60] ++ format_vtt (vr_time r) ++ [62] else []) ++
      escape_html (vr_text r) ++
      ends ++
      (match color with [] => [] | _ => [60;47;99;62] end)).
(* Line.webVTTBytes (L656-667):
     for idx := 0; idx < len(l.Items); idx++ {
       if idx > 0 { previous = &l.Items[idx-1] }                 (L659; idx-1 is the Go int predecessor, [idx_pred])
       if idx < len(l.Items)-1 { next = &l.Items[idx+1] }        (L662; a comparison: for len = 0 it is false in Go (idx < -1)
                                                                   and with the nat 0 - 1 = 0 (idx < 0) alike)
       c = append(c, l.Items[idx].webVTTBytes(previous, next)...)   (L664) } *)
Fixpoint vruns_loop_c (fuel idx : nat) (items : list vrun) : res str :=
  match fuel with
  | O => Ok []
  | S fuel' =>
    if Nat.ltb idx (length items) then
      do prev <- (if Nat.ltb 0 idx then do k <- idx_pred idx 659; do p <- index items k 659; Ok (Some p) else Ok None);
      do next <- (if Nat.ltb idx (length items - 1) then do n <- index items (S idx) 662; Ok (Some n) else Ok None);
      do cur <- index items idx 664;
      do x <- vrun_bytes_c prev next cur;
      do y <- vruns_loop_c fuel' (S idx) items;
      Ok (x ++ y)
    else Ok []
  end.
Definition vline_bytes_c (l : vline) : res str :=
  do x <- vruns_loop_c (length (vl_runs l)) 0 (vl_runs l);
  Ok ((match vl_voice l with [] => [] | v => [60;118;32] ++ voice_esc v ++ [62] end) ++ x ++ [10]).
Fixpoint vlines_bytes_c (ls : list vline) : res str :=
  match ls with
  | [] => Ok []
  | l :: t => do x <- vline_bytes_c l; do y <- vlines_bytes_c t; Ok (x ++ y)
  end.
(* item.InlineStyle != nil { ... item.Style != nil && item.Style.InlineStyle != nil ... item.Region != nil } *)
Definition vitem_settings_c (it : vitem) : res str :=
  if is_some (vi_set it) then
    do s <- deref (vi_set it) 588;
    do fb <- (if is_some (vi_fb it) then deref (vi_fb it) 591 else Ok vset0);
    do rg <- (if is_some (vi_region it) then do id <- deref (vi_region it) 611; Ok ([32] ++ k_regionk ++ [58] ++ id) else Ok []);
    Ok (setting k_align (vs_align s) (vs_align fb) ++ setting k_line (vs_line s) (vs_line fb) ++
        setting k_position (vs_position s) (vs_position fb) ++ rg ++
        setting k_size (vs_size s) (vs_size fb) ++ setting k_vertical (vs_vertical s) (vs_vertical fb))
  else Ok [].
(* Regions[id].InlineStyle == nil -> &StyleAttributes{}; Regions[id].Style != nil && .Style.InlineStyle != nil *)
Definition vregion_bytes_c (rg : vregion) : res str :=
  do a <- (if is_some (rg_attr rg) then deref (rg_attr rg) 521 else Ok vregattr0);
  do fb <- (if is_some (rg_fb rg) then deref (rg_fb rg) 529 else Ok vregattr0);
  Ok ([82;101;103;105;111;110;58;32;105;100;61] ++ rg_id rg ++
      (if (ra_lines a =? 0)%Z then (if (ra_lines fb =? 0)%Z then [] else [32] ++ k_lines ++ [61] ++ itoa_z (ra_lines fb))
       else [32] ++ k_lines ++ [61] ++ itoa_z (ra_lines a)) ++
      reg_setting k_anchor (ra_anchor a) (ra_anchor fb) ++ reg_setting k_scroll (ra_scroll a) (ra_scroll fb) ++
      reg_setting k_vanchor (ra_vanchor a) (ra_vanchor fb) ++ reg_setting k_width (ra_width a) (ra_width fb) ++ [10]).
Fixpoint vitems_bytes_c (k : nat) (l : list vitem) : res str :=
  match l with
  | [] => Ok []
  | it :: r =>
    do st <- vitem_settings_c it;
    do body <- vlines_bytes_c (vi_lines it);
    do rest <- vitems_bytes_c (S k) r;
    Ok ((match vi_comments it with
         | [] => []
         | cs => p_note ++ concat (map (fun c => c ++ [10]) cs) ++ [10]
         end) ++
        itoa (N.of_nat (S k)) ++ [10] ++ format_vtt (vi_st it) ++ arrow_sp ++ format_vtt (vi_en it) ++ st ++ [10] ++
        body ++ [10] ++ rest)
  end.
Fixpoint regions_bytes_c (d : vdoc) (ids : list str) : res str :=
  match ids with
  | [] => Ok []
  | id :: r =>
    do x <- (match aget id (vd_regions d) with Some rg => vregion_bytes_c rg | None => Ok [] end);
    do y <- regions_bytes_c d r;
    Ok (x ++ y)
  end.
(* s.Styles[id].InlineStyle != nil *)
Fixpoint styles_c (d : vdoc) (ids : list str) : res (list str) :=
  match ids with
  | [] => Ok []
  | id :: r =>
    do x <- (match aget id (vd_styles d) with
             | Some o => if is_some o then deref o 501 else Ok []
             | None => Ok []
             end);
    do y <- styles_c d r;
    Ok (x ++ y)
  end.
Definition write_vtt_c (d : vdoc) (style_order region_order : list str) : res str :=
  if Nat.eqb (length (vd_items d)) 0 then Err ENothingToWrite
  else
    (* s.Metadata != nil && s.Metadata.WebVTTTimestampMap != nil *)
    do ts <- (if is_some (vd_tsmap d) then do m <- deref (vd_tsmap d) 483; Ok ([10] ++ tsmap_string m) else Ok []);
    do styles <- styles_c d (ssort style_order);
    (* the keys of s.Regions with a non-nil value, sorted; the value is taken under the key (webvtt.go:511-525) *)
    do regs <- regions_bytes_c d (ssort region_order);
    do items <- vitems_bytes_c 0 (vd_items d);
    let c := p_webvtt ++ ts ++ [10;10] ++
             (match styles with [] => [] | _ => p_style ++ [10] ++ join [10] styles ++ [10;10] end) ++
             regs ++ (match region_order with [] => [] | _ => [10] end) ++ items in
    slice_to_pred c 642.

(* Subtitles.Items is a []*Item whose elements may be nil: WriteToWebVTT starts with s.Items = nonNilItems(s.Items)
   (webvtt.go:472), then proceeds as above on the remaining items; [d] carries the other parts of the value *)
Definition write_vtt_items_c (items : list (option vitem)) (d : vdoc) (style_order region_order : list str) : res str :=
  write_vtt_c (mkVdoc (somes items) (vd_regions d) (vd_styles d) (vd_tsmap d)) style_order region_order.
