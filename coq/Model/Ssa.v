(* ssa.go: ReadFromSSAWithOptions (over the scanner's tokens), newSSAStyleFromString, newSSAEventFromString,
   ssaEvent.item, ssaScriptInfo, WriteToSSA; subtitles.go: newColorFromSSAString, Color.SSAString.
   Definitions only (proofs: Proofs/Ssa*.v).

   Conventions.  Go [int]/[time.Duration] are [Z] (Atoi's int64 range check is modelled, duration sums wrap to
   int64); [*T] is [option T]; float64 attributes are fixed-point thousandths in [Z]: the model represents exactly
   the floats that are k/1000 with |k| < 10^15 (and not the negative zero); [parse_float3] answers [None] on every
   other input of strconv.ParseFloat (exponents, hexadecimal, inf/nan, underscores, more than three significant
   fraction digits, syntax errors) and the readers then return [Err EOther], which marks "outside the faithful
   domain of the model" (the harness compares only the result class there).  Inside the domain the contract assumed
   of strconv is: ParseFloat of a plain decimal with at most 15 significant digits followed by FormatFloat('f', 3)
   or FormatFloat('f', -1) prints that decimal again (three decimals / shortest form).
   Maps: [o.Styles] is an association list with unique keys; the writer's [range s.Styles] takes the iteration
   order as an argument. *)
From Coq Require Import Strings.String Strings.Ascii.
From Coq Require Import List ZArith NArith Bool.
From Astisub Require Import Kit.Base Kit.Str Kit.Scan Model.Dur.
Import ListNotations.
Open Scope N_scope.

(* string constants as byte lists *)
Definition s2l (s : string) : str := map (fun a => N_of_ascii a) (list_ascii_of_string s).

(* ---------------------------------------------------------------- values *)
Record acolor := mkAcolor { ac_a : N; ac_b : N; ac_g : N; ac_r : N }.

(* ssaStyle: 4 booleans, 4 colours, 8 floats (thousandths), 6 ints, font name, name *)
Inductive battr := BBold | BItalic | BStrikeout | BUnderline.
Inductive cattr := CBack | COutline | CPrimary | CSecondary.
Inductive fattr := FAlphaLevel | FAngle | FFontSize | FOutline | FScaleX | FScaleY | FShadow | FSpacing.
Inductive iattr := IAlignment | IBorderStyle | IEncoding | IMarginL | IMarginR | IMarginV.
Inductive sattr := AB (b : battr) | AC (c : cattr) | AF (f : fattr) | AI (i : iattr) | AFontName | AName.

Record astyle := mkAstyle {
  ay_name : str; ay_fontname : str;
  ay_bold : option bool; ay_italic : option bool; ay_strikeout : option bool; ay_underline : option bool;
  ay_back : option acolor; ay_outlinec : option acolor; ay_primary : option acolor; ay_secondary : option acolor;
  ay_alpha : option Z; ay_angle : option Z; ay_fontsize : option Z; ay_outline : option Z;
  ay_scalex : option Z; ay_scaley : option Z; ay_shadow : option Z; ay_spacing : option Z;
  ay_alignment : option Z; ay_border : option Z; ay_encoding : option Z;
  ay_ml : option Z; ay_mr : option Z; ay_mv : option Z }.
Definition astyle0 : astyle :=
  mkAstyle [] [] None None None None None None None None None None None None None None None None None None None None None None.

Definition bget (a : battr) (s : astyle) : option bool :=
  match a with BBold => ay_bold s | BItalic => ay_italic s | BStrikeout => ay_strikeout s | BUnderline => ay_underline s end.
Definition cget (a : cattr) (s : astyle) : option acolor :=
  match a with CBack => ay_back s | COutline => ay_outlinec s | CPrimary => ay_primary s | CSecondary => ay_secondary s end.
Definition fget (a : fattr) (s : astyle) : option Z :=
  match a with
  | FAlphaLevel => ay_alpha s | FAngle => ay_angle s | FFontSize => ay_fontsize s | FOutline => ay_outline s
  | FScaleX => ay_scalex s | FScaleY => ay_scaley s | FShadow => ay_shadow s | FSpacing => ay_spacing s
  end.
Definition iget (a : iattr) (s : astyle) : option Z :=
  match a with
  | IAlignment => ay_alignment s | IBorderStyle => ay_border s | IEncoding => ay_encoding s
  | IMarginL => ay_ml s | IMarginR => ay_mr s | IMarginV => ay_mv s
  end.

Definition bset (a : battr) (v : option bool) (s : astyle) : astyle :=
  let '(mkAstyle n fn b i k u cb co cp cs fa fg fs fo fx fy fh fp ia ib ie il ir iv) := s in
  match a with
  | BBold => mkAstyle n fn v i k u cb co cp cs fa fg fs fo fx fy fh fp ia ib ie il ir iv
  | BItalic => mkAstyle n fn b v k u cb co cp cs fa fg fs fo fx fy fh fp ia ib ie il ir iv
  | BStrikeout => mkAstyle n fn b i v u cb co cp cs fa fg fs fo fx fy fh fp ia ib ie il ir iv
  | BUnderline => mkAstyle n fn b i k v cb co cp cs fa fg fs fo fx fy fh fp ia ib ie il ir iv
  end.
Definition cset (a : cattr) (v : option acolor) (s : astyle) : astyle :=
  let '(mkAstyle n fn b i k u cb co cp cs fa fg fs fo fx fy fh fp ia ib ie il ir iv) := s in
  match a with
  | CBack => mkAstyle n fn b i k u v co cp cs fa fg fs fo fx fy fh fp ia ib ie il ir iv
  | COutline => mkAstyle n fn b i k u cb v cp cs fa fg fs fo fx fy fh fp ia ib ie il ir iv
  | CPrimary => mkAstyle n fn b i k u cb co v cs fa fg fs fo fx fy fh fp ia ib ie il ir iv
  | CSecondary => mkAstyle n fn b i k u cb co cp v fa fg fs fo fx fy fh fp ia ib ie il ir iv
  end.
Definition fset (a : fattr) (v : option Z) (s : astyle) : astyle :=
  let '(mkAstyle n fn b i k u cb co cp cs fa fg fs fo fx fy fh fp ia ib ie il ir iv) := s in
  match a with
  | FAlphaLevel => mkAstyle n fn b i k u cb co cp cs v fg fs fo fx fy fh fp ia ib ie il ir iv
  | FAngle => mkAstyle n fn b i k u cb co cp cs fa v fs fo fx fy fh fp ia ib ie il ir iv
  | FFontSize => mkAstyle n fn b i k u cb co cp cs fa fg v fo fx fy fh fp ia ib ie il ir iv
  | FOutline => mkAstyle n fn b i k u cb co cp cs fa fg fs v fx fy fh fp ia ib ie il ir iv
  | FScaleX => mkAstyle n fn b i k u cb co cp cs fa fg fs fo v fy fh fp ia ib ie il ir iv
  | FScaleY => mkAstyle n fn b i k u cb co cp cs fa fg fs fo fx v fh fp ia ib ie il ir iv
  | FShadow => mkAstyle n fn b i k u cb co cp cs fa fg fs fo fx fy v fp ia ib ie il ir iv
  | FSpacing => mkAstyle n fn b i k u cb co cp cs fa fg fs fo fx fy fh v ia ib ie il ir iv
  end.
Definition iset (a : iattr) (v : option Z) (s : astyle) : astyle :=
  let '(mkAstyle n fn b i k u cb co cp cs fa fg fs fo fx fy fh fp ia ib ie il ir iv) := s in
  match a with
  | IAlignment => mkAstyle n fn b i k u cb co cp cs fa fg fs fo fx fy fh fp v ib ie il ir iv
  | IBorderStyle => mkAstyle n fn b i k u cb co cp cs fa fg fs fo fx fy fh fp ia v ie il ir iv
  | IEncoding => mkAstyle n fn b i k u cb co cp cs fa fg fs fo fx fy fh fp ia ib v il ir iv
  | IMarginL => mkAstyle n fn b i k u cb co cp cs fa fg fs fo fx fy fh fp ia ib ie v ir iv
  | IMarginR => mkAstyle n fn b i k u cb co cp cs fa fg fs fo fx fy fh fp ia ib ie il v iv
  | IMarginV => mkAstyle n fn b i k u cb co cp cs fa fg fs fo fx fy fh fp ia ib ie il ir v
  end.
Definition set_fontname (v : str) (s : astyle) : astyle :=
  let '(mkAstyle n fn b i k u cb co cp cs fa fg fs fo fx fy fh fp ia ib ie il ir iv) := s in
  mkAstyle n v b i k u cb co cp cs fa fg fs fo fx fy fh fp ia ib ie il ir iv.
Definition set_name (v : str) (s : astyle) : astyle :=
  let '(mkAstyle n fn b i k u cb co cp cs fa fg fs fo fx fy fh fp ia ib ie il ir iv) := s in
  mkAstyle v fn b i k u cb co cp cs fa fg fs fo fx fy fh fp ia ib ie il ir iv.

(* the style Format names (the ssaStyleFormatName constants); TertiaryColour is read as the outline colour *)
Definition n_tertiary : str := Eval compute in s2l "TertiaryColour".
Definition sattr_name : sattr -> str := Eval compute in fun a =>
  match a with
  | AB BBold => s2l "Bold" | AB BItalic => s2l "Italic"
  | AB BStrikeout => s2l "Strikeout" | AB BUnderline => s2l "Underline"
  | AC CBack => s2l "BackColour" | AC COutline => s2l "OutlineColour"
  | AC CPrimary => s2l "PrimaryColour" | AC CSecondary => s2l "SecondaryColour"
  | AF FAlphaLevel => s2l "AlphaLevel" | AF FAngle => s2l "Angle"
  | AF FFontSize => s2l "Fontsize" | AF FOutline => s2l "Outline"
  | AF FScaleX => s2l "ScaleX" | AF FScaleY => s2l "ScaleY"
  | AF FShadow => s2l "Shadow" | AF FSpacing => s2l "Spacing"
  | AI IAlignment => s2l "Alignment" | AI IBorderStyle => s2l "BorderStyle"
  | AI IEncoding => s2l "Encoding" | AI IMarginL => s2l "MarginL"
  | AI IMarginR => s2l "MarginR" | AI IMarginV => s2l "MarginV"
  | AFontName => s2l "Fontname" | AName => s2l "Name"
  end.
(* the order in which ssaStyle.updateFormat visits the attributes *)
Definition sattrs_update_order : list sattr :=
  [AI IAlignment; AF FAlphaLevel; AF FAngle; AC CBack; AB BBold; AI IBorderStyle; AI IEncoding; AFontName; AF FFontSize;
   AB BItalic; AI IMarginL; AI IMarginR; AI IMarginV; AF FOutline; AC COutline; AC CPrimary; AF FScaleX; AF FScaleY;
   AC CSecondary; AF FShadow; AF FSpacing; AB BStrikeout; AB BUnderline].
Definition sattrs_all : list sattr := AName :: sattrs_update_order.
Fixpoint find_sattr (l : list sattr) (name : str) : option sattr :=
  match l with
  | [] => None
  | a :: r => if str_eqb name (sattr_name a) then Some a else find_sattr r name
  end.
(* the [switch attr] of newSSAStyleFromString *)
Definition sattr_of_name (name : str) : option sattr :=
  if str_eqb name n_tertiary then Some (AC COutline) else find_sattr sattrs_all name.

(* ---------------------------------------------------------------- field codecs *)
(* strconv.ParseInt(s, 16, 64) *)
Definition hex_val (c : byte) : option N :=
  if is_digit c then Some (c - 48)
  else if (97 <=? c) && (c <=? 102) then Some (c - 87)
  else if (65 <=? c) && (c <=? 70) then Some (c - 55)
  else None.
Fixpoint hex_digits (acc : N) (s : str) : option N :=
  match s with
  | [] => Some acc
  | c :: r => match hex_val c with Some d => hex_digits (acc * 16 + d) r | None => None end
  end.
Definition parse_int_hex (s : str) : option Z :=
  let '(neg, ds) := match s with
                    | 45 :: r => (true, r)
                    | 43 :: r => (false, r)
                    | _ => (false, s)
                    end in
  match ds with
  | [] => None
  | _ => match hex_digits 0 ds with
         | None => None
         | Some n =>
           let v := if neg then (- Z.of_N n)%Z else Z.of_N n in
           if ((v <? - max_int64 - 1) || (max_int64 <? v))%Z then None else Some v
         end
  end.

(* newColorFromSSAString: bytes A B G R from bits 24 / 16 / 8 / 0 of the (signed, arithmetically shifted) value *)
Definition byte_of (i : Z) (shift : Z) : N := Z.to_N ((i / 2 ^ shift) mod 256)%Z.
Definition color_of_int (i : Z) : acolor := mkAcolor (byte_of i 24) (byte_of i 16) (byte_of i 8) (byte_of i 0).
Definition amp_h : str := [38; 72].
(* newColorFromSSAColor: "" = no colour; "&H" prefix = hexadecimal, else decimal *)
Definition parse_color (item : str) : res (option acolor) :=
  match item with
  | [] => Ok None
  | _ =>
    match (match prefix amp_h item with Some r => parse_int_hex r | None => atoi item end) with
    | Some i => Ok (Some (color_of_int i))
    | None => Err EParse
    end
  end.
(* Color.SSAString: fmt.Sprintf("%.8x", a<<24 | b<<16 | g<<8 | r) *)
Definition hex_digit (n : N) : byte := if n <? 10 then 48 + n else 87 + n.
Definition hex2 (v : N) : str := [hex_digit ((v / 16) mod 16); hex_digit (v mod 16)].
Definition color_string (c : acolor) : str := hex2 (ac_a c) ++ hex2 (ac_b c) ++ hex2 (ac_g c) ++ hex2 (ac_r c).
Definition format_color (c : acolor) : str := amp_h ++ color_string c.

(* booleans: any integer other than 0 is true; anything else (0, not a number) is false *)
Definition parse_bool (item : str) : bool :=
  match atoi item with Some v => negb (v =? 0)%Z | None => false end.
Definition format_bool (b : bool) : str := if b then [49] else [48].

(* floats as thousandths.  [parse_float3]: plain decimals [+-]digits[.digits] / [+-].digits whose value is a
   multiple of 1/1000 below 10^12 in magnitude and not the negative zero; [None] = outside the model's domain *)
Definition float_bound : Z := 1000000000000000%Z.
Fixpoint span_digits (s : str) : str * str :=
  match s with
  | c :: r => if is_digit c then let (a, b) := span_digits r in (c :: a, b) else ([], s)
  | [] => ([], [])
  end.
Definition digits_val (ds : str) : N := match atoi_digits ds with Some n => n | None => 0 end.
Definition parse_float3 (s : str) : option Z :=
  let '(neg, body) := match s with
                      | 45 :: r => (true, r)
                      | 43 :: r => (false, r)
                      | _ => (false, s)
                      end in
  let '(ip, r1) := span_digits body in
  let frac := match r1 with
              | [] => Some []
              | 46 :: r2 => let '(fp, r3) := span_digits r2 in match r3 with [] => Some fp | _ => None end
              | _ => None
              end in
  match frac with
  | None => None
  | Some fp =>
    match ip ++ fp with
    | [] => None
    | _ =>
      if negb (forallb (N.eqb 48) (skipn 3 fp)) then None
      else
        let f3 := firstn 3 (fp ++ [48; 48; 48]) in
        let v := (Z.of_N (digits_val ip) * 1000 + Z.of_N (digits_val f3))%Z in
        if (float_bound <=? v)%Z then None
        else if neg then (if (v =? 0)%Z then None else Some (- v)%Z) else Some v
    end
  end.
(* strconv.FormatFloat(f, 'f', 3, 64) *)
Definition format_float3 (z : Z) : str :=
  let a := Z.abs_N z in
  (if (z <? 0)%Z then [45] else []) ++ itoa (a / 1000) ++ [46] ++ pad_left 48 3 (itoa (a mod 1000)).
(* strconv.FormatFloat(f, 'f', -1, 64): shortest decimal *)
Fixpoint strip_zeros_rev (s : str) : str := match s with 48 :: r => strip_zeros_rev r | _ => s end.
Definition format_float_short (z : Z) : str :=
  let a := Z.abs_N z in
  let fr := rev (strip_zeros_rev (rev (pad_left 48 3 (itoa (a mod 1000))))) in
  (if (z <? 0)%Z then [45] else []) ++ itoa (a / 1000) ++ match fr with [] => [] | _ => 46 :: fr end.

(* time.Duration arithmetic wraps *)
Definition two63 : Z := 9223372036854775808%Z.
Definition wrap64 (z : Z) : Z := ((z + two63) mod (2 * two63) - two63)%Z.
Definition parse_time (item : str) : option Z :=
  match parse_ssa item with Some t => Some (wrap64 t) | None => None end.

(* ---------------------------------------------------------------- script info *)
Inductive ikey := KCollisions | KOriginalEditing | KOriginalScript | KOriginalTiming | KOriginalTranslation
  | KScriptType | KScriptUpdatedBy | KSynchPoint | KTitle | KUpdateDetails | KWrapStyle.
Inductive nkey := KPlayDepth | KPlayResX | KPlayResY.
Record ainfo := mkAinfo {
  an_comments : list str;
  an_collisions : str; an_oediting : str; an_oscript : str; an_otiming : str; an_otranslation : str;
  an_scripttype : str; an_updatedby : str; an_synchpoint : str; an_title : str; an_updatedetails : str; an_wrapstyle : str;
  an_playdepth : option Z; an_playresx : option Z; an_playresy : option Z;
  an_timer : option Z }.
Definition ainfo0 : ainfo := mkAinfo [] [] [] [] [] [] [] [] [] [] [] [] None None None None.
Definition kget (k : ikey) (b : ainfo) : str :=
  match k with
  | KCollisions => an_collisions b | KOriginalEditing => an_oediting b | KOriginalScript => an_oscript b
  | KOriginalTiming => an_otiming b | KOriginalTranslation => an_otranslation b | KScriptType => an_scripttype b
  | KScriptUpdatedBy => an_updatedby b | KSynchPoint => an_synchpoint b | KTitle => an_title b
  | KUpdateDetails => an_updatedetails b | KWrapStyle => an_wrapstyle b
  end.
Definition kset (k : ikey) (v : str) (b : ainfo) : ainfo :=
  let '(mkAinfo cm co oe os ot ol st ub sp ti ud ws pd px py tm) := b in
  match k with
  | KCollisions => mkAinfo cm v oe os ot ol st ub sp ti ud ws pd px py tm
  | KOriginalEditing => mkAinfo cm co v os ot ol st ub sp ti ud ws pd px py tm
  | KOriginalScript => mkAinfo cm co oe v ot ol st ub sp ti ud ws pd px py tm
  | KOriginalTiming => mkAinfo cm co oe os v ol st ub sp ti ud ws pd px py tm
  | KOriginalTranslation => mkAinfo cm co oe os ot v st ub sp ti ud ws pd px py tm
  | KScriptType => mkAinfo cm co oe os ot ol v ub sp ti ud ws pd px py tm
  | KScriptUpdatedBy => mkAinfo cm co oe os ot ol st v sp ti ud ws pd px py tm
  | KSynchPoint => mkAinfo cm co oe os ot ol st ub v ti ud ws pd px py tm
  | KTitle => mkAinfo cm co oe os ot ol st ub sp v ud ws pd px py tm
  | KUpdateDetails => mkAinfo cm co oe os ot ol st ub sp ti v ws pd px py tm
  | KWrapStyle => mkAinfo cm co oe os ot ol st ub sp ti ud v pd px py tm
  end.
Definition nget (k : nkey) (b : ainfo) : option Z :=
  match k with KPlayDepth => an_playdepth b | KPlayResX => an_playresx b | KPlayResY => an_playresy b end.
Definition nset (k : nkey) (v : option Z) (b : ainfo) : ainfo :=
  let '(mkAinfo cm co oe os ot ol st ub sp ti ud ws pd px py tm) := b in
  match k with
  | KPlayDepth => mkAinfo cm co oe os ot ol st ub sp ti ud ws v px py tm
  | KPlayResX => mkAinfo cm co oe os ot ol st ub sp ti ud ws pd v py tm
  | KPlayResY => mkAinfo cm co oe os ot ol st ub sp ti ud ws pd px v tm
  end.
Definition set_timer (v : option Z) (b : ainfo) : ainfo :=
  let '(mkAinfo cm co oe os ot ol st ub sp ti ud ws pd px py tm) := b in
  mkAinfo cm co oe os ot ol st ub sp ti ud ws pd px py v.
Definition add_comment (c : str) (b : ainfo) : ainfo :=
  let '(mkAinfo cm co oe os ot ol st ub sp ti ud ws pd px py tm) := b in
  mkAinfo (cm ++ [c]) co oe os ot ol st ub sp ti ud ws pd px py tm.

Definition ikey_name : ikey -> str := Eval compute in fun k =>
  match k with
  | KCollisions => s2l "Collisions" | KOriginalEditing => s2l "Original Editing"
  | KOriginalScript => s2l "Original Script" | KOriginalTiming => s2l "Original Timing"
  | KOriginalTranslation => s2l "Original Translation" | KScriptType => s2l "ScriptType"
  | KScriptUpdatedBy => s2l "Script Updated By" | KSynchPoint => s2l "Synch Point"
  | KTitle => s2l "Title" | KUpdateDetails => s2l "Update Details"
  | KWrapStyle => s2l "WrapStyle"
  end.
Definition nkey_name : nkey -> str := Eval compute in fun k =>
  match k with
  | KPlayDepth => s2l "PlayDepth" | KPlayResX => s2l "PlayResX"
  | KPlayResY => s2l "PlayResY"
  end.
Definition n_timer : str := Eval compute in s2l "Timer".
Definition ikeys_all : list ikey :=
  [KCollisions; KOriginalEditing; KOriginalScript; KOriginalTiming; KOriginalTranslation; KScriptType; KScriptUpdatedBy;
   KSynchPoint; KTitle; KUpdateDetails; KWrapStyle].
Definition nkeys_all : list nkey := [KPlayDepth; KPlayResX; KPlayResY].
Fixpoint find_ikey (l : list ikey) (h : str) : option ikey :=
  match l with [] => None | k :: r => if str_eqb h (ikey_name k) then Some k else find_ikey r h end.
Fixpoint find_nkey (l : list nkey) (h : str) : option nkey :=
  match l with [] => None | k :: r => if str_eqb h (nkey_name k) then Some k else find_nkey r h end.

Definition comma_to_dot (s : str) : str := map (fun c => if c =? 44 then 46 else c) s.
Definition dot_to_comma (s : str) : str := map (fun c => if c =? 46 then 44 else c) s.

(* ssaScriptInfo.parse *)
Definition info_parse (b : ainfo) (header content : str) : res ainfo :=
  match find_ikey ikeys_all header with
  | Some k => Ok (kset k content b)
  | None =>
    match find_nkey nkeys_all header with
    | Some k => match atoi content with Some v => Ok (nset k (Some v) b) | None => Err EParse end
    | None =>
      if str_eqb header n_timer then
        match parse_float3 (comma_to_dot content) with
        | Some v => Ok (set_timer (Some v) b)
        | None => Err EOther          (* outside the float domain of the model (or a ParseFloat error) *)
        end
      else Ok b
    end
  end.

Definition nl : str := [10].
Definition colon_sp : str := [58; 32].
Definition info_line (name value : str) : str := name ++ colon_sp ++ value ++ nl.
Definition info_str_line (k : ikey) (b : ainfo) : str :=
  match kget k b with [] => [] | v => info_line (ikey_name k) v end.
Definition info_num_line (k : nkey) (b : ainfo) : str :=
  match nget k b with None => [] | Some v => info_line (nkey_name k) (itoa_z v) end.
Definition n_script_info_hdr : str := Eval compute in s2l "[Script Info]".
(* ssaScriptInfo.bytes *)
Definition info_bytes (b : ainfo) : str :=
  n_script_info_hdr ++ nl ++
  concat (map (fun c => [59; 32] ++ c ++ nl) (an_comments b)) ++
  info_str_line KCollisions b ++ info_str_line KOriginalEditing b ++ info_str_line KOriginalScript b ++
  info_str_line KOriginalTiming b ++ info_str_line KOriginalTranslation b ++
  info_num_line KPlayDepth b ++ info_num_line KPlayResX b ++ info_num_line KPlayResY b ++
  info_str_line KScriptType b ++ info_str_line KScriptUpdatedBy b ++ info_str_line KSynchPoint b ++
  (match an_timer b with None => [] | Some t => info_line n_timer (dot_to_comma (format_float_short t)) end) ++
  info_str_line KTitle b ++ info_str_line KUpdateDetails b ++ info_str_line KWrapStyle b.

(* ---------------------------------------------------------------- style rows *)
Definition comma : byte := 44.
(* one column of newSSAStyleFromString's loop *)
Definition style_cell (attr item : str) (s : astyle) : res astyle :=
  match sattr_of_name attr with
  | None => Ok s
  | Some (AB a) => match item with [] => Ok s | _ => Ok (bset a (Some (parse_bool item)) s) end
  | Some (AC a) => match parse_color item with
                   | Ok c => Ok (cset a c s)
                   | Err k => Err k
                   | Panic p => Panic p
                   end
  | Some (AF a) => match item with
                   | [] => Ok s
                   | _ => match parse_float3 item with Some v => Ok (fset a (Some v) s) | None => Err EOther end
                   end
  | Some (AI a) => match item with
                   | [] => Ok s
                   | _ => match atoi item with Some v => Ok (iset a (Some v) s) | None => Err EParse end
                   end
  | Some AFontName => Ok (set_fontname item s)
  | Some AName => Ok (set_name item s)
  end.
Fixpoint style_cells (fmt items : list str) (s : astyle) : res astyle :=
  match fmt, items with
  | a :: fr, it :: ir => match style_cell a it s with
                         | Ok s' => style_cells fr ir s'
                         | Err k => Err k
                         | Panic p => Panic p
                         end
  | _, _ => Ok s
  end.
(* newSSAStyleFromString; [fmt] = the Format map (keys 0..n-1) as a list *)
Definition style_from_string (content : str) (fmt : list str) : res astyle :=
  let items := split_byte comma content in
  if Nat.eqb (length items) (length fmt) then style_cells fmt items astyle0
  else Err EParse.     (* fewer items than the format, or an index that is not in the format *)

(* ssaStyle.updateFormat over one style; formats are lists of attributes (the writer only names known ones) *)
Definition sattr_eqb (a b : sattr) : bool := str_eqb (sattr_name a) (sattr_name b).
Definition sattr_present (a : sattr) (s : astyle) : bool :=
  match a with
  | AB x => match bget x s with Some _ => true | None => false end
  | AC x => match cget x s with Some _ => true | None => false end
  | AF x => match fget x s with Some _ => true | None => false end
  | AI x => match iget x s with Some _ => true | None => false end
  | AFontName => match ay_fontname s with [] => false | _ => true end
  | AName => false
  end.
Definition update_format (s : astyle) (fmt : list sattr) : list sattr :=
  fold_left (fun f a => if sattr_present a s && negb (existsb (sattr_eqb a) f) then f ++ [a] else f)
            sattrs_update_order fmt.
(* one cell of ssaStyle.string *)
Definition style_cell_string (a : sattr) (s : astyle) : option str :=
  match a with
  | AB x => Some (match bget x s with Some b => format_bool b | None => [] end)
  | AC x => Some (match cget x s with Some c => format_color c | None => [] end)
  | AF x => Some (match fget x s with Some f => format_float3 f | None => [] end)
  | AI x => Some (match iget x s with Some i => itoa_z i | None => [] end)
  | AFontName => Some (ay_fontname s)
  | AName => None       (* not a case of the switch: the name is always the first cell *)
  end.
Fixpoint opt_cells {A} (l : list (option A)) : list A :=
  match l with [] => [] | Some x :: r => x :: opt_cells r | None :: r => opt_cells r end.
Definition style_string (s : astyle) (fmt : list sattr) : str :=
  join [comma] (ay_name s :: opt_cells (map (fun a => style_cell_string a s) fmt)).

(* ---------------------------------------------------------------- events *)
Inductive eattr := EEffect | EEnd | ELayer | EMarginL | EMarginR | EMarginV | EMarked | EName | EStart | EStyle | EText.
Definition eattr_name : eattr -> str := Eval compute in fun a =>
  match a with
  | EEffect => s2l "Effect" | EEnd => s2l "End" | ELayer => s2l "Layer"
  | EMarginL => s2l "MarginL" | EMarginR => s2l "MarginR"
  | EMarginV => s2l "MarginV" | EMarked => s2l "Marked" | EName => s2l "Name"
  | EStart => s2l "Start" | EStyle => s2l "Style" | EText => s2l "Text"
  end.
Definition eattrs_all : list eattr := [EEffect; EEnd; ELayer; EMarginL; EMarginR; EMarginV; EMarked; EName; EStart; EStyle; EText].
Fixpoint find_eattr (l : list eattr) (name : str) : option eattr :=
  match l with [] => None | a :: r => if str_eqb name (eattr_name a) then Some a else find_eattr r name end.
Definition eattr_of_name (name : str) : option eattr := find_eattr eattrs_all name.

(* ssaEvent *)
Record aevent := mkAevent {
  av_category : str; av_effect : str; av_end : Z; av_layer : option Z; av_marked : option bool;
  av_ml : option Z; av_mr : option Z; av_mv : option Z; av_name : str; av_start : Z; av_style : str; av_text : str }.
Definition aevent0 (cat : str) : aevent := mkAevent cat [] 0%Z None None None None None [] 0%Z [] [].
Definition n_star_default : str := Eval compute in s2l "*Default".
Definition n_default : str := Eval compute in s2l "Default".
Definition n_marked1 : str := Eval compute in s2l "Marked=1".
Definition n_marked0 : str := Eval compute in s2l "Marked=0".
Definition n_dialogue : str := Eval compute in s2l "Dialogue".

Definition event_cell (attr item : str) (e : aevent) : res aevent :=
  let '(mkAevent cat eff en lay mk ml mr mv nm st sty tx) := e in
  match eattr_of_name attr with
  | None => Ok e
  | Some EStart => match parse_time item with Some d => Ok (mkAevent cat eff en lay mk ml mr mv nm d sty tx) | None => Err EParse end
  | Some EEnd => match parse_time item with Some d => Ok (mkAevent cat eff d lay mk ml mr mv nm st sty tx) | None => Err EParse end
  | Some ELayer => match atoi item with Some v => Ok (mkAevent cat eff en (Some v) mk ml mr mv nm st sty tx) | None => Err EParse end
  | Some EMarginL => match atoi item with Some v => Ok (mkAevent cat eff en lay mk (Some v) mr mv nm st sty tx) | None => Err EParse end
  | Some EMarginR => match atoi item with Some v => Ok (mkAevent cat eff en lay mk ml (Some v) mv nm st sty tx) | None => Err EParse end
  | Some EMarginV => match atoi item with Some v => Ok (mkAevent cat eff en lay mk ml mr (Some v) nm st sty tx) | None => Err EParse end
  | Some EEffect => Ok (mkAevent cat item en lay mk ml mr mv nm st sty tx)
  | Some EName => Ok (mkAevent cat eff en lay mk ml mr mv item st sty tx)
  | Some EStyle => Ok (mkAevent cat eff en lay mk ml mr mv nm st (if str_eqb item n_star_default then n_default else item) tx)
  | Some EText => Ok (mkAevent cat eff en lay mk ml mr mv nm st sty (trim_space item))
  | Some EMarked => Ok (mkAevent cat eff en lay (Some (str_eqb item n_marked1)) ml mr mv nm st sty tx)
  end.
Fixpoint event_cells (fmt items : list str) (e : aevent) : res aevent :=
  match fmt, items with
  | a :: fr, it :: ir => match event_cell a it e with
                         | Ok e' => event_cells fr ir e'
                         | Err k => Err k
                         | Panic p => Panic p
                         end
  | _, _ => Ok e
  end.
(* the surplus commas belong to the last column *)
Definition fold_last (n : nat) (items : list str) : list str :=
  firstn (n - 1) items ++ [join [comma] (skipn (n - 1) items)].
(* newSSAEventFromString *)
Definition event_from_string (header content : str) (fmt : list str) : res aevent :=
  let items := split_byte comma content in
  let n := length fmt in
  if Nat.ltb (length items) n then Err EParse
  else match n with
       | O => Panic 1      (* items[len(format)-1] with an empty format; the reader checks len(format) before *)
       | _ => event_cells fmt (fold_last n items) (aevent0 header)
       end.

(* ---- ssaRegexpEffect = \{[^\{]+\}: leftmost, the class is greedy ---- *)
Definition LB : byte := 123.
Definition RB : byte := 125.
Fixpoint span_nolb (s : str) : str * str :=
  match s with
  | c :: r => if c =? LB then ([], s) else let (a, b) := span_nolb r in (c :: a, b)
  | [] => ([], [])
  end.
(* [Some (x, y)]: s = x ++ "}" ++ y with no "}" in y *)
Fixpoint split_last_rb (s : str) : option (str * str) :=
  match s with
  | [] => None
  | c :: r => match split_last_rb r with
              | Some (x, y) => Some (c :: x, y)
              | None => if c =? RB then Some ([], r) else None
              end
  end.
(* a match starting at a "{" whose remainder is [r]: Some (block, rest after the block) *)
Definition match_block (r : str) : option (str * str) :=
  let (run, rest) := span_nolb r in
  match split_last_rb run with
  | Some (c :: x, y) => Some (LB :: c :: x ++ [RB], y ++ rest)
  | _ => None
  end.
(* FindAllStringIndex as pieces: (text before the first block, [(block, text up to the next block)]) *)
Fixpoint seg_fuel (fuel : nat) (s : str) (cur : str) : str * list (str * str) :=
  match fuel with
  | O => (rev cur ++ s, [])
  | S f =>
    match s with
    | [] => (rev cur, [])
    | c :: r =>
      if c =? LB then
        match match_block r with
        | Some (blk, rest) => let (t, more) := seg_fuel f rest [] in (rev cur, (blk, t) :: more)
        | None => seg_fuel f r (c :: cur)
        end
      else seg_fuel f r (c :: cur)
    end
  end.
Definition segments (s : str) : str * list (str * str) := seg_fuel (S (length s)) s [].

(* Item / Line / LineItem as far as SSA is concerned *)
Record arun := mkArun { ar_text : str; ar_eff : option str }.        (* InlineStyle: nil | SSAEffect *)
Record aline := mkAline { al_voice : str; al_runs : list arun }.
Record aevattr := mkAevattr { ae_effect : str; ae_layer : option Z; ae_ml : option Z; ae_mr : option Z; ae_mv : option Z;
                              ae_marked : option bool }.
Record aitem := mkAitem { ai_start : Z; ai_end : Z; ai_style : option str;    (* Style: nil | the style's ID *)
                          ai_inl : option aevattr; ai_lines : list aline }.

Definition line_runs (s : str) : list arun :=
  match segments s with
  | (pre, []) => [mkArun pre None]
  | (pre, bs) => (match pre with [] => [] | _ => [mkArun pre None] end) ++
                 map (fun p : str * str => mkArun (snd p) (Some (fst p))) bs
  end.
(* strings.ReplaceAll(text, "\\N", "\\n") *)
Definition BSL : byte := 92.
Fixpoint repl_N (s : str) : str :=
  match s with
  | [] => []
  | c :: r => match r with
              | d :: r' => if (c =? BSL) && (d =? 78) then BSL :: 110 :: repl_N r' else c :: repl_N r
              | [] => [c]
              end
  end.
Definition bsl_n : str := [92; 110].
Definition text_lines (name text : str) : list aline :=
  map (fun s => mkAline name (line_runs (trim_space s))) (Str.split bsl_n (repl_N text)).

(* o.Styles: association list with unique keys, in order of first insertion *)
Fixpoint sm_mem {V} (k : str) (m : list (str * V)) : bool :=
  match m with [] => false | (k', _) :: r => str_eqb k k' || sm_mem k r end.
Fixpoint sm_get {V} (k : str) (m : list (str * V)) : option V :=
  match m with [] => None | (k', v) :: r => if str_eqb k k' then Some v else sm_get k r end.
Fixpoint sm_set {V} (k : str) (v : V) (m : list (str * V)) : list (str * V) :=
  match m with
  | [] => [(k, v)]
  | (k', v') :: r => if str_eqb k k' then (k, v) :: r else (k', v') :: sm_set k v r
  end.

(* ssaEvent.item *)
Definition star : str := [42].
Definition event_item (e : aevent) (styles : list (str * option astyle)) : aitem :=
  let sty := match av_style e with
             | [] => None
             | n => if sm_mem n styles then Some n
                    else let n' := trim_prefix star n in if sm_mem n' styles then Some n' else None
             end in
  mkAitem (av_start e) (av_end e) sty
          (Some (mkAevattr (av_effect e) (av_layer e) (av_ml e) (av_mr e) (av_mv e) (av_marked e)))
          (text_lines (av_name e) (av_text e)).

(* newSSAEventFromItem *)
Definition run_string (r : arun) : str := (match ar_eff r with Some e => e | None => [] end) ++ ar_text r.
Definition line_string (l : aline) : str := concat (map run_string (al_runs l)).
Definition item_name (ls : list aline) : str :=
  fold_left (fun n l => match al_voice l with [] => n | v => v end) ls [].
Definition item_text_ssa (ls : list aline) : str := join bsl_n (map line_string ls).
Definition event_of_item (i : aitem) : aevent :=
  let a := match ai_inl i with Some a => a | None => mkAevattr [] None None None None None end in
  mkAevent n_dialogue (ae_effect a) (ai_end i) (ae_layer a) (ae_marked a) (ae_ml a) (ae_mr a) (ae_mv a)
           (item_name (ai_lines i)) (ai_start i) (match ai_style i with Some n => n | None => [] end)
           (item_text_ssa (ai_lines i)).
(* strings.ReplaceAll(e.name, ",", ";"): a comma in the speaker name would shift the columns of the row *)
Definition name_cell (n : str) : str := map (fun c => if c =? 44 then 59 else c) n.
(* one cell of ssaEvent.string *)
Definition oz (v : option Z) : Z := match v with Some z => z | None => 0%Z end.
Definition event_cell_string (a : eattr) (e : aevent) : str :=
  match a with
  | EEnd => format_ssa (av_end e) | EStart => format_ssa (av_start e)
  | EMarked => match av_marked e with Some true => n_marked1 | _ => n_marked0 end
  | ELayer => itoa_z (oz (av_layer e)) | EMarginL => itoa_z (oz (av_ml e))
  | EMarginR => itoa_z (oz (av_mr e)) | EMarginV => itoa_z (oz (av_mv e))
  | EEffect => av_effect e | EName => name_cell (av_name e) | EStyle => av_style e | EText => av_text e
  end.
Definition event_string (e : aevent) (fmt : list eattr) : str :=
  join [comma] (map (fun a => event_cell_string a e) fmt).

(* ---------------------------------------------------------------- the reader *)
Inductive asect := SNone | SEvents | SInfo | SStyles | SUnknown.
Record rstate := mkRstate { rs_sect : asect; rs_fmt : list str; rs_info : ainfo;
                            rs_styles : list astyle; rs_events : list aevent }.
Definition rstate0 : rstate := mkRstate SNone [] ainfo0 [] [].

(* strings.ToLower as far as the comparison with the ASCII section names can tell: ASCII letters, and the two
   non-ASCII letters whose lower case is ASCII (U+0130 -> i, U+212A -> k) *)
Fixpoint ssa_lower (s : str) : str :=
  match s with
  | [] => []
  | c :: r =>
    match r with
    | d :: r' =>
      if (c =? 196) && (d =? 176) then 105 :: ssa_lower r'
      else match r' with
           | e :: r'' => if (c =? 226) && (d =? 132) && (e =? 170) then 107 :: ssa_lower r''
                         else to_lower_byte c :: ssa_lower r
           | [] => to_lower_byte c :: ssa_lower r
           end
    | [] => [to_lower_byte c]
    end
  end.
Definition n_events : str := Eval compute in s2l "events".
Definition n_script_info : str := Eval compute in s2l "script info".
Definition n_v4_styles : str := Eval compute in s2l "v4 styles".
Definition n_v4p_styles : str := Eval compute in s2l "v4+ styles".
Definition n_v4_stylesp : str := Eval compute in s2l "v4 styles+".
Definition n_format : str := Eval compute in s2l "Format".
Definition section_of (inner : str) : asect :=
  let l := ssa_lower inner in
  if str_eqb l n_events then SEvents
  else if str_eqb l n_script_info then SInfo
  else if str_eqb l n_v4_styles || str_eqb l n_v4p_styles || str_eqb l n_v4_stylesp then SStyles
  else SUnknown.
(* "[...]": Some (text between the brackets) *)
Definition bracketed (line : str) : option str :=
  match line with
  | 91 :: r => match rev r with 93 :: m => Some (rev m) | _ => None end
  | _ => None
  end.
(* a Format line overwrites the entries 0..k-1 of the map; the map is emptied by section headers only *)
Definition overlay (new old : list str) : list str := new ++ skipn (length new) old.

(* one (trimmed, non-empty) line *)
Definition ssa_line (s : rstate) (line : str) : res rstate :=
  let '(mkRstate sect fmt info sts evs) := s in
  match bracketed line with
  | Some inner =>
    match section_of inner with
    | SEvents => Ok (mkRstate SEvents [] info sts evs)
    | SInfo => Ok (mkRstate SInfo fmt info sts evs)
    | SStyles => Ok (mkRstate SStyles [] info sts evs)
    | _ => Ok (mkRstate SUnknown fmt info sts evs)
    end
  | None =>
    match sect with
    | SUnknown => Ok s
    | _ =>
      match line with
      | 59 :: c => Ok (mkRstate sect fmt (add_comment (trim_space c) info) sts evs)
      | _ =>
        match split_byte 58 line with
        | h :: ((_ :: _) as rest) =>
          match h with
          | [] => Ok s                 (* invalid line *)
          | _ =>
            let header := trim_space h in
            let content := trim_space (join [58] rest) in
            match sect with
            | SInfo => match info_parse info header content with
                       | Ok info' => Ok (mkRstate sect fmt info' sts evs)
                       | Err k => Err k
                       | Panic p => Panic p
                       end
            | SEvents | SStyles =>
              if str_eqb header n_format then
                Ok (mkRstate sect (overlay (map trim_space (split_byte comma content)) fmt) info sts evs)
              else
                match fmt with
                | [] => Err EParse      (* no format provided *)
                | _ =>
                  match sect with
                  | SEvents => match event_from_string header content fmt with
                               | Ok e => Ok (mkRstate sect fmt info sts (evs ++ [e]))
                               | Err k => Err k
                               | Panic p => Panic p
                               end
                  | _ => match style_from_string content fmt with
                         | Ok st => Ok (mkRstate sect fmt info (sts ++ [st]) evs)
                         | Err k => Err k
                         | Panic p => Panic p
                         end
                  end
                end
            | _ => Ok s
            end
          end
        | _ => Ok s                    (* invalid line: no ':' *)
        end
      end
    end
  end.

Definition bom3 : str := [239; 187; 191].
Definition ssa_step (s : rstate) (first : bool) (raw : str) : res rstate :=
  let line0 := trim_space raw in
  let line := if first then trim_prefix bom3 line0 else line0 in
  match line with
  | [] => Ok s
  | _ => ssa_line s line
  end.
Fixpoint ssa_run (s : rstate) (first : bool) (ls : list str) : res rstate :=
  match ls with
  | [] => Ok s
  | l :: r => match ssa_step s first l with
              | Ok s' => ssa_run s' false r
              | Err k => Err k
              | Panic p => Panic p
              end
  end.

(* Subtitles as far as SSA is concerned *)
Record adoc := mkAdoc { ad_meta : option ainfo; ad_styles : list (str * option astyle); ad_items : list aitem }.

Definition styles_map (sts : list astyle) : list (str * option astyle) :=
  fold_left (fun m st => sm_set (ay_name st) (Some st) m) sts [].
Definition is_dialogue (e : aevent) : bool := str_eqb (av_category e) n_dialogue.
Definition finish (s : rstate) : adoc :=
  let m := styles_map (rs_styles s) in
  mkAdoc (Some (rs_info s)) m (map (fun e => event_item e m) (filter is_dialogue (rs_events s))).
(* [scan_err]: the scanner stopped on a read error or an over-long line *)
Definition read_ssa_lines (ls : list str) (scan_err : bool) : res adoc :=
  match ssa_run rstate0 true ls with
  | Ok s => if scan_err then Err EIO else Ok (finish s)
  | Err k => Err k
  | Panic p => Panic p
  end.
Definition read_ssa (data : str) : res adoc := read_ssa_lines (lines data) false.

(* ---------------------------------------------------------------- the writer *)
(* sort.Strings: byte-wise lexicographic insertion sort (any sorting algorithm gives the same list) *)
Fixpoint str_leb (a b : str) : bool :=
  match a, b with
  | [], _ => true
  | _ :: _, [] => false
  | x :: a', y :: b' => if x <? y then true else if y <? x then false else str_leb a' b'
  end.
Fixpoint sinsert (x : str) (l : list str) : list str :=
  match l with
  | [] => [x]
  | y :: r => if str_leb x y then x :: l else y :: sinsert x r
  end.
Definition ssort (l : list str) : list str := fold_right sinsert [] l.

Definition n_v4plus : str := Eval compute in s2l "v4.00+".
Definition is_v4plus (d : adoc) : bool :=
  match ad_meta d with Some m => str_eqb (an_scripttype m) n_v4plus | None => false end.
Definition n_styles_hdr_v4 : str := Eval compute in s2l "[V4 Styles]".
Definition n_styles_hdr_v4p : str := Eval compute in s2l "[V4+ Styles]".
Definition n_events_hdr : str := Eval compute in s2l "[Events]".
Definition n_format_pfx : str := Eval compute in s2l "Format: ".
Definition n_style_pfx : str := Eval compute in s2l "Style: ".
Definition n_dialogue_pfx : str := Eval compute in s2l "Dialogue: ".
Definition comma_sp : str := [44; 32].

(* the styles block; [order] = the keys of s.Styles in the order the runtime ranges over them *)
Definition styles_bytes (d : adoc) (order : list str) : str :=
  let ids := ssort (filter (fun k => match sm_get k (ad_styles d) with Some (Some _) => true | _ => false end) order) in
  let sts := opt_cells (map (fun k => match sm_get k (ad_styles d) with Some o => o | None => None end) ids) in
  let fmt := fold_left (fun f st => update_format st f) sts [AName] in
  let tbl := fold_left (fun m st => sm_set (ay_name st) st m) sts [] in
  let names := ssort (map ay_name sts) in
  nl ++ (if is_v4plus d then n_styles_hdr_v4p else n_styles_hdr_v4) ++ nl ++
  n_format_pfx ++ join comma_sp (map sattr_name fmt) ++ nl ++
  concat (map (fun n => match sm_get n tbl with
                        | Some st => n_style_pfx ++ style_string st fmt ++ nl
                        | None => []     (* unreachable: every name was inserted *)
                        end) names).
Definition event_format (v4p : bool) : list eattr :=
  [if v4p then ELayer else EMarked; EStart; EEnd; EStyle; EName; EMarginL; EMarginR; EMarginV; EEffect; EText].
Definition events_bytes (d : adoc) : str :=
  let fmt := event_format (is_v4plus d) in
  nl ++ n_events_hdr ++ nl ++
  n_format_pfx ++ join comma_sp (map eattr_name fmt) ++ nl ++
  concat (map (fun i => n_dialogue_pfx ++ event_string (event_of_item i) fmt ++ nl) (ad_items d)).
(* WriteToSSA: the byte strings of the successive Write calls *)
Definition write_ssa_chunks (d : adoc) (order : list str) : res (list str) :=
  match ad_items d with
  | [] => Err ENothingToWrite
  | _ =>
    Ok ([info_bytes (match ad_meta d with Some m => m | None => ainfo0 end)] ++
        (match ad_styles d with [] => [] | _ => [styles_bytes d order] end) ++
        [events_bytes d])
  end.
Definition write_ssa (d : adoc) (order : list str) : res str :=
  match write_ssa_chunks d order with
  | Ok cs => Ok (concat cs)
  | Err k => Err k
  | Panic p => Panic p
  end.
(* the keys of the styles map in the order of the association list: one admissible iteration order *)
Definition style_keys (d : adoc) : list str := map fst (ad_styles d).
