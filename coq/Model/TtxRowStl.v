(* stl.go: the styler handed to parseTeletextRow / parseOpenSubtitleRow by the STL reader (stlStyler), as an instance
   of the styler record of Model/TtxRow.v, and the structured reading of a teletext-level STL row.  Definitions only.
   The pointer comparisons of stlStyler.hasChanged / update compare a pointer freshly allocated by astikit.BoolPtr (or
   nil) with the stored one: different unless both are nil (TtxRow.fresh_ne). *)
From Coq Require Import List ZArith NArith Bool.
From Astisub Require Import Kit.Base Kit.Str Model.TtxRow.
Import ListNotations.
Open Scope N_scope.

(* STLBoxing, STLItalics, STLUnderline of StyleAttributes; also the three fields of stlStyler *)
Record stlx := mkStlx { sx_boxing : option bool; sx_italics : option bool; sx_underline : option bool }.
Definition stlx0 : stlx := mkStlx None None None.

(* parseSpacingAttribute *)
Definition stl_parse (v : N) (s : stlx) : stlx :=
  if v =? 128 then mkStlx (sx_boxing s) (Some true) (sx_underline s)
  else if v =? 129 then mkStlx (sx_boxing s) (Some false) (sx_underline s)
  else if v =? 130 then mkStlx (sx_boxing s) (sx_italics s) (Some true)
  else if v =? 131 then mkStlx (sx_boxing s) (sx_italics s) (Some false)
  else if v =? 132 then mkStlx (Some true) (sx_italics s) (sx_underline s)
  else if v =? 133 then mkStlx (Some false) (sx_italics s) (sx_underline s)
  else s.
Definition stl_set (s : stlx) : bool := t_is_some (sx_italics s) || t_is_some (sx_boxing s) || t_is_some (sx_underline s).
Definition stl_changed (s x : stlx) : bool :=
  fresh_ne (sx_boxing s) (sx_boxing x) || fresh_ne (sx_italics s) (sx_italics x) || fresh_ne (sx_underline s) (sx_underline x).
Definition stl_update (s x : stlx) : stlx :=
  mkStlx (t_opt_or (sx_boxing s) (sx_boxing x)) (t_opt_or (sx_italics s) (sx_italics x)) (t_opt_or (sx_underline s) (sx_underline x)).
(* propagateStyleAttributes: propagateSTLAttributes reads STLJustification / STLPosition only, which a line item's inline
   style does not carry: nothing observable here *)
Definition stl_styler : styler stlx stlx := mkStyler stlx stlx stlx0 stl_parse stl_set stl_changed stl_update (fun x => x).

(* parseTeletextRow as the STL reader calls it, for any character decoder with state D *)
Definition stl_parse_row {D} (dec : D -> N -> res (str * D)) (d : D) (row : list N) : res (list (trun stlx) * D) :=
  parse_row stlx stlx D dec (Some stl_styler) stlx0 d row.

(* ---- structured reading of a row ---- *)
Record sseg := mkSseg { ss_codes : list N; ss_cells : list N }.
Record srow := mkSrow {
  sr_pre : list N;               (* in front of the start box: anything but a start box *)
  sr_segs : list sseg;           (* alternating groups of attributes and of other cells *)
  sr_end : option (list N)       (* end box and what follows: no attribute, no start box *)
}.
Definition is_sattr (v : N) : bool := (v <? 8) || ((12 <=? v) && (v <=? 15)) || ((128 <=? v) && (v <=? 133)).
Definition is_stext (v : N) : bool := negb (is_sattr v) && negb (v =? 10).
Definition srow_cells (r : srow) : list N :=
  sr_pre r ++ 11 :: flat_map (fun g => ss_codes g ++ ss_cells g) (sr_segs r)
  ++ match sr_end r with Some j => 10 :: j | None => [] end.

Definition sapply (s : tsty stlx) (v : N) : tsty stlx :=
  if v <? 8 then mkTsty (Some v) (ts_dh s) (ts_ds s) (ts_dw s) (ts_x s)
  else if v =? 12 then mkTsty (ts_color s) (Some false) (Some false) (Some false) (ts_x s)
  else if v =? 13 then mkTsty (ts_color s) (Some true) (ts_ds s) (ts_dw s) (ts_x s)
  else if v =? 14 then mkTsty (ts_color s) (ts_dh s) (ts_ds s) (Some true) (ts_x s)
  else if v =? 15 then mkTsty (ts_color s) (ts_dh s) (Some true) (ts_dw s) (ts_x s)
  else if (128 <=? v) && (v <=? 133) then mkTsty (ts_color s) (ts_dh s) (ts_ds s) (ts_dw s) (stl_update (stl_parse v stlx0) (ts_x s))
  else s.
(* an attribute ends the run in front of it unless it repeats the colour in force while no size and no STL attribute
   is in force *)
Definition seffective (s : tsty stlx) (v : N) : bool :=
  (12 <=? v) || negb (opt_eqb (Some v) (ts_color s)) || t_is_some (ts_dh s) || t_is_some (ts_ds s) || t_is_some (ts_dw s)
  || stl_set (ts_x s).

Section Text.
  Variable D : Type.
  Variables (dtext : D -> N -> str) (dnext : D -> N -> D).
  (* the text of a group of cells and the decoder afterwards *)
  Fixpoint stext (d : D) (cells : list N) : str * D :=
    match cells with
    | [] => ([], d)
    | v :: r => let (t, d') := stext (dnext d v) r in (dtext d v ++ t, d')
    end.
  Definition srun_of (txt : str) (s : tsty stlx) : list (trun stlx) :=
    match trim_space txt with
    | [] => []
    | t => [mkTrun t s (count_lead 32 txt) (count_lead 32 (rev txt))]
    end.
  Fixpoint sseg_runs (s : tsty stlx) (pend : str) (d : D) (segs : list sseg) : list (trun stlx) * D :=
    match segs with
    | [] => (srun_of pend s, d)
    | g :: r =>
      let (t, d') := stext d (ss_cells g) in
      if existsb (seffective s) (ss_codes g)
      then let (runs, d'') := sseg_runs (fold_left sapply (ss_codes g) s) t d' r in (srun_of pend s ++ runs, d'')
      else sseg_runs s (pend ++ t) d' r
    end.
  Definition spre_style (r : srow) : tsty stlx := fold_left sapply (filter is_sattr (sr_pre r)) (tsty0 stlx stlx0).
  (* the start box itself goes through the decoder like any cell inside the box (no known table has text for it) *)
  Definition srow_runs (d : D) (r : srow) : list (trun stlx) * D :=
    sseg_runs (spre_style r) (dtext d 11) (dnext d 11) (sr_segs r).
End Text.

Definition srow_ok (r : srow) : bool :=
  forallb (fun v => negb (v =? 11)) (sr_pre r)
  && forallb (fun g => forallb is_sattr (ss_codes g) && forallb is_stext (ss_cells g)) (sr_segs r)
  && match sr_end r with Some j => forallb (fun v => negb (is_sattr v) && negb (v =? 11)) j | None => true end.
