(* Conversion EBU STL -> TTML as the library does it: ReadFromSTL fills the shared cue list, WriteToTTML looks at the
   attributes it knows.  What WriteToTTML reads (ttml.go):
     - Metadata.Language through ttmlLanguageMapping.GetInverse (-> xml:lang), Metadata.Title and
       Metadata.TTMLCopyright (-> head>metadata); Metadata.Framerate is NOT written (no ttp:frameRate) - the
       field is carried in [tm_framerate] only because the writer model's record has it, [write_ttml] ignores it;
     - Regions and Styles: ReadFromSTL creates none;
     - per item StartAt / EndAt, the TTML* fields of Item.InlineStyle (ReadFromSTL sets STLJustification,
       STLPosition and, through propagateSTLAttributes, WebVTTAlign / WebVTTLine: nothing TTML), Item.Style and
       Item.Region (nil);
     - per line item a <span> with its Text, its Style (nil) and the TTML* fields of its InlineStyle: the only one
       the STL reader ever sets is TTMLColor, in appendTeletextLineItem -> propagateTeletextAttributes, as
       "#" + TeletextColor.TTMLString() when a teletext colour is in force ([a_col] = Some index);
     - <br/> between lines.
   STLItalics / STLUnderline / STLBoxing, the double height/size/width flags, TeletextSpacesBefore / After,
   the justification and the position do not cross: WriteToTTML does not look at them.
   ReadFromSTL stores the language NAME ("english", ...) in Metadata.Language; the TTML writer model keeps that name
   in [tm_lang] and maps it to the xml:lang code itself ([map_get_inv (tm_lang m) lang_table]).
   Definitions only. *)
From Coq Require Import List ZArith NArith Bool.
From Astisub Require Import Kit.Base Kit.Str Kit.Xml Model.Dur Model.Stl Model.Ttml Model.Plain Model.PlainTtml.
Import ListNotations.

(* the eight teletext colours parseTeletextRow assigns to the spacing attributes 0x00..0x07, as the (Red, Green,
   Blue) fields of subtitles.go's ColorBlack, ColorRed, ColorGreen (Green: 128), ColorYellow, ColorBlue,
   ColorMagenta, ColorCyan, ColorWhite; an index above 7 is not a colour (the reader never produces one:
   Proofs/ConvStlTtmlProofs.v, [stlttml_read_col]) *)
Definition stlttml_rgb (c : N) : option (N * N * N) :=
  match c with
  | 0 => Some (0, 0, 0)
  | 1 => Some (255, 0, 0)
  | 2 => Some (0, 128, 0)
  | 3 => Some (255, 255, 0)
  | 4 => Some (0, 0, 255)
  | 5 => Some (255, 0, 255)
  | 6 => Some (0, 255, 255)
  | 7 => Some (255, 255, 255)
  | _ => None
  end%N.
(* Color.TTMLString: Sprintf("%.6x", Red<<16 | Green<<8 | Blue) - six lower-case hexadecimal digits *)
Definition stlttml_hexdigit (v : N) : N := (if v <? 10 then 48 + v else 87 + v)%N.
Definition stlttml_hex2 (v : N) : str := [stlttml_hexdigit ((v / 16) mod 16); stlttml_hexdigit (v mod 16)]%N.
Definition stlttml_ttml_string (rgb : N * N * N) : str :=
  let '(r, g, b) := rgb in stlttml_hex2 r ++ stlttml_hex2 g ++ stlttml_hex2 b.
(* propagateTeletextAttributes: TTMLColor = "#" + TeletextColor.TTMLString() *)
Definition stlttml_colour (c : N) : option str :=
  match stlttml_rgb c with Some rgb => Some (35%N :: stlttml_ttml_string rgb) | None => None end.

(* TTMLOutStyleAttributes of a line item: only Color (the second of the 23 slots of [attr_names]) can be set *)
Definition stlttml_colour_attrs (col : str) : tattrs :=
  mkTA (None :: Some col :: map (fun _ => None) (skipn 2 attr_names)) None.
Definition stlttml_attrs (a : sattr_stl) : tattrs :=
  match a_col a with
  | Some c => match stlttml_colour c with Some col => stlttml_colour_attrs col | None => no_attrs end
  | None => no_attrs
  end.

Definition stlttml_run (r : erun) : trun := mkRun (ru_text r) None (stlttml_attrs (ru_at r)).
Definition stlttml_item (it : ritem) : titem :=
  mkItem (ri_st it) (ri_en it) None None no_attrs (map (map stlttml_run) (ri_lines it)).
(* what WriteToTTML sees of the cue list ReadFromSTL produced *)
Definition conv_stl_ttml (d : rdoc) : tdoc :=
  mkDoc (Some (mkMeta (rd_fps d) (rd_title d) [] (rd_lang d))) [] [] (map stlttml_item (rd_items d)).

(* file to file: astisub.ReadFromSTL(STLOptions{IgnoreTimecodeStartOfProgramme: ign}) then WriteToTTML with the
   default indent *)
Definition convert_stl_ttml (ign : bool) (data : str) : res str :=
  do d <- read_stl ign data; write_ttml_bytes ttml_default_indent (conv_stl_ttml d).

(* The library's bytes exactly: WriteToTTML goes through encoding/xml, whose EscapeText replaces characters that are
   not XML-legal and bytes that do not start a valid UTF-8 sequence by U+FFFD (Model/TtmlGo.v).  It matters here:
   ReadFromSTL takes the GSI title field as raw bytes (no code page), so Metadata.Title can be any byte string.
   This is the function the driver runs; on XML-legal values it is [convert_stl_ttml]
   (Proofs/ConvStlTtmlProofs.v, [convert_stl_ttml_go_legal]). *)
From Astisub Require Import Kit.XmlEsc Model.TtmlGo.
Definition convert_stl_ttml_go (ign : bool) (data : str) : res str :=
  do d <- read_stl ign data; write_ttml_bytes_go ttml_default_indent (conv_stl_ttml d).
(* the XML-legal cue lists: title and run texts ([rd_lang] is mapped to a code of the language table or dropped) *)
Definition stlttml_legalb (d : rdoc) : bool :=
  xml_legal (rd_title d) && forallb (fun it => forallb (forallb (fun r => xml_legal (ru_text r))) (ri_lines it)) (rd_items d).
