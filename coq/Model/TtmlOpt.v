(* subtitles.go Optimize (removeUnusedRegionsAndStyles) on the TTML document value: the same marking as
   Model/Ops.v, over string identifiers: used regions = those a cue names; used styles = those a cue, a run or
   a used region names, closed under style inheritance.  Definitions only. *)
From Coq Require Import List ZArith NArith Bool.
From Astisub Require Import Kit.Base Kit.Str Kit.Xml Model.Dur Model.Ttml.
Import ListNotations.

Definition topt_mem (k : str) (l : list str) : bool := existsb (str_eqb k) l.
Definition topt_list (o : option str) : list str := match o with Some x => [x] | None => [] end.
Definition topt_item_styles (it : titem) : list str :=
  topt_list (ti_style it) ++ flat_map (fun l => flat_map (fun r => topt_list (tr_style r)) l) (ti_lines it).
Definition topt_used_regions (l : list titem) : list str := flat_map (fun it => topt_list (ti_region it)) l.
(* styles referenced by used regions; the map is ranged over its values and tested on the value's ID *)
Definition topt_region_styles (used : list str) (rs : list (str * tstyle)) : list str :=
  flat_map (fun kv => if topt_mem (ts_id (snd kv)) used then topt_list (ts_ref (snd kv)) else []) rs.
(* mark a style and walk up its parent chain until an already marked style is met *)
Fixpoint topt_mark_chain (fuel : nat) (ss : list (str * tstyle)) (id : str) (used : list str) : list str :=
  match fuel with
  | O => used
  | S k => if topt_mem id used then used
           else match find (fun kv => str_eqb (ts_id (snd kv)) id) ss with
                | Some kv => match ts_ref (snd kv) with
                             | Some p => topt_mark_chain k ss p (id :: used)
                             | None => id :: used
                             end
                | None => id :: used
                end
  end.
Definition topt_mark_all (ss : list (str * tstyle)) (roots : list str) : list str :=
  fold_left (fun used id => topt_mark_chain (S (length ss)) ss id used) roots [].
Definition topt_roots (d : tdoc) : list str :=
  flat_map topt_item_styles (td_items d) ++ topt_region_styles (topt_used_regions (td_items d)) (td_regions d).
Definition ttml_optimize (d : tdoc) : tdoc :=
  match td_items d with
  | [] => d
  | _ =>
    let ur := topt_used_regions (td_items d) in
    let us := topt_mark_all (td_styles d) (topt_roots d) in
    mkDoc (td_meta d)
          (filter (fun kv => topt_mem (ts_id (snd kv)) us) (td_styles d))
          (filter (fun kv => topt_mem (ts_id (snd kv)) ur) (td_regions d))
          (td_items d)
  end.
