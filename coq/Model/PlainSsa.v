(* SSA/ASS through the plain view of C07 (Model/Plain.v): the unstyled document an unstyled cue list amounts to for
   WriteToSSA (no metadata, no styles, no item attributes, one unstyled run per line, no speaker), and the plain cues of
   what ReadFromSSA returns (per line the run texts put together, as Line.String does).  Definitions only. *)
From Coq Require Import List ZArith NArith Bool.
From Astisub Require Import Kit.Base Kit.Str Model.Plain Model.Ssa.
Import ListNotations.

Definition ssa_of_plain (p : plain) : adoc :=
  mkAdoc None []
         (map (fun c : pcue => let '(s, e, ls) := c in
                 mkAitem s e None None (map (fun t => mkAline [] [mkArun t None]) ls)) p).
Definition ssa_line_text (l : aline) : str := concat (map ar_text (al_runs l)).
Definition ssa_to_plain (d : adoc) : plain :=
  map (fun i => (ai_start i, ai_end i, map ssa_line_text (ai_lines i))) (ad_items d).
(* the styles map is empty: nothing to range over *)
Definition ssa_enc (p : plain) : res str := write_ssa (ssa_of_plain p) [].
Definition ssa_dec : str -> res plain := dec_with read_ssa ssa_to_plain.
(* time unit of the format: the centisecond *)
Definition ssa_unit : Z := 10000000%Z.
