(* EBU STL -> WebVTT as the library converts: ReadFromSTL fills the shared cue list, WriteToWebVTT looks at the
   attributes it knows.  What crosses:
     - per cue the times, and the cue's InlineStyle (always set by the STL reader) with WebVTTAlign / WebVTTLine as
       propagateSTLAttributes derived them from the justification code and the vertical position: they are written
       as the cue settings  align:...  line:... ;
     - per run the trimmed text; the run's InlineStyle is always set, its WebVTTTags are empty (STLItalics,
       STLUnderline, STLBoxing, double height/size/width are not looked at by the WebVTT writer: they are LOST);
     - the teletext colour of a run: appendTeletextLineItem calls propagateTeletextAttributes, which sets
       TTMLColor = "#" + hex of the colour; the writer renders it as a class <c.NAME> only for the five colours of
       its cssColor map, i.e. for red, yellow, magenta, cyan among the eight teletext colours (teletext green is
       #008000, the map knows lime #00ff00 only): black, green, blue, white are LOST.
   No comments, region, styles, regions, timestamp map: ReadFromSTL sets none.  The cue index is not looked at by
   the writer (cues are numbered from 1 as they come).
   The space the STL file may have had between two runs of a row is not part of the cue list: the reader trims
   every run, the WebVTT writer puts run texts side by side.
   Definitions only. *)
From Coq Require Import List ZArith NArith Bool.
From Astisub Require Import Kit.Base Kit.Str Model.Dur Model.Srt Model.Vtt Model.Stl.
Import ListNotations.
Open Scope N_scope.

(* "#" + Color.TTMLString() ("%.6x" of red<<16|green<<8|blue) for ColorBlack, ColorRed, ColorGreen, ColorYellow,
   ColorBlue, ColorMagenta, ColorCyan, ColorWhite: the colours parseTeletextRow gives the codes 0..7 (Stl.stl_ttx_row
   sets no other index; open-subtitling rows carry no colour at all) *)
Definition stlvtt_ttml_color (c : N) : option str :=
  if c =? 0 then Some [35;48;48;48;48;48;48]               (* #000000 *)
  else if c =? 1 then Some [35;102;102;48;48;48;48]        (* #ff0000 *)
  else if c =? 2 then Some [35;48;48;56;48;48;48]          (* #008000 *)
  else if c =? 3 then Some [35;102;102;102;102;48;48]      (* #ffff00 *)
  else if c =? 4 then Some [35;48;48;48;48;102;102]        (* #0000ff *)
  else if c =? 5 then Some [35;102;102;48;48;102;102]      (* #ff00ff *)
  else if c =? 6 then Some [35;48;48;102;102;102;102]      (* #00ffff *)
  else if c =? 7 then Some [35;102;102;102;102;102;102]    (* #ffffff *)
  else None.
(* InlineStyle.TTMLColor of a run: set (propagateTeletextAttributes) iff TeletextColor is *)
Definition stlvtt_color (a : sattr_stl) : option str :=
  match a_col a with Some c => stlvtt_ttml_color c | None => None end.

(* a run: Text; InlineStyle present with no WebVTT tag; StartAt zero; TTMLColor *)
Definition stlvtt_run (r : erun) : vrun := mkVrun (ru_text r) (Some []) 0%Z (stlvtt_color (ru_at r)).
(* a line: no voice name *)
Definition stlvtt_line (l : list erun) : vline := mkVline (map stlvtt_run l) [].
(* a cue: InlineStyle present with WebVTTAlign and WebVTTLine, the other WebVTT settings empty; Style nil (no
   fall-back); Region nil; no comment; Index zero *)
Definition stlvtt_item (it : ritem) : vitem :=
  mkVitem 0 (ri_st it) (ri_en it) [] None (Some (mkVset (ri_align it) (ri_line it) [] [] [])) None
          (map stlvtt_line (ri_lines it)).
Definition conv_stl_vtt (d : rdoc) : vdoc := mkVdoc (map stlvtt_item (rd_items d)) [] [] None.

(* file to file *)
Definition convert_stl_vtt (ign : bool) (data : str) : res str :=
  do d <- read_stl ign data; write_vtt (conv_stl_vtt d) [] [].

(* ---- the same bytes from a document the WebVTT write/read theorem covers ----
   A run is written as  [<c.CLASS>] escaped text [</c>] , CLASS the writer's name of its colour (none: no tag).
   The document below is written to the same bytes (ConvStlVttProofs.stlvtt_norm_bytes, under [stlvtt_sepb]): the
   colour class becomes the tag c.CLASS, and adjacent runs without class are one run (nothing is written between
   them, a reader sees one text). *)
Definition stlvtt_class (r : erun) : str :=
  match stlvtt_color (ru_at r) with Some c => css_color c | None => [] end.
(* (class, text) *)
Definition stlvtt_seg (r : erun) : str * str := (stlvtt_class r, ru_text r).
Fixpoint stlvtt_merge (l : list (str * str)) : list (str * str) :=
  match l with
  | [] => []
  | (c, t) :: rest =>
    match c, stlvtt_merge rest with
    | [], ([], t') :: rest' => ([], t ++ t') :: rest'
    | _, m => (c, t) :: m
    end
  end.
Definition stlvtt_ctag (c : str) : vtag := mkVtag [99] [] [c].
Definition stlvtt_seg_run (s : str * str) : vrun :=
  match fst s with
  | [] => mkVrun (snd s) None 0%Z None
  | c => mkVrun (snd s) (Some [stlvtt_ctag c]) 0%Z None
  end.
Definition stlvtt_nline (l : list erun) : vline := mkVline (map stlvtt_seg_run (stlvtt_merge (map stlvtt_seg l))) [].
Definition stlvtt_nitem (it : ritem) : vitem :=
  mkVitem 0 (ri_st it) (ri_en it) [] None (Some (mkVset (ri_align it) (ri_line it) [] [] [])) None
          (map stlvtt_nline (ri_lines it)).
Definition stlvtt_norm (d : rdoc) : vdoc := mkVdoc (map stlvtt_nitem (rd_items d)) [] [] None.

(* when the two documents are written alike: no two adjacent runs of the same written colour class (they are
   written  <c.red>a</c><c.red>b</c> , which no document of the write/read theorem is written to), and no run
   ending with the byte 0xC2 (with a next run starting with 0xA0 the two would make a no-break space, escaped as a
   whole; the reader's run texts are trimmed UTF-8 strings, where a lone 0xC2 cannot end a text - a remark, not a
   lemma of this development) *)
Definition stlvtt_ends_c2 (t : str) : bool := match rev t with 194 :: _ => true | _ => false end.
Fixpoint stlvtt_sep_segs (prev : option str) (l : list (str * str)) : bool :=
  match l with
  | [] => true
  | (c, t) :: rest =>
    negb (stlvtt_ends_c2 t) &&
    (match prev, c with Some p, _ :: _ => negb (str_eqb p c) | _, _ => true end) &&
    stlvtt_sep_segs (Some c) rest
  end.
Definition stlvtt_sepb (d : rdoc) : bool :=
  forallb (fun it => forallb (fun l => stlvtt_sep_segs None (map stlvtt_seg l)) (ri_lines it)) (rd_items d).
