(* C07, styled conversions into EBU STL: what WriteToSTL sees of a cue list produced by the SubRip, WebVTT, SSA/ASS and TTML
   readers.  None of those readers (nor propagateSRT/TTML/SSA/WebVTTAttributes in subtitles.go) sets an STL attribute
   (STLItalics, STLUnderline, STLBoxing, STLJustification, STLPosition), so of the cues WriteToSTL sees the times and, per
   line, the texts of the line items - which it joins with a space (stl.go newTTIBlock: strings.Join(lineItems, " ")) -;
   of the metadata it sees Framerate (used when 25 or 30), Language (when stlLanguageMapping knows it) and Title (written
   to the original programme title): SubRip leaves Metadata nil, WebVTT sets it only for a timestamp map (nothing the STL
   writer reads), SSA carries the script's Title, TTML the frame rate, title and mapped language.  Definitions only. *)
From Coq Require Import List ZArith NArith Bool.
From Astisub Require Import Kit.Base Kit.Str Kit.Scan Model.Dur Model.Plain Model.Srt Model.Vtt Model.Ssa Model.Ttml Model.PlainTtml
  Model.Stl Model.PlainStl.
Import ListNotations.

(* the runs view of a cue list: per cue start, end and, per line, the texts of its line items *)
Definition rvcue : Type := (Z * Z * list (list str))%type.
Definition stl_of_runs (rv : list rvcue) : list witem :=
  map (fun c : rvcue => let '(s, e, ls) := c in
         mkWitem s e None None (map (map (fun t => mkWrun t false false false)) ls)) rv.
(* Metadata with Framerate, Language, Title only *)
Definition stl_meta_of (fps : Z) (lang title : str) : wmeta :=
  mkWmeta fps lang title [] None [] [] [] None None [] [] None 0 [] 0 [] [] [] [].
(* the plain view of the runs view (run texts put together), and the runs of each line joined with a blank *)
Definition rv_concat (rv : list rvcue) : plain := map (fun c : rvcue => let '(s, e, ls) := c in (s, e, map (@concat N) ls)) rv.
Definition rv_joined (rv : list rvcue) : plain := map (fun c : rvcue => let '(s, e, ls) := c in (s, e, map (join [32%N]) ls)) rv.
(* a text with its blanks removed; the comparison of C07 for destinations whose writer puts a blank between runs *)
Definition stl_nows (s : str) : str := filter (fun c => negb (N.eqb c 32)) s.
Definition plain_nows (p : plain) : plain := map (fun c : pcue => let '(s, e, ls) := c in (s, e, map stl_nows ls)) p.

(* ---- SubRip -> STL ---- *)
Definition srt_runs (l : list sitem) : list rvcue := map (fun it => (si_st it, si_en it, map (map sr_text) (si_lines it))) l.
Definition conv_srt_stl (l : list sitem) : option wmeta * list witem := (None, stl_of_runs (srt_runs l)).
(* ---- WebVTT -> STL: Metadata exists only to hold a timestamp map ---- *)
Definition vtt_runs (d : vdoc) : list rvcue :=
  map (fun it => (vi_st it, vi_en it, map (fun l => map vr_text (vl_runs l)) (vi_lines it))) (vd_items d).
Definition conv_vtt_stl (d : vdoc) : option wmeta * list witem :=
  (match vd_tsmap d with Some _ => Some (stl_meta_of 0 [] []) | None => None end, stl_of_runs (vtt_runs d)).
(* ---- SSA/ASS -> STL: the script info's Title ---- *)
Definition ssa_runs (d : adoc) : list rvcue :=
  map (fun i => (ai_start i, ai_end i, map (fun l => map ar_text (al_runs l)) (ai_lines i))) (ad_items d).
Definition conv_ssa_stl (d : adoc) : option wmeta * list witem :=
  (match ad_meta d with Some b => Some (stl_meta_of 0 [] (an_title b)) | None => None end, stl_of_runs (ssa_runs d)).
(* ---- TTML -> STL: frame rate, title, language ---- *)
Definition ttml_runs (d : tdoc) : list rvcue :=
  map (fun it => (ti_st it, ti_en it, map (map tr_txt) (ti_lines it))) (td_items d).
Definition conv_ttml_stl (d : tdoc) : option wmeta * list witem :=
  (match td_meta d with Some m => Some (stl_meta_of (tm_framerate m) (tm_lang m) (tm_title m)) | None => None end,
   stl_of_runs (ttml_runs d)).

(* file to file (the clock fixed as in Model/PlainStl.v) *)
Definition write_conv_stl (x : option wmeta * list witem) : res str := write_stl stl_plain_now (fst x) (snd x).
Definition convert_srt_stl (data : str) : res str :=
  match read_srt data with Ok l => write_conv_stl (conv_srt_stl l) | Err k => Err k | Panic p => Panic p end.
Definition convert_vtt_stl (data : str) : res str :=
  match read_vtt data with Ok d => write_conv_stl (conv_vtt_stl d) | Err k => Err k | Panic p => Panic p end.
Definition convert_ssa_stl (data : str) : res str :=
  match read_ssa data with Ok d => write_conv_stl (conv_ssa_stl d) | Err k => Err k | Panic p => Panic p end.
Definition convert_ttml_stl (data : str) : res str :=
  match read_ttml_bytes2 data with Ok d => write_conv_stl (conv_ttml_stl d) | Err k => Err k | Panic p => Panic p end.
