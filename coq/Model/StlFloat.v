(* The float64 path of stl.go's formatDurationSTL / formatDurationSTLBytes, transcribed with
   Kit/Float64.v.  Go's time.Duration accessors are
     func (d Duration) Hours() float64 { hour := d / Hour; nsec := d % Hour
                                         return float64(hour) + float64(nsec)/(60*60*1e9) }
   (same shape for Minutes with 60*1e9 and Seconds with 1e9): one truncating integer division,
   two exact conversions, one rounded division, one rounded addition.
   stl.go then takes int(math.Floor(.)) of each, subtracting the field from d in between, and the
   string version tests d.Hours() < 10 (resp. Minutes, Seconds) to emit a leading "0".
   Definitions only; the equivalence with the integer model Dur.stl_fields is in
   Proofs/StlFloatProofs.v. *)
From Coq Require Import ZArith Bool.
From Flocq Require Import Core BinarySingleNaN.
From Astisub Require Import Kit.Float64 Model.Dur.
Open Scope Z_scope.

(* d.Hours() for c = hour_ns, d.Minutes() for c = minute_ns, d.Seconds() for c = second_ns *)
Definition dur_unit_float (c t : Z) : f64 :=
  fadd (of_Z (Z.quot t c)) (fdiv (of_Z (Z.rem t c)) (of_Z c)).

(* the four fields as the Go code computes them (frames: integer arithmetic) *)
Definition stl_fields_float (t fps : Z) : Z * Z * Z * Z :=
  let h := floor_Z (dur_unit_float hour_ns t) in
  let t1 := t - h * hour_ns in
  let m := floor_Z (dur_unit_float minute_ns t1) in
  let t2 := t1 - m * minute_ns in
  let s := floor_Z (dur_unit_float second_ns t2) in
  let t3 := t2 - s * second_ns in
  (h, m, s, Z.quot (t3 * fps) second_ns).

(* d.Hours() < 10, d.Minutes() < 10, d.Seconds() < 10: a float64 comparison *)
Definition lt10_float (c t : Z) : bool :=
  match @Bcompare prec emax (dur_unit_float c t) (of_Z 10) with
  | Some Lt => true
  | _ => false
  end.
