(* The command-line tool (astisub/main.go) on top of the plain conversion: every sub-command opens the first input,
   applies at most one operation (validated flags), and writes the output; the codec on each side is chosen by the file
   extension (Model/Files.v).  Definitions only. *)
From Coq Require Import List ZArith NArith Bool.
From Astisub Require Import Kit.Base Kit.Str Model.Plain Model.PlainOps.
Import ListNotations.
Open Scope Z_scope.

Inductive subcmd := SApplyLin | SConvert | SFragment | SMerge | SOptimize | SSync | SUnfragment | SInvalid.

Record cli_args := mkCli {
  c_cmd : subcmd;
  c_a1 : Z; c_d1 : Z; c_a2 : Z; c_d2 : Z;   (* -a1 -d1 -a2 -d2 *)
  c_f : Z;                                  (* -f *)
  c_s : Z;                                  (* -s *)
  c_second : option plain                   (* the second -i input, already read *)
}.

(* flag validation and the operation the sub-command applies (log.Fatal = Err) *)
Definition cli_ops (a : cli_args) : res (list pop) :=
  match c_cmd a with
  | SApplyLin =>
    if (c_a1 a <=? 0) || (c_d1 a <=? 0) || (c_a2 a <=? 0) || (c_d2 a <=? 0) then Err EOther
    else Ok [PLin (c_a1 a) (c_d1 a) (c_a2 a) (c_d2 a)]
  | SConvert => Ok []
  | SFragment => if c_f a <=? 0 then Err EOther else Ok [PFragment (c_f a)]
  | SMerge => match c_second a with Some p => Ok [PMerge p] | None => Err EOther end
  | SOptimize => Ok [POptimize]
  | SSync => if c_s a =? 0 then Err EOther else Ok [PAdd (c_s a)]
  | SUnfragment => Ok [PUnfragment]
  | SInvalid => Err EOther
  end.

Definition cli_run {SA SB : Type} (decA : SA -> res plain) (encB : plain -> res SB) (a : cli_args) (data : SA) : res SB :=
  match cli_ops a with
  | Ok ops => convert_plain_ops decA encB ops data
  | Err k => Err k
  | Panic p => Panic p
  end.
